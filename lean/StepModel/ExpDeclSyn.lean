import StepModel.ExpParse
/-!
# declaration syntax: types and formal parameters (property C07)

Token image of `TYPE_head_out` / `TYPE_body_out` / `EXPRbounds_out` / `TYPEunique_or_optional_out` (`src/exppp/pretty_type.c`)
for every type form of `expparse.y` (`basic_type` with `precision_spec` / `optional_fixed`, `aggregation_type`,
`conformant_aggregation`, `generic_type`, `aggregate_type`, `defined_type`) and of `ALGargs_out`
(`src/exppp/pretty_alg.c`: adjacent formal parameters are merged while the type *object* and the VAR flag stay the same),
together with a recursive-descent reader of those tokens following `parameter_type` / `formal_parameter_list` /
`formal_parameter` of the grammar.  Embedded expressions (`precision`, bounds) are single tokens here: their own
print/parse round trip is `C07_parse_print`.
Which simple types get their `( precision )` / `FIXED` printed and whether the merge rule looks at VAR come from
`Generated.ExpPrec` (regenerated from the source).
-/
namespace StepModel.Express
open StepModel.Generated

inductive DTok
  | kw (s : String) | id (s : String) | sym (s : String) | ex (e : Expr)
  deriving DecidableEq, Repr, Inhabited

inductive Ty
  | named (s : String)
  | simple (kw : String) (prec : Option Expr) (fixed : Bool)
  | aggr (kind : String) (bounds : Option (Expr × Expr)) (uniq opt : Bool) (base : Ty)
  | generic (label : Option String)
  | aggregate (label : Option String) (base : Ty)
  deriving DecidableEq, Repr, Inhabited

def simpleKinds : List String := ["INTEGER", "REAL", "STRING", "BINARY", "BOOLEAN", "LOGICAL", "NUMBER"]
def aggrKinds : List String := ["ARRAY", "BAG", "LIST", "SET"]

/-- `TYPE_head_out` / `TYPE_body_out` as tokens -/
def tyToks : Ty → List DTok
  | .named s => [.id s]
  | .simple k prec fixed =>
    [.kw k]
      ++ (match prec with
          | some e => if ExpPrec.precisionKinds.contains k then [.sym "(", .ex e, .sym ")"] else []
          | none => [])
      ++ (if fixed && ExpPrec.precisionKinds.contains k then [.kw "FIXED"] else [])
  | .aggr k bounds uq op base =>
    [.kw k]
      ++ (match bounds with
          | some (lo, hi) => [.sym "[", .ex lo, .sym ":", .ex hi, .sym "]"]
          | none => [])
      ++ [.kw "OF"]
      ++ (if (k = "ARRAY" ∨ k = "LIST") ∧ uq then [.kw "UNIQUE"] else [])
      ++ (if (k = "ARRAY" ∨ k = "LIST") ∧ op then [.kw "OPTIONAL"] else [])
      ++ tyToks base
  | .generic none => [.kw "GENERIC"]
  | .generic (some l) => [.kw "GENERIC", .sym ":", .id l]
  | .aggregate none base => [.kw "AGGREGATE", .kw "OF"] ++ tyToks base
  | .aggregate (some l) base => [.kw "AGGREGATE", .sym ":", .id l, .kw "OF"] ++ tyToks base

/-- optional `( precision )` -/
def takePrec : List DTok → Option Expr × List DTok
  | .sym "(" :: .ex e :: .sym ")" :: r => (some e, r)
  | r => (none, r)
/-- optional `[ lo : hi ]` -/
def takeBounds : List DTok → Option (Expr × Expr) × List DTok
  | .sym "[" :: .ex lo :: .sym ":" :: .ex hi :: .sym "]" :: r => (some (lo, hi), r)
  | r => (none, r)
/-- optional keyword -/
def takeKw (k : String) : List DTok → Bool × List DTok
  | .kw k' :: r => if k' = k then (true, r) else (false, .kw k' :: r)
  | r => (false, r)

/-- reader of a type following `parameter_type` / `attribute_type` (fuel: nesting depth) -/
def parseTy : Nat → List DTok → Option (Ty × List DTok)
  | 0, _ => none
  | n + 1, ts =>
    match ts with
    | .id s :: r => some (.named s, r)
    | .kw k :: r =>
      if k = "GENERIC" then
        match r with
        | .sym ":" :: .id l :: r' => some (.generic (some l), r')
        | _ => some (.generic none, r)
      else if k = "AGGREGATE" then
        let (lab, r1) := match r with
          | .sym ":" :: .id l :: r1 => (some l, r1)
          | _ => (none, r)
        match r1 with
        | .kw "OF" :: r2 =>
          match parseTy n r2 with
          | some (b, r') => some (.aggregate lab b, r')
          | none => none
        | _ => none
      else if aggrKinds.contains k then
        let (bounds, r1) := takeBounds r
        match r1 with
        | .kw "OF" :: r2 =>
          let (uq, r3) := takeKw "UNIQUE" r2
          let (op, r4) := takeKw "OPTIONAL" r3
          match parseTy n r4 with
          | some (b, r') => some (.aggr k bounds uq op b, r')
          | none => none
        | _ => none
      else if simpleKinds.contains k then
        let (prec, r1) := takePrec r
        let (fx, r2) := takeKw "FIXED" r1
        some (.simple k prec fx, r2)
      else none
    | _ => none

/-- types the grammar can produce -/
def wfTy : Ty → Prop
  | .named _ => True
  | .simple k prec fixed =>
    k ∈ simpleKinds ∧ (prec.isSome → k ∈ ["INTEGER", "REAL", "STRING", "BINARY"]) ∧ (fixed = true → k ∈ ["STRING", "BINARY"])
  | .aggr k _ uq op base =>
    k ∈ aggrKinds ∧ (uq = true → k = "ARRAY" ∨ k = "LIST") ∧ (op = true → k = "ARRAY") ∧ wfTy base
  | .generic _ => True
  | .aggregate _ base => wfTy base

def tyDepth : Ty → Nat
  | .aggr _ _ _ _ b => tyDepth b + 1
  | .aggregate _ b => tyDepth b + 1
  | _ => 1

/-- what may follow a type in a declaration: not something the type reader would take for a part of the type -/
def TyFol : List DTok → Prop
  | .sym s :: _ => s ≠ "(" ∧ s ≠ ":"
  | .kw k :: _ => k ≠ "FIXED"
  | _ => True

/-! ## formal parameters -/

/-- a formal parameter as `ALGargs_out` sees it: `obj` identifies the `Type` object (`v->type`) -/
structure Param where
  name : String
  var : Bool
  ty : Ty
  obj : Nat
  deriving Repr, DecidableEq

/-- does `ALGargs_out` start a new group at `p` after `prev` -/
def newGroup (prev p : Param) : Bool :=
  prev.obj != p.obj || (ExpPrec.argsMergeChecksVar && prev.var != p.var)

/-- the loop of `ALGargs_out` after the first parameter (`prev` = previous parameter) -/
def argsLoop (prev : Param) : List Param → List DTok
  | [] => [.sym ":"] ++ tyToks prev.ty
  | p :: ps =>
    (if newGroup prev p then
       [.sym ":"] ++ tyToks prev.ty ++ [.sym ";"] ++ (if p.var then [.kw "VAR"] else []) ++ [.id p.name]
     else [.sym ",", .id p.name])
      ++ argsLoop p ps

/-- `ALGargs_out` between the parentheses of a FUNCTION / PROCEDURE header -/
def argsToks : List Param → List DTok
  | [] => []
  | p :: ps => (if p.var then [.kw "VAR"] else []) ++ [.id p.name] ++ argsLoop p ps

/-- `id {, id}` -/
def parseIds : Nat → List DTok → List String × List DTok
  | 0, ts => ([], ts)
  | n + 1, ts =>
    match ts with
    | .sym "," :: .id s :: r =>
      let (ss, r') := parseIds n r
      (s :: ss, r')
    | _ => ([], ts)

/-- `formal_parameter_rep`: groups `[VAR] id {, id} : type` separated by `;`, expanded to (name, VAR, type) triples -/
def parseParams : Nat → List DTok → Option (List (String × Bool × Ty) × List DTok)
  | 0, _ => none
  | n + 1, ts =>
    let (var, r0) := match ts with
      | .kw "VAR" :: r0 => (true, r0)
      | _ => (false, ts)
    match r0 with
    | .id s :: r1 =>
      let (ss, r2) := parseIds n r1
      match r2 with
      | .sym ":" :: r3 =>
        match parseTy n r3 with
        | some (t, r4) =>
          let grp := (s :: ss).map (fun x => (x, var, t))
          match r4 with
          | .sym ";" :: r5 =>
            match parseParams n r5 with
            | some (rest, r6) => some (grp ++ rest, r6)
            | none => none
          | _ => some (grp, r4)
        | none => none
      | _ => none
    | _ => none

/-! ## LOCAL block (`SCOPElocals_out`) -/

structure Local where
  name : String
  ty : Ty
  init : Option Expr
  deriving Repr, DecidableEq

/-- `max_indent` of `SCOPElocals_out`: the width of the name column.  The block is printed only when it is not 0. -/
def localsWidth (ls : List Local) : Nat :=
  if ExpPrec.localsWidthIsNameLength then ls.foldl (fun m l => max m l.name.length) 0 else 0

def localToks (l : Local) : List DTok :=
  [.id l.name, .sym ":"] ++ tyToks l.ty ++ (match l.init with | some e => [.sym ":=", .ex e] | none => []) ++ [.sym ";"]

/-- `SCOPElocals_out` as tokens: nothing when `max_indent` is 0, else LOCAL, one declaration per variable, END_LOCAL; -/
def localsToks (ls : List Local) : List DTok :=
  if localsWidth ls = 0 then [] else [.kw "LOCAL"] ++ ls.flatMap localToks ++ [.kw "END_LOCAL", .sym ";"]

/-- the declarations between LOCAL and END_LOCAL (`local_variable` with a one-element id list) -/
def parseLocalList : Nat → List DTok → Option (List Local × List DTok)
  | 0, _ => none
  | n + 1, ts =>
    match ts with
    | .kw "END_LOCAL" :: .sym ";" :: r => some ([], r)
    | .id s :: .sym ":" :: r =>
      match parseTy n r with
      | some (t, .sym ":=" :: .ex e :: .sym ";" :: r') =>
        match parseLocalList n r' with
        | some (ls, r'') => some (⟨s, t, some e⟩ :: ls, r'')
        | none => none
      | some (t, .sym ";" :: r') =>
        match parseLocalList n r' with
        | some (ls, r'') => some (⟨s, t, none⟩ :: ls, r'')
        | none => none
      | _ => none
    | _ => none

/-- `local_decl` or nothing -/
def parseLocals (n : Nat) : List DTok → Option (List Local × List DTok)
  | .kw "LOCAL" :: r => parseLocalList n r
  | r => some ([], r)

def Param.triple (p : Param) : String × Bool × Ty := (p.name, p.var, p.ty)

end StepModel.Express

import StepModel.Generated.AttrNullGen
import StepModel.Generated.StepFileGen
/-!
The glue between "the mode the caller asked for" and "the mode `STEPattribute::STEPread` is handed" (property C15):

* p21read's command line (src/test/p21read/p21read.cc): a getopt clone that applies every letter of every flag argument
  (clusters like `-ts`), stops at `--` and at the first argument that is not a flag;
* `STEPfile::_strict` as state of a STEPfile object over a history of read calls, successful or failed
  (`Generated.strictSites`: which read function assigns it where).
-/
namespace StepModel.ModeGlue
open StepModel.Generated

/-! ### p21read's options -/

structure Opts where
  strict : Bool := false
  ignoreErr : Bool := false
  trackStats : Bool := true
  version : Bool := false      -- `-v`: print the version and exit 0
  usage : Bool := false        -- unknown letter: print the usage and exit 1
  deriving DecidableEq, Repr

def isFlagArg (a : String) : Bool :=
  match a.toList with
  | '-' :: _ :: _ => true
  | _ => false

/-- one letter of a flag argument (`switch( c )` of p21read's main) -/
def applyLetter (o : Opts) (c : Char) : Opts :=
  if o.version || o.usage then o      -- the program has exited
  else if !p21readOptLetters.contains c then { o with usage := true }
  else if c = 'i' then { o with ignoreErr := true }
  else if c = 't' then { o with trackStats := false }
  else if c = 's' then { o with strict := p21readStrictWithDashS }
  else if c = 'v' then { o with version := true }
  else { o with usage := true }

/-- the option loop: (options, the arguments that are left = file names) -/
def parseArgs : Opts → List String → Opts × List String
  | o, [] => (o, [])
  | o, a :: rest =>
    if a = "--" then (o, rest)
    else if isFlagArg a then parseArgs (a.toList.tail.foldl applyLetter o) rest
    else (o, a :: rest)

def initial : Opts := { strict := p21readStrictDefault }

/-- the flag arguments the loop looks at: up to `--` or the first argument that is not a flag -/
def flagArgs : List String → List String
  | [] => []
  | a :: rest => if a = "--" then [] else if isFlagArg a then a :: flagArgs rest else []

/-! ### `_strict` over the life of a STEPfile object -/

inductive Fn where | readExchange | appendExchange | readWorking | appendWorking
  deriving DecidableEq, Repr

def Fn.key : Fn → String
  | .readExchange => "readExchange" | .appendExchange => "appendExchange"
  | .readWorking => "readWorking" | .appendWorking => "appendWorking"

structure Site where
  pre : Option Bool      -- constant assigned before the file is opened
  restore : Bool         -- the value saved at entry is restored after AppendFile (success path only)
  deriving DecidableEq, Repr

def siteOf (sites : List (String × Option Bool × Bool)) (f : Fn) : Site :=
  match sites.find? (fun s => s.1 == f.key) with
  | some (_, p, r) => ⟨p, r⟩
  | none => ⟨none, false⟩

/-- one call: `opened` = the file could be opened (otherwise the function returns early).  Returns the mode the reader is
    handed (when the file is read at all) and `_strict` afterwards. -/
def callMode (sites : List (String × Option Bool × Bool)) (cur : Bool) (f : Fn) (opened : Bool) : Bool × Bool :=
  let s := siteOf sites f
  let used := match s.pre with | some b => b | none => cur
  (used, if opened && s.restore then cur else used)

/-- `_strict` after a history of calls -/
def afterHistory (sites : List (String × Option Bool × Bool)) (cur : Bool) : List (Fn × Bool) → Bool
  | [] => cur
  | (f, ok) :: h => afterHistory sites (callMode sites cur f ok).2 h

end StepModel.ModeGlue

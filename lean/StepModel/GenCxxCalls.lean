import StepModel.GenCxxFrame
/-! The `MakeDerived` call list of an entity with ANY supertype graph (several supertypes, shared ancestors), in closed form:
`populateAttrList` with its search offsets and `dedupList` reduce to a recursion over the supertype lists on attribute NAMES
(`callInfo`): the first supertype, in SUBTYPE OF order, that knows the name decides who created the attribute and whether it is
already marked; the entity's own attributes of that name add their mark (or create it). -/
namespace StepModel.GenCxx
open StepModel.Generated

/-- `popStepM` for the regenerated marking rule, on (entity, attribute) pairs (= `popStep`) -/
theorem popStep_def (acc : List OA) (p : String × Attr) :
    popStep acc p = match markFirst p.2.name acc with
      | some acc' => if marksDerived p.2 then acc' else acc
      | none => acc ++ [newOA p] := rfl

/-- the `orderedAttr` list `populateAttrList` builds for `n` on its own -/
def seg (s : Schema) : Nat → String → List OA
  | 0, _ => []
  | f + 1, n =>
    match s.findE n with
    | none => []
    | some e => (e.attrs.map (fun a => (n, a))).foldl popStep (e.supers.flatMap (seg s f))

theorem markFrom_ctx (l x : List OA) (nm : String) :
    markFrom l.length nm (l ++ x) = (markFirst nm x).map (l ++ ·) := by
  unfold markFrom
  simp

theorem own_fold_ctx (n : String) (l : List OA) (attrs : List Attr) (x : List OA) :
    attrs.foldl (fun acc a =>
        match markFrom l.length a.name acc with
        | some acc' => if marksDerived a then acc' else acc
        | none => acc ++ [{ name := a.name, creator := n, deriver := a.kind == .derived }]) (l ++ x) =
      l ++ (attrs.map (fun a => (n, a))).foldl popStep x := by
  induction attrs generalizing x with
  | nil => rfl
  | cons a as ih =>
    simp only [List.foldl_cons, List.map_cons]
    rw [markFrom_ctx, popStep_def]
    cases hm : markFirst a.name x with
    | none =>
      simp only [Option.map_none]
      rw [List.append_assoc]
      exact ih _
    | some x' =>
      simp only [Option.map_some]
      by_cases hk : marksDerived a = true
      · simp only [hk, ↓reduceIte]; exact ih _
      · simp only [hk]; exact ih _

/-- the search offsets make every entity's part of the list independent of what precedes it -/
theorem populate_ctx (s : Schema) (f : Nat) : ∀ n l, populateN s f n l = l ++ seg s f n := by
  induction f with
  | zero => intro n l; simp [populateN, seg]
  | succ f ih =>
    intro n l
    rw [populateN_succ]
    unfold seg
    cases s.findE n with
    | none => simp
    | some e =>
      simp only
      have hsup : ∀ (L : List String) (acc : List OA),
          L.foldl (fun acc sup => populateN s f sup acc) acc = acc ++ L.flatMap (seg s f) := by
        intro L
        induction L with
        | nil => intro acc; simp
        | cons q qs ihq => intro acc; simp only [List.foldl_cons, List.flatMap_cons]; rw [ih, ihq, List.append_assoc]
      rw [hsup]
      exact own_fold_ctx n l e.attrs _

/-! ## the first entry of a name -/

def firstNamed (x : String) (l : List OA) : Option (String × Bool) :=
  (l.find? (fun o => o.name == x)).map (fun o => (o.creator, o.deriver))

theorem firstNamed_cons (x : String) (o : OA) (l : List OA) :
    firstNamed x (o :: l) = if o.name == x then some (o.creator, o.deriver) else firstNamed x l := by
  unfold firstNamed
  rw [List.find?_cons]
  cases o.name == x <;> rfl

theorem firstNamed_append (x : String) (a b : List OA) :
    firstNamed x (a ++ b) = (firstNamed x a).or (firstNamed x b) := by
  induction a with
  | nil => simp [firstNamed]
  | cons o os ih =>
    rw [List.cons_append, firstNamed_cons, firstNamed_cons]
    cases o.name == x <;> simp [ih]

theorem firstNamed_flatMap (x : String) (L : List String) (g : String → List OA) :
    firstNamed x (L.flatMap g) = L.findSome? (fun q => firstNamed x (g q)) := by
  induction L with
  | nil => rfl
  | cons q qs ih =>
    rw [List.flatMap_cons, firstNamed_append, List.findSome?_cons, ih]
    cases firstNamed x (g q) <;> rfl

theorem firstNamed_none_iff (x : String) (l : List OA) : firstNamed x l = none ↔ x ∉ names l := by
  induction l with
  | nil => simp [firstNamed, names]
  | cons o os ih =>
    rw [firstNamed_cons]
    by_cases h : o.name = x
    · simp [h, names]
    · have : (o.name == x) = false := by simpa using h
      simp only [this, Bool.false_eq_true, ↓reduceIte, ih]
      simp only [names, List.map_cons, List.mem_cons, not_or]
      exact ⟨fun hh => ⟨fun e => h e.symm, hh⟩, fun hh => hh.2⟩

theorem firstNamed_markFirst (x nm : String) (l l' : List OA) (h : markFirst nm l = some l') :
    firstNamed x l' = if x == nm then (firstNamed x l).map (fun p => (p.1, true)) else firstNamed x l := by
  induction l generalizing l' with
  | nil => simp [markFirst] at h
  | cons o os ih =>
    unfold markFirst at h
    by_cases ho : o.name = nm
    · have : (o.name == nm) = true := by simpa using ho
      simp only [this, ↓reduceIte, Option.some.injEq] at h
      subst h
      rw [firstNamed_cons, firstNamed_cons]
      by_cases hx : x = nm
      · subst hx
        simp [ho]
      · have h1 : (x == nm) = false := by simpa using hx
        have h2 : (o.name == x) = false := by rw [ho]; simpa using (fun e => hx e.symm)
        simp [h1, h2]
    · have : (o.name == nm) = false := by simpa using ho
      simp only [this, Bool.false_eq_true, ↓reduceIte, Option.map_eq_some_iff] at h
      obtain ⟨os', hos, rfl⟩ := h
      rw [firstNamed_cons, firstNamed_cons, ih os' hos]
      by_cases hx : x = nm
      · subst hx
        have h2 : (o.name == x) = false := by simpa using ho
        simp [h2]
      · have h1 : (x == nm) = false := by simpa using hx
        simp [h1]

/-- what one own attribute does to the first entry of a name -/
def infoStep (n : String) (x : String) (cur : Option (String × Bool)) (a : Attr) : Option (String × Bool) :=
  if a.name == x then
    match cur with
    | some (cr, d) => some (cr, d || marksDerived a)
    | none => some (n, a.kind == .derived)
  else cur

theorem firstNamed_popStep (x n : String) (acc : List OA) (a : Attr) :
    firstNamed x (popStep acc (n, a)) = infoStep n x (firstNamed x acc) a := by
  rw [popStep_def]
  unfold infoStep
  cases hm : markFirst a.name acc with
  | some acc' =>
    simp only
    have hin : a.name ∈ names acc :=
      Decidable.byContradiction (fun hc => by rw [markFirst_none.mpr hc] at hm; cases hm)
    by_cases hk : marksDerived a = true
    · simp only [hk, ↓reduceIte, Bool.or_true]
      rw [firstNamed_markFirst x a.name acc acc' hm]
      by_cases hx : a.name = x
      · subst hx
        simp only [beq_self_eq_true, ↓reduceIte]
        cases hf : firstNamed a.name acc with
        | none => exact absurd hin ((firstNamed_none_iff _ _).mp hf)
        | some p => rfl
      · have h1 : (x == a.name) = false := by simpa using (fun e => hx e.symm)
        have h2 : (a.name == x) = false := by simpa using hx
        simp [h1, h2]
    · have hk' : marksDerived a = false := by simpa using hk
      simp only [hk', Bool.false_eq_true, ↓reduceIte, Bool.or_false]
      by_cases hx : a.name = x
      · subst hx
        simp only [beq_self_eq_true, ↓reduceIte]
        cases hf : firstNamed a.name acc with
        | none => exact absurd hin ((firstNamed_none_iff _ _).mp hf)
        | some p => rfl
      · have h2 : (a.name == x) = false := by simpa using hx
        simp [h2]
  | none =>
    simp only
    have hnot := markFirst_none.mp hm
    rw [firstNamed_append]
    by_cases hx : a.name = x
    · subst hx
      have hnone : firstNamed a.name acc = none := (firstNamed_none_iff _ _).mpr hnot
      rw [hnone]
      simp [firstNamed, newOA]
    · have h2 : (a.name == x) = false := by simpa using hx
      simp [h2, firstNamed, newOA]

/-! ## the closed form -/

/-- creator and mark of the attribute a `MakeDerived( x, … )` call of `n` would name, by recursion over the supertype lists -/
def callInfo (s : Schema) : Nat → String → String → Option (String × Bool)
  | 0, _, _ => none
  | f + 1, n, x =>
    match s.findE n with
    | none => none
    | some e => e.attrs.foldl (infoStep n x) (e.supers.findSome? (fun sup => callInfo s f sup x))

theorem firstNamed_seg (s : Schema) (x : String) (f : Nat) : ∀ n, firstNamed x (seg s f n) = callInfo s f n x := by
  induction f with
  | zero => intro n; rfl
  | succ f ih =>
    intro n
    unfold seg callInfo
    cases s.findE n with
    | none => rfl
    | some e =>
      simp only
      have hown : ∀ (attrs : List Attr) (acc : List OA),
          firstNamed x ((attrs.map (fun a => (n, a))).foldl popStep acc) = attrs.foldl (infoStep n x) (firstNamed x acc) := by
        intro attrs
        induction attrs with
        | nil => intro acc; rfl
        | cons a as iha =>
          intro acc
          simp only [List.map_cons, List.foldl_cons]
          rw [iha, firstNamed_popStep]
      rw [hown, firstNamed_flatMap]
      congr 1
      congr 1
      funext q
      exact ih q

/-! ## `dedupList` -/

def keyOA (o : OA) : String × String := (o.name, o.creator)

theorem dedup_any (acc : List OA) (x : OA) :
    acc.any (fun y => y.name == x.name && y.creator == x.creator) = true ↔ keyOA x ∈ acc.map keyOA := by
  simp only [List.any_eq_true, Bool.and_eq_true, beq_iff_eq, List.mem_map, keyOA, Prod.mk.injEq]

theorem firstNamed_split (x : String) (pre post : List OA) (o : OA) (ho : o.name = x)
    (hpre : ∀ p ∈ pre, p.name ≠ x) : firstNamed x (pre ++ o :: post) = some (o.creator, o.deriver) := by
  induction pre with
  | nil => simp [firstNamed, ho]
  | cons y ys ih =>
    rw [List.cons_append, firstNamed_cons]
    have : (y.name == x) = false := by simpa using hpre y (by simp)
    simp only [this, Bool.false_eq_true, ↓reduceIte]
    exact ih (fun p hp => hpre p (by simp [hp]))

theorem firstNamed_some (x : String) (l : List OA) (cr : String) (d : Bool) (h : firstNamed x l = some (cr, d)) :
    ∃ pre o post, l = pre ++ o :: post ∧ o.name = x ∧ o.creator = cr ∧ o.deriver = d ∧ ∀ p ∈ pre, p.name ≠ x := by
  induction l with
  | nil => simp [firstNamed] at h
  | cons y ys ih =>
    rw [firstNamed_cons] at h
    by_cases hy : y.name = x
    · have : (y.name == x) = true := by simpa using hy
      simp only [this, ↓reduceIte, Option.some.injEq, Prod.mk.injEq] at h
      exact ⟨[], y, ys, rfl, hy, h.1, h.2, by simp⟩
    · have : (y.name == x) = false := by simpa using hy
      simp only [this, Bool.false_eq_true, ↓reduceIte] at h
      obtain ⟨pre, o, post, e, h1, h2, h3, h4⟩ := ih h
      refine ⟨y :: pre, o, post, by rw [e]; rfl, h1, h2, h3, ?_⟩
      intro p hp
      rcases List.mem_cons.mp hp with rfl | hp
      · exact hy
      · exact h4 p hp

end StepModel.GenCxx

import StepModel.ExpressLex
import StepModel.ExpressDiagLemmas
/-! The argument of every lexical diagnostic of `Express.Lex` is the text of the input at the reported offset
(`lexDiags_offends`), and fits the format of its code (`lexDiags_fits`). -/
namespace StepModel.Express.Lex
open StepModel.Generated
open StepModel.Express.Diag (Arg)

/-! ### `spanLen` -/

theorem spanLen_take (p : Char → Bool) : ∀ (l : List Char), ∀ x ∈ l.take (spanLen p l), p x = true
  | [], x, h => by simp [spanLen] at h
  | c :: cs, x, h => by
    by_cases hc : p c = true
    · simp only [spanLen, hc, if_true, List.take_succ_cons, List.mem_cons] at h
      rcases h with h | h
      · subst h; exact hc
      · exact spanLen_take p cs x h
    · simp [spanLen, hc] at h

theorem spanLen_drop_head (p : Char → Bool) : ∀ (l : List Char) (x : Char), (l.drop (spanLen p l)).head? = some x → p x = false
  | [], x, h => by simp [spanLen] at h
  | c :: cs, x, h => by
    by_cases hc : p c = true
    · simp only [spanLen, hc, if_true, List.drop_succ_cons] at h
      exact spanLen_drop_head p cs x h
    · simp only [spanLen, hc, Bool.false_eq_true, if_false, List.drop_zero, List.head?_cons, Option.some.injEq] at h
      subst h; simpa using hc

theorem spanLen_le (p : Char → Bool) : ∀ (l : List Char), spanLen p l ≤ l.length
  | [] => by simp [spanLen]
  | c :: cs => by
    by_cases hc : p c = true
    · simp only [spanLen, hc, if_true, List.length_cons]; have := spanLen_le p cs; omega
    · simp [spanLen, hc]

/-! ### what a diagnostic's argument must be, given the input from its offset on -/

/-- `suf` is the input from the diagnostic's offset on -/
def ArgOK (suf : List Char) (code : Nat) (arg : Option Arg) : Prop :=
  match arg with
  | none => code = LibErrors.UNTERMINATED_STRING ∨ code = LibErrors.UNMATCHED_CLOSE_COMMENT
  | some (.str t) =>
    -- the whole identifier: starts with the underscore, is the input text, consists of identifier characters, is maximal
    code = LibErrors.BAD_IDENTIFIER ∧ t.head? = some '_' ∧ suf.take t.length = t ∧
      (∀ x ∈ t.tail, isIdChar x = true) ∧ (∀ x, (suf.drop t.length).head? = some x → isIdChar x = false)
  | some (.chr n) =>
    ∃ ch, suf.head? = some ch ∧ ch.toNat = n ∧
      ((code = LibErrors.UNEXPECTED_CHARACTER ∧ isIllegal ch = true) ∨ (code = LibErrors.ENCODED_STRING_BAD_DIGIT ∧ isHex ch = false))
  | some (.int n) =>
    -- the number of characters between the opening quote and the end of the literal
    code = LibErrors.ENCODED_STRING_BAD_COUNT ∧ suf.head? = some '"' ∧ n % 8 ≠ 0 ∧
      ∃ k : Nat, n = (k : Int) ∧ k + 1 ≤ suf.length ∧ ∀ x ∈ (suf.drop 1).take k, x ≠ '"'
  | some (.real _) => False

/-- the property for a whole input -/
def Offends (input : List Char) (d : LDiag) : Prop := ArgOK (input.drop d.off) d.code d.arg

theorem badDigits_spec : ∀ (body : List Char) (off0 : Nat) (d : LDiag), d ∈ badDigits body off0 →
    ∃ i ch, d.off = off0 + i ∧ d.code = LibErrors.ENCODED_STRING_BAD_DIGIT ∧ (body.drop i).head? = some ch ∧
      d.arg = some (.chr ch.toNat) ∧ isHex ch = false
  | [], _, d, h => by simp [badDigits] at h
  | c :: cs, off0, d, h => by
    simp only [badDigits] at h
    split at h
    · obtain ⟨i, ch, h1, h2, h3, h4, h5⟩ := badDigits_spec cs (off0 + 1) d h
      exact ⟨i + 1, ch, by omega, h2, by simpa using h3, h4, h5⟩
    next hx =>
      rcases List.mem_cons.mp h with h | h
      · subst h
        exact ⟨0, c, rfl, rfl, by simp, rfl, by simpa using hx⟩
      · obtain ⟨i, ch, h1, h2, h3, h4, h5⟩ := badDigits_spec cs (off0 + 1) d h
        exact ⟨i + 1, ch, by omega, h2, by simpa using h3, h4, h5⟩

theorem head_drop_take {l : List Char} {m i : Nat} {ch : Char} (h : ((l.take m).drop i).head? = some ch) :
    (l.drop i).head? = some ch := by
  rw [List.head?_drop] at h ⊢
  rw [List.getElem?_take] at h
  split at h
  · exact h
  · simp at h

/-- the diagnostics of an encoded string literal whose characters between the quotes are `r.take m`, the opening quote at
    relative offset 0 -/
theorem encodedDiags_ok (r : List Char) (m : Nat) (hm : m ≤ r.length) (hq : ∀ x ∈ r.take m, x ≠ '"') :
    ∀ d ∈ encodedDiags (r.take m) 0, ArgOK (('"' :: r).drop d.off) d.code d.arg := by
  intro d hd
  simp only [encodedDiags, List.mem_append] at hd
  rcases hd with hd | hd
  · obtain ⟨i, ch, h1, h2, h3, h4, h5⟩ := badDigits_spec _ _ d hd
    have h3' := head_drop_take h3
    rw [h4, h2, h1]
    have e : 0 + 1 + i = i + 1 := by omega
    exact ⟨ch, by rw [e, List.drop_succ_cons]; exact h3', rfl, Or.inr ⟨rfl, h5⟩⟩
  · split at hd
    next hne =>
      simp only [List.mem_singleton] at hd
      subst hd
      have hl : (r.take m).length = m := by rw [List.length_take]; exact Nat.min_eq_left hm
      simp only [ArgOK, List.drop_zero, List.head?_cons, true_and]
      refine ⟨by rw [hl] at hne ⊢; omega, m, by rw [hl], by simp; omega, ?_⟩
      simpa using hq
    · simp at hd

theorem codeDiags_ok (c : Char) (r : List Char) : ∀ d ∈ codeDiags c r, ArgOK ((c :: r).drop d.off) d.code d.arg := by
  intro d hd
  unfold codeDiags at hd
  split at hd
  next hc =>
    split at hd
    · simp only [List.mem_singleton] at hd; subst hd; subst hc
      exact ⟨'%', by simp, rfl, Or.inl ⟨rfl, by decide⟩⟩
    · simp at hd
  next hc =>
    split at hd
    next hu =>
      simp only [List.mem_singleton] at hd; subst hd; subst hu
      simp only [ArgOK, List.drop_zero, List.head?_cons, List.length_cons, List.take_succ_cons, List.tail_cons, true_and]
      have hl : (r.take (spanLen isIdChar r)).length = spanLen isIdChar r := by
        rw [List.length_take]; exact Nat.min_eq_left (spanLen_le _ _)
      refine ⟨by rw [hl], spanLen_take isIdChar r, ?_⟩
      intro x hx
      rw [hl, List.drop_succ_cons] at hx
      exact spanLen_drop_head isIdChar r x hx
    next hu =>
      split at hd
      next hq =>
        split at hd
        · simp only [List.mem_singleton] at hd; subst hd; first | exact Or.inl rfl | exact Or.inr rfl
        · simp at hd
      next hq =>
        split at hd
        next hdq =>
          subst hdq
          simp only at hd
          split at hd
          next r2 heq =>
            exact encodedDiags_ok r _ (spanLen_le _ _)
              (fun x hx => by have := spanLen_take _ r x hx; simp at this; exact this.1) d hd
          next r2 heq =>
            rcases List.mem_cons.mp hd with hd | hd
            · subst hd; first | exact Or.inl rfl | exact Or.inr rfl
            · have hlen : spanLen (fun x => x ≠ '"' && x ≠ '\n') r + 1 ≤ r.length := by
                have := congrArg List.length heq
                rw [List.length_drop] at this
                simp only [List.length_cons] at this
                omega
              refine encodedDiags_ok r _ hlen ?_ d hd
              intro x hx
              rw [List.take_add_one] at hx
              rcases List.mem_append.mp hx with hx | hx
              · have := spanLen_take _ r x hx; simp at this; exact this.1
              · have hh := congrArg List.head? heq
                rw [List.head?_drop] at hh
                simp only [List.head?_cons] at hh
                rw [hh] at hx
                simp only [Option.toList_some, List.mem_singleton] at hx
                subst hx; decide
          · simp at hd
        next hdq =>
          split at hd
          next hs =>
            split at hd
            · simp only [List.mem_singleton] at hd; subst hd; first | exact Or.inl rfl | exact Or.inr rfl
            · simp at hd
          next hs =>
            split at hd
            next hi =>
              simp only [List.mem_singleton] at hd; subst hd
              exact ⟨c, by simp, rfl, Or.inl ⟨rfl, hi⟩⟩
            · simp at hd

theorem step_ok (cond : Cond) (c : Char) (r : List Char) :
    ∀ d ∈ (step cond c r).diags, ArgOK ((c :: r).drop d.off) d.code d.arg := by
  intro d hd
  cases cond with
  | code => exact codeDiags_ok c r d (by simpa [step, stepCode] using hd)
  | comment n =>
    simp only [step, stepComment] at hd
    split at hd
    · split at hd <;> simp at hd
    · split at hd
      · split at hd <;> simp at hd
      · simp at hd

/-- every diagnostic of the scanner run from offset `pos` on quotes the input at its own offset -/
theorem lexFrom_ok (input : List Char) : ∀ (cond : Cond) (pos : Nat) (rest : List Char), input.drop pos = rest →
    ∀ d ∈ lexFrom cond pos rest, Offends input d := by
  intro cond pos rest
  induction h : rest.length using Nat.strongRecOn generalizing cond pos rest with
  | _ n ih =>
    intro hdrop d hd
    cases rest with
    | nil => simp [lexFrom] at hd
    | cons c r =>
      rw [lexFrom] at hd
      simp only [List.mem_append, List.mem_map] at hd
      rcases hd with ⟨d0, hd0, rfl⟩ | hd
      · have := step_ok cond c r d0 hd0
        simp only [Offends]
        have e : input.drop (d0.off + pos) = (c :: r).drop d0.off := by
          rw [Nat.add_comm, ← List.drop_drop, hdrop]
        rw [e]; exact this
      · refine ih _ ?_ _ _ _ rfl ?_ d hd
        · subst h; simp [List.length_drop]; omega
        · have : pos + ((step cond c r).len - 1) + 1 = pos + ((step cond c r).len - 1 + 1) := by omega
          rw [this, ← List.drop_drop, hdrop, List.drop_succ_cons]

/-- the argument of a lexical diagnostic fits the format of its code (regenerated table) -/
theorem argOK_fits (suf : List Char) (code : Nat) (arg : Option Arg) (h : ArgOK suf code arg) :
    Diag.fits (Diag.parseFmt (Diag.formatOf code)) arg.toList = true := by
  apply Diag.fits_of_codeFits
  cases arg with
  | none =>
    rcases h with h | h <;> (subst h; decide)
  | some a =>
    cases a with
    | str t => obtain ⟨h, _⟩ := h; subst h; show Diag.codeFits LibErrors.BAD_IDENTIFIER [.str] = true; decide
    | chr n =>
      obtain ⟨_, _, _, h⟩ := h
      rcases h with ⟨h, _⟩ | ⟨h, _⟩
      · subst h; show Diag.codeFits LibErrors.UNEXPECTED_CHARACTER [.chr] = true; decide
      · subst h; show Diag.codeFits LibErrors.ENCODED_STRING_BAD_DIGIT [.chr] = true; decide
    | int n => obtain ⟨h, _⟩ := h; subst h; show Diag.codeFits LibErrors.ENCODED_STRING_BAD_COUNT [.int] = true; decide
    | real t => exact absurd h (by simp [ArgOK])

/-- **the argument of every lexical diagnostic is the offending text of the input at the reported offset** -/
theorem lexDiags_offends (input : List Char) (d : LDiag) (h : d ∈ lexDiags input) : Offends input d :=
  lexFrom_ok input .code 0 input (by simp) d h

theorem lexDiags_fits (input : List Char) (d : LDiag) (h : d ∈ lexDiags input) :
    Diag.fits (Diag.parseFmt (Diag.formatOf d.code)) d.arg.toList = true :=
  argOK_fits _ _ _ (lexDiags_offends input d h)

end StepModel.Express.Lex

import StepModel.GenNodeList
/-! Lemmas about the ring representation of `GenNodeList` (helper file; property theorems are in `Props/C13.lean`). -/
namespace StepModel.GenNodeList

@[simp] theorem setNext_next_same (h : Heap) (a : Nat) (v) : (setNext h a v a).next = v := by simp [setNext]
@[simp] theorem setNext_prev (h : Heap) (a x : Nat) (v) : (setNext h a v x).prev = (h x).prev := by
  unfold setNext; split <;> simp_all
theorem setNext_next_ne (h : Heap) {a x : Nat} (v) (hx : x ≠ a) : (setNext h a v x).next = (h x).next := by
  simp [setNext, hx]
@[simp] theorem setPrev_prev_same (h : Heap) (a : Nat) (v) : (setPrev h a v a).prev = v := by simp [setPrev]
@[simp] theorem setPrev_next (h : Heap) (a x : Nat) (v) : (setPrev h a v x).next = (h x).next := by
  unfold setPrev; split <;> simp_all
theorem setPrev_prev_ne (h : Heap) {a x : Nat} (v) (hx : x ≠ a) : (setPrev h a v x).prev = (h x).prev := by
  simp [setPrev, hx]
theorem setNext_ne (h : Heap) {a x : Nat} (v) (hx : x ≠ a) : setNext h a v x = h x := by simp [setNext, hx]
theorem setPrev_ne (h : Heap) {a x : Nat} (v) (hx : x ≠ a) : setPrev h a v x = h x := by simp [setPrev, hx]

theorem cell_ext {c d : Cell} (h1 : c.next = d.next) (h2 : c.prev = d.prev) : c = d := by
  cases c; cases d; simp_all

theorem links_split (h : Heap) : ∀ (A : List Nat) (x : Nat) (B : List Nat),
    Links h (A ++ x :: B) ↔ Links h (A ++ [x]) ∧ Links h (x :: B)
  | [], x, B => by simp [Links]
  | [a], x, B => by simp [Links]
  | a :: a' :: A, x, B => by
    have := links_split h (a' :: A) x B
    simp only [List.cons_append, Links] at this ⊢
    rw [this, and_assoc]

theorem links_frame {h h' : Heap} : ∀ (P : List Nat), Links h P →
    (∀ x ∈ P.dropLast, (h' x).next = (h x).next) → (∀ x ∈ P.tail, (h' x).prev = (h x).prev) → Links h' P
  | [], _, _, _ => trivial
  | [_], _, _, _ => trivial
  | a :: b :: rest, hl, hn, hp => by
    obtain ⟨⟨h1, h2⟩, h3⟩ := hl
    refine ⟨⟨?_, ?_⟩, links_frame (b :: rest) h3 ?_ ?_⟩
    · rw [hn a (by simp [List.dropLast])]; exact h1
    · rw [hp b (by simp)]; exact h2
    · intro x hx; exact hn x (by simp [List.dropLast] at hx ⊢; exact Or.inr hx)
    · intro x hx; exact hp x (by simp at hx ⊢; exact Or.inr hx)

/-- cells outside a ring do not matter -/
theorem ring_frame {h h' : Heap} {head : Nat} {L : List Nat} (hr : Ring h head L)
    (hf : ∀ x ∈ head :: L, h' x = h x) : Ring h' head L := by
  refine ⟨hr.1, links_frame _ hr.2 ?_ ?_⟩
  · intro x hx
    have : x ∈ head :: L := by
      have := List.dropLast_subset _ hx
      simp at this ⊢; rcases this with h | h | h <;> simp [h]
    rw [hf x this]
  · intro x hx
    have : x ∈ head :: L := by simp at hx ⊢; rcases hx with h | h <;> simp [h]
    rw [hf x this]


theorem ring_last {h : Heap} {head : Nat} {L : List Nat} (hr : Ring h head L) :
    ∃ X p, head :: L = X ++ [p] ∧ Links h (X ++ [p]) ∧ (h p).next = some head ∧ (h head).prev = some p := by
  rcases List.eq_nil_or_concat (head :: L) with h0 | ⟨X, p, hP⟩
  · simp at h0
  · rw [List.concat_eq_append] at hP
    refine ⟨X, p, hP, ?_⟩
    have h2 := hr.2
    rw [show head :: L ++ [head] = X ++ p :: [head] by rw [hP]; simp] at h2
    rw [links_split] at h2
    exact ⟨h2.1, h2.2.1.1, h2.2.1.2⟩

/-- `GenNodeList::Append` / `InsertBefore( n, head )` on a ring: the node becomes the last member; no null pointer is met;
    cells outside the ring and the node are untouched -/
theorem ring_insertBefore {h : Heap} {head n : Nat} {L : List Nat} (hr : Ring h head L) (hn : n ∉ head :: L) :
    ∃ h', insertBefore h n head = some h' ∧ Ring h' head (L ++ [n]) ∧
      ∀ x, x ∉ head :: L → x ≠ n → h' x = h x := by
  obtain ⟨X, p, hP, hX, hpn, hhp⟩ := ring_last hr
  have hnd := hr.1
  have hpm : p ∈ head :: L := by rw [hP]; simp
  have hnp : n ≠ p := fun e => hn (e ▸ hpm)
  have hnh : n ≠ head := fun e => hn (by simp [e])
  refine ⟨_, by simp only [insertBefore, hhp]; rfl, ⟨?_, ?_⟩, ?_⟩
  · have : (head :: (L ++ [n])) = (head :: L) ++ [n] := by simp
    rw [this]
    exact List.nodup_append.2 ⟨hnd, by simp, by intro a ha b hb; simp at hb; subst hb; intro e; exact hn (e ▸ ha)⟩
  · rw [show head :: (L ++ [n]) ++ [head] = X ++ p :: n :: [head] by
      have : head :: (L ++ [n]) ++ [head] = (head :: L) ++ [n, head] := by simp
      rw [this, hP]; simp]
    rw [links_split]
    refine ⟨links_frame _ hX ?_ ?_, ?_⟩
    · intro x hx
      have hxX : x ∈ X := by simpa using hx
      have hxP : x ∈ head :: L := by rw [hP]; simp [hxX]
      have hxp : x ≠ p := by
        rw [hP] at hnd
        have := (List.nodup_append.1 hnd).2.2 x hxX p (by simp)
        exact this
      have hxn : x ≠ n := fun e => hn (e ▸ hxP)
      simp [setNext_next_ne, hxp, hxn]
    · intro x hx
      have hxL : x ∈ L := by rw [← hP] at hx; simpa using hx
      have hxn : x ≠ n := fun e => hn (by simp [← e, hxL])
      have hxh : x ≠ head := by
        intro e; subst e; exact (List.nodup_cons.1 hnd).1 hxL
      simp [setPrev_prev_ne, hxn, hxh]
    · simp only [Links, Link, and_true]
      refine ⟨⟨?_, ?_⟩, ?_, ?_⟩
      · simp [setNext_next_ne, Ne.symm hnp]
      · simp [setPrev_prev_ne, hnh, hhp]
      · simp
      · simp
  · intro x hx hxn
    have hxp : x ≠ p := fun e => hx (e ▸ hpm)
    have hxh : x ≠ head := fun e => hx (by simp [e])
    simp [setNext_ne, setPrev_ne, hxp, hxh, hxn]


theorem removeSelf_eq {h : Heap} {n p q : Nat} (hq : (h n).next = some q) (hp : (h n).prev = some p) (hnq : n ≠ q) :
    removeSelf h n = setPrev (setNext (setNext (setPrev h q (some p)) p (some q)) n none) n none := by
  simp [removeSelf, hq, hp, setPrev_prev_ne, hnq]

/-- a node that is in no list: `GenericNode::Remove()` changes nothing -/
theorem removeSelf_unlinked {h : Heap} {n : Nat} (hu : h n = Cell.unlinked) : removeSelf h n = h := by
  have h1 : (h n).next = none := by rw [hu]; rfl
  have h2 : (h n).prev = none := by rw [hu]; rfl
  funext x
  simp only [removeSelf, h1, h2]
  by_cases e : x = n
  · subst e; exact cell_ext (by simp [setNext, setPrev, h1]) (by simp [h2])
  · simp [setNext_ne, setPrev_ne, e]

/-- `GenericNode::Remove()` on a member of a ring: the node leaves the ring, its own pointers are null afterwards,
    cells outside the ring are untouched -/
theorem ring_removeSelf {h : Heap} {head n : Nat} {L : List Nat} (hr : Ring h head L) (hn : n ∈ L) :
    Ring (removeSelf h n) head (L.erase n) ∧ removeSelf h n n = Cell.unlinked ∧
      ∀ x, x ∉ head :: L → removeSelf h n x = h x := by
  obtain ⟨L1, L2, rfl⟩ := List.append_of_mem hn
  have hnd := hr.1
  have hl := hr.2
  -- distinctness facts
  have hnd' : (head :: L1 ++ n :: L2).Nodup := by simpa using hnd
  rw [List.nodup_append] at hnd'
  obtain ⟨ndA, ndB, hAB⟩ := hnd'
  have ndB' := List.nodup_cons.1 ndB
  have nL1 : n ∉ L1 := fun hm => hAB n (by simp [hm]) n (by simp) rfl
  have nhead : n ≠ head := fun e => hAB head (by simp) n (by simp) e.symm
  have hErase : (L1 ++ n :: L2).erase n = L1 ++ L2 := by
    rw [List.erase_append_right _ nL1]; simp
  rw [hErase]
  rcases List.eq_nil_or_concat (head :: L1) with h0 | ⟨X, p, hP⟩
  · simp at h0
  rw [List.concat_eq_append] at hP
  obtain ⟨q, Y, hQ⟩ : ∃ q Y, L2 ++ [head] = q :: Y := by
    cases L2 with
    | nil => exact ⟨head, [], rfl⟩
    | cons a t => exact ⟨a, t ++ [head], rfl⟩
  have hpath : head :: (L1 ++ n :: L2) ++ [head] = X ++ p :: n :: q :: Y := by
    have : head :: (L1 ++ n :: L2) ++ [head] = (head :: L1) ++ n :: (L2 ++ [head]) := by simp
    rw [this, hP, hQ]; simp
  rw [hpath, links_split, show p :: n :: q :: Y = [p] ++ n :: q :: Y from rfl, links_split, ] at hl
  obtain ⟨hX, hpn, hnq, hY⟩ : Links h (X ++ [p]) ∧ Link h p n ∧ Link h n q ∧ Links h (q :: Y) := by
    simpa [Links, and_assoc] using hl
  have pA : p ∈ head :: L1 := by rw [hP]; simp
  have qB : q ∈ L2 ++ [head] := by rw [hQ]; simp
  have hpn' : p ≠ n := by
    intro e; subst e
    rcases List.mem_cons.1 pA with e | e
    · exact nhead e
    · exact nL1 e
  have hqn : q ≠ n := by
    intro e; subst e
    rcases List.mem_append.1 qB with e | e
    · exact ndB'.1 e
    · exact nhead (by simpa using e)
  have hEq := removeSelf_eq hnq.1 hpn.2 (Ne.symm hqn)
  have disj : ∀ a ∈ head :: L1, ∀ b ∈ L2, a ≠ b := fun a ha b hb => hAB a ha b (by simp [hb])
  refine ⟨⟨?_, ?_⟩, ?_, ?_⟩
  · have : head :: (L1 ++ L2) = (head :: L1) ++ L2 := by simp
    rw [this]
    exact List.nodup_append.2 ⟨ndA, ndB'.2, disj⟩
  · have hpath' : head :: (L1 ++ L2) ++ [head] = X ++ p :: q :: Y := by
      have : head :: (L1 ++ L2) ++ [head] = (head :: L1) ++ (L2 ++ [head]) := by simp
      rw [this, hP, hQ]; simp
    rw [hpath', links_split, hEq]
    refine ⟨links_frame _ hX ?_ ?_, ?_⟩
    · intro x hx
      have hxX : x ∈ X := by simpa using hx
      have hxA : x ∈ head :: L1 := by rw [hP]; simp [hxX]
      have hxp : x ≠ p := by
        rw [hP] at ndA
        exact (List.nodup_append.1 ndA).2.2 x hxX p (by simp)
      have hxn : x ≠ n := by
        intro e; subst e
        rcases List.mem_cons.1 hxA with e | e
        · exact nhead e
        · exact nL1 e
      simp [setNext_next_ne, hxp, hxn]
    · intro x hx
      have hxL : x ∈ L1 := by rw [← hP] at hx; simpa using hx
      have hxn : x ≠ n := fun e => nL1 (e ▸ hxL)
      have hxq : x ≠ q := by
        intro e; subst e
        rcases List.mem_append.1 qB with e | e
        · exact disj x (by simp [hxL]) x e rfl
        · have : x = head := by simpa using e
          subst this; exact (List.nodup_cons.1 ndA).1 hxL
      simp [setPrev_prev_ne, hxn, hxq]
    · refine ⟨⟨?_, ?_⟩, links_frame _ hY ?_ ?_⟩
      · simp [setNext_next_ne, hpn']
      · simp [setPrev_prev_ne, hqn]
      · intro x hx
        have hxL : x ∈ L2 := by rw [← hQ] at hx; simpa using hx
        have hxn : x ≠ n := fun e => ndB'.1 (e ▸ hxL)
        have hxp : x ≠ p := fun e => disj p pA x hxL e.symm
        simp [setNext_next_ne, hxp, hxn]
      · intro x hx
        have hx' : x ∈ Y := by simpa using hx
        have hxq : x ≠ q ∧ x ≠ n := by
          cases L2 with
          | nil =>
            simp at hQ; obtain ⟨_, rfl⟩ := hQ; simp at hx'
          | cons a t =>
            simp at hQ; obtain ⟨rfl, rfl⟩ := hQ
            have nd2 := List.nodup_cons.1 ndB'.2
            rcases List.mem_append.1 hx' with e | e
            · exact ⟨fun e' => nd2.1 (e' ▸ e), fun e' => ndB'.1 (by simp [← e', e])⟩
            · have : x = head := by simpa using e
              subst this
              exact ⟨fun e' => disj x (by simp) x (by simp [← e']) rfl, Ne.symm nhead⟩
        simp [setPrev_prev_ne, hxq.1, hxq.2]
  · rw [hEq]; exact cell_ext (by simp [setNext, setPrev, Cell.unlinked]) (by simp [Cell.unlinked])
  · intro x hx
    have hxn : x ≠ n := fun e => hx (by simp [e])
    have hxp : x ≠ p := by
      intro e; subst e; apply hx
      rcases List.mem_cons.1 pA with e | e
      · simp [e]
      · simp [e]
    have hxq : x ≠ q := by
      intro e; subst e; apply hx
      rcases List.mem_append.1 qB with e | e
      · simp [e]
      · have : x = head := by simpa using e
        simp [this]
    rw [hEq]; simp [setNext_ne, setPrev_ne, hxn, hxp, hxq]


theorem links_next_ne_none {h : Heap} : ∀ (P : List Nat), Links h P → ∀ x ∈ P.dropLast, (h x).next ≠ none
  | [], _, x, hx => by simp at hx
  | [_], _, x, hx => by simp at hx
  | a :: b :: rest, hl, x, hx => by
    simp only [List.dropLast_cons_cons, List.mem_cons] at hx
    rcases hx with e | e
    · subst e; rw [hl.1.1]; simp
    · exact links_next_ne_none (b :: rest) hl.2 x e

theorem ring_mem_next {h : Heap} {head n : Nat} {L : List Nat} (hr : Ring h head L) (hn : n ∈ L) :
    (h n).next ≠ none := by
  apply links_next_ne_none _ hr.2
  have : (head :: L ++ [head]).dropLast = head :: L := by
    rw [show head :: L ++ [head] = (head :: L) ++ [head] from rfl, List.dropLast_concat]
  rw [this]; simp [hn]

/-- two state lists in one heap: both rings, no shared cell, every other cell unlinked -/
def WInv (h : Heap) (hA : Nat) (a : List Nat) (hB : Nat) (b : List Nat) : Prop :=
  Ring h hA a ∧ Ring h hB b ∧ (∀ x ∈ hA :: a, x ∉ hB :: b) ∧
    ∀ x, x ∉ hA :: a → x ∉ hB :: b → h x = Cell.unlinked

theorem WInv.symm {h : Heap} {hA hB : Nat} {a b : List Nat} (w : WInv h hA a hB b) : WInv h hB b hA a :=
  ⟨w.2.1, w.1, fun x hx hx' => w.2.2.1 x hx' hx, fun x h1 h2 => w.2.2.2 x h2 h1⟩

theorem erase_sub {a : List Nat} {n x : Nat} (hx : x ∈ a.erase n) : x ∈ a := List.mem_of_mem_erase hx

theorem winv_remove_left {h : Heap} {hA hB n : Nat} {a b : List Nat} (w : WInv h hA a hB b) (hn : n ∈ a) :
    WInv (removeSelf h n) hA (a.erase n) hB b ∧ n ∉ a.erase n := by
  obtain ⟨rA, rB, dj, out⟩ := w
  obtain ⟨r1, r2, r3⟩ := ring_removeSelf rA hn
  have nd : a.Nodup := (List.nodup_cons.1 rA.1).2
  have hne : n ∉ a.erase n := fun hm => (List.Nodup.mem_erase_iff nd).1 hm |>.1 rfl
  refine ⟨⟨r1, ring_frame rB ?_, ?_, ?_⟩, hne⟩
  · intro x hx; exact r3 x (fun hx' => dj x hx' hx)
  · intro x hx
    have : x ∈ hA :: a := by
      rcases List.mem_cons.1 hx with e | e
      · simp [e]
      · simp [erase_sub e]
    exact dj x this
  · intro x h1 h2
    by_cases e : x = n
    · subst e; exact r2
    · have : x ∉ hA :: a := by
        intro hm; apply h1
        rcases List.mem_cons.1 hm with e' | e'
        · simp [e']
        · exact List.mem_cons_of_mem _ ((List.mem_erase_of_ne e).2 e')
      rw [r3 x this]; exact out x this h2

/-- `GenericNode::Remove()` of any client node (in list A, in list B or in neither) -/
theorem winv_remove {h : Heap} {hA hB n : Nat} {a b : List Nat} (w : WInv h hA a hB b) (nA : n ≠ hA) (nB : n ≠ hB) :
    WInv (removeSelf h n) hA (a.erase n) hB (b.erase n) ∧ n ∉ a.erase n ∧ n ∉ b.erase n := by
  by_cases ha : n ∈ a
  · have hb : n ∉ b := fun hb => w.2.2.1 n (by simp [ha]) (by simp [hb])
    have := winv_remove_left w ha
    rw [List.erase_of_not_mem hb]; exact ⟨this.1, this.2, hb⟩
  · by_cases hb : n ∈ b
    · have := winv_remove_left w.symm hb
      rw [List.erase_of_not_mem ha]; exact ⟨this.1.symm, ha, this.2⟩
    · rw [List.erase_of_not_mem ha, List.erase_of_not_mem hb]
      have hu := w.2.2.2 n (by simp [ha, nA]) (by simp [hb, nB])
      rw [removeSelf_unlinked hu]; exact ⟨w, ha, hb⟩

/-- `MgrNodeList::Append` = `InsertBefore( n, head )` with its "`if( newNode->next != 0 ) newNode->Remove()`" guard does what
    an unconditional `Remove()` followed by the generic insertion does (a node with a null `next` is in no list) -/
theorem mgrAppend_eq {h : Heap} {hA hB n : Nat} {a b : List Nat} (w : WInv h hA a hB b) (nA : n ≠ hA) (nB : n ≠ hB)
    (e : Nat) : mgrInsertBefore h n e = insertBefore (removeSelf h n) n e := by
  unfold mgrInsertBefore
  by_cases hnx : (h n).next = none
  · have hu : h n = Cell.unlinked := by
      apply w.2.2.2
      · intro hm; rcases List.mem_cons.1 hm with e' | e'
        · exact nA e'
        · exact ring_mem_next w.1 e' hnx
      · intro hm; rcases List.mem_cons.1 hm with e' | e'
        · exact nB e'
        · exact ring_mem_next w.2.1 e' hnx
    simp [hnx, removeSelf_unlinked hu]
  · simp [hnx]

theorem winv_append_left {h : Heap} {hA hB n : Nat} {a b : List Nat} (w : WInv h hA a hB b) (nA : n ≠ hA) (nB : n ≠ hB)
    (ha : n ∉ a) (hb : n ∉ b) : ∃ h', insertBefore h n hA = some h' ∧ WInv h' hA (a ++ [n]) hB b := by
  obtain ⟨rA, rB, dj, out⟩ := w
  have hnA : n ∉ hA :: a := by simp [nA, ha]
  have hnB : n ∉ hB :: b := by simp [nB, hb]
  obtain ⟨h', e1, r1, fr⟩ := ring_insertBefore rA hnA
  refine ⟨h', e1, r1, ring_frame rB ?_, ?_, ?_⟩
  · intro x hx
    exact fr x (fun hx' => dj x hx' hx) (fun e => hnB (e ▸ hx))
  · intro x hx
    have : x ∈ hA :: a ∨ x = n := by
      simp at hx ⊢; rcases hx with e | e | e <;> simp [e]
    rcases this with e | e
    · exact dj x e
    · subst e; exact hnB
  · intro x h1 h2
    have h1' : x ∉ hA :: a := by intro hm; apply h1; simp at hm ⊢; rcases hm with e | e <;> simp [e]
    have h1n : x ≠ n := by intro e; apply h1; simp [e]
    rw [fr x h1' h1n]; exact out x h1' h2


theorem winv_init (hA hB : Nat) (hAB : hA ≠ hB) : WInv (World.init hA hB).heap hA [] hB [] := by
  refine ⟨⟨by simp, ?_⟩, ⟨by simp, ?_⟩, ?_, ?_⟩
  · simp [Links, Link, World.init, initHead, setNext, setPrev, hAB]
  · simp [Links, Link, World.init, initHead, setNext, setPrev]
  · intro x hx; simp at hx ⊢; subst hx; exact hAB
  · intro x h1 h2
    simp at h1 h2
    simp [World.init, initHead, setNext, setPrev, h1, h2]

theorem winv_step {w : World} {r : Ref} (hw : WInv w.heap w.headA r.a w.headB r.b) (o : Op)
    (hA : o.node ≠ w.headA) (hB : o.node ≠ w.headB) :
    ∃ w', step w o = some w' ∧ w'.headA = w.headA ∧ w'.headB = w.headB ∧
      WInv w'.heap w.headA (refStep r o).a w.headB (refStep r o).b := by
  cases o with
  | remove n =>
    exact ⟨_, rfl, rfl, rfl, (winv_remove hw hA hB).1⟩
  | append l n =>
    simp only [Op.node] at hA hB
    obtain ⟨w1, na, nb⟩ := winv_remove hw hA hB
    cases l with
    | false =>
      obtain ⟨h', e1, w2⟩ := winv_append_left w1 hA hB na nb
      refine ⟨{ w with heap := h' }, ?_, rfl, rfl, w2⟩
      simp [step, mgrAppend, mgrAppend_eq hw hA hB, e1]
    | true =>
      obtain ⟨h', e1, w2⟩ := winv_append_left w1.symm hB hA nb na
      refine ⟨{ w with heap := h' }, ?_, rfl, rfl, w2.symm⟩
      simp [step, mgrAppend, mgrAppend_eq hw hA hB, e1]

theorem winv_run : ∀ (ops : List Op) (w : World) (r : Ref), WInv w.heap w.headA r.a w.headB r.b →
    (∀ o ∈ ops, o.node ≠ w.headA ∧ o.node ≠ w.headB) →
    ∃ w', run w ops = some w' ∧ w'.headA = w.headA ∧ w'.headB = w.headB ∧
      WInv w'.heap w.headA (refRun r ops).a w.headB (refRun r ops).b
  | [], w, r, hw, _ => ⟨w, rfl, rfl, rfl, hw⟩
  | o :: os, w, r, hw, hc => by
    obtain ⟨w1, e1, eA, eB, hw1⟩ := winv_step hw o (hc o (by simp)).1 (hc o (by simp)).2
    rw [← eA, ← eB] at hw1
    obtain ⟨w2, e2, eA2, eB2, hw2⟩ := winv_run os w1 (refStep r o) hw1 (by
      intro o' ho'; rw [eA, eB]; exact hc o' (by simp [ho']))
    refine ⟨w2, by simp [run, e1, e2], eA2.trans eA, eB2.trans eB, ?_⟩
    rw [eA, eB] at hw2
    simpa [refRun] using hw2

/-- the forward traversal every consumer of a state list performs reads exactly the ring's members -/
theorem walk_links {h : Heap} {head : Nat} : ∀ (L : List Nat) (c : Nat), Links h (c :: L ++ [head]) → head ∉ L →
    walk h head (L.length + 1) c = some L
  | [], c, hl, _ => by
    have : (h c).next = some head := hl.1.1
    simp [walk, this]
  | x :: L, c, hl, hh => by
    have h1 : (h c).next = some x := hl.1.1
    have hx : x ≠ head := fun e => hh (by simp [e])
    have ih := walk_links L x hl.2 (fun hm => hh (by simp [hm]))
    simp only [List.length_cons, walk, h1, hx, if_false, ih]; rfl

theorem ring_walk {h : Heap} {head : Nat} {L : List Nat} (hr : Ring h head L) :
    walk h head (L.length + 1) head = some L :=
  walk_links L head hr.2 (List.nodup_cons.1 hr.1).1


theorem walkBack_succ (h : Heap) (head f cur : Nat) : walkBack h head (f + 1) cur =
    match (h cur).prev with
    | none => none
    | some nx => if nx = head then some [] else (walkBack h head f nx).map (nx :: ·) := rfl

/-- the backward traversal (`head->prev`, `->prev`, … until the head) reads the members in reverse order -/
theorem walkBack_links {h : Heap} {head : Nat} : ∀ (k : Nat) (L : List Nat) (c : Nat), L.length = k →
    Links h (head :: L ++ [c]) → head ∉ L → walkBack h head (k + 1) c = some L.reverse
  | 0, L, c, hk, hl, _ => by
    have : L = [] := List.length_eq_zero_iff.1 hk
    subst this
    have : (h c).prev = some head := hl.1.2
    simp [walkBack, this]
  | k + 1, L, c, hk, hl, hh => by
    rcases List.eq_nil_or_concat L with e | ⟨L', x, e⟩
    · subst e; simp at hk
    · rw [List.concat_eq_append] at e
      subst e
      have hl' : Links h ((head :: L') ++ x :: [c]) := by simpa using hl
      rw [links_split] at hl'
      have h1 : (h c).prev = some x := hl'.2.1.2
      have hx : x ≠ head := fun e => hh (by simp [e])
      have hk' : L'.length = k := by simpa using hk
      have ih := walkBack_links k L' x hk' (by simpa using hl'.1) (fun hm => hh (by simp [hm]))
      rw [walkBack_succ, h1]; simp [hx, ih]

theorem ring_walkBack {h : Heap} {head : Nat} {L : List Nat} (hr : Ring h head L) :
    walkBack h head (L.length + 1) head = some L.reverse :=
  walkBack_links L.length L head rfl hr.2 (List.nodup_cons.1 hr.1).1


theorem clearLoop_spec {head z : Nat} : ∀ (rest : List Nat) (h : Heap) (c g : Nat),
    (head :: c :: rest).Nodup → Links h (c :: rest ++ [head]) → (h c).next = some g → (h head).next = some z →
    ∃ h', clearLoop head (rest.length + 2) h c g = some h' ∧ (∀ x ∈ c :: rest, h' x = Cell.unlinked) ∧
      ∀ x, x ∉ c :: rest → h' x = h x
  | [], h, c, g, nd, hl, hg, hz => by
    have hc : c ≠ head := by intro e; subst e; simp at nd
    have : g = head := by have := hl.1.1; rw [hg] at this; exact Option.some.inj this
    subst this
    refine ⟨setNext (setPrev h c none) c none, ?_, ?_, ?_⟩
    · simp [clearLoop, hc, setNext_next_ne, Ne.symm hc, hz]
    · intro x hx; simp at hx; subst hx
      exact cell_ext (by simp [Cell.unlinked]) (by simp [Cell.unlinked])
    · intro x hx; simp at hx; simp [setNext_ne, setPrev_ne, hx]
  | r :: rest, h, c, g, nd, hl, hg, hz => by
    have hc : c ≠ head := by intro e; subst e; simp at nd
    have : g = r := by have := hl.1.1; rw [hg] at this; exact Option.some.inj this
    subst this
    have hgc : g ≠ c := by intro e; subst e; simp at nd
    have nd' : (head :: g :: rest).Nodup := by
      simp only [List.nodup_cons, List.mem_cons, not_or] at nd ⊢
      exact ⟨⟨nd.1.2.1, nd.1.2.2⟩, nd.2.2.1, nd.2.2.2⟩
    have hcn : ∀ x ∈ g :: rest ++ [head], x ≠ c := by
      intro x hx e; subst e
      simp only [List.nodup_cons, List.mem_cons, not_or] at nd
      simp at hx; rcases hx with e | e | e
      · exact hgc e.symm
      · exact nd.2.1.2 e
      · exact hc e
    obtain ⟨g', hg'⟩ : ∃ g', (h g).next = some g' := by
      have hm : g ∈ (g :: rest ++ [head]).dropLast := by
        rw [show g :: rest ++ [head] = (g :: rest) ++ [head] from rfl, List.dropLast_concat]; simp
      have := links_next_ne_none _ hl.2 g hm
      cases hh : (h g).next with
      | none => exact absurd hh this
      | some v => exact ⟨v, rfl⟩
    let h2 := setNext (setPrev h c none) c none
    have hl2 : Links h2 (g :: rest ++ [head]) := by
      apply links_frame _ hl.2
      · intro x hx; have := hcn x (List.dropLast_subset _ hx); simp [h2, setNext_next_ne, this]
      · intro x hx; have := hcn x (List.mem_of_mem_tail hx); simp [h2, setPrev_prev_ne, this]
    have hg2 : (h2 g).next = some g' := by simp [h2, setNext_next_ne, hgc, hg']
    have hz2 : (h2 head).next = some z := by simp [h2, setNext_next_ne, Ne.symm hc, hz]
    obtain ⟨h', e1, e2, e3⟩ := clearLoop_spec rest h2 g g' nd' hl2 hg2 hz2
    refine ⟨h', ?_, ?_, ?_⟩
    · have : (r_len : Nat) → r_len = rest.length + 2 → clearLoop head (r_len + 1) h c g = some h' := by
        intro n hn; subst hn
        simp only [clearLoop, hc, if_false]
        show (match (h2 g).next with | none => none | some g' => clearLoop head (rest.length + 2) h2 g g') = some h'
        rw [hg2]; exact e1
      simpa using this (rest.length + 2) rfl
    · intro x hx
      rcases List.mem_cons.1 hx with e | e
      · subst e
        have hxn : x ∉ g :: rest := by
          intro hm; exact hcn x (by simp at hm ⊢; rcases hm with e | e <;> simp [e]) rfl
        rw [e3 x hxn]
        exact cell_ext (by simp [h2, Cell.unlinked]) (by simp [h2, Cell.unlinked])
      · exact e2 x e
    · intro x hx
      have hxc : x ≠ c := by intro e; apply hx; simp [e]
      have hxr : x ∉ g :: rest := by intro hm; apply hx; exact List.mem_cons_of_mem _ hm
      rw [e3 x hxr]; simp [h2, setNext_ne, setPrev_ne, hxc]

/-- `GenNodeList::ClearEntries()` on a ring: no null pointer is met, every member ends with both pointers null, the list is
    the empty ring, other cells are untouched -/
theorem ring_clearEntries {h : Heap} {head : Nat} {L : List Nat} (hr : Ring h head L) :
    ∃ h', clearEntriesLoop h head (L.length + 1) = some h' ∧ Ring h' head [] ∧ (∀ x ∈ L, h' x = Cell.unlinked) ∧
      ∀ x, x ∉ head :: L → h' x = h x := by
  have ringEmpty : ∀ k : Heap, Ring (initHead k head) head [] := fun k =>
    ⟨by simp, by simp [Links, Link, initHead, setNext, setPrev]⟩
  cases L with
  | nil =>
    have h1 : (h head).next = some head := hr.2.1.1
    refine ⟨initHead h head, by simp [clearEntriesLoop, h1, clearLoop], ringEmpty h, by simp, ?_⟩
    intro x hx; simp at hx; simp [initHead, setNext_ne, setPrev_ne, hx]
  | cons c rest =>
    have h1 : (h head).next = some c := hr.2.1.1
    obtain ⟨g, hg⟩ : ∃ g, (h c).next = some g := by
      have := ring_mem_next hr (List.mem_cons_self)
      cases hh : (h c).next with
      | none => exact absurd hh this
      | some v => exact ⟨v, rfl⟩
    obtain ⟨h', e1, e2, e3⟩ := clearLoop_spec rest h c g hr.1 hr.2.2 hg h1
    refine ⟨initHead h' head, ?_, ringEmpty h', ?_, ?_⟩
    · simp only [clearEntriesLoop, h1, hg, List.length_cons]
      rw [show rest.length + 1 + 1 = rest.length + 2 from rfl, e1]; rfl
    · intro x hx
      have : x ≠ head := by intro e; subst e; exact (List.nodup_cons.1 hr.1).1 hx
      simp [initHead, setNext_ne, setPrev_ne, this]; exact e2 x hx
    · intro x hx
      have hxh : x ≠ head := by intro e; apply hx; simp [e]
      have hxL : x ∉ c :: rest := by intro hm; apply hx; exact List.mem_cons_of_mem _ hm
      simp [initHead, setNext_ne, setPrev_ne, hxh]; exact e3 x hxL

end StepModel.GenNodeList

import StepModel.PyAggLemmas
/-! Abstraction function, invariants and the per-operation simulation lemmas behind `Props/C19.lean`. -/
namespace StepModel.PyAgg
open StepModel.Spec.Aggregate
open StepModel.Generated

def absArr (a : Arr) : Int → Option Val :=
  fun j => if a.lo ≤ j ∧ j ≤ a.hi then (a.cells[(j - a.lo).toNat]?).join else none

structure ArrInv (d : Decl) (a : Arr) : Prop where
  kind : d.kind = .array
  lo : a.lo = d.lo
  hi : d.hi = some a.hi
  base : a.base = d.base
  unique : a.unique = d.unique
  optional : a.optional = d.optional
  le : a.lo ≤ a.hi
  len : a.cells.length = (a.hi - a.lo + 1).toNat

theorem absArr_some_iff (a : Arr) (j : Int) (y : Val) :
    absArr a j = some y ↔ a.lo ≤ j ∧ j ≤ a.hi ∧ a.cells[(j - a.lo).toNat]? = some (some y) := by
  unfold absArr
  by_cases hr : a.lo ≤ j ∧ j ≤ a.hi
  · simp only [hr, and_self, if_true, true_and]
    cases hc : a.cells[(j - a.lo).toNat]? with
    | none => simp
    | some c => cases c <;> simp
  · simp only [hr, if_false]
    constructor
    · intro h; cases h
    · intro h; exact absurd ⟨h.1, h.2.1⟩ hr

/-- what python's equality sees of the slots -/
def keysOf (a : Arr) : List (Option Key) := a.cells.map (Option.map Val.key)

theorem absArr_key_iff (a : Arr) (j : Int) (k : Key) :
    (absArr a j).map Val.key = some k ↔ a.lo ≤ j ∧ j ≤ a.hi ∧ (keysOf a)[(j - a.lo).toNat]? = some (some k) := by
  unfold absArr keysOf
  rw [List.getElem?_map]
  by_cases hr : a.lo ≤ j ∧ j ≤ a.hi
  · simp only [hr, and_self, if_true, true_and]
    cases hc : a.cells[(j - a.lo).toNat]? with
    | none => simp
    | some c => cases c <;> simp
  · simp only [hr, if_false]
    constructor
    · intro h; simp at h
    · intro h; exact absurd ⟨h.1, h.2.1⟩ hr

theorem arr_unique_iff (d : Decl) (a : Arr) (h : ArrInv d a) (i : Int) (x : Val) (h1 : a.lo ≤ i) :
    (∀ j ∈ indices d.lo a.hi, j ≠ i → (absArr a j).map Val.key ≠ some x.key) ↔
      ¬ (some x.key ∈ pySliceTo (keysOf a) (i - a.lo) ++ pySliceFrom (keysOf a) (i - a.lo + 1)) := by
  rw [mem_pySlice_others (keysOf a) (by omega : 0 ≤ i - a.lo), ← h.lo]
  have hlen : (keysOf a).length = (a.hi - a.lo + 1).toNat := by simp [keysOf, h.len]
  constructor
  · rintro hall ⟨m, hm, hget⟩
    have hmlt : m < (keysOf a).length := (List.getElem?_eq_some_iff.mp hget).1
    rw [hlen] at hmlt
    have hj : a.lo + (m : Int) ∈ indices a.lo a.hi := mem_indices.mpr (by omega)
    apply hall _ hj (by omega)
    rw [absArr_key_iff a]
    refine ⟨by omega, by omega, ?_⟩
    have : (a.lo + (m : Int) - a.lo).toNat = m := by omega
    rw [this]; exact hget
  · intro hno j hj hne habs
    rw [absArr_key_iff a] at habs
    apply hno
    exact ⟨(j - a.lo).toNat, by omega, habs.2.2⟩

theorem absArr_set (a : Arr) (hlen : a.cells.length = (a.hi - a.lo + 1).toNat) (i : Int) (x : Val)
    (h1 : a.lo ≤ i) (h2 : i ≤ a.hi) :
    absArr { a with cells := a.cells.set (i - a.lo).toNat (some x) } = arraySet (absArr a) i x := by
  funext j
  unfold absArr arraySet
  simp only
  by_cases hji : j = i
  · subst hji
    have hlt : (j - a.lo).toNat < a.cells.length := by omega
    simp [h1, h2, hlt]
  · simp only [hji, if_false]
    by_cases hr : a.lo ≤ j ∧ j ≤ a.hi
    · have hne : (i - a.lo).toNat ≠ (j - a.lo).toNat := by omega
      simp [hr, List.getElem?_set_ne hne]
    · simp [hr]


theorem absArr_none_iff (a : Arr) (hlen : a.cells.length = (a.hi - a.lo + 1).toNat) (j : Int)
    (h1 : a.lo ≤ j) (h2 : j ≤ a.hi) :
    absArr a j = none ↔ a.cells[(j - a.lo).toNat]? = some none := by
  unfold absArr
  have hlt : (j - a.lo).toNat < a.cells.length := by omega
  simp only [h1, h2, and_self, if_true]
  rw [List.getElem?_eq_getElem hlt]
  cases a.cells[(j - a.lo).toNat] <;> simp

theorem arr_set_sim (d : Decl) (a : Arr) (h : ArrInv d a) (i : Int) (x : Val) :
    step d (.array (absArr a)) (.set i x) = (.array (absArr (a.set i x).1), (a.set i x).2.obs)
      ∧ ArrInv d (a.set i x).1 := by
  have hhi := h.hi
  simp only [step, hhi]
  unfold Arr.set
  by_cases h1 : i < a.lo
  · have hn : ¬ arraySetAllowed d a.hi (absArr a) i x := by
      intro hh; have := hh.1; rw [← h.lo] at this; omega
    simp only [h1, if_true, hn, if_false, R.obs]; exact ⟨trivial, h⟩
  by_cases h2 : i > a.hi
  · have hn : ¬ arraySetAllowed d a.hi (absArr a) i x := by
      intro hh; have := hh.2.1; omega
    simp only [h1, h2, if_true, if_false, hn, R.obs]; exact ⟨trivial, h⟩
  by_cases h3 : typeMismatch x a.base
  · have hn : ¬ arraySetAllowed d a.hi (absArr a) i x := by
      intro hh; have := hh.2.2.1; rw [← h.base] at this; exact (typeMismatch_iff _ _).mp h3 this
    simp only [h1, h2, h3, if_true, if_false, hn, R.obs, ne_eq, not_false_eq_true]; exact ⟨trivial, h⟩
  have h1' : a.lo ≤ i := by omega
  have h2' : i ≤ a.hi := by omega
  have h3' : conforms x.ty a.base = true := Classical.not_not.mp (fun hne => h3 ((typeMismatch_iff _ _).mpr hne))
  have huniq := arr_unique_iff d a h i x h1'
  unfold keysOf at huniq
  have hk : (i - a.lo).toNat < a.cells.length := by rw [h.len]; omega
  have hidx : pyIdx a.cells.length (i - a.lo) = some (i - a.lo).toNat := pyIdx_of_nonneg (by omega) hk
  by_cases h4 : (a.unique && (pySliceTo (a.cells.map (Option.map Val.key)) (i - a.lo) ++ pySliceFrom (a.cells.map (Option.map Val.key)) (i - a.lo + 1)).contains (some x.key)) = true
  · have hn : ¬ arraySetAllowed d a.hi (absArr a) i x := by
      intro hh
      simp only [Bool.and_eq_true, List.contains_iff_mem] at h4
      have := hh.2.2.2 (by rw [← h.unique]; exact h4.1)
      exact (huniq.mp this) h4.2
    simp only [h1, h2, h3, h4, if_true, if_false, hn, R.obs, ne_eq, not_false_eq_true, not_true_eq_false]
    exact ⟨trivial, h⟩
  · have hy : arraySetAllowed d a.hi (absArr a) i x := by
      refine ⟨by rw [← h.lo]; exact h1', h2', by rw [← h.base]; exact h3', ?_⟩
      intro hu
      apply huniq.mpr
      intro hmem
      apply h4
      simp only [Bool.and_eq_true, List.contains_iff_mem]
      exact ⟨by rw [h.unique]; exact hu, hmem⟩
    simp only [h1, h2, h3, h4, hidx, if_true, if_false, hy, R.obs, ne_eq, not_false_eq_true, not_true_eq_false, Bool.false_eq_true]
    refine ⟨?_, ?_⟩
    · rw [absArr_set a h.len i x h1' h2']
    · exact { h with len := by simp [h.len] }

theorem arr_get_sim (d : Decl) (a : Arr) (h : ArrInv d a) (i : Int) :
    step d (.array (absArr a)) (.get i) = (.array (absArr a), (a.get i).obs) := by
  have hhi := h.hi
  simp only [step, hhi]
  unfold Arr.get
  by_cases h1 : i < a.lo
  · have hn : ¬ arrayGetAllowed d a.hi (absArr a) i := by
      intro hh; have := hh.1; rw [← h.lo] at this; omega
    simp only [h1, if_true, hn, if_false, R.obs]
  by_cases h2 : i > a.hi
  · have hn : ¬ arrayGetAllowed d a.hi (absArr a) i := by
      intro hh; have := hh.2.1; omega
    simp only [h1, h2, if_true, if_false, hn, R.obs]
  have h1' : a.lo ≤ i := by omega
  have h2' : i ≤ a.hi := by omega
  have hk : (i - a.lo).toNat < a.cells.length := by rw [h.len]; omega
  have hidx : pyIdx a.cells.length (i - a.lo) = some (i - a.lo).toNat := pyIdx_of_nonneg (by omega) hk
  simp only [h1, h2, if_false, hidx]
  rw [List.getElem?_eq_getElem hk]
  cases hc : a.cells[(i - a.lo).toNat] with
  | none =>
    have habs : absArr a i = none := by
      rw [absArr_none_iff a h.len i h1' h2', List.getElem?_eq_getElem hk, hc]
    by_cases ho : a.optional = true
    · have hy : arrayGetAllowed d a.hi (absArr a) i :=
        ⟨by rw [← h.lo]; exact h1', h2', Or.inl (by rw [← h.optional]; exact ho)⟩
      simp [hy, habs, ho, R.obs]
    · have hn : ¬ arrayGetAllowed d a.hi (absArr a) i := by
        intro hh; rcases hh.2.2 with hopt | hne
        · rw [← h.optional] at hopt; exact ho hopt
        · exact hne habs
      simp [hn, ho, R.obs]
  | some y =>
    have habs : absArr a i = some y := by
      rw [absArr_some_iff a]; exact ⟨h1', h2', by rw [List.getElem?_eq_getElem hk, hc]⟩
    have hy : arrayGetAllowed d a.hi (absArr a) i :=
      ⟨by rw [← h.lo]; exact h1', h2', Or.inr (by rw [habs]; simp)⟩
    simp [hy, habs, R.obs]


theorem map_indices_absArr (a : Arr) (hlen : a.cells.length = (a.hi - a.lo + 1).toNat) :
    (indices a.lo a.hi).map (absArr a) = a.cells := by
  apply List.ext_getElem?
  intro k
  rw [List.getElem?_map, getElem?_indices]
  by_cases hk : k < (a.hi - a.lo + 1).toNat
  · have hk' : k < a.cells.length := by omega
    have e : (a.lo + (k : Int) - a.lo).toNat = k := by omega
    simp only [hk, if_true, Option.map_some, absArr]
    have hr : a.lo ≤ a.lo + (k : Int) ∧ a.lo + (k : Int) ≤ a.hi := by omega
    simp only [hr, and_self, if_true, e]
    rw [List.getElem?_eq_getElem hk']
    simp
  · have hk' : a.cells.length ≤ k := by omega
    simp [hk, List.getElem?_eq_none hk']

theorem arr_valueUnique (d : Decl) (a : Arr) (h : ArrInv d a) :
    arrayValueUnique d.lo a.hi (absArr a) = a.valueUnique := by
  unfold arrayValueUnique Arr.valueUnique
  rw [← h.lo]
  have hmap := map_indices_absArr a h.len
  have hex : (∃ j ∈ indices a.lo a.hi, absArr a j = none) ↔ none ∈ a.cells := by
    conv => rhs; rw [← hmap]
    simp [List.mem_map]
  have hsz : arraySize a.lo a.hi = (a.cells.length : Int) := by
    rw [h.len]; unfold arraySize; have := h.le; omega
  rw [hmap, hsz]
  by_cases hn : none ∈ a.cells
  · simp [hex, hn]
  · have hc : a.cells.contains none = false := by simpa using hn
    simp only [hex, hn, if_false, hc, Bool.false_eq_true]
    have hl : (a.cells.map (Option.map Val.key)).length = a.cells.length := by simp
    by_cases hd : (a.cells.map (Option.map Val.key)).Nodup
    · have hnp : ¬ ((a.cells.length : Int) - (distinctCount (a.cells.map (Option.map Val.key)) : Int) > 0) := by
        intro hp; rw [← hl] at hp; exact (size_sub_distinct_pos_iff _).mp hp hd
      rw [if_pos hd, if_neg hnp]
    · have hp := (size_sub_distinct_pos_iff _).mpr hd
      rw [hl] at hp
      rw [if_neg hd, if_pos hp]

theorem arr_sim (d : Decl) (a : Arr) (h : ArrInv d a) (op : Op) :
    step d (.array (absArr a)) op = (.array (absArr (a.step op).1), (a.step op).2.obs) ∧ ArrInv d (a.step op).1 := by
  cases op with
  | set i x => exact arr_set_sim d a h i x
  | get i => exact ⟨arr_get_sim d a h i, h⟩
  | add x => simp [step, h.hi, Arr.step, R.obs]; exact h
  | size =>
    have hsz : arraySize a.lo a.hi = a.hi - d.lo + 1 := by rw [← h.lo]; unfold arraySize; omega
    simp [step, h.hi, Arr.step, R.obs, hsz]; exact h
  | hiindex => simp [step, h.hi, Arr.step, R.obs]; exact h
  | loindex => simp [step, h.hi, Arr.step, R.obs, h.lo]; exact h
  | hibound => simp [step, h.hi, Arr.step, R.obs]; exact h
  | lobound => simp [step, h.hi, Arr.step, R.obs, h.lo]; exact h
  | unique => simp [step, h.hi, Arr.step, R.obs, arr_valueUnique d a h]; exact h


/-! ### LIST -/

structure LstInv (d : Decl) (l : Lst) : Prop where
  kind : d.kind = .list
  lo : l.lo = d.lo
  hi : l.hi = d.hi
  base : l.base = d.base
  unique : l.unique = d.unique
  upper : withinUpper d l.cells.length

theorem hiBound_obs (x : Option Int) : (hiBound x).obs = ofOptBound x := by
  cases x <;> rfl

theorem listValueUnique_eq (c : List Val) : listValueUnique c = seqValueUnique c := by
  unfold listValueUnique seqValueUnique
  have hl : (c.map Val.key).length = c.length := by simp
  by_cases hd : (c.map Val.key).Nodup
  · have hnp : ¬ ((c.length : Int) - (distinctCount (c.map Val.key) : Int) > 0) := by
      intro hp; rw [← hl] at hp; exact (size_sub_distinct_pos_iff _).mp hp hd
    rw [if_pos hd, if_neg hnp]
  · have hp := (size_sub_distinct_pos_iff _).mpr hd
    rw [hl] at hp
    rw [if_neg hd, if_pos hp]

theorem lst_full_iff (d : Decl) (l : Lst) (h : LstInv d l) :
    l.full = true ↔ ¬ withinUpper d (l.cells.length + 1) := by
  unfold Lst.full withinUpper
  rw [h.hi]
  cases d.hi with
  | none => simp
  | some b =>
    simp only [decide_eq_true_eq, Option.some.injEq, forall_eq']
    omega

theorem lst_unique_iff (c : List Val) (i : Int) (x : Val) (h1 : 1 ≤ i) :
    (∀ j, j < c.length → (j : Int) + 1 ≠ i → (c[j]?).map Val.key ≠ some x.key) ↔
      ¬ (x.key ∈ pySliceTo (c.map Val.key) (i - 1) ++ pySliceFrom (c.map Val.key) i) := by
  have e : i = (i - 1) + 1 := by omega
  conv => rhs; rw [e]
  have e2 : i - 1 + 1 - 1 = i - 1 := by omega
  rw [e2, mem_pySlice_others (c.map Val.key) (by omega : 0 ≤ i - 1)]
  constructor
  · rintro hall ⟨m, hm, hget⟩
    have hmlt : m < (c.map Val.key).length := (List.getElem?_eq_some_iff.mp hget).1
    rw [List.getElem?_map] at hget
    exact hall m (by simpa using hmlt) (by omega) hget
  · intro hno j hj hne hget
    exact hno ⟨j, by omega, by rw [List.getElem?_map]; exact hget⟩

theorem lst_set_sim (d : Decl) (l : Lst) (h : LstInv d l) (i : Int) (x : Val) :
    step d (.list l.cells) (.set i x) = (.list (l.set i x).1.cells, (l.set i x).2.obs)
      ∧ LstInv d (l.set i x).1 := by
  simp only [step]
  unfold Lst.set
  simp only
  by_cases h1 : i < 1 ∨ i > (l.cells.length : Int) + 1
  · have hn : ¬ listSetAllowed d l.cells i x := by
      intro hh; have := hh.1; have := hh.2.1; omega
    rw [if_pos h1, if_neg hn]; exact ⟨rfl, h⟩
  rw [if_neg h1]
  have h1a : 1 ≤ i := by omega
  have h1b : i ≤ (l.cells.length : Int) + 1 := by omega
  have hfull := lst_full_iff d l h
  by_cases h2 : i = (l.cells.length : Int) + 1 ∧ l.full = true
  · have hn : ¬ listSetAllowed d l.cells i x := by
      intro hh; exact (hfull.mp h2.2) (hh.2.2.1 h2.1)
    rw [if_pos h2, if_neg hn]; exact ⟨rfl, h⟩
  rw [if_neg h2]
  by_cases h3 : typeMismatch x l.base
  · have hn : ¬ listSetAllowed d l.cells i x := by
      intro hh; have := hh.2.2.2.1; rw [← h.base] at this; exact (typeMismatch_iff _ _).mp h3 this
    rw [if_pos h3, if_neg hn]; exact ⟨rfl, h⟩
  rw [if_neg h3]
  have h3' : conforms x.ty l.base = true := Classical.not_not.mp (fun hne => h3 ((typeMismatch_iff _ _).mpr hne))
  have huniq := lst_unique_iff l.cells i x h1a
  by_cases h4 : (l.unique && (pySliceTo (l.cells.map Val.key) (i - 1) ++ pySliceFrom (l.cells.map Val.key) i).contains x.key) = true
  · have hn : ¬ listSetAllowed d l.cells i x := by
      intro hh
      simp only [Bool.and_eq_true, List.contains_iff_mem] at h4
      have := hh.2.2.2.2 (by rw [← h.unique]; exact h4.1)
      exact (huniq.mp this) h4.2
    rw [if_pos h4, if_neg hn]; exact ⟨rfl, h⟩
  rw [if_neg h4]
  have hup : i = (l.cells.length : Int) + 1 → withinUpper d (l.cells.length + 1) := by
    intro hi
    have : ¬ l.full = true := fun hf => h2 ⟨hi, hf⟩
    exact Classical.not_not.mp (fun hc => this (hfull.mpr hc))
  have hy : listSetAllowed d l.cells i x := by
    refine ⟨h1a, h1b, hup, by rw [← h.base]; exact h3', ?_⟩
    intro hu
    apply huniq.mpr
    intro hmem
    apply h4
    simp only [Bool.and_eq_true, List.contains_iff_mem]
    exact ⟨by rw [h.unique]; exact hu, hmem⟩
  rw [if_pos hy]
  by_cases h5 : i = (l.cells.length : Int) + 1
  · rw [if_pos h5]
    refine ⟨by simp [listSet, h5, R.obs], { h with upper := ?_ }⟩
    simp only [List.length_append, List.length_singleton]
    exact hup h5
  · have hk : (i - 1).toNat < l.cells.length := by omega
    have hidx : pyIdx l.cells.length (i - 1) = some (i - 1).toNat := pyIdx_of_nonneg (by omega) hk
    rw [if_neg h5, hidx]
    refine ⟨by simp [listSet, h5, R.obs], { h with upper := ?_ }⟩
    simp only [List.length_set]
    exact h.upper

theorem lst_get_sim (d : Decl) (l : Lst) (i : Int) :
    step d (.list l.cells) (.get i) = (.list l.cells, (l.get i).obs) := by
  simp only [step]
  unfold Lst.get
  by_cases h1 : i < 1 ∨ i > (l.cells.length : Int)
  · have hn : ¬ listGetAllowed l.cells i := by
      intro hh; have := hh.1; have := hh.2; omega
    simp only [h1, if_true, hn, if_false, R.obs]
  · have hy : listGetAllowed l.cells i := ⟨by omega, by omega⟩
    have hk : (i - 1).toNat < l.cells.length := by omega
    have hidx : pyIdx l.cells.length (i - 1) = some (i - 1).toNat := pyIdx_of_nonneg (by omega) hk
    simp only [h1, if_false, hy, if_true, hidx]
    rw [List.getElem?_eq_getElem hk]
    simp [R.obs]

theorem lst_sim (d : Decl) (l : Lst) (h : LstInv d l) (op : Op) :
    step d (.list l.cells) op = (.list (l.step op).1.cells, (l.step op).2.obs) ∧ LstInv d (l.step op).1 := by
  cases op with
  | set i x => exact lst_set_sim d l h i x
  | get i => exact ⟨lst_get_sim d l i, h⟩
  | add x => simp [step, Lst.step, R.obs]; exact h
  | size => simp [step, Lst.step, R.obs]; exact h
  | hiindex => simp [step, Lst.step, R.obs]; exact h
  | loindex => simp [step, Lst.step, R.obs, listLoIndex]; exact h
  | hibound => simp [step, Lst.step, hiBound_obs, h.hi]; exact h
  | lobound => simp [step, Lst.step, R.obs, h.lo]; exact h
  | unique => simp [step, Lst.step, R.obs, listValueUnique_eq]; exact h


/-! ### BAG -/

structure BagInv (d : Decl) (b : Bag) : Prop where
  kind : d.kind = .bag
  lo : b.lo = d.lo
  hi : b.hi = d.hi
  base : b.base = d.base
  upper : withinUpper d b.cells.length

theorem fullTest_iff (ge : Bool) (len : Nat) (cap : Int) (hle : (len : Int) ≤ cap) :
    fullTest ge len cap = true ↔ (len : Int) = cap := by
  unfold fullTest
  cases ge <;> simp <;> omega

theorem withinUpper_some {d : Decl} {b : Int} (hb : d.hi = some b) (n : Nat) : withinUpper d n ↔ (n : Int) ≤ b := by
  unfold withinUpper; rw [hb]; simp

theorem withinUpper_none {d : Decl} (hb : d.hi = none) (n : Nat) : withinUpper d n := by
  unfold withinUpper; rw [hb]; simp

theorem bag_add_sim (d : Decl) (b : Bag) (h : BagInv d b) (x : Val) :
    step d (.bag (sortL b.cells)) (.add x) = (.bag (sortL (b.add x).1.cells), (b.add x).2.obs)
      ∧ BagInv d (b.add x).1 := by
  simp only [step]
  unfold Bag.add
  have hhi := h.hi
  cases hb : b.hi with
  | none =>
    have hdn : d.hi = none := by rw [← hhi, hb]
    simp only
    by_cases h3 : typeMismatch x b.base
    · have hn : ¬ bagAddAllowed d (sortL b.cells) x := by
        intro hh; have := hh.1; rw [← h.base] at this; exact (typeMismatch_iff _ _).mp h3 this
      rw [if_pos h3, if_neg hn]; exact ⟨rfl, h⟩
    · have h3' : conforms x.ty b.base = true := Classical.not_not.mp (fun hne => h3 ((typeMismatch_iff _ _).mpr hne))
      have hy : bagAddAllowed d (sortL b.cells) x := ⟨by rw [← h.base]; exact h3', withinUpper_none hdn _⟩
      rw [if_neg h3, if_pos hy]
      exact ⟨by simp [sortL_append_singleton, R.obs], { h with hi := hdn.symm, upper := withinUpper_none hdn _ }⟩
  | some bnd =>
    have hds : d.hi = some bnd := by rw [← hhi, hb]
    have hle : (b.cells.length : Int) ≤ bnd := (withinUpper_some hds _).mp h.upper
    have hcap : bagFullAt b.lo bnd = bnd := by unfold bagFullAt; omega
    have hft := fullTest_iff bagFullGe b.cells.length (bagFullAt b.lo bnd) (by rw [hcap]; exact hle)
    rw [hcap] at hft
    simp only
    by_cases h2 : fullTest bagFullGe b.cells.length (bagFullAt b.lo bnd) = true
    · have hn : ¬ bagAddAllowed d (sortL b.cells) x := by
        intro hh
        have := (withinUpper_some hds _).mp hh.2
        rw [length_sortL] at this
        have := hft.mp h2
        omega
      rw [if_pos h2, if_neg hn]; exact ⟨rfl, h⟩
    rw [if_neg h2]
    have hlt : ((b.cells.length + 1 : Nat) : Int) ≤ bnd := by
      have : ¬ (b.cells.length : Int) = bnd := fun hh => h2 (hft.mpr hh)
      omega
    by_cases h3 : typeMismatch x b.base
    · have hn : ¬ bagAddAllowed d (sortL b.cells) x := by
        intro hh; have := hh.1; rw [← h.base] at this; exact (typeMismatch_iff _ _).mp h3 this
      rw [if_pos h3, if_neg hn]; exact ⟨rfl, h⟩
    · have h3' : conforms x.ty b.base = true := Classical.not_not.mp (fun hne => h3 ((typeMismatch_iff _ _).mpr hne))
      have hy : bagAddAllowed d (sortL b.cells) x :=
        ⟨by rw [← h.base]; exact h3', (withinUpper_some hds _).mpr (by rw [length_sortL]; exact hlt)⟩
      rw [if_neg h3, if_pos hy]
      refine ⟨by simp [sortL_append_singleton, R.obs], { h with hi := hds.symm, upper := ?_ }⟩
      simp only [List.length_append, List.length_singleton]
      exact (withinUpper_some hds _).mpr hlt

theorem bag_sim (d : Decl) (b : Bag) (h : BagInv d b) (op : Op) :
    step d (.bag (sortL b.cells)) op = (.bag (sortL (b.step op).1.cells), (b.step op).2.obs)
      ∧ BagInv d (b.step op).1 := by
  cases op with
  | add x => exact bag_add_sim d b h x
  | set i x => simp [step, Bag.step, R.obs]; exact h
  | get i => simp [step, Bag.step, R.obs]; exact h
  | size => simp [step, Bag.step, R.obs, length_sortL]; exact h
  | hiindex => simp [step, Bag.step, R.obs, length_sortL]; exact h
  | loindex => simp [step, Bag.step, R.obs, bagLoIndex]; exact h
  | hibound => simp [step, Bag.step, hiBound_obs, h.hi]; exact h
  | lobound => simp [step, Bag.step, R.obs, h.lo]; exact h
  | unique =>
    have : seqValueUnique (sortL b.cells) = seqValueUnique b.cells := by
      unfold seqValueUnique; simp [keyNodup_sortL]
    simp [step, Bag.step, R.obs, listValueUnique_eq, this]; exact h

/-! ### SET -/

structure SetInv (d : Decl) (s : PSet) : Prop where
  kind : d.kind = .set
  lo : s.lo = d.lo
  hi : s.hi = d.hi
  base : s.base = d.base
  upper : withinUpper d s.cells.length
  nodup : (s.cells.map Val.key).Nodup        -- no two members python-equal
  typed : ∀ y ∈ s.cells, conforms y.ty d.base = true

theorem sortL_pySetAdd (c : List Val) (x : Val) : sortL (pySetAdd c x) = setAdd (sortL c) x := by
  unfold pySetAdd setAdd
  by_cases hm : x.key ∈ c.map Val.key
  · have : x.key ∈ (sortL c).map Val.key := (keyMem_sortL x.key c).mpr hm
    rw [if_pos hm, if_pos this]
  · have : ¬ x.key ∈ (sortL c).map Val.key := fun hh => hm ((keyMem_sortL x.key c).mp hh)
    rw [if_neg hm, if_neg this, sortL_append_singleton]

theorem nodup_pySetAdd (c : List Val) (x : Val) (hc : (c.map Val.key).Nodup) : ((pySetAdd c x).map Val.key).Nodup := by
  unfold pySetAdd
  by_cases hm : x.key ∈ c.map Val.key
  · rw [if_pos hm]; exact hc
  · rw [if_neg hm, List.map_append, List.nodup_append]
    refine ⟨hc, by simp, ?_⟩
    intro a ha b hb
    simp only [List.map_cons, List.map_nil, List.mem_singleton] at hb
    subst hb
    intro hab; subst hab; exact hm ha

theorem length_pySetAdd_le (c : List Val) (x : Val) : (pySetAdd c x).length ≤ c.length + 1 := by
  unfold pySetAdd; split <;> simp

theorem typed_pySetAdd (c : List Val) (x : Val) (base : Ty) (hc : ∀ y ∈ c, conforms y.ty base = true)
    (hx : conforms x.ty base = true) : ∀ y ∈ pySetAdd c x, conforms y.ty base = true := by
  unfold pySetAdd
  intro y hy
  split at hy
  · exact hc y hy
  · rcases List.mem_append.mp hy with h1 | h1
    · exact hc y h1
    · simp only [List.mem_singleton] at h1; subst h1; exact hx

theorem set_add_sim (d : Decl) (s : PSet) (h : SetInv d s) (x : Val) :
    step d (.set (sortL s.cells)) (.add x) = (.set (sortL (s.add x).1.cells), (s.add x).2.obs)
      ∧ SetInv d (s.add x).1 := by
  simp only [step]
  unfold PSet.add
  simp only [setAddChecksTypeFirst, if_true]
  unfold PSet.addTypeCheckFirst
  have hhi := h.hi
  by_cases h3 : typeMismatch x s.base
  · have hn : ¬ setAddAllowed d (sortL s.cells) x := by
      intro hh; have := hh.1; rw [← h.base] at this; exact (typeMismatch_iff _ _).mp h3 this
    rw [if_pos h3, if_neg hn]; exact ⟨rfl, h⟩
  have h3' : conforms x.ty s.base = true := Classical.not_not.mp (fun hne => h3 ((typeMismatch_iff _ _).mpr hne))
  rw [if_neg h3]
  cases hb : s.hi with
  | none =>
    have hdn : d.hi = none := by rw [← hhi, hb]
    simp only
    have hy : setAddAllowed d (sortL s.cells) x :=
      ⟨by rw [← h.base]; exact h3', Or.inr (withinUpper_none hdn _)⟩
    rw [if_pos hy]
    refine ⟨by simp [sortL_pySetAdd, R.obs], { h with hi := hdn.symm, upper := withinUpper_none hdn _, nodup := ?_, typed := ?_ }⟩
    · exact nodup_pySetAdd _ _ h.nodup
    · exact typed_pySetAdd _ _ _ h.typed (by rw [← h.base]; exact h3')
  | some bnd =>
    have hds : d.hi = some bnd := by rw [← hhi, hb]
    have hle : (s.cells.length : Int) ≤ bnd := (withinUpper_some hds _).mp h.upper
    have hcap : setFullAt s.lo bnd = bnd := by unfold setFullAt; omega
    have hft := fullTest_iff setFullGe s.cells.length (setFullAt s.lo bnd) (by rw [hcap]; exact hle)
    rw [hcap] at hft
    simp only
    by_cases h2 : fullTest setFullGe s.cells.length (setFullAt s.lo bnd) = true
    · rw [if_pos h2]
      by_cases hm : x.key ∈ s.cells.map Val.key
      · have hy : setAddAllowed d (sortL s.cells) x :=
          ⟨by rw [← h.base]; exact h3', Or.inl ((keyMem_sortL x.key _).mpr hm)⟩
        have hnn : ¬ ¬ x.key ∈ s.cells.map Val.key := fun hh => hh hm
        rw [if_neg hnn, if_pos hy]
        have hms : x.key ∈ (sortL s.cells).map Val.key := (keyMem_sortL x.key _).mpr hm
        exact ⟨by simp only [setAdd, hms, if_true, R.obs], h⟩
      · have hn : ¬ setAddAllowed d (sortL s.cells) x := by
          intro hh
          rcases hh.2 with hin | hup
          · exact hm ((keyMem_sortL x.key _).mp hin)
          · have := (withinUpper_some hds _).mp hup
            rw [length_sortL] at this
            have := hft.mp h2
            omega
        rw [if_pos hm, if_neg hn]; exact ⟨rfl, h⟩
    rw [if_neg h2]
    have hlt : ((s.cells.length + 1 : Nat) : Int) ≤ bnd := by
      have : ¬ (s.cells.length : Int) = bnd := fun hh => h2 (hft.mpr hh)
      omega
    have hy : setAddAllowed d (sortL s.cells) x :=
      ⟨by rw [← h.base]; exact h3', Or.inr ((withinUpper_some hds _).mpr (by rw [length_sortL]; exact hlt))⟩
    rw [if_pos hy]
    refine ⟨by simp [sortL_pySetAdd, R.obs], { h with hi := hds.symm, upper := ?_, nodup := ?_, typed := ?_ }⟩
    · have := length_pySetAdd_le s.cells x
      exact (withinUpper_some hds _).mpr (by simp only; omega)
    · exact nodup_pySetAdd _ _ h.nodup
    · exact typed_pySetAdd _ _ _ h.typed (by rw [← h.base]; exact h3')

theorem set_sim (d : Decl) (s : PSet) (h : SetInv d s) (op : Op) :
    step d (.set (sortL s.cells)) op = (.set (sortL (s.step op).1.cells), (s.step op).2.obs)
      ∧ SetInv d (s.step op).1 := by
  cases op with
  | add x => exact set_add_sim d s h x
  | set i x => simp [step, PSet.step, R.obs]; exact h
  | get i => simp [step, PSet.step, R.obs]; exact h
  | size => simp [step, PSet.step, R.obs, length_sortL]; exact h
  | hiindex => simp [step, PSet.step, R.obs, length_sortL]; exact h
  | loindex => simp [step, PSet.step, R.obs, setLoIndex]; exact h
  | hibound => simp [step, PSet.step, hiBound_obs, h.hi]; exact h
  | lobound => simp [step, PSet.step, R.obs, h.lo]; exact h
  | unique => simp [step, PSet.step, R.obs]; exact h


/-! ### any aggregate: abstraction, invariant, one step, construction, histories -/

/-- the EXPRESS value an aggregate object stands for -/
def abs : Agg → Value
  | .arr a => .array (absArr a)
  | .lst l => .list l.cells
  | .bag b => .bag (sortL b.cells)
  | .set s => .set (sortL s.cells)

def Inv (d : Decl) : Agg → Prop
  | .arr a => ArrInv d a
  | .lst l => LstInv d l
  | .bag b => BagInv d b
  | .set s => SetInv d s

theorem agg_sim (d : Decl) (s : Agg) (h : Inv d s) (op : Op) :
    step d (abs s) op = (abs (s.step op).1, (s.step op).2.obs) ∧ Inv d (s.step op).1 := by
  cases s with
  | arr a => exact arr_sim d a h op
  | lst l => exact lst_sim d l h op
  | bag b => exact bag_sim d b h op
  | set s => exact set_sim d s h op

theorem checkSizeBounds_none_iff (lo : Int) (hi : Option Int) :
    checkSizeBounds lo hi = none ↔ 0 ≤ lo ∧ ∀ h, hi = some h → lo ≤ h := by
  unfold checkSizeBounds
  cases hi with
  | none => by_cases h0 : lo ≥ 0 <;> simp [h0] <;> omega
  | some b =>
    by_cases h0 : lo ≥ 0
    · by_cases h1 : lo ≤ b <;> simp [h0, h1] <;> omega
    · simp [h0]

theorem legal_iff (d : Decl) :
    legal d = true ↔ (d.kind = .array ∧ ∃ h, d.hi = some h ∧ d.lo ≤ h) ∨
                      (d.kind ≠ .array ∧ 0 ≤ d.lo ∧ ∀ h, d.hi = some h → d.lo ≤ h) := by
  unfold legal
  cases hk : d.kind <;> cases hh : d.hi <;> simp

/-- construction: accepted exactly for legal declarations; the new object stands for the initial value -/
theorem agg_new (d : Decl) :
    (∀ s, Agg.new d = .ok s → legal d = true ∧ abs s = initial d ∧ Inv d s) ∧
    (∀ e, Agg.new d = .error e → legal d = false) := by
  rcases d with ⟨kind, lo, hi, base, unique, optional⟩
  cases kind with
  | array =>
    cases hi with
    | none =>
      refine ⟨?_, ?_⟩
      · intro s hs; simp [Agg.new, Arr.new, Except.map] at hs
      · intro e _; simp [legal]
    | some b =>
      by_cases hle : lo ≤ b
      · refine ⟨?_, ?_⟩
        · intro s hs
          simp only [Agg.new, Arr.new, hle, not_true_eq_false, if_false, Except.map] at hs
          cases hs
          have hal : (arrayAlloc lo b).toNat = (b - lo + 1).toNat := by unfold arrayAlloc; omega
          refine ⟨by simp [legal, hle], ?_, ?_⟩
          · simp only [abs, initial]
            congr 1
            funext j
            simp only [absArr, pyRepeatNone, hal]
            split
            · rename_i hr
              have : (j - lo).toNat < (b - lo + 1).toNat := by omega
              simp [this]
            · rfl
          · exact { kind := rfl, lo := rfl, hi := rfl, base := rfl, unique := rfl, optional := rfl, le := hle,
                    len := by simp [pyRepeatNone, hal] }
        · intro e he
          simp only [Agg.new, Arr.new, hle, not_true_eq_false, if_false, Except.map] at he
          cases he
      · refine ⟨?_, ?_⟩
        · intro s hs; simp [Agg.new, Arr.new, hle, Except.map] at hs
        · intro e _; simp [legal, hle]
  | list =>
    have hc := checkSizeBounds_none_iff lo hi
    cases hcs : checkSizeBounds lo hi with
    | none =>
      have hl := hc.mp hcs
      refine ⟨?_, ?_⟩
      · intro s hs
        simp only [Agg.new, Lst.new, hcs, Except.map] at hs
        cases hs
        refine ⟨(legal_iff _).mpr (Or.inr ⟨by simp, hl.1, hl.2⟩), rfl, ?_⟩
        exact { kind := rfl, lo := rfl, hi := rfl, base := rfl, unique := rfl,
                upper := by intro h hh; have := hl.2 h hh; simp only [List.length_nil]; omega }
      · intro e he; simp [Agg.new, Lst.new, hcs, Except.map] at he
    | some e0 =>
      refine ⟨?_, ?_⟩
      · intro s hs; simp [Agg.new, Lst.new, hcs, Except.map] at hs
      · intro e _
        cases hlg : legal ⟨.list, lo, hi, base, unique, optional⟩ with
        | false => rfl
        | true =>
          rcases (legal_iff _).mp hlg with ⟨hk, _⟩ | ⟨_, h0, h1⟩
          · cases hk
          · have := hc.mpr ⟨h0, h1⟩; rw [hcs] at this; cases this
  | bag =>
    have hc := checkSizeBounds_none_iff lo hi
    cases hcs : checkSizeBounds lo hi with
    | none =>
      have hl := hc.mp hcs
      refine ⟨?_, ?_⟩
      · intro s hs
        simp only [Agg.new, Bag.new, hcs, Except.map] at hs
        cases hs
        refine ⟨(legal_iff _).mpr (Or.inr ⟨by simp, hl.1, hl.2⟩), rfl, ?_⟩
        exact { kind := rfl, lo := rfl, hi := rfl, base := rfl,
                upper := by intro h hh; have := hl.2 h hh; simp only [List.length_nil]; omega }
      · intro e he; simp [Agg.new, Bag.new, hcs, Except.map] at he
    | some e0 =>
      refine ⟨?_, ?_⟩
      · intro s hs; simp [Agg.new, Bag.new, hcs, Except.map] at hs
      · intro e _
        cases hlg : legal ⟨.bag, lo, hi, base, unique, optional⟩ with
        | false => rfl
        | true =>
          rcases (legal_iff _).mp hlg with ⟨hk, _⟩ | ⟨_, h0, h1⟩
          · cases hk
          · have := hc.mpr ⟨h0, h1⟩; rw [hcs] at this; cases this
  | set =>
    have hc := checkSizeBounds_none_iff lo hi
    cases hcs : checkSizeBounds lo hi with
    | none =>
      have hl := hc.mp hcs
      refine ⟨?_, ?_⟩
      · intro s hs
        simp only [Agg.new, PSet.new, hcs, Except.map] at hs
        cases hs
        refine ⟨(legal_iff _).mpr (Or.inr ⟨by simp, hl.1, hl.2⟩), rfl, ?_⟩
        exact { kind := rfl, lo := rfl, hi := rfl, base := rfl,
                upper := by intro h hh; have := hl.2 h hh; simp only [List.length_nil]; omega,
                nodup := List.nodup_nil, typed := by intro y hy; cases hy }
      · intro e he; simp [Agg.new, PSet.new, hcs, Except.map] at he
    | some e0 =>
      refine ⟨?_, ?_⟩
      · intro s hs; simp [Agg.new, PSet.new, hcs, Except.map] at hs
      · intro e _
        cases hlg : legal ⟨.set, lo, hi, base, unique, optional⟩ with
        | false => rfl
        | true =>
          rcases (legal_iff _).mp hlg with ⟨hk, _⟩ | ⟨_, h0, h1⟩
          · cases hk
          · have := hc.mpr ⟨h0, h1⟩; rw [hcs] at this; cases this

/-- the state after a history -/
def Agg.after : Agg → List Op → Agg
  | s, [] => s
  | s, op :: ops => Agg.after (s.step op).1 ops

theorem inv_after (d : Decl) (s : Agg) (h : Inv d s) (ops : List Op) : Inv d (s.after ops) := by
  induction ops generalizing s with
  | nil => exact h
  | cons op ops ih => exact ih _ (agg_sim d s h op).2

theorem run_eq (d : Decl) (s : Agg) (h : Inv d s) (ops : List Op) : run d (abs s) ops = s.run ops := by
  induction ops generalizing s with
  | nil => rfl
  | cons op ops ih =>
    have hs := agg_sim d s h op
    simp only [run, Agg.run, hs.1]
    rw [ih _ hs.2]


/-! ### uniqueness as an invariant of EXPRESS values under `step` -/

/-- "no duplicate in SET or in a UNIQUE ARRAY/LIST", as a predicate on EXPRESS values; "duplicate" is value equality
(`Val.key`: `1` and `1.0` are the same value) -/
def UniqueOK (d : Decl) : Value → Prop
  | .array a => d.unique = true → ∀ hi, d.hi = some hi →
      ∀ j ∈ indices d.lo hi, ∀ k ∈ indices d.lo hi, j ≠ k → ∀ x : Key, (a j).map Val.key = some x → (a k).map Val.key ≠ some x
  | .list l => d.unique = true → (l.map Val.key).Nodup
  | .bag _ => True
  | .set s => (s.map Val.key).Nodup

theorem nodup_set_of_absent {α} [DecidableEq α] (l : List α) (k : Nat) (x : α) (hl : l.Nodup)
    (hx : ∀ j, j < l.length → j ≠ k → l[j]? ≠ some x) : (l.set k x).Nodup := by
  unfold List.Nodup at hl ⊢
  rw [List.pairwise_iff_getElem] at hl ⊢
  intro i j hi hj hij
  simp only [List.length_set] at hi hj
  rw [List.getElem_set, List.getElem_set]
  by_cases hki : k = i
  · have hkj : ¬ k = j := by omega
    rw [if_pos hki, if_neg hkj]
    intro he
    exact hx j hj (by omega) (by rw [List.getElem?_eq_getElem hj, he])
  · by_cases hkj : k = j
    · rw [if_neg hki, if_pos hkj]
      intro he
      exact hx i hi (by omega) (by rw [List.getElem?_eq_getElem hi, he])
    · rw [if_neg hki, if_neg hkj]
      exact hl i j hi hj hij

theorem uniqueOK_initial (d : Decl) : UniqueOK d (initial d) := by
  unfold initial
  cases d.kind <;> simp [UniqueOK]

theorem uniqueOK_step (d : Decl) (v : Value) (h : UniqueOK d v) (op : Op) : UniqueOK d (step d v op).1 := by
  cases v with
  | array a =>
    simp only [step]
    cases hh : d.hi with
    | none => exact h
    | some b =>
      simp only
      cases op with
      | set i x =>
        simp only
        split
        · rename_i hal
          intro hu hi' hhi' j hj k hk hjk y hy
          rw [hh] at hhi'; cases hhi'
          have hal4 := hal.2.2.2 hu
          simp only [arraySet] at hy ⊢
          by_cases hji : j = i
          · rw [if_pos hji] at hy
            simp only [Option.map_some, Option.some.injEq] at hy
            subst hy
            have hki : ¬ k = i := by omega
            rw [if_neg hki]
            exact hal4 k hk hki
          · rw [if_neg hji] at hy
            by_cases hki : k = i
            · rw [if_pos hki]
              simp only [Option.map_some, ne_eq, Option.some.injEq]
              intro he; subst he
              exact hal4 j hj hji hy
            · rw [if_neg hki]
              exact h hu b hh j hj k hk hjk y hy
        · exact h
      | get i => simp only; split <;> exact h
      | _ => exact h
  | list l =>
    simp only [step]
    cases op with
    | set i x =>
      simp only
      split
      · rename_i hal
        intro hu
        have hl := h hu
        have hal5 := hal.2.2.2.2 hu
        unfold listSet
        split
        · rename_i hi
          have hx : x.key ∉ l.map Val.key := by
            intro hm
            rcases List.mem_iff_getElem?.mp hm with ⟨j, hj⟩
            have hjl : j < (l.map Val.key).length := (List.getElem?_eq_some_iff.mp hj).1
            rw [List.getElem?_map] at hj
            exact hal5 j (by simpa using hjl) (by simp at hjl; omega) hj
          rw [List.map_append, List.nodup_append]
          refine ⟨hl, by simp, ?_⟩
          intro a ha b hb
          simp only [List.map_cons, List.map_nil, List.mem_singleton] at hb
          subst hb
          intro hab; subst hab; exact hx ha
        · rename_i hi
          rw [List.map_set]
          apply nodup_set_of_absent (l.map Val.key) _ x.key hl
          intro j hj hne
          rw [List.getElem?_map]
          exact hal5 j (by simpa using hj) (by have := hal.1; omega)
      · exact h
    | get i => simp only; split <;> exact h
    | _ => exact h
  | bag b =>
    simp only [step]
    cases op <;> simp only <;> first | trivial | (split <;> trivial)
  | set s =>
    simp only [step]
    cases op with
    | add x =>
      simp only
      split
      · unfold setAdd
        split
        · exact h
        · rename_i hm
          have hp := ((insertSorted_perm x s).map Val.key).nodup_iff
          show ((insertSorted x s).map Val.key).Nodup
          rw [hp, List.map_cons, List.nodup_cons]
          exact ⟨hm, h⟩
      · exact h
    | _ => exact h

theorem uniqueOK_after (d : Decl) (s : Agg) (hi : Inv d s) (hu : UniqueOK d (abs s)) (ops : List Op) :
    UniqueOK d (abs (s.after ops)) := by
  induction ops generalizing s with
  | nil => exact hu
  | cons op ops ih =>
    have hs := agg_sim d s hi op
    apply ih _ hs.2
    have : abs (s.step op).1 = (step d (abs s) op).1 := by rw [hs.1]
    rw [this]
    exact uniqueOK_step d _ hu op

end StepModel.PyAgg

import StepModel.ComplexCombo
/-! The matcher does not depend on `OrList::choice1` of an OrList that has not counted yet (`choice = −1`, `viable <
MATCHSOME`), nor on the unused counters of AND/ANDOR lists: states that agree up to these fields are taken through the
same steps, with the same results.  (`reset()` leaves `choice1 = −2`, the constructor −1.) -/
namespace StepModel.Complex.Match
open StepModel.Generated StepModel.Complex

mutual
  def Sim : ST → ST → Prop
    | .simple n v im, .simple n' v' im' => n = n' ∧ v = v' ∧ im = im'
    | .mult .or v c c1 k cs, .mult .or v' c' c1' k' cs' =>
        v = v' ∧ c = c' ∧ k = k' ∧ SimL cs cs' ∧ (c1 = c1' ∨ (c = -1 ∧ v.rank < MT.rank .some_))
    | .mult .and v _ _ _ cs, .mult .and v' _ _ _ cs' => v = v' ∧ SimL cs cs'
    | .mult .andor v _ _ _ cs, .mult .andor v' _ _ _ cs' => v = v' ∧ SimL cs cs'
    | _, _ => False
  def SimL : List ST → List ST → Prop
    | [], [] => True
    | c :: cs, c' :: cs' => Sim c c' ∧ SimL cs cs'
    | _, _ => False
end

/-- outcomes related by `R` on the results -/
def ORel {α : Type} (R : α → α → Prop) : Outcome α → Outcome α → Prop
  | .ok a, .ok b => R a b
  | .crash c, .crash c' => c = c'
  | .outOfFuel, .outOfFuel => True
  | _, _ => False

theorem ORel_bind {α β : Type} {R : α → α → Prop} {S : β → β → Prop} {x x' : Outcome α} {k k' : α → Outcome β}
    (hx : ORel R x x') (hk : ∀ a a', R a a' → ORel S (k a) (k' a')) : ORel S (x >>= k) (x' >>= k') := by
  cases x <;> cases x' <;> simp only [ORel] at hx
  · exact hk _ _ hx
  · subst hx; exact rfl
  · trivial

theorem ORel_bind' {α β : Type} {R : α → α → Prop} {S : β → β → Prop} {x x' : Outcome α} {k k' : α → Outcome β}
    (hx : ORel R x x') (hk : ∀ a a', x = .ok a → x' = .ok a' → R a a' → ORel S (k a) (k' a')) : ORel S (x >>= k) (x' >>= k') := by
  cases x <;> cases x' <;> simp only [ORel] at hx
  · exact hk _ _ rfl rfl hx
  · subst hx; exact rfl
  · trivial

theorem ORel_ok {α : Type} {R : α → α → Prop} {a b : α} (h : R a b) : ORel R (Outcome.ok a) (Outcome.ok b) := h
theorem ORel_pure {α : Type} {R : α → α → Prop} {a b : α} (h : R a b) : ORel R (pure a : Outcome α) (pure b) := h
theorem ORel_crash {α : Type} {R : α → α → Prop} (c : Crash) : ORel R (Outcome.crash c) (Outcome.crash c) := rfl

mutual
  theorem Sim_refl : ∀ (t : ST), Sim t t
    | .simple _ _ _ => ⟨rfl, rfl, rfl⟩
    | .mult .or _ _ _ _ cs => ⟨rfl, rfl, rfl, SimL_refl cs, Or.inl rfl⟩
    | .mult .and _ _ _ _ cs => ⟨rfl, SimL_refl cs⟩
    | .mult .andor _ _ _ _ cs => ⟨rfl, SimL_refl cs⟩
  theorem SimL_refl : ∀ (cs : List ST), SimL cs cs
    | [] => trivial
    | c :: cs => ⟨Sim_refl c, SimL_refl cs⟩
end

theorem Sim_viable {a b : ST} (h : Sim a b) : a.viable = b.viable := by
  cases a with
  | simple n v im => cases b with
    | simple n' v' im' => exact h.2.1
    | mult => simp [Sim] at h
  | mult j v c c1 k cs => cases b with
    | simple => cases j <;> simp [Sim] at h
    | mult j' v' c' c1' k' cs' =>
      cases j <;> cases j' <;> simp only [Sim] at h <;> first | exact h.1 | exact h.elim

theorem Sim_isSimple {a b : ST} (h : Sim a b) : a.isSimple = b.isSimple := by
  cases a with
  | simple n v im => cases b with
    | simple n' v' im' => rfl
    | mult => simp [Sim] at h
  | mult j v c c1 k cs => cases b with
    | simple => cases j <;> simp [Sim] at h
    | mult j' v' c' c1' k' cs' => rfl

theorem Sim_isOr {a b : ST} (h : Sim a b) : a.isOr = b.isOr := by
  cases a with
  | simple n v im => cases b with
    | simple n' v' im' => rfl
    | mult => simp [Sim] at h
  | mult j v c c1 k cs => cases b with
    | simple => cases j <;> simp [Sim] at h
    | mult j' v' c' c1' k' cs' =>
      cases j <;> cases j' <;> simp only [Sim] at h <;> first | rfl | exact h.elim

theorem Sim_als {a b : ST} (h : Sim a b) : a.atLeastSome = b.atLeastSome := by
  simp only [ST.atLeastSome, Sim_viable h]

theorem SimL_length : ∀ {a b : List ST}, SimL a b → a.length = b.length
  | [], [], _ => rfl
  | _ :: a, _ :: b, h => by simp [SimL_length h.2]
  | [], _ :: _, h => by simp [SimL] at h
  | _ :: _, [], h => by simp [SimL] at h

theorem SimL_get : ∀ {a b : List ST} (i : Nat), SimL a b →
    (a[i]? = none ∧ b[i]? = none) ∨ ∃ x y, a[i]? = some x ∧ b[i]? = some y ∧ Sim x y
  | [], [], i, _ => Or.inl ⟨by simp, by simp⟩
  | x :: a, y :: b, 0, h => Or.inr ⟨x, y, by simp, by simp, h.1⟩
  | x :: a, y :: b, i + 1, h => by
    rcases SimL_get i h.2 with e | ⟨u, w, e1, e2, e3⟩
    · exact Or.inl ⟨by simpa using e.1, by simpa using e.2⟩
    · exact Or.inr ⟨u, w, by simpa using e1, by simpa using e2, e3⟩
  | [], _ :: _, _, h => by simp [SimL] at h
  | _ :: _, [], _, h => by simp [SimL] at h

theorem SimL_set : ∀ {a b : List ST} (i : Nat) {x y : ST}, SimL a b → Sim x y → SimL (a.set i x) (b.set i y)
  | [], [], _, _, _, _, _ => trivial
  | _ :: a, _ :: b, 0, _, _, h, hxy => ⟨hxy, h.2⟩
  | _ :: a, _ :: b, i + 1, _, _, h, hxy => ⟨h.1, SimL_set i h.2 hxy⟩
  | [], _ :: _, _, _, _, h, _ => by simp [SimL] at h
  | _ :: _, [], _, _, _, h, _ => by simp [SimL] at h

theorem SimL_append : ∀ {a b a' b' : List ST}, SimL a b → SimL a' b' → SimL (a ++ a') (b ++ b')
  | [], [], _, _, _, h' => h'
  | _ :: a, _ :: b, _, _, h, h' => ⟨h.1, SimL_append h.2 h'⟩
  | [], _ :: _, _, _, h, _ => by simp [SimL] at h
  | _ :: _, [], _, _, h, _ => by simp [SimL] at h

theorem SimL_isEmpty {a b : List ST} (h : SimL a b) : a.isEmpty = b.isEmpty := by
  cases a <;> cases b <;> simp [SimL] at h ⊢

theorem SimL_viables : ∀ {a b : List ST}, SimL a b → a.map ST.viable = b.map ST.viable
  | [], [], _ => rfl
  | _ :: a, _ :: b, h => by simp [Sim_viable h.1, SimL_viables h.2]
  | [], _ :: _, h => by simp [SimL] at h
  | _ :: _, [], h => by simp [SimL] at h


theorem ORel_same {α : Type} {R : α → α → Prop} (hr : ∀ a, R a a) (x : Outcome α) : ORel R x x := by
  cases x with
  | ok a => exact hr a
  | crash c => rfl
  | outOfFuel => trivial

theorem Sim_cases {t t' : ST} (h : Sim t t') :
    (∃ n v im, t = .simple n v im ∧ t' = .simple n v im) ∨
    (∃ v c c1 c1' k cs cs', t = .mult .or v c c1 k cs ∧ t' = .mult .or v c c1' k cs' ∧ SimL cs cs' ∧
      (c1 = c1' ∨ (c = -1 ∧ v.rank < MT.rank .some_))) ∨
    (∃ v c c1 k c' c1' k' cs cs', t = .mult .and v c c1 k cs ∧ t' = .mult .and v c' c1' k' cs' ∧ SimL cs cs') ∨
    (∃ v c c1 k c' c1' k' cs cs', t = .mult .andor v c c1 k cs ∧ t' = .mult .andor v c' c1' k' cs' ∧ SimL cs cs') := by
  cases t with
  | simple n v im => cases t' with
    | simple n' v' im' =>
      obtain ⟨rfl, rfl, rfl⟩ := h
      exact Or.inl ⟨_, _, _, rfl, rfl⟩
    | mult => simp [Sim] at h
  | mult j v c c1 k cs => cases t' with
    | simple => cases j <;> simp [Sim] at h
    | mult j' v' c' c1' k' cs' =>
      cases j <;> cases j' <;> simp only [Sim] at h <;> try exact h.elim
      · obtain ⟨rfl, hs⟩ := h
        exact Or.inr (Or.inr (Or.inl ⟨_, _, _, _, _, _, _, _, _, rfl, rfl, hs⟩))
      · obtain ⟨rfl, rfl, rfl, hs, hc⟩ := h
        exact Or.inr (Or.inl ⟨_, _, _, _, _, _, _, rfl, rfl, hs, hc⟩)
      · obtain ⟨rfl, hs⟩ := h
        exact Or.inr (Or.inr (Or.inr ⟨_, _, _, _, _, _, _, _, _, rfl, rfl, hs⟩))

theorem go_sim (es : Ents) : ∀ {a b : List ST} (v : MT), SimL a b → setViableVal.go es v a = setViableVal.go es v b
  | [], [], _, _ => rfl
  | x :: a, y :: b, v, h => by
    simp only [setViableVal.go, Sim_viable h.1]
    split
    · rfl
    · exact go_sim es _ h.2
  | [], _ :: _, _, h => by simp [SimL] at h
  | _ :: _, [], _, h => by simp [SimL] at h

theorem setViableVal_sim {a b : List ST} (es : Ents) (h : SimL a b) : setViableVal a es = setViableVal b es :=
  go_sim es .unknown h

theorem firstCand_sim {a b : List ST} (h : SimL a b) : ∀ (s : Nat), firstCand a s = firstCand b s := by
  intro s
  induction s with
  | zero =>
    unfold firstCand
    rcases SimL_get 0 h with e | ⟨x, y, e1, e2, e3⟩
    · rw [e.1, e.2]
    · rw [e1, e2]; simp only [Sim_isSimple e3, Sim_als e3]
  | succ k ih =>
    unfold firstCand
    rcases SimL_get (k + 1) h with e | ⟨x, y, e1, e2, e3⟩
    · rw [e.1, e.2]; exact ih
    · rw [e1, e2]; simp only [Sim_isSimple e3, Sim_als e3, ih]

theorem nextCands_sim {a b : List ST} (h : SimL a b) (i : Nat) : nextCands a i = nextCands b i := by
  unfold nextCands
  rw [SimL_length h]
  apply List.filter_congr
  intro j _
  rcases SimL_get j h with e | ⟨x, y, e1, e2, e3⟩
  · rw [e.1, e.2]
  · rw [e1, e2]; simp only [Sim_isSimple e3, Sim_als e3]

theorem all_known_sim : ∀ {a b : List ST}, SimL a b →
    a.all (fun d => d.viable ≠ .unknown) = b.all (fun d => d.viable ≠ .unknown)
  | [], [], _ => rfl
  | _ :: a, _ :: b, h => by simp only [List.all_cons, Sim_viable h.1, all_known_sim h.2]
  | [], _ :: _, h => by simp [SimL] at h
  | _ :: _, [], h => by simp [SimL] at h

/-- result relation of the tree-walking functions: states similar, everything else equal -/
def R2 {β : Type} (r r' : ST × β) : Prop := Sim r.1 r'.1 ∧ r.2 = r'.2
def R2L {β : Type} (r r' : List ST × β) : Prop := SimL r.1 r'.1 ∧ r.2 = r'.2

theorem unmark_sim : ∀ f : Nat,
    (∀ t t' es, Sim t t' → ORel R2 (unmarkAll f t es) (unmarkAll f t' es)) ∧
    (∀ cs cs' es, SimL cs cs' → ORel R2L (unmarkList f cs es) (unmarkList f cs' es)) := by
  intro f
  induction f with
  | zero => exact ⟨fun _ _ _ _ => by simp [unmarkAll, ORel], fun _ _ _ _ => by simp [unmarkList, ORel]⟩
  | succ f ih =>
    obtain ⟨ih1, ih2⟩ := ih
    refine ⟨?_, ?_⟩
    · intro t t' es h
      rcases Sim_cases h with ⟨n, v, im, rfl, rfl⟩ | ⟨v, c, c1, c1', k, cs, cs', rfl, rfl, hs, hc⟩ |
        ⟨v, c, c1, k, c', c1', k', cs, cs', rfl, rfl, hs⟩ | ⟨v, c, c1, k, c', c1', k', cs, cs', rfl, rfl, hs⟩
      · exact ORel_same (fun a => ⟨Sim_refl _, rfl⟩) _
      · simp only [unmarkAll, SimL_length hs]
        split
        · exact ORel_ok ⟨⟨rfl, rfl, rfl, hs, hc⟩, rfl⟩
        · rename_i i _
          rcases SimL_get i hs with e | ⟨x, y, e1, e2, e3⟩
          · rw [e.1, e.2]; exact ORel_ok ⟨⟨rfl, rfl, rfl, hs, hc⟩, rfl⟩
          · rw [e1, e2]
            refine ORel_bind (ih1 x y es e3) (fun a a' haa => ?_)
            exact ORel_pure ⟨⟨rfl, rfl, rfl, SimL_set i hs haa.1, hc⟩, haa.2⟩
      · simp only [unmarkAll]
        exact ORel_bind (ih2 cs cs' es hs) (fun a a' haa => ORel_pure ⟨⟨rfl, haa.1⟩, haa.2⟩)
      · simp only [unmarkAll]
        exact ORel_bind (ih2 cs cs' es hs) (fun a a' haa => ORel_pure ⟨⟨rfl, haa.1⟩, haa.2⟩)
    · intro cs cs' es h
      cases cs with
      | nil => cases cs' with
        | nil => simp only [unmarkList]; exact ORel_ok ⟨trivial, rfl⟩
        | cons => simp [SimL] at h
      | cons a l => cases cs' with
        | nil => simp [SimL] at h
        | cons b l' =>
          simp only [unmarkList]
          refine ORel_bind (ih1 a b es h.1) (fun x x' hx => ?_)
          obtain ⟨hx1, hx2⟩ := hx
          rw [hx2]
          refine ORel_bind (ih2 l l' x'.2 h.2) (fun y y' hy => ?_)
          exact ORel_pure ⟨⟨hx1, hy.1⟩, hy.2⟩


def R3 {β γ : Type} (r r' : ST × β × γ) : Prop := Sim r.1 r'.1 ∧ r.2 = r'.2
def R3L {β γ : Type} (r r' : List ST × β × γ) : Prop := SimL r.1 r'.1 ∧ r.2 = r'.2

theorem listEnd_ne : listEnd ≠ -1 := by decide

/-- the top node is no OrList with a free `choice1` -/
def TopFixed (t t' : ST) : Prop :=
  ∀ v c c1 c1' k cs cs', t = .mult .or v c c1 k cs → t' = .mult .or v c c1' k cs' → c1 = c1'

theorem TopFixed_of_als {t t' : ST} (h : Sim t t') (ha : t.atLeastSome = true) : TopFixed t t' := by
  intro v c c1 c1' k cs cs' e e'
  subst e e'
  simp only [Sim] at h
  rcases h.2.2.2.2 with e | e
  · exact e
  · have := of_decide_eq_true ha
    simp only [ST.viable] at this
    omega

theorem accept_sim : ∀ f : Nat,
    (∀ t t' es, Sim t t' → TopFixed t t' → ORel R3 (acceptChoice f t es) (acceptChoice f t' es)) ∧
    (∀ cs cs' es, SimL cs cs' → ORel R3L (acceptJoin f cs es) (acceptJoin f cs' es)) ∧
    (∀ cs cs' i es, SimL cs cs' → ORel R3L (acceptOr f cs i es) (acceptOr f cs' i es)) := by
  intro f
  induction f with
  | zero =>
    exact ⟨fun _ _ _ _ _ => by simp [acceptChoice, ORel], fun _ _ _ _ => by simp [acceptJoin, ORel],
      fun _ _ _ _ _ => by simp [acceptOr, ORel]⟩
  | succ f ih =>
    obtain ⟨ih1, ih2, ih3⟩ := ih
    refine ⟨?_, ?_, ?_⟩
    · intro t t' es h hfix
      rcases Sim_cases h with ⟨n, v, im, rfl, rfl⟩ | ⟨v, c, c1, c1', k, cs, cs', rfl, rfl, hs, hc⟩ |
        ⟨v, c, c1, k, c', c1', k', cs, cs', rfl, rfl, hs⟩ | ⟨v, c, c1, k, c', c1', k', cs, cs', rfl, rfl, hs⟩
      · exact ORel_same (fun a => ⟨Sim_refl _, rfl⟩) _
      · have : c1 = c1' := hfix v c c1 c1' k cs cs' rfl rfl
        subst this
        simp only [acceptChoice, SimL_length hs]
        split
        · exact ORel_ok ⟨⟨rfl, rfl, rfl, hs, Or.inl rfl⟩, rfl⟩
        · refine ORel_bind (ih3 cs cs' _ es hs) (fun a a' haa => ?_)
          obtain ⟨h1, h2⟩ := haa
          obtain ⟨a1, a2, a3⟩ := a
          obtain ⟨b1, b2, b3⟩ := a'
          simp only at h1 h2
          cases h2
          cases a3 with
          | none => exact ORel_pure ⟨⟨rfl, rfl, rfl, h1, Or.inl rfl⟩, rfl⟩
          | some j => exact ORel_pure ⟨⟨rfl, rfl, rfl, h1, Or.inl rfl⟩, rfl⟩
      · simp only [acceptChoice]
        refine ORel_bind (ih2 cs cs' es hs) (fun a a' haa => ?_)
        obtain ⟨a1, a2, a3⟩ := a
        obtain ⟨b1, b2, b3⟩ := a'
        obtain ⟨h1, h2⟩ := haa
        simp only at h1 h2
        cases h2
        exact ORel_pure ⟨⟨rfl, h1⟩, rfl⟩
      · simp only [acceptChoice]
        refine ORel_bind (ih2 cs cs' es hs) (fun a a' haa => ?_)
        obtain ⟨a1, a2, a3⟩ := a
        obtain ⟨b1, b2, b3⟩ := a'
        obtain ⟨h1, h2⟩ := haa
        simp only at h1 h2
        cases h2
        exact ORel_pure ⟨⟨rfl, h1⟩, rfl⟩
    · intro cs cs' es h
      cases cs with
      | nil => cases cs' with
        | nil => simp only [acceptJoin]; exact ORel_ok ⟨trivial, rfl⟩
        | cons => simp [SimL] at h
      | cons a l => cases cs' with
        | nil => simp [SimL] at h
        | cons b l' =>
          simp only [acceptJoin, Sim_als h.1]
          have rest : ∀ (x x' : ST × Ents × Bool), R3 x x' →
              ORel R3L (acceptJoin f l x.2.1 >>= fun y => pure (x.1 :: y.1, y.2.1, x.2.2 || y.2.2))
                (acceptJoin f l' x'.2.1 >>= fun y => pure (x'.1 :: y.1, y.2.1, x'.2.2 || y.2.2)) := by
            intro x x' hx
            obtain ⟨x1, x2, x3⟩ := x
            obtain ⟨y1, y2, y3⟩ := x'
            obtain ⟨hx1, hx2⟩ := hx
            simp only at hx1 hx2
            cases hx2
            refine ORel_bind (ih2 l l' x2 h.2) (fun y y' hy => ?_)
            obtain ⟨u1, u2, u3⟩ := y
            obtain ⟨w1, w2, w3⟩ := y'
            obtain ⟨hy1, hy2⟩ := hy
            simp only at hy1 hy2
            cases hy2
            exact ORel_pure ⟨⟨hx1, hy1⟩, rfl⟩
          split
          · rename_i hal
            exact ORel_bind (ih1 a b es h.1 (TopFixed_of_als h.1 (by rw [Sim_als h.1]; exact hal))) rest
          · exact rest (a, es, false) (b, es, false) ⟨h.1, rfl⟩
    · intro cs cs' i es h
      simp only [acceptOr]
      rcases SimL_get i h with e | ⟨x, y, e1, e2, e3⟩
      · rw [e.1, e.2]; exact ORel_ok ⟨h, rfl⟩
      · rw [e1, e2]
        simp only [Sim_als e3]
        split
        · rename_i hal
          refine ORel_bind (ih1 x y es e3 (TopFixed_of_als e3 (by rw [Sim_als e3]; exact hal))) (fun a a' haa => ?_)
          obtain ⟨a1, a2, a3⟩ := a
          obtain ⟨b1, b2, b3⟩ := a'
          obtain ⟨h1, h2⟩ := haa
          simp only at h1 h2
          cases h2
          simp only
          split
          · exact ORel_pure ⟨SimL_set i h h1, rfl⟩
          · exact ih3 _ _ _ _ (SimL_set i h h1)
        · exact ih3 cs cs' (i + 1) es h


theorem nonors_sim : ∀ f : Nat,
    (∀ t t' es, Sim t t' → ORel R3 (matchNonORs f t es) (matchNonORs f t' es)) ∧
    (∀ done done' cs cs' es, SimL done done' → SimL cs cs' → ORel R3L (andorNonORs f done cs es) (andorNonORs f done' cs' es)) ∧
    (∀ done done' cs cs' es, SimL done done' → SimL cs cs' → ORel R3L (andNonORs f done cs es) (andNonORs f done' cs' es)) := by
  intro f
  induction f with
  | zero =>
    exact ⟨fun _ _ _ _ => by simp [matchNonORs, ORel], fun _ _ _ _ _ _ _ => by simp [andorNonORs, ORel],
      fun _ _ _ _ _ _ _ => by simp [andNonORs, ORel]⟩
  | succ f ih =>
    obtain ⟨ih1, ih2, ih3⟩ := ih
    refine ⟨?_, ?_, ?_⟩
    · intro t t' es h
      rcases Sim_cases h with ⟨n, v, im, rfl, rfl⟩ | ⟨v, c, c1, c1', k, cs, cs', rfl, rfl, hs, hc⟩ |
        ⟨v, c, c1, k, c', c1', k', cs, cs', rfl, rfl, hs⟩ | ⟨v, c, c1, k, c', c1', k', cs, cs', rfl, rfl, hs⟩
      · exact ORel_same (fun a => ⟨Sim_refl _, rfl⟩) _
      · simp only [matchNonORs]
        exact ORel_ok ⟨⟨rfl, rfl, rfl, hs, hc⟩, rfl⟩
      · simp only [matchNonORs, SimL_isEmpty hs]
        split
        · exact ORel_crash _
        · refine ORel_bind (ih3 [] [] cs cs' es trivial hs) (fun a a' haa => ?_)
          obtain ⟨a1, a2, a3⟩ := a
          obtain ⟨b1, b2, b3⟩ := a'
          obtain ⟨h1, h2⟩ := haa
          simp only at h1 h2
          cases h2
          simp only
          split
          · exact ORel_pure ⟨⟨rfl, h1⟩, rfl⟩
          · rw [setViableVal_sim a2 h1]; exact ORel_pure ⟨⟨rfl, h1⟩, rfl⟩
      · simp only [matchNonORs, SimL_isEmpty hs]
        split
        · exact ORel_crash _
        · refine ORel_bind (ih2 [] [] cs cs' es trivial hs) (fun a a' haa => ?_)
          obtain ⟨a1, a2, a3⟩ := a
          obtain ⟨b1, b2, b3⟩ := a'
          obtain ⟨h1, h2⟩ := haa
          simp only at h1 h2
          cases h2
          simp only
          split
          · exact ORel_pure ⟨⟨rfl, h1⟩, rfl⟩
          · rw [setViableVal_sim a2 h1]; exact ORel_pure ⟨⟨rfl, h1⟩, rfl⟩
    · intro done done' cs cs' es hd h
      cases cs with
      | nil => cases cs' with
        | nil => simp only [andorNonORs]; exact ORel_ok ⟨hd, rfl⟩
        | cons => simp [SimL] at h
      | cons a l => cases cs' with
        | nil => simp [SimL] at h
        | cons b l' =>
          simp only [andorNonORs, Sim_isOr h.1]
          split
          · exact ih2 _ _ l l' es (SimL_append hd ⟨h.1, trivial⟩) h.2
          · refine ORel_bind (ih1 a b es h.1) (fun x x' hx => ?_)
            obtain ⟨x1, x2, x3⟩ := x
            obtain ⟨y1, y2, y3⟩ := x'
            obtain ⟨hx1, hx2⟩ := hx
            simp only at hx1 hx2
            cases hx2
            simp only [all_known_sim hd]
            split
            · split
              · exact ORel_pure ⟨SimL_append hd ⟨hx1, h.2⟩, rfl⟩
              · exact ih2 _ _ l l' x2 (SimL_append hd ⟨hx1, trivial⟩) h.2
            · split
              · refine ORel_bind ((unmark_sim f).1 x1 y1 x2 hx1) (fun u u' hu => ?_)
                obtain ⟨u1, u2⟩ := u
                obtain ⟨w1, w2⟩ := u'
                obtain ⟨hu1, hu2⟩ := hu
                simp only at hu1 hu2
                cases hu2
                exact ih2 _ _ l l' u2 (SimL_append hd ⟨hu1, trivial⟩) h.2
              · exact ih2 _ _ l l' x2 (SimL_append hd ⟨hx1, trivial⟩) h.2
    · intro done done' cs cs' es hd h
      cases cs with
      | nil => cases cs' with
        | nil => simp only [andNonORs]; exact ORel_ok ⟨hd, rfl⟩
        | cons => simp [SimL] at h
      | cons a l => cases cs' with
        | nil => simp [SimL] at h
        | cons b l' =>
          simp only [andNonORs, Sim_isOr h.1]
          split
          · exact ih3 _ _ l l' es (SimL_append hd ⟨h.1, trivial⟩) h.2
          · refine ORel_bind (ih1 a b es h.1) (fun x x' hx => ?_)
            obtain ⟨x1, x2, x3⟩ := x
            obtain ⟨y1, y2, y3⟩ := x'
            obtain ⟨hx1, hx2⟩ := hx
            simp only at hx1 hx2
            cases hx2
            simp only
            split
            · exact ORel_pure ⟨SimL_append hd ⟨hx1, h.2⟩, rfl⟩
            · exact ih3 _ _ l l' x2 (SimL_append hd ⟨hx1, trivial⟩) h.2


/-- result relation of the loop of `OrList::matchORs` -/
def RO (r r' : List ST × Ents × MT × MT × Int × Int × Nat) : Prop :=
  SimL r.1 r'.1 ∧ r.2.1 = r'.2.1 ∧ r.2.2.1 = r'.2.2.1 ∧ r.2.2.2.1 = r'.2.2.2.1 ∧ r.2.2.2.2.1 = r'.2.2.2.2.1 ∧
    r.2.2.2.2.2.2 = r'.2.2.2.2.2.2 ∧
    (r.2.2.2.2.2.1 = r'.2.2.2.2.2.1 ∨ (r.2.2.2.2.1 = -1 ∧ r.2.2.2.1.rank < MT.rank .some_))

theorem pure_bind'' {α β : Type} (a : α) (k : α → Outcome β) : ((pure a : Outcome α) >>= k) = k a := rfl

theorem ors_sim : ∀ f : Nat,
    (∀ t t' es, Sim t t' → ORel R3 (matchORs f t es) (matchORs f t' es)) ∧
    (∀ isAnd done done' cs cs' es, SimL done done' → SimL cs cs' →
      ORel R3L (joinORs f isAnd done cs es) (joinORs f isAnd done' cs' es)) ∧
    (∀ idx done done' cs cs' es rv v c c1 c1' k, SimL done done' → SimL cs cs' →
      (c1 = c1' ∨ (c = -1 ∧ v.rank < MT.rank .some_)) →
      ORel RO (orORs f idx done cs es rv v c c1 k) (orORs f idx done' cs' es rv v c c1' k)) := by
  intro f
  induction f with
  | zero =>
    exact ⟨fun _ _ _ _ => by simp [matchORs, ORel], fun _ _ _ _ _ _ _ _ => by simp [joinORs, ORel],
      fun _ _ _ _ _ _ _ _ _ _ _ _ _ _ _ => by simp [orORs, ORel]⟩
  | succ f ih =>
    obtain ⟨ih1, ih2, ih3⟩ := ih
    refine ⟨?_, ?_, ?_⟩
    · intro t t' es h
      rcases Sim_cases h with ⟨n, v, im, rfl, rfl⟩ | ⟨v, c, c1, c1', k, cs, cs', rfl, rfl, hs, hc⟩ |
        ⟨v, c, c1, k, c', c1', k', cs, cs', rfl, rfl, hs⟩ | ⟨v, c, c1, k, c', c1', k', cs, cs', rfl, rfl, hs⟩
      · exact ORel_same (fun a => ⟨Sim_refl _, rfl⟩) _
      · simp only [matchORs]
        refine ORel_bind (ih3 0 [] [] cs cs' es .unknown v c c1 c1' k trivial hs hc) (fun a a' haa => ?_)
        obtain ⟨a1, a2, a3, a4, a5, a6, a7⟩ := a
        obtain ⟨b1, b2, b3, b4, b5, b6, b7⟩ := a'
        obtain ⟨h1, h2, h3, h4, h5, h6, h7⟩ := haa
        simp only at h1 h2 h3 h4 h5 h6 h7
        subst h2 h3 h4 h5 h6
        simp only
        have hnode : Sim (ST.mult .or a4 a5 a6 a7 a1) (ST.mult .or a4 a5 b6 a7 b1) := ⟨rfl, rfl, rfl, h1, h7⟩
        by_cases hrk : MT.rank .some_ ≤ a4.rank
        · simp only [hrk, if_true]
          have hfix : TopFixed (ST.mult .or a4 a5 a6 a7 a1) (ST.mult .or a4 a5 b6 a7 b1) :=
            TopFixed_of_als hnode (by simp [ST.atLeastSome, ST.viable, hrk])
          have hdrop : ORel R2 (acceptDrop f (ST.mult .or a4 a5 a6 a7 a1) a2) (acceptDrop f (ST.mult .or a4 a5 b6 a7 b1) a2) := by
            unfold acceptDrop
            refine ORel_bind ((accept_sim f).1 _ _ a2 hnode hfix) (fun x x' hx => ?_)
            obtain ⟨x1, x2, x3⟩ := x
            obtain ⟨y1, y2, y3⟩ := x'
            obtain ⟨hx1, hx2⟩ := hx
            simp only at hx1 hx2
            cases hx2
            exact ORel_pure ⟨hx1, rfl⟩
          refine ORel_bind' hdrop (fun x x' hxe _ hx => ?_)
          obtain ⟨x1, x2⟩ := x
          obtain ⟨y1, y2⟩ := x'
          obtain ⟨hx1, hx2⟩ := hx
          simp only at hx1 hx2
          cases hx2
          have hsk : skel x1 = skel (ST.mult .or a4 a5 a6 a7 a1) := by
            unfold acceptDrop at hxe
            obtain ⟨⟨n', e', b⟩, q1, q2⟩ := bind_ok' hxe
            cases q2
            exact (accept_skel f).1 _ a2 _ q1
          simp only
          split
          · rename_i hall
            -- the accepted node is an OrList with `viable = MATCHALL`: its `choice1` is not free
            rcases Sim_cases hx1 with ⟨n, v, im, rfl, rfl⟩ | ⟨v2, c2, d1, d1', k2, es1, es1', rfl, rfl, hs2, hc2⟩ |
              ⟨v2, c2, d1, k2, c2', d1', k2', es1, es1', rfl, rfl, hs2⟩ | ⟨v2, c2, d1, k2, c2', d1', k2', es1, es1', rfl, rfl, hs2⟩
            · exact ORel_crash _
            · have hv2 : v2 = a4 := by simp only [skel] at hsk; injection hsk
              have hd : d1 = d1' := by
                rcases hc2 with e | e
                · exact e
                · rw [hv2, hall] at e; simp [MT.rank] at e
              subst hd
              simp only [SimL_length hs2]
              split
              · exact ORel_crash _
              · rename_i i _
                rcases SimL_get i hs2 with e | ⟨u, w, e1, e2, e3⟩
                · rw [e.1, e.2]; exact ORel_crash _
                · rw [e1, e2]; simp only [Sim_viable e3]
                  exact ORel_pure ⟨⟨rfl, rfl, rfl, hs2, Or.inl rfl⟩, rfl⟩
            · simp [skel] at hsk
            · simp [skel] at hsk
          · exact ORel_pure ⟨hx1, rfl⟩
        · simp only [hrk, if_false]
          have hnall : a4 ≠ .all := by
            intro e; rw [e] at hrk; exact hrk (by decide)
          simp only [hnall, if_false]
          exact ORel_pure ⟨hnode, rfl⟩
      · simp only [matchORs, SimL_isEmpty hs]
        split
        · exact ORel_crash _
        · refine ORel_bind (ih2 true [] [] cs cs' es trivial hs) (fun a a' haa => ?_)
          obtain ⟨a1, a2, a3⟩ := a
          obtain ⟨b1, b2, b3⟩ := a'
          obtain ⟨h1, h2⟩ := haa
          simp only at h1 h2
          cases h2
          simp only
          split
          · exact ORel_pure ⟨⟨rfl, h1⟩, rfl⟩
          · rw [setViableVal_sim a2 h1]; exact ORel_pure ⟨⟨rfl, h1⟩, rfl⟩
      · simp only [matchORs, SimL_isEmpty hs]
        split
        · exact ORel_crash _
        · refine ORel_bind (ih2 false [] [] cs cs' es trivial hs) (fun a a' haa => ?_)
          obtain ⟨a1, a2, a3⟩ := a
          obtain ⟨b1, b2, b3⟩ := a'
          obtain ⟨h1, h2⟩ := haa
          simp only at h1 h2
          cases h2
          simp only
          rw [setViableVal_sim a2 h1]; exact ORel_pure ⟨⟨rfl, h1⟩, rfl⟩
    -- ---------------------------------------------------------- joinORs
    · intro isAnd done done' cs cs' es hd h
      cases cs with
      | nil => cases cs' with
        | nil => simp only [joinORs]; exact ORel_ok ⟨hd, rfl⟩
        | cons => simp [SimL] at h
      | cons a l => cases cs' with
        | nil => simp [SimL] at h
        | cons b l' =>
          simp only [joinORs, Sim_viable h.1, Sim_isSimple h.1]
          split
          · split
            · exact ORel_crash _
            · refine ORel_bind (ih1 a b es h.1) (fun x x' hx => ?_)
              obtain ⟨x1, x2, x3⟩ := x
              obtain ⟨y1, y2, y3⟩ := x'
              obtain ⟨hx1, hx2⟩ := hx
              simp only at hx1 hx2
              cases hx2
              simp only
              split
              · split
                · exact ORel_pure ⟨SimL_append hd ⟨hx1, h.2⟩, rfl⟩
                · refine ORel_bind ((unmark_sim f).1 x1 y1 x2 hx1) (fun u u' hu => ?_)
                  obtain ⟨u1, u2⟩ := u
                  obtain ⟨w1, w2⟩ := u'
                  obtain ⟨hu1, hu2⟩ := hu
                  simp only at hu1 hu2
                  cases hu2
                  exact ih2 isAnd _ _ l l' u2 (SimL_append hd ⟨hu1, trivial⟩) h.2
              · exact ih2 isAnd _ _ l l' x2 (SimL_append hd ⟨hx1, trivial⟩) h.2
          · exact ih2 isAnd _ _ l l' es (SimL_append hd ⟨h.1, trivial⟩) h.2
    -- ---------------------------------------------------------- orORs
    · intro idx done done' cs cs' es rv v c c1 c1' k hd h hc
      cases cs with
      | nil => cases cs' with
        | nil => simp only [orORs]; exact ORel_ok ⟨hd, rfl, rfl, rfl, rfl, rfl, hc⟩
        | cons => simp [SimL] at h
      | cons a l => cases cs' with
        | nil => simp [SimL] at h
        | cons b l' =>
          simp only [orORs, Sim_isOr h.1]
          -- after the first step
          have step3 : ∀ (y y' : ST × Ents × MT), R3 y y' →
              ORel RO
                (unmarkAll f y.1 y.2.1 >>= fun z =>
                  orORs f (idx + 1) (done ++ [z.1]) l z.2 y.2.2 (if v.rank < y.2.2.rank then y.2.2 else v)
                    (if (decide (MT.rank .some_ ≤ y.2.2.rank) && decide (c = -1)) = true then (idx : Int) else c)
                    (if (decide (MT.rank .some_ ≤ y.2.2.rank) && decide (c = -1)) = true then (idx : Int) else c1)
                    (if decide (MT.rank .some_ ≤ y.2.2.rank) = true then k + 1 else k))
                (unmarkAll f y'.1 y'.2.1 >>= fun z =>
                  orORs f (idx + 1) (done' ++ [z.1]) l' z.2 y'.2.2 (if v.rank < y'.2.2.rank then y'.2.2 else v)
                    (if (decide (MT.rank .some_ ≤ y'.2.2.rank) && decide (c = -1)) = true then (idx : Int) else c)
                    (if (decide (MT.rank .some_ ≤ y'.2.2.rank) && decide (c = -1)) = true then (idx : Int) else c1')
                    (if decide (MT.rank .some_ ≤ y'.2.2.rank) = true then k + 1 else k)) := by
            intro y y' hy
            obtain ⟨y1, y2, y3⟩ := y
            obtain ⟨w1, w2, w3⟩ := y'
            obtain ⟨hy1, hy2⟩ := hy
            simp only at hy1 hy2
            cases hy2
            refine ORel_bind ((unmark_sim f).1 y1 w1 y2 hy1) (fun z z' hz => ?_)
            obtain ⟨z1, z2⟩ := z
            obtain ⟨u1, u2⟩ := z'
            obtain ⟨hz1, hz2⟩ := hz
            simp only at hz1 hz2
            cases hz2
            refine ih3 (idx + 1) _ _ l l' z2 y3 _ _ _ _ _ (SimL_append hd ⟨hz1, trivial⟩) h.2 ?_
            by_cases hs : MT.rank .some_ ≤ y3.rank
            · by_cases hcm : c = -1
              · left; simp [hs, hcm]
              · simp only [hs, hcm, decide_true, decide_false, Bool.and_false, Bool.false_eq_true, if_false]
                rcases hc with e | e
                · exact Or.inl e
                · exact absurd e.1 hcm
            · simp only [hs, decide_false, Bool.false_and, Bool.false_eq_true, if_false]
              rcases hc with e | e
              · exact Or.inl e
              · right
                refine ⟨e.1, ?_⟩
                split
                · omega
                · exact e.2
          have step2 : ∀ (x x' : ST × Ents × MT), R3 x x' →
              ORel R3 (if x.1.viable = .unknown then (if x.1.isSimple = true then Outcome.crash .castSimple else matchORs f x.1 x.2.1)
                  else pure (x.1, x.2.1, x.2.2))
                (if x'.1.viable = .unknown then (if x'.1.isSimple = true then Outcome.crash .castSimple else matchORs f x'.1 x'.2.1)
                  else pure (x'.1, x'.2.1, x'.2.2)) := by
            intro x x' hx
            obtain ⟨x1, x2, x3⟩ := x
            obtain ⟨w1, w2, w3⟩ := x'
            obtain ⟨hx1, hx2⟩ := hx
            simp only at hx1 hx2
            cases hx2
            simp only [Sim_viable hx1, Sim_isSimple hx1]
            split
            · split
              · exact ORel_crash _
              · exact ih1 x1 w1 x2 hx1
            · exact ORel_pure ⟨hx1, rfl⟩
          have cont : ∀ (x x' : ST × Ents × MT), R3 x x' → ∀ (o o' : Outcome (List ST × Ents × MT × MT × Int × Int × Nat)),
              o = ((if x.1.viable = .unknown then (if x.1.isSimple = true then Outcome.crash .castSimple else matchORs f x.1 x.2.1)
                  else pure (x.1, x.2.1, x.2.2)) >>= fun y => unmarkAll f y.1 y.2.1 >>= fun z =>
                  orORs f (idx + 1) (done ++ [z.1]) l z.2 y.2.2 (if v.rank < y.2.2.rank then y.2.2 else v)
                    (if (decide (MT.rank .some_ ≤ y.2.2.rank) && decide (c = -1)) = true then (idx : Int) else c)
                    (if (decide (MT.rank .some_ ≤ y.2.2.rank) && decide (c = -1)) = true then (idx : Int) else c1)
                    (if decide (MT.rank .some_ ≤ y.2.2.rank) = true then k + 1 else k)) →
              o' = ((if x'.1.viable = .unknown then (if x'.1.isSimple = true then Outcome.crash .castSimple else matchORs f x'.1 x'.2.1)
                  else pure (x'.1, x'.2.1, x'.2.2)) >>= fun y => unmarkAll f y.1 y.2.1 >>= fun z =>
                  orORs f (idx + 1) (done' ++ [z.1]) l' z.2 y.2.2 (if v.rank < y.2.2.rank then y.2.2 else v)
                    (if (decide (MT.rank .some_ ≤ y.2.2.rank) && decide (c = -1)) = true then (idx : Int) else c)
                    (if (decide (MT.rank .some_ ≤ y.2.2.rank) && decide (c = -1)) = true then (idx : Int) else c1')
                    (if decide (MT.rank .some_ ≤ y.2.2.rank) = true then k + 1 else k)) →
              ORel RO o o' := by
            intro x x' hx o o' ho ho'
            rw [ho, ho']
            exact ORel_bind (step2 x x' hx) step3
          split
          · refine ORel_bind ((nonors_sim f).1 a b es h.1) (fun x x' hx => ?_)
            refine cont x x' hx _ _ ?_ ?_ <;> (split <;> rfl)
          · refine cont (a, es, rv) (b, es, rv) ⟨h.1, rfl⟩ _ _ ?_ ?_ <;> (simp only [pure_bind'']; split <;> rfl)


theorem trynext_sim : ∀ f : Nat,
    (∀ t t' es, Sim t t' → ORel R3 (tryNext f t es) (tryNext f t' es)) ∧
    (∀ cs cs' start es, SimL cs cs' → ORel R3L (tryBack f cs start es) (tryBack f cs' start es)) ∧
    (∀ cs cs' js es, SimL cs cs' → (∀ j ∈ js, ∀ ch, cs[j]? = some ch → ch.atLeastSome = true) →
      ORel R3L (tryFwd f cs js es) (tryFwd f cs' js es)) := by
  intro f
  induction f with
  | zero =>
    exact ⟨fun _ _ _ _ => by simp [tryNext, ORel], fun _ _ _ _ _ => by simp [tryBack, ORel],
      fun _ _ _ _ _ _ => by simp [tryFwd, ORel]⟩
  | succ f ih =>
    obtain ⟨ih1, ih2, ih3⟩ := ih
    refine ⟨?_, ?_, ?_⟩
    · intro t t' es h
      rcases Sim_cases h with ⟨n, v, im, rfl, rfl⟩ | ⟨v, c, c1, c1', k, cs, cs', rfl, rfl, hs, hc⟩ |
        ⟨v, c, c1, k, c', c1', k', cs, cs', rfl, rfl, hs⟩ | ⟨v, c, c1, k, c', c1', k', cs, cs', rfl, rfl, hs⟩
      · exact ORel_same (fun a => ⟨Sim_refl _, rfl⟩) _
      · simp only [tryNext, SimL_length hs]
        split
        · exact ORel_ok ⟨⟨rfl, rfl, rfl, hs, hc⟩, rfl⟩
        · rename_i hcl
          rcases hc with hc | hc
          · subst hc
            split
            · exact ORel_crash _
            · rename_i i _
              rcases SimL_get i hs with e | ⟨x, y, e1, e2, e3⟩
              · rw [e.1, e.2]; exact ORel_crash _
              · rw [e1, e2]
                simp only [Sim_isSimple e3]
                have step1 : ORel R3 (if (!y.isSimple) = true then tryNext f x es else pure (x, es, MT.nomore))
                    (if (!y.isSimple) = true then tryNext f y es else pure (y, es, MT.nomore)) := by
                  split
                  · exact ih1 x y es e3
                  · exact ORel_pure ⟨e3, rfl⟩
                have rest : ∀ (a a' : ST × Ents × MT), R3 a a' → ∀ o o',
                    o = (if ((!y.isSimple) && decide (a.2.2 = .all)) = true then pure (ST.mult .or v c c1 k (cs.set i a.1), a.2.1, MT.all)
                      else if ((!y.isSimple) && decide (a.2.2 = .newchoice)) = true then pure (ST.mult .or v c c1 k (cs.set i a.1), a.2.1, MT.newchoice)
                      else unmarkAll f a.1 a.2.1 >>= fun u =>
                        if k = 1 then pure (ST.mult .or v listEnd c1 k ((cs.set i a.1).set i u.1), u.2, MT.nomore)
                        else acceptChoice f (ST.mult .or v (c + 1) c1 k ((cs.set i a.1).set i u.1)) u.2 >>= fun w =>
                          if w.2.2 = true then pure (w.1, w.2.1, if allMarked w.2.1 = true then MT.all else MT.newchoice)
                          else pure (w.1, w.2.1, MT.nomore)) →
                    o' = (if ((!y.isSimple) && decide (a'.2.2 = .all)) = true then pure (ST.mult .or v c c1 k (cs'.set i a'.1), a'.2.1, MT.all)
                      else if ((!y.isSimple) && decide (a'.2.2 = .newchoice)) = true then pure (ST.mult .or v c c1 k (cs'.set i a'.1), a'.2.1, MT.newchoice)
                      else unmarkAll f a'.1 a'.2.1 >>= fun u =>
                        if k = 1 then pure (ST.mult .or v listEnd c1 k ((cs'.set i a'.1).set i u.1), u.2, MT.nomore)
                        else acceptChoice f (ST.mult .or v (c + 1) c1 k ((cs'.set i a'.1).set i u.1)) u.2 >>= fun w =>
                          if w.2.2 = true then pure (w.1, w.2.1, if allMarked w.2.1 = true then MT.all else MT.newchoice)
                          else pure (w.1, w.2.1, MT.nomore)) →
                    ORel R3 o o' := by
                  intro a a' haa o o' ho ho'
                  rw [ho, ho']
                  obtain ⟨a1, a2, a3⟩ := a
                  obtain ⟨b1, b2, b3⟩ := a'
                  obtain ⟨h1, h2⟩ := haa
                  simp only at h1 h2
                  cases h2
                  simp only
                  have hs1 := SimL_set i hs h1
                  split
                  · exact ORel_pure ⟨⟨rfl, rfl, rfl, hs1, Or.inl rfl⟩, rfl⟩
                  · split
                    · exact ORel_pure ⟨⟨rfl, rfl, rfl, hs1, Or.inl rfl⟩, rfl⟩
                    · refine ORel_bind ((unmark_sim f).1 a1 b1 a2 h1) (fun u u' hu => ?_)
                      obtain ⟨u1, u2⟩ := u
                      obtain ⟨w1, w2⟩ := u'
                      obtain ⟨hu1, hu2⟩ := hu
                      simp only at hu1 hu2
                      cases hu2
                      have hs2 := SimL_set i hs1 hu1
                      simp only
                      split
                      · exact ORel_pure ⟨⟨rfl, rfl, rfl, hs2, Or.inl rfl⟩, rfl⟩
                      · refine ORel_bind ((accept_sim f).1 _ _ u2 ⟨rfl, rfl, rfl, hs2, Or.inl rfl⟩
                          (fun _ _ _ _ _ _ _ e e' => by cases e; cases e'; rfl)) (fun w w' hw => ?_)
                        obtain ⟨p1, p2, p3⟩ := w
                        obtain ⟨q1, q2, q3⟩ := w'
                        obtain ⟨hw1, hw2⟩ := hw
                        simp only at hw1 hw2
                        cases hw2
                        simp only
                        split
                        · exact ORel_pure ⟨hw1, rfl⟩
                        · exact ORel_pure ⟨hw1, rfl⟩
                split
                · refine ORel_bind (ih1 x y es e3) (fun a a' haa => ?_)
                  exact rest a a' haa _ _ rfl rfl
                · rename_i hsim
                  simp only [pure_bind'']
                  exact rest (x, es, MT.nomore) (y, es, MT.nomore) ⟨e3, rfl⟩ _ _ rfl rfl
          · -- free `choice1`: `choice = −1` selects no child, both sides stop at the same place
            obtain ⟨hcm, _⟩ := hc
            subst hcm
            simp only [inRange_neg]
            exact ORel_crash _
      · simp only [tryNext, SimL_isEmpty hs, SimL_length hs]
        split
        · split
          · exact ORel_ok ⟨⟨rfl, hs⟩, rfl⟩
          · exact ORel_crash _
        · refine ORel_bind (ih2 cs cs' _ es hs) (fun a a' haa => ?_)
          obtain ⟨a1, a2, a3⟩ := a
          obtain ⟨b1, b2, b3⟩ := a'
          obtain ⟨h1, h2⟩ := haa
          simp only at h1 h2
          cases h2
          exact ORel_pure ⟨⟨rfl, h1⟩, rfl⟩
      · simp only [tryNext, SimL_isEmpty hs, SimL_length hs]
        split
        · split
          · exact ORel_ok ⟨⟨rfl, hs⟩, rfl⟩
          · exact ORel_crash _
        · refine ORel_bind (ih2 cs cs' _ es hs) (fun a a' haa => ?_)
          obtain ⟨a1, a2, a3⟩ := a
          obtain ⟨b1, b2, b3⟩ := a'
          obtain ⟨h1, h2⟩ := haa
          simp only at h1 h2
          cases h2
          exact ORel_pure ⟨⟨rfl, h1⟩, rfl⟩
    -- ---------------------------------------------------------- tryBack
    · intro cs cs' start es h
      simp only [tryBack, firstCand_sim h start]
      split
      · exact ORel_ok ⟨h, rfl⟩
      · rename_i i _
        rcases SimL_get i h with e | ⟨x, y, e1, e2, e3⟩
        · rw [e.1, e.2]; exact ORel_ok ⟨h, rfl⟩
        · rw [e1, e2]
          refine ORel_bind' (ih1 x y es e3) (fun a a' hae _ haa => ?_)
          obtain ⟨a1, a2, a3⟩ := a
          obtain ⟨b1, b2, b3⟩ := a'
          obtain ⟨h1, h2⟩ := haa
          simp only at h1 h2
          cases h2
          have hs1 := SimL_set i h h1
          simp only
          split
          · exact ORel_pure ⟨hs1, rfl⟩
          · split
            · rw [nextCands_sim hs1 i]
              exact ih3 _ _ _ a2 hs1 (fun j hj ch hch => by
                rw [← nextCands_sim hs1 i] at hj
                exact nextCands_spec _ i j hj ch hch)
            · split
              · split
                · exact ORel_pure ⟨hs1, rfl⟩
                · exact ORel_crash _
              · exact ih2 _ _ _ a2 hs1
    -- ---------------------------------------------------------- tryFwd
    · intro cs cs' js es h hjs
      cases js with
      | nil => simp only [tryFwd]; exact ORel_ok ⟨h, rfl⟩
      | cons j js' =>
        simp only [tryFwd]
        rcases SimL_get j h with e | ⟨x, y, e1, e2, e3⟩
        · rw [e.1, e.2]; exact ih3 cs cs' js' es h (fun j' hj' => hjs j' (List.mem_cons_of_mem _ hj'))
        · rw [e1, e2]
          have hal := hjs j (by simp) x e1
          refine ORel_bind' ((accept_sim f).1 x y es e3 (TopFixed_of_als e3 hal)) (fun a a' hae _ haa => ?_)
          obtain ⟨a1, a2, a3⟩ := a
          obtain ⟨b1, b2, b3⟩ := a'
          obtain ⟨h1, h2⟩ := haa
          simp only at h1 h2
          cases h2
          have hs1 := SimL_set j h h1
          have hsk := (accept_skel f).1 x es _ hae
          simp only
          split
          · exact ORel_pure ⟨hs1, rfl⟩
          · refine ih3 _ _ js' a2 hs1 (fun j' hj' ch hch => ?_)
            by_cases hjj : j = j'
            · subst hjj
              have hjl : j < cs.length := (List.getElem?_eq_some_iff.mp e1).1
              simp [hjl] at hch
              rw [← hch]
              simp only [ST.atLeastSome, viable_of_skel hsk]
              exact hal
            · rw [List.getElem?_set_ne hjj] at hch
              exact hjs j' (List.mem_cons_of_mem _ hj') ch hch

mutual
  theorem stContains_sim (nm : Name) : ∀ (t t' : ST), Sim t t' → stContains t nm = stContains t' nm
    | .simple n v im, .simple n' v' im', h => by obtain ⟨rfl, _, _⟩ := h; rfl
    | .mult .or v c c1 k cs, .mult .or v' c' c1' k' cs', h => by
      simp only [Sim] at h; simp only [stContains]; exact stContainsL_sim nm cs cs' h.2.2.2.1
    | .mult .and v c c1 k cs, .mult .and v' c' c1' k' cs', h => by
      simp only [Sim] at h; simp only [stContains]; exact stContainsL_sim nm cs cs' h.2
    | .mult .andor v c c1 k cs, .mult .andor v' c' c1' k' cs', h => by
      simp only [Sim] at h; simp only [stContains]; exact stContainsL_sim nm cs cs' h.2
    | .simple _ _ _, .mult .and _ _ _ _ _, h => by simp [Sim] at h
    | .mult .and _ _ _ _ _, .simple _ _ _, h => by simp [Sim] at h
    | .mult .and _ _ _ _ _, .mult .or _ _ _ _ _, h => by simp [Sim] at h
    | .mult .and _ _ _ _ _, .mult .andor _ _ _ _ _, h => by simp [Sim] at h
    | .simple _ _ _, .mult .or _ _ _ _ _, h => by simp [Sim] at h
    | .mult .or _ _ _ _ _, .simple _ _ _, h => by simp [Sim] at h
    | .mult .or _ _ _ _ _, .mult .and _ _ _ _ _, h => by simp [Sim] at h
    | .mult .or _ _ _ _ _, .mult .andor _ _ _ _ _, h => by simp [Sim] at h
    | .simple _ _ _, .mult .andor _ _ _ _ _, h => by simp [Sim] at h
    | .mult .andor _ _ _ _ _, .simple _ _ _, h => by simp [Sim] at h
    | .mult .andor _ _ _ _ _, .mult .and _ _ _ _ _, h => by simp [Sim] at h
    | .mult .andor _ _ _ _ _, .mult .or _ _ _ _ _, h => by simp [Sim] at h
  theorem stContainsL_sim (nm : Name) : ∀ (cs cs' : List ST), SimL cs cs' → stContainsL cs nm = stContainsL cs' nm
    | [], [], _ => rfl
    | a :: l, b :: l', h => by simp only [stContainsL, stContains_sim nm a b h.1, stContainsL_sim nm l l' h.2]
    | [], _ :: _, h => by simp [SimL] at h
    | _ :: _, [], h => by simp [SimL] at h
end

mutual
  theorem stHit_sim (nm : Name) : ∀ (t t' : ST), Sim t t' → stHit t nm = stHit t' nm
    | .simple n v im, .simple n' v' im', h => by obtain ⟨rfl, _, _⟩ := h; rfl
    | .mult .or v c c1 k cs, .mult .or v' c' c1' k' cs', h => by
      simp only [Sim] at h
      obtain ⟨_, rfl, _, hs, _⟩ := h
      simp only [stHit, SimL_length hs]
      split
      · exact stHitAt_sim nm cs cs' _ hs
      · exact stHitAny_sim nm cs cs' hs
    | .mult .and v c c1 k cs, .mult .and v' c' c1' k' cs', h => by
      simp only [Sim] at h; simp only [stHit]; exact stHitAny_sim nm cs cs' h.2
    | .mult .andor v c c1 k cs, .mult .andor v' c' c1' k' cs', h => by
      simp only [Sim] at h; simp only [stHit]; exact stHitAny_sim nm cs cs' h.2
    | .simple _ _ _, .mult .and _ _ _ _ _, h => by simp [Sim] at h
    | .mult .and _ _ _ _ _, .simple _ _ _, h => by simp [Sim] at h
    | .mult .and _ _ _ _ _, .mult .or _ _ _ _ _, h => by simp [Sim] at h
    | .mult .and _ _ _ _ _, .mult .andor _ _ _ _ _, h => by simp [Sim] at h
    | .simple _ _ _, .mult .or _ _ _ _ _, h => by simp [Sim] at h
    | .mult .or _ _ _ _ _, .simple _ _ _, h => by simp [Sim] at h
    | .mult .or _ _ _ _ _, .mult .and _ _ _ _ _, h => by simp [Sim] at h
    | .mult .or _ _ _ _ _, .mult .andor _ _ _ _ _, h => by simp [Sim] at h
    | .simple _ _ _, .mult .andor _ _ _ _ _, h => by simp [Sim] at h
    | .mult .andor _ _ _ _ _, .simple _ _ _, h => by simp [Sim] at h
    | .mult .andor _ _ _ _ _, .mult .and _ _ _ _ _, h => by simp [Sim] at h
    | .mult .andor _ _ _ _ _, .mult .or _ _ _ _ _, h => by simp [Sim] at h
  theorem stHitAny_sim (nm : Name) : ∀ (cs cs' : List ST), SimL cs cs' → stHitAny cs nm = stHitAny cs' nm
    | [], [], _ => rfl
    | a :: l, b :: l', h => by
      simp only [stHitAny, Sim_viable h.1, stHit_sim nm a b h.1, stHitAny_sim nm l l' h.2]
    | [], _ :: _, h => by simp [SimL] at h
    | _ :: _, [], h => by simp [SimL] at h
  theorem stHitAt_sim (nm : Name) : ∀ (cs cs' : List ST) (i : Nat), SimL cs cs' → stHitAt cs i nm = stHitAt cs' i nm
    | [], [], _, _ => rfl
    | a :: l, b :: l', 0, h => by simp only [stHitAt]; exact stHit_sim nm a b h.1
    | a :: l, b :: l', i + 1, h => by simp only [stHitAt]; exact stHitAt_sim nm l l' i h.2
    | [], _ :: _, _, h => by simp [SimL] at h
    | _ :: _, [], _, h => by simp [SimL] at h
end

theorem oddChildren_sim : ∀ (cs cs' : List ST), SimL cs cs' → SimL (oddChildren cs) (oddChildren cs')
  | [], [], _ => trivial
  | [a], [b], _ => trivial
  | a :: a2 :: l, b :: b2 :: l', h => ⟨h.2.1, oddChildren_sim l l' h.2.2⟩
  | [], _ :: _, h => by simp [SimL] at h
  | _ :: _, [], h => by simp [SimL] at h
  | [_], _ :: _ :: _, h => by simp [SimL] at h
  | _ :: _ :: _, [_], h => by simp [SimL] at h

theorem all_hit_sim (nm : Name) : ∀ (l l' : List ST), SimL l l' →
    l.all (fun ch => !(stContains ch nm) || stHit ch nm) = l'.all (fun ch => !(stContains ch nm) || stHit ch nm)
  | [], [], _ => rfl
  | a :: l, b :: l', h => by
    simp only [List.all_cons, stContains_sim nm a b h.1, stHit_sim nm a b h.1, all_hit_sim nm l l' h.2]
  | [], _ :: _, h => by simp [SimL] at h
  | _ :: _, [], h => by simp [SimL] at h

theorem hitMultNodes_sim (combo : Bool) (t t' : ST) (es : Ents) (h : Sim t t') :
    hitMultNodes combo t es = hitMultNodes combo t' es := by
  unfold hitMultNodes
  split
  · rfl
  · rcases Sim_cases h with ⟨n, v, im, rfl, rfl⟩ | ⟨v, c, c1, c1', k, cs, cs', rfl, rfl, hs, hc⟩ |
      ⟨v, c, c1, k, c', c1', k', cs, cs', rfl, rfl, hs⟩ | ⟨v, c, c1, k, c', c1', k', cs, cs', rfl, rfl, hs⟩
    · rfl
    all_goals
      simp only
      have key : ∀ node : ENode, (oddChildren cs).all (fun ch => !(stContains ch node.name) || stHit ch node.name) =
          (oddChildren cs').all (fun ch => !(stContains ch node.name) || stHit ch node.name) :=
        fun node => all_hit_sim node.name _ _ (oddChildren_sim cs cs' hs)
      simp only [key]

theorem retry_sim (combo : Bool) : ∀ (f : Nat) (t t' : ST) (es : Ents), Sim t t' →
    ORel (fun a b => a = b) (retry f combo t es) (retry f combo t' es) := by
  intro f
  induction f with
  | zero => intro _ _ _ _; simp [retry, ORel]
  | succ f ih =>
    intro t t' es h
    simp only [retry]
    refine ORel_bind ((trynext_sim f).1 t t' es h) (fun a a' haa => ?_)
    obtain ⟨a1, a2, a3⟩ := a
    obtain ⟨b1, b2, b3⟩ := a'
    obtain ⟨h1, h2⟩ := haa
    simp only at h1 h2
    cases h2
    simp only [hitMultNodes_sim combo a1 b1 a2 h1]
    split
    · split
      · exact ORel_pure rfl
      · exact ih a1 b1 a2 h1
    · split
      · exact ih a1 b1 a2 h1
      · exact ORel_pure rfl


theorem matchesAt_fresh (fuel : Nat) (combo : Bool) (head : Tree) (es : Ents) :
    matchesAt fuel combo head (fresh head) es = matchesList fuel combo head es := rfl

theorem matchesAt_sim (fuel : Nat) (combo : Bool) (head : Tree) (h0 h0' : ST) (es : Ents) (h : Sim h0 h0') :
    matchesAt fuel combo head h0 es = matchesAt fuel combo head h0' es := by
  have key : ORel (fun a b => a = b) (matchesAt fuel combo head h0 es) (matchesAt fuel combo head h0' es) := by
    unfold matchesAt
    split
    · exact ORel_crash _
    · split
      · exact ORel_ok rfl
      · refine ORel_bind ((nonors_sim fuel).1 h0 h0' es h) (fun a a' haa => ?_)
        obtain ⟨a1, a2, a3⟩ := a
        obtain ⟨b1, b2, b3⟩ := a'
        obtain ⟨h1, h2⟩ := haa
        simp only at h1 h2
        cases h2
        simp only
        split
        · exact ORel_pure rfl
        · split
          · exact ORel_pure rfl
          · refine ORel_bind ((ors_sim fuel).1 a1 b1 a2 h1) (fun x x' hx => ?_)
            obtain ⟨x1, x2, x3⟩ := x
            obtain ⟨y1, y2, y3⟩ := x'
            obtain ⟨hx1, hx2⟩ := hx
            simp only at hx1 hx2
            cases hx2
            simp only [hitMultNodes_sim combo x1 y1 x2 hx1]
            split
            · exact ORel_pure rfl
            · split
              · exact retry_sim combo fuel x1 y1 x2 hx1
              · exact ORel_pure rfl
  cases h1 : matchesAt fuel combo head h0 es <;> cases h2 : matchesAt fuel combo head h0' es <;>
    rw [h1, h2] at key <;> simp only [ORel] at key
  · rw [key]
  · rw [key]

mutual
  /-- whatever a matching attempt leaves, `reset()` gives a state the matcher cannot tell from the constructed one -/
  theorem reset_sim : ∀ (t : ST), Sim (resetST t) (fresh (trV (skel t)))
    | .simple n v im => ⟨rfl, rfl, rfl⟩
    | .mult .and v c c1 k cs => by simp only [resetST, skel, trV, fresh, Sim]; exact ⟨trivial, resetL_sim cs⟩
    | .mult .andor v c c1 k cs => by simp only [resetST, skel, trV, fresh, Sim]; exact ⟨trivial, resetL_sim cs⟩
    | .mult .or v c c1 k cs => by
      simp only [resetST, skel, trV, fresh, Sim]
      exact ⟨trivial, by decide, by decide, resetL_sim cs, Or.inr ⟨by decide, by decide⟩⟩
  theorem resetL_sim : ∀ (cs : List ST), SimL (resetL cs) (freshL (trVL (skelL cs)))
    | [] => trivial
    | c :: cs => by simp only [resetL, skelL, trVL, freshL, SimL]; exact ⟨reset_sim c, resetL_sim cs⟩
end

/-- **the verdict on a request does not depend on the requests before it**: started on the hierarchy in the state
`reset()` makes of *any* state `t` of that hierarchy, `matches` answers as on the freshly constructed one -/
theorem matches_after_reset (fuel : Nat) (combo : Bool) (head : Tree) (t : ST) (ht : trV (skel t) = head) (es : Ents) :
    matchesAt fuel combo head (resetST t) es = matchesList fuel combo head es := by
  rw [← matchesAt_fresh, ← ht]
  exact matchesAt_sim fuel combo _ _ _ es (reset_sim t)

end StepModel.Complex.Match

/-!
# Vocabulary shared by the model of the Python aggregates (`PyAgg`) and their EXPRESS specification
(`Spec.Aggregate` in `PyAggSpec.lean`): element values, declarations, operations, observable answers.
-/
namespace StepModel.PyAgg

/-- An element value: a type tag (which simple type the Python object is an instance of) and a payload.
Two values are equal (`==`, `in`, hashing) iff tag and payload are equal. -/
structure Val where
  ty : Nat
  v : Nat
  deriving DecidableEq, Repr

inductive Logical | t | f | u
  deriving DecidableEq, Repr

inductive Kind | array | list | bag | set
  deriving DecidableEq, Repr

/-- `ARRAY [lo:hi] OF [OPTIONAL] [UNIQUE] base`, `LIST [lo:hi] OF [UNIQUE] base`, `BAG/SET [lo:hi] OF base`;
`hi = none` is the indeterminate upper bound `?`. -/
structure Decl where
  kind : Kind
  lo : Int
  hi : Option Int
  base : Nat
  unique : Bool
  optional : Bool
  deriving DecidableEq, Repr

inductive Op
  | set (i : Int) (x : Val)   -- `a[i] = x`
  | get (i : Int)             -- `a[i]`
  | add (x : Val)             -- `a.add(x)`
  | size | hiindex | loindex | hibound | lobound | unique
  deriving DecidableEq, Repr

/-- What a client observes: completion, a returned value, or a refusal (any exception). -/
inductive Ans
  | ok
  | val (x : Val)
  | unset                     -- the read returned `None` (indeterminate element)
  | refused
  | int (n : Int)
  | indet                     -- `None` as a bound: indeterminate `?`
  | logical (l : Logical)
  deriving DecidableEq, Repr

end StepModel.PyAgg

/-!
# Vocabulary shared by the model of the Python aggregates (`PyAgg`) and their EXPRESS specification
(`Spec.Aggregate` in `PyAggSpec.lean`): element values, declarations, operations, observable answers.
-/
namespace StepModel.PyAgg

inductive Kind | array | list | bag | set
  deriving DecidableEq, Repr

/-- A base type / the type of a value: a finite tree — a simple type (tag = which class the Python object is an
instance of) or an aggregate kind OF a base type (`ARRAY OF LIST OF SET OF REAL` = `agg array (agg list (agg set (simple 2)))`). -/
inductive Ty
  | simple (t : Nat)
  | agg (k : Kind) (b : Ty)
  deriving DecidableEq, Repr

instance : OfNat Ty n := ⟨.simple n⟩

/-- An element value: its type and a payload.  Two values are equal (`==`, `in`, hashing) iff type and payload are
equal: for simple values the payload is the number/string, for an aggregate object it is the object's identity
(the aggregate classes define no `__eq__`/`__hash__`).  Identity of the *base-type object* of an aggregate element
(relevant when `check_type` compares base types by identity): by the harness's convention an element with an even
payload whose base type equals the declared element type's base type is built over the declaration's own base-type
object, every other element over a fresh one (`Val.sharesDeclaredBase`). -/
structure Val where
  ty : Ty
  v : Nat
  deriving DecidableEq, Repr

/-- What python's `==`, `in` and `hash` see of a value: INTEGER (tag 0), REAL (tag 2, whole numbers in the harness) and
BOOLEAN (tag 3, `False`/`True` = 0/1) compare *by number* across types (`INTEGER(1) == REAL(1.0) == True`, equal hashes);
every other value only equals itself (strings of one class, LOGICAL and aggregate objects by identity). -/
inductive Key
  | num (n : Nat)
  | other (ty : Ty) (v : Nat)
  deriving DecidableEq, Repr

def Val.key (x : Val) : Key :=
  match x.ty with
  | .simple 0 => .num x.v
  | .simple 2 => .num x.v
  | .simple 3 => .num (x.v % 2)
  | t => .other t x.v

/-- python's `x == y` on the value universe; an equivalence relation (`veq_refl/symm/trans` in PyAggLemmas.lean) -/
def veq (x y : Val) : Bool := x.key == y.key

/-- `check_type(value, base)` for a base type that is not an aggregate, as a relation between the value's type and the base:
* an ordinary simple type, BOOLEAN, LOGICAL, an ENUMERATION or BINARY (tags 0–4, 6, 7, 8): the value's own class
  (`isinstance`; no class of these is a subclass of another — regenerated `simpleSubclassPairs`, tied in Props/C19.lean);
* NUMBER (tag 5, a base type only: it has no values of its own): a base class of INTEGER and REAL (not of `bool`);
* a SELECT (tag `100 + m`, `m` the bit mask of its member tags; a base type only): the value is an instance of one of the
  member types (`SELECT.get_allowed_basic_types`). -/
def conforms (t base : Ty) : Bool :=
  match base with
  | .simple n =>
    if n = 5 then t == .simple 0 || t == .simple 2
    else if n ≥ 100 then
      (match t with
       | .simple i => decide (i < 8) && (n - 100).testBit i
       | .agg _ _ => false)
    else t == base
  | b => t == b

/-- the base types for which conformance is equality of types -/
def plainBase : Ty → Bool
  | .simple n => n != 5 && n < 100
  | .agg _ _ => true

/-- a type with the bounds of every aggregate level (`Ty` is a type *up to bounds*) -/
inductive BTy
  | simple (t : Nat)
  | agg (k : Kind) (lo : Int) (hi : Option Int) (b : BTy)
  deriving DecidableEq, Repr

def eraseBounds : BTy → Ty
  | .simple t => .simple t
  | .agg k _ _ b => .agg k (eraseBounds b)

def upperWithin : Option Int → Option Int → Bool
  | _, none => true
  | none, some _ => false
  | some a, some b => decide (a ≤ b)

def boundsConform (k : Kind) (lo : Int) (hi : Option Int) (lo' : Int) (hi' : Option Int) : Bool :=
  match k with
  | .array => decide (lo = lo') && decide (hi = hi')
  | _ => decide (lo' ≤ lo) && upperWithin hi hi'

/-- the element was built over the very base-type object of the declaration (see `Val`) -/
def Val.sharesDeclaredBase (x : Val) : Bool := x.v % 2 == 0

inductive Logical | t | f | u
  deriving DecidableEq, Repr

/-- `ARRAY [lo:hi] OF [OPTIONAL] [UNIQUE] base`, `LIST [lo:hi] OF [UNIQUE] base`, `BAG/SET [lo:hi] OF base`;
`hi = none` is the indeterminate upper bound `?`. -/
structure Decl where
  kind : Kind
  lo : Int
  hi : Option Int
  base : Ty
  unique : Bool
  optional : Bool
  deriving DecidableEq, Repr

inductive Op
  | set (i : Int) (x : Val)   -- `a[i] = x`
  | get (i : Int)             -- `a[i]`
  | add (x : Val)             -- `a.add(x)`
  | size | hiindex | loindex | hibound | lobound | unique
  deriving DecidableEq, Repr

/-- What a client observes: completion, a returned value, or a refusal (any exception). -/
inductive Ans
  | ok
  | val (x : Val)
  | unset                     -- the read returned `None` (indeterminate element)
  | refused
  | int (n : Int)
  | indet                     -- `None` as a bound: indeterminate `?`
  | logical (l : Logical)
  deriving DecidableEq, Repr

end StepModel.PyAgg

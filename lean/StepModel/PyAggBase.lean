/-!
# Vocabulary shared by the model of the Python aggregates (`PyAgg`) and their EXPRESS specification
(`Spec.Aggregate` in `PyAggSpec.lean`): element values, declarations, operations, observable answers.
-/
namespace StepModel.PyAgg

inductive Kind | array | list | bag | set
  deriving DecidableEq, Repr

/-- A base type / the type of a value: a finite tree — a simple type (tag = which class the Python object is an
instance of) or an aggregate kind OF a base type (`ARRAY OF LIST OF SET OF REAL` = `agg array (agg list (agg set (simple 2)))`). -/
inductive Ty
  | simple (t : Nat)
  | agg (k : Kind) (b : Ty)
  deriving DecidableEq, Repr

instance : OfNat Ty n := ⟨.simple n⟩

/-- An element value: its type and a payload.  Two values are equal (`==`, `in`, hashing) iff type and payload are
equal: for simple values the payload is the number/string, for an aggregate object it is the object's identity
(the aggregate classes define no `__eq__`/`__hash__`).  Identity of the *base-type object* of an aggregate element
(relevant when `check_type` compares base types by identity): by the harness's convention an element with an even
payload whose base type equals the declared element type's base type is built over the declaration's own base-type
object, every other element over a fresh one (`Val.sharesDeclaredBase`). -/
structure Val where
  ty : Ty
  v : Nat
  deriving DecidableEq, Repr

/-- the element was built over the very base-type object of the declaration (see `Val`) -/
def Val.sharesDeclaredBase (x : Val) : Bool := x.v % 2 == 0

inductive Logical | t | f | u
  deriving DecidableEq, Repr

/-- `ARRAY [lo:hi] OF [OPTIONAL] [UNIQUE] base`, `LIST [lo:hi] OF [UNIQUE] base`, `BAG/SET [lo:hi] OF base`;
`hi = none` is the indeterminate upper bound `?`. -/
structure Decl where
  kind : Kind
  lo : Int
  hi : Option Int
  base : Ty
  unique : Bool
  optional : Bool
  deriving DecidableEq, Repr

inductive Op
  | set (i : Int) (x : Val)   -- `a[i] = x`
  | get (i : Int)             -- `a[i]`
  | add (x : Val)             -- `a.add(x)`
  | size | hiindex | loindex | hibound | lobound | unique
  deriving DecidableEq, Repr

/-- What a client observes: completion, a returned value, or a refusal (any exception). -/
inductive Ans
  | ok
  | val (x : Val)
  | unset                     -- the read returned `None` (indeterminate element)
  | refused
  | int (n : Int)
  | indet                     -- `None` as a bound: indeterminate `?`
  | logical (l : Logical)
  deriving DecidableEq, Repr

end StepModel.PyAgg

import StepModel.ComplexSatO3
/-! `matchORs` stores truthful `viable` values too, and what it returns agrees with what it stores. -/
namespace StepModel.Complex.Match
open StepModel.Generated StepModel.Complex

/-- what `matchORs` returns (`r`) versus what it stores (`v`) -/
def RetOK (r v : MT) : Prop := (r = .unsat → v = .unsat) ∧ (K r → K v) ∧ (r = .unsat ∨ K r)

theorem RetOK_self {v : MT} (h : v = .unsat ∨ K v) : RetOK v v := ⟨id, id, h⟩

theorem dom_rank {x : MT} (h : x = .unknown ∨ x = .unsat ∨ K x) :
    (x = .unknown ↔ x.rank = 0) ∧ (x = .unsat ↔ x.rank = 1) ∧ (K x ↔ 2 ≤ x.rank) := by
  rcases h with h | h | h | h | h <;> subst h <;> simp [MT.rank, K]

theorem getElem?_append_some {α : Type} {l : List α} {i : Nat} {d : α} (h : l[i]? = some d) (l2 : List α) :
    (l ++ l2)[i]? = some d := by
  have hi : i < l.length := by
    cases Nat.lt_or_ge i l.length with
    | inl h' => exact h'
    | inr h' => rw [List.getElem?_eq_none h'] at h; cases h
  rw [List.getElem?_append_left hi]; exact h

/-- the loop invariant of `OrList::matchORs`: `viable` is the maximum of the children's results, and once it reaches
MATCHSOME `choice1` names a child that can be matched -/
structure OInv (done : List ST) (v : MT) (c c1 : Int) : Prop where
  known : ∀ d ∈ done, d.viable = .unsat ∨ K d.viable
  vs : v = .unknown ∨ v = .unsat ∨ K v
  vu : v = .unknown → done = []
  vun : v = .unsat → ∀ d ∈ done, d.viable = .unsat
  vk : K v → ∃ d ∈ done, K d.viable
  c1ok : MT.rank .some_ ≤ v.rank → ∃ i : Nat, c1 = (i : Int) ∧ ∃ d, done[i]? = some d ∧ K d.viable
  cinit : v.rank < MT.rank .some_ → c = -1

theorem OInv_step {done : List ST} {v : MT} {c c1 : Int} {ch3 : ST} {rv2 : MT} {b : Bool} {idx : Nat}
    (I : OInv done v c c1) (R : RetOK rv2 ch3.viable) (hidx : idx = done.length)
    (hb : b = true ↔ (MT.rank .some_ ≤ rv2.rank ∧ c = -1)) :
    OInv (done ++ [ch3]) (if v.rank < rv2.rank then rv2 else v) (if b = true then (idx : Int) else c)
      (if b = true then (idx : Int) else c1) := by
  obtain ⟨r1, r2, r3⟩ := R
  have hrdom : rv2 = .unknown ∨ rv2 = .unsat ∨ K rv2 := Or.inr r3
  obtain ⟨_, ru, rk⟩ := dom_rank hrdom
  obtain ⟨v0, v1, v2⟩ := dom_rank I.vs
  have hrpos : 1 ≤ rv2.rank := by
    rcases r3 with h | h
    · exact Nat.le_of_eq (ru.mp h).symm
    · exact Nat.le_trans (by decide) (rk.mp h)
  have hsome : MT.rank .some_ = 3 := rfl
  have hmdom : (if v.rank < rv2.rank then rv2 else v) = .unknown ∨ (if v.rank < rv2.rank then rv2 else v) = .unsat ∨
      K (if v.rank < rv2.rank then rv2 else v) := by
    split
    · exact hrdom
    · exact I.vs
  obtain ⟨m0, m1, m2⟩ := dom_rank hmdom
  have hmr : (if v.rank < rv2.rank then rv2 else v).rank = max v.rank rv2.rank := by
    split
    · omega
    · omega
  refine ⟨?_, hmdom, ?_, ?_, ?_, ?_, ?_⟩
  · intro d hd
    rcases List.mem_append.mp hd with h | h
    · exact I.known d h
    · simp only [List.mem_singleton] at h; subst h
      rcases r3 with h | h
      · exact Or.inl (r1 h)
      · exact Or.inr (r2 h)
  · intro h; have := m0.mp h; omega
  · intro h d hd
    have hm := m1.mp h
    rcases List.mem_append.mp hd with h' | h'
    · have hv : v.rank ≤ 1 := by omega
      by_cases hz : v.rank = 0
      · have := I.vu (v0.mpr hz); rw [this] at h'; cases h'
      · exact I.vun (v1.mpr (by omega)) d h'
    · simp only [List.mem_singleton] at h'; subst h'
      exact r1 (ru.mpr (by omega))
  · intro h
    have hm := m2.mp h
    by_cases hr : 2 ≤ rv2.rank
    · exact ⟨ch3, by simp, r2 (rk.mpr hr)⟩
    · obtain ⟨d, hd, hk⟩ := I.vk (v2.mpr (by omega))
      exact ⟨d, List.mem_append.mpr (Or.inl hd), hk⟩
  · intro h
    by_cases hbt : b = true
    · simp only [hbt, if_true]
      obtain ⟨hb1, _⟩ := hb.mp hbt
      exact ⟨idx, rfl, ch3, by simp [hidx], r2 (rk.mpr (by omega))⟩
    · simp only [hbt, if_false]
      have hv3 : MT.rank .some_ ≤ v.rank := by
        apply Classical.byContradiction
        intro hn
        have hc := I.cinit (by omega)
        exact hbt (hb.mpr ⟨by omega, hc⟩)
      obtain ⟨i, e, d, hd, hk⟩ := I.c1ok hv3
      exact ⟨i, e, d, getElem?_append_some hd _, hk⟩
  · intro h
    have hbf : ¬ b = true := by
      intro hbt; have := (hb.mp hbt).1; omega
    simp only [hbf, if_false]
    exact I.cinit (by omega)


theorem acceptDrop_shape (f : Nat) (v : MT) (c c1 : Int) (k : Nat) (cs : List ST) (es : Ents) (x : ST × Ents)
    (h : acceptDrop f (.mult .or v c c1 k cs) es = .ok x) :
    ∃ c' cs', x.1 = .mult .or v c' c1 k cs' ∧ skelL cs' = skelL cs ∧ names x.2 = names es := by
  unfold acceptDrop at h
  obtain ⟨⟨n', e', b⟩, h1, h2⟩ := bind_ok' h
  cases h2
  obtain ⟨c', cs', a1, a2⟩ := accept_or_shape f v c c1 k cs es _ h1
  exact ⟨c', cs', a1, a2, (accept_names f).1 _ es _ h1⟩

theorem skelL_getElem {a b : List ST} (h : skelL a = skelL b) {i : Nat} {x y : ST} (hx : a[i]? = some x) (hy : b[i]? = some y) :
    skel x = skel y := by
  rw [skelL_eq_map, skelL_eq_map] at h
  have h1 : (a.map skel)[i]? = some (skel x) := by rw [List.getElem?_map, hx]; rfl
  have h2 : (b.map skel)[i]? = some (skel y) := by rw [List.getElem?_map, hy]; rfl
  rw [h, h2] at h1
  exact (Option.some.inj h1).symm

theorem inRange_nat {i0 n i : Nat} (h : inRange (i0 : Int) n = some i) : i = i0 := by
  unfold inRange at h
  split at h
  · have := Option.some.inj h; simpa using this.symm
  · cases h

theorem dom_stored {v : MT} (h : v = .unknown ∨ v = .unsat ∨ K v) : Stored v := by
  rcases h with h | h | h
  · subst h; exact ⟨by simp, by simp⟩
  · subst h; exact ⟨by simp, by simp⟩
  · exact K_stored h

structure O1 (N : List Name) (t0 : ST) (r : ST × Ents × MT) : Prop where
  sem : SemV N (skel r.1)
  trr : trV (skel r.1) = trV (skel t0)
  nm : names r.2.1 = N
  ret : RetOK r.2.2 r.1.viable

theorem SemV_child {N : List Name} {cs : List ST} (h : SemVL N (skelL cs)) {c : ST} (hc : c ∈ cs) : SemV N (skel c) :=
  (SemVL_iff N _).mp h _ (mem_skelL hc)

theorem known_cases {N : List Name} {c : ST} (h : SemV N (skel c)) (hu : c.viable ≠ .unknown) :
    c.viable = .unsat ∨ K c.viable := by
  have := SemV_stored h
  rw [viable_skel'] at this
  rcases stored_cases this with h' | h' | h'
  · exact absurd h' hu
  · exact Or.inl h'
  · exact Or.inr h'

theorem ors_sem (N : List Name) (hN : N.Pairwise (· < ·)) : ∀ f : Nat,
    (∀ t es r, matchORs f t es = .ok r → Pend t → SemV N (skel t) → names es = N → O1 N t r) ∧
    (∀ isAnd done rest es r, joinORs f isAnd done rest es = .ok r → PendL rest → SemVL N (skelL rest) → names es = N →
      names r.2.1 = N ∧ ∃ tail, r.1 = done ++ tail ∧ trVL (skelL tail) = trVL (skelL rest) ∧ SemVL N (skelL tail) ∧
        (r.2.2 = true → isAnd = true ∧ ∃ c ∈ tail, c.viable = .unsat) ∧
        (r.2.2 = false → (∀ c ∈ tail, c.viable ≠ .unknown) ∧
          (isAnd = true → (∀ c ∈ rest, c.viable ≠ .unsat) → ∀ c ∈ tail, c.viable ≠ .unsat))) ∧
    (∀ restT idx done es rv v c c1 k r, orORs f idx done (freshL restT) es rv v c c1 k = .ok r →
      treeWFL restT = true → names es = N → idx = done.length → OInv done v c c1 →
      names r.2.1 = N ∧ ∃ tail, r.1 = done ++ tail ∧ trVL (skelL tail) = restT ∧ SemVL N (skelL tail) ∧
        OInv (done ++ tail) r.2.2.2.1 r.2.2.2.2.1 r.2.2.2.2.2.1) := by
  intro f
  induction f with
  | zero =>
    exact ⟨fun _ _ _ h => by simp [matchORs] at h, fun _ _ _ _ _ h => by simp [joinORs] at h,
      fun _ _ _ _ _ _ _ _ _ _ h => by simp [orORs] at h⟩
  | succ f ih =>
    obtain ⟨ih1, ih2, ih3⟩ := ih
    refine ⟨?_, ?_, ?_⟩
    · intro t es r h hp hs hnm
      cases t with
      | simple n v im => exact absurd hp (by simp [Pend])
      | mult j v c c1 k cs =>
        cases j with
        | and =>
          simp only [Pend] at hp
          obtain ⟨hvu, hpl⟩ := hp
          simp only [skel] at hs
          obtain ⟨hne0, hsl, _, _, _, handc⟩ := hs
          have hne : cs ≠ [] := by
            intro e; subst e; exact hne0 rfl
          have hemp : cs.isEmpty = false := by cases cs with | nil => exact absurd rfl hne | cons => rfl
          simp only [matchORs, hemp, Bool.false_eq_true, if_false] at h
          obtain ⟨⟨cs', es', failed⟩, h1, h2⟩ := bind_ok' h
          obtain ⟨hn', tail, htail, htr, hsem, hyes, hno⟩ := ih2 true [] cs es _ h1 hpl hsl hnm
          simp only [List.nil_append] at htail
          subst htail
          have hlen : cs'.length = cs.length := by
            rw [← skelL_length cs', ← trVL_length, htr, trVL_length, skelL_length]
          have hne' : cs' ≠ [] := ne_nil_of_len hlen hne
          cases failed with
          | true =>
            simp only [if_true] at h2; cases h2
            obtain ⟨_, c0, hc0, hcu⟩ := hyes rfl
            refine ⟨SemV_join_node (by simp) hne' hsem .unsat ⟨by simp, by simp⟩ (fun _ => ?_)
              (fun h => absurd rfl (K_ne_unsat h)) (fun _ h => by cases h) _ _ _,
              (by simp only [skel, trV]; rw [htr]), hn', RetOK_self (Or.inl rfl)⟩
            simp only [trV, satO]
            have := SemV_unsat (SemV_child hsem hc0) (by rw [viable_skel']; exact hcu)
            exact satOAll_false_of_mem N _ _ (trVL_mem (mem_skelL hc0)) this
          | false =>
            simp only [Bool.false_eq_true, if_false] at h2; cases h2
            obtain ⟨g1, g2⟩ := hno rfl
            have g3 := g2 rfl (fun c hc => by
              have := handc rfl hvu (skel c) (mem_skelL hc)
              rwa [viable_skel'] at this)
            have hallK : ∀ c ∈ cs', K c.viable := by
              intro c hc
              rcases known_cases (SemV_child hsem hc) (g1 c hc) with h' | h'
              · exact absurd h' (g3 c hc)
              · exact h'
            have hst : ∀ c ∈ cs', Stored c.viable := fun c hc => K_stored (hallK c hc)
            obtain ⟨s1, s2, s3⟩ := setViableVal_props cs' es' hne' hst
            have hnu : setViableVal cs' es' ≠ .unknown := by
              intro hu
              obtain ⟨c, hc, hcu⟩ := s2.mp hu
              exact g1 c hc hcu
            obtain ⟨c0, hc0⟩ := List.exists_mem_of_ne_nil cs' hne'
            have hK : K (setViableVal cs' es') := (s3 hnu).mpr ⟨c0, hc0, hallK c0 hc0⟩
            refine ⟨SemV_join_node (by simp) hne' hsem _ s1 (fun hv => absurd hv (K_ne_unsat hK)) (fun _ => ?_)
              (fun _ hu => absurd hu hnu) _ _ _, (by simp only [skel, trV]; rw [htr]), hn', RetOK_self (Or.inr hK)⟩
            simp only [trV, satO]
            apply satOAll_true_of_all
            intro t' ht'
            obtain ⟨x, hx, hxt⟩ := trVL_mem_inv ht'
            obtain ⟨c', hc', rfl⟩ := mem_skelL_inv hx
            rw [← hxt]
            exact SemV_K (SemV_child hsem hc') (by rw [viable_skel']; exact hallK c' hc')
        | andor =>
          simp only [Pend] at hp
          obtain ⟨hvu, hpl⟩ := hp
          simp only [skel] at hs
          obtain ⟨hne0, hsl, _, _, _, _⟩ := hs
          have hne : cs ≠ [] := by
            intro e; subst e; exact hne0 rfl
          have hemp : cs.isEmpty = false := by cases cs with | nil => exact absurd rfl hne | cons => rfl
          simp only [matchORs, hemp, Bool.false_eq_true, if_false] at h
          obtain ⟨⟨cs', es', flag⟩, h1, h2⟩ := bind_ok' h
          obtain ⟨hn', tail, htail, htr, hsem, hyes, hno⟩ := ih2 false [] cs es _ h1 hpl hsl hnm
          simp only [List.nil_append] at htail
          subst htail
          have hlen : cs'.length = cs.length := by
            rw [← skelL_length cs', ← trVL_length, htr, trVL_length, skelL_length]
          have hne' : cs' ≠ [] := ne_nil_of_len hlen hne
          cases h2
          have hflag : flag = false := by
            cases flag with
            | false => rfl
            | true => exact absurd (hyes rfl).1 (by simp)
          obtain ⟨g1, _⟩ := hno hflag
          have hst : ∀ c ∈ cs', Stored c.viable := fun c hc => by
            have := SemV_stored (SemV_child hsem hc); rwa [viable_skel'] at this
          obtain ⟨s1, s2, s3⟩ := setViableVal_props cs' es' hne' hst
          have hnu : setViableVal cs' es' ≠ .unknown := by
            intro hu
            obtain ⟨c, hc, hcu⟩ := s2.mp hu
            exact g1 c hc hcu
          refine ⟨SemV_join_node (by simp) hne' hsem _ s1 (fun hv => ?_) (fun hk => ?_)
            (fun h => by cases h) _ _ _, (by simp only [skel, trV]; rw [htr]), hn', RetOK_self ?_⟩
          · simp only [trV, satO]
            apply satOAny_false_of_all
            intro t' ht'
            obtain ⟨x, hx, hxt⟩ := trVL_mem_inv ht'
            obtain ⟨c', hc', rfl⟩ := mem_skelL_inv hx
            rw [← hxt]
            apply SemV_unsat (SemV_child hsem hc')
            rw [viable_skel']
            rcases known_cases (SemV_child hsem hc') (g1 c' hc') with h' | h'
            · exact h'
            · have := (s3 hnu).mpr ⟨c', hc', h'⟩
              rw [hv] at this; exact absurd rfl (K_ne_unsat this)
          · simp only [trV, satO]
            obtain ⟨c', hc', hck⟩ := (s3 hnu).mp hk
            exact satOAny_true_of_mem N _ _ (trVL_mem (mem_skelL hc'))
              (SemV_K (SemV_child hsem hc') (by rw [viable_skel']; exact hck))
          · rcases stored_cases s1 with h' | h' | h'
            · exact absurd h' hnu
            · exact Or.inl h'
            · exact Or.inr h'
        | or =>
          simp only [Pend] at hp
          obtain ⟨ts, hts, hwf⟩ := hp
          simp only [fresh] at hts
          injection hts with _ hv hc hc1 hk hcs
          subst hv hc hc1 hk hcs
          simp only [treeWF, Bool.and_eq_true, Bool.not_eq_true', List.isEmpty_eq_false_iff] at hwf
          simp only [matchORs] at h
          obtain ⟨⟨cs', es', rv', v', c', c1', k'⟩, h1, h2⟩ := bind_ok' h
          have I0 : OInv [] .unknown orInitChoice orInitChoice1 :=
            ⟨(fun d hd => by cases hd), Or.inl rfl, fun _ => rfl, (fun h => by cases h),
              (fun h => absurd rfl (K_ne_unknown h)), (fun h => by simp [MT.rank] at h), fun _ => rfl⟩
          obtain ⟨hn', tail, htail, htr, hsem, I⟩ := ih3 ts 0 [] es _ _ _ _ _ _ h1 hwf.2 hnm rfl I0
          simp only [List.nil_append] at htail I
          subst htail
          have hlen : cs'.length = ts.length := by
            rw [← skelL_length cs', ← trVL_length, htr]
          have hne' : cs' ≠ [] := ne_nil_of_len hlen hwf.1
          simp only at h2 I
          have hnu' : v' ≠ .unknown := fun hu => hne' (I.vu hu)
          have hdom : v' = .unsat ∨ K v' := by
            rcases I.vs with h' | h' | h'
            · exact absurd h' hnu'
            · exact Or.inl h'
            · exact Or.inr h'
          have hnode : ∀ cs'', skelL cs'' = skelL cs' → SemV N (.mult .or v' (skelL cs'')) ∧
              trV (.mult .or v' (skelL cs'')) = .or ts := by
            intro cs'' hsk
            rw [hsk]
            refine ⟨⟨?_, hsem, fun hv => ?_, fun hk => ?_, dom_stored I.vs, (fun h => by cases h)⟩, (by simp only [trV]; rw [htr])⟩
            · intro e; have := congrArg List.length e; simp [skelL_length] at this; exact hne' this
            · simp only [trV, satO]
              apply satOAny_false_of_all
              intro t' ht'
              obtain ⟨x, hx, hxt⟩ := trVL_mem_inv ht'
              obtain ⟨d, hd, rfl⟩ := mem_skelL_inv hx
              rw [← hxt]
              exact SemV_unsat (SemV_child hsem hd) (by rw [viable_skel']; exact I.vun hv d hd)
            · simp only [trV, satO]
              obtain ⟨d, hd, hdk⟩ := I.vk hk
              exact satOAny_true_of_mem N _ _ (trVL_mem (mem_skelL hd))
                (SemV_K (SemV_child hsem hd) (by rw [viable_skel']; exact hdk))
          have htr0 : trV (skel (ST.mult Join.or MT.unknown orInitChoice orInitChoice1 orInitCount (freshL ts))) = .or ts := by
            simp only [skel, trV]; rw [trVL_fresh]
          obtain ⟨⟨node', es''⟩, hA, hB⟩ := ite_bind_ok h2
          have hshape : ∃ c'' cs'', node' = .mult .or v' c'' c1' k' cs'' ∧ skelL cs'' = skelL cs' ∧ names es'' = N := by
            split at hA
            · obtain ⟨c'', cs'', a1, a2, a3⟩ := acceptDrop_shape f v' c' c1' k' cs' es' _ hA
              exact ⟨c'', cs'', a1, a2, by rw [a3, hn']⟩
            · cases hA; exact ⟨c', cs', rfl, rfl, hn'⟩
          obtain ⟨c'', cs'', hnd, hsk, hn''⟩ := hshape
          subst hnd
          obtain ⟨hS, hT⟩ := hnode cs'' hsk
          simp only at hB
          by_cases hall : v' = .all
          · subst hall
            simp only [if_true] at hB
            obtain ⟨i0, hi0, d, hd, hdk⟩ := I.c1ok (by decide)
            split at hB
            · cases hB
            · rename_i i hir
              split at hB
              · cases hB
              · rename_i ch hch
                cases hB
                rw [hi0] at hir
                have := inRange_nat hir
                subst this
                have hv : ch.viable = d.viable := viable_of_skel (skelL_getElem hsk hch hd)
                have hk : K ch.viable := by rw [hv]; exact hdk
                exact ⟨(by simp only [skel]; exact hS), (by rw [htr0]; simp only [skel]; exact hT), hn'',
                  ⟨fun h' => absurd h' (K_ne_unsat hk), fun _ => Or.inr (Or.inr rfl), Or.inr hk⟩⟩
          · simp only [hall, if_false] at hB
            cases hB
            exact ⟨(by simp only [skel]; exact hS), (by rw [htr0]; simp only [skel]; exact hT), hn'', RetOK_self hdom⟩
    -- ---------------------------------------------------------- loops of AndList/AndOrList::matchORs
    · intro isAnd done rest es r h hpl hsl hnm
      cases rest with
      | nil =>
        simp only [joinORs] at h; cases h
        exact ⟨hnm, [], (by simp), rfl, trivial, (fun h => by cases h),
          fun _ => ⟨(fun c hc => by cases hc), fun _ _ c hc => (by cases hc)⟩⟩
      | cons ch rest =>
        simp only [PendL] at hpl
        simp only [skelL, SemVL] at hsl
        obtain ⟨hpc, hpr⟩ := hpl
        obtain ⟨hsc, hsr⟩ := hsl
        simp only [joinORs] at h
        by_cases hu : ch.viable = .unknown
        · simp only [hu, if_true] at h
          split at h
          · cases h
          · obtain ⟨⟨ch', es1, rc⟩, h1, h2⟩ := bind_ok' h
            have hpend : Pend ch := by
              rcases hpc with h' | h'
              · exact absurd hu h'
              · exact h'
            have O := ih1 ch es _ h1 hpend hsc hnm
            obtain ⟨o1, o2, o3⟩ := O.ret
            simp only at h2 o1 o2 o3
            by_cases hrc : rc = .unsat
            · simp only [hrc, if_true] at h2
              cases isAnd with
              | true =>
                simp only [if_true] at h2; cases h2
                exact ⟨O.nm, ch' :: rest, rfl, (by simp only [skelL, trVL]; rw [O.trr]), ⟨O.sem, hsr⟩,
                  fun _ => ⟨rfl, ch', (by simp), o1 hrc⟩, (fun h => by cases h)⟩
              | false =>
                simp only [Bool.false_eq_true, if_false] at h2
                obtain ⟨⟨ch2, es2⟩, h3, h4⟩ := bind_ok' h2
                have hs2 := (unmark_skel f).1 ch' es1 _ h3
                have hn2 : names es2 = N := by rw [(unmark_names f).1 ch' es1 _ h3]; exact O.nm
                obtain ⟨hn', tail2, ht2, htr2, hsem2, hy, hn⟩ := ih2 false (done ++ [ch2]) rest es2 r h4 hpr hsr hn2
                have hv2 : ch2.viable = .unsat := by rw [viable_of_skel hs2]; exact o1 hrc
                refine ⟨hn', ch2 :: tail2, (by rw [ht2]; simp), (by simp only [skelL, trVL]; rw [hs2, O.trr, htr2]),
                  ⟨(by rw [hs2]; exact O.sem), hsem2⟩, fun hf => absurd (hy hf).1 (by simp), fun hf => ?_⟩
                obtain ⟨g1, _⟩ := hn hf
                refine ⟨fun c hc => ?_, fun h' => (by cases h')⟩
                rcases List.mem_cons.mp hc with e | e
                · rw [e, hv2]; simp
                · exact g1 c e
            · simp only [hrc, if_false] at h2
              have hk : K ch'.viable := by
                rcases o3 with h' | h'
                · exact absurd h' hrc
                · exact o2 h'
              obtain ⟨hn', tail2, ht2, htr2, hsem2, hy, hn⟩ := ih2 isAnd (done ++ [ch']) rest es1 r h2 hpr hsr O.nm
              refine ⟨hn', ch' :: tail2, (by rw [ht2]; simp), (by simp only [skelL, trVL]; rw [O.trr, htr2]),
                ⟨O.sem, hsem2⟩, fun hf => ?_, fun hf => ?_⟩
              · obtain ⟨a, c, hc, hcu⟩ := hy hf
                exact ⟨a, c, List.mem_cons_of_mem _ hc, hcu⟩
              · obtain ⟨g1, g2⟩ := hn hf
                refine ⟨fun c hc => ?_, fun ha hall c hc => ?_⟩
                · rcases List.mem_cons.mp hc with e | e
                  · rw [e]; exact K_ne_unknown hk
                  · exact g1 c e
                · rcases List.mem_cons.mp hc with e | e
                  · rw [e]; exact K_ne_unsat hk
                  · exact g2 ha (fun x hx => hall x (List.mem_cons_of_mem _ hx)) c e
        · simp only [hu, if_false] at h
          obtain ⟨hn', tail2, ht2, htr2, hsem2, hy, hn⟩ := ih2 isAnd (done ++ [ch]) rest es r h hpr hsr hnm
          refine ⟨hn', ch :: tail2, (by rw [ht2]; simp), (by simp only [skelL, trVL]; rw [htr2]),
            ⟨hsc, hsem2⟩, fun hf => ?_, fun hf => ?_⟩
          · obtain ⟨a, c, hc, hcu⟩ := hy hf
            exact ⟨a, c, List.mem_cons_of_mem _ hc, hcu⟩
          · obtain ⟨g1, g2⟩ := hn hf
            refine ⟨fun c hc => ?_, fun ha hall c hc => ?_⟩
            · rcases List.mem_cons.mp hc with e | e
              · rw [e]; exact hu
              · exact g1 c e
            · rcases List.mem_cons.mp hc with e | e
              · rw [e]; exact hall ch (by simp)
              · exact g2 ha (fun x hx => hall x (List.mem_cons_of_mem _ hx)) c e
    -- ---------------------------------------------------------- loop of OrList::matchORs
    · intro restT idx done es rv v c c1 k r h hwf hnm hidx I
      cases restT with
      | nil =>
        simp only [freshL, orORs] at h; cases h
        exact ⟨hnm, [], (by simp), rfl, trivial, (by simpa using I)⟩
      | cons t rest =>
        simp only [treeWFL, Bool.and_eq_true] at hwf
        simp only [freshL, orORs] at h
        obtain ⟨⟨ch1, es1, rv1⟩, hA, hB⟩ := ite_bind_ok h
        have A : SemV N (skel ch1) ∧ trV (skel ch1) = t ∧ names es1 = N ∧ (ch1.viable = .unknown → Pend ch1) ∧
            (ch1.viable ≠ .unknown → rv1 = ch1.viable) := by
          split at hA
          · rename_i hno
            have P := (nonors_sem N hN f).1 t es _ hA hwf.1 hnm
            have hnot : isOrT t = false := by rw [← isOr_fresh']; simpa using hno
            exact ⟨P.sem, P.trr, P.nm, P.pend, fun _ => (P.via hnot).symm⟩
          · rename_i hno
            cases hA
            have hor : isOrT t = true := by rw [← isOr_fresh']; simpa using hno
            refine ⟨fresh_SemV N t hwf.1, trV_fresh t, hnm, fun _ => ?_, fun hne => absurd (fresh_viable t) hne⟩
            cases t with
            | or ts => exact ⟨ts, rfl, hwf.1⟩
            | simple n => cases hor
            | and ts => cases hor
            | andor ts => cases hor
        obtain ⟨a1, a2, a3, a4, a5⟩ := A
        simp only at hB
        obtain ⟨⟨ch2, es2, rv2⟩, hC, hD⟩ := ite_bind_ok hB
        have B : SemV N (skel ch2) ∧ trV (skel ch2) = t ∧ names es2 = N ∧ RetOK rv2 ch2.viable := by
          split at hC
          · rename_i hu
            split at hC
            · cases hC
            · have O := ih1 ch1 es1 _ hC (a4 hu) a1 a3
              exact ⟨O.sem, O.trr.trans a2, O.nm, O.ret⟩
          · rename_i hu
            cases hC
            refine ⟨a1, a2, a3, ?_⟩
            rw [a5 hu]
            exact RetOK_self (known_cases a1 hu)
        obtain ⟨b1, b2, b3, b4⟩ := B
        simp only at hD
        obtain ⟨⟨ch3, es3⟩, hE, hF⟩ := bind_ok' hD
        have hs3 := (unmark_skel f).1 ch2 es2 _ hE
        have hn3 : names es3 = N := by rw [(unmark_names f).1 ch2 es2 _ hE]; exact b3
        simp only at hF hs3
        have b4' : RetOK rv2 ch3.viable := by rw [viable_of_skel hs3]; exact b4
        have I' := OInv_step (b := decide (MT.rank .some_ ≤ rv2.rank) && decide (c = -1)) (idx := idx) I b4' hidx
          (by simp)
        obtain ⟨hn', tail2, ht2, htr2, hsem2, I2⟩ := ih3 rest (idx + 1) (done ++ [ch3]) es3 _ _ _ _ _ r hF hwf.2 hn3
          (by simp [hidx]) I'
        refine ⟨hn', ch3 :: tail2, (by rw [ht2]; simp), (by simp only [skelL, trVL]; rw [hs3, b2, htr2]),
          ⟨(by rw [hs3]; exact b1), hsem2⟩, ?_⟩
        simpa using I2

end StepModel.Complex.Match

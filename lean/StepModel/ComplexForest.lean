import StepModel.ComplexSemHead
/-!
# Forests (every entity has at most one supertype): the meaning of the emitted tree is `Spec.Legal`

`ForestWF s lvl` — the declarations of a well-formed single-supertype schema (what check-express accepts plus "at most
one supertype"): distinct names, `subs` is exactly the reverse of `supers`, expressions mention each direct subtype at
most once, no cycle (`lvl` grows from supertype to subtype), an ABSTRACT entity has a subtype.
-/
namespace StepModel.Complex

structure ForestWF (s : Schema) (lvl : Name → Nat) : Prop where
  nodup : (s.map (·.name)).Nodup
  single : ∀ e ∈ s, e.supers.length ≤ 1
  subs_iff : ∀ e ∈ s, ∀ m, m ∈ e.subs ↔ ∃ e' ∈ s, e'.name = m ∧ e'.supers = [e.name]
  subs_nodup : ∀ e ∈ s, e.subs.Nodup
  supers_decl : ∀ e ∈ s, ∀ p ∈ e.supers, ∃ e' ∈ s, e'.name = p
  expr_ok : ∀ e ∈ s, ∀ x, e.expr = some x → (∀ m ∈ x.ents, m ∈ e.subs) ∧ x.ents.Nodup
  lvl_lt : ∀ e ∈ s, ∀ m ∈ e.subs, lvl e.name < lvl m
  abstract_subs : ∀ e ∈ s, e.abstract = true → e.subs ≠ []

theorem find_some {s : Schema} {n : Name} {e : Entity} (h : s.find n = some e) : e ∈ s ∧ e.name = n := by
  unfold Schema.find at h
  exact ⟨List.mem_of_find?_eq_some h, by simpa using List.find?_some h⟩

theorem find_of_mem {s : Schema} (hn : (s.map (·.name)).Nodup) {e : Entity} (he : e ∈ s) : s.find e.name = some e := by
  unfold Schema.find
  induction s with
  | nil => cases he
  | cons a as ih =>
    simp only [List.map_cons, List.nodup_cons] at hn
    rcases List.mem_cons.mp he with h | h
    · subst h; simp [List.find?_cons]
    · have hne : a.name ≠ e.name := by
        intro heq; exact hn.1 (by rw [heq]; exact List.mem_map_of_mem h)
      simp only [List.find?_cons]
      have : (a.name == e.name) = false := by simpa using hne
      rw [this]
      exact ih hn.2 h

section
variable {s : Schema} {lvl : Name → Nat} (W : ForestWF s lvl)
include W

/-- `m` is a direct subtype of `n` -/
def IsSub (s : Schema) (n m : Name) : Prop := ∃ e, s.find n = some e ∧ m ∈ e.subs

theorem IsSub.lvlLt {n m : Name} (h : IsSub s n m) : lvl n < lvl m := by
  obtain ⟨e, he, hm⟩ := h
  obtain ⟨h1, h2⟩ := find_some he
  have := W.lvl_lt e h1 m hm
  rwa [h2] at this

/-- the supertype list of a direct subtype of `n` is `[n]` -/
theorem IsSub.supers {n m : Name} (h : IsSub s n m) : ∃ em, s.find m = some em ∧ em.supers = [n] := by
  obtain ⟨e, he, hm⟩ := h
  obtain ⟨hes, hen⟩ := find_some he
  obtain ⟨e', he', hn', hs'⟩ := (W.subs_iff e hes m).mp hm
  refine ⟨e', ?_, by rw [hs', hen]⟩
  rw [← hn']; exact find_of_mem W.nodup he'

theorem IsSub.parent_unique {n n' m : Name} (h : IsSub s n m) (h' : IsSub s n' m) : n = n' := by
  obtain ⟨em, hf, hs⟩ := IsSub.supers W h
  obtain ⟨em', hf', hs'⟩ := IsSub.supers W h'
  rw [hf] at hf'; cases hf'
  rw [hs] at hs'; simpa using hs'

theorem isSub_of_super {m p : Name} {em : Entity} (hf : s.find m = some em) (hp : p ∈ em.supers) : IsSub s p m := by
  obtain ⟨hes, hen⟩ := find_some hf
  obtain ⟨ep, hep, hpn⟩ := W.supers_decl em hes p hp
  refine ⟨ep, by rw [← hpn]; exact find_of_mem W.nodup hep, ?_⟩
  refine (W.subs_iff ep hep m).mpr ⟨em, hes, hen, ?_⟩
  have hl := W.single em hes
  cases hsup : em.supers with
  | nil => rw [hsup] at hp; cases hp
  | cons a rest =>
    rw [hsup] at hp hl
    cases rest with
    | nil => simp at hp; rw [← hp, hpn]
    | cons => simp at hl

end

/-- `Reach s n m`: `m` is `n` or a (transitive) subtype of `n` -/
inductive Reach (s : Schema) : Name → Name → Prop
  | refl (n : Name) : Reach s n n
  | step {n k m : Name} : IsSub s n k → Reach s k m → Reach s n m

theorem Reach.snoc {s : Schema} {n q m : Name} (h : Reach s n q) (hq : IsSub s q m) : Reach s n m := by
  induction h with
  | refl => exact Reach.step hq (Reach.refl _)
  | step hs _ ih => exact Reach.step hs (ih hq)

theorem Reach.trans {s : Schema} {a b c : Name} (h : Reach s a b) (h' : Reach s b c) : Reach s a c := by
  induction h with
  | refl => exact h'
  | step hs _ ih => exact Reach.step hs (ih h')

/-- last-step form -/
theorem Reach.last {s : Schema} {n m : Name} (h : Reach s n m) : m = n ∨ ∃ q, Reach s n q ∧ IsSub s q m := by
  induction h with
  | refl => exact Or.inl rfl
  | @step n k m hs hr ih =>
    rcases ih with h1 | ⟨q, hq, hqm⟩
    · subst h1; exact Or.inr ⟨n, Reach.refl _, hs⟩
    · exact Or.inr ⟨q, Reach.step hs hq, hqm⟩

section
variable {s : Schema} {lvl : Name → Nat} (W : ForestWF s lvl)
include W

theorem Reach.lvl_le {n m : Name} (h : Reach s n m) : lvl n ≤ lvl m := by
  induction h with
  | refl => exact Nat.le_refl _
  | step hs _ ih => have := IsSub.lvlLt W hs; omega

theorem Reach.lvl_lt {n m : Name} (h : Reach s n m) (hne : m ≠ n) : lvl n < lvl m := by
  cases h with
  | refl => exact absurd rfl hne
  | step hs hr => have := IsSub.lvlLt W hs; have := Reach.lvl_le W hr; omega

/-- ancestors of a node are linearly ordered -/
theorem Reach.linear {a b m : Name} (ha : Reach s a m) (hb : Reach s b m) : Reach s a b ∨ Reach s b a := by
  induction ha generalizing b with
  | refl => exact Or.inr hb
  | @step n k m hs hr ih =>
    -- b reaches m; compare b with k
    rcases ih hb with h | h
    · -- k reaches b
      exact Or.inl (Reach.step hs h)
    · -- b reaches k: b = k or b reaches the parent of k, which is n
      rcases Reach.last h with h1 | ⟨q, hq, hqk⟩
      · subst h1; exact Or.inl (Reach.step hs (Reach.refl _))
      · have : q = n := IsSub.parent_unique W hqk hs
        subst this; exact Or.inr hq

/-- a direct subtype of `n` that lies below another direct subtype `m` of `n` is `m` -/
theorem sub_below_sub {n m y : Name} (hm : IsSub s n m) (hy : IsSub s n y) (hr : Reach s m y) : y = m := by
  rcases Reach.last hr with h | ⟨q, hq, hqy⟩
  · exact h
  · have : q = n := IsSub.parent_unique W hqy hy
    subst this
    have h1 := Reach.lvl_le W hq
    have h2 := IsSub.lvlLt W hm
    omega

/-- the direct subtype of `n` above a node is unique -/
theorem sub_above_unique {n m m' k : Name} (hm : IsSub s n m) (hm' : IsSub s n m') (h : Reach s m k) (h' : Reach s m' k) :
    m = m' := by
  rcases Reach.linear W h h' with hl | hl
  · exact (sub_below_sub W hm hm' hl).symm
  · exact sub_below_sub W hm' hm hl

end


-- ------------------------------------------------------------------ Bool/Prop bridges
theorem subset_iff (a b : List Name) : subset a b = true ↔ ∀ x ∈ a, x ∈ b := by
  simp [subset, List.all_eq_true]

theorem sameSet_iff (a b : List Name) : sameSet a b = true ↔ SameSet a b := by
  simp only [sameSet, Bool.and_eq_true, subset_iff, SameSet]
  constructor
  · rintro ⟨h1, h2⟩ x; exact ⟨h1 x, h2 x⟩
  · intro h; exact ⟨fun x => (h x).mp, fun x => (h x).mpr⟩

/-- the subtypes of `e` present in `X` -/
def present (e : Entity) (X : List Name) : List Name := e.subs.filter (fun n => X.contains n)

theorem mem_present {e : Entity} {X : List Name} {k : Name} : k ∈ present e X ↔ k ∈ e.subs ∧ k ∈ X := by
  simp [present]

theorem localOK_eq (e : Entity) (X : List Name) :
    localOK e X = if (present e X).isEmpty then !e.abstract else e.admits.any (fun S => sameSet S (present e X)) := rfl

theorem present_congr {e : Entity} {X X' : List Name} (h : ∀ k ∈ e.subs, (k ∈ X ↔ k ∈ X')) : present e X = present e X' := by
  unfold present
  apply List.filter_congr
  intro k hk
  have := h k hk
  by_cases h1 : k ∈ X
  · have h2 := this.mp h1; simp [h1, h2]
  · have h2 : k ∉ X' := fun h' => h1 (this.mpr h'); simp [h1, h2]

theorem localOK_congr {e : Entity} {X X' : List Name} (h : ∀ k ∈ e.subs, (k ∈ X ↔ k ∈ X')) : localOK e X = localOK e X' := by
  rw [localOK_eq, localOK_eq, present_congr h]

-- ------------------------------------------------------------------ what the admitted sets are made of
theorem mem_prodD_cons' {d : List (List Name)} {ds : List (List (List Name))} {Z : List Name} :
    Z ∈ prodD (d :: ds) ↔ ∃ x ∈ d, ∃ y ∈ prodD ds, Z = x ++ y := by
  simp only [prodD, List.mem_flatMap, List.mem_map]
  constructor
  · rintro ⟨x, hx, y, hy, rfl⟩; exact ⟨x, hx, y, hy, rfl⟩
  · rintro ⟨x, hx, y, hy, rfl⟩; exact ⟨x, hx, y, hy, rfl⟩

theorem mem_selD_cons' {d : List (List Name)} {ds : List (List (List Name))} {Z : List Name} :
    Z ∈ selD (d :: ds) ↔ Z ∈ selD ds ∨ Z ∈ d ∨ ∃ x ∈ d, ∃ y ∈ selD ds, Z = x ++ y := by
  simp only [selD, List.mem_append, List.mem_flatMap, List.mem_map]
  constructor
  · rintro ((h | h) | ⟨x, hx, y, hy, rfl⟩)
    · exact Or.inl h
    · exact Or.inr (Or.inl h)
    · exact Or.inr (Or.inr ⟨x, hx, y, hy, rfl⟩)
  · rintro (h | h | ⟨x, hx, y, hy, rfl⟩)
    · exact Or.inl (Or.inl h)
    · exact Or.inl (Or.inr h)
    · exact Or.inr ⟨x, hx, y, hy, rfl⟩

theorem mem_prodD_pair {A B : List (List Name)} {Z : List Name} :
    Z ∈ prodD [A, B] ↔ ∃ x ∈ A, ∃ y ∈ B, Z = x ++ y := by
  rw [mem_prodD_cons']
  constructor
  · rintro ⟨x, hx, w, hw, rfl⟩
    obtain ⟨y, hy, e, he, rfl⟩ := mem_prodD_cons'.mp hw
    simp only [prodD, List.mem_singleton] at he; subst he
    exact ⟨x, hx, y, hy, by simp⟩
  · rintro ⟨x, hx, y, hy, rfl⟩
    exact ⟨x, hx, y ++ [], mem_prodD_cons'.mpr ⟨y, hy, [], by simp [prodD], rfl⟩, by simp⟩

/-- every set in `D` is a duplicate-free list of members of `U` -/
def Within (D : List (List Name)) (U : List Name) : Prop := ∀ S ∈ D, (∀ m ∈ S, m ∈ U) ∧ S.Nodup ∧ S ≠ []

theorem nodup_append_of_disjoint {a b : List Name} (ha : a.Nodup) (hb : b.Nodup) (hd : ∀ x ∈ a, x ∉ b) : (a ++ b).Nodup := by
  rw [List.nodup_append]
  exact ⟨ha, hb, fun x hx y hy hxy => hd x hx (hxy ▸ hy)⟩

theorem Within.pair {A B : List (List Name)} {U V : List Name} (hA : Within A U) (hB : Within B V)
    (hd : ∀ x ∈ U, x ∉ V) : Within (A.flatMap fun x => B.map fun y => x ++ y) (U ++ V) := by
  intro S hS
  simp only [List.mem_flatMap, List.mem_map] at hS
  obtain ⟨x, hx, y, hy, rfl⟩ := hS
  obtain ⟨hxu, hxn, hxe⟩ := hA x hx
  obtain ⟨hyv, hyn, _⟩ := hB y hy
  refine ⟨?_, nodup_append_of_disjoint hxn hyn (fun z hz hz' => hd z (hxu z hz) (hyv z hz')), by simp [hxe]⟩
  intro m hm
  rcases List.mem_append.mp hm with h | h
  · exact List.mem_append.mpr (Or.inl (hxu m h))
  · exact List.mem_append.mpr (Or.inr (hyv m h))

theorem Within.mono {A : List (List Name)} {U V : List Name} (hA : Within A U) (h : ∀ x ∈ U, x ∈ V) : Within A V :=
  fun S hS => ⟨fun m hm => h m ((hA S hS).1 m hm), (hA S hS).2⟩

theorem Within.append {A B : List (List Name)} {U : List Name} (hA : Within A U) (hB : Within B U) : Within (A ++ B) U := by
  intro S hS
  rcases List.mem_append.mp hS with h | h
  · exact hA S h
  · exact hB S h

mutual
  theorem admits_within : ∀ (x : Expr), x.ents.Nodup → Within x.admits x.ents
    | .ent n, _ => by
      intro S hS; simp only [Expr.admits, List.mem_singleton] at hS; subst hS
      simp [Expr.ents]
    | .and a b, h => by
      simp only [Expr.ents] at h
      have hn := List.nodup_append.mp h
      have ha := admits_within a hn.1
      have hb := admits_within b hn.2.1
      have hd : ∀ x ∈ a.ents, x ∉ b.ents := fun x hx hx' => hn.2.2 x hx x hx' rfl
      have := Within.pair ha hb hd
      simp only [Expr.admits, Expr.ents]
      intro S hS
      obtain ⟨x, hx, y, hy, rfl⟩ := mem_prodD_pair.mp hS
      apply this
      simp only [List.mem_flatMap, List.mem_map]
      exact ⟨x, hx, y, hy, rfl⟩
    | .andor a b, h => by
      simp only [Expr.ents] at h
      have hn := List.nodup_append.mp h
      have ha := admits_within a hn.1
      have hb := admits_within b hn.2.1
      have hd : ∀ x ∈ a.ents, x ∉ b.ents := fun x hx hx' => hn.2.2 x hx x hx' rfl
      have hp := Within.pair ha hb hd
      simp only [Expr.ents]
      have e : (Expr.andor a b).admits = b.admits ++ a.admits ++ a.admits.flatMap (fun x => b.admits.map fun y => x ++ y) := by
        show selD [a.admits, b.admits] = _
        show selD [b.admits] ++ a.admits ++ a.admits.flatMap (fun x => (selD [b.admits]).map fun y => x ++ y) = _
        rw [selD_single]
      rw [e]
      refine Within.append (Within.append ?_ ?_) hp
      · exact hb.mono (fun x hx => List.mem_append.mpr (Or.inr hx))
      · exact ha.mono (fun x hx => List.mem_append.mpr (Or.inl hx))
    | .oneof es, h => by
      simp only [Expr.ents] at h
      simp only [Expr.admits, Expr.ents]
      exact admitsL_within es h
  theorem admitsL_within : ∀ (es : List Expr), (Expr.entsL es).Nodup → Within (Expr.admitsL es).flatten (Expr.entsL es)
    | [], _ => by intro S hS; simp [Expr.admitsL] at hS
    | x :: xs, h => by
      simp only [Expr.entsL] at h
      have hn := List.nodup_append.mp h
      simp only [Expr.admitsL, List.flatten_cons, Expr.entsL]
      refine Within.append ?_ ?_
      · exact (admits_within x hn.1).mono (fun y hy => List.mem_append.mpr (Or.inl hy))
      · exact (admitsL_within xs hn.2.1).mono (fun y hy => List.mem_append.mpr (Or.inr hy))
end

inductive All2 {α β : Type} (R : α → β → Prop) : List α → List β → Prop
  | nil : All2 R [] []
  | cons {a : α} {b : β} {as : List α} {bs : List β} : R a b → All2 R as bs → All2 R (a :: as) (b :: bs)

/-- non-empty selections over blocks with pairwise disjoint supports -/
theorem selD_within {Bs : List (List (List Name))} {Us : List (List Name)} (h : All2 Within Bs Us) :
    (Us.Pairwise fun U V => ∀ x ∈ U, x ∉ V) → Within (selD Bs) Us.flatten := by
  induction h with
  | nil => intro _ S hS; simp [selD] at hS
  | @cons B U Bs Us hB _ ih =>
    intro hp
    have hp' := List.pairwise_cons.mp hp
    have hrest := ih hp'.2
    have hd : ∀ x ∈ U, x ∉ Us.flatten := by
      intro x hx hx'
      obtain ⟨V, hV, hxV⟩ := List.mem_flatten.mp hx'
      exact hp'.1 V hV x hx hxV
    intro S hS
    simp only [List.flatten_cons]
    rcases mem_selD_cons'.mp hS with h | h | ⟨x, hx, y, hy, rfl⟩
    · exact (hrest.mono (fun z hz => List.mem_append.mpr (Or.inr hz))) S h
    · exact (hB.mono (fun z hz => List.mem_append.mpr (Or.inl hz))) S h
    · exact Within.pair hB hrest hd (x ++ y) (by
        simp only [List.mem_flatMap, List.mem_map]; exact ⟨x, hx, y, hy, rfl⟩)


theorem all2_singles (I : List Name) : All2 Within (I.map fun n => [[n]]) (I.map fun n => [n]) := by
  induction I with
  | nil => exact All2.nil
  | cons n I ih =>
    refine All2.cons ?_ ih
    intro S hS; simp only [List.mem_singleton] at hS; subst hS; simp

theorem pairwise_singles {I : List Name} (h : I.Nodup) :
    (I.map fun n => [n]).Pairwise fun U V => ∀ x ∈ U, x ∉ V := by
  induction I with
  | nil => simp
  | cons n I ih =>
    have hn := List.nodup_cons.mp h
    simp only [List.map_cons, List.pairwise_cons]
    refine ⟨?_, ih hn.2⟩
    intro V hV x hx
    simp only [List.mem_map] at hV
    obtain ⟨k, hk, rfl⟩ := hV
    simp only [List.mem_singleton] at hx ⊢
    subst hx; intro h'; subst h'; exact hn.1 hk

theorem flatten_singles (I : List Name) : (I.map fun n => [n]).flatten = I := by
  induction I with
  | nil => rfl
  | cons n I ih => simp [ih]

theorem implicit_nodup {e : Entity} (h : e.subs.Nodup) : e.implicit.Nodup := by
  unfold Entity.implicit; exact h.filter _

theorem mem_implicit {e : Entity} {m : Name} : m ∈ e.implicit ↔ m ∈ e.subs ∧
    m ∉ (match e.expr with | some x => x.ents | none => []) := by
  unfold Entity.implicit
  cases e.expr <;> simp

/-- every set an entity admits is a duplicate-free list of its direct subtypes -/
theorem entity_admits_within {s : Schema} {lvl : Name → Nat} (W : ForestWF s lvl) {e : Entity} (he : e ∈ s) :
    Within e.admits e.subs := by
  have hsn := W.subs_nodup e he
  have hin := implicit_nodup hsn
  unfold Entity.admits
  cases hx : e.expr with
  | none =>
    simp only [List.nil_append]
    have := selD_within (all2_singles e.implicit) (pairwise_singles hin)
    rw [flatten_singles] at this
    exact this.mono (fun m hm => (mem_implicit.mp hm).1)
  | some x =>
    obtain ⟨hsub, hnd⟩ := W.expr_ok e he x hx
    simp only [List.cons_append, List.nil_append]
    have h2 : All2 Within (x.admits :: e.implicit.map fun n => [[n]]) (x.ents :: e.implicit.map fun n => [n]) :=
      All2.cons (admits_within x hnd) (all2_singles e.implicit)
    have hp : (x.ents :: e.implicit.map fun n => [n]).Pairwise fun U V => ∀ y ∈ U, y ∉ V := by
      refine List.pairwise_cons.mpr ⟨?_, pairwise_singles hin⟩
      intro V hV y hy
      simp only [List.mem_map] at hV
      obtain ⟨k, hk, rfl⟩ := hV
      simp only [List.mem_singleton]
      intro h'; subst h'
      have := (mem_implicit.mp hk).2
      rw [hx] at this; exact this hy
    have := selD_within h2 hp
    simp only [List.flatten_cons, flatten_singles] at this
    refine this.mono ?_
    intro m hm
    rcases List.mem_append.mp hm with h | h
    · exact hsub m h
    · exact (mem_implicit.mp h).1

mutual
  theorem exprKids_defined (T : Name → Option Tree) : ∀ (x : Expr) (p : Parent) (ts : List Tree),
      exprKids T p x = some ts → ∀ m ∈ x.ents, ∃ t, T m = some t
    | .ent n, p, ts, h, m, hm => by
      simp only [exprKids, Option.map_eq_some_iff] at h
      obtain ⟨t, ht, _⟩ := h
      simp only [Expr.ents, List.mem_singleton] at hm; subst hm; exact ⟨t, ht⟩
    | .and a b, p, ts, h, m, hm => by
      simp only [exprKids] at h
      cases ha : exprKids T .andL a with
      | none => rw [ha] at h; simp at h
      | some l =>
        cases hb : exprKids T .andL b with
        | none => rw [ha, hb] at h; simp at h
        | some r =>
          simp only [Expr.ents, List.mem_append] at hm
          rcases hm with h1 | h1
          · exact exprKids_defined T a .andL l ha m h1
          · exact exprKids_defined T b .andL r hb m h1
    | .andor a b, p, ts, h, m, hm => by
      simp only [exprKids] at h
      cases ha : exprKids T .andorL a with
      | none => rw [ha] at h; simp at h
      | some l =>
        cases hb : exprKids T .andorL b with
        | none => rw [ha, hb] at h; simp at h
        | some r =>
          simp only [Expr.ents, List.mem_append] at hm
          rcases hm with h1 | h1
          · exact exprKids_defined T a .andorL l ha m h1
          · exact exprKids_defined T b .andorL r hb m h1
    | .oneof es, p, ts, h, m, hm => by
      simp only [exprKids, Option.map_eq_some_iff] at h
      obtain ⟨cs, hcs, _⟩ := h
      simp only [Expr.ents] at hm
      exact exprKidsL_defined T es cs hcs m hm
  theorem exprKidsL_defined (T : Name → Option Tree) : ∀ (es : List Expr) (ts : List Tree),
      exprKidsL T es = some ts → ∀ m ∈ Expr.entsL es, ∃ t, T m = some t
    | [], ts, h, m, hm => by simp [Expr.entsL] at hm
    | x :: xs, ts, h, m, hm => by
      simp only [exprKidsL] at h
      cases hx : exprKids T .orL x with
      | none => rw [hx] at h; simp at h
      | some l =>
        cases hxs : exprKidsL T xs with
        | none => rw [hx, hxs] at h; simp at h
        | some r =>
          simp only [Expr.entsL, List.mem_append] at hm
          rcases hm with h1 | h1
          · exact exprKids_defined T x .orL l hx m h1
          · exact exprKidsL_defined T xs r hxs m h1
end

theorem mapOpt_defined {α β : Type} (f : α → Option β) : ∀ (l : List α) (r : List β), mapOpt f l = some r →
    ∀ a ∈ l, ∃ b, f a = some b
  | [], _, _, a, ha => by cases ha
  | x :: xs, r, h, a, ha => by
    simp only [mapOpt] at h
    cases hx : f x with
    | none => rw [hx] at h; simp at h
    | some b =>
      cases hxs : mapOpt f xs with
      | none => rw [hx, hxs] at h; simp at h
      | some bs =>
        rcases List.mem_cons.mp ha with h1 | h1
        · subst h1; exact ⟨b, hx⟩
        · exact mapOpt_defined f xs bs hxs a h1

/-- a list built by `headOf` has a tree for every direct subtype of the entity -/
theorem headOf_defined (s : Schema) (f : Nat) (e : Entity) (h : Tree) (hh : headOf s (f + 1) e = some h)
    (hagree : ∀ b, (match e.expr with | none => some [] | some x => exprKids (fun n => entTree s f n) .superHead x) = some b →
      ImplicitAgree e b) :
    ∀ m ∈ e.subs, ∃ t, entTree s f m = some t := by
  intro m hm
  simp only [headOf] at hh
  cases hexpr : e.expr with
  | none =>
    rw [hexpr] at hh
    have hag := hagree [] (by rw [hexpr])
    simp only [ImplicitAgree, hexpr] at hag
    simp only [List.nil_append] at hh
    rw [hag] at hh
    have himp : m ∈ e.implicit := by rw [mem_implicit, hexpr]; exact ⟨hm, by simp⟩
    split at hh
    · rename_i hemp
      cases hi : e.implicit with
      | nil => rw [hi] at himp; cases himp
      | cons => rw [hi] at hemp; simp at hemp
    · cases hmo : mapOpt (fun n => entTree s f n) e.implicit with
      | none => rw [hmo] at hh; simp at hh
      | some ts => exact mapOpt_defined _ _ ts hmo m himp
  | some x =>
    rw [hexpr] at hh
    simp only at hh
    cases hb : exprKids (fun n => entTree s f n) .superHead x with
    | none => rw [hb] at hh; simp at hh
    | some b =>
      rw [hb] at hh
      have hag := hagree b (by rw [hexpr]; exact hb)
      simp only [ImplicitAgree, hexpr] at hag
      simp only at hh
      rw [hag] at hh
      by_cases hmx : m ∈ x.ents
      · exact exprKids_defined _ x .superHead b hb m hmx
      · have himp : m ∈ e.implicit := by rw [mem_implicit, hexpr]; exact ⟨hm, hmx⟩
        split at hh
        · rename_i hemp
          cases hi : e.implicit with
          | nil => rw [hi] at himp; cases himp
          | cons => rw [hi] at hemp; simp at hemp
        · cases hmo : mapOpt (fun n => entTree s f n) e.implicit with
          | none => rw [hmo] at hh; simp at hh
          | some ts => exact mapOpt_defined _ _ ts hmo m himp


-- ------------------------------------------------------------------ families as lists of pairs
theorem Fam.pairs {T : Name → Option Tree} {S : List Name} {Zs : List (List Name)} (h : Fam T S Zs) :
    ∃ l : List (Name × List Name), l.map Prod.fst = S ∧ l.map Prod.snd = Zs ∧
      ∀ p ∈ l, ∃ t, T p.1 = some t ∧ Der (denote t) p.2 := by
  induction h with
  | nil => exact ⟨[], rfl, rfl, fun _ h => by cases h⟩
  | @cons m S Z Zs t ht hd _ ih =>
    obtain ⟨l, h1, h2, h3⟩ := ih
    refine ⟨(m, Z) :: l, by simp [h1], by simp [h2], ?_⟩
    intro p hp
    rcases List.mem_cons.mp hp with e | e
    · subst e; exact ⟨t, ht, hd⟩
    · exact h3 p e

theorem Fam.ofMap {T : Name → Option Tree} (Z : Name → List Name) : ∀ (S : List Name),
    (∀ m ∈ S, ∃ t, T m = some t ∧ Der (denote t) (Z m)) → Fam T S (S.map Z)
  | [], _ => Fam.nil
  | m :: S, h => by
    obtain ⟨t, ht, hd⟩ := h m (by simp)
    exact Fam.cons ht hd (Fam.ofMap Z S (fun k hk => h k (List.mem_cons_of_mem _ hk)))

theorem pair_unique : ∀ {l : List (Name × List Name)}, (l.map Prod.fst).Nodup → ∀ p ∈ l, ∀ q ∈ l, p.1 = q.1 → p = q
  | [], _, p, hp, _, _, _ => by cases hp
  | a :: l, hn, p, hp, q, hq, hpq => by
    simp only [List.map_cons, List.nodup_cons] at hn
    rcases List.mem_cons.mp hp with e1 | e1 <;> rcases List.mem_cons.mp hq with e2 | e2
    · rw [e1, e2]
    · subst e1; exact absurd (by rw [hpq]; exact List.mem_map_of_mem e2) hn.1
    · subst e2; exact absurd (by rw [← hpq]; exact List.mem_map_of_mem e1) hn.1
    · exact pair_unique hn.2 p e1 q e2 hpq

theorem mem_flatten_snd {l : List (Name × List Name)} {y : Name} :
    y ∈ (l.map Prod.snd).flatten ↔ ∃ p ∈ l, y ∈ p.2 := by
  simp only [List.mem_flatten, List.mem_map]
  constructor
  · rintro ⟨Z, ⟨p, hp, rfl⟩, hy⟩; exact ⟨p, hp, hy⟩
  · rintro ⟨p, hp, hy⟩; exact ⟨p.2, ⟨p, hp, rfl⟩, hy⟩

-- ------------------------------------------------------------------ rooted legality, flat form
/-- `X` is a legal set rooted at `n`: it contains `n`, lies inside `n`'s subtree, every member other than `n` has its
supertype in `X`, and every member's own rule holds over the subtypes present -/
def Flat (s : Schema) (n : Name) (X : List Name) : Prop :=
  n ∈ X ∧ (∀ m ∈ X, Reach s n m) ∧
  (∀ m ∈ X, m ≠ n → ∃ e, s.find m = some e ∧ ∀ p ∈ e.supers, p ∈ X) ∧
  (∀ m ∈ X, ∃ e, s.find m = some e ∧ localOK e X = true)

theorem Flat.congr {s : Schema} {n : Name} {X X' : List Name} (h : SameSet X X') (hf : Flat s n X) : Flat s n X' := by
  obtain ⟨h1, h2, h3, h4⟩ := hf
  refine ⟨(h n).mp h1, fun m hm => h2 m ((h m).mpr hm), ?_, ?_⟩
  · intro m hm hne
    obtain ⟨e, he, hp⟩ := h3 m ((h m).mpr hm) hne
    exact ⟨e, he, fun p hp' => (h p).mp (hp p hp')⟩
  · intro m hm
    obtain ⟨e, he, hl⟩ := h4 m ((h m).mpr hm)
    refine ⟨e, he, ?_⟩
    rw [← localOK_congr (X := X) (X' := X') (fun k _ => h k)]; exact hl

section
variable {s : Schema} {lvl : Name → Nat} (W : ForestWF s lvl)
include W

/-- members of a set closed under supertypes: every node between a member and the root is a member -/
theorem anc_mem {n : Name} {X : List Name}
    (hcl : ∀ m ∈ X, m ≠ n → ∃ e, s.find m = some e ∧ ∀ p ∈ e.supers, p ∈ X) :
    ∀ {k y : Name}, Reach s k y → y ∈ X → lvl n < lvl k → k ∈ X := by
  intro k y h
  induction h with
  | refl => intro hy _; exact hy
  | @step a b c hs hr ih =>
    intro hy hl
    have hlb := IsSub.lvlLt W hs
    have hb : b ∈ X := ih hy (by omega)
    have hbn : b ≠ n := by intro e; subst e; omega
    obtain ⟨eb, heb, hsup⟩ := hcl b hb hbn
    obtain ⟨eb', heb', hs'⟩ := IsSub.supers W hs
    rw [heb] at heb'; cases heb'
    exact hsup a (by rw [hs']; simp)

end

end StepModel.Complex

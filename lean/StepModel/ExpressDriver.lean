import StepModel.ExpressResolve
/-!
Line-protocol front end shared by the drivers `m_c20` and `m_c04` (see checks/c20.py for the grammar).
A file is described declaration by declaration, then `run <tool> <switches>` answers with what the model says the
tool prints and returns.  Unknown or malformed requests answer `bad-op`.
-/
namespace StepModel.Express.Driver
open StepModel.Generated
open StepModel.Express
open StepModel.Express.Resolve

def hexVal (c : Char) : Option Nat :=
  if '0' ≤ c ∧ c ≤ '9' then some (c.toNat - 48)
  else if 'a' ≤ c ∧ c ≤ 'f' then some (c.toNat - 87)
  else if 'A' ≤ c ∧ c ≤ 'F' then some (c.toNat - 55)
  else none

def unhex : List Char → Option (List Char)
  | [] => some []
  | a :: b :: r => do
    let x ← hexVal a; let y ← hexVal b; let t ← unhex r
    pure (Char.ofNat (16 * x + y) :: t)
  | _ => none

def hexDigit (n : Nat) : Char := if n < 10 then Char.ofNat (48 + n) else Char.ofNat (87 + n)
def hex (cs : List Char) : String :=
  String.ofList (cs.flatMap fun c => let b := c.toNat % 256; [hexDigit (b / 16), hexDigit (b % 16)])

def unhexS (s : String) : Option String := if s = "-" then some "" else (unhex s.toList).map String.ofList

partial def parseTypeRef (s : String) : Option TypeRef :=
  if s = "S" then some .simple
  else if s.startsWith "A:" then (parseTypeRef (s.drop 2).toString).map .aggr
  else match s.splitOn ":" with
    | ["N", n, l] => l.toNat?.map fun l => .named n l
    | _ => none

def parsePairs (s : String) : Option (List (String × Nat)) :=
  if s = "-" then some [] else
  (s.splitOn ",").mapM fun p => match p.splitOn ":" with
    | [n, l] => l.toNat?.map fun l => (n, l)
    | _ => none

structure St where
  path : String := "x.exp"
  bytes : List Char := []
  done : List Schema := []         -- finished schemas, reversed
  schemaName : String := "s"
  schemaLine : Nat := 0
  schemaFile : Option String := none
  started : Bool := false
  ifaces : List Iface := []        -- of the current schema, reversed
  decls : List Decl := []          -- of the current schema, reversed
  order : List String := []
  deriving Inhabited

def St.current (st : St) : Schema := ⟨st.schemaName, st.schemaLine, st.decls.reverse, st.ifaces.reverse, st.schemaFile⟩

def St.file (st : St) : File :=
  ⟨st.path, (if st.started then st.current :: st.done else st.done).reverse, st.order⟩

def St.newSchema (st : St) (n : String) (l : Nat) (file : Option String := none) : St :=
  { st with done := (if st.started then st.current :: st.done else st.done),
            schemaName := n, schemaLine := l, schemaFile := file, started := true, ifaces := [], decls := [] }

def updEntity (st : St) (f : Entity → Entity) : Option St :=
  match st.decls with
  | .entity e :: r => some { st with decls := .entity (f e) :: r }
  | _ => none

def addItem (rules : List Rule) (it : RuleItem) : List Rule :=
  match rules.reverse with
  | r :: rs => (({ r with items := r.items ++ [it] }) :: rs).reverse
  | [] => rules

def updRule (st : St) (it : RuleItem) : Option St :=
  match st.decls with
  | .entity e :: r => some { st with decls := .entity { e with rules := addItem e.rules it } :: r }
  | .type t :: r => some { st with decls := .type { t with rules := addItem t.rules it } :: r }
  | .func f :: r => some { st with decls := .func { f with body := addItem f.body it } :: r }
  | _ => none

/-- `isWhere`: a domain rule (`rule` line) as opposed to another expression context (`expr` line: DERIVE initialiser, aggregate
    bound, statement of an algorithm) -/
def addRule (st : St) (n : String) (l : Nat) (isWhere : Bool := true) : Option St :=
  match st.decls with
  | .entity e :: r => some { st with decls := .entity { e with rules := e.rules ++ [⟨n, l, [], isWhere⟩] } :: r }
  | .type t :: r => some { st with decls := .type { t with rules := t.rules ++ [⟨n, l, [], isWhere⟩] } :: r }
  | .func f :: r => some { st with decls := .func { f with body := f.body ++ [⟨n, l, [], false⟩] } :: r }
  | _ => none

def addLocal (st : St) (n : String) : Option St :=
  match st.decls with
  | .func f :: r => some { st with decls := .func { f with locals := f.locals ++ [n] } :: r }
  | _ => none

def parseCallArgs (t : String) : Option (List CallArg) :=
  if t = "-" then some [] else
  (t.splitOn ",").mapM fun a =>
    if a = "L" then some .lit
    else match a.splitOn ":" with
      | ["B", n] => some (.bare n)
      | ["S", n] => some (.selfAttr n)
      | _ => none

def parseAlgKind : String → Option AlgKind
  | "function" => some .function | "rule" => some .rule | "constant" => some .constant | _ => none

def updIface (st : St) (it : Item) : Option St :=
  match st.ifaces with
  | i :: r => match i.items with
    | some its => some { st with ifaces := { i with items := some (its ++ [it]) } :: r }
    | none => none
  | [] => none

def parseSwitches (s : String) : Option (List Diag.Switch) :=
  if s = "-" then some [] else
  (s.splitOn ",").mapM fun p => match p.splitOn ":" with
    | ["w", n] => some ⟨.w, n⟩
    | ["i", n] => some ⟨.i, n⟩
    | _ => none

def parseTool : String → Option Diag.Tool
  | "check-express" => some .checkExpress | "exppp" => some .exppp
  | "exp2cxx" => some .exp2cxx | "exp2python" => some .exp2python | _ => none

/-- the driver's stand-in for register/stack garbage: a conversion that reads it prints byte 0x01 -/
def markAmbient : Diag.Ambient := ⟨fun _ => [Char.ofNat 1], fun _ => 1, fun _ => 1, fun _ => [Char.ofNat 1]⟩

def showArg : Diag.Arg → String
  | .str s => "s" ++ hex s
  | .chr c => "c" ++ toString c
  | .int i => "d" ++ toString i
  | .real t => "f" ++ hex t

def lexOf (st : St) : List Diag.Diag :=
  (Lex.lexDiags st.bytes).map (fun d => Lex.toDiag st.path.toList st.bytes d ResolveGen.lineBase)

def runReply (st : St) (tool : Diag.Tool) (sws : List Diag.Switch) : String :=
  let f := st.file
  let v := verdict f (lexOf st)
  let res := Diag.runCmd tool LibErrors.setWarningNullGuard LibErrors.withLineForwardsVaList markAmbient sws
    v.parse v.resolve []
  match res with
  | .crashed => "R status=crash"
  | .usage => "R status=usage"
  | .ran r =>
    let st := match r.status with | some n => toString n | none => "abort"
    let b := match r.banner with
      | some t => if t = LibErrors.failBanner.toList then "E" else "N"
      | none => "-"
    let ds := r.printed.map fun (c, m) => s!"{c}:{hex m}"
    s!"R status={st} banner={b} backend={if r.backendRan then 1 else 0} diverges={if v.diverges then 1 else 0} | " ++ " ".intercalate ds

/-- the diagnostics as data (code, line, via, arguments), both phases, regardless of gates and switches -/
def diagsReply (st : St) : String :=
  let v := verdict st.file (lexOf st)
  let sh := fun (d : Diag.Diag) => s!"{d.code}:{d.line}:{match d.via with | .line => "L" | .symbol => "S" | .plain => "P"}:" ++ ",".intercalate (d.args.map showArg)
  "D parse " ++ " ".intercalate (v.parse.map sh) ++ " | resolve " ++ " ".intercalate (v.resolve.map sh)

def lexReply (bytes : List Char) : String :=
  "L " ++ " ".intercalate ((Lex.lexDiags bytes).map fun d =>
    s!"{d.code}:{d.off}:{Lex.lineAt bytes d.off}:" ++ (match d.arg with | some a => showArg a | none => "-"))

def dfsReply (ret : Bool) (e : String) (edges : List (String × List String)) : String :=
  let g := fun n => ((edges.find? (·.1 = n)).map (·.2)).getD []
  match dfs ret e g (edges.length + 1) (g e) [] with
  | none => "F out-of-fuel"
  | some r => s!"F found={if r.found then 1 else 0} trail={",".intercalate r.trail}"

def handle (st : St) (line : String) : St × String :=
  let bad := (st, "bad-op")
  let ok := fun (o : Option St) => match o with | some s => (s, "") | none => bad
  match (line.trimAscii.toString.splitOn " ").filter (· ≠ "") with
  | ["file", p] => match unhexS p with | some p => ({ (default : St) with path := p }, "") | none => bad
  | ["bytes", h] => match (if h = "-" then some [] else unhex h.toList) with | some b => ({ st with bytes := b }, "") | none => bad
  | ["schema", n, l] => ok (l.toNat?.map fun l => st.newSchema n l)
  | ["schema", n, l, fh] => ok (do
      let l ← l.toNat?; let fl ← unhexS fh
      pure (st.newSchema n l (some fl)))
  | ["unique", lab, l, q, a] => ok (l.toNat? >>= fun l =>
      updEntity st fun e => { e with uniques := e.uniques ++ [⟨lab, l, if q = "-" then none else some q, a⟩] })
  | ["iface", k, sch, l, form] =>
    (match k, form, l.toNat? with
     | "use", "whole", some l => ({ st with ifaces := ⟨.use, sch, l, none⟩ :: st.ifaces }, "")
     | "ref", "whole", some l => ({ st with ifaces := ⟨.ref, sch, l, none⟩ :: st.ifaces }, "")
     | "use", "items", some l => ({ st with ifaces := ⟨.use, sch, l, some []⟩ :: st.ifaces }, "")
     | "ref", "items", some l => ({ st with ifaces := ⟨.ref, sch, l, some []⟩ :: st.ifaces }, "")
     | _, _, _ => bad)
  | ["item", o, n, l] => ok (l.toNat? >>= fun l => updIface st ⟨o, if n = "-" then none else some n, l⟩)
  | ["order", names] => ({ st with order := names.splitOn "," }, "")
  | ["redecl", n, l, t, sup] => ok (do
      let l ← l.toNat?; let t ← parseTypeRef t
      updEntity st fun e => { e with attrs := e.attrs ++ [⟨n, l, t, none, some sup⟩] })
  | ["entity", n, l] => ok (l.toNat?.map fun l => { st with decls := .entity ⟨n, l, [], [], [], [], [], false⟩ :: st.decls })
  | ["super", n, l] => ok (l.toNat? >>= fun l => updEntity st fun e => { e with supers := e.supers ++ [(n, l)] })
  | ["sub", n] => ok (updEntity st fun e => { e with subs := e.subs ++ [n] })
  | ["attr", n, l, t] => ok (do
      let l ← l.toNat?; let t ← parseTypeRef t
      updEntity st fun e => { e with attrs := e.attrs ++ [⟨n, l, t, none, none⟩] })
  | ["inv", n, l, t, fn, fl] => ok (do
      let l ← l.toNat?; let t ← parseTypeRef t; let fl ← fl.toNat?
      updEntity st fun e => { e with attrs := e.attrs ++ [⟨n, l, t, some (fn, fl), none⟩] })
  | ["rule", n, l] => ok (l.toNat? >>= fun l => addRule st n l)
  | ["expr", n, l] => ok (l.toNat? >>= fun l => addRule st n l false)
  | ["local", n] => ok (addLocal st n)
  | ["alg", k, n, l, np] => ok (do
      let k ← parseAlgKind k; let l ← l.toNat?; let np ← np.toNat?
      pure { st with decls := .func ⟨n, l, np, k, [], []⟩ :: st.decls })
  | ["bareattr", n] => ok (updRule st (.bareAttr n))
  | ["badgroup", n] => ok (updRule st (.badGroup n))
  | ["call", fn, argc] => ok (argc.toNat? >>= fun a => updRule st (.call fn a))
  | ["selfattr", n] => ok (updRule st (.selfAttr n))
  | ["dot", a, f, ix] => ok (updRule st (.dot a f (ix = "1")))
  | ["callwith", fn, args] => ok (parseCallArgs args >>= fun as => updRule st (.callWith fn as))
  | ["smallreal", h] => ok (unhexS h >>= fun t => updRule st (.smallReal t))
  | ["type", n, l, "ref", t] => ok (do
      let l ← l.toNat?; let t ← parseTypeRef t
      pure { st with decls := .type ⟨n, l, .ref t, []⟩ :: st.decls })
  | ["type", n, l, "enum", items] => ok (do
      let l ← l.toNat?; let it ← parsePairs items
      pure { st with decls := .type ⟨n, l, .enum it, []⟩ :: st.decls })
  | ["type", n, l, "select", items] => ok (do
      let l ← l.toNat?; let it ← parsePairs items
      pure { st with decls := .type ⟨n, l, .select it, []⟩ :: st.decls })
  | ["func", n, l, k] => ok (do
      let l ← l.toNat?; let k ← k.toNat?
      pure { st with decls := .func ⟨n, l, k, .function, [], []⟩ :: st.decls })
  | ["syntax", k, n, l] => ok (l.toNat?.map fun l => { st with decls := .syntaxError k n l :: st.decls })
  | ["end"] => (st, "ok")
  | ["run", tool, sws] =>
    match parseTool tool, parseSwitches sws with
    | some t, some s => (st, runReply st t s)
    | _, _ => bad
  | ["diags"] => (st, diagsReply st)
  | ["lex", h] => match (if h = "-" then some [] else unhex h.toList) with | some b => (st, lexReply b) | none => bad
  | "dfs" :: ret :: e :: edges =>
    let es := edges.mapM fun s => match s.splitOn ">" with
      | [n, cs] => some (n, if cs = "" then [] else cs.splitOn ",")
      | _ => none
    (match ret, es with
     | "0", some es => (st, dfsReply false e es)
     | "1", some es => (st, dfsReply true e es)
     | _, _ => bad)
  | ["consts"] =>
    (st, s!"C fwd={LibErrors.withLineForwardsVaList} guard={LibErrors.setWarningNullGuard} sevGuard={LibErrors.setWarningSeverityGuard} retSub={ResolveGen.visitedReturnsSubsuper} retSel={ResolveGen.visitedReturnsSelect} fallback={ResolveGen.renameUselistFallback} lineBase={ResolveGen.lineBase} lineReset={ResolveGen.lineResetPerFile}")
  | [] => (st, "")
  | _ => bad

partial def loop (h : IO.FS.Stream) (out : IO.FS.Stream) (st : St) : IO Unit := do
  let line ← h.getLine
  if line.isEmpty then return ()
  let (st', o) := handle st line
  if o ≠ "" then out.putStrLn o
  loop h out st'

def main : IO Unit := do
  let out ← IO.getStdout
  loop (← IO.getStdin) out default
  out.flush

end StepModel.Express.Driver

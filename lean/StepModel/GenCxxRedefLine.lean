import StepModel.GenCxxRedefFull
import StepModel.GenCxxHeadKey
import StepModel.GenCxxDeriveFull
/-! The other half of the `_redefAttr` rule: an explicit redeclaration in an entity on the instance's PRINCIPAL line (the entity
itself, its first supertype, that one's first supertype … — the C++ base-class chain, whose constructors work on the instance's own
attribute list) always takes effect: the attribute it means, wherever it came from, is wired.  Redeclarations in the other lines
(parts) search the part's own list only — `C02_flags_redef_second_supertype_witness`. -/
namespace StepModel.GenCxx
open StepModel.Generated

/-- `st'` keeps what `st` has: objects and descriptors, `_redefAttr` flags that are set, members of the head list -/
def RKeep (st st' : IState) : Prop :=
  st.objs.length ≤ st'.objs.length ∧ (∀ j, j < st.objs.length → saAt st' j = saAt st j) ∧
  (∀ j, rAt st j = true → rAt st' j = true) ∧ (∀ j ∈ st.head, j ∈ st'.head)

theorem RKeep.refl (st : IState) : RKeep st st := ⟨Nat.le_refl _, fun _ _ => rfl, fun _ h => h, fun _ h => h⟩

theorem RKeep.trans {x y z : IState} (h1 : RKeep x y) (h2 : RKeep y z) : RKeep x z :=
  ⟨Nat.le_trans h1.1 h2.1,
   fun j hj => (h2.2.1 j (Nat.lt_of_lt_of_le hj h1.1)).trans (h1.2.1 j hj),
   fun j h => h2.2.2.1 j (h1.2.2.1 j h),
   fun j h => h2.2.2.2 j (h1.2.2.2 j h)⟩

theorem rkeep_setRedef (st : IState) (i : Nat) : RKeep st (setRedef st i) :=
  ⟨by simp [setRedef, modAt_length], fun j _ => saAt_setRedef st i j,
   fun j h => by rw [rAt_setRedef, h]; rfl, fun _ h => h⟩

theorem rkeep_setDerive (st : IState) (i : Nat) : RKeep st (setDerive st i) :=
  ⟨by simp [setDerive, modAt_length], fun j _ => saAt_setDerive st i j,
   fun j h => by rw [rAt_setDerive]; exact h, fun _ h => h⟩

theorem rkeep_applyDerived (calls : List (String × String)) (l : List Nat) : ∀ st : IState, RKeep st (applyDerived st l calls) := by
  unfold applyDerived
  induction calls with
  | nil => intro st; exact RKeep.refl st
  | cons c cs ih =>
    intro st
    simp only [List.foldl_cons]
    cases findAttr st l c.1 (some c.2) with
    | none => exact ih st
    | some i => exact (rkeep_setDerive st i).trans (ih _)

theorem mem_pushId_of_mem {st : IState} {l : List Nat} {id x : Nat} (h : x ∈ l) : x ∈ pushId st l id := by
  unfold pushId
  split
  · exact h
  · exact List.mem_append_left _ h

theorem rkeep_newObj (st : IState) (sa : SA) :
    RKeep st { objs := st.objs ++ [{ sa := sa }],
               head := pushId { st with objs := st.objs ++ [{ sa := sa }] } st.head st.objs.length } := by
  refine ⟨by simp, fun j hj => ?_, fun j h => ?_, fun j h => mem_pushId_of_mem h⟩
  · show ((st.objs ++ [({ sa := sa } : Obj)])[j]?).map (·.sa) = saAt st j
    unfold saAt; rw [List.getElem?_append_left hj]
  · have hlt := rAt_lt h
    unfold rAt at h ⊢
    simp only
    rw [List.getElem?_append_left hlt]
    exact h

theorem ownStep_rkeep (ro : Attr → Option String) (e : Entity) (st : IState) (c : Option (List Nat)) (a : Attr) :
    RKeep st (ownStep ro e (st, c) a).1 := by
  let sa : SA := { owner := e.name, name := dictAttrName a, kind := attrDKind a }
  let st1 : IState := { st with objs := st.objs ++ [{ sa := sa }] }
  let st2 : IState := { st1 with head := pushId st1 st1.head st.objs.length }
  have h12 : RKeep st st2 := rkeep_newObj st sa
  cases c with
  | none =>
    have hres : (ownStep ro e (st, none) a).1 =
        (if a.redecl.isSome then
          (match findAttr st2 st2.head a.name (ro a) with | some j => setRedef st2 j | none => st2) else st2) := rfl
    rw [hres]
    by_cases hr : a.redecl.isSome = true
    · simp only [hr, ↓reduceIte]
      cases findAttr st2 st2.head a.name (ro a) with
      | none => exact h12
      | some j => exact h12.trans (rkeep_setRedef st2 j)
    · simp only [hr]; exact h12
  | some l =>
    let l' := pushId st1 l st.objs.length
    have hres : (ownStep ro e (st, some l) a).1 =
        (if a.redecl.isSome then
          (match findAttr st2 l' a.name (ro a) with | some j => setRedef st2 j | none => st2) else st2) := rfl
    rw [hres]
    by_cases hr : a.redecl.isSome = true
    · simp only [hr, ↓reduceIte]
      cases findAttr st2 l' a.name (ro a) with
      | none => exact h12
      | some j => exact h12.trans (rkeep_setRedef st2 j)
    · simp only [hr]; exact h12

theorem foldOwn_rkeep (ro : Attr → Option String) (e : Entity) (as : List Attr) : ∀ (st : IState) (c : Option (List Nat)),
    RKeep st (as.foldl (ownStep ro e) (st, c)).1 := by
  induction as with
  | nil => intro st c; exact RKeep.refl st
  | cons a as ih =>
    intro st c
    simp only [List.foldl_cons]
    have hpair : ownStep ro e (st, c) a = ((ownStep ro e (st, c) a).1, (ownStep ro e (st, c) a).2) := rfl
    rw [hpair]
    exact (ownStep_rkeep ro e st c a).trans (ih _ _)

theorem ownLoop_rkeep (ro : Attr → Option String) (e : Entity) (st : IState) (c : Option (List Nat)) :
    RKeep st (ownLoop ro e st c).1 := foldOwn_rkeep ro e _ st c

theorem ctorWF_rkeep (s : Schema) : ∀ (f : Nat) (m : String) (st : IState) (cur : List Nat), RKeep st (ctorWF s f m st cur).1 := by
  intro f
  induction f with
  | zero => intro m st cur; exact RKeep.refl st
  | succ f ih =>
    intro m st cur
    rw [ctorWF_succ]
    cases hE : s.findE m with
    | none => exact RKeep.refl st
    | some e =>
      simp only
      have hfold : ∀ (L : List String) (st' : IState), RKeep st' (L.foldl (fun st q => (ctorWF s f q st []).1) st') := by
        intro L
        induction L with
        | nil => intro st'; exact RKeep.refl st'
        | cons q qs ihq => intro st'; simp only [List.foldl_cons]; exact (ih q st' []).trans (ihq _)
      have body : ∀ (p1 : IState × List Nat) (tail : List String), RKeep st p1.1 →
          RKeep st (applyDerived (ownLoop (redefOwner s) e (tail.foldl (fun st q => (ctorWF s f q st []).1) p1.1) (some p1.2)).1
              ((ownLoop (redefOwner s) e (tail.foldl (fun st q => (ctorWF s f q st []).1) p1.1) (some p1.2)).2.getD []) (derivedCalls s m)) := by
        intro p1 tail hp1
        exact ((hp1.trans (hfold tail p1.1)).trans (ownLoop_rkeep _ e _ _)).trans (rkeep_applyDerived _ _ _)
      cases hs : e.supers with
      | nil => exact body (st, cur) [] (RKeep.refl st)
      | cons p ps => exact body (ctorWF s f p st cur) ps (ih p st cur)

/-! ## one redeclaration, executed on the head list -/

/-- the step of a redeclaring attribute wires the attribute it means, when that attribute is on the head and is the only one there
    with that name and owner -/
theorem ownStep_wires (ro : Attr → Option String) (e : Entity) (st : IState) (a : Attr) (hr : a.redecl.isSome = true) (o : String)
    (ho : ro a = some o) (j : Nat) (hj : j ∈ st.head) (sa : SA) (hs : saAt st j = some sa) (hn : sa.name = a.name) (hso : sa.owner = o)
    (hu : ∀ i ∈ (ownStep ro e (st, none) a).1.head, ∀ sb, saAt (ownStep ro e (st, none) a).1 i = some sb → sb.name = a.name →
      sb.owner = o → i = j) :
    rAt (ownStep ro e (st, none) a).1 j = true := by
  let sa0 : SA := { owner := e.name, name := dictAttrName a, kind := attrDKind a }
  let st1 : IState := { st with objs := st.objs ++ [{ sa := sa0 }] }
  let st2 : IState := { st1 with head := pushId st1 st1.head st.objs.length }
  have h12 : RKeep st st2 := rkeep_newObj st sa0
  have hlt : j < st.objs.length := saAt_lt hs
  have hs2 : saAt st2 j = some sa := by rw [h12.2.1 j hlt]; exact hs
  have hj2 : j ∈ st2.head := h12.2.2.2 j hj
  have hres : (ownStep ro e (st, none) a).1 =
      (if a.redecl.isSome then
        (match findAttr st2 st2.head a.name (ro a) with | some j => setRedef st2 j | none => st2) else st2) := rfl
  rw [hres] at hu ⊢
  simp only [hr, ↓reduceIte, ho] at hu ⊢
  cases hf : findAttr st2 st2.head a.name (some o) with
  | none =>
    exfalso
    unfold findAttr at hf
    have := List.find?_eq_none.1 hf j hj2
    simp [hs2, hn, hso] at this
  | some i =>
    simp only [hf] at hu ⊢
    obtain ⟨sb, hsb, hnb, hob⟩ := findAttr_spec hf
    have hob' : sb.owner = o := by
      unfold ownerOK at hob
      simp only at hob
      exact (by simpa using hob : o = sb.owner).symm
    have hij : i = j := hu i (findAttr_mem hf) sb (by rw [saAt_setRedef]; exact hsb) hnb hob'
    subst hij
    rw [rAt_setRedef]
    have : i < st2.objs.length := saAt_lt hsb
    simp [this]

/-- … and so does the whole own-attribute loop of an entity whose explicit attributes include that redeclaration -/
theorem foldOwn_wires (ro : Attr → Option String) (e : Entity) (a : Attr) (hr : a.redecl.isSome = true) (o : String) (ho : ro a = some o)
    (sa : SA) (hn : sa.name = a.name) (hso : sa.owner = o) (j : Nat) :
    ∀ (as : List Attr), a ∈ as → ∀ (st : IState), j ∈ st.head → saAt st j = some sa →
      (∀ i ∈ (as.foldl (ownStep ro e) (st, none)).1.head, ∀ sb, saAt (as.foldl (ownStep ro e) (st, none)).1 i = some sb →
        sb.name = a.name → sb.owner = o → i = j) →
      rAt (as.foldl (ownStep ro e) (st, none)).1 j = true := by
  intro as
  induction as with
  | nil => intro h; simp at h
  | cons x xs ih =>
    intro hmem st hj hs hu
    simp only [List.foldl_cons] at hu ⊢
    have hnone : (ownStep ro e (st, none) x).2 = none := rfl
    have hpair : ownStep ro e (st, none) x = ((ownStep ro e (st, none) x).1, none) := Prod.ext rfl hnone
    rw [hpair] at hu ⊢
    have k1 := ownStep_rkeep ro e st none x
    have krest := foldOwn_rkeep ro e xs (ownStep ro e (st, none) x).1 none
    by_cases hx : x = a
    · subst hx
      have hw := ownStep_wires ro e st x hr o ho j hj sa hs hn hso (by
        intro i hi sb hsb hnb hob
        exact hu i (krest.2.2.2 i hi) sb (by rw [krest.2.1 i (saAt_lt hsb)]; exact hsb) hnb hob)
      exact krest.2.2.1 j hw
    · have hmem' : a ∈ xs := by
        rcases List.mem_cons.1 hmem with h | h
        · exact absurd h.symm hx
        · exact h
      exact ih hmem' _ (k1.2.2.2 j hj) (by rw [k1.2.1 j (saAt_lt hs)]; exact hs) hu

/-- ids on the head after the own-attribute loop: on the head before, or created by the loop (owner = the entity) -/
theorem foldOwn_head_split (ro : Attr → Option String) (e : Entity) : ∀ (as : List Attr) (st : IState),
    ∀ j ∈ (as.foldl (ownStep ro e) (st, none)).1.head,
      j ∈ st.head ∨ ∃ sb, saAt (as.foldl (ownStep ro e) (st, none)).1 j = some sb ∧ sb.owner = e.name := by
  intro as
  induction as with
  | nil => intro st j hj; exact Or.inl hj
  | cons x xs ih =>
    intro st j hj
    simp only [List.foldl_cons] at hj ⊢
    have hpair : ownStep ro e (st, none) x = ((ownStep ro e (st, none) x).1, none) := Prod.ext rfl rfl
    rw [hpair] at hj ⊢
    have krest := foldOwn_rkeep ro e xs (ownStep ro e (st, none) x).1 none
    rcases ih _ j hj with h | h
    · -- on the head after the step for x: there before, or the new object
      let sa0 : SA := { owner := e.name, name := dictAttrName x, kind := attrDKind x }
      let st1 : IState := { st with objs := st.objs ++ [{ sa := sa0 }] }
      let st2 : IState := { st1 with head := pushId st1 st1.head st.objs.length }
      have hhead : (ownStep ro e (st, none) x).1.head = st2.head := by
        have hres : (ownStep ro e (st, none) x).1 =
            (if x.redecl.isSome then
              (match findAttr st2 st2.head x.name (ro x) with | some j => setRedef st2 j | none => st2) else st2) := rfl
        rw [hres]
        by_cases hr : x.redecl.isSome = true
        · simp only [hr, ↓reduceIte]
          cases findAttr st2 st2.head x.name (ro x) <;> rfl
        · have hr' : x.redecl.isSome = false := by simpa using hr
          simp [hr']
      have hsaNew : saAt (ownStep ro e (st, none) x).1 st.objs.length = some sa0 := by
        have k1 := ownStep_rkeep ro e st none x
        have hres : (ownStep ro e (st, none) x).1 =
            (if x.redecl.isSome then
              (match findAttr st2 st2.head x.name (ro x) with | some j => setRedef st2 j | none => st2) else st2) := rfl
        have h2 : saAt st2 st.objs.length = some sa0 := by simp [saAt, st2, st1]
        rw [hres]
        by_cases hr : x.redecl.isSome = true
        · simp only [hr, ↓reduceIte]
          cases findAttr st2 st2.head x.name (ro x) with
          | none => exact h2
          | some i => rw [saAt_setRedef]; exact h2
        · simp only [hr]; exact h2
      rw [hhead] at h
      rcases pushId_mem h with h' | h'
      · exact Or.inl h'
      · right
        subst h'
        refine ⟨sa0, ?_, rfl⟩
        rw [krest.2.1 _ (saAt_lt hsaNew)]
        exact hsaNew
    · exact Or.inr h

/-! ## the constructor of the entity that redeclares -/

theorem parts_rkeep (s : Schema) (f : Nat) : ∀ (L : List String) (st' : IState),
    RKeep st' (L.foldl (fun st q => (ctorWF s f q st []).1) st') := by
  intro L
  induction L with
  | nil => intro st'; exact RKeep.refl st'
  | cons q qs ihq => intro st'; simp only [List.foldl_cons]; exact (ctorWF_rkeep s f q st' []).trans (ihq _)

/-- in a fresh instance of `m`, an explicit redeclaration of `m` wires the attribute it means (name and declaring owner) -/
theorem ctorNF_top_wires (s : Schema) (f : Nat) (m : String) (e : Entity) (hE : s.findE m = some e)
    (a : Attr) (ha : a ∈ e.attrs) (hk : a.kind = .explicit) (hr : a.redecl.isSome = true) (o : String)
    (ho : redefOwner s a = some o) (hom : o ≠ e.name) (hki : HeadKeyInj (ctorNF s (f + 1) m {}))
    (j : Nat) (hj : j ∈ (ctorNF s (f + 1) m {}).head) (sa : SA) (hs : saAt (ctorNF s (f + 1) m {}) j = some sa)
    (hn : sa.name = a.name) (hso : sa.owner = o) : rAt (ctorNF s (f + 1) m {}) j = true := by
  -- the state before the own-attribute loop, with a well-formed head
  have hst2 : ∃ st2 : IState, HeadOK st2 ∧
      ctorNF s (f + 1) m {} = applyDerived (ownLoop (redefOwner s) e st2 none).1 (ownLoop (redefOwner s) e st2 none).1.head (derivedCalls s m) := by
    rw [ctorNF_succ, hE]
    simp only
    cases hs' : e.supers with
    | nil =>
      refine ⟨_, ?_, rfl⟩
      simp only [List.tail_nil, List.foldl_nil]
      intro id h; simp at h
    | cons p ps =>
      refine ⟨_, ?_, rfl⟩
      simp only [List.tail_cons]
      exact (fold_parts_eff s f (ctorWF_eff s f) ps _ (ctorNF_eff s f p {} (by intro id h; simp at h)).ok).ok
  obtain ⟨st2, hok2, hfin⟩ := hst2
  rw [hfin] at hki hj hs ⊢
  generalize hL : (ownLoop (redefOwner s) e st2 none).1 = L at hki hj hs ⊢
  obtain ⟨q1, _, _⟩ := applyDerived_projR (derivedCalls s m) L L.head
  obtain ⟨_, qsa, _⟩ := applyDerived_sound (derivedCalls s m) L.head L
  have kfin := rkeep_applyDerived (derivedCalls s m) L.head L
  have hjL : j ∈ L.head := by rw [← q1]; exact hj
  have hsL : saAt L j = some sa := by rw [← qsa]; exact hs
  have kL : RKeep st2 L := by rw [← hL]; exact ownLoop_rkeep _ e st2 none
  -- j was on the head before the loop
  have hj2 : j ∈ st2.head := by
    have := foldOwn_head_split (redefOwner s) e (e.attrs.filter (fun a => a.kind == .explicit)) st2 j (by
      have : (ownLoop (redefOwner s) e st2 none).1 = ((e.attrs.filter (fun a => a.kind == .explicit)).foldl (ownStep (redefOwner s) e) (st2, none)).1 := rfl
      rw [← this, hL]; exact hjL)
    rcases this with h | ⟨sb, hsb, hob⟩
    · exact h
    · exfalso
      have : (ownLoop (redefOwner s) e st2 none).1 = ((e.attrs.filter (fun a => a.kind == .explicit)).foldl (ownStep (redefOwner s) e) (st2, none)).1 := rfl
      rw [← this, hL, hsL] at hsb
      cases hsb
      exact hom (hso.symm.trans hob)
  have hs2 : saAt st2 j = some sa := by rw [← kL.2.1 j (hok2 j hj2)]; exact hsL
  have hmem : a ∈ e.attrs.filter (fun a => a.kind == .explicit) := List.mem_filter.2 ⟨ha, by simp [hk]⟩
  have hw := foldOwn_wires (redefOwner s) e a hr o ho sa hn hso j _ hmem st2 hj2 hs2 (by
    intro i hi sb hsb hnb hob
    have hLe : ((e.attrs.filter (fun a => a.kind == .explicit)).foldl (ownStep (redefOwner s) e) (st2, none)).1 = L := hL
    rw [hLe] at hi hsb
    exact hki i (by rw [q1]; exact hi) j hj sb sa (by rw [qsa]; exact hsb) hs (by simp [keyOf, hnb, hob, hn, hso]))
  have hLe : ((e.attrs.filter (fun a => a.kind == .explicit)).foldl (ownStep (redefOwner s) e) (st2, none)).1 = L := hL
  rw [hLe] at hw
  exact kfin.2.2.1 j hw

/-! ## up the principal line -/

/-- one step up the principal line keeps everything -/
theorem ctorNF_step_rkeep (s : Schema) (f : Nat) (n : String) (e : Entity) (hE : s.findE n = some e) (p : String) (ps : List String)
    (hs : e.supers = p :: ps) : RKeep (ctorNF s f p {}) (ctorNF s (f + 1) n {}) := by
  rw [ctorNF_succ, hE]
  simp only [hs, List.tail_cons]
  exact ((parts_rkeep s f ps _).trans (ownLoop_rkeep _ e _ none)).trans (rkeep_applyDerived _ _ _)

/-- the `k`-th entity up the principal line of `n`: its first supertype, that one's first supertype … -/
def principalAnc (s : Schema) : Nat → String → Option String
  | 0, n => some n
  | k + 1, n =>
    match s.findE n with
    | some e => (match e.supers with
        | p :: _ => principalAnc s k p
        | [] => none)
    | none => none

theorem principal_rkeep (s : Schema) (f : Nat) : ∀ (k : Nat) (n m : String), principalAnc s k n = some m →
    RKeep (ctorNF s (f + 1) m {}) (ctorNF s (f + 1 + k) n {}) := by
  intro k
  induction k with
  | zero =>
    intro n m h
    simp only [principalAnc, Option.some.injEq] at h
    subst h
    exact RKeep.refl _
  | succ k ih =>
    intro n m h
    unfold principalAnc at h
    cases hE : s.findE n with
    | none => simp [hE] at h
    | some e =>
      simp only [hE] at h
      cases hs : e.supers with
      | nil => simp [hs] at h
      | cons p ps =>
        simp only [hs] at h
        have h1 := ih p m h
        have h2 := ctorNF_step_rkeep s (f + 1 + k) n e hE p ps hs
        exact h1.trans h2

end StepModel.GenCxx

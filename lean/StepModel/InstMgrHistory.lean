import StepModel.InstMgrRefine
/-! History-level refinement: after *any* history the manager's array of live instances and the set of
allocated instances are exactly what a plain list + set reference computes from the same history. -/
namespace StepModel.InstMgr
open StepModel.Generated

/-- The reference: allocated handles and the live list; knows nothing of ids, maps, indices or buffers. -/
structure Ref where
  alive : Nat → Bool
  live : List (Nat × St)

def Ref.init : Ref := ⟨fun _ => false, []⟩

def Ref.step (r : Ref) : Op → Ref
  | .newInst h _ _ => { r with alive := fun k => decide (k = h) || r.alive k }
  | .deleteNode i =>
    match r.live[i]? with
    | none => r
    | some p => { alive := fun k => !decide (k = p.1) && r.alive k, live := r.live.eraseIdx i }
  | .deleteInst h =>
    if r.alive h = true ∧ h ∈ r.live.map (·.1) then
      { alive := fun k => !decide (k = h) && r.alive k, live := r.live.filter (fun p => p.1 ≠ h) }
    else r
  | .deleteAll => { alive := fun k => r.alive k && !decide (k ∈ r.live.map (·.1)), live := [] }
  | op => { r with live := specStep r.live (fun h => r.alive h) op }

def Ref.run (r : Ref) (ops : List Op) : Ref := ops.foldl Ref.step r

/-- the concrete state `s` represents the reference state `r` -/
def Rel (s : State) (r : Ref) : Prop := abs s = r.live ∧ ∀ k, (s.heap k).isSome = r.alive k

theorem setId_isSome (s : State) (h : Nat) (v : Int) (k : Nat) :
    ((setId s h v).heap k).isSome = (s.heap k).isSome := by
  unfold setId
  by_cases hk : k = h
  · subst hk; simp
  · simp [hk]

theorem renumber_isSome (s : State) (h : Nat) (k : Nat) :
    ((renumber s h).1.heap k).isSome = (s.heap k).isSome := by
  unfold renumber nextFileId
  exact setId_isSome _ h _ k

theorem appendFind_isSome (s1 : State) (id1 : Int) (h : Nat) (st : St) (k : Nat) :
    ((appendFind s1 id1 h st).1.heap k).isSome = (s1.heap k).isSome := by
  unfold appendFind
  cases findFileId s1 id1 with
  | dangling => rfl
  | none => simp only; rw [pushNode_heap]
  | node n =>
    simp only
    split
    · rfl
    · simp only; rw [pushNode_heap]; exact renumber_isSome s1 h k

theorem append_isSome (s : State) (h : Nat) (st : St) (k : Nat) :
    ((append s h st).1.heap k).isSome = (s.heap k).isSome := by
  unfold append
  cases s.heap h with
  | none => rfl
  | some i0 =>
    simp only
    split
    · rw [appendFind_isSome]; exact renumber_isSome s h k
    · exact appendFind_isSome s _ h st k

theorem freeAll_spec (heap heap' : Nat → Option Inst) (ns : List Node) (hf : freeAll heap ns = some heap') (k : Nat) :
    (heap' k).isSome = ((heap k).isSome && !decide (k ∈ ns.map (·.inst))) := by
  induction ns generalizing heap with
  | nil => simp [freeAll] at hf; subst hf; simp
  | cons a as ih =>
    unfold freeAll at hf
    cases hx : heap a.inst with
    | none => simp [hx] at hf
    | some i =>
      simp only [hx] at hf
      rw [ih _ hf]
      by_cases hk : k = a.inst
      · subst hk; simp
      · simp [hk]

theorem rel_step {s : State} {r : Ref} (I : Inv s) (R : Rel s r) (op : Op) :
    Rel (step s op).1 (r.step op) := by
  have hal : (fun h => (s.heap h).isSome) = fun h => r.alive h := funext R.2
  have habs := abs_step I op
  rw [hal, R.1] at habs
  cases op with
  | newInst h id name =>
    refine ⟨habs, ?_⟩
    intro k
    simp only [step, newInst, Ref.step]
    cases hh : s.heap h with
    | some i =>
      simp only
      rw [R.2 k]
      by_cases hk : k = h
      · subst hk; have := R.2 k; rw [hh] at this; simp at this; simp [← this]
      · simp [hk]
    | none =>
      simp only
      by_cases hk : k = h
      · simp [hk]
      · simp [hk]; exact R.2 k
  | append h st =>
    refine ⟨habs, ?_⟩
    intro k
    simp only [step, Ref.step]
    rw [append_isSome]; exact R.2 k
  | changeState i st =>
    refine ⟨habs, ?_⟩
    intro k
    simp only [step, changeState, Ref.step]
    cases s.nodes[i]? with
    | none => exact R.2 k
    | some n => simp only; split <;> exact R.2 k
  | clear => exact ⟨habs, fun k => R.2 k⟩
  | lookup i => exact ⟨habs, fun k => R.2 k⟩
  | deleteNode i =>
    simp only [Ref.step]
    have hl : r.live[i]? = (s.nodes[i]?).map (fun n => (n.inst, n.state)) := by
      rw [← R.1]; simp [abs]
    cases hg : s.nodes[i]? with
    | none =>
      rw [hg] at hl
      simp only [Option.map_none] at hl
      simp only [hl]
      simp only [step, deleteNode, hg]
      exact R
    | some n =>
      rw [hg] at hl
      simp only [Option.map_some] at hl
      simp only [hl]
      rcases List.getElem?_eq_some_iff.mp hg with ⟨hp, hpn⟩
      rcases deleteNodeCore_eq I hp hpn with ⟨i', _, he⟩
      refine ⟨?_, ?_⟩
      · simpa [specStep] using habs
      · intro k
        simp only [step, deleteNode, hg, he, kill]
        by_cases hk : k = n.inst
        · simp [hk]
        · simp [hk]; exact R.2 k
  | deleteInst h =>
    simp only [Ref.step]
    have hmem : h ∈ r.live.map (·.1) ↔ ∃ n ∈ s.nodes, n.inst = h := by
      rw [← R.1]; exact abs_mem_iff s h
    cases hh : s.heap h with
    | none =>
      have : r.alive h = false := by rw [← R.2 h, hh]; rfl
      simp only [this]
      simp only [step, deleteInst, hh]
      simpa using R
    | some i =>
      have hal' : r.alive h = true := by rw [← R.2 h, hh]; rfl
      by_cases hany : s.nodes.any (fun n => n.inst == h) = true
      · have hm : h ∈ r.live.map (·.1) := by
          rw [hmem]
          rcases List.any_eq_true.mp hany with ⟨n0, hn0, he⟩
          exact ⟨n0, hn0, by simpa using he⟩
        simp only [hal', hm, and_self, if_true]
        refine ⟨?_, ?_⟩
        · simpa [specStep, hal'] using habs
        · intro k
          rcases List.any_eq_true.mp hany with ⟨n0, hn0, he⟩
          simp at he
          have hid0 : idOf s n0.inst = some i.fileId := by simp [idOf, he, hh]
          simp only [step, deleteInst, hh, hany, if_true]
          rcases findFileId_spec I i.fileId with ⟨n, hn, hnid, hf⟩ | ⟨hall, _⟩
          · rw [hf]
            have hnn : n = n0 := I.node_eq_of_id hn hn0 hnid hid0
            subst hnn
            rcases List.getElem_of_mem hn with ⟨p, hp, hpn⟩
            rcases deleteNodeCore_eq I hp hpn with ⟨i', _, hd⟩
            simp only [hd, kill, he]
            by_cases hk : k = h
            · simp [hk]
            · simp [hk]; exact R.2 k
          · exact absurd hid0 (hall n0 hn0)
      · have hm : ¬ h ∈ r.live.map (·.1) := by
          rw [hmem]
          rintro ⟨n, hn, he⟩
          apply hany
          exact List.any_eq_true.mpr ⟨n, hn, by simp [he]⟩
        simp only [hm, and_false, if_false]
        simp only [step, deleteInst, hh, hany]
        simpa using R
  | deleteAll =>
    simp only [Ref.step]
    refine ⟨by simpa [specStep] using habs, ?_⟩
    intro k
    simp only [step, deleteAll]
    have := freeAll_isSome s.heap s.nodes I.instNodup I.alive
    cases hf : freeAll s.heap s.nodes with
    | none => simp [hf] at this
    | some heap =>
      simp only
      rw [freeAll_spec _ _ _ hf k, R.2 k, ← R.1]
      simp [abs, List.map_map, Function.comp_def]

theorem rel_run {s : State} {r : Ref} (I : Inv s) (R : Rel s r) (ops : List Op) :
    Rel (run s ops) (r.run ops) := by
  induction ops generalizing s r with
  | nil => exact R
  | cons op ops ih => exact ih (inv_step I op).1 (rel_step I R op)

theorem rel_init : Rel init Ref.init := ⟨rfl, fun _ => rfl⟩

end StepModel.InstMgr

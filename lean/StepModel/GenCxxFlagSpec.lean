import StepModel.GenCxxFlags
/-! Which attributes end up flagged `_derive` / `_redefAttr`: a specification for single-inheritance instances
(where the generated code does what Part 21 intends, up to one quirk) and the proof that the flag model meets it. -/
namespace StepModel.GenCxx
open StepModel.Generated

/-! ## single-inheritance chains -/

/-- `c` is the chain of entities from the root down to `n` (every entity on it has at most one supertype) -/
inductive IsChain (s : Schema) : String → List Entity → Prop
  | root (n : String) (e : Entity) : s.findE n = some e → e.supers = [] → IsChain s n [e]
  | step (n p : String) (e : Entity) (c : List Entity) :
      s.findE n = some e → e.supers = [p] → IsChain s p c → IsChain s n (c ++ [e])

theorem IsChain.last {s : Schema} {n : String} {c : List Entity} (h : IsChain s n c) :
    ∃ e c', c = c' ++ [e] ∧ s.findE n = some e := by
  cases h with
  | root _ e hE _ => exact ⟨e, [], rfl, hE⟩
  | step _ p e c' hE _ _ => exact ⟨e, c', rfl, hE⟩

/-! ## `populateAttrList` on a chain is one left fold over all attributes of the chain -/

/-- one attribute in `populateAttrList` when the search starts at index 0 -/
def popStepM (m : Bool) (acc : List OA) (p : String × Attr) : List OA :=
  match markFirst p.2.name acc with
  | some acc' => if marksDerivedM m p.2 then acc' else acc
  | none => acc ++ [{ name := p.2.name, creator := p.1, deriver := p.2.kind == .derived }]

def popStep (acc : List OA) (p : String × Attr) : List OA := popStepM explicitRedeclMarksDerived acc p

/-- all attributes of a chain in the order `populateAttrList` meets them, with the declaring entity -/
def flatAttrs (c : List Entity) : List (String × Attr) := c.flatMap (fun e => e.attrs.map (fun a => (e.name, a)))

theorem markFrom_zero (nm : String) (l : List OA) : markFrom 0 nm l = markFirst nm l := by
  simp [markFrom]

theorem populateN_succ (s : Schema) (f : Nat) (n : String) (l : List OA) :
    populateN s (f + 1) n l =
      match s.findE n with
      | none => l
      | some e =>
        e.attrs.foldl (fun acc a =>
          match markFrom l.length a.name acc with
          | some acc' => if marksDerived a then acc' else acc
          | none => acc ++ [{ name := a.name, creator := n, deriver := a.kind == .derived }])
          (e.supers.foldl (fun acc sup => populateN s f sup acc) l) := rfl

theorem attrs_fold_eq (n : String) (attrs : List Attr) (acc : List OA) :
    attrs.foldl (fun acc a =>
        match markFrom ([] : List OA).length a.name acc with
        | some acc' => if marksDerived a then acc' else acc
        | none => acc ++ [{ name := a.name, creator := n, deriver := a.kind == .derived }]) acc =
      (attrs.map (fun a => (n, a))).foldl popStep acc := by
  induction attrs generalizing acc with
  | nil => rfl
  | cons a as ih =>
    simp only [List.foldl_cons, List.map_cons]
    rw [← ih]
    congr 1
    simp only [List.length_nil, markFrom_zero, popStep, popStepM, marksDerived]
    rfl

theorem populate_chain {s : Schema} {n : String} {c : List Entity} (h : IsChain s n c) :
    ∀ f, c.length ≤ f → populateN s f n [] = (flatAttrs c).foldl popStep [] := by
  induction h with
  | root n e hE hs =>
    intro f hf
    cases f with
    | zero => simp at hf
    | succ f =>
      rw [populateN_succ, hE]
      simp only [hs, List.foldl_nil]
      rw [attrs_fold_eq]
      simp [flatAttrs, findE_name hE]
  | step n p e c hE hs _ ih =>
    intro f hf
    cases f with
    | zero => simp at hf
    | succ f =>
      rw [populateN_succ, hE]
      simp only [hs, List.foldl_cons, List.foldl_nil]
      rw [ih f (by simp at hf; omega), attrs_fold_eq]
      simp [flatAttrs, List.foldl_append, findE_name hE]

/-! ## what the fold does to the `deriver` marks -/

def names (l : List OA) : List String := l.map (·.name)

theorem markFirst_none {nm : String} {l : List OA} : markFirst nm l = none ↔ nm ∉ names l := by
  induction l with
  | nil => simp [markFirst, names]
  | cons x xs ih =>
    unfold markFirst
    by_cases h : x.name = nm
    · simp [h, names]
    · have : (x.name == nm) = false := by simpa using h
      simp only [this, Bool.false_eq_true, ↓reduceIte, Option.map_eq_none_iff, ih]
      simp only [names, List.map_cons, List.mem_cons, not_or]
      exact ⟨fun hh => ⟨fun e => h e.symm, hh⟩, fun hh => hh.2⟩

/-- with distinct names, marking the first entry named `nm` is marking every entry named `nm` -/
theorem markFirst_some {nm : String} {l : List OA} (hn : (names l).Nodup) (hm : nm ∈ names l) :
    markFirst nm l = some (l.map (fun o => if o.name == nm then { o with deriver := true } else o)) := by
  induction l with
  | nil => simp [names] at hm
  | cons x xs ih =>
    simp only [names, List.map_cons, List.nodup_cons] at hn
    unfold markFirst
    by_cases h : x.name = nm
    · have hx : (x.name == nm) = true := by simpa using h
      have hxs : xs.map (fun o => if o.name == nm then { o with deriver := true } else o) = xs := by
        rw [List.map_congr_left (g := id)]
        · simp
        · intro o ho
          have : o.name ≠ nm := by
            intro e2; apply hn.1; rw [h, ← e2]; exact List.mem_map_of_mem ho
          simp [this]
      simp only [hx, ↓reduceIte, List.map_cons, hxs]
    · have hx : (x.name == nm) = false := by simpa using h
      have hm' : nm ∈ names xs := by
        simp only [names, List.map_cons, List.mem_cons] at hm
        rcases hm with e | e
        · exact absurd e.symm h
        · exact e
      simp only [hx, Bool.false_eq_true, ↓reduceIte, ih hn.2 hm', Option.map_some, List.map_cons]

def markNamed (nm : String) (o : OA) : OA := if o.name == nm then { o with deriver := true } else o

theorem markNamed_name (nm : String) (o : OA) : (markNamed nm o).name = o.name := by
  unfold markNamed; split <;> rfl
theorem markNamed_creator (nm : String) (o : OA) : (markNamed nm o).creator = o.creator := by
  unfold markNamed; split <;> rfl
theorem markNamed_deriver (nm : String) (o : OA) : (markNamed nm o).deriver = (o.deriver || o.name == nm) := by
  unfold markNamed
  by_cases h : o.name = nm <;> simp [h]

def newOA (p : String × Attr) : OA := { name := p.2.name, creator := p.1, deriver := p.2.kind == .derived }

theorem popStep_eq (acc : List OA) (p : String × Attr) (hn : (names acc).Nodup) :
    popStep acc p = if p.2.name ∈ names acc then (if marksDerived p.2 then acc.map (markNamed p.2.name) else acc)
      else acc ++ [newOA p] := by
  unfold popStep popStepM
  by_cases h : p.2.name ∈ names acc
  · rw [markFirst_some hn h]; simp only [h, ↓reduceIte]; rfl
  · rw [markFirst_none.mpr h]; simp only [h, ↓reduceIte]; rfl

theorem names_map_mark (nm : String) (l : List OA) : names (l.map (markNamed nm)) = names l := by
  simp [names, List.map_map, Function.comp_def, markNamed_name]

theorem popStep_names (acc : List OA) (p : String × Attr) (hn : (names acc).Nodup) :
    (names (popStep acc p)).Nodup ∧ ∀ x, x ∈ names (popStep acc p) ↔ x ∈ names acc ∨ x = p.2.name := by
  rw [popStep_eq acc p hn]
  by_cases h : p.2.name ∈ names acc
  · simp only [h, ↓reduceIte]
    by_cases hm : marksDerived p.2 = true
    · simp only [hm, ↓reduceIte, names_map_mark]
      exact ⟨hn, fun x => ⟨Or.inl, fun hx => hx.elim id (fun e => e ▸ h)⟩⟩
    · simp only [hm]
      exact ⟨hn, fun x => ⟨Or.inl, fun hx => hx.elim id (fun e => e ▸ h)⟩⟩
  · simp only [h, ↓reduceIte]
    constructor
    · simp only [names, List.map_append, List.map_cons, List.map_nil]
      rw [List.nodup_append]
      exact ⟨hn, by simp, by intro a ha b hb; simp at hb; subst hb; intro e; subst e; exact h ha⟩
    · intro x; simp [names, newOA]

theorem fold_names (xs : List (String × Attr)) (acc : List OA) (hn : (names acc).Nodup) :
    (names (xs.foldl popStep acc)).Nodup ∧
      ∀ x, x ∈ names (xs.foldl popStep acc) ↔ x ∈ names acc ∨ ∃ p ∈ xs, p.2.name = x := by
  induction xs generalizing acc with
  | nil => exact ⟨hn, fun x => by simp⟩
  | cons p ps ih =>
    simp only [List.foldl_cons]
    obtain ⟨h1, h2⟩ := popStep_names acc p hn
    obtain ⟨i1, i2⟩ := ih (popStep acc p) h1
    refine ⟨i1, fun x => ?_⟩
    rw [i2, h2]
    constructor
    · rintro ((h | h) | ⟨q, hq, hx⟩)
      · exact Or.inl h
      · exact Or.inr ⟨p, by simp, h.symm⟩
      · exact Or.inr ⟨q, by simp [hq], hx⟩
    · rintro (h | ⟨q, hq, hx⟩)
      · exact Or.inl (Or.inl h)
      · rcases List.mem_cons.mp hq with rfl | hq
        · exact Or.inl (Or.inr hx.symm)
        · exact Or.inr ⟨q, hq, hx⟩

/-- an entry that is already there keeps its name and creator; it is derived afterwards iff it was, or a later
    attribute carries its name -/
theorem fold_old (xs : List (String × Attr)) (acc : List OA) (hn : (names acc).Nodup) (o : OA) (ho : o ∈ acc) :
    ∃ o' ∈ xs.foldl popStep acc, o'.name = o.name ∧ o'.creator = o.creator ∧
      o'.deriver = (o.deriver || xs.any (fun p => p.2.name == o.name && marksDerived p.2)) := by
  induction xs generalizing acc o with
  | nil => exact ⟨o, ho, rfl, rfl, by simp⟩
  | cons p ps ih =>
    simp only [List.foldl_cons]
    have h1 := (popStep_names acc p hn).1
    have hmem : ∃ o1 ∈ popStep acc p, o1.name = o.name ∧ o1.creator = o.creator ∧
        o1.deriver = (o.deriver || (p.2.name == o.name && marksDerived p.2)) := by
      rw [popStep_eq acc p hn]
      by_cases h : p.2.name ∈ names acc
      · simp only [h, ↓reduceIte]
        by_cases hm : marksDerived p.2 = true
        · simp only [hm, ↓reduceIte, Bool.and_true]
          refine ⟨markNamed p.2.name o, List.mem_map_of_mem ho, markNamed_name _ _, markNamed_creator _ _, ?_⟩
          rw [markNamed_deriver]
          congr 1
          exact BEq.comm
        · have hm' : marksDerived p.2 = false := by simpa using hm
          simp only [hm', Bool.false_eq_true, ↓reduceIte, Bool.and_false, Bool.or_false]
          exact ⟨o, ho, rfl, rfl, rfl⟩
      · simp only [h, ↓reduceIte]
        have hne : p.2.name ≠ o.name := by
          intro e; apply h; rw [e]; exact List.mem_map_of_mem ho
        exact ⟨o, List.mem_append.mpr (Or.inl ho), rfl, rfl, by simp [hne]⟩
    obtain ⟨o1, ho1, n1, c1, d1⟩ := hmem
    obtain ⟨o', ho', n', c', d'⟩ := ih (popStep acc p) h1 o1 ho1
    refine ⟨o', ho', n'.trans n1, c'.trans c1, ?_⟩
    rw [d', d1, n1, List.any_cons, Bool.or_assoc]

/-- the first attribute with a new name creates the entry (creator = its entity) -/
theorem fold_new (pre post : List (String × Attr)) (cr : String) (a : Attr) (acc : List OA) (hn : (names acc).Nodup)
    (h1 : a.name ∉ names acc) (h2 : ∀ p ∈ pre, p.2.name ≠ a.name) :
    ∃ o ∈ (pre ++ (cr, a) :: post).foldl popStep acc, o.name = a.name ∧ o.creator = cr ∧
      o.deriver = (a.kind == .derived || post.any (fun p => p.2.name == a.name && marksDerived p.2)) := by
  rw [List.foldl_append, List.foldl_cons]
  obtain ⟨f1, f2⟩ := fold_names pre acc hn
  have hnot : a.name ∉ names (pre.foldl popStep acc) := by
    rw [f2]
    rintro (h | ⟨p, hp, hx⟩)
    · exact h1 h
    · exact h2 p hp hx
  have hstep : newOA (cr, a) ∈ popStep (pre.foldl popStep acc) (cr, a) := by
    rw [popStep_eq _ _ f1]
    simp only [hnot, ↓reduceIte]
    simp
  obtain ⟨o', ho', n', c', d'⟩ := fold_old post _ (popStep_names _ (cr, a) f1).1 _ hstep
  exact ⟨o', ho', n', c', d'⟩

theorem first_split {α : Type} (q : α → Prop) [DecidablePred q] (l : List α) (h : ∃ p ∈ l, q p) :
    ∃ pre a post, l = pre ++ a :: post ∧ q a ∧ ∀ p ∈ pre, ¬ q p := by
  induction l with
  | nil => obtain ⟨p, hp, _⟩ := h; simp at hp
  | cons x xs ih =>
    by_cases hx : q x
    · exact ⟨[], x, xs, rfl, hx, by simp⟩
    · obtain ⟨p, hp, hq⟩ := h
      have : ∃ p ∈ xs, q p := by
        rcases List.mem_cons.mp hp with rfl | hp'
        · exact absurd hq hx
        · exact ⟨p, hp', hq⟩
      obtain ⟨pre, a, post, e, ha, hpre⟩ := ih this
      refine ⟨x :: pre, a, post, by rw [e]; rfl, ha, ?_⟩
      intro p hp
      rcases List.mem_cons.mp hp with rfl | hp'
      · exact hx
      · exact hpre p hp'

theorem unique_by_name {l : List OA} (hn : (names l).Nodup) {a b : OA} (ha : a ∈ l) (hb : b ∈ l)
    (h : a.name = b.name) : a = b := by
  induction l with
  | nil => simp at ha
  | cons x xs ih =>
    simp only [names, List.map_cons, List.nodup_cons] at hn
    rcases List.mem_cons.mp ha with rfl | ha' <;> rcases List.mem_cons.mp hb with rfl | hb'
    · rfl
    · exact absurd (by rw [h]; exact List.mem_map_of_mem hb') hn.1
    · exact absurd (by rw [← h]; exact List.mem_map_of_mem ha') hn.1
    · exact ih hn.2 ha' hb'

theorem dedupOAM_id (m : Bool) (acc l : List OA) (hn : (names (acc ++ l)).Nodup) : dedupOAM m acc l = acc ++ l := by
  induction l generalizing acc with
  | nil => simp [dedupOAM]
  | cons x xs ih =>
    unfold dedupOAM
    have hx : acc.any (fun y => y.name == x.name && y.creator == x.creator) = false := by
      rw [List.any_eq_false]
      intro y hy
      have : y.name ≠ x.name := by
        intro e
        simp only [names, List.map_append, List.map_cons] at hn
        rw [List.nodup_append] at hn
        exact hn.2.2 y.name (List.mem_map_of_mem hy) x.name (by simp) e
      simp [this]
    simp only [hx, Bool.false_eq_true, ↓reduceIte]
    rw [ih (acc ++ [x]) (by simpa [List.append_assoc] using hn)]
    simp

theorem dedupOA_id (acc l : List OA) (hn : (names (acc ++ l)).Nodup) : dedupOA acc l = acc ++ l :=
  dedupOAM_id _ acc l hn

/-- where a `MakeDerived( x, cr )` call comes from, in terms of the attribute sequence of the chain -/
def DerivedCall (xs : List (String × Attr)) (x cr : String) : Prop :=
  ∃ pre a post, xs = pre ++ (cr, a) :: post ∧ a.name = x ∧ (∀ p ∈ pre, p.2.name ≠ x) ∧
    (a.kind = .derived ∨ ∃ p ∈ post, p.2.name = x ∧ marksDerived p.2 = true)

theorem derivedCalls_chain {s : Schema} {n : String} {c : List Entity} (h : IsChain s n c)
    (hf : c.length ≤ fuelOf s) (x cr : String) :
    (x, cr) ∈ derivedCallsN s n ↔ DerivedCall (flatAttrs c) x cr := by
  unfold derivedCallsN
  rw [populate_chain h _ hf]
  obtain ⟨hnd, hnames⟩ := fold_names (flatAttrs c) [] (by simp [names])
  rw [dedupOA_id [] _ (by simpa using hnd), List.nil_append]
  simp only [List.mem_map, List.mem_filter, Prod.mk.injEq]
  constructor
  · rintro ⟨o, ⟨ho, hd⟩, hx, hc⟩
    have hin : o.name ∈ names ((flatAttrs c).foldl popStep []) := List.mem_map_of_mem ho
    rw [hnames] at hin
    rcases hin with h0 | hex
    · simp [names] at h0
    · obtain ⟨pre, pa, post, e, hq, hpre⟩ := first_split (fun p : String × Attr => p.2.name = o.name) _ hex
      obtain ⟨cr', a⟩ := pa
      simp only at hq
      obtain ⟨o', ho', n', c', d'⟩ := fold_new pre post cr' a [] (by simp [names]) (by simp [names])
        (fun p hp => by rw [hq]; exact hpre p hp)
      rw [← e] at ho'
      have : o' = o := unique_by_name hnd ho' ho (by rw [n', hq])
      subst this
      refine ⟨pre, a, post, ?_, by rw [hq, hx], fun p hp => by rw [← hx]; exact hpre p hp, ?_⟩
      · rw [e, ← hc, c']
      · rw [d'] at hd
        simp only [Bool.or_eq_true, beq_iff_eq, List.any_eq_true, Bool.and_eq_true] at hd
        rcases hd with hk | ⟨p, hp, hpn, hpm⟩
        · exact Or.inl hk
        · exact Or.inr ⟨p, hp, by rw [hpn, hq, hx], hpm⟩
  · rintro ⟨pre, a, post, e, hax, hpre, hk⟩
    obtain ⟨o, ho, n', c', d'⟩ := fold_new pre post cr a [] (by simp [names]) (by simp [names])
      (fun p hp => by rw [hax]; exact hpre p hp)
    rw [← e] at ho
    refine ⟨o, ⟨ho, ?_⟩, by rw [n', hax], c'⟩
    rw [d']
    simp only [Bool.or_eq_true, beq_iff_eq, List.any_eq_true, Bool.and_eq_true]
    rcases hk with hk | ⟨p, hp, hpn, hpm⟩
    · exact Or.inl hk
    · exact Or.inr ⟨p, hp, by rw [hpn, hax], hpm⟩

/-! ## the head instance of a chain: which objects get `_derive` -/

def dAt (st : IState) (j : Nat) : Bool :=
  match st.objs[j]? with
  | some o => o.derive
  | none => false

def keyOf (a : SA) : String × String := (a.owner, a.name)

theorem modAt_getElem (l : List Obj) (i : Nat) (f : Obj → Obj) (j : Nat) :
    (modAt l i f)[j]? = (l[j]?).map (fun o => if j == i then f o else o) := by
  unfold modAt
  rw [List.getElem?_map, List.getElem?_zipIdx]
  cases l[j]? <;> simp

theorem modAt_map_sa (l : List Obj) (i : Nat) (f : Obj → Obj) (hf : ∀ o, (f o).sa = o.sa) :
    (modAt l i f).map (·.sa) = l.map (·.sa) := by
  apply List.ext_getElem?
  intro j
  rw [List.getElem?_map, List.getElem?_map, modAt_getElem]
  cases l[j]? with
  | none => rfl
  | some o => simp only [Option.map_some]; split <;> simp [hf]

theorem dAt_setDerive (st : IState) (i j : Nat) :
    dAt (setDerive st i) j = (dAt st j || (j == i && decide (j < st.objs.length))) := by
  unfold dAt setDerive
  simp only [modAt_getElem]
  cases h : st.objs[j]? with
  | none =>
    have : ¬ j < st.objs.length := by
      intro hl; rw [List.getElem?_eq_getElem hl] at h; cases h
    simp [this]
  | some o =>
    have : j < st.objs.length :=
      Nat.lt_of_not_le (fun hl => by rw [List.getElem?_eq_none hl] at h; cases h)
    by_cases e : j = i
    · subst e; simp [this]
    · simp [e]

theorem dAt_setRedef (st : IState) (i j : Nat) : dAt (setRedef st i) j = dAt st j := by
  unfold dAt setRedef
  simp only [modAt_getElem]
  cases st.objs[j]? with
  | none => rfl
  | some o => simp only [Option.map_some]; split <;> rfl

/-- the `findAttr` predicate in terms of descriptors -/
theorem findAttr_some {st : IState} {l : List Nat} {nm cr : String} {i : Nat}
    (h : findAttr st l nm (some cr) = some i) : i ∈ l ∧ ∃ a, saAt st i = some a ∧ a.name = nm ∧ a.owner = cr := by
  unfold findAttr at h
  refine ⟨List.mem_of_find?_eq_some h, ?_⟩
  have hp := List.find?_some h
  cases hs : saAt st i with
  | none => rw [hs] at hp; simp at hp
  | some a =>
    rw [hs] at hp
    simp only [Bool.and_eq_true, beq_iff_eq] at hp
    exact ⟨a, rfl, hp.1, hp.2.symm⟩

theorem findAttr_none {st : IState} {l : List Nat} {nm cr : String}
    (h : findAttr st l nm (some cr) = none) : ∀ j ∈ l, ∀ a, saAt st j = some a → ¬ (a.name = nm ∧ a.owner = cr) := by
  unfold findAttr at h
  rw [List.find?_eq_none] at h
  intro j hj a ha ⟨h1, h2⟩
  have := h j hj
  rw [ha] at this
  simp [h1, h2] at this

theorem saAt_lt {st : IState} {j : Nat} {a : SA} (h : saAt st j = some a) : j < st.objs.length := by
  unfold saAt at h
  exact Nat.lt_of_not_le (fun hl => by rw [List.getElem?_eq_none hl] at h; cases h)

theorem key_unique {st : IState} (hk : (st.objs.map (fun o => keyOf o.sa)).Nodup) {i j : Nat} {a b : SA}
    (hi : saAt st i = some a) (hj : saAt st j = some b) (h : keyOf a = keyOf b) : i = j := by
  have li := saAt_lt hi
  have lj := saAt_lt hj
  unfold saAt at hi hj
  rw [List.getElem?_eq_getElem li] at hi
  rw [List.getElem?_eq_getElem lj] at hj
  simp only [Option.map_some, Option.some.injEq] at hi hj
  have h1 : (st.objs.map (fun o => keyOf o.sa))[i]'(by simpa using li) = keyOf a := by simp [hi]
  have h2 : (st.objs.map (fun o => keyOf o.sa))[j]'(by simpa using lj) = keyOf b := by simp [hj]
  exact (List.getElem_inj hk).mp (by rw [h1, h2, h])

/-- `MakeDerived` calls executed on the head: an object is derived afterwards iff it was, or one of the calls names it -/
theorem applyDerived_head (calls : List (String × String)) (st : IState)
    (hall : ∀ j, j ∈ st.head ↔ j < st.objs.length)
    (hk : (st.objs.map (fun o => keyOf o.sa)).Nodup) :
    let st' := applyDerived st st.head calls
    st'.head = st.head ∧ st'.objs.map (·.sa) = st.objs.map (·.sa) ∧
    ∀ j a, saAt st j = some a → (dAt st' j = true ↔ dAt st j = true ∨ (a.name, a.owner) ∈ calls) := by
  induction calls generalizing st with
  | nil => exact ⟨rfl, rfl, fun j a _ => by simp [applyDerived]⟩
  | cons c cs ih =>
    obtain ⟨x, cr⟩ := c
    simp only [applyDerived, List.foldl_cons]
    cases hf : findAttr st st.head x (some cr) with
    | none =>
      have := ih st hall hk
      simp only [applyDerived] at this
      obtain ⟨t1, t2, t3⟩ := this
      refine ⟨t1, t2, fun j a ha => ?_⟩
      rw [t3 j a ha]
      have hno := findAttr_none hf j ((hall j).mpr (saAt_lt ha)) a ha
      constructor
      · rintro (h | h)
        · exact Or.inl h
        · exact Or.inr (List.mem_cons_of_mem _ h)
      · rintro (h | h)
        · exact Or.inl h
        · rcases List.mem_cons.mp h with e | h
          · simp only [Prod.mk.injEq] at e; exact absurd e hno
          · exact Or.inr h
    | some i =>
      obtain ⟨hi, a0, ha0, hn0, ho0⟩ := findAttr_some hf
      have hsa : ∀ j, saAt (setDerive st i) j = saAt st j := saAt_setDerive st i
      have hall' : ∀ j, j ∈ (setDerive st i).head ↔ j < (setDerive st i).objs.length := by
        intro j; simp only [setDerive, modAt_length]; exact hall j
      have hmap : (setDerive st i).objs.map (·.sa) = st.objs.map (·.sa) := by
        simp only [setDerive]; exact modAt_map_sa _ _ _ (fun _ => rfl)
      have hk' : ((setDerive st i).objs.map (fun o => keyOf o.sa)).Nodup := by
        have : (setDerive st i).objs.map (fun o => keyOf o.sa) = ((setDerive st i).objs.map (·.sa)).map keyOf := by
          simp [List.map_map, Function.comp_def]
        rw [this, hmap]; simpa [List.map_map, Function.comp_def] using hk
      have := ih (setDerive st i) hall' hk'
      simp only [applyDerived] at this
      obtain ⟨t1, t2, t3⟩ := this
      have hhead : (setDerive st i).head = st.head := rfl
      rw [hhead] at t1
      refine ⟨by rw [← hhead]; exact t1, t2.trans hmap, fun j a ha => ?_⟩
      have := t3 j a (by rw [hsa]; exact ha)
      rw [hhead] at this
      rw [this, dAt_setDerive]
      have hlt := saAt_lt ha
      simp only [Bool.or_eq_true, Bool.and_eq_true, beq_iff_eq, decide_eq_true_eq, hlt, and_true]
      constructor
      · rintro ((h | h) | h)
        · exact Or.inl h
        · subst h
          rw [ha0] at ha; cases ha
          exact Or.inr (by simp [hn0, ho0])
        · exact Or.inr (List.mem_cons_of_mem _ h)
      · rintro (h | h)
        · exact Or.inl (Or.inl h)
        · rcases List.mem_cons.mp h with e | h
          · simp only [Prod.mk.injEq] at e
            have : j = i := key_unique hk ha ha0 (by simp [keyOf, e.1, e.2, hn0, ho0])
            exact Or.inl (Or.inr this)
          · exact Or.inr h

theorem nodup_of_map {α β : Type} (f : α → β) {l : List α} (h : (l.map f).Nodup) : l.Nodup :=
  List.Pairwise.of_map f (fun _ _ hne e => hne (congrArg f e)) h

/-! ### the own-attribute loop on the head -/

structure HeadStep (st st' : IState) (added : List SA) : Prop where
  hall : ∀ j, j ∈ st'.head ↔ j < st'.objs.length
  sas : st'.objs.map (·.sa) = st.objs.map (·.sa) ++ added
  der : ∀ j, dAt st' j = dAt st j

theorem saAt_mem {st : IState} {j : Nat} {a : SA} (h : saAt st j = some a) : a ∈ st.objs.map (·.sa) := by
  have hl := saAt_lt h
  unfold saAt at h
  rw [List.getElem?_eq_getElem hl] at h
  simp only [Option.map_some, Option.some.injEq] at h
  exact List.mem_map.mpr ⟨st.objs[j], List.getElem_mem hl, h⟩

theorem ownStep_head (ro : Attr → Option String) (e : Entity) (st : IState) (a : Attr)
    (hall : ∀ j, j ∈ st.head ↔ j < st.objs.length)
    (hfresh : ({ owner := e.name, name := dictAttrName a, kind := attrDKind a } : SA) ∉ st.objs.map (·.sa)) :
    (ownStep ro e (st, none) a).2 = none ∧
    HeadStep st (ownStep ro e (st, none) a).1 [{ owner := e.name, name := dictAttrName a, kind := attrDKind a }] := by
  let sa : SA := { owner := e.name, name := dictAttrName a, kind := attrDKind a }
  let st1 : IState := { st with objs := st.objs ++ [{ sa := sa }] }
  have hsa1 : ∀ j, j < st.objs.length → saAt st1 j = saAt st j := by
    intro j hj; simp only [saAt, st1]; rw [List.getElem?_append_left hj]
  have hid : saAt st1 st.objs.length = some sa := by simp [saAt, st1]
  have hpush : pushId st1 st.head st.objs.length = st.head ++ [st.objs.length] := by
    unfold pushId
    have : st.head.any (fun j => saAt st1 j == saAt st1 st.objs.length) = false := by
      rw [List.any_eq_false]
      intro j hj
      have hlt := (hall j).mp hj
      rw [hsa1 j hlt, hid]
      cases hs : saAt st j with
      | none => simp
      | some b =>
        have hb := saAt_mem hs
        have : b ≠ sa := fun e2 => hfresh (by have hb2 := hb; rwa [e2] at hb2)
        simp [this]
    simp only [this, Bool.false_eq_true, ↓reduceIte]
  let st2 : IState := { st1 with head := st.head ++ [st.objs.length] }
  have hall2 : ∀ j, j ∈ st2.head ↔ j < st2.objs.length := by
    intro j
    show j ∈ st.head ++ [st.objs.length] ↔ j < (st.objs ++ [({ sa := sa } : Obj)]).length
    simp only [List.mem_append, List.mem_singleton, List.length_append, List.length_cons, List.length_nil, hall j]
    omega
  have hsas2 : st2.objs.map (·.sa) = st.objs.map (·.sa) ++ [sa] := by simp [st2, st1]
  have hder2 : ∀ j, dAt st2 j = dAt st j := by
    intro j
    show (match (st.objs ++ [({ sa := sa } : Obj)])[j]? with | some o => o.derive | none => false) = dAt st j
    unfold dAt
    by_cases hj : j < st.objs.length
    · rw [List.getElem?_append_left hj]
    · rw [List.getElem?_append_right (by omega)]
      rw [List.getElem?_eq_none (by omega : st.objs.length ≤ j)]
      by_cases hz : j - st.objs.length = 0
      · simp [hz]
      · rw [List.getElem?_eq_none (by simp; omega)]
  have base : HeadStep st st2 [sa] := ⟨hall2, hsas2, hder2⟩
  have hres : (ownStep ro e (st, none) a) =
      ((if a.redecl.isSome then
          (match findAttr st2 st2.head a.name (ro a) with | some j => setRedef st2 j | none => st2) else st2), none) := by
    unfold ownStep
    simp only [IState.newObj, Option.map_none]
    have hp := hpush
    simp only [st1, sa] at hp
    simp only [hp]
    rfl
  rw [hres]
  refine ⟨rfl, ?_⟩
  by_cases hr : a.redecl.isSome = true
  · simp only [hr, ↓reduceIte]
    cases findAttr st2 st2.head a.name (ro a) with
    | none => exact base
    | some j =>
      exact ⟨by intro k; simp only [setRedef, modAt_length]; exact hall2 k,
             by simp only [setRedef]; rw [modAt_map_sa st2.objs j (fun o => { o with redef := true }) (fun _ => rfl)]; exact hsas2,
             fun k => by rw [dAt_setRedef]; exact hder2 k⟩
  · simp only [hr]
    exact base

theorem ownLoop_head (ro : Attr → Option String) (e : Entity) (st : IState)
    (hall : ∀ j, j ∈ st.head ↔ j < st.objs.length)
    (hnd : (st.objs.map (·.sa) ++ ownSAs e).Nodup) :
    HeadStep st (ownLoop ro e st none).1 (ownSAs e) := by
  unfold ownLoop ownSAs at *
  generalize e.attrs.filter (fun a => a.kind == .explicit) = l at hnd
  induction l generalizing st with
  | nil => exact ⟨hall, by simp, fun _ => rfl⟩
  | cons a as ih =>
    simp only [List.foldl_cons, List.map_cons] at hnd ⊢
    have hfresh : ({ owner := e.name, name := dictAttrName a, kind := attrDKind a } : SA) ∉ st.objs.map (·.sa) := by
      intro hm
      rw [List.nodup_append] at hnd
      exact hnd.2.2 _ hm _ (by simp) rfl
    obtain ⟨h2, hs⟩ := ownStep_head ro e st a hall hfresh
    have hpair : ownStep ro e (st, none) a = ((ownStep ro e (st, none) a).1, none) := Prod.ext rfl h2
    rw [hpair]
    have hnd' : ((ownStep ro e (st, none) a).1.objs.map (·.sa) ++
        as.map (fun a => ({ owner := e.name, name := dictAttrName a, kind := attrDKind a } : SA))).Nodup := by
      rw [hs.sas]; simpa [List.append_assoc] using hnd
    have := ih (ownStep ro e (st, none) a).1 hs.hall hnd'
    exact ⟨this.hall, by rw [this.sas, hs.sas]; simp, fun j => by rw [this.der, hs.der]⟩

/-! ### the chain invariant -/

theorem derivedCall_mono {xs ys : List (String × Attr)} {x cr : String} (h : DerivedCall xs x cr) :
    DerivedCall (xs ++ ys) x cr := by
  obtain ⟨pre, a, post, e, ha, hpre, hk⟩ := h
  refine ⟨pre, a, post ++ ys, by rw [e]; simp, ha, hpre, ?_⟩
  rcases hk with hk | ⟨p, hp, hx, hm⟩
  · exact Or.inl hk
  · exact Or.inr ⟨p, List.mem_append.mpr (Or.inl hp), hx, hm⟩

/-- descriptors along the chain are told apart by (owner, registered name) -/
def KeysNodup (c : List Entity) : Prop := ((c.flatMap ownSAs).map keyOf).Nodup

structure ChainState (c : List Entity) (st : IState) : Prop where
  hall : ∀ j, j ∈ st.head ↔ j < st.objs.length
  sas : st.objs.map (·.sa) = c.flatMap ownSAs
  der : ∀ j a, saAt st j = some a → (dAt st j = true ↔ DerivedCall (flatAttrs c) a.name a.owner)

theorem saAt_of_map {st st' : IState} {l : List SA} (h : st'.objs.map (·.sa) = st.objs.map (·.sa) ++ l) (j : Nat)
    (hj : j < st.objs.length) : saAt st' j = saAt st j := by
  have h1 : saAt st' j = (st'.objs.map (·.sa))[j]? := by simp [saAt]
  have h2 : saAt st j = (st.objs.map (·.sa))[j]? := by simp [saAt]
  rw [h1, h2, h, List.getElem?_append_left (by simpa using hj)]

theorem flatAttrs_append (c : List Entity) (e : Entity) :
    flatAttrs (c ++ [e]) = flatAttrs c ++ e.attrs.map (fun a => (e.name, a)) := by
  simp [flatAttrs]

/-- on the entities of the chain the creator-aware search finds what the search by name finds -/
def CallsAgree (s : Schema) (c : List Entity) : Prop := ∀ e ∈ c, derivedCalls s e.name = derivedCallsN s e.name

theorem chain_state {s : Schema} {n : String} {c : List Entity} (h : IsChain s n c) :
    ∀ f, c.length ≤ f → c.length ≤ fuelOf s → KeysNodup c → CallsAgree s c → ChainState c (ctorNF s f n {}) := by
  induction h with
  | root n e hE hs =>
    intro f hf hfu hk hag
    cases f with
    | zero => simp at hf
    | succ f =>
      rw [ctorNF_succ, hE]
      simp only [hs, List.tail_nil, List.foldl_nil]
      have hagn : derivedCalls s n = derivedCallsN s n := by
        have := hag e (by simp); rwa [findE_name hE] at this
      rw [hagn]
      have hall0 : ∀ j, j ∈ ({} : IState).head ↔ j < ({} : IState).objs.length := by intro j; simp
      have hsas : (ownSAs e).Nodup := by
        have : KeysNodup [e] := hk
        simp only [KeysNodup, List.flatMap_cons, List.flatMap_nil, List.append_nil] at this
        exact nodup_of_map _ this
      have hl := ownLoop_head (redefOwner s) e {} hall0 (by simpa using hsas)
      have hk' : ((ownLoop (redefOwner s) e {} none).1.objs.map (fun o => keyOf o.sa)).Nodup := by
        have : (ownLoop (redefOwner s) e {} none).1.objs.map (fun o => keyOf o.sa) = ((ownLoop (redefOwner s) e {} none).1.objs.map (·.sa)).map keyOf := by
          simp [List.map_map, Function.comp_def]
        rw [this, hl.sas]; simpa [KeysNodup] using hk
      obtain ⟨t1, t2, t3⟩ := applyDerived_head (derivedCallsN s n) _ hl.hall hk'
      refine ⟨?_, ?_, ?_⟩
      · intro j
        rw [t1]
        have : (applyDerived (ownLoop (redefOwner s) e {} none).1 (ownLoop (redefOwner s) e {} none).1.head (derivedCallsN s n)).objs.length =
            (ownLoop (redefOwner s) e {} none).1.objs.length := by
          have := congrArg List.length t2; simpa using this
        rw [this]; exact hl.hall j
      · rw [t2, hl.sas]; simp
      · intro j a ha
        have ha' : saAt (ownLoop (redefOwner s) e {} none).1 j = some a := by
          have : saAt (applyDerived (ownLoop (redefOwner s) e {} none).1 (ownLoop (redefOwner s) e {} none).1.head (derivedCallsN s n)) j =
              saAt (ownLoop (redefOwner s) e {} none).1 j := by
            simp only [saAt]
            have := congrArg (fun l => l[j]?) t2
            simpa using this
          rw [← this]; exact ha
        rw [t3 j a ha', hl.der]
        have hd0 : dAt ({} : IState) j = false := by simp [dAt]
        rw [hd0]
        simp only [Bool.false_eq_true, false_or]
        exact derivedCalls_chain (IsChain.root n e hE hs) hfu a.name a.owner
  | step n p e c hE hs hc ih =>
    intro f hf hfu hk hag
    cases f with
    | zero => simp at hf
    | succ f =>
      have hkc : KeysNodup c := by
        unfold KeysNodup at hk ⊢
        simp only [List.flatMap_append, List.map_append] at hk
        exact (List.nodup_append.mp hk).1
      have hcl : c.length ≤ f := by simp at hf; omega
      have hcu : c.length ≤ fuelOf s := by simp at hfu; omega
      have st1 := ih f hcl hcu hkc (fun e' he' => hag e' (List.mem_append.mpr (Or.inl he')))
      rw [ctorNF_succ, hE]
      simp only [hs, List.tail_cons, List.foldl_nil]
      have hagn : derivedCalls s n = derivedCallsN s n := by
        have := hag e (by simp); rwa [findE_name hE] at this
      rw [hagn]
      generalize hst : ctorNF s f p {} = st at st1
      have hnd : (st.objs.map (·.sa) ++ ownSAs e).Nodup := by
        rw [st1.sas]
        have : ((c ++ [e]).flatMap ownSAs).Nodup := nodup_of_map _ hk
        simpa using this
      have hl := ownLoop_head (redefOwner s) e st st1.hall hnd
      have hk' : ((ownLoop (redefOwner s) e st none).1.objs.map (fun o => keyOf o.sa)).Nodup := by
        have : (ownLoop (redefOwner s) e st none).1.objs.map (fun o => keyOf o.sa) = ((ownLoop (redefOwner s) e st none).1.objs.map (·.sa)).map keyOf := by
          simp [List.map_map, Function.comp_def]
        rw [this, hl.sas, st1.sas]; simpa [KeysNodup] using hk
      obtain ⟨t1, t2, t3⟩ := applyDerived_head (derivedCallsN s n) _ hl.hall hk'
      have hchain : IsChain s n (c ++ [e]) := IsChain.step n p e c hE hs hc
      refine ⟨?_, ?_, ?_⟩
      · intro j
        rw [t1]
        have : (applyDerived (ownLoop (redefOwner s) e st none).1 (ownLoop (redefOwner s) e st none).1.head (derivedCallsN s n)).objs.length =
            (ownLoop (redefOwner s) e st none).1.objs.length := by
          have := congrArg List.length t2; simpa using this
        rw [this]; exact hl.hall j
      · rw [t2, hl.sas, st1.sas]; simp
      · intro j a ha
        have ha' : saAt (ownLoop (redefOwner s) e st none).1 j = some a := by
          have : saAt (applyDerived (ownLoop (redefOwner s) e st none).1 (ownLoop (redefOwner s) e st none).1.head (derivedCallsN s n)) j =
              saAt (ownLoop (redefOwner s) e st none).1 j := by
            simp only [saAt]
            have := congrArg (fun l => l[j]?) t2
            simpa using this
          rw [← this]; exact ha
        rw [t3 j a ha', hl.der, derivedCalls_chain hchain hfu a.name a.owner]
        constructor
        · rintro (hd | hd)
          · -- an object that was derived before is an object of the shorter chain
            have hj : j < st.objs.length := by
              unfold dAt at hd
              cases ho : st.objs[j]? with
              | none => rw [ho] at hd; simp at hd
              | some o => exact Nat.lt_of_not_le (fun hl' => by rw [List.getElem?_eq_none hl'] at ho; cases ho)
            have hsame := saAt_of_map hl.sas j hj
            rw [ha'] at hsame
            have := (st1.der j a hsame.symm).mp hd
            rw [flatAttrs_append]
            exact derivedCall_mono this
          · exact hd
        · intro hd; exact Or.inr hd

end StepModel.GenCxx

import StepModel.GenCxxFlags
/-! Which attributes end up flagged `_derive` / `_redefAttr`: a specification for single-inheritance instances
(where the generated code does what Part 21 intends, up to one quirk) and the proof that the flag model meets it. -/
namespace StepModel.GenCxx

/-! ## single-inheritance chains -/

/-- `c` is the chain of entities from the root down to `n` (every entity on it has at most one supertype) -/
inductive IsChain (s : Schema) : String → List Entity → Prop
  | root (n : String) (e : Entity) : s.findE n = some e → e.supers = [] → IsChain s n [e]
  | step (n p : String) (e : Entity) (c : List Entity) :
      s.findE n = some e → e.supers = [p] → IsChain s p c → IsChain s n (c ++ [e])

theorem IsChain.last {s : Schema} {n : String} {c : List Entity} (h : IsChain s n c) :
    ∃ e c', c = c' ++ [e] ∧ s.findE n = some e := by
  cases h with
  | root _ e hE _ => exact ⟨e, [], rfl, hE⟩
  | step _ p e c' hE _ _ => exact ⟨e, c', rfl, hE⟩

/-! ## `populateAttrList` on a chain is one left fold over all attributes of the chain -/

/-- one attribute in `populateAttrList` when the search starts at index 0 -/
def popStep (acc : List OA) (p : String × Attr) : List OA :=
  match markFirst p.2.name acc with
  | some acc' => acc'
  | none => acc ++ [{ name := p.2.name, creator := p.1, deriver := p.2.kind == .derived }]

/-- all attributes of a chain in the order `populateAttrList` meets them, with the declaring entity -/
def flatAttrs (c : List Entity) : List (String × Attr) := c.flatMap (fun e => e.attrs.map (fun a => (e.name, a)))

theorem markFrom_zero (nm : String) (l : List OA) : markFrom 0 nm l = markFirst nm l := by
  simp [markFrom]

theorem populate_succ (s : Schema) (f : Nat) (n : String) (l : List OA) :
    populate s (f + 1) n l =
      match s.findE n with
      | none => l
      | some e =>
        e.attrs.foldl (fun acc a =>
          match markFrom l.length a.name acc with
          | some acc' => acc'
          | none => acc ++ [{ name := a.name, creator := n, deriver := a.kind == .derived }])
          (e.supers.foldl (fun acc sup => populate s f sup acc) l) := rfl

theorem attrs_fold_eq (n : String) (attrs : List Attr) (acc : List OA) :
    attrs.foldl (fun acc a =>
        match markFrom ([] : List OA).length a.name acc with
        | some acc' => acc'
        | none => acc ++ [{ name := a.name, creator := n, deriver := a.kind == .derived }]) acc =
      (attrs.map (fun a => (n, a))).foldl popStep acc := by
  induction attrs generalizing acc with
  | nil => rfl
  | cons a as ih =>
    simp only [List.foldl_cons, List.map_cons]
    rw [← ih]
    congr 1
    simp only [List.length_nil, markFrom_zero, popStep]

theorem populate_chain {s : Schema} {n : String} {c : List Entity} (h : IsChain s n c) :
    ∀ f, c.length ≤ f → populate s f n [] = (flatAttrs c).foldl popStep [] := by
  induction h with
  | root n e hE hs =>
    intro f hf
    cases f with
    | zero => simp at hf
    | succ f =>
      rw [populate_succ, hE]
      simp only [hs, List.foldl_nil]
      rw [attrs_fold_eq]
      simp [flatAttrs, findE_name hE]
  | step n p e c hE hs _ ih =>
    intro f hf
    cases f with
    | zero => simp at hf
    | succ f =>
      rw [populate_succ, hE]
      simp only [hs, List.foldl_cons, List.foldl_nil]
      rw [ih f (by simp at hf; omega), attrs_fold_eq]
      simp [flatAttrs, List.foldl_append, findE_name hE]

/-! ## what the fold does to the `deriver` marks -/

def names (l : List OA) : List String := l.map (·.name)

theorem markFirst_none {nm : String} {l : List OA} : markFirst nm l = none ↔ nm ∉ names l := by
  induction l with
  | nil => simp [markFirst, names]
  | cons x xs ih =>
    unfold markFirst
    by_cases h : x.name = nm
    · simp [h, names]
    · have : (x.name == nm) = false := by simpa using h
      simp only [this, Bool.false_eq_true, ↓reduceIte, Option.map_eq_none_iff, ih]
      simp only [names, List.map_cons, List.mem_cons, not_or]
      exact ⟨fun hh => ⟨fun e => h e.symm, hh⟩, fun hh => hh.2⟩

/-- with distinct names, marking the first entry named `nm` is marking every entry named `nm` -/
theorem markFirst_some {nm : String} {l : List OA} (hn : (names l).Nodup) (hm : nm ∈ names l) :
    markFirst nm l = some (l.map (fun o => if o.name == nm then { o with deriver := true } else o)) := by
  induction l with
  | nil => simp [names] at hm
  | cons x xs ih =>
    simp only [names, List.map_cons, List.nodup_cons] at hn
    unfold markFirst
    by_cases h : x.name = nm
    · have hx : (x.name == nm) = true := by simpa using h
      have hxs : xs.map (fun o => if o.name == nm then { o with deriver := true } else o) = xs := by
        rw [List.map_congr_left (g := id)]
        · simp
        · intro o ho
          have : o.name ≠ nm := by
            intro e2; apply hn.1; rw [h, ← e2]; exact List.mem_map_of_mem ho
          simp [this]
      simp only [hx, ↓reduceIte, List.map_cons, hxs]
    · have hx : (x.name == nm) = false := by simpa using h
      have hm' : nm ∈ names xs := by
        simp only [names, List.map_cons, List.mem_cons] at hm
        rcases hm with e | e
        · exact absurd e.symm h
        · exact e
      simp only [hx, Bool.false_eq_true, ↓reduceIte, ih hn.2 hm', Option.map_some, List.map_cons]

def markNamed (nm : String) (o : OA) : OA := if o.name == nm then { o with deriver := true } else o

theorem markNamed_name (nm : String) (o : OA) : (markNamed nm o).name = o.name := by
  unfold markNamed; split <;> rfl
theorem markNamed_creator (nm : String) (o : OA) : (markNamed nm o).creator = o.creator := by
  unfold markNamed; split <;> rfl
theorem markNamed_deriver (nm : String) (o : OA) : (markNamed nm o).deriver = (o.deriver || o.name == nm) := by
  unfold markNamed
  by_cases h : o.name = nm <;> simp [h]

def newOA (p : String × Attr) : OA := { name := p.2.name, creator := p.1, deriver := p.2.kind == .derived }

theorem popStep_eq (acc : List OA) (p : String × Attr) (hn : (names acc).Nodup) :
    popStep acc p = if p.2.name ∈ names acc then acc.map (markNamed p.2.name) else acc ++ [newOA p] := by
  unfold popStep
  by_cases h : p.2.name ∈ names acc
  · rw [markFirst_some hn h]; simp only [h, ↓reduceIte]; rfl
  · rw [markFirst_none.mpr h]; simp only [h, ↓reduceIte]; rfl

theorem names_map_mark (nm : String) (l : List OA) : names (l.map (markNamed nm)) = names l := by
  simp [names, List.map_map, Function.comp_def, markNamed_name]

theorem popStep_names (acc : List OA) (p : String × Attr) (hn : (names acc).Nodup) :
    (names (popStep acc p)).Nodup ∧ ∀ x, x ∈ names (popStep acc p) ↔ x ∈ names acc ∨ x = p.2.name := by
  rw [popStep_eq acc p hn]
  by_cases h : p.2.name ∈ names acc
  · simp only [h, ↓reduceIte, names_map_mark]
    exact ⟨hn, fun x => ⟨Or.inl, fun hx => hx.elim id (fun e => e ▸ h)⟩⟩
  · simp only [h, ↓reduceIte]
    constructor
    · simp only [names, List.map_append, List.map_cons, List.map_nil]
      rw [List.nodup_append]
      exact ⟨hn, by simp, by intro a ha b hb; simp at hb; subst hb; intro e; subst e; exact h ha⟩
    · intro x; simp [names, newOA]

theorem fold_names (xs : List (String × Attr)) (acc : List OA) (hn : (names acc).Nodup) :
    (names (xs.foldl popStep acc)).Nodup ∧
      ∀ x, x ∈ names (xs.foldl popStep acc) ↔ x ∈ names acc ∨ ∃ p ∈ xs, p.2.name = x := by
  induction xs generalizing acc with
  | nil => exact ⟨hn, fun x => by simp⟩
  | cons p ps ih =>
    simp only [List.foldl_cons]
    obtain ⟨h1, h2⟩ := popStep_names acc p hn
    obtain ⟨i1, i2⟩ := ih (popStep acc p) h1
    refine ⟨i1, fun x => ?_⟩
    rw [i2, h2]
    constructor
    · rintro ((h | h) | ⟨q, hq, hx⟩)
      · exact Or.inl h
      · exact Or.inr ⟨p, by simp, h.symm⟩
      · exact Or.inr ⟨q, by simp [hq], hx⟩
    · rintro (h | ⟨q, hq, hx⟩)
      · exact Or.inl (Or.inl h)
      · rcases List.mem_cons.mp hq with rfl | hq
        · exact Or.inl (Or.inr hx.symm)
        · exact Or.inr ⟨q, hq, hx⟩

/-- an entry that is already there keeps its name and creator; it is derived afterwards iff it was, or a later
    attribute carries its name -/
theorem fold_old (xs : List (String × Attr)) (acc : List OA) (hn : (names acc).Nodup) (o : OA) (ho : o ∈ acc) :
    ∃ o' ∈ xs.foldl popStep acc, o'.name = o.name ∧ o'.creator = o.creator ∧
      o'.deriver = (o.deriver || xs.any (fun p => p.2.name == o.name)) := by
  induction xs generalizing acc o with
  | nil => exact ⟨o, ho, rfl, rfl, by simp⟩
  | cons p ps ih =>
    simp only [List.foldl_cons]
    have h1 := (popStep_names acc p hn).1
    have hmem : ∃ o1 ∈ popStep acc p, o1.name = o.name ∧ o1.creator = o.creator ∧
        o1.deriver = (o.deriver || p.2.name == o.name) := by
      rw [popStep_eq acc p hn]
      by_cases h : p.2.name ∈ names acc
      · simp only [h, ↓reduceIte]
        refine ⟨markNamed p.2.name o, List.mem_map_of_mem ho, markNamed_name _ _, markNamed_creator _ _, ?_⟩
        rw [markNamed_deriver]
        congr 1
        exact BEq.comm
      · simp only [h, ↓reduceIte]
        have hne : p.2.name ≠ o.name := by
          intro e; apply h; rw [e]; exact List.mem_map_of_mem ho
        exact ⟨o, List.mem_append.mpr (Or.inl ho), rfl, rfl, by simp [hne]⟩
    obtain ⟨o1, ho1, n1, c1, d1⟩ := hmem
    obtain ⟨o', ho', n', c', d'⟩ := ih (popStep acc p) h1 o1 ho1
    refine ⟨o', ho', n'.trans n1, c'.trans c1, ?_⟩
    rw [d', d1, n1, List.any_cons, Bool.or_assoc]

/-- the first attribute with a new name creates the entry (creator = its entity) -/
theorem fold_new (pre post : List (String × Attr)) (cr : String) (a : Attr) (acc : List OA) (hn : (names acc).Nodup)
    (h1 : a.name ∉ names acc) (h2 : ∀ p ∈ pre, p.2.name ≠ a.name) :
    ∃ o ∈ (pre ++ (cr, a) :: post).foldl popStep acc, o.name = a.name ∧ o.creator = cr ∧
      o.deriver = (a.kind == .derived || post.any (fun p => p.2.name == a.name)) := by
  rw [List.foldl_append, List.foldl_cons]
  obtain ⟨f1, f2⟩ := fold_names pre acc hn
  have hnot : a.name ∉ names (pre.foldl popStep acc) := by
    rw [f2]
    rintro (h | ⟨p, hp, hx⟩)
    · exact h1 h
    · exact h2 p hp hx
  have hstep : newOA (cr, a) ∈ popStep (pre.foldl popStep acc) (cr, a) := by
    rw [popStep_eq _ _ f1]
    simp only [hnot, ↓reduceIte]
    simp
  obtain ⟨o', ho', n', c', d'⟩ := fold_old post _ (popStep_names _ (cr, a) f1).1 _ hstep
  exact ⟨o', ho', n', c', d'⟩

theorem first_split {α : Type} (q : α → Prop) [DecidablePred q] (l : List α) (h : ∃ p ∈ l, q p) :
    ∃ pre a post, l = pre ++ a :: post ∧ q a ∧ ∀ p ∈ pre, ¬ q p := by
  induction l with
  | nil => obtain ⟨p, hp, _⟩ := h; simp at hp
  | cons x xs ih =>
    by_cases hx : q x
    · exact ⟨[], x, xs, rfl, hx, by simp⟩
    · obtain ⟨p, hp, hq⟩ := h
      have : ∃ p ∈ xs, q p := by
        rcases List.mem_cons.mp hp with rfl | hp'
        · exact absurd hq hx
        · exact ⟨p, hp', hq⟩
      obtain ⟨pre, a, post, e, ha, hpre⟩ := ih this
      refine ⟨x :: pre, a, post, by rw [e]; rfl, ha, ?_⟩
      intro p hp
      rcases List.mem_cons.mp hp with rfl | hp'
      · exact hx
      · exact hpre p hp'

theorem unique_by_name {l : List OA} (hn : (names l).Nodup) {a b : OA} (ha : a ∈ l) (hb : b ∈ l)
    (h : a.name = b.name) : a = b := by
  induction l with
  | nil => simp at ha
  | cons x xs ih =>
    simp only [names, List.map_cons, List.nodup_cons] at hn
    rcases List.mem_cons.mp ha with rfl | ha' <;> rcases List.mem_cons.mp hb with rfl | hb'
    · rfl
    · exact absurd (by rw [h]; exact List.mem_map_of_mem hb') hn.1
    · exact absurd (by rw [← h]; exact List.mem_map_of_mem ha') hn.1
    · exact ih hn.2 ha' hb'

theorem dedupOA_id (acc l : List OA) (hn : (names (acc ++ l)).Nodup) : dedupOA acc l = acc ++ l := by
  induction l generalizing acc with
  | nil => simp [dedupOA]
  | cons x xs ih =>
    unfold dedupOA
    have hx : acc.any (fun y => y.name == x.name && y.creator == x.creator) = false := by
      rw [List.any_eq_false]
      intro y hy
      have : y.name ≠ x.name := by
        intro e
        simp only [names, List.map_append, List.map_cons] at hn
        rw [List.nodup_append] at hn
        exact hn.2.2 y.name (List.mem_map_of_mem hy) x.name (by simp) e
      simp [this]
    simp only [hx, Bool.false_eq_true, ↓reduceIte]
    rw [ih (acc ++ [x]) (by simpa [List.append_assoc] using hn)]
    simp

/-- where a `MakeDerived( x, cr )` call comes from, in terms of the attribute sequence of the chain -/
def DerivedCall (xs : List (String × Attr)) (x cr : String) : Prop :=
  ∃ pre a post, xs = pre ++ (cr, a) :: post ∧ a.name = x ∧ (∀ p ∈ pre, p.2.name ≠ x) ∧
    (a.kind = .derived ∨ ∃ p ∈ post, p.2.name = x)

theorem derivedCalls_chain {s : Schema} {n : String} {c : List Entity} (h : IsChain s n c)
    (hf : c.length ≤ fuelOf s) (x cr : String) :
    (x, cr) ∈ derivedCalls s n ↔ DerivedCall (flatAttrs c) x cr := by
  unfold derivedCalls
  rw [populate_chain h _ hf]
  obtain ⟨hnd, hnames⟩ := fold_names (flatAttrs c) [] (by simp [names])
  rw [dedupOA_id [] _ (by simpa using hnd), List.nil_append]
  simp only [List.mem_map, List.mem_filter, Prod.mk.injEq]
  constructor
  · rintro ⟨o, ⟨ho, hd⟩, hx, hc⟩
    have hin : o.name ∈ names ((flatAttrs c).foldl popStep []) := List.mem_map_of_mem ho
    rw [hnames] at hin
    rcases hin with h0 | hex
    · simp [names] at h0
    · obtain ⟨pre, pa, post, e, hq, hpre⟩ := first_split (fun p : String × Attr => p.2.name = o.name) _ hex
      obtain ⟨cr', a⟩ := pa
      simp only at hq
      obtain ⟨o', ho', n', c', d'⟩ := fold_new pre post cr' a [] (by simp [names]) (by simp [names])
        (fun p hp => by rw [hq]; exact hpre p hp)
      rw [← e] at ho'
      have : o' = o := unique_by_name hnd ho' ho (by rw [n', hq])
      subst this
      refine ⟨pre, a, post, ?_, by rw [hq, hx], fun p hp => by rw [← hx]; exact hpre p hp, ?_⟩
      · rw [e, ← hc, c']
      · rw [d'] at hd
        simp only [Bool.or_eq_true, beq_iff_eq, List.any_eq_true] at hd
        rcases hd with hk | ⟨p, hp, hpn⟩
        · exact Or.inl hk
        · exact Or.inr ⟨p, hp, by rw [hpn, hq, hx]⟩
  · rintro ⟨pre, a, post, e, hax, hpre, hk⟩
    obtain ⟨o, ho, n', c', d'⟩ := fold_new pre post cr a [] (by simp [names]) (by simp [names])
      (fun p hp => by rw [hax]; exact hpre p hp)
    rw [← e] at ho
    refine ⟨o, ⟨ho, ?_⟩, by rw [n', hax], c'⟩
    rw [d']
    simp only [Bool.or_eq_true, beq_iff_eq, List.any_eq_true]
    rcases hk with hk | ⟨p, hp, hpn⟩
    · exact Or.inl hk
    · exact Or.inr ⟨p, hp, by rw [hpn, hax]⟩

end StepModel.GenCxx

import StepModel.P21SafeLoops
/-! Termination lemmas for the stream loops of `P21SafeLoops` (helper file for Props/C05). -/
namespace StepModel.P21Safe

/-- the termination measure: a stream that is not good stops every loop at its next test;
a good one can still deliver `rest.length` characters -/
def IS.meas (s : IS) : Nat := if s.good then s.rest.length + 1 else 0

theorem IS.meas_not_good {s : IS} (h : s.good = false) : s.meas = 0 := by simp [IS.meas, h]
theorem IS.meas_good {s : IS} (h : s.good = true) : s.meas = s.rest.length + 1 := by simp [IS.meas, h]

/-! ### primitives -/

theorem get_meas (s : IS) : (s.get).1.meas + 1 ≤ s.meas ∨ s.meas = 0 ∧ (s.get).1.meas = 0 := by
  obtain ⟨pre, rest, eof, fail, sk⟩ := s
  cases eof <;> cases fail <;> cases rest <;> simp [IS.get, IS.good, IS.meas]

theorem get_none_not_good (s : IS) (h : (s.get).2 = none) : (s.get).1.good = false := by
  obtain ⟨pre, rest, eof, fail, sk⟩ := s
  cases eof <;> cases fail <;> cases rest <;> simp_all [IS.get, IS.good]

/-! ### FindHeaderSection -/

theorem takeLine_length (d : Byte) (k : Nat) (r : List Byte) :
    (takeLine d k r).1.length + (takeLine d k r).2.length = r.length := by
  fun_induction takeLine d k r <;> simp_all <;> omega

/-- `getline` either leaves the stream not good, or has consumed at least the delimiter; what it stored is part of what
it consumed -/
theorem getline_meas (n : Nat) (d : Byte) (s : IS) (hg : s.good = true) :
    (getline n d s).1.meas + (getline n d s).2.length + 1 ≤ s.meas := by
  obtain ⟨pre, rest, eof, fail, sk⟩ := s
  simp [IS.good] at hg
  obtain ⟨rfl, rfl⟩ := hg
  unfold getline
  simp [IS.good]
  have hl := takeLine_length d (n - 1) rest
  generalize takeLine d (n - 1) rest = tl at hl
  obtain ⟨t, r⟩ := tl
  simp at hl ⊢
  cases r with
  | nil => simp [IS.meas, IS.good]; simp at hl; omega
  | cons c r' =>
    by_cases hc : c = d
    · simp [hc, IS.meas, IS.good]
      simp at hl; omega
    · simp [hc, IS.meas, IS.good]
      simp at hl; omega

/-- with the give-up test `!in.good()` the header search needs at most `meas + 1` iterations; its step count
(iterations + bytes stored by `getline`) is at most twice the remaining input -/
theorem headerLoop_terminates (n : Nat) : ∀ (fuel : Nat) (s : IS) (buf : List Byte) (steps : Nat),
    s.meas + 1 ≤ fuel → ∃ r, headerLoop n .notGood fuel s buf steps = .ok r ∧ r.steps ≤ steps + 2 * s.meas := by
  intro fuel
  induction fuel with
  | zero => intro s buf steps h; omega
  | succ fuel ih =>
    intro s buf steps h
    unfold headerLoop
    by_cases hc : containsSub kwHEADER (cstr buf) = true
    · simp [hc]
    · simp [hc]
      by_cases hg : s.good = true
      · simp [hg]
        have hm := getline_meas n chSemi s hg
        generalize hgl : getline n chSemi s = gl at hm
        obtain ⟨s1, buf1⟩ := gl
        simp at hm ⊢
        obtain ⟨r, hr, hs⟩ := ih s1 buf1 (steps + 1 + buf1.length) (by omega)
        exact ⟨r, hr, by omega⟩
      · simp at hg
        simp [hg]

/-- with the give-up test `in.eof()` only, a stream that has failed without reaching the end never leaves the loop -/
theorem headerLoop_eofOnly_spins (n : Nat) : ∀ (fuel : Nat) (s : IS) (steps : Nat),
    s.fail = true → s.eof = false → headerLoop n .eofOnly fuel s [] steps = .outOfFuel := by
  intro fuel
  induction fuel with
  | zero => intro s steps _ _; rfl
  | succ fuel ih =>
    intro s steps hf he
    unfold headerLoop
    have hc : containsSub kwHEADER (cstr []) = false := by decide
    have hg : s.good = false := by simp [IS.good, hf]
    simp [hc, he, getline, hg]
    exact ih _ _ (by simp) (by simp [he])

end StepModel.P21Safe

import StepModel.Generated.RegistryGen
/-!
# Model of the public walking / query API of `Registry` (src/clstepcore/Registry.cc)

Three hash tables (entities, types, schemas), each with ONE cursor stored in the registry (`cur_entity`, `cur_type`,
`cur_schema`): `ResetEntities/NextEntity`, `ResetTypes/NextType`, `ResetSchemas/NextSchema` move the cursor of their
own kind; `GetEntityCnt`, `GetFullEntCnt`, `FindEntity`, `FindType`, `FindSchema`, `ObjCreate` answer from a maintained counter resp.
`SC_HASHfind`, which has no cursor; which cursors their bodies nevertheless write (directly or through the member functions they
call) is regenerated from Registry.cc (`Generated.queryCursorWrites`): a query operation of the model moves exactly those cursors
— to the end of the table, as a walk inside the function would leave them.  The lists are in the table's iteration order (observed by the
harness with a reference walk; the order itself is not modelled).
-/
namespace StepModel.Registry

inductive Kind | ent | typ | sch
  deriving DecidableEq, Repr, Inhabited

structure State where
  ents : List String
  types : List String
  schemas : List String
  /-- abstract entities (`ObjCreate` does not look at abstractness: it calls the creator of any registered entity) -/
  abstract : List String := []
  curE : Nat := 0
  curT : Nat := 0
  curS : Nat := 0
  deriving DecidableEq, Repr, Inhabited

def State.list (st : State) : Kind → List String
  | .ent => st.ents | .typ => st.types | .sch => st.schemas

def State.cur (st : State) : Kind → Nat
  | .ent => st.curE | .typ => st.curT | .sch => st.curS

def State.setCur (st : State) : Kind → Nat → State
  | .ent, n => { st with curE := n } | .typ, n => { st with curT := n } | .sch, n => { st with curS := n }

inductive Op
  | reset (k : Kind)
  | next (k : Kind)
  /-- call `Next…` until it answers null -/
  | nextAll (k : Kind)
  | entityCnt
  | fullEntCnt
  | find (k : Kind) (n : String)
  | objCreate (n : String)
  deriving DecidableEq, Repr, Inhabited

inductive Res
  | unit
  | name (n : String)
  | null
  | names (l : List String)
  | num (n : Nat)
  | found (b : Bool)
  deriving DecidableEq, Repr, Inhabited

def kindOfName : String → Option Kind
  | "ent" => some .ent | "typ" => some .typ | "sch" => some .sch | _ => none

/-- the cursors the query function `fn` writes (regenerated) -/
def moves (fn : String) : List Kind :=
  ((StepModel.Generated.queryCursorWrites.lookup fn).getD []).filterMap kindOfName

/-- a walk to the end of each of these tables -/
def walkAll (st : State) (ks : List Kind) : State := ks.foldl (fun st k => st.setCur k (st.list k).length) st

def findFn : Kind → String
  | .ent => "FindEntity" | .typ => "FindType" | .sch => "FindSchema"

/-- the kind whose cursor an operation may move -/
def Op.walkKind : Op → Option Kind
  | .reset k => some k | .next k => some k | .nextAll k => some k | _ => none

def step (st : State) : Op → State × Res
  | .reset k => (st.setCur k 0, .unit)
  | .next k =>
    match (st.list k)[st.cur k]? with
    | some n => (st.setCur k (st.cur k + 1), .name n)
    | none => (st, .null)
  | .nextAll k => (st.setCur k (max (st.cur k) (st.list k).length), .names ((st.list k).drop (st.cur k)))
  | .entityCnt => (walkAll st (moves "GetEntityCnt"), .num st.ents.length)
  | .fullEntCnt => (walkAll st (moves "GetFullEntCnt"), .num st.ents.length)
  | .find k n => (walkAll st (moves (findFn k)), .found ((st.list k).contains n))
  | .objCreate n => (walkAll st (moves "ObjCreate"), .found (st.ents.contains n))

/-- answers of a whole operation sequence -/
def run : List Op → State → List Res
  | [], _ => []
  | o :: os, st => (step st o).2 :: run os (step st o).1

/-- answers of the operations that walk kind `k` -/
def runK (k : Kind) : List Op → State → List Res
  | [], _ => []
  | o :: os, st =>
    if o.walkKind = some k then (step st o).2 :: runK k os (step st o).1 else runK k os (step st o).1

end StepModel.Registry

import StepModel.GenCxx
import StepModel.Accessors
/-!
# Which accessor template an attribute of a schema gets (C02)

`src/exp2cxx/classes_attribute.c` `ATTRprint_access_methods` / `INVprint_access_methods`: the case analysis on the attribute
(inverse? aggregate? then the class of its type, a defined type counting as what it finally stands for) that selects one of the
ten emitted getter / const getter / setter triples regenerated into `Generated/AccessorGen.lean`.  Attributes in the DERIVE
clause get no accessors.  Checked against the real classes by the accessor tests of `checks/c02.py`, which are generated per
kind and only compile / pass for the kind the emitted class really has.
-/
namespace StepModel.GenCxx
open StepModel.Generated

/-- a type written in place (not a reference to a defined type) -/
def kindOfPlain : TRef → Option AccKind
  | .base .integer => some .integer
  | .base .real => some .real
  | .base .number => some .real
  | .base .string => some .strBin
  | .base .binary => some .strBin
  | .base .boolean => some .logBool
  | .base .logical => some .logBool
  | .entity _ => some .entity
  | .aggr _ _ _ _ _ => some .aggregate
  | .named _ => none

/-- … or a defined type, followed through its rename chain to the declaration that says what it is -/
def kindOfTRef (s : Schema) : TRef → Option AccKind
  | .named n =>
    match resolve s (s.types.length + 1) n with
    | some td =>
      (match td.body with
       | .enum _ => some .enumeration
       | .select _ => some .select
       | .alias t => kindOfPlain t)
    | none => none
  | t => kindOfPlain t

/-- the template `ATTRprint_access_methods` / `INVprint_access_methods` picks for attribute `a` -/
def accKindOf (s : Schema) (a : Attr) : Option AccKind :=
  match a.kind with
  | .derived => none
  | .inverse => (match a.type with
      | .aggr _ _ _ _ _ => some .inverseAggr
      | _ => some .inverseEntity)
  | .explicit => kindOfTRef s a.type

end StepModel.GenCxx

import StepModel.ComplexComplete4
/-! Completeness on distinct leaves: `acceptChoice` on a finished alive list whose marks were taken back re-marks every
member of the request among its leaves (and reports that it marked something). -/
namespace StepModel.Complex.Match
open StepModel.Generated StepModel.Complex

theorem PA_als {N : List Name} {t : ST} (h : PA N t) : t.atLeastSome = true := by
  cases t with
  | simple n v im => simp only [PA] at h; simp [ST.atLeastSome, ST.viable, h.2]
  | mult j v c c1 k cs => cases j <;> simp only [PA] at h <;> simp [ST.atLeastSome, ST.viable, h.1]

theorem PAone_spec {N : List Name} : ∀ (cs : List ST) (i : Nat), PAone N cs i →
    ∃ ch, cs[i]? = some ch ∧ PA N ch ∧ ∀ p c0, cs[p]? = some c0 → p ≠ i → DeadS N c0
  | [], _, h => by simp [PAone] at h
  | c :: cs, 0, h => by
    simp only [PAone] at h
    refine ⟨c, by simp, h.1, fun p c0 hp hne => ?_⟩
    cases p with
    | zero => exact absurd rfl hne
    | succ p =>
      have hp' : cs[p]? = some c0 := by simpa using hp
      intro x hx
      apply h.2 x
      clear h hne hp
      induction cs generalizing p with
      | nil => simp at hp'
      | cons a l ih =>
        simp only [lvSL, List.mem_append]
        cases p with
        | zero => simp at hp'; subst hp'; exact Or.inl hx
        | succ p => exact Or.inr (ih p (by simpa using hp'))
  | c :: cs, i + 1, h => by
    simp only [PAone] at h
    obtain ⟨ch, hch, hpa, hothers⟩ := PAone_spec cs i h.2
    refine ⟨ch, by simpa using hch, hpa, fun p c0 hp hne => ?_⟩
    cases p with
    | zero => simp at hp; subst hp; exact h.1
    | succ p => exact hothers p c0 (by simpa using hp) (by omega)

theorem PAone_of {N : List Name} : ∀ (cs : List ST) (i : Nat) (ch : ST), cs[i]? = some ch → PA N ch →
    (∀ p c0, cs[p]? = some c0 → p ≠ i → DeadS N c0) → PAone N cs i
  | [], _, _, h, _, _ => by simp at h
  | c :: cs, 0, ch, h, hpa, hd => by
    simp at h; subst h
    simp only [PAone]
    refine ⟨hpa, fun x hx => ?_⟩
    obtain ⟨p, c0, hp, hn⟩ : ∃ (p : Nat) (c0 : ST), cs[p]? = some c0 ∧ x ∈ lvS c0 := by
      clear hd hpa
      induction cs with
      | nil => simp [lvSL] at hx
      | cons a l ih =>
        simp only [lvSL, List.mem_append] at hx
        rcases hx with e | e
        · exact ⟨0, a, by simp, e⟩
        · obtain ⟨p, c0, hp, hn⟩ := ih e
          exact ⟨p + 1, c0, by simpa using hp, hn⟩
    exact hd (p + 1) c0 (by simpa using hp) (by omega) x hn
  | c :: cs, i + 1, ch, h, hpa, hd => by
    simp only [PAone]
    refine ⟨hd 0 c (by simp) (by omega), PAone_of cs i ch (by simpa using h) hpa (fun p c0 hp hne => ?_)⟩
    exact hd (p + 1) c0 (by simpa using hp) (by omega)

theorem PAsome_of_all {N : List Name} : ∀ (cs : List ST), PAall N cs → PAsome N cs
  | [], _ => trivial
  | c :: cs, h => ⟨Or.inl h.1, PAsome_of_all cs h.2⟩

theorem PAany_of_all {N : List Name} : ∀ (cs : List ST), cs ≠ [] → PAall N cs → PAany N cs
  | [], h, _ => absurd rfl h
  | c :: cs, _, h => Or.inl h.1

theorem lvS_sub_lvSL {c : ST} : ∀ {cs : List ST} {i : Nat}, cs[i]? = some c → ∀ n ∈ lvS c, n ∈ lvSL cs
  | [], i, h, _, _ => by simp at h
  | a :: l, 0, h, n, hn => by simp at h; subst h; simp [lvSL, hn]
  | a :: l, i + 1, h, n, hn => by
    simp only [lvSL, List.mem_append]
    exact Or.inr (lvS_sub_lvSL (by simpa using h) n hn)

theorem mem_lvSL {cs : List ST} {n : Name} (h : n ∈ lvSL cs) : ∃ (p : Nat) (c0 : ST), cs[p]? = some c0 ∧ n ∈ lvS c0 := by
  induction cs with
  | nil => simp [lvSL] at h
  | cons a l ih =>
    simp only [lvSL, List.mem_append] at h
    rcases h with e | e
    · exact ⟨0, a, by simp, e⟩
    · obtain ⟨p, c0, hp, hn⟩ := ih e
      exact ⟨p + 1, c0, by simpa using hp, hn⟩

theorem nodup_child : ∀ {cs : List ST} {i : Nat} {ch : ST}, (lvSL cs).Nodup → cs[i]? = some ch → (lvS ch).Nodup
  | [], i, _, _, h => by simp at h
  | a :: l, 0, ch, hnd, h => by
    simp at h; subst h
    simp only [lvSL] at hnd
    exact (nodup_append_disj hnd).1
  | a :: l, i + 1, ch, hnd, h => by
    simp only [lvSL] at hnd
    exact nodup_child (nodup_append_disj hnd).2.1 (by simpa using h)

theorem accept_pos (N : List Name) (hN : N.Pairwise (· < ·)) : ∀ f : Nat,
    (∀ t es r o, acceptChoice f t es = .ok r → names es = N → Fr o t es → holds t = [] → (lvS t).Nodup →
      (∀ n ∈ lvS t, o n = 0) → PA N t → Tidy t → (∀ n ∈ N, n ∈ lvS t → n ∈ holds r.1) ∧ r.2.2 = true ∧ PA N r.1) ∧
    (∀ cs es r o, acceptJoin f cs es = .ok r → names es = N → FrL o cs es → holdsL cs = [] → (lvSL cs).Nodup →
      (∀ n ∈ lvSL cs, o n = 0) → PAsome N cs → TidyL cs →
      (∀ n ∈ N, n ∈ lvSL cs → n ∈ holdsL r.1) ∧ (PAany N cs → r.2.2 = true) ∧ PAsome N r.1 ∧
        (PAany N cs → PAany N r.1) ∧ (PAall N cs → PAall N r.1)) ∧
    (∀ cs i es r o ch, acceptOr f cs i es = .ok r → names es = N → FrL o cs es → holdsL cs = [] → (lvSL cs).Nodup →
      (∀ n ∈ lvSL cs, o n = 0) → cs[i]? = some ch → PA N ch → (∀ p c0, cs[p]? = some c0 → p ≠ i → DeadS N c0) → TidyL cs →
      (∀ n ∈ N, n ∈ lvSL cs → n ∈ holdsL r.1) ∧ r.2.2 = some i ∧ ∃ ch', r.1 = cs.set i ch' ∧ PA N ch') := by
  intro f
  induction f with
  | zero =>
    exact ⟨fun _ _ _ _ h => by simp [acceptChoice] at h, fun _ _ _ _ h => by simp [acceptJoin] at h,
      fun _ _ _ _ _ _ h => by simp [acceptOr] at h⟩
  | succ f ih =>
    obtain ⟨ih1, ih2, ih3⟩ := ih
    refine ⟨?_, ?_, ?_⟩
    · intro t es r o h hnm hfr h0 hnd hout hpa htidy
      have hndn : (names es).Nodup := by rw [hnm]; exact nodup_of_sorted hN
      cases t with
      | simple n v im =>
        simp only [PA] at hpa
        have him : im = .no := by
          apply Classical.byContradiction; intro hne; simp [holds, hne] at h0
        subst him
        have hon : o n = 0 := hout n (by simp [lvS])
        have hman : markAt es n = .no := by
          have := hfr.1 n
          rw [hon, cnt_zero_of_nil h0] at this
          apply Classical.byContradiction; intro hne; simp [hne] at this
        obtain ⟨j, e, hj, he, hen⟩ := findEq_sorted n es 0 (by rw [hnm]; exact hN) (by rw [hnm]; exact hpa.1)
        simp only [Nat.zero_add] at hj
        have hem : e.mark = .no := by rw [← hman, ← hen]; exact (markAt_get es j e hndn he).symm
        simp only [acceptChoice, simpleAccept, hj, he, hem, if_true] at h
        cases h
        refine ⟨fun x _ hx => ?_, rfl, by simp only [PA]; exact hpa⟩
        simpa [lvS, holds] using hx
      | mult j v c c1 k cs =>
        obtain ⟨hc, hl⟩ := hfr
        simp only [Loc] at hl
        simp only [holds] at h0
        simp only [lvS] at hnd hout
        simp only [Tidy] at htidy
        cases j with
        | or =>
          simp only [PA] at hpa
          obtain ⟨hrk, hcne, hir, hone⟩ := hpa
          obtain ⟨ch, hch, hpach, hothers⟩ := PAone_spec cs _ hone
          simp only [acceptChoice, hcne, if_false, hir] at h
          obtain ⟨⟨cs', es', res⟩, h1, h2⟩ := bind_ok' h
          obtain ⟨hcov, hres, ch', hset, hpa'⟩ := ih3 cs _ es _ o ch h1 hnm ⟨hc, hl⟩ h0 hnd hout hch hpach hothers htidy.1
          simp only at hres hset
          subst hres
          subst hset
          cases h2
          refine ⟨fun n hn hx => by simp only [lvS] at hx; simp only [holds]; exact hcov n hn hx, rfl, ?_⟩
          have hilt : c.toNat < cs.length := (List.getElem?_eq_some_iff.mp hch).1
          have hcnn : (0 : Int) ≤ c := by
            unfold inRange at hir
            split at hir
            · rename_i hcond; exact hcond.1
            · cases hir
          have hcc : ((c.toNat : Nat) : Int) = c := Int.toNat_of_nonneg hcnn
          simp only [PA]
          rw [hcc]
          refine ⟨hrk, hcne, by rw [List.length_set]; exact hir, ?_⟩
          refine PAone_of _ _ ch' (by simp [hilt]) hpa' (fun p c0 hp hne => ?_)
          rw [List.getElem?_set_ne (fun e => hne e.symm)] at hp
          exact hothers p c0 hp hne
        | and =>
          simp only [PA] at hpa
          simp only [acceptChoice] at h
          obtain ⟨⟨cs', es', res⟩, h1, h2⟩ := bind_ok' h
          cases h2
          obtain ⟨hcov, hres, _, _, hall'⟩ := ih2 cs es _ o h1 hnm ⟨hc, hl⟩ h0 hnd hout (PAsome_of_all cs hpa.2.2) htidy.1
          have hlen : cs'.length = cs.length := by
            rw [← skelL_length cs', (accept_skel f).2.1 cs es _ h1, skelL_length]
          refine ⟨fun n hn hx => by simp only [lvS] at hx; simp only [holds]; exact hcov n hn hx,
            hres (PAany_of_all cs hpa.2.1 hpa.2.2), ?_⟩
          simp only [PA]
          exact ⟨hpa.1, ne_nil_of_len hlen hpa.2.1, hall' hpa.2.2⟩
        | andor =>
          simp only [PA] at hpa
          simp only [acceptChoice] at h
          obtain ⟨⟨cs', es', res⟩, h1, h2⟩ := bind_ok' h
          cases h2
          obtain ⟨hcov, hres, hsome', hany', _⟩ := ih2 cs es _ o h1 hnm ⟨hc, hl⟩ h0 hnd hout hpa.2.1 htidy.1
          refine ⟨fun n hn hx => by simp only [lvS] at hx; simp only [holds]; exact hcov n hn hx, hres hpa.2.2, ?_⟩
          simp only [PA]
          exact ⟨hpa.1, hsome', hany' hpa.2.2⟩
    -- ---------------------------------------------------------- JoinList::acceptChoice
    · intro cs es r o h hnm hfr h0 hnd hout hpa htidy
      cases cs with
      | nil =>
        simp only [acceptJoin] at h; cases h
        exact ⟨fun n _ hx => by simp [lvSL] at hx, (fun h' => by simp [PAany] at h'), trivial, (fun h' => h'), fun _ => trivial⟩
      | cons ch rest =>
        simp only [holdsL, List.append_eq_nil_iff] at h0
        simp only [lvSL] at hnd hout
        obtain ⟨n1, n2, dj⟩ := nodup_append_disj hnd
        simp only [PAsome] at hpa
        simp only [TidyL] at htidy
        have hf0 : Fr0 o es := fun x => by
          have := hfr.1 x
          have hz : cntL x (ch :: rest) = 0 := by simp [cntL, holdsL, h0.1, h0.2]
          rw [hz, Nat.add_zero] at this; exact this
        simp only [acceptJoin] at h
        obtain ⟨⟨ch', es1, r1⟩, h1, h2⟩ := ite_bind_ok h
        obtain ⟨⟨rest', es2, r2⟩, h3, h4⟩ := bind_ok' h2
        cases h4
        rcases hpa.1 with hpach | hdead
        · have hal := PA_als hpach
          simp only [hal, if_true] at h1
          have hfrc : Fr o ch es := Fr_of_H0 h0.1 hf0
          obtain ⟨hcov1, hb1, hpa1⟩ := ih1 ch es _ o h1 hnm hfrc h0.1 n1 (fun n hn => hout n (List.mem_append.mpr (Or.inl hn)))
            hpach htidy.1
          have P := (accept_marks N hN f).1 ch es _ o h1 hnm hfrc htidy.1 (Idle_of_H0 ch h0.1) (fun _ => hal)
          have hn1 : names es1 = N := by rw [(accept_names f).1 ch es _ h1]; exact hnm
          have hsk := (accept_skel f).1 ch es _ h1
          have hlv : lvS ch' = lvS ch := by rw [lvS_eq, lvS_eq, hsk]
          have hf1 : Fr0 (fun n => o n + cnt n ch') es1 := fun x => P.fr.1 x
          have hout1 : ∀ n ∈ lvSL rest, (fun n => o n + cnt n ch') n = 0 := by
            intro n hn
            have h0' : o n = 0 := hout n (List.mem_append.mpr (Or.inr hn))
            have hc0 : cnt n ch' = 0 := by
              apply List.count_eq_zero_of_not_mem
              intro hh
              have := holds_sub ch' n hh
              rw [hlv] at this
              exact dj n this hn
            show o n + cnt n ch' = 0
            omega
          obtain ⟨hcov2, hb2, hs2, ha2, hl2⟩ := ih2 rest es1 _ _ h3 hn1 (FrL_of_H0 h0.2 hf1) h0.2 n2 hout1 hpa.2 htidy.2
          refine ⟨fun n hn hx => ?_, (fun _ => by simp only at hb1; simp [hb1]), ⟨Or.inl hpa1, hs2⟩, fun _ => Or.inl hpa1,
            fun hall => ⟨hpa1, hl2 hall.2⟩⟩
          simp only [holdsL, List.mem_append]
          rcases List.mem_append.mp hx with e | e
          · exact Or.inl (hcov1 n hn e)
          · exact Or.inr (hcov2 n hn e)
        · have hnal : ch.atLeastSome = false := hdead.2
          simp only [hnal, Bool.false_eq_true, if_false] at h1
          cases h1
          obtain ⟨hcov2, hb2, hs2, ha2, hl2⟩ := ih2 rest es _ o h3 hnm (FrL_of_H0 h0.2 hf0) h0.2 n2
            (fun n hn => hout n (List.mem_append.mpr (Or.inr hn))) hpa.2 htidy.2
          refine ⟨fun n hn hx => ?_, fun hany => ?_, ⟨Or.inr hdead, hs2⟩, fun hany => ?_, fun hall => ?_⟩
          · simp only [holdsL, List.mem_append]
            rcases List.mem_append.mp hx with e | e
            · exact absurd hn (hdead.1 n e)
            · exact Or.inr (hcov2 n hn e)
          · simp only [PAany] at hany
            rcases hany with e | e
            · have := PA_als e; rw [hnal] at this; cases this
            · have := hb2 e; simp only at this; simp [this]
          · simp only [PAany] at hany
            rcases hany with e | e
            · have := PA_als e; rw [hnal] at this; cases this
            · exact Or.inr (ha2 e)
          · have := PA_als hall.1; rw [hnal] at this; cases this
    -- ---------------------------------------------------------- OrList::acceptChoice at the alive alternative
    · intro cs i es r o ch h hnm hfr h0 hnd hout hch hpach hothers htidy
      have hf0 : Fr0 o es := fun x => by
        have := hfr.1 x
        have hz : cntL x cs = 0 := by simp [cntL, h0]
        rw [hz, Nat.add_zero] at this; exact this
      have hal := PA_als hpach
      have hch0 : holds ch = [] := (holdsL_nil_iff cs).mp h0 ch (List.mem_of_getElem? hch)
      simp only [acceptOr, hch, hal, if_true] at h
      obtain ⟨⟨ch', es1, r1⟩, h1, h2⟩ := bind_ok' h
      have hndc : (lvS ch).Nodup := nodup_child hnd hch
      obtain ⟨hcov1, hb1, hpa1⟩ := ih1 ch es _ o h1 hnm (Fr_of_H0 hch0 hf0) hch0 hndc
        (fun n hn => hout n (lvS_sub_lvSL hch n hn)) hpach ((TidyL_iff cs).mp htidy ch (List.mem_of_getElem? hch))
      simp only at hb1
      subst hb1
      simp only [if_true] at h2
      cases h2
      refine ⟨fun n hn hx => ?_, rfl, ch', rfl, hpa1⟩
      obtain ⟨p, c0, hp, hnc⟩ := mem_lvSL hx
      by_cases hpi : p = i
      · subst hpi
        rw [hch] at hp; cases hp
        have hilt : p < cs.length := (List.getElem?_eq_some_iff.mp hch).1
        apply mem_holdsL.mpr
        exact ⟨ch', List.mem_of_getElem? (by simp [hilt] : (cs.set p ch')[p]? = some ch'), hcov1 n hn hnc⟩
      · exact absurd hn (hothers p c0 hp hpi n hnc)

end StepModel.Complex.Match

import StepModel.GenCxxLemmas
/-! The constructor model that carries the `_derive` / `_redefAttr` flags (`ctorNF`, `ctorWF`) builds the same
sequence of attribute descriptors on the head instance as the flag-free model (`ctorNoArg`, `ctorArgs`) about
which the Part 21 order theorems are stated. -/
namespace StepModel.GenCxx

/-- descriptors of a list of object ids -/
def descs (st : IState) (l : List Nat) : List SA := l.filterMap (saAt st)

/-- every id on the head list denotes an object -/
def HeadOK (st : IState) : Prop := ∀ id ∈ st.head, id < st.objs.length

/-- `st'` has the objects of `st` with the same descriptors (flags may differ), and possibly more -/
def Ext (st st' : IState) : Prop :=
  st.objs.length ≤ st'.objs.length ∧ ∀ id, id < st.objs.length → saAt st' id = saAt st id

theorem Ext.refl (st : IState) : Ext st st := ⟨Nat.le_refl _, fun _ _ => rfl⟩

theorem Ext.trans {a b c : IState} (h1 : Ext a b) (h2 : Ext b c) : Ext a c :=
  ⟨Nat.le_trans h1.1 h2.1, fun id h => by rw [h2.2 id (Nat.lt_of_lt_of_le h h1.1), h1.2 id h]⟩

theorem descs_ext {st st' : IState} (h : Ext st st') (l : List Nat) (hl : ∀ id ∈ l, id < st.objs.length) :
    descs st' l = descs st l := by
  unfold descs
  induction l with
  | nil => rfl
  | cons x xs ih =>
    rw [List.filterMap_cons, List.filterMap_cons, h.2 x (hl x (by simp)), ih (fun id hid => hl id (by simp [hid]))]

/-! ### flag updates keep descriptors -/

theorem modAt_length (l : List Obj) (i : Nat) (f : Obj → Obj) : (modAt l i f).length = l.length := by
  simp [modAt]

theorem modAt_sa (l : List Obj) (i : Nat) (f : Obj → Obj) (hf : ∀ o, (f o).sa = o.sa) (j : Nat) :
    ((modAt l i f)[j]?).map (·.sa) = (l[j]?).map (·.sa) := by
  unfold modAt
  rw [List.getElem?_map, List.getElem?_zipIdx]
  cases h : l[j]? with
  | none => simp
  | some o =>
    simp only [Option.map_some]
    split <;> simp [hf]

theorem ext_setDerive (st : IState) (id : Nat) : Ext st (setDerive st id) :=
  ⟨by simp [setDerive, modAt_length], fun j _ => by simp only [saAt, setDerive]; exact modAt_sa st.objs id (fun o => { o with derive := true }) (fun _ => rfl) j⟩

theorem ext_setRedef (st : IState) (id : Nat) : Ext st (setRedef st id) :=
  ⟨by simp [setRedef, modAt_length], fun j _ => by simp only [saAt, setRedef]; exact modAt_sa st.objs id (fun o => { o with redef := true }) (fun _ => rfl) j⟩

theorem saAt_setDerive (st : IState) (id j : Nat) : saAt (setDerive st id) j = saAt st j := by
  simp only [saAt, setDerive]; exact modAt_sa st.objs id (fun o => { o with derive := true }) (fun _ => rfl) j
theorem saAt_setRedef (st : IState) (id j : Nat) : saAt (setRedef st id) j = saAt st j := by
  simp only [saAt, setRedef]; exact modAt_sa st.objs id (fun o => { o with redef := true }) (fun _ => rfl) j

/-- what one construction step may do to the state: same head descriptors transformed by `g`, ids stay valid -/
structure Eff (st st' : IState) (g : List SA → List SA) : Prop where
  ok : HeadOK st'
  ext : Ext st st'
  head : descs st' st'.head = g (descs st st.head)

theorem eff_setDerive (st : IState) (h : HeadOK st) (id : Nat) : Eff st (setDerive st id) (fun d => d) :=
  { ok := by intro j hj; simp only [setDerive, modAt_length]; exact h j hj
    ext := ext_setDerive st id
    head := by
      show descs (setDerive st id) st.head = descs st st.head
      exact descs_ext (ext_setDerive st id) _ h }

theorem eff_setRedef (st : IState) (h : HeadOK st) (id : Nat) : Eff st (setRedef st id) (fun d => d) :=
  { ok := by intro j hj; simp only [setRedef, modAt_length]; exact h j hj
    ext := ext_setRedef st id
    head := by
      show descs (setRedef st id) st.head = descs st st.head
      exact descs_ext (ext_setRedef st id) _ h }

theorem Eff.comp {a b c : IState} {g h : List SA → List SA} (e1 : Eff a b g) (e2 : Eff b c h) :
    Eff a c (fun d => h (g d)) :=
  { ok := e2.ok, ext := e1.ext.trans e2.ext, head := by rw [e2.head, e1.head] }

theorem applyDerived_eff (calls : List (String × String)) (st : IState) (h : HeadOK st) (l : List Nat) :
    Eff st (applyDerived st l calls) (fun d => d) := by
  unfold applyDerived
  induction calls generalizing st with
  | nil => exact ⟨h, Ext.refl st, rfl⟩
  | cons c cs ih =>
    simp only [List.foldl_cons]
    cases hf : findAttr st l c.1 (some c.2) with
    | none => exact ih st h
    | some id =>
      have e1 := eff_setDerive st h id
      have e2 := ih (setDerive st id) e1.ok
      exact e1.comp e2

/-! ### pushing a fresh object -/

theorem any_iff_contains (st : IState) (l : List Nat) (a : SA) :
    l.any (fun j => saAt st j == some a) = (descs st l).contains a := by
  unfold descs
  induction l with
  | nil => rfl
  | cons x xs ih =>
    rw [List.any_cons, ih, List.filterMap_cons]
    cases hx : saAt st x with
    | none => simp
    | some b =>
      simp only [List.contains_cons]
      congr 1
      by_cases hb : b = a
      · simp [hb]
      · have hab : ¬ a = b := fun h => hb h.symm
        have h1 : (b == a) = false := by simpa using hb
        have h2 : (a == b) = false := by simpa using hab
        simp [h1, h2]

theorem ownStep_eff (ro : Attr → Option String) (e : Entity) (p : IState × Option (List Nat)) (a : Attr) (h : HeadOK p.1) :
    Eff p.1 (ownStep ro e p a).1
      (fun d => ins d { owner := e.name, name := dictAttrName a, kind := attrDKind a }) := by
  obtain ⟨st, cur⟩ := p
  simp only at h
  let sa : SA := { owner := e.name, name := dictAttrName a, kind := attrDKind a }
  let st1 : IState := { st with objs := st.objs ++ [{ sa := sa }] }
  have hext1 : Ext st st1 := by
    refine ⟨by simp [st1], ?_⟩
    intro j hj
    simp only [saAt, st1]
    rw [List.getElem?_append_left hj]
  have hid : saAt st1 st.objs.length = some sa := by
    simp [saAt, st1]
  let st2 : IState := { st1 with head := pushId st1 st1.head st.objs.length }
  have hd1 : descs st1 st.head = descs st st.head := descs_ext hext1 _ h
  have hhead2 : descs st2 st2.head = ins (descs st st.head) sa := by
    show descs st1 (pushId st1 st.head st.objs.length) = _
    unfold pushId ins
    rw [hid, any_iff_contains, hd1]
    cases hc : (descs st st.head).contains sa with
    | true => simp only [↓reduceIte]; exact hd1
    | false =>
      simp only [Bool.false_eq_true, ↓reduceIte]
      unfold descs
      rw [List.filterMap_append]
      have h1 : List.filterMap (saAt st1) st.head = List.filterMap (saAt st) st.head := hd1
      rw [h1]; simp [hid]
  have hok2 : HeadOK st2 := by
    intro j hj
    show j < (st.objs ++ [({ sa := sa } : Obj)]).length
    have : j ∈ pushId st1 st.head st.objs.length := hj
    unfold pushId at this
    split at this
    · have := h j this; simp; omega
    · rcases List.mem_append.mp this with h1 | h1
      · have := h j h1; simp; omega
      · simp at h1; simp [h1]
  have e2 : Eff st st2 (fun d => ins d sa) := ⟨hok2, hext1, hhead2⟩
  show Eff st (ownStep ro e (st, cur) a).1 (fun d => ins d sa)
  unfold ownStep
  simp only [IState.newObj]
  by_cases hr : a.redecl.isSome = true
  · simp only [hr, ↓reduceIte]
    split
    · rename_i j _
      have := e2.comp (eff_setRedef st2 hok2 j)
      exact this
    · exact e2
  · simp only [hr]
    exact e2

theorem ownLoop_eff (ro : Attr → Option String) (e : Entity) (st : IState) (cur : Option (List Nat)) (h : HeadOK st) :
    Eff st (ownLoop ro e st cur).1 (fun d => insAll d (ownSAs e)) := by
  unfold ownLoop ownSAs
  generalize e.attrs.filter (fun a => a.kind == .explicit) = l
  induction l generalizing st cur with
  | nil => exact ⟨h, Ext.refl st, rfl⟩
  | cons a as ih =>
    simp only [List.foldl_cons, List.map_cons]
    have e1 := ownStep_eff ro e (st, cur) a h
    have e2 := ih (ownStep ro e (st, cur) a).1 (ownStep ro e (st, cur) a).2 e1.ok
    have := e1.comp e2
    simpa [insAll_cons] using this

/-! ### the constructors -/

theorem ctorWF_succ (s : Schema) (f : Nat) (n : String) (st : IState) (cur : List Nat) :
    ctorWF s (f + 1) n st cur =
      match s.findE n with
      | none => (st, cur)
      | some e =>
        let p1 := match e.supers with
          | [] => (st, cur)
          | p :: _ => ctorWF s f p st cur
        let st2 := e.supers.tail.foldl (fun st q => (ctorWF s f q st []).1) p1.1
        let r := ownLoop (redefOwner s) e st2 (some p1.2)
        let l := r.2.getD []
        (applyDerived r.1 l (derivedCalls s n), l) := rfl

theorem ctorNF_succ (s : Schema) (f : Nat) (n : String) (st : IState) :
    ctorNF s (f + 1) n st =
      match s.findE n with
      | none => st
      | some e =>
        let st1 := match e.supers with
          | [] => st
          | p :: _ => ctorNF s f p st
        let st2 := e.supers.tail.foldl (fun st q => (ctorWF s f q st []).1) st1
        let r := ownLoop (redefOwner s) e st2 none
        applyDerived r.1 r.1.head (derivedCalls s n) := rfl

theorem fold_parts_eff (s : Schema) (f : Nat)
    (ih : ∀ n st cur, HeadOK st → Eff st (ctorWF s f n st cur).1 (ctorArgs s f n))
    (L : List String) (st : IState) (h : HeadOK st) :
    Eff st (L.foldl (fun st q => (ctorWF s f q st []).1) st)
      (fun d => L.foldl (fun acc sup => ctorArgs s f sup acc) d) := by
  induction L generalizing st with
  | nil => exact ⟨h, Ext.refl st, rfl⟩
  | cons q qs ihL =>
    simp only [List.foldl_cons]
    have e1 := ih q st [] h
    have e2 := ihL _ e1.ok
    exact e1.comp e2

theorem ctorWF_eff (s : Schema) (f : Nat) :
    ∀ n st cur, HeadOK st → Eff st (ctorWF s f n st cur).1 (ctorArgs s f n) := by
  induction f with
  | zero => intro n st cur h; exact ⟨h, Ext.refl st, rfl⟩
  | succ f ih =>
    intro n st cur h
    rw [ctorWF_succ]
    cases hE : s.findE n with
    | none =>
      have : ctorArgs s (f + 1) n = fun d => d := by funext d; rw [ctorArgs_succ, hE]
      rw [this]; exact ⟨h, Ext.refl st, rfl⟩
    | some e =>
      simp only
      have hargs : ctorArgs s (f + 1) n = fun d =>
          insAll (e.supers.foldl (fun acc sup => ctorArgs s f sup acc) d) (ownSAs e) := by
        funext d; rw [ctorArgs_succ, hE]
      rw [hargs]
      cases hs : e.supers with
      | nil =>
        simp only [List.tail_nil, List.foldl_nil]
        have e1 := ownLoop_eff (redefOwner s) e st (some cur) h
        have e2 := applyDerived_eff (derivedCalls s n) _ e1.ok ((ownLoop (redefOwner s) e st (some cur)).2.getD [])
        exact e1.comp e2
      | cons p ps =>
        simp only [List.tail_cons, List.foldl_cons]
        have e0 := ih p st cur h
        have e1 := fold_parts_eff s f ih ps _ e0.ok
        have e2 := ownLoop_eff (redefOwner s) e _ (some (ctorWF s f p st cur).2) e1.ok
        have e3 := applyDerived_eff (derivedCalls s n) _ e2.ok
          ((ownLoop (redefOwner s) e (ps.foldl (fun st q => (ctorWF s f q st []).1) (ctorWF s f p st cur).1)
            (some (ctorWF s f p st cur).2)).2.getD [])
        exact ((e0.comp e1).comp e2).comp e3

theorem ctorNF_eff (s : Schema) (f : Nat) :
    ∀ n st, HeadOK st → Eff st (ctorNF s f n st) (ctorArgs s f n) := by
  induction f with
  | zero => intro n st h; exact ⟨h, Ext.refl st, rfl⟩
  | succ f ih =>
    intro n st h
    rw [ctorNF_succ]
    cases hE : s.findE n with
    | none =>
      have : ctorArgs s (f + 1) n = fun d => d := by funext d; rw [ctorArgs_succ, hE]
      rw [this]; exact ⟨h, Ext.refl st, rfl⟩
    | some e =>
      simp only
      have hargs : ctorArgs s (f + 1) n = fun d =>
          insAll (e.supers.foldl (fun acc sup => ctorArgs s f sup acc) d) (ownSAs e) := by
        funext d; rw [ctorArgs_succ, hE]
      rw [hargs]
      cases hs : e.supers with
      | nil =>
        simp only [List.tail_nil, List.foldl_nil]
        have e1 := ownLoop_eff (redefOwner s) e st none h
        have e2 := applyDerived_eff (derivedCalls s n) _ e1.ok (ownLoop (redefOwner s) e st none).1.head
        exact e1.comp e2
      | cons p ps =>
        simp only [List.tail_cons, List.foldl_cons]
        have e0 := ih p st h
        have e1 := fold_parts_eff s f (ctorWF_eff s f) ps _ e0.ok
        have e2 := ownLoop_eff (redefOwner s) e _ none e1.ok
        have e3 := applyDerived_eff (derivedCalls s n) _ e2.ok
          (ownLoop (redefOwner s) e (ps.foldl (fun st q => (ctorWF s f q st []).1) (ctorNF s f p st)) none).1.head
        exact ((e0.comp e1).comp e2).comp e3

end StepModel.GenCxx

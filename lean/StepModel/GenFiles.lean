import StepModel.Generated.ScannerGen
import StepModel.ExpressHash
/-!
# Which files the build-time scanner lists and which files exp2cxx writes  (C17; order/text also used by C12)

Declaration-level view of an EXPRESS file after `EXPRESSresolve` — exactly what both programs look at:
per schema the content of `sch->symbol_table` (entities, defined types with the kind of their resolved body and
whether they have a `head`, and everything else: functions, procedures, rules, constants).

* `Scanner.*`  — `cmake/schema_scanner/schemaScanner.cc`: `notGenerated`, `printSchemaFilenames`, `makeShortName`,
  `writeLists`, `main` (one CMakeLists.txt per schema, written to `<cwd>/<short name>/`).
* `Cxx.*`      — `src/exp2cxx`: `print_file_header`/`print_file` (fixed files), `SCHEMAprint` (per pass, with its
  `snprintf(…, MAX_LEN, …)` truncation and `char[MAX_LEN+1]` buffers), `initUnityFiles`, `SCOPEPrint`'s three type loops,
  `TYPEprint_descriptions`, `TYPEget_RefTypeVarNm`, `TYPEselect_print`, `TYPEPrint`, `ENTITYPrint`.
* `typeFile`/`entityFile` — `genCxxFilenames.c` + `class_strings.c` (`ClassName`, `TypeName`, `TYPE_get_ctype`), the code
  shared by both programs.

The case lists, prefixes, directory/extension formats, fixed names and `MAX_LEN` come from `Generated.Scanner`
(re-extracted from the source on every run).  Not modelled: `print_schemas_separate`'s decision *how many passes*
a schema needs (multpass.c `checkTypes/checkEnts`); the pass list is a parameter, and `Cxx.passes` gives it only for files
in which no schema has a USE/REFERENCE clause (`foreign = false` on every declaration: nothing can depend on an
enumeration/select/supertype of another schema, the only reason multpass.c defers a declaration), where every schema
is printed once with suffix 0.
-/
namespace StepModel.GenFiles
open StepModel.Generated.Scanner

structure TypeDecl where
  name : String          -- identifier as stored by the lexer (lower case) = dictionary key
  kind : TypeKind        -- TYPEget_body(t)->type
  hasHead : Bool         -- TYPEget_head(t) != NULL  (the underlying type is another defined type)
  foreign : Bool := false
  deriving Repr, DecidableEq

structure EntityDecl where
  name : String
  foreign : Bool := false
  deriving Repr, DecidableEq

inductive Decl where
  | entity (e : EntityDecl)
  | type (t : TypeDecl)
  | other (name : String)       -- OBJ_FUNCTION / OBJ_PROCEDURE / OBJ_RULE / OBJ_VARIABLE (constants) …
  deriving Repr, DecidableEq

/-- `decls` in `DICTdo` order of `sch->symbol_table` -/
structure Schema where
  name : String
  decls : List Decl
  deriving Repr

/-- `schemas` in `DICTdo` order of `model->symbol_table`; `path` = argv[1] as given -/
structure SchemaFile where
  path : String
  schemas : List Schema
  deriving Repr

def Schema.types (s : Schema) : List TypeDecl := s.decls.filterMap fun | .type t => some t | _ => none
def Schema.entities (s : Schema) : List EntityDecl := s.decls.filterMap fun | .entity e => some e | _ => none

/-! ## shared naming code (class_strings.c, genCxxFilenames.c) -/

def strToUpper (s : String) : String := String.ofList (s.toList.map Char.toUpper)   -- ToUpper: islower → toupper ("C" locale, ASCII)
def strToLower (s : String) : String := String.ofList (s.toList.map Char.toLower)

/-- `ClassName`: prefix, first character upper, rest lower.  (The C reads past the terminator for an empty name;
    the parser never produces one.) -/
def className (old : String) : String :=
  match old.toList with
  | [] => typePrefix
  | c :: cs => typePrefix ++ String.ofList (c.toUpper :: cs.map Char.toLower)

/-- `TypeName` for a named type: prefix ++ `FirstToUpper(name)` -/
def typeName (name : String) : String :=
  match name.toList with
  | [] => typePrefix
  | c :: cs => typePrefix ++ String.ofList (c.toUpper :: cs)

/-- `TYPEget_ctype` for the two kinds that ever reach `getTypeFilenames`; every other kind yields a fixed class
    name or an aggregate name that depends on the base type, which no caller modelled here uses for a file. -/
def ctype (t : TypeDecl) : String :=
  if t.kind == .enumeration_ then typeName t.name ++ "_var"
  else if t.kind == .select_ then typeName t.name
  else "SCLundefined"

def typeHeader (t : TypeDecl) : String := typeHeaderDir ++ "/" ++ ctype t ++ typeHeaderExt
def typeImpl (t : TypeDecl) : String := typeImplDir ++ "/" ++ ctype t ++ typeImplExt
def entityHeader (e : EntityDecl) : String := entityHeaderDir ++ "/" ++ className e.name ++ entityHeaderExt
def entityImpl (e : EntityDecl) : String := entityImplDir ++ "/" ++ className e.name ++ entityImplExt

/-! ## the scanner -/
namespace Scanner

/-- `notGenerated(t)` as a function of the body kind and of `TYPEget_head(t) != NULL` -/
def notGeneratedKind (k : TypeKind) (head : Bool) : Bool :=
  notGeneratedCases.contains k || (notGeneratedRenamed.contains k && head)

/-- the OBJ_TYPE case of `printSchemaFilenames`: is the type listed? -/
def listsKind (k : TypeKind) (head : Bool) : Bool :=
  if scannerSkipRenamed.contains k && head then false
  else if notGeneratedKind k head then false
  else true

def notGenerated (t : TypeDecl) : Bool := notGeneratedKind t.kind t.hasHead
def listsType (t : TypeDecl) : Bool := listsKind t.kind t.hasHead

/-- position of the last `c` in `s` (`string::rfind`) -/
def rfind (s : List Char) (c : Char) : Option Nat :=
  let idx := (s.zipIdx.filter (fun p => p.1 == c)).map (·.2)
  idx.getLast?

/-- first occurrence of `pat` in `s` (`string::find`) -/
def findSub (s pat : List Char) : Option Nat :=
  (List.range (s.length + 1)).find? fun i => pat.isPrefixOf (s.drop i)

/-- `makeShortName(longName)` with `input_filename = path` -/
def makeShortName (path longName : String) : String :=
  let p := path.toList
  let filename0 := match rfind p '/' with | some sl => p.drop (sl + 1) | none => p
  let filename1 := match rfind filename0 '.' with | some d => filename0.take d | none => filename0
  let dirname0 := match rfind p '/' with | some sl => p.take sl | none => p
  let dat := "data".toList
  let dirname1 : List Char :=
    match findSub dirname0 dat with
    | none => []
    | some i =>
      -- `dirname[data + strlen(dat)] != slash` (index = size reads the terminator, which is not a slash)
      if dirname0.getD (i + dat.length) '\x00' != '/' then []
      else match rfind dirname0 '/' with
        | some sl => dirname0.drop (sl + 1)
        | none => dirname0        -- rfind = npos, npos + 1 = 0: erase(0, 0)
  let filename2 := if dirname1.length > 2 && dirname1.length < filename1.length then dirname1 else filename1
  let filename3 := if longName.toList.length < filename2.length then longName.toList else filename2
  "sdai_" ++ String.ofList filename3

/-- `std::left << std::setw(w) << s << " "` -/
def cell (s : String) : String := s ++ String.ofList (List.replicate (colWidth - s.length) ' ') ++ " "

/-- one of the four string streams of `printSchemaFilenames` -/
def column (names : List String) : String :=
  let rec go (i : Nat) : List String → String
    | [] => ""
    | n :: rest => cell n ++ (if (i + 1) % numColumns == 0 then "\n" ++ tab else "") ++ go (i + 1) rest
  tab ++ go 0 names

structure CMake where
  schemaName : String
  shortName : String        -- directory below cwd, PROJECT() name, library target name
  entityHdrs : List String
  entityImpls : List String
  typeHdrs : List String
  typeImpls : List String
  miscHdrs : List String
  miscImpls : List String
  unityEntityImpl : String
  unityTypeImpl : String
  text : String             -- bytes of CMakeLists.txt
  deriving Repr

/-- the short name `writeLists` uses, given the number of schemas in the input file: with `perSchema` (fix C17-3) a file that
    holds several schemas gives each of them its schema name -/
def shortNameIn (perSchema : Bool) (nSchemas : Nat) (path longName : String) : String :=
  if perSchema && nSchemas > 1 then "sdai_" ++ longName else makeShortName path longName

/-- `printSchemaFilenames(sch)` + `writeLists`; `nSchemas` = the number of schemas in the file (it only enters the short name) -/
def cmake (path : String) (s : Schema) (nSchemas : Nat := 1) (perSchema : Bool := shortNamePerSchema) : CMake :=
  let ents := s.entities
  let tys := s.types.filter listsType
  let up := strToUpper s.name
  let short := shortNameIn perSchema nSchemas path s.name
  let eh := ents.map entityHeader
  let ei := ents.map entityImpl
  let th := tys.map typeHeader
  let ti := tys.map typeImpl
  { schemaName := s.name, shortName := short, entityHdrs := eh, entityImpls := ei, typeHdrs := th, typeImpls := ti,
    miscHdrs := miscHdrs up, miscImpls := miscImpls up, unityEntityImpl := unityEntityImpl up,
    unityTypeImpl := unityTypeImpl up,
    text := renderCMakeLists s.name short up path (column eh) (column ei) (column th) (column ti) ents.length tys.length }

/-- every file name the build description mentions (headers to install, sources to compile in either build mode) -/
def CMake.listed (c : CMake) : List String :=
  c.entityHdrs ++ c.typeHdrs ++ c.miscHdrs ++ c.entityImpls ++ c.typeImpls ++ c.miscImpls ++ [c.unityEntityImpl, c.unityTypeImpl]

/-- the file system effect of `main`: for every schema, in order, (re)write `<short>/CMakeLists.txt`; a later
    write to the same path replaces the earlier one.  Result: final content per directory, and stdout lines. -/
def runWith (perSchema skipCodeless : Bool) (f : SchemaFile) : List (String × CMake) × List String :=
  -- a schema whose dictionary holds neither a type (of any kind) nor an entity is left out when `skipCodeless` (fix C17-4)
  let described := f.schemas.filter fun s => !(skipCodeless && s.entities.isEmpty && s.types.isEmpty)
  let cs := described.map fun s => cmake f.path s f.schemas.length perSchema
  let final := cs.foldl (fun acc c => (acc.filter (fun p => p.1 != c.shortName)) ++ [(c.shortName, c)]) []
  (final, cs.map (·.shortName))

/-- … as the tree does it (both switches regenerated) -/
def run (f : SchemaFile) : List (String × CMake) × List String := runWith shortNamePerSchema skipsCodelessSchemas f

end Scanner

/-! ## exp2cxx -/
namespace Cxx

/-- does `TYPEprint_descriptions(t)` reach `TYPEPrint(t)`?  Renamed enumerations return early; otherwise
    `!TYPEget_RefTypeVarNm(t) && TYPEis_enumeration(t)`.  `TYPEget_RefTypeVarNm` is 1 for every type with a head and
    0 for head-less types of the kinds in `refTypeNone` (for aggregates it may also be 0 — irrelevant, they are not
    of kind `descrPrintKind`). -/
def descriptionsPrints (k : TypeKind) (head : Bool) : Bool :=
  if k == descrRenamedReturn && head then false
  else (!head && refTypeNone.contains k) && k == descrPrintKind

/-- does the first `TYPEselect_print(t)` reach `TYPEPrint(t)`?  A renamed select only gets typedefs. -/
def selectPrints (head : Bool) : Bool := !head

/-- first type loop of SCOPEPrint visits every CANPROCESS type except renamed enumerations -/
def loop1Visits (k : TypeKind) (head : Bool) : Bool := !(k == loop1ExcludeRenamed && head)
/-- … and marks it PROCESSED unless it is a select -/
def loop1Processed (k : TypeKind) (head : Bool) : Bool := loop1Visits k head && k != loop1KeepForLater

/-- `TYPEPrint(t)` is executed for `t` during SCOPEPrint (all types CANPROCESS on entry; every select is handed to
    `TYPEselect_print` once — by the third loop or earlier by recursion from another select, the clientData mark
    makes later calls return at once). -/
def createsKind (k : TypeKind) (head : Bool) : Bool :=
  (loop1Visits k head && descriptionsPrints k head) ||
  (!loop1Processed k head &&
    ((k == loop3SelectKind && selectPrints head) || (k == loop3DescrKind && descriptionsPrints k head)))

def typeCreates (t : TypeDecl) : Bool := createsKind t.kind t.hasHead

def typeFiles (s : Schema) : List String :=
  (s.types.filter typeCreates).flatMap fun t => [typeHeader t, typeImpl t]

def entityFiles (s : Schema) : List String :=
  s.entities.flatMap fun e => [entityHeader e, entityImpl e]

/-- `snprintf(buf, n, …)`: at most n-1 characters are stored -/
def snprintfN (n : Nat) (s : String) : String := String.ofList (s.toList.take (n - 1))

structure PassFiles where
  inc : String            -- Sdai<S>[_k].h
  lib : String            -- Sdai<S>[_k].cc
  names : String          -- Sdai<S>Names.h
  init : Option String    -- Sdai<S>.init.cc (created on the first pass, appended to later)
  unityEntImpl : String
  unityEntHdr : String
  unityTypeImpl : String
  unityTypeHdr : String
  deriving Repr

/-- the files the build has to be told about … -/
def PassFiles.listedPart (p : PassFiles) : List String :=
  [p.inc, p.lib, p.names] ++ p.init.toList ++ [p.unityEntImpl, p.unityTypeImpl]
/-- … and the two that are only `#include`d by the unity sources -/
def PassFiles.includedOnly (p : PassFiles) : List String := [p.unityEntHdr, p.unityTypeHdr]

/-- `name.resize( name.length() - 2 ); name.append( "h" )` -/
def ccToH (s : String) : String := String.ofList (s.toList.take (s.length - 2)) ++ "h"

/-- `SCHEMAprint(schema, …, suffix)`: file names.  `none` = not reached: `print_file` refuses the whole input
    (exit 1, before any file is created) when an identifier is longer than `MAX_IDENT_LEN`; so `StrToUpper`'s own stop
    at MAX_LEN characters is never exercised and `schnm` is built from the full upper-cased name. -/
def schemaPass (s : Schema) (suffix : Nat) : Option PassFiles :=
  if s.name.length > maxIdentLen then none else
  let schnm := snprintfN maxLen (schemaFilePrefix ++ strToUpper s.name)
  let sufnm := if suffix == 0 then snprintfN maxLen schnm else snprintfN maxLen (schnm ++ "_" ++ toString suffix)
  let inc := snprintfN maxLen (sufnm ++ ".h")
  -- `np = fnm + strlen(fnm) - 1; sprintf(np, "cc")`: the last character of the (possibly truncated) name is replaced
  let lib := String.ofList (inc.toList.take (inc.length - 1)) ++ "cc"
  let uE := sufnm ++ "_unity_" ++ "entities.cc"
  let uT := sufnm ++ "_unity_" ++ "types.cc"
  some { inc := inc, lib := lib, names := snprintfN maxLen (schnm ++ "Names.h"),
         init := if suffix ≤ 1 then some (snprintfN maxLen (schnm ++ ".init.cc")) else none,
         unityEntImpl := uE, unityEntHdr := ccToH uE, unityTypeImpl := uT, unityTypeHdr := ccToH uT }

/-- what multpass.c does for files without cross-schema dependencies: a schema that has at least one type or entity
    is printed once, with suffix 0; a schema with neither is **not printed at all** (`if( val1 || val2 )`: checkTypes
    and checkEnts find nothing to process).  `none`: some schema has an interface clause — pass structure not modelled. -/
def passes (f : SchemaFile) : Option (Schema → List Nat) :=
  if f.schemas.all (fun s => s.decls.all fun | .type t => !t.foreign | .entity e => !e.foreign | .other _ => true)
  then some fun s => if s.types.isEmpty && s.entities.isEmpty then [] else [0]
  else none

def declName : Decl → String
  | .entity e => e.name | .type t => t.name | .other n => n

/-- `check_identifier_lengths`: every schema and declaration name (attributes and enumeration items are below the
    level of this model) has at most `MAX_IDENT_LEN` characters -/
def accepts (f : SchemaFile) : Bool :=
  f.schemas.all fun s => s.name.length ≤ maxIdentLen && s.decls.all fun d => (declName d).length ≤ maxIdentLen

/-- all-or-nothing sequencing of outcomes (`none` = undefined behaviour somewhere) -/
def allSome {α : Type} : List (Option α) → Option (List α)
  | [] => some []
  | none :: _ => none
  | some a :: r => (allSome r).map (a :: ·)

/-- everything exp2cxx creates for one schema, given the suffixes SCHEMAprint was called with: the per-pass files the
    build must know, the per-type and per-entity files, and the unity headers that are only `#include`d -/
def schemaAll (s : Schema) (sufs : List Nat) : Option (List String) :=
  match allSome (sufs.map (schemaPass s)) with
  | some ps => some (ps.flatMap PassFiles.listedPart ++ typeFiles s ++ entityFiles s ++ ps.flatMap PassFiles.includedOnly)
  | none => none

/-- everything exp2cxx creates in its working directory for the file; `none` = the input is refused (exit 1) -/
def created (f : SchemaFile) (sufs : Schema → List Nat) : Option (List String) :=
  if !accepts f then none else
  match allSome (f.schemas.map fun s => schemaAll s (sufs s)) with
  | some l => some (fixedFiles ++ l.flatten)
  | none => none

end Cxx

/-- kinds the body of a TYPE declaration can have in a schema accepted by libexpress (the seven simple types, the
    four concrete aggregates, ENUMERATION, SELECT; `TYPE t = some_entity` is rejected: PE061) -/
def definedTypeKinds : List TypeKind :=
  [.integer_, .real_, .string_, .binary_, .boolean_, .logical_, .number_, .array_, .bag_, .set_, .list_,
   .enumeration_, .select_]

def Schema.wf (s : Schema) : Prop := ∀ t ∈ s.types, t.kind ∈ definedTypeKinds

end StepModel.GenFiles

import StepModel.ComplexMatch
/-! Lemmas behind `Props/C08.lean`: the request list built by `EntNode::EntNode( const char ** )` is the strictly
ascending list of the distinct names, whatever order (and however often) they were given. -/
namespace StepModel.Complex.Match
open StepModel.Complex

theorem mem_ins (n x : Nat) (l : List Nat) : x ∈ ins n l ↔ x = n ∨ x ∈ l := by
  induction l with
  | nil => simp [ins]
  | cons a as ih =>
    unfold ins
    split
    · simp [ih]; constructor
      · rintro (h | h | h) <;> simp [h]
      · rintro (h | h | h) <;> simp [h]
    · split
      · rename_i h1 h2; subst h2; simp
      · simp

theorem sorted_ins (n : Nat) (l : List Nat) (h : l.Pairwise (· < ·)) : (ins n l).Pairwise (· < ·) := by
  induction l with
  | nil => simp [ins]
  | cons a as ih =>
    have ha := List.pairwise_cons.mp h
    by_cases h1 : a < n
    · have e : ins n (a :: as) = a :: ins n as := by simp [ins, h1]
      rw [e]
      refine List.pairwise_cons.mpr ⟨?_, ih ha.2⟩
      intro y hy
      rcases (mem_ins n y as).mp hy with h3 | h3
      · subst h3; exact h1
      · exact ha.1 y h3
    · by_cases h2 : a = n
      · have e : ins n (a :: as) = a :: as := by simp [ins, h2]
        rw [e]; exact h
      · have e : ins n (a :: as) = n :: a :: as := by simp [ins, h1, h2]
        rw [e]
        have hlt : n < a := by omega
        refine List.pairwise_cons.mpr ⟨?_, h⟩
        intro y hy
        rcases List.mem_cons.mp hy with h3 | h3
        · subst h3; exact hlt
        · have h4 : a < y := ha.1 y h3
          show n < y
          omega

def insAll (acc : List Nat) (xs : List Nat) : List Nat := xs.foldl (fun a x => ins x a) acc

theorem mem_insAll (xs : List Nat) : ∀ (acc : List Nat) (x : Nat), x ∈ insAll acc xs ↔ x ∈ acc ∨ x ∈ xs := by
  induction xs with
  | nil => intro acc x; simp [insAll]
  | cons y ys ih =>
    intro acc x
    have := ih (ins y acc) x
    simp only [insAll, List.foldl_cons] at this ⊢
    rw [this, mem_ins]
    simp only [List.mem_cons]
    constructor
    · rintro ((h | h) | h) <;> simp [h]
    · rintro (h | h | h) <;> simp [h]

theorem sorted_insAll (xs : List Nat) : ∀ (acc : List Nat), acc.Pairwise (· < ·) → (insAll acc xs).Pairwise (· < ·) := by
  induction xs with
  | nil => intro acc h; simpa [insAll] using h
  | cons y ys ih =>
    intro acc h
    have := ih (ins y acc) (sorted_ins y acc h)
    simpa [insAll] using this

theorem mem_mkNames (xs : List Nat) (x : Nat) : x ∈ mkNames xs ↔ x ∈ xs := by
  cases xs with
  | nil => simp [mkNames]
  | cons n ns =>
    have := mem_insAll ns [n] x
    simpa [mkNames, insAll] using this

theorem sorted_mkNames (xs : List Nat) : (mkNames xs).Pairwise (· < ·) := by
  cases xs with
  | nil => simp [mkNames]
  | cons n ns =>
    have := sorted_insAll ns [n] (by simp)
    simpa [mkNames, insAll] using this

/-- strictly ascending lists with the same members are equal -/
theorem sorted_ext : ∀ (l₁ l₂ : List Nat), l₁.Pairwise (· < ·) → l₂.Pairwise (· < ·) →
    (∀ x, x ∈ l₁ ↔ x ∈ l₂) → l₁ = l₂
  | [], [], _, _, _ => rfl
  | [], b :: bs, _, _, h => by have := (h b).mpr (by simp); simp at this
  | a :: as, [], _, _, h => by have := (h a).mp (by simp); simp at this
  | a :: as, b :: bs, h1, h2, h => by
    have ha := List.pairwise_cons.mp h1
    have hb := List.pairwise_cons.mp h2
    have hab : a = b := by
      have m1 : a ∈ b :: bs := (h a).mp (by simp)
      have m2 : b ∈ a :: as := (h b).mpr (by simp)
      rcases List.mem_cons.mp m1 with e | e
      · exact e
      · rcases List.mem_cons.mp m2 with e' | e'
        · exact e'.symm
        · have := hb.1 a e; have := ha.1 b e'; omega
    subst hab
    have : as = bs := by
      apply sorted_ext as bs ha.2 hb.2
      intro x
      constructor
      · intro hx
        have := (h x).mp (List.mem_cons_of_mem _ hx)
        rcases List.mem_cons.mp this with e | e
        · subst e; have := ha.1 x hx; omega
        · exact e
      · intro hx
        have := (h x).mpr (List.mem_cons_of_mem _ hx)
        rcases List.mem_cons.mp this with e | e
        · subst e; have := hb.1 x hx; omega
        · exact e
    rw [this]

theorem mkNames_ext (xs ys : List Nat) (h : ∀ x, x ∈ xs ↔ x ∈ ys) : mkNames xs = mkNames ys :=
  sorted_ext _ _ (sorted_mkNames xs) (sorted_mkNames ys) (fun x => by rw [mem_mkNames, mem_mkNames]; exact h x)

end StepModel.Complex.Match

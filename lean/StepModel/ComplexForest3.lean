import StepModel.ComplexForest2
/-! Forests, top level: `Spec.Legal` = rooted flat legality at a root (breadth-first `connected` included), the members
of the emitted collect, and `C08_eval_legal_partial`. -/
namespace StepModel.Complex

-- ------------------------------------------------------------------ the breadth-first search of `connected`
theorem reach_succ (s : Schema) (X : List Name) (k : Nat) (seen : List Name) :
    reach s X (k + 1) seen =
      reach s X k (seen ++ X.filter (fun n => !seen.contains n && seen.any (fun m => linked s m n))) := rfl

theorem reach_mem_of_seen (s : Schema) (X : List Name) : ∀ (k : Nat) (seen : List Name) (y : Name),
    y ∈ seen → y ∈ reach s X k seen
  | 0, _, _, h => h
  | k + 1, seen, y, h => by
    rw [reach_succ]; exact reach_mem_of_seen s X k _ y (List.mem_append.mpr (Or.inl h))

theorem reach_add (s : Schema) (X : List Name) : ∀ (j k : Nat) (seen : List Name),
    reach s X (j + k) seen = reach s X k (reach s X j seen)
  | 0, k, seen => by simp [reach]
  | j + 1, k, seen => by
    rw [show j + 1 + k = (j + k) + 1 by omega, reach_succ, reach_succ, reach_add s X j k]

theorem reach_link (s : Schema) (X : List Name) (seen : List Name) (m n : Name) (hm : m ∈ seen) (hn : n ∈ X)
    (hl : linked s m n = true) : n ∈ reach s X 1 seen := by
  rw [reach_succ]
  simp only [reach]
  by_cases h : n ∈ seen
  · exact List.mem_append.mpr (Or.inl h)
  · refine List.mem_append.mpr (Or.inr (List.mem_filter.mpr ⟨hn, ?_⟩))
    simp only [Bool.and_eq_true, Bool.not_eq_true', List.any_eq_true]
    exact ⟨by simpa using h, m, hm, hl⟩

theorem reach_mono_rounds (s : Schema) (X : List Name) (j k : Nat) (seen : List Name) (y : Name)
    (h : y ∈ reach s X j seen) : y ∈ reach s X (j + k) seen := by
  rw [reach_add]; exact reach_mem_of_seen s X k _ y h

/-- paths downwards, with the list of nodes after the start -/
inductive ReachL (s : Schema) : Name → Name → List Name → Prop
  | refl (n : Name) : ReachL s n n []
  | step {n k m : Name} {p : List Name} : IsSub s n k → ReachL s k m p → ReachL s n m (k :: p)

theorem Reach.toL {s : Schema} {n m : Name} (h : Reach s n m) : ∃ p, ReachL s n m p := by
  induction h with
  | refl => exact ⟨[], ReachL.refl _⟩
  | step hs _ ih => obtain ⟨p, hp⟩ := ih; exact ⟨_ :: p, ReachL.step hs hp⟩

theorem ReachL.toReach {s : Schema} {n m : Name} {p : List Name} (h : ReachL s n m p) : Reach s n m := by
  induction h with
  | refl => exact Reach.refl _
  | step hs _ ih => exact Reach.step hs ih

theorem ReachL.reach_mem {s : Schema} {n m : Name} {p : List Name} (h : ReachL s n m p) :
    ∀ q ∈ p, Reach s n q ∧ Reach s q m := by
  induction h with
  | refl => intro q hq; cases hq
  | @step n k m p hs hr ih =>
    intro q hq
    have hkm : Reach s k m := hr.toReach
    rcases List.mem_cons.mp hq with e | e
    · subst e; exact ⟨Reach.step hs (Reach.refl _), hkm⟩
    · obtain ⟨h1, h2⟩ := ih q e
      exact ⟨Reach.step hs h1, h2⟩

section
variable {s : Schema} {lvl : Name → Nat} (W : ForestWF s lvl)
include W

theorem linked_of_isSub {n k : Name} (h : IsSub s n k) : linked s n k = true ∧ linked s k n = true := by
  obtain ⟨ek, hek, hsup⟩ := IsSub.supers W h
  obtain ⟨e, he, hk⟩ := h
  simp [linked, he, hek, hsup]

theorem ReachL.nodup {n m : Name} {p : List Name} (h : ReachL s n m p) : (∀ q ∈ p, lvl n < lvl q) ∧ p.Nodup := by
  induction h with
  | refl => exact ⟨fun q hq => (by cases hq), List.nodup_nil⟩
  | @step n k m p hs _ ih =>
    have hl := IsSub.lvlLt W hs
    refine ⟨?_, List.nodup_cons.mpr ⟨?_, ih.2⟩⟩
    · intro q hq
      rcases List.mem_cons.mp hq with e | e
      · rw [e]; exact hl
      · have := ih.1 q e; omega
    · intro hk; have := ih.1 k hk; omega

theorem bfs_down (X : List Name) {n m : Name} {p : List Name} (h : ReachL s n m p) :
    ∀ seen, n ∈ seen → (∀ q ∈ p, q ∈ X) → m ∈ reach s X p.length seen := by
  induction h with
  | refl => intro seen hn _; exact hn
  | @step n k m p hs _ ih =>
    intro seen hn hp
    have hk : k ∈ reach s X 1 seen := reach_link s X seen n k hn (hp k (by simp)) (linked_of_isSub W hs).1
    have := ih (reach s X 1 seen) hk (fun q hq => hp q (List.mem_cons_of_mem _ hq))
    rw [← reach_add] at this
    simpa [Nat.add_comm] using this

theorem bfs_up (X : List Name) {n m : Name} {p : List Name} (h : ReachL s n m p) :
    ∀ seen, m ∈ seen → n ∈ X → (∀ q ∈ p, q ∈ X) → n ∈ reach s X p.length seen := by
  induction h with
  | refl => intro seen hm _ _; exact hm
  | @step n k m p hs _ ih =>
    intro seen hm hn hp
    have hk := ih seen hm (hp k (by simp)) (fun q hq => hp q (List.mem_cons_of_mem _ hq))
    have := reach_link s X _ k n hk hn (linked_of_isSub W hs).2
    rw [← reach_add] at this
    simpa using this

end

-- ------------------------------------------------------------------ `Legal`, unfolded
theorem legal_iff (s : Schema) (X : List Name) : Legal s X = true ↔
    X ≠ [] ∧ (∀ n ∈ X, ∃ e, s.find n = some e ∧ (∀ p ∈ e.supers, p ∈ X) ∧ localOK e X = true) ∧ connected s X = true := by
  unfold Legal
  simp only [Bool.and_eq_true, Bool.not_eq_true', List.all_eq_true]
  constructor
  · rintro ⟨⟨h1, h2⟩, h3⟩
    refine ⟨by intro h; rw [h] at h1; simp at h1, fun n hn => ?_, h3⟩
    have := h2 n hn
    cases hf : s.find n with
    | none => rw [hf] at this; simp at this
    | some e =>
      rw [hf] at this
      simp only [Bool.and_eq_true, subset_iff] at this
      exact ⟨e, rfl, this.1, this.2⟩
  · rintro ⟨h1, h2, h3⟩
    refine ⟨⟨by cases X with | nil => exact absurd rfl h1 | cons => rfl, fun n hn => ?_⟩, h3⟩
    obtain ⟨e, hf, hs, hl⟩ := h2 n hn
    rw [hf]
    simp only [Bool.and_eq_true, subset_iff]
    exact ⟨hs, hl⟩

theorem connected_cons (s : Schema) (x : Name) (rest : List Name) :
    connected s (x :: rest) = true ↔ ∀ y ∈ x :: rest, y ∈ reach s (x :: rest) (2 * (x :: rest).length) [x] := by
  simp only [connected, subset_iff]

section
variable {s : Schema} {lvl : Name → Nat} (W : ForestWF s lvl)
include W

/-- rooted flat legality at a root ⇒ `Legal` -/
theorem legal_of_flat {e : Entity} (he : e ∈ s) (hroot : e.supers = []) {X : List Name} (hf : Flat s e.name X) :
    Legal s X = true := by
  obtain ⟨h1, h2, h3, h4⟩ := hf
  have hfe : s.find e.name = some e := find_of_mem W.nodup he
  rw [legal_iff]
  refine ⟨(by intro h; rw [h] at h1; cases h1), ?_, ?_⟩
  · intro n hn
    obtain ⟨en, hfn, hl⟩ := h4 n hn
    refine ⟨en, hfn, ?_, hl⟩
    by_cases hne : n = e.name
    · subst hne; rw [hfe] at hfn; cases hfn; rw [hroot]; intro p hp; cases hp
    · obtain ⟨en', hfn', hs⟩ := h3 n hn hne
      rw [hfn] at hfn'; cases hfn'; exact hs
  · cases hX : X with
    | nil => rw [hX] at h1; cases h1
    | cons x rest =>
      rw [connected_cons, ← hX]
      intro y hy
      have hx : x ∈ X := by rw [hX]; simp
      obtain ⟨p1, hp1⟩ := (h2 x hx).toL
      obtain ⟨p2, hp2⟩ := (h2 y hy).toL
      have hin : ∀ {m : Name} {p : List Name}, ReachL s e.name m p → m ∈ X → ∀ q ∈ p, q ∈ X := by
        intro m p hp hm q hq
        obtain ⟨_, hqm⟩ := hp.reach_mem q hq
        exact anc_mem W h3 hqm hm ((hp.nodup W).1 q hq)
      have hlen : ∀ {m : Name} {p : List Name}, ReachL s e.name m p → m ∈ X → p.length ≤ X.length :=
        fun hp hm => List.Nodup.length_le_of_subset (hp.nodup W).2 (fun q hq => hin hp hm q hq)
      have hup : e.name ∈ reach s X p1.length [x] := bfs_up W X hp1 [x] (by simp) h1 (hin hp1 hx)
      have hdown : y ∈ reach s X p2.length (reach s X p1.length [x]) := bfs_down W X hp2 _ hup (hin hp2 hy)
      rw [← reach_add] at hdown
      have hl1 := hlen hp1 hx
      have hl2 := hlen hp2 hy
      have := reach_mono_rounds s X (p1.length + p2.length) (2 * X.length - (p1.length + p2.length)) [x] y hdown
      rwa [show p1.length + p2.length + (2 * X.length - (p1.length + p2.length)) = 2 * X.length by omega] at this

/-- climbing the supertype links inside a closed set ends at a root -/
theorem climb {X : List Name} (hall : ∀ n ∈ X, ∃ e, s.find n = some e ∧ (∀ p ∈ e.supers, p ∈ X) ∧ localOK e X = true) :
    ∀ (d : Nat) (a : Name), lvl a = d → a ∈ X → ∃ r er, r ∈ X ∧ Reach s r a ∧ s.find r = some er ∧ er.supers = [] := by
  intro d
  induction d using Nat.strongRecOn with
  | _ d ih =>
    intro a hd ha
    obtain ⟨ea, hfa, hsup, _⟩ := hall a ha
    cases hs : ea.supers with
    | nil => exact ⟨a, ea, ha, Reach.refl _, hfa, hs⟩
    | cons p rest =>
      have hp : p ∈ ea.supers := by rw [hs]; simp
      have hsub := isSub_of_super W hfa hp
      have hl := IsSub.lvlLt W hsub
      obtain ⟨r, er, hr, hreach, hfr, hrs⟩ := ih (lvl p) (by omega) p rfl (hsup p hp)
      exact ⟨r, er, hr, hreach.snoc hsub, hfr, hrs⟩

/-- `Legal` ⇒ rooted flat legality at some root -/
theorem flat_of_legal {X : List Name} (hL : Legal s X = true) :
    ∃ e ∈ s, e.supers = [] ∧ Flat s e.name X := by
  obtain ⟨hne, hall, hconn⟩ := (legal_iff s X).mp hL
  cases hX : X with
  | nil => exact absurd hX hne
  | cons x rest =>
    have hx : x ∈ X := by rw [hX]; simp
    obtain ⟨r, er, hrX, hrx, hfr, hrs⟩ := climb W hall (lvl x) x rfl hx
    obtain ⟨her, hern⟩ := find_some hfr
    -- everything the search reaches lies below r
    have hstep : ∀ (seen : List Name), (∀ z ∈ seen, z ∈ X ∧ Reach s r z) →
        ∀ z ∈ seen ++ X.filter (fun n => !seen.contains n && seen.any (fun m => linked s m n)), z ∈ X ∧ Reach s r z := by
      intro seen hP z hz
      rcases List.mem_append.mp hz with h | h
      · exact hP z h
      · obtain ⟨hzX, hcond⟩ := List.mem_filter.mp h
        simp only [Bool.and_eq_true, List.any_eq_true] at hcond
        obtain ⟨_, m, hm, hlink⟩ := hcond
        refine ⟨hzX, ?_⟩
        obtain ⟨_, hrm⟩ := hP m hm
        unfold linked at hlink
        cases hfm : s.find m with
        | none => rw [hfm] at hlink; simp at hlink
        | some em =>
          cases hfz : s.find z with
          | none => rw [hfm, hfz] at hlink; simp at hlink
          | some ez =>
            rw [hfm, hfz] at hlink
            simp only [Bool.or_eq_true, List.contains_eq_mem, decide_eq_true_eq] at hlink
            rcases hlink with h1 | h1
            · -- z is the supertype of m
              have hzm := isSub_of_super W hfm h1
              rcases Reach.last hrm with e1 | ⟨q, hq, hqm⟩
              · subst e1; rw [hfr] at hfm; cases hfm; rw [hrs] at h1; cases h1
              · have := IsSub.parent_unique W hqm hzm
                rw [← this]; exact hq
            · -- m is the supertype of z
              exact hrm.snoc (isSub_of_super W hfz h1)
    have hreach : ∀ (k : Nat) (seen : List Name), (∀ z ∈ seen, z ∈ X ∧ Reach s r z) →
        ∀ z ∈ reach s X k seen, z ∈ X ∧ Reach s r z := by
      intro k
      induction k with
      | zero => intro seen hP z hz; exact hP z hz
      | succ k ih => intro seen hP z hz; rw [reach_succ] at hz; exact ih _ (hstep seen hP) z hz
    have hconn' := hconn
    rw [hX, connected_cons, ← hX] at hconn'
    have hbelow : ∀ y ∈ X, Reach s r y := by
      intro y hy
      have := hconn' y hy
      exact (hreach _ [x] (fun z hz => by simp at hz; subst hz; exact ⟨hx, hrx⟩) y this).2
    refine ⟨er, her, hrs, ?_⟩
    rw [hern, ← hX]
    refine ⟨hrX, hbelow, ?_, ?_⟩
    · intro m hm _
      obtain ⟨em, hfm, hs, _⟩ := hall m hm
      exact ⟨em, hfm, hs⟩
    · intro m hm
      obtain ⟨em, hfm, _, hl⟩ := hall m hm
      exact ⟨em, hfm, hl⟩

end

-- ------------------------------------------------------------------ the members of the emitted collect
theorem mem_insertHead (h x : Tree) : ∀ (c : Collect), x ∈ insertHead h c ↔ x = h ∨ x ∈ c
  | [] => by simp [insertHead]
  | c0 :: cs => by
    unfold insertHead
    split
    · split
      · simp only [List.mem_cons, mem_insertHead h x cs]
        constructor
        · rintro (h1 | h1 | h1)
          · exact Or.inr (Or.inl h1)
          · exact Or.inl h1
          · exact Or.inr (Or.inr h1)
        · rintro (h1 | h1 | h1)
          · exact Or.inr (Or.inl h1)
          · exact Or.inl h1
          · exact Or.inr (Or.inr h1)
      · simp
    · simp

/-- one step of the fold in `collectOf` -/
def collectStep (s : Schema) (fuel : Nat) (acc : Option Collect) (e : Entity) : Option Collect :=
  match acc with
  | none => none
  | some c =>
    if e.subs.isEmpty || !e.supers.isEmpty then some c
    else match headOf s fuel e with
      | none => none
      | some h => some (insertHead h c)

theorem collectOf_eq (s : Schema) (fuel : Nat) : collectOf s fuel = s.foldl (collectStep s fuel) (some []) := rfl

theorem fold_none (s : Schema) (fuel : Nat) : ∀ (l : List Entity), l.foldl (collectStep s fuel) none = none
  | [] => rfl
  | _ :: l => by simp only [List.foldl_cons, collectStep]; exact fold_none s fuel l

theorem fold_collect (s : Schema) (fuel : Nat) : ∀ (l : List Entity) (c0 c : Collect),
    l.foldl (collectStep s fuel) (some c0) = some c →
    (∀ x, x ∈ c ↔ x ∈ c0 ∨ ∃ e ∈ l, e.subs ≠ [] ∧ e.supers = [] ∧ headOf s fuel e = some x) ∧
    (∀ e ∈ l, e.subs ≠ [] → e.supers = [] → ∃ h, headOf s fuel e = some h)
  | [], c0, c, h => by
    simp only [List.foldl_nil, Option.some.injEq] at h; subst h
    exact ⟨fun x => by simp, fun e he => by cases he⟩
  | e :: l, c0, c, h => by
    simp only [List.foldl_cons] at h
    by_cases hq : (e.subs.isEmpty || !e.supers.isEmpty) = true
    · have hstep : collectStep s fuel (some c0) e = some c0 := by simp only [collectStep, hq, if_true]
      rw [hstep] at h
      obtain ⟨h1, h2⟩ := fold_collect s fuel l c0 c h
      have hnot : ¬ (e.subs ≠ [] ∧ e.supers = []) := by
        rintro ⟨ha, hb⟩
        simp only [Bool.or_eq_true, Bool.not_eq_true', List.isEmpty_iff] at hq
        rcases hq with h' | h'
        · exact ha h'
        · rw [hb] at h'; simp at h'
      refine ⟨fun x => ?_, fun e' he' hs hr => ?_⟩
      · rw [h1 x]
        constructor
        · rintro (h' | ⟨e', he', r⟩)
          · exact Or.inl h'
          · exact Or.inr ⟨e', List.mem_cons_of_mem _ he', r⟩
        · rintro (h' | ⟨e', he', r⟩)
          · exact Or.inl h'
          · rcases List.mem_cons.mp he' with e1 | e1
            · subst e1; exact absurd ⟨r.1, r.2.1⟩ hnot
            · exact Or.inr ⟨e', e1, r⟩
      · rcases List.mem_cons.mp he' with e1 | e1
        · subst e1; exact absurd ⟨hs, hr⟩ hnot
        · exact h2 e' e1 hs hr
    · have hqs : e.subs ≠ [] ∧ e.supers = [] := by
        simp only [Bool.or_eq_true, Bool.not_eq_true', List.isEmpty_iff, not_or] at hq
        refine ⟨hq.1, ?_⟩
        cases hsup : e.supers with
        | nil => rfl
        | cons => rw [hsup] at hq; simp at hq
      cases hh : headOf s fuel e with
      | none =>
        have hstep : collectStep s fuel (some c0) e = none := by
          simp only [collectStep, hq, hh]; simp
        rw [hstep, fold_none] at h; cases h
      | some hd =>
        have hstep : collectStep s fuel (some c0) e = some (insertHead hd c0) := by
          simp only [collectStep, hq, hh]; simp
        rw [hstep] at h
        obtain ⟨h1, h2⟩ := fold_collect s fuel l (insertHead hd c0) c h
        refine ⟨fun x => ?_, fun e' he' hs hr => ?_⟩
        · rw [h1 x, mem_insertHead]
          constructor
          · rintro ((h' | h') | ⟨e', he', r⟩)
            · exact Or.inr ⟨e, by simp, hqs.1, hqs.2, by rw [h']; exact hh⟩
            · exact Or.inl h'
            · exact Or.inr ⟨e', List.mem_cons_of_mem _ he', r⟩
          · rintro (h' | ⟨e', he', r⟩)
            · exact Or.inl (Or.inr h')
            · rcases List.mem_cons.mp he' with e1 | e1
              · subst e1; rw [hh] at r; exact Or.inl (Or.inl (by cases r.2.2; rfl))
              · exact Or.inr ⟨e', e1, r⟩
        · rcases List.mem_cons.mp he' with e1 | e1
          · subst e1; exact ⟨hd, hh⟩
          · exact h2 e' e1 hs hr

theorem derivesB_iff (t : Tree) (X : List Name) : derivesB t X = true ↔ Der (denote t) X := by
  simp only [derivesB, List.any_eq_true, Der, sameSet_iff]

theorem evalB_nomult (c : Collect) (X : List Name) : evalB c [] X = true ↔ ∃ h ∈ c, Der (denote h) X := by
  have : (X.filter fun n => ([] : List Name).contains n) = [] := by
    apply List.filter_eq_nil_iff.mpr; intro a _; simp
  simp only [evalB, this, List.isEmpty_nil, if_true, List.any_eq_true, derivesB_iff]

section
variable {s : Schema} {lvl : Name → Nat} (W : ForestWF s lvl)
include W

/-- **eval ⟷ Legal on forests.**  For a single-supertype schema (`ForestWF`: the declarations check-express accepts, at
most one supertype per entity, every mentioned subtype mentioned once, an ABSTRACT entity has a subtype) whose implicit
subtypes exp2cxx and the declarations agree on (`AgreeAll`), the plain meaning of the collect exp2cxx emits holds for a set
with at least two members exactly when the set is legal by the property's own rule `Spec.Legal`. -/
theorem eval_legal_forest (hag : AgreeAll s) (fuel : Nat) (c : Collect) (hc : collectOf s fuel = some c)
    (X : List Name) (h2 : ∃ a ∈ X, ∃ b ∈ X, a ≠ b) : evalB c [] X = true ↔ Legal s X = true := by
  rw [collectOf_eq] at hc
  obtain ⟨hmem, hdef⟩ := fold_collect s fuel s [] c hc
  rw [evalB_nomult]
  constructor
  · rintro ⟨h, hh, hd⟩
    rcases (hmem h).mp hh with h' | ⟨e, he, hsub, hroot, hhe⟩
    · cases h'
    · have := ((tree_flat W hag fuel).2 e h X he hsub hhe).mp hd
      exact legal_of_flat W he hroot this.1
  · intro hL
    obtain ⟨e, he, hroot, hf⟩ := flat_of_legal W hL
    have hp : present e X ≠ [] := by
      intro hp
      have hs := flat_single W he hf hp
      obtain ⟨a, ha, b, hb, hab⟩ := h2
      have h1 := (hs a).mpr ha
      have h2' := (hs b).mpr hb
      simp only [List.mem_singleton] at h1 h2'
      exact hab (h1.trans h2'.symm)
    have hsub : e.subs ≠ [] := by
      intro h; apply hp; simp [present, h]
    obtain ⟨h, hh⟩ := hdef e he hsub hroot
    exact ⟨h, (hmem h).mpr (Or.inr ⟨e, he, hsub, hroot, hh⟩),
      ((tree_flat W hag fuel).2 e h X he hsub hh).mpr ⟨hf, hp⟩⟩

end

end StepModel.Complex

import StepModel.ComplexBuildWF
import StepModel.ComplexForestAgree
import StepModel.ComplexComplete9
/-! On single-supertype schemas whose sub-supertypes are all ABSTRACT, the lists exp2cxx's construction emits have
pairwise distinct leaf names; and their OrLists are as short as the ONEOFs of the schema. -/
namespace StepModel.Complex
open StepModel.Generated Match

/-- leaves of the trees of the listed entities, one block per entity -/
def BlocksOf (T : Name → Option Tree) (ms : List Name) (Ls : List (List Name)) : Prop :=
  All2 (fun m L => ∃ t, T m = some t ∧ leaves t = L) ms Ls

theorem All2.append {α β : Type} {R : α → β → Prop} {a a' : List α} {b b' : List β} (h : All2 R a b) (h' : All2 R a' b') :
    All2 R (a ++ a') (b ++ b') := by
  induction h with
  | nil => exact h'
  | cons hr _ ih => exact All2.cons hr ih

mutual
  theorem exprKids_blocks (T : Name → Option Tree) : ∀ (x : Expr) (p : Parent) (ts : List Tree),
      exprKids T p x = some ts → ∃ Ls, BlocksOf T x.ents Ls ∧ leavesL ts = Ls.flatten
    | .ent n, p, ts, h => by
      simp only [exprKids, Option.map_eq_some_iff] at h
      obtain ⟨t, ht, rfl⟩ := h
      exact ⟨[leaves t], All2.cons ⟨t, ht, rfl⟩ All2.nil, by simp [leavesL]⟩
    | .and a b, p, ts, h => by
      simp only [exprKids] at h
      cases ha : exprKids T .andL a with
      | none => rw [ha] at h; simp at h
      | some l =>
        cases hb : exprKids T .andL b with
        | none => rw [ha, hb] at h; simp at h
        | some r =>
          rw [ha, hb] at h
          obtain ⟨L1, b1, e1⟩ := exprKids_blocks T a .andL l ha
          obtain ⟨L2, b2, e2⟩ := exprKids_blocks T b .andL r hb
          have key : leavesL (l ++ r) = (L1 ++ L2).flatten := by rw [leavesL_append, e1, e2]; simp
          simp only at h
          split at h
          · cases h; exact ⟨L1 ++ L2, by simp only [Expr.ents]; exact All2.append b1 b2, key⟩
          · cases h; exact ⟨L1 ++ L2, by simp only [Expr.ents]; exact All2.append b1 b2, by simp [leavesL, leaves, key]⟩
    | .andor a b, p, ts, h => by
      simp only [exprKids] at h
      cases ha : exprKids T .andorL a with
      | none => rw [ha] at h; simp at h
      | some l =>
        cases hb : exprKids T .andorL b with
        | none => rw [ha, hb] at h; simp at h
        | some r =>
          rw [ha, hb] at h
          obtain ⟨L1, b1, e1⟩ := exprKids_blocks T a .andorL l ha
          obtain ⟨L2, b2, e2⟩ := exprKids_blocks T b .andorL r hb
          have key : leavesL (l ++ r) = (L1 ++ L2).flatten := by rw [leavesL_append, e1, e2]; simp
          simp only at h
          split at h
          · cases h; exact ⟨L1 ++ L2, by simp only [Expr.ents]; exact All2.append b1 b2, key⟩
          · cases h; exact ⟨L1 ++ L2, by simp only [Expr.ents]; exact All2.append b1 b2, by simp [leavesL, leaves, key]⟩
    | .oneof es, p, ts, h => by
      simp only [exprKids, Option.map_eq_some_iff] at h
      obtain ⟨cs, hcs, rfl⟩ := h
      obtain ⟨Ls, b1, e1⟩ := exprKidsL_blocks T es cs hcs
      exact ⟨Ls, by simp only [Expr.ents]; exact b1, by simp [leavesL, leaves, e1]⟩
  theorem exprKidsL_blocks (T : Name → Option Tree) : ∀ (es : List Expr) (ts : List Tree),
      exprKidsL T es = some ts → ∃ Ls, BlocksOf T (Expr.entsL es) Ls ∧ leavesL ts = Ls.flatten
    | [], ts, h => by
      simp only [exprKidsL] at h; cases h
      exact ⟨[], All2.nil, rfl⟩
    | x :: xs, ts, h => by
      simp only [exprKidsL] at h
      cases ha : exprKids T .orL x with
      | none => rw [ha] at h; simp at h
      | some l =>
        cases hb : exprKidsL T xs with
        | none => rw [ha, hb] at h; simp at h
        | some r =>
          rw [ha, hb] at h; cases h
          obtain ⟨L1, b1, e1⟩ := exprKids_blocks T x .orL l ha
          obtain ⟨L2, b2, e2⟩ := exprKidsL_blocks T xs r hb
          exact ⟨L1 ++ L2, by simp only [Expr.entsL]; exact All2.append b1 b2, by rw [leavesL_append, e1, e2]; simp⟩
end

theorem mapOpt_blocks (T : Name → Option Tree) : ∀ (I : List Name) (ts : List Tree), mapOpt T I = some ts →
    ∃ Ls, BlocksOf T I Ls ∧ leavesL ts = Ls.flatten
  | [], ts, h => by simp only [mapOpt] at h; cases h; exact ⟨[], All2.nil, rfl⟩
  | m :: I, ts, h => by
    simp only [mapOpt] at h
    cases hm : T m with
    | none => rw [hm] at h; simp at h
    | some t =>
      cases hI : mapOpt T I with
      | none => rw [hm, hI] at h; simp at h
      | some ts' =>
        rw [hm, hI] at h; cases h
        obtain ⟨Ls, b1, e1⟩ := mapOpt_blocks T I ts' hI
        exact ⟨leaves t :: Ls, All2.cons ⟨t, hm, rfl⟩ b1, by simp [leavesL, e1]⟩

/-- blocks that are duplicate-free and pairwise disjoint flatten to a duplicate-free list -/
theorem nodup_blocks {T : Name → Option Tree} : ∀ {ms : List Name} {Ls : List (List Name)}, BlocksOf T ms Ls → ms.Nodup →
    (∀ m ∈ ms, ∀ t, T m = some t → (leaves t).Nodup) →
    (∀ m ∈ ms, ∀ m' ∈ ms, m ≠ m' → ∀ t t', T m = some t → T m' = some t' → ∀ y ∈ leaves t, y ∉ leaves t') →
    Ls.flatten.Nodup ∧ ∀ y ∈ Ls.flatten, ∃ m ∈ ms, ∃ t, T m = some t ∧ y ∈ leaves t
  | [], _, h, _, _, _ => by cases h; exact ⟨by simp, fun y hy => by simp at hy⟩
  | m :: ms, _, h, hnd, hn, hdj => by
    cases h with
    | cons hr hrest =>
      obtain ⟨t, ht, rfl⟩ := hr
      simp only [List.nodup_cons] at hnd
      obtain ⟨ih1, ih2⟩ := nodup_blocks hrest hnd.2 (fun m' hm' => hn m' (List.mem_cons_of_mem _ hm'))
        (fun a ha b hb => hdj a (List.mem_cons_of_mem _ ha) b (List.mem_cons_of_mem _ hb))
      refine ⟨?_, fun y hy => ?_⟩
      · simp only [List.flatten_cons]
        apply nodup_append_of_disjoint (hn m (by simp) t ht) ih1
        intro y hy hy'
        obtain ⟨m', hm', t', ht', hyt'⟩ := ih2 y hy'
        have hne : m ≠ m' := by intro e; subst e; exact hnd.1 hm'
        exact hdj m (by simp) m' (List.mem_cons_of_mem _ hm') hne t t' ht ht' y hy hyt'
      · simp only [List.flatten_cons, List.mem_append] at hy
        rcases hy with e | e
        · exact ⟨m, by simp, t, ht, e⟩
        · obtain ⟨m', hm', t', ht', hyt'⟩ := ih2 y e
          exact ⟨m', List.mem_cons_of_mem _ hm', t', ht', hyt'⟩

theorem blocks_self_mem {T : Name → Option Tree} (hself : ∀ m t, T m = some t → m ∈ leaves t) :
    ∀ {ms : List Name} {Ls : List (List Name)}, BlocksOf T ms Ls → ∀ m ∈ ms, m ∈ Ls.flatten
  | [], _, h, m, hm => by cases hm
  | a :: as, _, h, m, hm => by
    cases h with
    | cons hr hrest =>
      obtain ⟨t, ht, rfl⟩ := hr
      simp only [List.flatten_cons, List.mem_append]
      rcases List.mem_cons.mp hm with e | e
      · left; rw [e]; exact hself a t ht
      · right; exact blocks_self_mem hself hrest m e

theorem BlocksOf.append_inv {T : Name → Option Tree} {a b : List Name} {La Lb : List (List Name)} (ha : BlocksOf T a La)
    (hb : BlocksOf T b Lb) : BlocksOf T (a ++ b) (La ++ Lb) := All2.append ha hb

section
variable {s : Schema} {lvl : Name → Nat} (W : ForestWF s lvl)
include W

/-- sub-supertypes are ABSTRACT -/
def SubSupersAbstract (s : Schema) : Prop := ∀ e ∈ s, e.supers ≠ [] → e.subs ≠ [] → e.abstract = true

theorem tree_distinct (habs : SubSupersAbstract s) : ∀ (f : Nat),
    (∀ n t e, entTree s f n = some t → s.find n = some e → e.supers ≠ [] → (leaves t).Nodup) ∧
    (∀ e h, e ∈ s → headOf s f e = some h → (leaves h).Nodup) := by
  intro f
  induction f using Nat.strongRecOn with
  | _ f ih =>
    constructor
    · intro n t e ht hfe hsup
      cases f with
      | zero => simp [entTree] at ht
      | succ f' =>
        obtain ⟨he, hen⟩ := find_some hfe
        simp only [entTree, hfe] at ht
        split at ht
        · cases ht; simp [leaves]
        · rename_i hsub
          have hsub' : e.subs ≠ [] := by intro e'; rw [e'] at hsub; simp at hsub
          cases hh : headOf s f' e with
          | none => rw [hh] at ht; simp at ht
          | some h =>
            rw [hh] at ht
            simp only [habs e he hsup hsub', if_true] at ht
            cases ht
            exact (ih f' (Nat.lt_succ_self _)).2 e _ he hh
    · intro e h he hh
      cases f with
      | zero => simp [headOf] at hh
      | succ f' =>
        have IH := ih f' (Nat.lt_succ_self _)
        have TL := tree_leaves_reach W f'
        -- facts about the trees of the direct subtypes
        have hsubfind : ∀ m ∈ e.subs, ∃ em, s.find m = some em ∧ em.supers = [e.name] := by
          intro m hm
          have : IsSub s e.name m := ⟨e, find_of_mem W.nodup he, hm⟩
          exact IsSub.supers W this
        have hchild_nd : ∀ m ∈ e.subs, ∀ t, entTree s f' m = some t → (leaves t).Nodup := by
          intro m hm t ht
          obtain ⟨em, hf, hs⟩ := hsubfind m hm
          exact IH.1 m t em ht hf (by rw [hs]; simp)
        have hchild_dj : ∀ m ∈ e.subs, ∀ m' ∈ e.subs, m ≠ m' → ∀ t t', entTree s f' m = some t → entTree s f' m' = some t' →
            ∀ y ∈ leaves t, y ∉ leaves t' := by
          intro m hm m' hm' hne t t' ht ht' y hy hy'
          have r1 := (TL.1 m t ht).2 y hy
          have r2 := (TL.1 m' t' ht').2 y hy'
          exact hne (sub_above_unique W ⟨e, find_of_mem W.nodup he, hm⟩ ⟨e, find_of_mem W.nodup he, hm'⟩ r1 r2)
        have hself : ∀ m ∈ e.subs, ∀ t, entTree s f' m = some t → e.name ∉ leaves t := by
          intro m hm t ht hy
          have r1 := (TL.1 m t ht).2 e.name hy
          have h1 := Reach.lvl_le W r1
          have h2 := W.lvl_lt e he m hm
          omega
        -- the shape of the head
        have key : ∀ (ms : List Name) (Ls : List (List Name)), BlocksOf (fun n => entTree s f' n) ms Ls → ms.Nodup →
            (∀ m ∈ ms, m ∈ e.subs) → (e.name :: Ls.flatten).Nodup := by
          intro ms Ls hb hnd hsubs
          obtain ⟨k1, k2⟩ := nodup_blocks hb hnd (fun m hm t ht => hchild_nd m (hsubs m hm) t ht)
            (fun m hm m' hm' hne t t' ht ht' => hchild_dj m (hsubs m hm) m' (hsubs m' hm') hne t t' ht ht')
          refine List.nodup_cons.mpr ⟨fun hy => ?_, k1⟩
          obtain ⟨m, hm, t, ht, hyt⟩ := k2 _ hy
          exact hself m (hsubs m hm) t ht hyt
        simp only [headOf] at hh
        cases hx : e.expr with
        | none =>
          rw [hx] at hh
          simp only [List.nil_append] at hh
          have himpl : (e.subs.filter fun n => !([] : List Name).contains n) = e.subs := by simp
          rw [himpl] at hh
          split at hh
          · cases hh; simp [leaves, leavesL]
          · cases hm : mapOpt (fun n => entTree s f' n) e.subs with
            | none => rw [hm] at hh; simp at hh
            | some ts =>
              rw [hm] at hh; cases hh
              obtain ⟨Ls, hb, hl⟩ := mapOpt_blocks _ _ _ hm
              have := key e.subs Ls hb (W.subs_nodup e he) (fun m hm => hm)
              simpa [leaves, leavesL, hl] using this
        | some x =>
          rw [hx] at hh
          simp only at hh
          obtain ⟨hxs, hxn⟩ := W.expr_ok e he x hx
          cases hb : exprKids (fun n => entTree s f' n) .superHead x with
          | none => rw [hb] at hh; simp at hh
          | some b =>
            rw [hb] at hh
            simp only at hh
            obtain ⟨Lb, hbb, hlb⟩ := exprKids_blocks _ x .superHead b hb
            split at hh
            · cases hh
              have := key x.ents Lb hbb hxn hxs
              simpa [leaves, leavesL, hlb] using this
            · cases hm : mapOpt (fun n => entTree s f' n) (e.subs.filter fun n => !(e.name :: leavesL b).contains n) with
              | none => rw [hm] at hh; simp at hh
              | some ts =>
                rw [hm] at hh; cases hh
                obtain ⟨Lt, hbt, hlt⟩ := mapOpt_blocks _ _ _ hm
                -- the implicit subtypes are not mentioned by the expression
                have hdisj : ∀ m ∈ x.ents, m ∉ e.subs.filter fun n => !(e.name :: leavesL b).contains n := by
                  intro m hm hmf
                  have hmf' := (List.mem_filter.mp hmf).2
                  obtain ⟨k1, k2⟩ := nodup_blocks hbb hxn (fun m hm t ht => hchild_nd m (hxs m hm) t ht)
                    (fun m hm m' hm' hne t t' ht ht' => hchild_dj m (hxs m hm) m' (hxs m' hm') hne t t' ht ht')
                  -- `m` is a leaf of its own tree, hence of `b`
                  have : m ∈ leavesL b := by
                    rw [hlb]
                    exact blocks_self_mem (fun a t ht => (TL.1 a t ht).1) hbb m hm
                  simp [this] at hmf'
                have hnd2 : (x.ents ++ e.subs.filter fun n => !(e.name :: leavesL b).contains n).Nodup :=
                  nodup_append_of_disjoint hxn ((W.subs_nodup e he).filter _) hdisj
                have := key _ (Lb ++ Lt) (All2.append hbb hbt) hnd2 (fun m hm => by
                  rcases List.mem_append.mp hm with e' | e'
                  · exact hxs m e'
                  · exact (List.mem_filter.mp e').1)
                simpa [leaves, leavesL, leavesL_append, hlb, hlt] using this

/-- **the emitted lists have pairwise distinct leaves** (single-supertype schema, sub-supertypes ABSTRACT) -/
theorem collectOf_distinct (habs : SubSupersAbstract s) (fuel : Nat) (c : Collect) (hc : collectOf s fuel = some c) :
    ∀ h ∈ c, (leaves h).Nodup := by
  unfold collectOf at hc
  refine foldl_opt_inv (fun c => ∀ hd ∈ c, (leaves hd).Nodup) _ s (fun _ => rfl) ?_ (some []) c hc
    (fun c0 hc0 => by cases hc0; intro hd hhd; cases hhd)
  intro c0 e c1 he hp hstep
  simp only at hstep
  split at hstep
  · cases hstep; exact hp
  · cases hh : headOf s fuel e with
    | none => rw [hh] at hstep; simp at hstep
    | some hd =>
      rw [hh] at hstep
      cases hstep
      intro x hx
      rcases (mem_insertHead hd x c0).mp hx with e' | e'
      · rw [e']; exact (tree_distinct W habs fuel).2 e hd he hh
      · exact hp x e'

end


-- ------------------------------------------------------------------ OrLists are as short as the ONEOFs
mutual
  /-- every ONEOF has fewer operands than `LISTEND` -/
  def Expr.oneofSmall : Expr → Prop
    | .ent _ => True
    | .oneof es => (es.length : Int) < listEnd ∧ Expr.oneofSmallL es
    | .and a b => a.oneofSmall ∧ b.oneofSmall
    | .andor a b => a.oneofSmall ∧ b.oneofSmall
  def Expr.oneofSmallL : List Expr → Prop
    | [] => True
    | x :: xs => x.oneofSmall ∧ Expr.oneofSmallL xs
end

def Schema.oneofsSmall (s : Schema) : Prop := ∀ e ∈ s, ∀ x, e.expr = some x → x.oneofSmall

theorem smallOrTL_append (a b : List Tree) : smallOrTL (a ++ b) ↔ smallOrTL a ∧ smallOrTL b := by
  simp only [smallOrTL_iff, List.mem_append]
  constructor
  · intro h; exact ⟨fun t ht => h t (Or.inl ht), fun t ht => h t (Or.inr ht)⟩
  · rintro ⟨h1, h2⟩ t (ht | ht)
    · exact h1 t ht
    · exact h2 t ht

theorem exprKids_orL_one (T : Name → Option Tree) (x : Expr) (l : List Tree) (h : exprKids T .orL x = some l) :
    l.length = 1 := by
  cases x with
  | ent n =>
    simp only [exprKids, Option.map_eq_some_iff] at h
    obtain ⟨t, _, rfl⟩ := h; rfl
  | oneof es =>
    simp only [exprKids, Option.map_eq_some_iff] at h
    obtain ⟨cs, _, rfl⟩ := h; rfl
  | and a b =>
    simp only [exprKids] at h
    split at h
    · simp only [reduceCtorEq, if_false] at h; cases h; rfl
    · cases h
  | andor a b =>
    simp only [exprKids] at h
    split at h
    · simp only [reduceCtorEq, if_false] at h; cases h; rfl
    · cases h

mutual
  theorem exprKids_small (T : Name → Option Tree) (hT : ∀ n t, T n = some t → smallOrT t) :
      ∀ (x : Expr) (p : Parent) (ts : List Tree), x.oneofSmall → exprKids T p x = some ts → smallOrTL ts
    | .ent n, p, ts, _, h => by
      simp only [exprKids, Option.map_eq_some_iff] at h
      obtain ⟨t, ht, rfl⟩ := h
      exact ⟨hT n t ht, trivial⟩
    | .and a b, p, ts, hok, h => by
      simp only [Expr.oneofSmall] at hok
      simp only [exprKids] at h
      cases ha : exprKids T .andL a with
      | none => rw [ha] at h; simp at h
      | some l =>
        cases hb : exprKids T .andL b with
        | none => rw [ha, hb] at h; simp at h
        | some r =>
          rw [ha, hb] at h
          have hw : smallOrTL (l ++ r) := (smallOrTL_append l r).mpr
            ⟨exprKids_small T hT a .andL l hok.1 ha, exprKids_small T hT b .andL r hok.2 hb⟩
          simp only at h
          split at h
          · cases h; exact hw
          · cases h; exact ⟨by simp only [smallOrT]; exact hw, trivial⟩
    | .andor a b, p, ts, hok, h => by
      simp only [Expr.oneofSmall] at hok
      simp only [exprKids] at h
      cases ha : exprKids T .andorL a with
      | none => rw [ha] at h; simp at h
      | some l =>
        cases hb : exprKids T .andorL b with
        | none => rw [ha, hb] at h; simp at h
        | some r =>
          rw [ha, hb] at h
          have hw : smallOrTL (l ++ r) := (smallOrTL_append l r).mpr
            ⟨exprKids_small T hT a .andorL l hok.1 ha, exprKids_small T hT b .andorL r hok.2 hb⟩
          simp only at h
          split at h
          · cases h; exact hw
          · cases h; exact ⟨by simp only [smallOrT]; exact hw, trivial⟩
    | .oneof es, p, ts, hok, h => by
      simp only [Expr.oneofSmall] at hok
      simp only [exprKids, Option.map_eq_some_iff] at h
      obtain ⟨cs, hcs, rfl⟩ := h
      obtain ⟨c1, c2⟩ := exprKidsL_small T hT es cs hok.2 hcs
      exact ⟨by simp only [smallOrT]; exact ⟨by rw [c2]; exact hok.1, c1⟩, trivial⟩
  theorem exprKidsL_small (T : Name → Option Tree) (hT : ∀ n t, T n = some t → smallOrT t) :
      ∀ (xs : List Expr) (ts : List Tree), Expr.oneofSmallL xs → exprKidsL T xs = some ts →
        smallOrTL ts ∧ ts.length = xs.length
    | [], ts, _, h => by simp only [exprKidsL] at h; cases h; exact ⟨trivial, rfl⟩
    | x :: xs, ts, hok, h => by
      simp only [Expr.oneofSmallL] at hok
      simp only [exprKidsL] at h
      cases ha : exprKids T .orL x with
      | none => rw [ha] at h; simp at h
      | some l =>
        cases hb : exprKidsL T xs with
        | none => rw [ha, hb] at h; simp at h
        | some r =>
          rw [ha, hb] at h; cases h
          obtain ⟨r1, r2⟩ := exprKidsL_small T hT xs r hok.2 hb
          have hl1 := exprKids_orL_one T x l ha
          exact ⟨(smallOrTL_append l r).mpr ⟨exprKids_small T hT x .orL l hok.1 ha, r1⟩, by simp [hl1, r2]; omega⟩
end

theorem build_small (s : Schema) (hs : s.oneofsSmall) : ∀ f : Nat,
    (∀ n t, entTree s f n = some t → smallOrT t) ∧ (∀ e h, e ∈ s → headOf s f e = some h → smallOrT h) := by
  intro f
  induction f with
  | zero => exact ⟨fun _ _ h => by simp [entTree] at h, fun _ _ _ h => by simp [headOf] at h⟩
  | succ f ih =>
    obtain ⟨ih1, ih2⟩ := ih
    refine ⟨?_, ?_⟩
    · intro n t h
      simp only [entTree] at h
      cases hf : s.find n with
      | none => rw [hf] at h; simp at h
      | some e =>
        rw [hf] at h
        simp only at h
        have hes : e ∈ s := List.mem_of_find?_eq_some hf
        split at h
        · cases h; trivial
        · cases hh : headOf s f e with
          | none => rw [hh] at h; simp at h
          | some hd =>
            rw [hh] at h
            simp only at h
            have hw := ih2 e hd hes hh
            split at h
            · cases h; exact hw
            · cases h
              simp only [smallOrT, smallOrTL, and_true, List.length_cons, List.length_nil]
              exact ⟨by decide, trivial, hw⟩
    · intro e h hes hh
      simp only [headOf] at hh
      have himpl : ∀ impl ts, mapOpt (fun n => entTree s f n) impl = some ts → smallOrTL ts := by
        intro impl ts hm
        apply (smallOrTL_iff ts).mpr
        intro t ht
        obtain ⟨a, _, ha⟩ := (mapOpt_spec _ impl ts hm).2 t ht
        exact ih1 a t ha
      cases hx : e.expr with
      | none =>
        rw [hx] at hh
        simp only at hh
        split at hh
        · cases hh; simp [smallOrT, smallOrTL]
        · split at hh
          · cases hh
          · rename_i ts hm
            cases hh
            simp only [smallOrT, smallOrTL, List.nil_append, and_true, true_and]
            exact himpl _ ts hm
      | some x =>
        rw [hx] at hh
        simp only at hh
        cases hb : exprKids (fun n => entTree s f n) .superHead x with
        | none => rw [hb] at hh; simp at hh
        | some b =>
          rw [hb] at hh
          simp only at hh
          have hbs := exprKids_small _ (fun n t ht => ih1 n t ht) x .superHead b (hs e hes x hx) hb
          split at hh
          · cases hh
            simp only [smallOrT, smallOrTL, true_and]; exact hbs
          · split at hh
            · cases hh
            · rename_i ts hm
              cases hh
              simp only [smallOrT, smallOrTL, and_true, true_and]
              exact (smallOrTL_append b ts).mpr ⟨hbs, himpl _ ts hm⟩

theorem collectOf_small (s : Schema) (hs : s.oneofsSmall) (fuel : Nat) (c : Collect) (h : collectOf s fuel = some c) :
    ∀ hd ∈ c, smallOrT hd := by
  unfold collectOf at h
  refine foldl_opt_inv (fun c => ∀ hd ∈ c, smallOrT hd) _ s (fun _ => rfl) ?_ (some []) c h
    (fun c0 hc0 => by cases hc0; intro hd hhd; cases hhd)
  intro c0 e c1 he hp hstep
  simp only at hstep
  split at hstep
  · cases hstep; exact hp
  · cases hh : headOf s fuel e with
    | none => rw [hh] at hstep; simp at hstep
    | some hd =>
      rw [hh] at hstep
      cases hstep
      intro x hx
      rcases (mem_insertHead hd x c0).mp hx with e' | e'
      · rw [e']; exact (build_small s hs fuel).2 e hd he hh
      · exact hp x e'

end StepModel.Complex

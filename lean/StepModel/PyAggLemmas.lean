import StepModel.PyAgg
import StepModel.PyAggSpec
/-! Helper lemmas for `Props/C19.lean`: Python list primitives, `distinctCount`, sorted insertion, index ranges. -/
namespace StepModel.PyAgg
open StepModel.Spec.Aggregate

/-! ### python's value equality is an equivalence -/

theorem veq_refl (x : Val) : veq x x = true := by simp [veq]
theorem veq_symm {x y : Val} (h : veq x y = true) : veq y x = true := by simp only [veq, beq_iff_eq] at h ⊢; exact h.symm
theorem veq_trans {x y z : Val} (h1 : veq x y = true) (h2 : veq y z = true) : veq x z = true := by
  simp only [veq, beq_iff_eq] at h1 h2 ⊢; exact h1.trans h2

/-! ### `check_type` decides conformance to the declared type (for the regenerated comparison mode) -/

open StepModel.Generated in
theorem checkType_iff (x : Val) (e : Ty) : checkType x e = true ↔ conforms x.ty e = true := by
  unfold checkType checkTypeWith
  cases e with
  | simple t => rfl
  | agg k b =>
    cases hx : x.ty with
    | simple t => simp [conforms]
    | agg k' b' =>
      by_cases hk : k' = k
      · simp [hk, baseTypesMatch, elementBaseCmp, conforms]
      · simp [hk, conforms]

open StepModel.Generated in
theorem typeMismatch_iff (x : Val) (e : Ty) : typeMismatch x e ↔ ¬ (conforms x.ty e = true) := by
  unfold typeMismatch; rw [checkType_iff]

/-- for every base type but NUMBER and SELECTs conformance is equality of types -/
theorem conforms_eq_iff (t b : Ty) (hb : plainBase b = true) : conforms t b = true ↔ t = b := by
  cases b with
  | simple n =>
    simp only [plainBase, Bool.and_eq_true, bne_iff_ne, ne_eq, decide_eq_true_eq] at hb
    have h5 : ¬ n = 5 := hb.1
    have h100 : ¬ n ≥ 100 := by omega
    simp [conforms, h5, h100]
  | agg k c => simp [conforms]

/-! ### Python list primitives on in-range arguments -/

theorem pyIdx_of_nonneg {len : Nat} {k : Int} (h0 : 0 ≤ k) (h1 : k.toNat < len) : pyIdx len k = some k.toNat := by
  simp [pyIdx, h0, h1]

theorem pyIdx_none_of_ge {len : Nat} {k : Int} (h0 : 0 ≤ k) (h1 : len ≤ k.toNat) : pyIdx len k = none := by
  have : ¬ k.toNat < len := by omega
  simp [pyIdx, h0, this]

/-- `lst[:p] + lst[p+1:]` is the list without position `p` (for `p ≥ 0`; the whole list when `p` is past the end) -/
theorem pySlice_others {α} (l : List α) {p : Int} (h0 : 0 ≤ p) :
    pySliceTo l p ++ pySliceFrom l (p + 1) = l.eraseIdx p.toNat := by
  have hp : ¬ p < 0 := by omega
  have hp1 : ¬ p + 1 < 0 := by omega
  have e1 : (p + 1).toNat = p.toNat + 1 := by omega
  simp only [pySliceTo, pySliceFrom, pyClamp, hp, hp1, if_false, e1]
  by_cases hk : p.toNat < l.length
  · have m1 : min p.toNat l.length = p.toNat := by omega
    have m2 : min (p.toNat + 1) l.length = p.toNat + 1 := by omega
    rw [m1, m2, List.eraseIdx_eq_take_drop_succ]
  · have m1 : min p.toNat l.length = l.length := by omega
    have m2 : min (p.toNat + 1) l.length = l.length := by omega
    rw [m1, m2, List.eraseIdx_of_length_le (by omega)]
    simp

theorem mem_pySlice_others {α} (l : List α) {p : Int} (h0 : 0 ≤ p) (y : α) :
    y ∈ pySliceTo l p ++ pySliceFrom l (p + 1) ↔ ∃ m, m ≠ p.toNat ∧ l[m]? = some y := by
  rw [pySlice_others l h0, List.mem_eraseIdx_iff_getElem?]

/-! ### `len(set(lst))` -/

theorem distinctCount_le {α} [DecidableEq α] (l : List α) : distinctCount l ≤ l.length := by
  induction l with
  | nil => simp [distinctCount]
  | cons x xs ih => simp only [distinctCount, List.length_cons]; split <;> omega

theorem distinctCount_eq_length_iff {α} [DecidableEq α] (l : List α) : distinctCount l = l.length ↔ l.Nodup := by
  induction l with
  | nil => simp [distinctCount]
  | cons x xs ih =>
    have hle := distinctCount_le xs
    simp only [distinctCount, List.length_cons, List.nodup_cons]
    split
    · rename_i hmem
      constructor
      · intro h; omega
      · intro h; exact absurd hmem h.1
    · rename_i hmem
      constructor
      · intro h; exact ⟨hmem, ih.mp (by omega)⟩
      · intro h; have := ih.mpr h.2; omega

/-- the shape of `get_value_unique`'s test: `size - len(set(c)) > 0` -/
theorem size_sub_distinct_pos_iff {α} [DecidableEq α] (l : List α) :
    ((l.length : Int) - (distinctCount l : Int) > 0) ↔ ¬ l.Nodup := by
  have hle := distinctCount_le l
  rw [← distinctCount_eq_length_iff]
  omega

/-! ### sorted insertion (the canonical form of BAG/SET values in the specification) -/

def sortL : List Val → List Val
  | [] => []
  | x :: xs => insertSorted x (sortL xs)

theorem length_insertSorted (x : Val) (l : List Val) : (insertSorted x l).length = l.length + 1 := by
  induction l with
  | nil => simp [insertSorted]
  | cons h t ih => simp only [insertSorted]; split <;> simp [ih]

theorem mem_insertSorted (x y : Val) (l : List Val) : y ∈ insertSorted x l ↔ y = x ∨ y ∈ l := by
  induction l with
  | nil => simp [insertSorted]
  | cons h t ih =>
    simp only [insertSorted]; split
    · simp
    · simp [ih]; constructor <;> (intro hh; rcases hh with a | b | c <;> simp_all)

theorem nodup_insertSorted (x : Val) (l : List Val) : (insertSorted x l).Nodup ↔ x ∉ l ∧ l.Nodup := by
  induction l with
  | nil => simp [insertSorted]
  | cons h t ih =>
    simp only [insertSorted]; split
    · simp [List.nodup_cons]
    · simp only [List.nodup_cons, mem_insertSorted, ih, List.mem_cons]
      constructor
      · rintro ⟨h1, h2, h3⟩
        refine ⟨?_, ?_, h3⟩
        · intro hx; rcases hx with rfl | hx
          · exact h1 (Or.inl rfl)
          · exact h2 hx
        · intro hh; exact h1 (Or.inr hh)
      · rintro ⟨h1, h2, h3⟩
        refine ⟨?_, ?_, h3⟩
        · intro hh; rcases hh with rfl | hh
          · exact h1 (Or.inl rfl)
          · exact h2 hh
        · intro hx; exact h1 (Or.inr hx)

theorem kindIdx_lt (k : Kind) : kindIdx k < 4 := by cases k <;> simp [kindIdx]

theorem kindIdx_inj {k k' : Kind} (h : kindIdx k = kindIdx k') : k = k' := by
  cases k <;> cases k' <;> simp [kindIdx] at h <;> rfl

theorem tyCode_inj : ∀ {a b : Ty}, tyCode a = tyCode b → a = b
  | .simple t, .simple t', h => by simp only [tyCode] at h; congr 1; omega
  | .simple t, .agg k b, h => by
    have := kindIdx_lt k; simp only [tyCode] at h; omega
  | .agg k c, .simple t', h => by
    have := kindIdx_lt k; simp only [tyCode] at h; omega
  | .agg k c, .agg k' c', h => by
    have h1 := kindIdx_lt k; have h2 := kindIdx_lt k'
    simp only [tyCode] at h
    have hc : tyCode c = tyCode c' := by omega
    have hk : kindIdx k = kindIdx k' := by omega
    rw [tyCode_inj hc, kindIdx_inj hk]

theorem Val.le_total (a b : Val) : Val.le a b = true ∨ Val.le b a = true := by
  simp only [Val.le, Bool.or_eq_true, Bool.and_eq_true, decide_eq_true_eq]; omega

theorem Val.le_antisymm {a b : Val} (h1 : Val.le a b = true) (h2 : Val.le b a = true) : a = b := by
  simp only [Val.le, Bool.or_eq_true, Bool.and_eq_true, decide_eq_true_eq] at h1 h2
  have hc : tyCode a.ty = tyCode b.ty := by omega
  have hv : a.v = b.v := by omega
  cases a; cases b
  simp only [Val.mk.injEq]
  exact ⟨tyCode_inj hc, hv⟩

theorem Val.le_trans {a b c : Val} (h1 : Val.le a b = true) (h2 : Val.le b c = true) : Val.le a c = true := by
  simp only [Val.le, Bool.or_eq_true, Bool.and_eq_true, decide_eq_true_eq] at h1 h2 ⊢; omega

theorem insertSorted_comm (a b : Val) (l : List Val) :
    insertSorted a (insertSorted b l) = insertSorted b (insertSorted a l) := by
  induction l with
  | nil =>
    simp only [insertSorted]
    by_cases hab : Val.le a b = true <;> by_cases hba : Val.le b a = true
    · have := Val.le_antisymm hab hba; subst this; rfl
    · simp [hab, hba]
    · simp [hab, hba]
    · rcases Val.le_total a b with h | h <;> contradiction
  | cons h t ih =>
    by_cases hah : Val.le a h = true <;> by_cases hbh : Val.le b h = true
    · by_cases hab : Val.le a b = true <;> by_cases hba : Val.le b a = true
      · have := Val.le_antisymm hab hba; subst this; rfl
      · simp [insertSorted, hah, hbh, hab, hba]
      · simp [insertSorted, hah, hbh, hab, hba]
      · rcases Val.le_total a b with h' | h' <;> contradiction
    · -- a ≤ h, ¬ b ≤ h : then ¬ b ≤ a
      have hba : ¬ Val.le b a = true := fun hh => hbh (Val.le_trans hh hah)
      simp [insertSorted, hah, hbh, hba]
    · have hab : ¬ Val.le a b = true := fun hh => hah (Val.le_trans hh hbh)
      simp [insertSorted, hah, hbh, hab]
    · simp [insertSorted, hah, hbh, ih]

theorem sortL_append_singleton (l : List Val) (x : Val) : sortL (l ++ [x]) = insertSorted x (sortL l) := by
  induction l with
  | nil => simp [sortL, insertSorted]
  | cons y ys ih => simp only [List.cons_append, sortL, ih, insertSorted_comm]

theorem length_sortL (l : List Val) : (sortL l).length = l.length := by
  induction l with
  | nil => simp [sortL]
  | cons x xs ih => simp [sortL, length_insertSorted, ih]

theorem mem_sortL (y : Val) (l : List Val) : y ∈ sortL l ↔ y ∈ l := by
  induction l with
  | nil => simp [sortL]
  | cons x xs ih => simp [sortL, mem_insertSorted, ih]

theorem nodup_sortL (l : List Val) : (sortL l).Nodup ↔ l.Nodup := by
  induction l with
  | nil => simp [sortL]
  | cons x xs ih => simp [sortL, nodup_insertSorted, mem_sortL, ih]

theorem insertSorted_perm (x : Val) (l : List Val) : (insertSorted x l).Perm (x :: l) := by
  induction l with
  | nil => exact List.Perm.refl _
  | cons h t ih =>
    simp only [insertSorted]; split
    · exact List.Perm.refl _
    · exact (List.Perm.cons h ih).trans (List.Perm.swap x h t)

theorem sortL_perm (l : List Val) : (sortL l).Perm l := by
  induction l with
  | nil => exact List.Perm.refl _
  | cons x xs ih => exact (insertSorted_perm x _).trans (List.Perm.cons x ih)

/-- membership and duplicate-freeness *by python equality* do not depend on the order -/
theorem keyMem_sortL (k : Key) (l : List Val) : k ∈ (sortL l).map Val.key ↔ k ∈ l.map Val.key :=
  ((sortL_perm l).map Val.key).mem_iff

theorem keyNodup_sortL (l : List Val) : ((sortL l).map Val.key).Nodup ↔ (l.map Val.key).Nodup :=
  ((sortL_perm l).map Val.key).nodup_iff

theorem pySlice_map {α β} (f : α → β) (l : List α) (p : Int) :
    pySliceTo (l.map f) p = (pySliceTo l p).map f ∧ pySliceFrom (l.map f) p = (pySliceFrom l p).map f := by
  simp [pySliceTo, pySliceFrom, List.map_take, List.map_drop]

/-! ### index ranges -/

theorem mem_indices {lo hi j : Int} : j ∈ indices lo hi ↔ lo ≤ j ∧ j ≤ hi := by
  simp only [indices, List.mem_map, List.mem_range]
  constructor
  · rintro ⟨k, hk, rfl⟩; omega
  · intro h; exact ⟨(j - lo).toNat, by omega, by omega⟩

theorem length_indices (lo hi : Int) : (indices lo hi).length = (hi - lo + 1).toNat := by
  simp [indices]

theorem getElem?_indices (lo hi : Int) (k : Nat) :
    (indices lo hi)[k]? = if k < (hi - lo + 1).toNat then some (lo + (k : Int)) else none := by
  simp only [indices, List.getElem?_map]
  split <;> simp_all

end StepModel.PyAgg

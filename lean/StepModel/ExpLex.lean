import StepModel.ExpParse
/-!
# `Express.Lex` — scanner model for the token classes exppp's expression printer emits (property C07)

Follows `src/express/expscan.l` / `lexact.c`: white space separates tokens; a word `[A-Za-z][A-Za-z0-9_]*` is looked up
(upper-cased) in the keyword table (`Generated.ExpPrec.scannerKeywords`): operators AND/OR/…, NOT, the literal keywords, built-in
function names (identifiers for the expression grammar), every other keyword is reserved; digits give an INTEGER or, with a
`.`, a REAL literal; `'…'` with doubled apostrophes, `"…"`, `%bits`; operators and punctuation by longest match
(`lexSym`, checked against `Generated.ExpPrec.scannerSymbols` in the proof files).  Remarks are not tokens of this model
(the glue conditions of the proofs keep `--` and `(*` from arising).
A REAL token carries its spelling here (`strtod` is not modelled).
-/
namespace StepModel.Express
open StepModel.Generated

def isWsC (c : Char) : Bool := c == ' ' || c == '\n' || c == '\t' || c == '\r'
def idChar (c : Char) : Bool := c.isAlphanum || c == '_'

/-- tokens of the literal keywords -/
def litKwToks : List String := ["TOK_LOGICAL_LITERAL", "TOK_PI", "TOK_E", "TOK_SELF", "TOK_QUERY"]

/-- a word as the scanner classifies it; `none`: a reserved word that cannot occur in an expression -/
def classify (w : List Char) : Option Tok :=
  let u := String.ofList (w.map Char.toUpper)
  match lookup2 u ExpPrec.scannerKeywords with
  | none => some (.id (String.ofList w))
  | some tok =>
    if tok = "TOK_BUILTIN_FUNCTION" ∨ tok = "TOK_BUILTIN_PROCEDURE" then some (.id (String.ofList w))
    else if tok = "TOK_NOT" then some .not
    else match BinOp.all.find? (fun o => o.tokName == tok) with
      | some o => some (.op o)
      | none => if litKwToks.contains tok then some (.kw u) else none

/-- body of a simple string literal after the opening apostrophe: up to the first apostrophe that is not doubled -/
def scanStr : List Char → Option (List Char × List Char)
  | [] => none
  | [c] => if c = '\'' then some ([], []) else none
  | c :: d :: r =>
    if c = '\'' then
      if d = '\'' then (scanStr r).map fun (b, r') => ('\'' :: '\'' :: b, r')
      else some ([], d :: r)
    else (scanStr (d :: r)).map fun (b, r') => (c :: b, r')

/-- operators and punctuation, longest match -/
def lexSym : List Char → Option (Tok × List Char)
  | ':' :: '=' :: ':' :: r => some (.op .instEq, r)
  | ':' :: '<' :: '>' :: ':' :: r => some (.op .instNe, r)
  | ':' :: r => some (.colon, r)
  | '<' :: '=' :: r => some (.op .le, r)
  | '<' :: '>' :: r => some (.op .ne, r)
  | '<' :: '*' :: r => some (.allIn, r)
  | '<' :: r => some (.op .lt, r)
  | '>' :: '=' :: r => some (.op .ge, r)
  | '>' :: r => some (.op .gt, r)
  | '=' :: r => some (.op .eq, r)
  | '|' :: '|' :: r => some (.op .concat, r)
  | '|' :: r => some (.bar, r)
  | '*' :: '*' :: r => some (.op .exp, r)
  | '*' :: r => some (.op .times, r)
  | '/' :: r => some (.op .realDiv, r)
  | '+' :: r => some (.op .plus, r)
  | '-' :: r => some (.op .minus, r)
  | '(' :: r => some (.lp, r)
  | ')' :: r => some (.rp, r)
  | '[' :: r => some (.lb, r)
  | ']' :: r => some (.rb, r)
  | ',' :: r => some (.comma, r)
  | '.' :: r => some (.dot, r)
  | '\\' :: r => some (.bslash, r)
  | '?' :: r => some (.kw "?", r)
  | _ => none

/-- one token from text that does not start with white space -/
def lexTok (cs : List Char) : Option (Tok × List Char) :=
  match cs with
  | [] => none
  | c :: r =>
    if c.isAlpha then
      match classify (cs.takeWhile idChar) with
      | some t => some (t, cs.dropWhile idChar)
      | none => none
    else if c.isDigit then
      let ds := cs.takeWhile Char.isDigit
      match cs.dropWhile Char.isDigit with
      | '.' :: r1 =>
        let frac := r1.takeWhile Char.isDigit
        let r2 := r1.dropWhile Char.isDigit
        match r2 with
        | e :: r3 =>
          if e = 'e' ∨ e = 'E' then
            let (sg, r4) := match r3 with
              | '+' :: r4 => (['+'], r4)
              | '-' :: r4 => (['-'], r4)
              | _ => ([], r3)
            let ex := r4.takeWhile Char.isDigit
            if ex.isEmpty then some (.real (ds ++ '.' :: frac), r2)
            else some (.real (ds ++ '.' :: frac ++ e :: sg ++ ex), r4.dropWhile Char.isDigit)
          else some (.real (ds ++ '.' :: frac), r2)
        | [] => some (.real (ds ++ '.' :: frac), [])
      | rest => some (.int (Nat.ofDigitChars 10 ds 0), rest)
    else if c = '\'' then
      match scanStr r with
      | some (b, r') => some (.str b, r')
      | none => none
    else if c = '"' then
      match r.dropWhile (· ≠ '"') with
      | _ :: r' => some (.estr (String.ofList (r.takeWhile (· ≠ '"'))), r')
      | [] => none
    else if c = '%' then
      let bs := r.takeWhile (fun x => x = '0' ∨ x = '1')
      if bs.isEmpty then none else some (.bin (String.ofList bs), r.dropWhile (fun x => x = '0' ∨ x = '1'))
    else lexSym cs

/-- the token sequence of a text (fuel: its length suffices) -/
def lexN : Nat → List Char → Option (List Tok)
  | 0, cs => if cs.all isWsC then some [] else none
  | n + 1, cs =>
    match cs.dropWhile isWsC with
    | [] => some []
    | cs' =>
      match lexTok cs' with
      | some (t, r) => (lexN n r).map (t :: ·)
      | none => none

def lex (cs : List Char) : Option (List Tok) := lexN (cs.length + 1) cs

end StepModel.Express

import StepModel.ExpLexStr
/-!
The glue table made explicit: which two-character sequences cannot arise where two printed tokens touch.
-/
namespace StepModel.Express
open StepModel.Generated

/-- remark opener `--`, `(*`, remark closer `*)`, and the two-character operators `<=`, `:=`, `<>`, `||`, `**` -/
def gluePairs : List (Char × Char) :=
  [('-', '-'), ('(', '*'), ('*', ')'), ('<', '='), (':', '='), ('<', '>'), ('|', '|'), ('*', '*')]

/-- `d` is not the first character of any of these sequences -/
def notFirstB (d : Char) : Bool := d != '-' && d != '(' && d != '*' && d != '<' && d != ':' && d != '|'

theorem pair_of_notFirst (d c : Char) (h : notFirstB d = true) : (d, c) ∉ gluePairs := by
  simp only [notFirstB, Bool.and_eq_true, bne_iff_ne, ne_eq] at h
  obtain ⟨⟨⟨⟨⟨h1, h2⟩, h3⟩, h4⟩, h5⟩, h6⟩ := h
  simp [gluePairs, h1, h2, h3, h4, h5, h6]

theorem idChar_notFirst (d : Char) (h : idChar d = true) : notFirstB d = true := by
  simp only [notFirstB, Bool.and_eq_true, bne_iff_ne, ne_eq]
  refine ⟨⟨⟨⟨⟨?_, ?_⟩, ?_⟩, ?_⟩, ?_⟩, ?_⟩ <;> (rintro rfl; revert h; decide)

theorem ws_pair (d c : Char) (h : isWsC c = true) : (d, c) ∉ gluePairs := by
  simp only [isWsC, Bool.or_eq_true, beq_iff_eq] at h
  rcases h with ((rfl | rfl) | rfl) | rfl <;> simp [gluePairs]

def lastC (o : BinOp) : Char := (o.text.toList.getLast?).getD ' '

theorem op_last (o : BinOp) : o.text.toList.getLast? = some (lastC o) := by cases o <;> decide

theorem op_pairs (o : BinOp) (c : Char) (h : nextOK (.op o) c = true) : (lastC o, c) ∉ gluePairs := by
  by_cases hw : isWsC c = true
  · exact ws_pair _ _ hw
  have hwf : isWsC c = false := by simpa using hw
  have key : ∀ (o : BinOp), notFirstB (lastC o) = true ∨ o = .lt ∨ o = .times ∨ o = .exp ∨ o = .minus ∨ o = .concat ∨ o = .instEq ∨ o = .instNe := by
    intro o; cases o <;> decide
  rcases key o with hk | rfl | rfl | rfl | rfl | rfl | rfl | rfl
  · exact pair_of_notFirst _ _ hk
  · have ht : BinOp.lt.text.toList.all idChar = false := by decide
    have hl : lastC .lt = '<' := by decide
    simp [nextOK, ht, hwf] at h
    simp [gluePairs, hl, h]
  · have ht : BinOp.times.text.toList.all idChar = false := by decide
    have hl : lastC .times = '*' := by decide
    simp [nextOK, ht, hwf] at h
    simp [gluePairs, hl, h]
  · have ht : BinOp.exp.text.toList.all idChar = false := by decide
    have hl : lastC .exp = '*' := by decide
    simp [nextOK, ht, hwf] at h
    simp [gluePairs, hl, h]
  · have ht : BinOp.minus.text.toList.all idChar = false := by decide
    have hl : lastC .minus = '-' := by decide
    simp [nextOK, ht, hwf] at h
    simp [gluePairs, hl, h]
  · have ht : BinOp.concat.text.toList.all idChar = false := by decide
    have hl : lastC .concat = '|' := by decide
    simp [nextOK, ht, hwf] at h
    simp [gluePairs, hl, h]
  · have ht : BinOp.instEq.text.toList.all idChar = false := by decide
    have hl : lastC .instEq = ':' := by decide
    simp [nextOK, ht, hwf] at h
    simp [gluePairs, hl, h]
  · have ht : BinOp.instNe.text.toList.all idChar = false := by decide
    have hl : lastC .instNe = ':' := by decide
    simp [nextOK, ht, hwf] at h
    simp [gluePairs, hl, h]

theorem real_last (s : List Char) (h : RealSp s) (d : Char) (hd : s.getLast? = some d) : notFirstB d = true := by
  obtain ⟨ds, fs, ex, rfl, _, _, hfs, hex⟩ := h
  have dig : ∀ (l : List Char), l.all Char.isDigit = true → ∀ x ∈ l, notFirstB x = true := by
    intro l hl x hx
    simp only [List.all_eq_true] at hl
    exact idChar_notFirst x (digit_idChar x (hl x hx))
  rcases hex with rfl | ⟨e, sg, xs, rfl, _, _, hxne, hxs⟩
  · -- ends with the point or a fraction digit
    simp only [List.append_nil] at hd
    rw [List.getLast?_append] at hd
    cases hf : fs.getLast? with
    | none =>
      have : fs = [] := by simpa [List.getLast?_eq_none_iff] using hf
      subst this
      simp at hd; subst hd; decide
    | some x =>
      have hx : ('.' :: fs).getLast? = some x := by
        cases fs with
        | nil => simp at hf
        | cons a fs' => rw [List.getLast?_cons_cons]; exact hf
      rw [hx] at hd; simp at hd; subst hd
      exact dig fs hfs x (List.mem_of_getLast? hf)
  · -- ends with an exponent digit
    have hs : ds ++ '.' :: (fs ++ e :: (sg ++ xs)) = (ds ++ '.' :: (fs ++ e :: sg)) ++ xs := by simp [List.append_assoc]
    rw [hs, List.getLast?_append] at hd
    cases hx : xs.getLast? with
    | none => exact absurd (by simpa [List.getLast?_eq_none_iff] using hx) hxne
    | some x =>
      rw [hx] at hd; simp at hd; subst hd
      exact dig xs hxs x (List.mem_of_getLast? hx)

/-- **the glue table**: wherever a printed token `t` may be followed directly by the character `c` (`nextOK`), the last character
of `t` and `c` do not form a remark opener `--` / `(*`, a remark closer `*)`, or one of `<=`, `:=`, `<>`, `||`, `**` -/
theorem no_glue_pairs (t : Tok) (hw : TokWF t) (c d : Char) (hd : (sp t).getLast? = some d) (h : nextOK t c = true) :
    (d, c) ∉ gluePairs := by
  by_cases hws : isWsC c = true
  · exact ws_pair _ _ hws
  have hwf : isWsC c = false := by simpa using hws
  have hmem : d ∈ sp t := List.mem_of_getLast? hd
  have allNF : (∀ x ∈ sp t, notFirstB x = true) → (d, c) ∉ gluePairs := fun hall => pair_of_notFirst _ _ (hall d hmem)
  cases t with
  | id s =>
    apply allNF
    intro x hx
    have := hw.2.1
    simp only [List.all_eq_true] at this
    exact idChar_notFirst x (this x hx)
  | int n =>
    apply allNF
    intro x hx
    rw [sp_int] at hx
    exact idChar_notFirst x (digit_idChar x (Nat.isDigit_of_mem_toDigits (by omega) (by omega) hx))
  | real s => exact pair_of_notFirst _ _ (real_last s hw d hd)
  | str b =>
    have : d = '\'' := by
      simp only [sp] at hd
      rw [List.getLast?_append] at hd
      simpa using hd.symm
    subst this; exact pair_of_notFirst _ _ (by decide)
  | estr s =>
    have : d = '"' := by
      simp only [sp] at hd
      rw [List.getLast?_append] at hd
      simpa using hd.symm
    subst this; exact pair_of_notFirst _ _ (by decide)
  | bin s =>
    apply allNF
    intro x hx
    simp only [sp, List.mem_cons] at hx
    rcases hx with rfl | hx
    · decide
    · have := hw.2
      simp only [List.all_eq_true, decide_eq_true_eq] at this
      rcases this x hx with rfl | rfl <;> decide
  | kw s =>
    apply allNF
    simp only [TokWF, List.mem_cons, List.mem_nil_iff, or_false] at hw
    rcases hw with rfl | rfl | rfl | rfl | rfl | rfl | rfl | rfl <;> decide
  | op o =>
    have : d = lastC o := by
      simp only [sp] at hd
      rw [op_last] at hd
      exact (Option.some.inj hd).symm
    subst this
    exact op_pairs o c h
  | not => apply allNF; decide
  | lp =>
    have : d = '(' := by simpa [sp] using hd.symm
    subst this
    simp [nextOK, hwf] at h
    simp [gluePairs, h]
  | rp => apply allNF; decide
  | lb => apply allNF; decide
  | rb => apply allNF; decide
  | comma => apply allNF; decide
  | colon =>
    have : d = ':' := by simpa [sp] using hd.symm
    subst this
    simp [nextOK, hwf] at h
    simp [gluePairs, h]
  | dot => apply allNF; decide
  | bslash => apply allNF; decide
  | bar =>
    have : d = '|' := by simpa [sp] using hd.symm
    subst this
    simp [nextOK, hwf] at h
    simp [gluePairs, h]
  | allIn =>
    have : d = '*' := by simpa [sp] using hd.symm
    subst this
    simp [nextOK, hwf] at h
    simp [gluePairs, h]

end StepModel.Express

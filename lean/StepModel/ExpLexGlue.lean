import StepModel.ExpLexStr
/-!
The glue table made explicit: which two-character sequences cannot arise where two printed tokens touch.
-/
namespace StepModel.Express
open StepModel.Generated

/-- remark opener `--`, `(*`, remark closer `*)`, and the two-character operators `<=`, `:=`, `<>`, `||`, `**` -/
def gluePairs : List (Char × Char) :=
  [('-', '-'), ('(', '*'), ('*', ')'), ('<', '='), (':', '='), ('<', '>'), ('|', '|'), ('*', '*')]

/-- `d` is not the first character of any of these sequences -/
def notFirstB (d : Char) : Bool := d != '-' && d != '(' && d != '*' && d != '<' && d != ':' && d != '|'

theorem pair_of_notFirst (d c : Char) (h : notFirstB d = true) : (d, c) ∉ gluePairs := by
  simp only [notFirstB, Bool.and_eq_true, bne_iff_ne, ne_eq] at h
  obtain ⟨⟨⟨⟨⟨h1, h2⟩, h3⟩, h4⟩, h5⟩, h6⟩ := h
  simp [gluePairs, h1, h2, h3, h4, h5, h6]

theorem idChar_notFirst (d : Char) (h : idChar d = true) : notFirstB d = true := by
  simp only [notFirstB, Bool.and_eq_true, bne_iff_ne, ne_eq]
  refine ⟨⟨⟨⟨⟨?_, ?_⟩, ?_⟩, ?_⟩, ?_⟩, ?_⟩ <;> (rintro rfl; revert h; decide)

theorem ws_pair (d c : Char) (h : isWsC c = true) : (d, c) ∉ gluePairs := by
  simp only [isWsC, Bool.or_eq_true, beq_iff_eq] at h
  rcases h with ((rfl | rfl) | rfl) | rfl <;> simp [gluePairs]

def lastC (o : BinOp) : Char := (o.text.toList.getLast?).getD ' '

theorem op_last (o : BinOp) : o.text.toList.getLast? = some (lastC o) := by cases o <;> decide

theorem op_pairs (o : BinOp) (c : Char) (h : nextOK (.op o) c = true) : (lastC o, c) ∉ gluePairs := by
  by_cases hw : isWsC c = true
  · exact ws_pair _ _ hw
  have hwf : isWsC c = false := by simpa using hw
  have key : ∀ (o : BinOp), notFirstB (lastC o) = true ∨ o = .lt ∨ o = .times ∨ o = .exp ∨ o = .minus ∨ o = .concat ∨ o = .instEq ∨ o = .instNe := by
    intro o; cases o <;> decide
  rcases key o with hk | rfl | rfl | rfl | rfl | rfl | rfl | rfl
  · exact pair_of_notFirst _ _ hk
  · have ht : BinOp.lt.text.toList.all idChar = false := by decide
    have hl : lastC .lt = '<' := by decide
    simp [nextOK, ht, hwf] at h
    simp [gluePairs, hl, h]
  · have ht : BinOp.times.text.toList.all idChar = false := by decide
    have hl : lastC .times = '*' := by decide
    simp [nextOK, ht, hwf] at h
    simp [gluePairs, hl, h]
  · have ht : BinOp.exp.text.toList.all idChar = false := by decide
    have hl : lastC .exp = '*' := by decide
    simp [nextOK, ht, hwf] at h
    simp [gluePairs, hl, h]
  · have ht : BinOp.minus.text.toList.all idChar = false := by decide
    have hl : lastC .minus = '-' := by decide
    simp [nextOK, ht, hwf] at h
    simp [gluePairs, hl, h]
  · have ht : BinOp.concat.text.toList.all idChar = false := by decide
    have hl : lastC .concat = '|' := by decide
    simp [nextOK, ht, hwf] at h
    simp [gluePairs, hl, h]
  · have ht : BinOp.instEq.text.toList.all idChar = false := by decide
    have hl : lastC .instEq = ':' := by decide
    simp [nextOK, ht, hwf] at h
    simp [gluePairs, hl, h]
  · have ht : BinOp.instNe.text.toList.all idChar = false := by decide
    have hl : lastC .instNe = ':' := by decide
    simp [nextOK, ht, hwf] at h
    simp [gluePairs, hl, h]

theorem real_last (s : List Char) (h : RealSp s) (d : Char) (hd : s.getLast? = some d) : notFirstB d = true := by
  obtain ⟨ds, fs, ex, rfl, _, _, hfs, hex⟩ := h
  have dig : ∀ (l : List Char), l.all Char.isDigit = true → ∀ x ∈ l, notFirstB x = true := by
    intro l hl x hx
    simp only [List.all_eq_true] at hl
    exact idChar_notFirst x (digit_idChar x (hl x hx))
  rcases hex with rfl | ⟨e, sg, xs, rfl, _, _, hxne, hxs⟩
  · -- ends with the point or a fraction digit
    simp only [List.append_nil] at hd
    rw [List.getLast?_append] at hd
    cases hf : fs.getLast? with
    | none =>
      have : fs = [] := by simpa [List.getLast?_eq_none_iff] using hf
      subst this
      simp at hd; subst hd; decide
    | some x =>
      have hx : ('.' :: fs).getLast? = some x := by
        cases fs with
        | nil => simp at hf
        | cons a fs' => rw [List.getLast?_cons_cons]; exact hf
      rw [hx] at hd; simp at hd; subst hd
      exact dig fs hfs x (List.mem_of_getLast? hf)
  · -- ends with an exponent digit
    have hs : ds ++ '.' :: (fs ++ e :: (sg ++ xs)) = (ds ++ '.' :: (fs ++ e :: sg)) ++ xs := by simp [List.append_assoc]
    rw [hs, List.getLast?_append] at hd
    cases hx : xs.getLast? with
    | none => exact absurd (by simpa [List.getLast?_eq_none_iff] using hx) hxne
    | some x =>
      rw [hx] at hd; simp at hd; subst hd
      exact dig xs hxs x (List.mem_of_getLast? hx)

/-- **the glue table**: wherever a printed token `t` may be followed directly by the character `c` (`nextOK`), the last character
of `t` and `c` do not form a remark opener `--` / `(*`, a remark closer `*)`, or one of `<=`, `:=`, `<>`, `||`, `**` -/
theorem no_glue_pairs (t : Tok) (hw : TokWF t) (c d : Char) (hd : (sp t).getLast? = some d) (h : nextOK t c = true) :
    (d, c) ∉ gluePairs := by
  by_cases hws : isWsC c = true
  · exact ws_pair _ _ hws
  have hwf : isWsC c = false := by simpa using hws
  have hmem : d ∈ sp t := List.mem_of_getLast? hd
  have allNF : (∀ x ∈ sp t, notFirstB x = true) → (d, c) ∉ gluePairs := fun hall => pair_of_notFirst _ _ (hall d hmem)
  cases t with
  | id s =>
    apply allNF
    intro x hx
    have := hw.2.1
    simp only [List.all_eq_true] at this
    exact idChar_notFirst x (this x hx)
  | int n =>
    apply allNF
    intro x hx
    rw [sp_int] at hx
    exact idChar_notFirst x (digit_idChar x (Nat.isDigit_of_mem_toDigits (by omega) (by omega) hx))
  | real s => exact pair_of_notFirst _ _ (real_last s hw d hd)
  | str b =>
    have : d = '\'' := by
      simp only [sp] at hd
      rw [List.getLast?_append] at hd
      simpa using hd.symm
    subst this; exact pair_of_notFirst _ _ (by decide)
  | estr s =>
    have : d = '"' := by
      simp only [sp] at hd
      rw [List.getLast?_append] at hd
      simpa using hd.symm
    subst this; exact pair_of_notFirst _ _ (by decide)
  | bin s =>
    apply allNF
    intro x hx
    simp only [sp, List.mem_cons] at hx
    rcases hx with rfl | hx
    · decide
    · have := hw.2
      simp only [List.all_eq_true, decide_eq_true_eq] at this
      rcases this x hx with rfl | rfl <;> decide
  | kw s =>
    apply allNF
    simp only [TokWF, List.mem_cons, List.mem_nil_iff, or_false] at hw
    rcases hw with rfl | rfl | rfl | rfl | rfl | rfl | rfl | rfl <;> decide
  | op o =>
    have : d = lastC o := by
      simp only [sp] at hd
      rw [op_last] at hd
      exact (Option.some.inj hd).symm
    subst this
    exact op_pairs o c h
  | not => apply allNF; decide
  | lp =>
    have : d = '(' := by simpa [sp] using hd.symm
    subst this
    simp [nextOK, hwf] at h
    simp [gluePairs, h]
  | rp => apply allNF; decide
  | lb => apply allNF; decide
  | rb => apply allNF; decide
  | comma => apply allNF; decide
  | colon =>
    have : d = ':' := by simpa [sp] using hd.symm
    subst this
    simp [nextOK, hwf] at h
    simp [gluePairs, h]
  | dot => apply allNF; decide
  | bslash => apply allNF; decide
  | bar =>
    have : d = '|' := by simpa [sp] using hd.symm
    subst this
    simp [nextOK, hwf] at h
    simp [gluePairs, h]
  | allIn =>
    have : d = '*' := by simpa [sp] using hd.symm
    subst this
    simp [nextOK, hwf] at h
    simp [gluePairs, h]

/-! ### no remark opener or closer in the laid-out text of an expression -/

def remarkPairs : List (Char × Char) := [('-', '-'), ('(', '*'), ('*', ')')]

/-- does the text contain one of the two-character sequences -/
def hasPair (ps : List (Char × Char)) : List Char → Bool
  | a :: b :: r => ps.contains (a, b) || hasPair ps (b :: r)
  | _ => false

/-- the two characters that meet where `A` ends and `B` begins -/
def boundary (ps : List (Char × Char)) (A B : List Char) : Bool :=
  match A.getLast?, B.head? with
  | some d, some c => ps.contains (d, c)
  | _, _ => false

theorem noPair_append (ps : List (Char × Char)) : ∀ (A B : List Char), hasPair ps A = false → hasPair ps B = false →
    boundary ps A B = false → hasPair ps (A ++ B) = false := by
  intro A
  induction A with
  | nil => intro B _ hB _; simpa using hB
  | cons a A' ih =>
    intro B hA hB hb
    cases A' with
    | nil =>
      cases B with
      | nil => simp [hasPair]
      | cons c B' =>
        simp only [boundary, List.getLast?_singleton, List.head?_cons] at hb
        simp only [List.cons_append, List.nil_append, hasPair, hb, Bool.false_or]
        exact hB
    | cons b A'' =>
      simp only [hasPair, Bool.or_eq_false_iff] at hA
      have hb' : boundary ps (b :: A'') B = false := by
        simpa [boundary, List.getLast?_cons_cons] using hb
      simp only [List.cons_append, hasPair, hA.1, Bool.false_or]
      exact ih B hA.2 hB hb'

theorem gluePairs_remark (d c : Char) (h : (d, c) ∉ gluePairs) : remarkPairs.contains (d, c) = false := by
  simp only [gluePairs, List.mem_cons, List.mem_nil_iff, or_false, not_or] at h
  simp only [remarkPairs, List.contains_cons, List.contains_nil, Bool.or_false, Bool.or_eq_false_iff, beq_eq_false_iff_ne, ne_eq]
  exact ⟨h.1, h.2.1, h.2.2.1⟩

theorem ws_not_second (d c : Char) (h : isWsC c = true) : remarkPairs.contains (d, c) = false :=
  gluePairs_remark d c (ws_pair d c h)

theorem ws_not_first (d c : Char) (h : isWsC d = true) : remarkPairs.contains (d, c) = false := by
  simp only [isWsC, Bool.or_eq_true, beq_iff_eq] at h
  rcases h with ((rfl | rfl) | rfl) | rfl <;> simp [remarkPairs]

theorem noPair_ws (W : List Char) (h : W.all isWsC = true) : hasPair remarkPairs W = false := by
  induction W with
  | nil => rfl
  | cons a W ih =>
    simp only [List.all_cons, Bool.and_eq_true] at h
    cases W with
    | nil => rfl
    | cons b W' =>
      simp only [hasPair, ws_not_first a b h.1, Bool.false_or]
      exact ih h.2

def nf3 (x : Char) : Bool := x != '-' && x != '(' && x != '*'

theorem contains_nf3 (a b : Char) (h : nf3 a = true) : remarkPairs.contains (a, b) = false := by
  simp only [nf3, Bool.and_eq_true, bne_iff_ne, ne_eq] at h
  simp [remarkPairs, h.1.1, h.1.2, h.2]

theorem ws_nf3 (c : Char) (h : isWsC c = true) : nf3 c = true := by
  simp only [isWsC, Bool.or_eq_true, beq_iff_eq] at h
  rcases h with ((rfl | rfl) | rfl) | rfl <;> decide

/-- how the text ends, seen from the token that may still be open -/
def End (T : List Char) : Option Tok → Prop
  | none => T = [] ∨ ∃ c, T.getLast? = some c ∧ nf3 c = true
  | some t => ∃ d, (sp t).getLast? = some d ∧ T.getLast? = some d

def CleanT (T : List Char) (lt : Option Tok) : Prop := hasPair remarkPairs T = false ∧ End T lt

theorem boundary_ws_right (A W : List Char) (hW : W.all isWsC = true) : boundary remarkPairs A W = false := by
  unfold boundary
  cases hA : A.getLast? with
  | none => rfl
  | some d =>
    cases W with
    | nil => rfl
    | cons c W' =>
      simp only [List.all_cons, Bool.and_eq_true] at hW
      simpa using ws_not_second d c hW.1

theorem getLast?_append_ne {T S : List Char} (h : S ≠ []) : (T ++ S).getLast? = S.getLast? := by
  rw [List.getLast?_append]
  cases hs : S.getLast? with
  | none => exact absurd (by simpa [List.getLast?_eq_none_iff] using hs) h
  | some x => rfl

/-- appending white space -/
theorem clean_ws {T : List Char} {lt : Option Tok} (h : CleanT T lt) (W : List Char) (hW : W.all isWsC = true) (hne : W ≠ []) :
    CleanT (T ++ W) none := by
  refine ⟨noPair_append _ T W h.1 (noPair_ws W hW) (boundary_ws_right T W hW), Or.inr ?_⟩
  rw [getLast?_append_ne hne]
  obtain ⟨c, hc⟩ : ∃ c, W.getLast? = some c := by
    cases hl : W.getLast? with
    | none => exact absurd (by simpa [List.getLast?_eq_none_iff] using hl) hne
    | some c => exact ⟨c, rfl⟩
  refine ⟨c, hc, ?_⟩
  simp only [List.all_eq_true] at hW
  exact ws_nf3 c (hW c (List.mem_of_getLast? hc))

/-- appending a token whose own spelling is clean, after white space / at the start / directly after a token it may follow -/
theorem clean_tok {T : List Char} {lt : Option Tok} (h : CleanT T lt) (t : Tok) (hw : TokWF t)
    (hsp : hasPair remarkPairs (sp t) = false) (hadj : ∀ t0, lt = some t0 → TokWF t0 ∧ adjOK t0 t = true) :
    CleanT (T ++ sp t) (some t) := by
  obtain ⟨c0, d, r, hs, _, hlast, _⟩ := sp_ends t hw
  have hne : sp t ≠ [] := by rw [hs]; simp
  refine ⟨noPair_append _ T (sp t) h.1 hsp ?_, ⟨d, hlast, by rw [getLast?_append_ne hne]; exact hlast⟩⟩
  unfold boundary
  cases hT : T.getLast? with
  | none => rfl
  | some x =>
    rw [hs]
    simp only [List.head?_cons]
    cases lt with
    | none =>
      rcases h.2 with h0 | ⟨c, hc, hcw⟩
      · rw [h0] at hT; simp at hT
      · rw [hT] at hc; cases hc; exact contains_nf3 x c0 hcw
    | some t0 =>
      obtain ⟨d0, hd0, hT0⟩ := h.2
      rw [hT] at hT0; cases hT0
      obtain ⟨hw0, ha⟩ := hadj t0 rfl
      refine gluePairs_remark x c0 ?_
      apply no_glue_pairs t0 hw0 c0 x hd0
      simpa [adjOK, hs] using ha

def WfO (lt : Option Tok) : Prop := ∀ t0, lt = some t0 → TokWF t0

theorem clean_body : ∀ (body : List (Tok × Nat)) (T : List Char) (lt : Option Tok), CleanT T lt → WfO lt → bodySafe lt body →
    (∀ x ∈ body, hasPair remarkPairs (sp x.1) = false) →
    CleanT (T ++ bodyText body) (endAfter lt body) ∧ WfO (endAfter lt body) := by
  intro body
  induction body with
  | nil => intro T lt h hw _ _; simpa [bodyText, endAfter] using And.intro h hw
  | cons x rest ih =>
    obtain ⟨t, g⟩ := x
    intro T lt h hw hs hcl
    obtain ⟨hwf, hadj, hrest⟩ := hs
    have h1 := clean_tok h t hwf (hcl (t, g) (by simp)) (fun t0 h0 => ⟨hw t0 h0, hadj t0 h0⟩)
    have h2 : CleanT (T ++ sp t ++ blanks g) (nxt t g) ∧ WfO (nxt t g) := by
      by_cases hg : g = 0
      · subst hg
        simp only [blanks, List.replicate_zero, List.append_nil, nxt, if_true]
        exact ⟨h1, fun t0 h0 => by cases h0; exact hwf⟩
      · have hn : nxt t g = none := by simp [nxt, hg]
        rw [hn]
        exact ⟨clean_ws h1 (blanks g) (blanks_ws g) (fun hb => hg ((blanks_eq_nil g).mp hb)), fun t0 h0 => by cases h0⟩
    have := ih (T ++ sp t ++ blanks g) (nxt t g) h2.1 h2.2 hrest (fun y hy => hcl y (List.mem_cons_of_mem _ hy))
    simpa [bodyText, endAfter, List.append_assoc] using this

theorem clean_piece (T : List Char) (lt : Option Tok) (h : CleanT T lt) (hw : WfO lt) (ws : List Char) (hws : ws.all isWsC = true)
    (body : List (Tok × Nat)) (hsafe : bodySafe (if ws = [] then lt else none) body)
    (hcl : ∀ x ∈ body, hasPair remarkPairs (sp x.1) = false) :
    CleanT (T ++ ws ++ bodyText body) (endAfter (if ws = [] then lt else none) body)
      ∧ WfO (endAfter (if ws = [] then lt else none) body) := by
  by_cases hw0 : ws = []
  · subst hw0
    simp only [if_true, List.append_nil] at hsafe ⊢
    exact clean_body body T lt h hw hsafe hcl
  · simp only [hw0, if_false] at hsafe ⊢
    exact clean_body body (T ++ ws) none (clean_ws h ws hws hw0) (fun t0 h0 => by cases h0) hsafe hcl

/-- what one fragment adds to the text: white space (nothing, blanks, or a line break with its indent and blanks), then the tokens
of the fragment with the blanks after them -/
theorem step_shape (st : PState) (TS : List Tok) (lt slt : Option Tok) (a : AFrag) (hK : K st TS lt) (hr : lt = none ∨ lt = slt)
    (hs : bodySafe (a.prev slt) a.body) :
    ∃ ws, ws.all isWsC = true ∧ (step st a.frag).text = st.text ++ ws ++ bodyText a.body
      ∧ bodySafe (if ws = [] then lt else none) a.body
      ∧ ((if ws = [] then lt else none) = none ∨ (if ws = [] then lt else none) = a.prev slt) ∧ Inv (step st a.frag) := by
  obtain ⟨hinv, hlex, hE⟩ := hK
  unfold AFrag.frag
  split
  · -- wrap
    obtain ⟨sep, k, htext, hsep, htake, hhead⟩ := wrap_piece st hinv a.text
    have hB := bodyText_head a.body (bodySafe_none hs)
    have hdrop : a.text.drop k = blanks (a.lead - k) ++ bodyText a.body := drop_blanks_body a.lead k _ hB htake
    have hwsAll : (sep ++ blanks (a.lead - k)).all isWsC = true := by
      rw [List.all_append, blanks_ws, Bool.and_true]
      rcases hsep with rfl | rfl
      · rfl
      · exact newlinePiece_ws _
    have hp : (if sep ++ blanks (a.lead - k) = [] then lt else none) = none
        ∨ (if sep ++ blanks (a.lead - k) = [] then lt else none) = a.prev slt := by
      by_cases hw : sep ++ blanks (a.lead - k) = []
      · rw [if_pos hw]
        obtain ⟨hs1, hs2⟩ := List.append_eq_nil_iff.mp hw
        by_cases hl : a.lead = 0
        · simp only [AFrag.prev, hl, if_true]; exact hr
        · left
          have hh : a.text.head? = some ' ' := by
            cases hlead : a.lead with
            | zero => exact absurd hlead hl
            | succ n => simp [AFrag.text, hlead, blanks, List.replicate_succ]
          rcases hhead hh with h1 | h1 | h1
          · exact absurd hs1 h1
          · exact hE h1
          · exfalso
            rw [hdrop, hs2, List.nil_append] at h1
            rcases hB with hb | ⟨c, r, hb, hc⟩
            · rw [hb] at h1; simp at h1
            · rw [hb] at h1; simp at h1; exact hc h1
      · rw [if_neg hw]; exact Or.inl rfl
    refine ⟨sep ++ blanks (a.lead - k), hwsAll, ?_, bodySafe_refine hp hs, hp, inv_wrap st _ hinv⟩
    simp only [step]
    rw [htext, hdrop]; simp [List.append_assoc]
  · -- raw
    have hp : (if blanks a.lead = [] then lt else none) = none ∨ (if blanks a.lead = [] then lt else none) = a.prev slt := by
      by_cases hl : a.lead = 0
      · have hb : blanks a.lead = [] := (blanks_eq_nil _).mpr hl
        rw [if_pos hb]
        have : a.prev slt = slt := by simp [AFrag.prev, hl]
        rw [this]; exact hr
      · have hb : blanks a.lead ≠ [] := fun h => hl ((blanks_eq_nil _).mp h)
        rw [if_neg hb]; exact Or.inl rfl
    refine ⟨blanks a.lead, blanks_ws _, ?_, bodySafe_refine hp hs, hp, inv_raw st _ hinv⟩
    simp only [step, text_raw, AFrag.text, List.append_assoc]

/-- Part I once more, carrying the text invariant: no remark opener or closer arises -/
theorem KC_run (as : List AFrag) : ∀ (st : PState) (TS : List Tok) (lt slt : Option Tok), K st TS lt → CleanT st.text lt → WfO lt →
    (lt = none ∨ lt = slt) → SafeSeq slt as → (∀ a ∈ as, ∀ x ∈ a.body, hasPair remarkPairs (sp x.1) = false) →
    ∃ lt', K (run st (as.map AFrag.frag)) (TS ++ as.flatMap AFrag.toks) lt' ∧ CleanT (run st (as.map AFrag.frag)).text lt' := by
  induction as with
  | nil => intro st TS lt slt hK hC _ _ _ _; exact ⟨lt, by simpa [run] using hK, by simpa [run] using hC⟩
  | cons a as ih =>
    intro st TS lt slt hK hC hW hr hs hcl
    obtain ⟨ws, hws, htext, hsafe, hp, hinv'⟩ := step_shape st TS lt slt a hK hr hs.1
    have hl := lexInv_piece st.text TS lt hK.2.1 hK.2.2 ws hws a.body hsafe
    have hc := clean_piece st.text lt hC hW ws hws a.body hsafe (hcl a (by simp))
    have hK1 : K (step st a.frag) (TS ++ a.toks) (endAfter (if ws = [] then lt else none) a.body) := by
      refine ⟨hinv', ?_, ?_⟩
      · rw [htext]; exact hl.1
      · rw [htext]; exact hl.2
    have hr1 : endAfter (if ws = [] then lt else none) a.body = none
        ∨ endAfter (if ws = [] then lt else none) a.body = a.flow slt := endAfter_refine a.body hp
    obtain ⟨lt2, hK2, hC2⟩ := ih (step st a.frag) (TS ++ a.toks) _ (a.flow slt) hK1 (by rw [htext]; exact hc.1) hc.2 hr1 hs.2
      (fun b hb => hcl b (List.mem_cons_of_mem _ hb))
    exact ⟨lt2, by simpa [run, List.flatMap_cons, List.append_assoc] using hK2, by simpa [run] using hC2⟩

/-! ### a token's own spelling contains no remark opener or closer (string literals apart) -/

theorem noPair_of_chars : ∀ (l : List Char), (∀ x ∈ l, nf3 x = true) → hasPair remarkPairs l = false := by
  intro l
  induction l with
  | nil => intro _; rfl
  | cons a l ih =>
    intro h
    cases l with
    | nil => rfl
    | cons b l' =>
      simp only [hasPair, contains_nf3 a b (h a (by simp)), Bool.false_or]
      exact ih (fun x hx => h x (List.mem_cons_of_mem _ hx))

theorem idChar_nf3 (x : Char) (h : idChar x = true) : nf3 x = true := by
  simp only [nf3, Bool.and_eq_true, bne_iff_ne, ne_eq]
  refine ⟨⟨?_, ?_⟩, ?_⟩ <;> (rintro rfl; revert h; decide)

theorem boundary_nf3 (A B : List Char) (h : ∀ x ∈ A, nf3 x = true) : boundary remarkPairs A B = false := by
  unfold boundary
  cases hA : A.getLast? with
  | none => rfl
  | some d =>
    cases B with
    | nil => rfl
    | cons c B' => simpa using contains_nf3 d c (h d (List.mem_of_getLast? hA))

theorem real_clean (s : List Char) (h : RealSp s) : hasPair remarkPairs s = false := by
  obtain ⟨ds, fs, ex, rfl, _, hds, hfs, hex⟩ := h
  have dig : ∀ (l : List Char), l.all Char.isDigit = true → ∀ x ∈ l, nf3 x = true := by
    intro l hl x hx
    simp only [List.all_eq_true] at hl
    exact idChar_nf3 x (digit_idChar x (hl x hx))
  have hA : ∀ x ∈ ds ++ '.' :: fs, nf3 x = true := by
    intro x hx
    simp only [List.mem_append, List.mem_cons] at hx
    rcases hx with hx | rfl | hx
    · exact dig ds hds x hx
    · decide
    · exact dig fs hfs x hx
  have hs : ds ++ '.' :: (fs ++ ex) = (ds ++ '.' :: fs) ++ ex := by simp [List.append_assoc]
  rw [hs]
  refine noPair_append _ _ _ (noPair_of_chars _ hA) ?_ (boundary_nf3 _ _ hA)
  rcases hex with rfl | ⟨e, sg, xs, rfl, he, hsg, hxne, hxs⟩
  · rfl
  · have he3 : nf3 e = true := by rcases he with rfl | rfl <;> decide
    rcases hsg with rfl | rfl | rfl
    · apply noPair_of_chars
      intro x hx
      simp only [List.nil_append, List.mem_cons] at hx
      rcases hx with rfl | hx
      · exact he3
      · exact dig xs hxs x hx
    · apply noPair_of_chars
      intro x hx
      simp only [List.cons_append, List.nil_append, List.mem_cons] at hx
      rcases hx with rfl | rfl | hx
      · exact he3
      · decide
      · exact dig xs hxs x hx
    · cases xs with
      | nil => exact absurd rfl hxne
      | cons x0 xs' =>
        have hx0 : nf3 x0 = true := dig _ hxs x0 (by simp)
        have h0 : x0 ≠ '-' := by
          simp only [nf3, Bool.and_eq_true, bne_iff_ne, ne_eq] at hx0; exact hx0.1.1
        simp only [List.cons_append, List.nil_append, hasPair, contains_nf3 e '-' he3, Bool.false_or]
        have : remarkPairs.contains ('-', x0) = false := by simp [remarkPairs, h0, Ne.symm h0]
        rw [this, Bool.false_or]
        exact noPair_of_chars _ (fun x hx => dig _ hxs x hx)

/-- every token other than a string literal is spelled without `--`, `(*`, `*)` -/
theorem tok_clean (t : Tok) (hw : TokWF t) (hs : ∀ b, t ≠ .str b) (he : ∀ b, t ≠ .estr b) : hasPair remarkPairs (sp t) = false := by
  cases t with
  | id s =>
    apply noPair_of_chars
    intro x hx
    have := hw.2.1
    simp only [List.all_eq_true] at this
    exact idChar_nf3 x (this x hx)
  | int n =>
    apply noPair_of_chars
    intro x hx
    rw [sp_int] at hx
    exact idChar_nf3 x (digit_idChar x (Nat.isDigit_of_mem_toDigits (by omega) (by omega) hx))
  | real s => exact real_clean s hw
  | str b => exact absurd rfl (hs b)
  | estr b => exact absurd rfl (he b)
  | bin s =>
    apply noPair_of_chars
    intro x hx
    simp only [sp, List.mem_cons] at hx
    rcases hx with rfl | hx
    · decide
    · have := hw.2
      simp only [List.all_eq_true, decide_eq_true_eq] at this
      rcases this x hx with rfl | rfl <;> decide
  | kw s =>
    simp only [TokWF, List.mem_cons, List.mem_nil_iff, or_false] at hw
    rcases hw with rfl | rfl | rfl | rfl | rfl | rfl | rfl | rfl <;> decide
  | op o => cases o <;> decide
  | _ => decide

/-! ### a split string literal is re-joined -/

/-- the expression the parser builds from `'x1' + 'x2' + …`: the left-nested sum of the literals -/
def sumExpr : List Char → List (List Char) → Expr
  | x, [] => .lit (.str x)
  | x, y :: ys => sumFrom (.lit (.str x)) (y :: ys)
where sumFrom : Expr → List (List Char) → Expr
  | acc, [] => acc
  | acc, y :: ys => sumFrom (.bin .plus acc (.lit (.str y))) ys

theorem joinStr_sumFrom : ∀ (ys : List (List Char)) (a : List Char) (acc : Expr), joinStr acc = .lit (.str a) →
    joinStr (sumExpr.sumFrom acc ys) = .lit (.str (a ++ ys.flatten)) := by
  intro ys
  induction ys with
  | nil => intro a acc h; simpa [sumExpr.sumFrom] using h
  | cons y ys ih =>
    intro a acc h
    have : joinStr (.bin .plus acc (.lit (.str y))) = .lit (.str (a ++ y)) := by
      simp [joinStr, h]
    have := ih (a ++ y) _ this
    simpa [sumExpr.sumFrom, List.append_assoc] using this

theorem joinStr_sumExpr (x : List Char) (ys : List (List Char)) : joinStr (sumExpr x ys) = .lit (.str (x ++ ys.flatten)) := by
  cases ys with
  | nil => simp [sumExpr, joinStr]
  | cons y ys' => exact joinStr_sumFrom (y :: ys') x _ (by simp [joinStr])

theorem binParen_plus_chain : binParen .plus true (some .plus) = false := by decide

/-- the tokens of a left-nested sum of literals, as a left operand of `+` or at top level without parentheses -/
theorem toks_sumFrom : ∀ (ys : List (List Char)) (acc : Expr) (p : Bool) (q : Option BinOp),
    (ys ≠ [] → binParen .plus p q = false) →
    (∀ p' q', (∃ a b, acc = .bin .plus a b) → binParen .plus p' q' = false → True) →
    toks Shared.clean (sumExpr.sumFrom acc ys) p q
      = (if ys = [] then toks Shared.clean acc p q else toks Shared.clean acc true (some .plus))
        ++ ys.flatMap (fun y => [.op .plus, .str (escQ y)]) := by
  intro ys
  induction ys with
  | nil => intro acc p q _ _; simp [sumExpr.sumFrom]
  | cons y ys ih =>
    intro acc p q hp _
    have hpq := hp (by simp)
    have hr : rprev .plus = none := rprev_none .plus
    have := ih (.bin .plus acc (.lit (.str y))) p q (fun _ => hpq) (fun _ _ _ _ => trivial)
    rw [sumExpr.sumFrom, this]
    by_cases hys : ys = []
    · subst hys
      simp [toks, hpq, hr, litToks]
    · simp [hys, toks, binParen_plus_chain, hr, litToks]

theorem sumToks_cons (g : List Char) (gs : List (List Char)) :
    sumToks (g :: gs) = .str g :: gs.flatMap (fun g' => [.op .plus, .str g']) := by
  induction gs generalizing g with
  | nil => rfl
  | cons g' gs ih => simp [sumToks, ih g']

theorem wfE_sumFrom : ∀ (ys : List (List Char)) (acc : Expr), wfE acc → wfE (sumExpr.sumFrom acc ys) := by
  intro ys
  induction ys with
  | nil => intro acc h; simpa [sumExpr.sumFrom] using h
  | cons y ys ih => intro acc h; exact ih _ (by simp [wfE, h, LitWF])

theorem wfE_sumExpr (x : List Char) (ys : List (List Char)) : wfE (sumExpr x ys) := by
  cases ys with
  | nil => simp [sumExpr, wfE, LitWF]
  | cons y ys' => exact wfE_sumFrom _ _ (by simp [wfE, LitWF])

theorem toks_sumExpr (x : List Char) (ys : List (List Char)) (p : Bool) (q : Option BinOp) (hp : ys ≠ [] → binParen .plus p q = false) :
    toks Shared.clean (sumExpr x ys) p q = sumToks ((x :: ys).map escQ) := by
  rw [List.map_cons, sumToks_cons]
  cases ys with
  | nil => simp [sumExpr, toks, litToks]
  | cons y ys' =>
    rw [sumExpr, toks_sumFrom (y :: ys') _ p q hp (fun _ _ _ _ => trivial)]
    simp [toks, litToks, List.flatMap_map]

theorem sumFrom_snoc : ∀ (ys : List (List Char)) (acc : Expr) (z : List Char),
    sumExpr.sumFrom acc (ys ++ [z]) = .bin .plus (sumExpr.sumFrom acc ys) (.lit (.str z)) := by
  intro ys
  induction ys with
  | nil => intro acc z; rfl
  | cons y ys ih => intro acc z; simp [sumExpr.sumFrom, ih]

theorem sumExpr_eq (x : List Char) (ys : List (List Char)) : sumExpr x ys = sumExpr.sumFrom (.lit (.str x)) ys := by
  cases ys <;> rfl

theorem toks_sumExpr_paren (x : List Char) (ys : List (List Char)) (hne : ys ≠ []) :
    toks Shared.clean (sumExpr x ys) true none = [.lp] ++ sumToks ((x :: ys).map escQ) ++ [.rp] := by
  rcases List.eq_nil_or_concat ys with h | ⟨ys0, z, h⟩
  · exact absurd h hne
  · subst h
    have hr : rprev .plus = none := rprev_none .plus
    have hp : binParen .plus true none = true := by decide
    have hA := toks_sumExpr x ys0 true (some .plus) (fun _ => binParen_plus_chain)
    rw [sumExpr_eq, List.concat_eq_append, sumFrom_snoc, ← sumExpr_eq]
    simp only [toks, hp, if_true, hr, hA, litToks]
    rw [List.map_cons, sumToks_cons, List.map_cons, sumToks_cons]
    simp [List.flatMap_append, List.map_append]

/-! ### string literals: `breakLongStr` introduces no remark opener or closer -/

theorem hasPair_split (ps : List (Char × Char)) : ∀ (A B : List Char), hasPair ps (A ++ B) = false →
    hasPair ps A = false ∧ hasPair ps B = false ∧ boundary ps A B = false := by
  intro A
  induction A with
  | nil => intro B h; exact ⟨rfl, by simpa using h, by simp [boundary]⟩
  | cons a A' ih =>
    intro B h
    cases A' with
    | nil =>
      cases B with
      | nil => exact ⟨rfl, rfl, by simp [boundary]⟩
      | cons c B' =>
        simp only [List.cons_append, List.nil_append, hasPair, Bool.or_eq_false_iff] at h
        exact ⟨rfl, h.2, by simpa [boundary] using h.1⟩
    | cons b A'' =>
      simp only [List.cons_append, hasPair, Bool.or_eq_false_iff] at h
      obtain ⟨h1, h2, h3⟩ := ih B h.2
      refine ⟨by simp only [hasPair, h.1, h1, Bool.or_self], h2, ?_⟩
      simpa [boundary, List.getLast?_cons_cons] using h3

theorem second_safe (c : Char) (h : c = ' ' ∨ c = '\n' ∨ c = '\'' ∨ c = '(') (d : Char) : remarkPairs.contains (d, c) = false := by
  rcases h with rfl | rfl | rfl | rfl <;> simp [remarkPairs]

theorem boundary_head (A B : List Char) (h : ∀ c, B.head? = some c → c = ' ' ∨ c = '\n' ∨ c = '\'' ∨ c = '(') :
    boundary remarkPairs A B = false := by
  unfold boundary
  cases hA : A.getLast? with
  | none => rfl
  | some d =>
    cases B with
    | nil => rfl
    | cons c B' => simpa using second_safe c (h c rfl) d

theorem boundary_last (A B : List Char) (d : Char) (hd : A.getLast? = some d) (hn : nf3 d = true) : boundary remarkPairs A B = false := by
  unfold boundary
  rw [hd]
  cases B with
  | nil => rfl
  | cons c B' => simpa using contains_nf3 d c hn

theorem breakSep_clean (n : Nat) : hasPair remarkPairs (breakSep n) = false := by
  apply noPair_of_chars
  intro x hx
  simp only [breakSep, newlinePiece, List.mem_cons, List.mem_append, List.mem_replicate, List.mem_nil_iff, or_false] at hx
  rcases hx with (rfl | rfl | ⟨_, rfl⟩) | rfl | rfl | rfl <;> decide

theorem breakSep_last (n : Nat) : (breakSep n).getLast? = some '\'' := by
  have : breakSep n = ('\'' :: newlinePiece n ++ ['+', ' ']) ++ ['\''] := by simp [breakSep, List.append_assoc]
  rw [this, List.getLast?_append]; rfl

theorem weave_clean (n : Nat) : ∀ (ps seps : List (List Char)) (A : List Char), seps.length = ps.length →
    (∀ x ∈ seps, x = [] ∨ x = breakSep n) → hasPair remarkPairs (A ++ ps.flatten) = false →
    hasPair remarkPairs (A ++ weave seps ps) = false := by
  intro ps
  induction ps with
  | nil => intro seps A _ _ h; cases seps <;> simpa [weave] using h
  | cons p ps ih =>
    intro seps A hlen hseps h
    cases seps with
    | nil => simp at hlen
    | cons sep seps =>
      have hl : seps.length = ps.length := by simpa using hlen
      have hs' : ∀ x ∈ seps, x = [] ∨ x = breakSep n := fun x hx => hseps x (List.mem_cons_of_mem _ hx)
      rcases hseps sep (by simp) with rfl | rfl
      · have := ih seps (A ++ p) hl hs' (by simpa [List.append_assoc] using h)
        simpa [weave, List.append_assoc] using this
      · simp only [List.flatten_cons] at h
        obtain ⟨hA, hB, _⟩ := hasPair_split _ A (p ++ ps.flatten) h
        have h1 : hasPair remarkPairs (A ++ breakSep n) = false :=
          noPair_append _ A (breakSep n) hA (breakSep_clean n) (boundary_head A _ (by intro c hc; simp [breakSep] at hc; exact Or.inr (Or.inr (Or.inl hc.symm))))
        have h2 : hasPair remarkPairs ((A ++ breakSep n) ++ (p ++ ps.flatten)) = false :=
          noPair_append _ _ _ h1 hB (boundary_last _ _ '\'' (by rw [getLast?_append_ne (by simp [breakSep])]; exact breakSep_last n) (by decide))
        have := ih seps (A ++ breakSep n ++ p) hl hs' (by simpa [List.append_assoc] using h2)
        simpa [weave, List.append_assoc] using this

theorem openParen_clean : hasPair remarkPairs openParen = false := by decide

/-- the text `breakLongStr` adds contains a remark opener or closer only if the literal `'…'` itself does; and it ends with a
character that cannot begin one -/
theorem clean_str (st : PState) (s : List Char) (paren : Bool) (hT : hasPair remarkPairs st.text = false)
    (hs : hasPair remarkPairs (sp (.str (escQ s))) = false) :
    hasPair remarkPairs (breakLongStr st s paren).text = false
      ∧ ∃ c, (breakLongStr st s paren).text.getLast? = some c ∧ nf3 c = true := by
  have hq : hasPair remarkPairs ('\'' :: escQ s ++ ['\'']) = false := by simpa [sp] using hs
  have hq1 : hasPair remarkPairs ('\'' :: escQ s) = false := (hasPair_split _ ('\'' :: escQ s) ['\''] (by simpa using hq)).1
  rcases C07_breakLongStr_exact st s paren with ⟨lead, hlead, ht⟩ | ⟨opn, cls, first, seps, hoc, hfirst, hlen, hseps, ht⟩
  · rw [ht]
    have hX : hasPair remarkPairs (lead ++ ('\'' :: escQ s ++ ['\''])) = false := by
      rcases hlead with rfl | rfl
      · simpa using hq
      · exact noPair_append _ [' '] _ rfl hq (boundary_last _ _ ' ' rfl (by decide))
    refine ⟨?_, '\'', ?_, by decide⟩
    · have := noPair_append _ st.text (lead ++ ('\'' :: escQ s ++ ['\''])) hT hX
        (boundary_head _ _ (by rcases hlead with rfl | rfl <;> (intro c hc; simp at hc; subst hc; simp)))
      simpa [List.append_assoc] using this
    · rw [List.getLast?_append]; rfl
  · -- split
    obtain ⟨p1, ps, hps⟩ : ∃ p1 ps, splitDots (escQ s) = p1 :: ps := by
      cases hp : splitDots (escQ s) with
      | nil => rw [hp] at hlen; simp at hlen
      | cons p1 ps => exact ⟨p1, ps, rfl⟩
    have hflat : p1 ++ ps.flatten = escQ s := by
      have := C07_splitDots_flatten (escQ s); rw [hps] at this; simpa using this
    rw [hps] at hlen ht
    have hl : seps.length = ps.length := by simpa using hlen
    -- the part before the opening apostrophe
    obtain ⟨F0, hF0, hfirst', hF0h⟩ : ∃ F0, F0.all isWsC = true ∧ first = F0 ++ ['\'']
        ∧ (∀ c, (F0 ++ ['\'']).head? = some c → c = ' ' ∨ c = '\n' ∨ c = '\'' ∨ c = '(') := by
      rcases hfirst with rfl | rfl | rfl
      · exact ⟨[], rfl, rfl, by intro c hc; simp at hc; exact Or.inr (Or.inr (Or.inl hc.symm))⟩
      · exact ⟨[' '], by decide, rfl, by intro c hc; simp at hc; exact Or.inl hc.symm⟩
      · exact ⟨newlinePiece st.indent2, newlinePiece_ws _, rfl, by intro c hc; simp [newlinePiece] at hc; exact Or.inr (Or.inl hc.symm)⟩
    have hopn : hasPair remarkPairs opn = false ∧ (∀ c, (opn ++ F0 ++ ['\'']).head? = some c → c = ' ' ∨ c = '\n' ∨ c = '\'' ∨ c = '(') := by
      rcases hoc with ⟨rfl, _⟩ | ⟨_, rfl | rfl, _⟩
      · exact ⟨rfl, by simpa using hF0h⟩
      · exact ⟨openParen_clean, by intro c hc; simp [openParen] at hc; exact Or.inr (Or.inr (Or.inr hc.symm))⟩
      · refine ⟨noPair_append _ _ _ (noPair_ws _ (newlinePiece_ws _)) openParen_clean (boundary_head _ _ (by intro c hc; simp [openParen] at hc; exact Or.inr (Or.inr (Or.inr hc.symm)))), ?_⟩
        intro c hc; simp [newlinePiece] at hc; exact Or.inr (Or.inl hc.symm)
    have hcls : hasPair remarkPairs cls = false ∧ cls.head? = some '\'' ∧ ∃ c, cls.getLast? = some c ∧ nf3 c = true := by
      rcases hoc with ⟨_, rfl⟩ | ⟨_, _, rfl⟩
      · exact ⟨by decide, rfl, ' ', rfl, by decide⟩
      · exact ⟨by decide, rfl, ')', rfl, by decide⟩
    have hPre : hasPair remarkPairs (opn ++ F0) = false :=
      noPair_append _ opn F0 hopn.1 (noPair_ws F0 hF0) (boundary_ws_right opn F0 hF0)
    have h1 : hasPair remarkPairs ((opn ++ F0) ++ ('\'' :: escQ s)) = false :=
      noPair_append _ _ _ hPre hq1 (boundary_head _ _ (by intro c hc; simp at hc; exact Or.inr (Or.inr (Or.inl hc.symm))))
    have h2 := weave_clean st.indent2 ps seps ((opn ++ F0) ++ '\'' :: p1) hl hseps
      (by rw [← hflat] at h1; simpa [List.append_assoc] using h1)
    have hW : opn ++ weave (first :: seps) (p1 :: ps) = (opn ++ F0) ++ '\'' :: p1 ++ weave seps ps := by
      simp [weave, hfirst', List.append_assoc]
    have h3 : hasPair remarkPairs (opn ++ weave (first :: seps) (p1 :: ps) ++ cls) = false := by
      rw [hW]
      exact noPair_append _ _ cls h2 hcls.1 (boundary_head _ _ (by intro c hc; rw [hcls.2.1] at hc; cases hc; exact Or.inr (Or.inr (Or.inl rfl))))
    have hhead : ∀ c, (opn ++ weave (first :: seps) (p1 :: ps) ++ cls).head? = some c → c = ' ' ∨ c = '\n' ∨ c = '\'' ∨ c = '(' := by
      intro c hc
      apply hopn.2 c
      rw [hW] at hc
      simpa [List.append_assoc] using hc
    obtain ⟨c, hc, hcn⟩ := hcls.2.2
    have hne : cls ≠ [] := by intro h; rw [h] at hc; simp at hc
    refine ⟨?_, c, ?_, hcn⟩
    · rw [ht]
      have := noPair_append _ st.text _ hT h3 (boundary_head _ _ hhead)
      simpa [List.append_assoc] using this
    · rw [ht, getLast?_append_ne hne]; exact hc

/-- Part I with string literals, carrying the text invariant -/
theorem KC_runS (xs : List SeqEl) : ∀ (st : PState) (TS : List Tok) (lt slt : Option Tok), K st TS lt → CleanT st.text lt → WfO lt →
    (lt = none ∨ lt = slt) → SafeSeqS slt xs → (∀ x ∈ xs, ∀ t ∈ x.toks, hasPair remarkPairs (sp t) = false) →
    ∃ ts lt', K (run st (xs.map SeqEl.frag)) (TS ++ ts) lt' ∧ CleanT (run st (xs.map SeqEl.frag)).text lt' := by
  induction xs with
  | nil => intro st TS lt slt hK hC _ _ _ _; exact ⟨[], lt, by simpa [run] using hK, by simpa [run] using hC⟩
  | cons x xs ih =>
    intro st TS lt slt hK hC hW hr hs hcl
    have hcl' : ∀ y ∈ xs, ∀ t ∈ y.toks, hasPair remarkPairs (sp t) = false := fun y hy => hcl y (List.mem_cons_of_mem _ hy)
    cases x with
    | af a =>
      obtain ⟨ws, hws, htext, hsafe, hp, hinv'⟩ := step_shape st TS lt slt a hK hr hs.1
      have hbody : ∀ y ∈ a.body, hasPair remarkPairs (sp y.1) = false := by
        intro y hy
        exact hcl (.af a) (by simp) y.1 (by simp only [SeqEl.toks, AFrag.toks]; exact List.mem_map.mpr ⟨y, hy, rfl⟩)
      have hl := lexInv_piece st.text TS lt hK.2.1 hK.2.2 ws hws a.body hsafe
      have hc := clean_piece st.text lt hC hW ws hws a.body hsafe hbody
      have hK1 : K (step st a.frag) (TS ++ a.toks) (endAfter (if ws = [] then lt else none) a.body) := by
        refine ⟨hinv', ?_, ?_⟩
        · rw [htext]; exact hl.1
        · rw [htext]; exact hl.2
      have hr1 := endAfter_refine a.body hp
      obtain ⟨ts2, lt2, hK2, hC2⟩ := ih (step st a.frag) (TS ++ a.toks) _ (a.flow slt) hK1 (by rw [htext]; exact hc.1) hc.2 hr1 hs.2 hcl'
      exact ⟨a.toks ++ ts2, lt2, by simpa [run, SeqEl.frag, List.append_assoc] using hK2, by simpa [run, SeqEl.frag] using hC2⟩
    | strF s p =>
      obtain ⟨ts1, lt1, hK1, hr1, _, hlast⟩ := K_str st TS lt slt s p hK hr hs.1
      have htok : hasPair remarkPairs (sp (.str (escQ s))) = false := hcl (.strF s p) (by simp) _ (by simp [SeqEl.toks])
      obtain ⟨hclean, c, hc, hcn⟩ := clean_str st s p hC.1 htok
      have hC1 : CleanT (breakLongStr st s p).text lt1 := by
        refine ⟨hclean, ?_⟩
        rcases hr1 with rfl | rfl
        · exact Or.inr ⟨c, hc, hcn⟩
        · have hl := hlast (by simp)
          refine ⟨'\'', ?_, hl⟩
          simp only [sp]; rw [List.getLast?_append]; rfl
      have hW1 : WfO lt1 := by
        intro t0 h0
        rcases hr1 with rfl | rfl
        · cases h0
        · cases h0; exact wf_str ⟨s, rfl⟩
      obtain ⟨ts2, lt2, hK2, hC2⟩ := ih (breakLongStr st s p) (TS ++ ts1) lt1 (some (.str (escQ s))) hK1 hC1 hW1 hr1 hs.2 hcl'
      exact ⟨ts1 ++ ts2, lt2, by simpa [run, SeqEl.frag, step, List.append_assoc] using hK2, by simpa [run, SeqEl.frag, step] using hC2⟩

end StepModel.Express

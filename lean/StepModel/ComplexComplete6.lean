import StepModel.ComplexComplete5
/-! Completeness on distinct leaves, tools for phase 2: when are all members marked; `unmarkAll` keeps the alive
structure; a dead list never carries MATCHALL. -/
namespace StepModel.Complex.Match
open StepModel.Generated StepModel.Complex

/-- all members are marked iff every member is held outside or lies in `L` — when the list holds exactly its members
of `L` -/
theorem am_char {N : List Name} (hN : N.Pairwise (· < ·)) {o : Name → Nat} {t' : ST} {es' : Ents} {L : List Name}
    (hfr : Fr o t' es') (hnm : names es' = N) (hcov : ∀ n ∈ N, n ∈ L → n ∈ holds t') (hsub : ∀ n ∈ holds t', n ∈ L) :
    allMarked es' = true ↔ ∀ n ∈ N, 0 < o n ∨ n ∈ L := by
  have hnd : (names es').Nodup := by rw [hnm]; exact nodup_of_sorted hN
  rw [allMarked_markAt hnd, hnm]
  constructor
  · intro h n hn
    have hm := h n hn
    have := hfr.1 n
    simp only [hm, if_false] at this
    by_cases ho : 0 < o n
    · exact Or.inl ho
    · right
      have : 0 < cnt n t' := by omega
      exact hsub n (List.count_pos_iff.mp this)
  · intro h n hn hm
    have := hfr.1 n
    simp only [hm, if_true] at this
    rcases h n hn with e | e
    · omega
    · have : 0 < cnt n t' := List.count_pos_iff.mpr (hcov n hn e)
      omega

theorem DeadS_congr {N : List Name} {a b : ST} (h : skel a = skel b) (hd : DeadS N b) : DeadS N a := by
  intro x hx
  apply hd x
  rw [lvS_eq] at hx ⊢
  rw [← h]; exact hx

theorem unmark_PA (N : List Name) : ∀ f : Nat,
    (∀ t es r, unmarkAll f t es = .ok r → PA N t → PA N r.1) ∧
    (∀ cs es r, unmarkList f cs es = .ok r → (PAall N cs → PAall N r.1) ∧ (PAsome N cs → PAsome N r.1) ∧
      (PAany N cs → PAany N r.1)) := by
  intro f
  induction f with
  | zero => exact ⟨fun _ _ _ h => by simp [unmarkAll] at h, fun _ _ _ h => by simp [unmarkList] at h⟩
  | succ f ih =>
    obtain ⟨ih1, ih2⟩ := ih
    refine ⟨?_, ?_⟩
    · intro t es r h hpa
      cases t with
      | simple n v im =>
        simp only [unmarkAll, simpleUnmark] at h
        simp only [PA] at hpa
        split at h
        · cases h; simp only [PA]; exact hpa
        · split at h
          · cases h
          · split at h
            · cases h
            · cases h; simp only [PA]; exact hpa
      | mult j v c c1 k cs =>
        cases j with
        | or =>
          simp only [PA] at hpa
          obtain ⟨hrk, hcne, hir, hone⟩ := hpa
          obtain ⟨ch, hch, hpach, hothers⟩ := PAone_spec cs _ hone
          simp only [unmarkAll, hir, hch] at h
          obtain ⟨⟨ch', es'⟩, h1, h2⟩ := bind_ok' h
          cases h2
          have hilt : c.toNat < cs.length := (List.getElem?_eq_some_iff.mp hch).1
          simp only [PA]
          refine ⟨hrk, hcne, by rw [List.length_set]; exact hir, ?_⟩
          refine PAone_of _ _ ch' (by simp [hilt]) (ih1 ch es _ h1 hpach) (fun p c0 hp hne => ?_)
          rw [List.getElem?_set_ne (fun e => hne e.symm)] at hp
          exact hothers p c0 hp hne
        | and =>
          simp only [PA] at hpa
          simp only [unmarkAll] at h
          obtain ⟨⟨cs', es'⟩, h1, h2⟩ := bind_ok' h
          cases h2
          have hlen : cs'.length = cs.length := by
            rw [← skelL_length cs', (unmark_skel f).2 cs es _ h1, skelL_length]
          simp only [PA]
          exact ⟨hpa.1, ne_nil_of_len hlen hpa.2.1, (ih2 cs es _ h1).1 hpa.2.2⟩
        | andor =>
          simp only [PA] at hpa
          simp only [unmarkAll] at h
          obtain ⟨⟨cs', es'⟩, h1, h2⟩ := bind_ok' h
          cases h2
          simp only [PA]
          exact ⟨hpa.1, (ih2 cs es _ h1).2.1 hpa.2.1, (ih2 cs es _ h1).2.2 hpa.2.2⟩
    · intro cs es r h
      cases cs with
      | nil => simp only [unmarkList] at h; cases h; exact ⟨fun h' => h', fun h' => h', fun h' => h'⟩
      | cons ch rest =>
        simp only [unmarkList] at h
        obtain ⟨⟨ch', es1⟩, h1, h2⟩ := bind_ok' h
        obtain ⟨⟨rest', es2⟩, h3, h4⟩ := bind_ok' h2
        cases h4
        have hs := (unmark_skel f).1 ch es _ h1
        obtain ⟨r1, r2, r3⟩ := ih2 rest es1 _ h3
        refine ⟨fun hall => ⟨ih1 ch es _ h1 hall.1, r1 hall.2⟩, fun hsome => ⟨?_, r2 hsome.2⟩, fun hany => ?_⟩
        · rcases hsome.1 with e | e
          · exact Or.inl (ih1 ch es _ h1 e)
          · refine Or.inr ⟨DeadS_congr hs e.1, ?_⟩
            have : ch'.viable = ch.viable := viable_of_skel hs
            simp only [ST.atLeastSome, this]; simpa [ST.atLeastSome] using e.2
        · rcases hany with e | e
          · exact Or.inl (ih1 ch es _ h1 e)
          · exact Or.inr (r3 e)

mutual
  theorem treeWF_of_SemV (N : List Name) : ∀ (v : VT), SemV N v → treeWF (trV v) = true
    | .simple _ _, _ => rfl
    | .mult .and _ cs, h => by
      simp only [SemV] at h
      simp only [trV, treeWF, Bool.and_eq_true, Bool.not_eq_true', List.isEmpty_eq_false_iff]
      exact ⟨fun e => h.1 (by cases cs with | nil => rfl | cons => simp [trVL] at e), treeWFL_of_SemVL N cs h.2.1⟩
    | .mult .or _ cs, h => by
      simp only [SemV] at h
      simp only [trV, treeWF, Bool.and_eq_true, Bool.not_eq_true', List.isEmpty_eq_false_iff]
      exact ⟨fun e => h.1 (by cases cs with | nil => rfl | cons => simp [trVL] at e), treeWFL_of_SemVL N cs h.2.1⟩
    | .mult .andor _ cs, h => by
      simp only [SemV] at h
      simp only [trV, treeWF, Bool.and_eq_true, Bool.not_eq_true', List.isEmpty_eq_false_iff]
      exact ⟨fun e => h.1 (by cases cs with | nil => rfl | cons => simp [trVL] at e), treeWFL_of_SemVL N cs h.2.1⟩
  theorem treeWFL_of_SemVL (N : List Name) : ∀ (cs : List VT), SemVL N cs → treeWFL (trVL cs) = true
    | [], _ => rfl
    | c :: cs, h => by
      simp only [SemVL] at h
      simp only [trVL, treeWFL, Bool.and_eq_true]
      exact ⟨treeWF_of_SemV N c h.1, treeWFL_of_SemVL N cs h.2⟩
end

theorem dead_notK {N : List Name} {t : ST} (hs : SemV N (skel t)) (hd : DeadS N t) : ¬ K t.viable := by
  intro hk
  have := SemV_K hs (by rw [viable_skel']; exact hk)
  have hdead : DeadT N (trV (skel t)) := by
    intro x hx; rw [← lvS_eq] at hx; exact hd x hx
  rw [dead_unsat N _ (treeWF_of_SemV N _ hs) hdead] at this
  cases this

mutual
  theorem dead_not_hasAll (N : List Name) : ∀ (t : ST), SemV N (skel t) → DeadS N t → ¬ HasAll t
    | .simple n v im, hs, hd, h => by
      simp only [HasAll] at h
      exact dead_notK hs hd (by simp only [ST.viable]; rw [h]; exact Or.inr (Or.inr rfl))
    | .mult j v c c1 k cs, hs, hd, h => by
      simp only [HasAll] at h
      rcases h with e | e
      · exact dead_notK hs hd (by simp only [ST.viable]; rw [e]; exact Or.inr (Or.inr rfl))
      · have hs' := hs
        simp only [skel, SemV] at hs'
        exact dead_not_hasAllAny N cs hs'.2.1 (fun x hx => hd x (by simpa [lvS] using hx)) e.2
  theorem dead_not_hasAllAny (N : List Name) : ∀ (cs : List ST), SemVL N (skelL cs) → (∀ x ∈ lvSL cs, x ∉ N) → ¬ HasAllAny cs
    | [], _, _, h => by simp [HasAllAny] at h
    | c :: cs, hs, hd, h => by
      simp only [skelL, SemVL] at hs
      simp only [HasAllAny] at h
      rcases h with e | e
      · exact dead_not_hasAll N c hs.1 (fun x hx => hd x (by simp [lvSL, hx])) e
      · exact dead_not_hasAllAny N cs hs.2 (fun x hx => hd x (by simp [lvSL, hx])) e
end

end StepModel.Complex.Match

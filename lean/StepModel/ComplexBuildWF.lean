import StepModel.ComplexSatO5
import StepModel.ComplexForest3
/-! Every list `collectOf` (the model of exp2cxx's tree construction) emits has the shape the matcher theorems assume
(`headWF`): head = `AND(supertype, one sub-list)`, no list without a child. -/
namespace StepModel.Complex
open StepModel.Generated Match

mutual
  /-- every ONEOF has an operand (the EXPRESS grammar: `ONEOF ( supertype_expression { , supertype_expression } )`) -/
  def Expr.oneofOK : Expr → Bool
    | .ent _ => true
    | .oneof es => !es.isEmpty && Expr.oneofOKL es
    | .and a b => a.oneofOK && b.oneofOK
    | .andor a b => a.oneofOK && b.oneofOK
  def Expr.oneofOKL : List Expr → Bool
    | [] => true
    | x :: xs => x.oneofOK && Expr.oneofOKL xs
end

def Schema.exprsOK (s : Schema) : Prop := ∀ e ∈ s, ∀ x, e.expr = some x → x.oneofOK = true

theorem treeWFL_append (l r : List Tree) : treeWFL (l ++ r) = true ↔ treeWFL l = true ∧ treeWFL r = true := by
  simp only [treeWFL_iff, List.mem_append]
  constructor
  · intro h; exact ⟨fun t ht => h t (Or.inl ht), fun t ht => h t (Or.inr ht)⟩
  · rintro ⟨h1, h2⟩ t (ht | ht)
    · exact h1 t ht
    · exact h2 t ht

mutual
  theorem exprKids_wf (T : Name → Option Tree) (hT : ∀ n t, T n = some t → treeWF t = true) :
      ∀ (x : Expr) (p : Parent) (ts : List Tree), x.oneofOK = true → exprKids T p x = some ts →
        ts ≠ [] ∧ treeWFL ts = true ∧ (p = .superHead → ts.length = 1)
    | .ent n, p, ts, _, h => by
      simp only [exprKids, Option.map_eq_some_iff] at h
      obtain ⟨t, ht, rfl⟩ := h
      exact ⟨by simp, by simp [treeWFL, hT n t ht], fun _ => rfl⟩
    | .and a b, p, ts, hok, h => by
      simp only [Expr.oneofOK, Bool.and_eq_true] at hok
      simp only [exprKids] at h
      cases ha : exprKids T .andL a with
      | none => rw [ha] at h; simp at h
      | some l =>
        cases hb : exprKids T .andL b with
        | none => rw [ha, hb] at h; simp at h
        | some r =>
          rw [ha, hb] at h
          obtain ⟨l1, l2, _⟩ := exprKids_wf T hT a .andL l hok.1 ha
          obtain ⟨r1, r2, _⟩ := exprKids_wf T hT b .andL r hok.2 hb
          have hne : l ++ r ≠ [] := by
            intro e; exact l1 (List.append_eq_nil_iff.mp e).1
          have hw : treeWFL (l ++ r) = true := (treeWFL_append l r).mpr ⟨l2, r2⟩
          simp only at h
          split at h
          · rename_i hp; cases h; subst hp
            exact ⟨hne, hw, fun h' => by cases h'⟩
          · cases h
            refine ⟨by simp, ?_, fun _ => rfl⟩
            simp only [treeWFL, treeWF, Bool.and_eq_true, Bool.not_eq_true', List.isEmpty_eq_false_iff, and_true]
            exact ⟨hne, hw⟩
    | .andor a b, p, ts, hok, h => by
      simp only [Expr.oneofOK, Bool.and_eq_true] at hok
      simp only [exprKids] at h
      cases ha : exprKids T .andorL a with
      | none => rw [ha] at h; simp at h
      | some l =>
        cases hb : exprKids T .andorL b with
        | none => rw [ha, hb] at h; simp at h
        | some r =>
          rw [ha, hb] at h
          obtain ⟨l1, l2, _⟩ := exprKids_wf T hT a .andorL l hok.1 ha
          obtain ⟨r1, r2, _⟩ := exprKids_wf T hT b .andorL r hok.2 hb
          have hne : l ++ r ≠ [] := by
            intro e; exact l1 (List.append_eq_nil_iff.mp e).1
          have hw : treeWFL (l ++ r) = true := (treeWFL_append l r).mpr ⟨l2, r2⟩
          simp only at h
          split at h
          · rename_i hp; cases h; subst hp
            exact ⟨hne, hw, fun h' => by cases h'⟩
          · cases h
            refine ⟨by simp, ?_, fun _ => rfl⟩
            simp only [treeWFL, treeWF, Bool.and_eq_true, Bool.not_eq_true', List.isEmpty_eq_false_iff, and_true]
            exact ⟨hne, hw⟩
    | .oneof es, p, ts, hok, h => by
      simp only [Expr.oneofOK, Bool.and_eq_true, Bool.not_eq_true', List.isEmpty_eq_false_iff] at hok
      simp only [exprKids, Option.map_eq_some_iff] at h
      obtain ⟨cs, hcs, rfl⟩ := h
      obtain ⟨c1, c2⟩ := exprKidsL_wf T hT es cs hok.2 hcs
      refine ⟨by simp, ?_, fun _ => rfl⟩
      simp only [treeWFL, treeWF, Bool.and_eq_true, Bool.not_eq_true', List.isEmpty_eq_false_iff, and_true]
      exact ⟨c2 hok.1, c1⟩
  theorem exprKidsL_wf (T : Name → Option Tree) (hT : ∀ n t, T n = some t → treeWF t = true) :
      ∀ (xs : List Expr) (ts : List Tree), Expr.oneofOKL xs = true → exprKidsL T xs = some ts →
        treeWFL ts = true ∧ (xs ≠ [] → ts ≠ [])
    | [], ts, _, h => by
      simp only [exprKidsL] at h; cases h
      exact ⟨rfl, fun h' => absurd rfl h'⟩
    | x :: xs, ts, hok, h => by
      simp only [Expr.oneofOKL, Bool.and_eq_true] at hok
      simp only [exprKidsL] at h
      cases ha : exprKids T .orL x with
      | none => rw [ha] at h; simp at h
      | some l =>
        cases hb : exprKidsL T xs with
        | none => rw [ha, hb] at h; simp at h
        | some r =>
          rw [ha, hb] at h
          cases h
          obtain ⟨l1, l2, _⟩ := exprKids_wf T hT x .orL l hok.1 ha
          obtain ⟨r1, _⟩ := exprKidsL_wf T hT xs r hok.2 hb
          exact ⟨(treeWFL_append l r).mpr ⟨l2, r1⟩, fun _ e => l1 (List.append_eq_nil_iff.mp e).1⟩
end

theorem mapOpt_spec {α β : Type} (f : α → Option β) : ∀ (l : List α) (ts : List β), mapOpt f l = some ts →
    ts.length = l.length ∧ ∀ t ∈ ts, ∃ a ∈ l, f a = some t
  | [], ts, h => by simp only [mapOpt] at h; cases h; exact ⟨rfl, fun t ht => by cases ht⟩
  | a :: as, ts, h => by
    simp only [mapOpt] at h
    cases ha : f a with
    | none => rw [ha] at h; simp at h
    | some b =>
      cases hb : mapOpt f as with
      | none => rw [ha, hb] at h; simp at h
      | some bs =>
        rw [ha, hb] at h; cases h
        obtain ⟨h1, h2⟩ := mapOpt_spec f as bs hb
        refine ⟨by simp [h1], fun t ht => ?_⟩
        rcases List.mem_cons.mp ht with e | e
        · exact ⟨a, by simp, by rw [e]; exact ha⟩
        · obtain ⟨a', ha', hf⟩ := h2 t e
          exact ⟨a', List.mem_cons_of_mem _ ha', hf⟩

theorem treeWF_of_headWF {h : Tree} (hw : headWF h = true) : treeWF h = true := by
  obtain ⟨n, t, rfl, ht⟩ := headWF_shape hw
  simp [treeWF, treeWFL, ht]

/-- the trees `addSimpleAndSubs` and the `ComplexList` constructor build are well formed -/
theorem build_wf (s : Schema) (hs : s.exprsOK) : ∀ f : Nat,
    (∀ n t, entTree s f n = some t → treeWF t = true) ∧
    (∀ e h, e ∈ s → e.subs ≠ [] → headOf s f e = some h → headWF h = true) := by
  intro f
  induction f with
  | zero => exact ⟨fun _ _ h => by simp [entTree] at h, fun _ _ _ _ h => by simp [headOf] at h⟩
  | succ f ih =>
    obtain ⟨ih1, ih2⟩ := ih
    refine ⟨?_, ?_⟩
    · intro n t h
      simp only [entTree] at h
      cases hf : s.find n with
      | none => rw [hf] at h; simp at h
      | some e =>
        rw [hf] at h
        simp only at h
        have hes : e ∈ s := List.mem_of_find?_eq_some hf
        split at h
        · cases h; rfl
        · rename_i hsub
          have hsub' : e.subs ≠ [] := by
            intro e'; rw [e'] at hsub; simp at hsub
          cases hh : headOf s f e with
          | none => rw [hh] at h; simp at h
          | some hd =>
            rw [hh] at h
            simp only at h
            have hw := treeWF_of_headWF (ih2 e hd hes hsub' hh)
            split at h
            · cases h; exact hw
            · cases h; simp [treeWF, treeWFL, hw]
    · intro e h hes hsub hh
      simp only [headOf] at hh
      have himplwf : ∀ impl ts, mapOpt (fun n => entTree s f n) impl = some ts → treeWFL ts = true := by
        intro impl ts hm
        apply (treeWFL_iff ts).mpr
        intro t ht
        obtain ⟨a, _, ha⟩ := (mapOpt_spec _ impl ts hm).2 t ht
        exact ih1 a t ha
      cases hx : e.expr with
      | none =>
        rw [hx] at hh
        simp only at hh
        split at hh
        · rename_i hemp
          exfalso
          have : e.subs.filter (fun n => !([] : List Name).contains n) = e.subs := by simp
          rw [this] at hemp
          cases hsubs : e.subs with
          | nil => exact hsub hsubs
          | cons a l => rw [hsubs] at hemp; simp at hemp
        · rename_i hemp
          split at hh
          · cases hh
          · rename_i ts hm
            cases hh
            have hlen := (mapOpt_spec _ _ ts hm).1
            have hne : ts ≠ [] := by
              intro e'; rw [e'] at hlen
              have : (e.subs.filter (fun n => !([] : List Name).contains n)) = [] := List.eq_nil_of_length_eq_zero hlen.symm
              rw [this] at hemp; simp at hemp
            simp only [headWF, treeWF, List.nil_append, Bool.and_eq_true, Bool.not_eq_true', List.isEmpty_eq_false_iff]
            exact ⟨hne, himplwf _ ts hm⟩
      | some x =>
        rw [hx] at hh
        simp only at hh
        cases hb : exprKids (fun n => entTree s f n) .superHead x with
        | none => rw [hb] at hh; simp at hh
        | some b =>
          rw [hb] at hh
          simp only at hh
          obtain ⟨b1, b2, b3⟩ := exprKids_wf _ (fun n t ht => ih1 n t ht) x .superHead b (hs e hes x hx) hb
          have hlen := b3 rfl
          obtain ⟨b0, rfl⟩ : ∃ b0, b = [b0] := by
            cases b with
            | nil => simp at hlen
            | cons b0 rest =>
              cases rest with
              | nil => exact ⟨b0, rfl⟩
              | cons _ _ => simp at hlen
          have hb0 : treeWF b0 = true := by simpa [treeWFL] using b2
          split at hh
          · cases hh
            simpa [headWF] using hb0
          · split at hh
            · cases hh
            · rename_i ts hm
              cases hh
              simp only [headWF, treeWF, List.cons_append, List.nil_append, treeWFL, Bool.and_eq_true, Bool.not_eq_true',
                List.isEmpty_eq_false_iff]
              exact ⟨by simp, hb0, himplwf _ ts hm⟩

theorem foldl_opt_inv {α β : Type} (P : β → Prop) (g : Option β → α → Option β) (l : List α)
    (hnone : ∀ x, g none x = none)
    (hstep : ∀ c x c', x ∈ l → P c → g (some c) x = some c' → P c') :
    ∀ acc c', l.foldl g acc = some c' → (∀ c, acc = some c → P c) → P c' := by
  induction l with
  | nil => intro acc c' h hp; exact hp c' h
  | cons a l ih =>
    intro acc c' h hp
    simp only [List.foldl_cons] at h
    refine ih (fun c x c' hx => hstep c x c' (List.mem_cons_of_mem _ hx)) (g acc a) c' h ?_
    intro c hc
    cases acc with
    | none => rw [hnone] at hc; cases hc
    | some c0 => exact hstep c0 a c (by simp) (hp c0 rfl) hc

/-- **every list of the emitted collect is `headWF`** -/
theorem collectOf_headWF (s : Schema) (hs : s.exprsOK) (fuel : Nat) (c : Collect) (h : collectOf s fuel = some c) :
    ∀ hd ∈ c, headWF hd = true := by
  unfold collectOf at h
  refine foldl_opt_inv (fun c => ∀ hd ∈ c, headWF hd = true) _ s (fun _ => rfl) ?_ (some []) c h
    (fun c0 hc0 => by cases hc0; intro hd hhd; cases hhd)
  intro c0 e c1 he hp hstep
  simp only at hstep
  split at hstep
  · cases hstep; exact hp
  · rename_i hcond
    simp only [Bool.or_eq_true, Bool.not_eq_true', not_or] at hcond
    have hsub : e.subs ≠ [] := by
      intro e'; rw [e'] at hcond; simp at hcond
    cases hh : headOf s fuel e with
    | none => rw [hh] at hstep; simp at hstep
    | some hd =>
      rw [hh] at hstep
      cases hstep
      intro x hx
      rcases (mem_insertHead hd x c0).mp hx with e' | e'
      · rw [e']; exact (build_wf s hs fuel).2 e hd he hsub hh
      · exact hp x e'

end StepModel.Complex

import StepModel.ExpStmtSynLemmas
/-! An explicit fuel bound for the statement reader: `fuelS s` (nesting depth and longest list, not the text length). -/
namespace StepModel.Express

/-- fuel that suffices to read the statement (list, case-action list) back -/
def fuelS : Stmt → Nat
  | .assign _ _ | .ret _ | .skip | .escape => 1
  | .call _ as => as.length + 2
  | .compound b => fuelS b + 1
  | .cond _ th _ el => max (fuelS th) (fuelS el) + 1
  | .case _ its _ o => max (fuelS its) (fuelS o) + 1
  | .item ls a => max ls.length (fuelS a)
  | .loop _ _ _ b => fuelS b + 1
  | .alias _ _ b => fuelS b + 1
  | .nil => 1
  | .cons s t => max (fuelS s) (fuelS t) + 1

theorem stmt_fuel (s : Stmt) :
    (wfStmt s → ∀ n, fuelS s ≤ n → ∀ r, parseStmt n (stmtToks s ++ r) = some (s, r))
    ∧ (wfStmts s → ∀ n, fuelS s ≤ n → ∀ r, startsStmt r = false → parseStmts n (stmtsToks s ++ r) = some (s, r))
    ∧ (wfCaseItems s → ∀ n, fuelS s ≤ n → ∀ r, NoEx r → parseCaseItems n (caseItemsToks s ++ r) = some (s, r))
    ∧ (∀ ls a, s = .item ls a → wfStmt a → ∀ n, fuelS a ≤ n → ∀ r, parseStmt n (stmtToks a ++ r) = some (a, r)) := by
  induction s with
  | assign l r0 =>
    refine ⟨fun _ n hn r => ?_, fun h => absurd h (by simp [wfStmts]), fun h => absurd h (by simp [wfCaseItems]), fun _ _ h => by cases h⟩
    obtain ⟨k, rfl⟩ : ∃ k, n = k + 1 := ⟨n - 1, by simp [fuelS] at hn; omega⟩
    simp [stmtToks, parseStmt]
  | call f as =>
    refine ⟨fun _ n hn r => ?_, fun h => absurd h (by simp [wfStmts]), fun h => absurd h (by simp [wfCaseItems]), fun _ _ h => by cases h⟩
    simp only [fuelS] at hn
    obtain ⟨k, rfl⟩ : ∃ k, n = k + 1 := ⟨n - 1, by omega⟩
    have := parseCallArgs_rt as k (by omega) (.sym ";" :: r)
    simp [stmtToks, parseStmt, this]
  | ret v =>
    refine ⟨fun _ n hn r => ?_, fun h => absurd h (by simp [wfStmts]), fun h => absurd h (by simp [wfCaseItems]), fun _ _ h => by cases h⟩
    obtain ⟨k, rfl⟩ : ∃ k, n = k + 1 := ⟨n - 1, by simp [fuelS] at hn; omega⟩
    cases v <;> simp [stmtToks, parseStmt]
  | skip =>
    refine ⟨fun _ n hn r => ?_, fun h => absurd h (by simp [wfStmts]), fun h => absurd h (by simp [wfCaseItems]), fun _ _ h => by cases h⟩
    obtain ⟨k, rfl⟩ : ∃ k, n = k + 1 := ⟨n - 1, by simp [fuelS] at hn; omega⟩
    simp [stmtToks, parseStmt]
  | escape =>
    refine ⟨fun _ n hn r => ?_, fun h => absurd h (by simp [wfStmts]), fun h => absurd h (by simp [wfCaseItems]), fun _ _ h => by cases h⟩
    obtain ⟨k, rfl⟩ : ∃ k, n = k + 1 := ⟨n - 1, by simp [fuelS] at hn; omega⟩
    simp [stmtToks, parseStmt]
  | compound b ihb =>
    refine ⟨fun h n hn r => ?_, fun h => absurd h (by simp [wfStmts]), fun h => absurd h (by simp [wfCaseItems]), fun _ _ h => by cases h⟩
    simp only [wfStmt] at h
    simp only [fuelS] at hn
    obtain ⟨k, rfl⟩ : ∃ k, n = k + 1 := ⟨n - 1, by omega⟩
    have e1 := ihb.2.1 h k (by omega) (.kw "END" :: .sym ";" :: r) (by simp [startsStmt, stmtStarters])
    simp [stmtToks, parseStmt, e1]
  | cond c th he el ihth ihel =>
    refine ⟨fun h n hn r => ?_, fun h => absurd h (by simp [wfStmts]), fun h => absurd h (by simp [wfCaseItems]), fun _ _ h => by cases h⟩
    simp only [wfStmt] at h
    simp only [fuelS] at hn
    obtain ⟨k, rfl⟩ : ∃ k, n = k + 1 := ⟨n - 1, by omega⟩
    cases he with
    | true =>
      have e1 := ihth.2.1 h.1 k (by omega) (.kw "ELSE" :: (stmtsToks el ++ .kw "END_IF" :: .sym ";" :: r)) (by simp [startsStmt, stmtStarters])
      have e2 := ihel.2.1 h.2.1 k (by omega) (.kw "END_IF" :: .sym ";" :: r) (by simp [startsStmt, stmtStarters])
      simp [stmtToks, parseStmt, e1, e2]
    | false =>
      have hel : el = .nil := h.2.2 rfl
      subst hel
      have e1 := ihth.2.1 h.1 k (by omega) (.kw "END_IF" :: .sym ";" :: r) (by simp [startsStmt, stmtStarters])
      simp [stmtToks, parseStmt, e1]
  | case sel its ho o ihits iho =>
    refine ⟨fun h n hn r => ?_, fun h => absurd h (by simp [wfStmts]), fun h => absurd h (by simp [wfCaseItems]), fun _ _ h => by cases h⟩
    simp only [wfStmt] at h
    simp only [fuelS] at hn
    obtain ⟨k, rfl⟩ : ∃ k, n = k + 1 := ⟨n - 1, by omega⟩
    cases ho with
    | true =>
      have e1 := ihits.2.2.1 h.1 k (by omega) (.kw "OTHERWISE" :: .sym ":" :: (stmtToks o ++ .kw "END_CASE" :: .sym ";" :: r))
        (by intro e r' hh; cases hh)
      have e2 := iho.1 (h.2.1 rfl) k (by omega) (.kw "END_CASE" :: .sym ";" :: r)
      simp [stmtToks, parseStmt, e1, e2]
    | false =>
      have ho' : o = .nil := h.2.2 rfl
      subst ho'
      have e1 := ihits.2.2.1 h.1 k (by omega) (.kw "END_CASE" :: .sym ";" :: r) (by intro e r' hh; cases hh)
      simp [stmtToks, parseStmt, e1]
  | item ls a iha =>
    refine ⟨fun h => absurd h (by simp [wfStmt]), fun h => absurd h (by simp [wfStmts]), fun h => absurd h (by simp [wfCaseItems]), ?_⟩
    intro ls' a' he hw n hn r
    cases he
    exact iha.1 hw n hn r
  | loop incr wh un b ihb =>
    refine ⟨fun h n hn r => ?_, fun h => absurd h (by simp [wfStmts]), fun h => absurd h (by simp [wfCaseItems]), fun _ _ h => by cases h⟩
    simp only [wfStmt] at h
    simp only [fuelS] at hn
    obtain ⟨k, rfl⟩ : ∃ k, n = k + 1 := ⟨n - 1, by omega⟩
    have e1 := ihb.2.1 h k (by omega) (.kw "END_REPEAT" :: .sym ";" :: r) (by simp [startsStmt, stmtStarters])
    have t3 := takeKwEx_rt "UNTIL" un (.sym ";" :: (stmtsToks b ++ .kw "END_REPEAT" :: .sym ";" :: r)) (by intro e r' hh; cases hh)
    have t2 := takeKwEx_rt "WHILE" wh (optKwEx "UNTIL" un ++ .sym ";" :: (stmtsToks b ++ .kw "END_REPEAT" :: .sym ";" :: r))
      (by intro e r' hh; cases un <;> simp [optKwEx] at hh)
    have t1 := takeIncr_rt incr (optKwEx "WHILE" wh ++ (optKwEx "UNTIL" un ++ .sym ";" :: (stmtsToks b ++ .kw "END_REPEAT" :: .sym ";" :: r)))
      (by intro v r' hh; cases wh <;> cases un <;> simp [optKwEx] at hh)
    simp only [stmtToks, List.append_assoc, List.cons_append, List.nil_append, parseStmt, t1, t2, t3, e1]
  | alias a e b ihb =>
    refine ⟨fun h n hn r => ?_, fun h => absurd h (by simp [wfStmts]), fun h => absurd h (by simp [wfCaseItems]), fun _ _ h => by cases h⟩
    simp only [wfStmt] at h
    simp only [fuelS] at hn
    obtain ⟨k, rfl⟩ : ∃ k, n = k + 1 := ⟨n - 1, by omega⟩
    have e1 := ihb.2.1 h k (by omega) (.kw "END_ALIAS" :: .sym ";" :: r) (by simp [startsStmt, stmtStarters])
    simp [stmtToks, parseStmt, e1]
  | nil =>
    refine ⟨fun h => absurd h (by simp [wfStmt]), fun _ n hn r hr => ?_, fun _ n hn r hr => ?_, fun _ _ h => by cases h⟩
    · obtain ⟨k, rfl⟩ : ∃ k, n = k + 1 := ⟨n - 1, by simp [fuelS] at hn; omega⟩
      simp [stmtsToks, parseStmts, hr]
    · obtain ⟨k, rfl⟩ : ∃ k, n = k + 1 := ⟨n - 1, by simp [fuelS] at hn; omega⟩
      simp only [caseItemsToks, List.nil_append]
      unfold parseCaseItems
      split
      · exact absurd rfl (hr _ _)
      · rfl
  | cons s t ihs iht =>
    refine ⟨fun h => absurd h (by simp [wfStmt]), fun h n hn r hr => ?_, fun h n hn r hr => ?_, fun _ _ h => by cases h⟩
    · simp only [wfStmts] at h
      simp only [fuelS] at hn
      obtain ⟨k, rfl⟩ : ∃ k, n = k + 1 := ⟨n - 1, by omega⟩
      have e2 := iht.2.1 h.2 k (by omega) r hr
      have e1 := ihs.1 h.1 k (by omega) (stmtsToks t ++ r)
      have hst := stmt_starts s h.1 (stmtsToks t ++ r)
      simp [stmtsToks, parseStmts, List.append_assoc, hst, e1, e2]
    · cases s with
      | item ls a =>
        simp only [wfCaseItems] at h
        simp only [fuelS] at hn
        obtain ⟨k, rfl⟩ : ∃ k, n = k + 1 := ⟨n - 1, by omega⟩
        cases ls with
        | nil => exact absurd rfl h.1
        | cons l ls' =>
          have e3 := iht.2.2.1 h.2.2 k (by omega) r hr
          have e2 := ihs.2.2.2 (l :: ls') a rfl h.2.1 k (by omega) (caseItemsToks t ++ r)
          have e1 := parseLabels_rt ls' k (by simp at hn; omega) (stmtToks a ++ (caseItemsToks t ++ r))
          simp [caseItemsToks, stmtToks, refsToks_cons, parseCaseItems, List.append_assoc, e1, e2, e3]
      | _ => simp [wfCaseItems] at h

end StepModel.Express

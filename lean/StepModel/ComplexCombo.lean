import StepModel.ComplexReset
/-! The combo case of `ComplexCollect::supports`: the joined list consists of the children of lists of the collect with
pairwise different supertypes, so its size and its number of choice combinations are bounded by those of the collect. -/
namespace StepModel.Complex.Match
open StepModel.Generated StepModel.Complex

theorem capTL_append (a b : List Tree) : capTL (a ++ b) = capTL a * capTL b := by
  induction a with
  | nil => simp [capTL]
  | cons x a ih => simp only [List.cons_append, capTL, ih, Nat.mul_assoc]

theorem szTL_append (a b : List Tree) : szTL (a ++ b) = szTL a + szTL b := by
  induction a with
  | nil => simp [szTL]
  | cons x a ih => simp only [List.cons_append, szTL, ih, Nat.add_assoc]

theorem capT_pos : ∀ (t : Tree), 0 < capT t := fun t => by
  rw [← trV_fresh t, ← cap_trV]; exact cap_pos _

theorem capTL_pos : ∀ (l : List Tree), 0 < capTL l
  | [] => by simp [capTL]
  | a :: l => by simp only [capTL]; exact Nat.mul_pos (capT_pos a) (capTL_pos l)

/-- the joined list as `supports` builds it from heads `hs` -/
def flatKids (hs : List Tree) : List Tree := (hs.map Tree.children).flatten

theorem toplevel_spec : ∀ (hs : List Tree), (∀ h ∈ hs, headWF h = true) → ∀ (nm : Name),
    toplevel (flatKids hs) nm = .ok (decide (some nm ∈ hs.map superOf))
  | [], _, nm => by simp [flatKids, toplevel]
  | h :: hs, hw, nm => by
    obtain ⟨n, t, rfl, _⟩ := headWF_shape (hw h (by simp))
    have ih := toplevel_spec hs (fun x hx => hw x (List.mem_cons_of_mem _ hx)) nm
    simp only [flatKids, List.map_cons, List.flatten_cons, Tree.children, List.cons_append, List.nil_append, superOf]
    unfold toplevel
    by_cases hn : n = nm
    · simp [hn]
    · simp only [hn, if_false]
      have ih' : toplevel (List.map Tree.children hs).flatten nm = .ok (decide (some nm ∈ hs.map superOf)) := ih
      rw [ih']
      have : ¬ nm = n := fun e => hn e.symm
      simp [this]

theorem flatKids_append (a b : List Tree) : flatKids (a ++ b) = flatKids a ++ flatKids b := by
  simp [flatKids]

/-- what `joinLists` returns -/
theorem joinLists_heads (c : Collect) (hc : ∀ h ∈ c, headWF h = true) (es : Ents) (joined : List Tree)
    (h : joinLists c es = .ok joined) :
    ∃ hs : List Tree, (∀ x ∈ hs, x ∈ c) ∧ joined = flatKids hs ∧ (hs.map superOf).Nodup := by
  unfold joinLists at h
  refine foldlM_inv (fun acc => ∃ hs : List Tree, (∀ x ∈ hs, x ∈ c) ∧ acc = flatKids hs ∧ (hs.map superOf).Nodup) _ es ?_ []
    joined h ⟨[], (fun _ hh => by cases hh), rfl, by simp⟩
  intro acc node r _ hp hstep
  split at hstep
  · cases hstep; exact hp
  · refine foldlM_inv (fun acc => ∃ hs : List Tree, (∀ x ∈ hs, x ∈ c) ∧ acc = flatKids hs ∧ (hs.map superOf).Nodup) _ c ?_
      acc r hstep hp
    intro acc' hd r' hhd hp' hs
    split at hs
    · rename_i list sup hbl hsup
      split at hs
      · obtain ⟨already, ha, h2⟩ := bind_ok' hs
        cases h2
        obtain ⟨hs0, a1, a2, a3⟩ := hp'
        rw [a2, toplevel_spec hs0 (fun x hx => hc x (a1 x hx)) sup] at ha
        cases ha
        split
        · exact ⟨hs0, a1, a2, a3⟩
        · rename_i hnot
          refine ⟨hs0 ++ [hd], fun x hx => ?_, by rw [a2, flatKids_append]; simp [flatKids], ?_⟩
          · rcases List.mem_append.mp hx with e | e
            · exact a1 x e
            · simp only [List.mem_singleton] at e; rw [e]; exact hhd
          · simp only [List.map_append, List.map_cons, List.map_nil, hsup]
            rw [List.nodup_append]
            refine ⟨a3, by simp, fun x hx y hy => ?_⟩
            simp only [List.mem_singleton] at hy
            subst hy
            intro e; subst e
            exact hnot (by simpa using hx)
      · cases hs; exact hp'
    · cases hs

open Classical in
/-- heads with pairwise different supertypes, all from `c`: their product / sum is bounded by that of `c` -/
theorem bound_sub (f : Tree → Nat) (g : List Tree → Nat) (op : Nat → Nat → Nat) (e : Nat)
    (hg0 : g [] = e) (hgc : ∀ a l, g (a :: l) = op (f a) (g l))
    (hmono : ∀ a x y, x ≤ y → op a x ≤ op a y) (hle : ∀ t x, x ≤ op (f t) x) (hcomm : ∀ a b x, op a (op b x) = op b (op a x))
    (hsup : ∀ h, superOf h ≠ none → True) :
    ∀ (c hs : List Tree), (hs.map superOf).Nodup → (∀ x ∈ hs, superOf x ≠ none) → (∀ x ∈ hs, x ∈ c) → g hs ≤ g c := by
  intro c
  induction c with
  | nil =>
    intro hs _ _ hsub
    cases hs with
    | nil => exact Nat.le_refl _
    | cons a l => exact absurd (hsub a (by simp)) (by simp)
  | cons a c ih =>
    intro hs hnd hsome hsub
    -- `a` occurs at most once in `hs`
    have key : g hs ≤ op (f a) (g (hs.filter (fun x => decide (x ≠ a)))) := by
      clear hsub ih
      induction hs with
      | nil => simp only [List.filter_nil]; rw [hg0]; exact hle _ _
      | cons b l ihl =>
        simp only [List.map_cons, List.nodup_cons] at hnd
        by_cases hba : b = a
        · subst hba
          have hnot : ∀ x ∈ l, x ≠ b := by
            intro x hx e; subst e
            exact hnd.1 (List.mem_map_of_mem hx)
          have : (b :: l).filter (fun x => decide (x ≠ b)) = l := by
            simp only [List.filter_cons, ne_eq, not_true_eq_false, decide_false, Bool.false_eq_true, if_false]
            apply List.filter_eq_self.mpr
            intro x hx; simpa using hnot x hx
          rw [this, hgc]; exact Nat.le_refl _
        · have hrec := ihl hnd.2 (fun x hx => hsome x (List.mem_cons_of_mem _ hx))
          have : (b :: l).filter (fun x => decide (x ≠ a)) = b :: l.filter (fun x => decide (x ≠ a)) := by
            simp [List.filter_cons, hba]
          rw [this, hgc, hgc, hcomm]
          exact hmono _ _ _ hrec
    have hnd' : ((hs.filter (fun x => decide (x ≠ a))).map superOf).Nodup :=
      (List.Sublist.map superOf List.filter_sublist).nodup hnd
    have hrec := ih (hs.filter (fun x => decide (x ≠ a))) hnd'
      (fun x hx => hsome x (List.mem_filter.mp hx).1)
      (fun x hx => by
        have hx' := List.mem_filter.mp hx
        rcases List.mem_cons.mp (hsub x hx'.1) with e | e
        · exact absurd e (by simpa using hx'.2)
        · exact e)
    rw [hgc]
    exact Nat.le_trans key (hmono _ _ _ hrec)


theorem capTL_flatKids : ∀ (hs : List Tree), (∀ h ∈ hs, headWF h = true) → capTL (flatKids hs) = capTL hs
  | [], _ => rfl
  | h :: hs, hw => by
    obtain ⟨n, t, rfl, _⟩ := headWF_shape (hw h (by simp))
    have ih := capTL_flatKids hs (fun x hx => hw x (List.mem_cons_of_mem _ hx))
    have : flatKids (Tree.and [Tree.simple n, t] :: hs) = [Tree.simple n, t] ++ flatKids hs := by simp [flatKids, Tree.children]
    rw [this, capTL_append, ih]
    simp only [capTL, capT]

theorem szTL_flatKids : ∀ (hs : List Tree), (∀ h ∈ hs, headWF h = true) →
    szTL (flatKids hs) + (flatKids hs).length ≤ szTL hs
  | [], _ => by simp [flatKids, szTL]
  | h :: hs, hw => by
    obtain ⟨n, t, rfl, _⟩ := headWF_shape (hw h (by simp))
    have ih := szTL_flatKids hs (fun x hx => hw x (List.mem_cons_of_mem _ hx))
    have : flatKids (Tree.and [Tree.simple n, t] :: hs) = [Tree.simple n, t] ++ flatKids hs := by simp [flatKids, Tree.children]
    rw [this, szTL_append]
    simp only [szTL, szT, List.length_append, List.length_cons, List.length_nil]
    omega

/-- **`supports` terminates on every request** — members with several supertypes included — when the product of the
numbers of choice combinations of all lists of the collect is at most 4096 -/
theorem supports_fuel_total (c : Collect) (mult parts : List Name) (hc : ∀ h ∈ c, headWF h = true)
    (hsm : ∀ h ∈ c, smallOrT h) (hcap : capTL c ≤ 4096) : NF (supports c mult parts) := by
  have hsup : ∀ h ∈ c, superOf h ≠ none := by
    intro h hh
    obtain ⟨n, t, rfl, _⟩ := headWF_shape (hc h hh)
    simp [superOf]
  have hcap1 : ∀ h ∈ c, capT h ≤ 4096 := by
    intro h hh
    have : capT h ≤ capTL c := by
      clear hcap hsup hsm hc
      induction c with
      | nil => cases hh
      | cons a l ih =>
        simp only [capTL]
        rcases List.mem_cons.mp hh with e | e
        · subst e; exact Nat.le_mul_of_pos_right _ (capTL_pos l)
        · exact Nat.le_trans (ih e) (Nat.le_mul_of_pos_left _ (capT_pos a))
    omega
  refine supports_fuel_all c mult parts hc hsm (fuel_of_capT c hcap1) (fun joined hj => ?_)
  obtain ⟨hs, h1, h2, h3⟩ := joinLists_heads c hc _ joined hj
  have hw : ∀ h ∈ hs, headWF h = true := fun h hh => hc h (h1 h hh)
  have hsome : ∀ x ∈ hs, superOf x ≠ none := fun x hx => hsup x (h1 x hx)
  have b1 : capTL hs ≤ capTL c :=
    bound_sub capT capTL (· * ·) 1 rfl (fun _ _ => rfl) (fun a x y h => Nat.mul_le_mul_left a h)
      (fun t x => Nat.le_mul_of_pos_left x (capT_pos t)) (fun a b x => by simp only [← Nat.mul_assoc, Nat.mul_comm a b])
      (fun _ _ => trivial) c hs h3 hsome h1
  have b2 : szTL hs ≤ szTL c :=
    bound_sub szT szTL (· + ·) 0 rfl (fun _ _ => rfl) (fun a x y h => Nat.add_le_add_left h a)
      (fun t x => Nat.le_add_left x _) (fun a b x => by omega) (fun _ _ => trivial) c hs h3 hsome h1
  have b3 := szTL_flatKids hs hw
  have b4 := szTL_le_sizeL c
  rw [h2]
  simp only [capT, szT, capTL_flatKids hs hw]
  unfold defaultFuel
  omega

end StepModel.Complex.Match

import StepModel.GenCxxRules
import StepModel.GenCxxMirror
/-! Lemmas about EXPRESS text in emitted C++ string literals (C02): what the C++ lexer reads back from what
`format_for_std_stringout` / `format_for_stringout` write. -/
namespace StepModel.GenCxx
open StepModel.Generated

/-- the characters written with a backslash in front are exactly the backslash and the double quote -/
def EscapesQuoteAndBackslash (esc : List Char) : Prop := ∀ c, esc.contains c = (c == bsl || c == dq)

theorem nl_ne_n : ¬ ('n' = nl) := by decide
theorem bsl_ne_nl : ¬ (bsl = nl) := by decide

theorem cLit_nl (rest : List Char) : cLit (bsl :: 'n' :: rest) = (cLit rest).map (nl :: ·) := by
  rw [cLit]; simp

theorem cLit_escChar {esc : List Char} (h : EscapesQuoteAndBackslash esc) (c : Char) (hc : c ≠ nl) (rest : List Char) :
    cLit (escChar esc c ++ rest) = (cLit rest).map (c :: ·) := by
  unfold escChar
  rw [h c]
  by_cases hb : c = bsl
  · subst hb
    have : ¬ (bsl = 'n') := by decide
    simp [cLit, this]
  · by_cases hq : c = dq
    · subst hq
      have h1 : ¬ (dq = 'n') := by decide
      simp [cLit, h1]
    · have e1 : (c == bsl) = false := by simp [hb]
      have e2 : (c == dq) = false := by simp [hq]
      simp only [e1, e2, Bool.or_self, Bool.false_eq_true, if_false, List.cons_append, List.nil_append]
      show cLit (c :: rest) = _
      rw [cLit.eq_def]; simp [hb, hq, hc]

theorem noNl_cons_nl (t : List Char) : noNl (nl :: t) = noNl t := by simp [noNl]
theorem noNl_cons {c : Char} (hc : c ≠ nl) (t : List Char) : noNl (c :: t) = c :: noNl t := by simp [noNl, hc]
theorem noNl_append (a b : List Char) : noNl (a ++ b) = noNl a ++ noNl b := by simp [noNl]

/-- every emitted literal stays a literal, and what they denote is the text up to line breaks -/
theorem fmtStd_denotes {esc : List Char} (h : EscapesQuoteAndBackslash esc) :
    ∀ t : List Char, ∃ d, decodeAll (fmtStd esc t) = some d ∧ noNl d = noNl t := by
  intro t
  induction t with
  | nil =>
    refine ⟨[nl], ?_, by simp [noNl]⟩
    simp [fmtStd, decodeAll, cLit]
  | cons c rest ih =>
    obtain ⟨d, hd, hn⟩ := ih
    by_cases hc : c = nl
    · subst hc
      cases rest with
      | nil =>
        refine ⟨nl :: d, ?_, ?_⟩
        · rw [fmtStd]; simp only [if_true]
          simp [decodeAll, cLit, hd]
        · rw [noNl_cons_nl, noNl_cons_nl, hn]
      | cons d' r' =>
        by_cases hd' : d' = nl
        · refine ⟨d, ?_, ?_⟩
          · rw [fmtStd]; simp only [if_true]; simp [hd', ← hd]
          · rw [noNl_cons_nl, hn]
        · refine ⟨nl :: d, ?_, ?_⟩
          · rw [fmtStd]; simp only [if_true]
            simp [hd', decodeAll, cLit, hd]
          · rw [noNl_cons_nl, noNl_cons_nl, hn]
    · rw [fmtStd.eq_def]; simp only [hc, if_false]
      cases hp : fmtStd esc rest with
      | nil =>
        rw [hp] at hd
        simp [decodeAll] at hd
        subst hd
        refine ⟨[c], ?_, ?_⟩
        · have := cLit_escChar h c hc []
          simp at this
          simp [decodeAll, this, cLit]
        · rw [noNl_cons hc, noNl_cons hc, hn]
      | cons p ps =>
        rw [hp] at hd
        simp only [decodeAll] at hd
        cases h1 : cLit p with
        | none => simp [h1] at hd
        | some dp =>
          cases h2 : decodeAll ps with
          | none => simp [h1, h2] at hd
          | some dps =>
            simp [h1, h2] at hd
            refine ⟨c :: d, ?_, ?_⟩
            · simp [decodeAll, cLit_escChar h c hc p, h1, h2, hd]
            · rw [noNl_cons hc, noNl_cons hc, hn]

/-- the one literal `format_for_stringout` writes denotes exactly the text -/
theorem fmtInit_denotes {esc : List Char} (h : EscapesQuoteAndBackslash esc) :
    ∀ t : List Char, cLit (fmtInit esc t) = some t := by
  intro t
  induction t with
  | nil => simp [fmtInit, cLit]
  | cons c rest ih =>
    by_cases hc : c = nl
    · subst hc
      rw [fmtInit]; simp only [if_true]
      show cLit (bsl :: 'n' :: fmtInit esc rest) = _
      rw [cLit_nl, ih]; rfl
    · rw [fmtInit]; simp only [hc, if_false]
      rw [cLit_escChar h c hc, ih]; rfl

/-! ## Specification: the rules of a declaration in the dictionary -/
namespace Spec

/-- the dictionary text of a WHERE clause: its label (the parser's placeholder `<unnamed>` when it has none), `: (`, the
    expression, `);` -/
def MirrorWhere (w : WhereRule) (t : String) : Prop :=
  ∃ lab, (w.label = some lab ∨ (w.label = none ∧ lab = "<unnamed>")) ∧ t = lab ++ ": (" ++ w.expr ++ ");\n"

/-- the dictionary text of a UNIQUE clause: the label in upper case and ` : ` when there is one, then the attribute references
    as written, separated by `, ` -/
def MirrorUnique (u : UniqueRule) (t : String) : Prop :=
  t = (match u.label with | some l => l.toUpper ++ " : " | none => "") ++ ", ".intercalate u.attrs

/-- every entity and every named type has its rule lists: one text per clause, in clause order -/
structure MirrorRules (s : Schema) (d : List DRules × List DRules) : Prop where
  entities : Forall2 (fun e r => r.owner = e.name ∧ Forall2 MirrorWhere e.wheres r.wheres ∧
                                 Forall2 MirrorUnique e.uniques r.uniques) s.entities d.1
  types : Forall2 (fun t r => r.owner = t.name ∧ Forall2 MirrorWhere t.wheres r.wheres ∧ r.uniques = []) s.types d.2

/-- the supertype statement of an entity descriptor: `ABSTRACT SUPERTYPE` / `SUPERTYPE`, and ` OF ( <constraint>)` when the
    declaration has one; no statement for an entity that has neither -/
def MirrorSuperStmt (e : Entity) (t : Option String) : Prop :=
  t = match e.abstract, e.superExpr with
    | true, some x => some ("ABSTRACT SUPERTYPE OF ( " ++ x ++ ")")
    | true, none => some "ABSTRACT SUPERTYPE"
    | false, some x => some ("SUPERTYPE OF ( " ++ x ++ ")")
    | false, none => none

end Spec
open Spec

theorem mirrorSuperStmt (e : Entity) : MirrorSuperStmt e (supertypeStmt e) := by
  unfold MirrorSuperStmt supertypeStmt
  cases e.abstract <;> cases e.superExpr <;> rfl

theorem mirrorWhere_whereText (w : WhereRule) : MirrorWhere w (whereText w) := by
  unfold MirrorWhere whereText
  cases h : w.label with
  | none => exact ⟨"<unnamed>", Or.inr ⟨rfl, rfl⟩, rfl⟩
  | some l => exact ⟨l, Or.inl rfl, rfl⟩

theorem mirrorUnique_uniqueText (u : UniqueRule) : MirrorUnique u (uniqueText u) := by
  unfold MirrorUnique uniqueText
  cases u.label <;> rfl

end StepModel.GenCxx

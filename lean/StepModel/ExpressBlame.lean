import StepModel.ExpressWF
/-!
# `Express.Resolve` — who is blamed (proof file)

`ExpressWF.lean` shows *when* a check reports an ERROR (⇔ the declarative predicate fails).  This file shows *whom* it
names: for the "undefined X" and structural checks, every diagnostic the check produces carries, as its first argument(s) and
line, a construct of the input that really violates the predicate — never a neighbour, never a well-formed one.
-/
namespace StepModel.Express.Resolve
open StepModel.Generated
open StepModel.Express.Diag (Arg Diag Via)

/-- the named reference at the core of a type reference -/
def TypeRef.coreName : TypeRef → Option (String × Nat)
  | .simple => none
  | .aggr b => b.coreName
  | .named n l => some (n, l)

theorem typeRefWF_iff_core (env : Env) (s : Schema) : ∀ t, TypeRefWF env s t ↔ ∀ n l, t.coreName = some (n, l) → DenotesType env s n
  | .simple => by simp [TypeRefWF, TypeRef.coreName]
  | .aggr b => by simpa [TypeRefWF, TypeRef.coreName] using typeRefWF_iff_core env s b
  | .named n l => by simp [TypeRefWF, TypeRef.coreName]

/-- **UNDEFINED_TYPE / NOT_A_TYPE blame the reference itself**: the diagnostic quotes the name at the core of the reference, on
    the line of that name, and that name denotes no type -/
theorem typeRef_blames (p : String) (env : Env) (s : Schema) : ∀ (t : TypeRef) (d : Diag), d ∈ typeRefDiags p env s t →
    ∃ n l, t.coreName = some (n, l) ∧ ¬ DenotesType env s n ∧ d.line = l ∧ d.args.head? = some (sArg n)
  | .simple, d, h => by simp [typeRefDiags] at h
  | .aggr b, d, h => by
    obtain ⟨n, l, hc, hr⟩ := typeRef_blames p env s b d (by simpa [typeRefDiags] using h)
    exact ⟨n, l, by simpa [TypeRef.coreName] using hc, hr⟩
  | .named n l, d, h => by
    have hne : typeRefDiags p env s (.named n l) ≠ [] := by intro e; rw [e] at h; simp at h
    have hnw : ¬ DenotesType env s n := by
      intro hw; exact hne ((typeRefDiags_nil_iff p env s (.named n l)).mpr hw)
    refine ⟨n, l, rfl, hnw, ?_⟩
    simp only [typeRefDiags] at h
    split at h
    · simp at h
    · split at h
      · simp at h; subst h; exact ⟨rfl, rfl⟩
      · split at h
        · simp at h; subst h; exact ⟨rfl, rfl⟩
        · simp at h
        · simp at h; subst h; exact ⟨rfl, rfl⟩

/-- **UNKNOWN_SUPERTYPE / SUPERTYPE_RESOLVE / UNKNOWN_SUBTYPE / SUBTYPE_RESOLVE blame a listed name that is no entity**: the
    first argument is that name; a supertype is reported on its own line, a subtype on the entity's line -/
theorem superSub_blames (p : String) (env : Env) (s : Schema) (e : Entity) (d : Diag) (h : d ∈ superSubDiags p env s e) :
    (∃ x ∈ e.supers, isEnt env s x.1 = false ∧ d.line = x.2 ∧ d.args.head? = some (sArg x.1)) ∨
    (∃ n ∈ e.subs, isEnt env s n = false ∧ d.line = e.line ∧ d.args.head? = some (sArg n)) := by
  simp only [superSubDiags, List.mem_append, List.mem_filterMap] at h
  rcases h with ⟨x, hx, hd⟩ | ⟨n, hn, hd⟩
  · left
    refine ⟨x, hx, ?_⟩
    cases he : isEnt env s x.1 with
    | true => simp [he] at hd
    | false =>
      simp only [he, Bool.false_eq_true, if_false] at hd
      split at hd <;> (simp only [Option.some.injEq] at hd; subst hd; exact ⟨rfl, rfl, rfl⟩)
  · right
    refine ⟨n, hn, ?_⟩
    cases he : isEnt env s n with
    | true => simp [he] at hd
    | false =>
      simp only [he, Bool.false_eq_true, if_false] at hd
      split at hd
      · simp only [Option.some.injEq] at hd; subst hd
        refine ⟨rfl, rfl, ?_⟩
        simp only [mk, subtypeResolveArgs]
        split <;> rfl
      · simp only [Option.some.injEq] at hd; subst hd; exact ⟨rfl, rfl, rfl⟩

/-- **MISSING_SUPERTYPE blames a subtype that really does not list the entity**: arguments (entity, subtype), on the subtype's line -/
theorem missingSuper_blames (p : String) (s : Schema) (e : Entity) (d : Diag) (h : d ∈ missingSuperDiags p s e) :
    ∃ sub ∈ subtypesOf s e, ∃ se, findEntity s sub = some se ∧ e.name ∉ supersOf s se ∧
      d.line = se.line ∧ d.args = [sArg e.name, sArg (declName se.name)] := by
  simp only [missingSuperDiags, List.mem_filterMap] at h
  obtain ⟨sub, hs, hd⟩ := h
  refine ⟨sub, hs, ?_⟩
  cases hf : findEntity s sub with
  | none => simp [hf] at hd
  | some se =>
    simp only [hf] at hd
    split at hd
    · simp at hd
    · next hnot =>
      simp only [Option.some.injEq] at hd; subst hd
      exact ⟨se, rfl, hnot, rfl, rfl⟩

/-- **UNDEFINED_FUNC blames the called name**, which is neither a function of the schema nor a built-in; the accompanying
    MISSING_SELF names the rule of the call; both on the rule's line -/
theorem call_blames (p : String) (s : Schema) (r : Rule) (fn : String) (argc : Nat) (d : Diag)
    (h : d ∈ callDiags p s r fn argc) (he : isErrorCode d.code = true) :
    ¬ CallWF s fn ∧ d.line = r.line ∧
      ((d.code = LibErrors.UNDEFINED_FUNC ∧ d.args = [sArg fn]) ∨ (d.code = LibErrors.MISSING_SELF ∧ d.args = [sArg r.label])) := by
  have hne : hasError (callDiags p s r fn argc) = true := by
    cases hh : hasError (callDiags p s r fn argc) with
    | true => rfl
    | false => rw [(hasError_false_iff _).mp hh d h] at he; cases he
  have hnw : ¬ CallWF s fn := by
    intro hw; rw [(callDiags_noError_iff p s r fn argc).mpr hw] at hne; cases hne
  refine ⟨hnw, ?_⟩
  simp only [CallWF, not_or, Bool.not_eq_true, Option.isSome_eq_false_iff, Option.isNone_iff_eq_none] at hnw
  simp only [callDiags, hnw.1, hnw.2, missingSelf, List.mem_cons] at h
  rcases h with h | h
  · subst h; exact ⟨rfl, Or.inl ⟨rfl, rfl⟩⟩
  · split at h
    · simp only [List.mem_singleton] at h; subst h; exact ⟨rfl, Or.inr ⟨rfl, rfl⟩⟩
    · simp at h

/-- **UNKNOWN_ATTR_IN_ENTITY blames `SELF.a` for an `a` the entity neither declares nor inherits**: arguments (a, entity) -/
theorem selfAttr_blames (p : String) (env : Env) (s : Schema) (fuel : Nat) (e : Entity) (r : Rule) (an : String) (d : Diag)
    (h : d ∈ ruleItemDiags p env s fuel e r (.selfAttr an)) :
    ¬ AttrVisible s fuel e an ∧ d.line = r.line ∧ d.args = [sArg an, sArg e.name] := by
  simp only [ruleItemDiags, AttrVisible] at h ⊢
  split at h
  · simp at h
  · next hne =>
    simp only [List.mem_singleton] at h; subst h
    exact ⟨fun hv => hne hv, rfl, rfl⟩

/-- **UNDEFINED blames a bare identifier that nothing in scope declares**: not an attribute of the entity or its supertypes, not a
    name of the schema scope; the MISSING_SELF of a domain rule names the rule -/
theorem bareAttr_blames (p : String) (env : Env) (s : Schema) (fuel : Nat) (e : Entity) (r : Rule) (an : String) (d : Diag)
    (h : d ∈ ruleItemDiags p env s fuel e r (.bareAttr an)) (he : isErrorCode d.code = true) :
    ¬ BareVisible s fuel e an ∧ d.line = r.line ∧
      ((d.code = LibErrors.UNDEFINED ∧ d.args = [sArg an] ∧ ¬ GlobalVisible env s an) ∨
       (d.code = LibErrors.MISSING_SELF ∧ d.args = [sArg r.label] ∧ r.isWhere = true)) := by
  have hin : d ∈ bareOutside p env s r an →
      d.line = r.line ∧
      ((d.code = LibErrors.UNDEFINED ∧ d.args = [sArg an] ∧ ¬ GlobalVisible env s an) ∨
       (d.code = LibErrors.MISSING_SELF ∧ d.args = [sArg r.label] ∧ r.isWhere = true)) := by
    intro hd
    have ms : d ∈ missingSelf p r → d.line = r.line ∧ d.code = LibErrors.MISSING_SELF ∧ d.args = [sArg r.label] ∧ r.isWhere = true := by
      intro hm
      simp only [missingSelf] at hm
      split at hm
      · next hw => simp only [List.mem_singleton] at hm; subst hm; exact ⟨rfl, rfl, rfl, hw⟩
      · simp at hm
    simp only [bareOutside] at hd
    cases hg : globalRef p env s r an with
    | some ds =>
      rw [hg] at hd
      rcases List.mem_append.mp hd with hd | hd
      · have := (hasError_false_iff _).mp (globalRef_noError p env s r an ds hg) d hd
        rw [this] at he; cases he
      · obtain ⟨a, b, c, w⟩ := ms hd; exact ⟨a, Or.inr ⟨b, c, w⟩⟩
    | none =>
      rw [hg] at hd
      have hnv : ¬ GlobalVisible env s an := by
        rw [← globalRef_isSome_iff p env s r an, hg]; simp
      rcases List.mem_cons.mp hd with hd | hd
      · subst hd; exact ⟨rfl, Or.inl ⟨rfl, rfl, hnv⟩⟩
      · obtain ⟨a, b, c, w⟩ := ms hd; exact ⟨a, Or.inr ⟨b, c, w⟩⟩
  simp only [ruleItemDiags] at h
  simp only [BareVisible]
  cases hn : varFind s an fuel e.name with
  | true => rw [hn] at h; simp at h
  | false => rw [hn] at h; exact ⟨by simp, hin (by simpa using h)⟩

/-- the same inside a FUNCTION / RULE / CONSTANT: UNDEFINED blames an identifier that is no parameter or local and that the
    schema scope does not know -/
theorem algRef_blames (p : String) (env : Env) (s : Schema) (f : Func) (r : Rule) (n : String) (d : Diag)
    (h : d ∈ algItemDiags p env s f r (.bareAttr n)) (he : isErrorCode d.code = true) :
    n ∉ f.locals ∧ ¬ GlobalVisible env s n ∧ d.line = r.line ∧ d.code = LibErrors.UNDEFINED ∧ d.args = [sArg n] := by
  simp only [algItemDiags] at h
  by_cases hl : n ∈ f.locals
  · simp [hl] at h
  · simp only [hl, if_false] at h
    cases hg : globalRef p env s r n with
    | some ds =>
      rw [hg] at h
      have := (hasError_false_iff _).mp (globalRef_noError p env s r n ds hg) d h
      rw [this] at he; cases he
    | none =>
      rw [hg] at h
      simp only [List.mem_singleton] at h; subst h
      refine ⟨hl, ?_, rfl, rfl, rfl⟩
      rw [← globalRef_isSome_iff p env s r n, hg]; simp

/-- **UNDEFINED_SCHEMA blames the clause's schema name**, which no schema of the run has; on the clause's line -/
theorem pass1_blames (f : File) (s : Schema) (d : Diag) (h : d ∈ pass1 f s) :
    ∃ i ∈ s.ifaces, (findSchema f i.schema).isSome = false ∧ d.line = i.line ∧ d.args = [sArg i.schema] ∧
      d.code = LibErrors.UNDEFINED_SCHEMA := by
  simp only [pass1, List.mem_flatMap] at h
  obtain ⟨i, hi, hd⟩ := h
  refine ⟨i, hi, ?_⟩
  cases hf : (findSchema f i.schema).isSome with
  | true => simp [hf] at hd
  | false =>
    simp only [hf, Bool.false_eq_true, if_false] at hd
    cases hit : i.items with
    | none => rw [hit] at hd; simp only [List.mem_singleton] at hd; subst hd; exact ⟨rfl, rfl, rfl, rfl⟩
    | some its =>
      rw [hit] at hd
      simp only [List.mem_map] at hd
      obtain ⟨_, _, hd⟩ := hd; subst hd; exact ⟨rfl, rfl, rfl, rfl⟩

/-- **REF_NONEXISTENT blames the imported item and the schema it is imported from**: that schema hands nothing out under that
    name (at this point of pass 2); on the item's line -/
theorem pass2_blames (f : File) (fb : Bool) (s : Schema) (d : Diag) (h : d ∈ pass2 f fb s)
    (hc : d.code = LibErrors.REF_NONEXISTENT) :
    ∃ x ∈ useItems s ++ refItems s, exportOf f fb (processedBefore f s.name) (importFuel f) x.1 x.2.old = none ∧
      d.line = x.2.line ∧ d.args = [sArg x.2.old, sArg x.1] := by
  have miss : ∀ items : List (String × Item),
      d ∈ (items.filterMap fun (x : String × Item) =>
        match exportOf f fb (processedBefore f s.name) (importFuel f) x.1 x.2.old with
        | some _ => none
        | none => some (mk (fileOf f s) LibErrors.REF_NONEXISTENT x.2.line [sArg x.2.old, sArg x.1])) →
      ∃ x ∈ items, exportOf f fb (processedBefore f s.name) (importFuel f) x.1 x.2.old = none ∧
        d.line = x.2.line ∧ d.args = [sArg x.2.old, sArg x.1] := by
    intro items hd
    simp only [List.mem_filterMap] at hd
    obtain ⟨x, hx, hd⟩ := hd
    refine ⟨x, hx, ?_⟩
    cases he : exportOf f fb (processedBefore f s.name) (importFuel f) x.1 x.2.old with
    | some o => rw [he] at hd; simp at hd
    | none => rw [he] at hd; simp only [Option.some.injEq] at hd; subst hd; exact ⟨rfl, rfl, rfl⟩
  have dup : ∀ l seen, d ∈ aliasDups (fileOf f s) l seen → False := by
    intro l
    induction l with
    | nil => intro seen hd; simp [aliasDups] at hd
    | cons x xs ih =>
      intro seen hd
      obtain ⟨n, ln, o⟩ := x
      simp only [aliasDups] at hd
      split at hd
      · split at hd
        · exact ih _ hd
        · rcases List.mem_cons.mp hd with hd | hd
          · subst hd; simp [mk] at hc; revert hc; decide
          · exact ih _ hd
      · exact ih _ hd
  simp only [pass2, List.mem_append] at h
  rcases h with ((h | h) | h) | h
  · obtain ⟨x, hx, r⟩ := miss _ h; exact ⟨x, List.mem_append_left _ hx, r⟩
  · exact (dup _ _ h).elim
  · obtain ⟨x, hx, r⟩ := miss _ h; exact ⟨x, List.mem_append_right _ hx, r⟩
  · exact (dup _ _ h).elim

/-- **OVERLOADED_ATTR blames a new attribute and a supertype that really has an attribute of that name** (own or inherited):
    arguments (attribute, supertype), on the attribute's line -/
theorem overload_blames (p : String) (s : Schema) (fuel : Nat) (e : Entity) (d : Diag) (h : d ∈ overloadDiags p s fuel e) :
    ∃ a ∈ e.attrs, a.redeclOf = none ∧ ∃ sup ∈ supersOf s e, overloadFound s a.name fuel sup = some true ∧
      d.line = a.line ∧ d.args = [sArg a.name, sArg (declName sup)] := by
  simp only [overloadDiags, List.mem_filterMap] at h
  obtain ⟨⟨r, d0⟩, hx, hd⟩ := h
  simp only at hd
  split at hd
  · next hr =>
    simp only [Option.some.injEq] at hd; subst hd
    simp only [overloadCands, List.mem_flatMap] at hx
    obtain ⟨a, ha, hx⟩ := hx
    refine ⟨a, ha, ?_⟩
    cases hrd : a.redeclOf with
    | some q => rw [hrd] at hx; simp at hx
    | none =>
      rw [hrd] at hx
      simp only [List.mem_map, Prod.mk.injEq] at hx
      obtain ⟨sup, hsup, h1, h2⟩ := hx
      subst h2
      exact ⟨rfl, sup, hsup, by rw [h1]; exact hr, rfl, rfl⟩
  · simp at hd

/-- **REDECL_NO_SUCH_SUPERTYPE / REDECL_NO_SUCH_ATTR blame the redeclaration `SELF\sup.attr`**: either `sup` is no proper
    ancestor of the entity, or it is one that does not declare `attr`; on the redeclaration's line -/
theorem redecl_blames (p : String) (s : Schema) (fuel : Nat) (e : Entity) (d : Diag) (h : d ∈ redeclDiags p s fuel e) :
    ∃ a ∈ e.attrs, ∃ sup, a.redeclOf = some sup ∧ d.line = a.line ∧
      ((d.code = LibErrors.REDECL_NO_SUCH_SUPERTYPE ∧ d.args = [sArg sup, sArg a.name] ∧
          (sup = e.name ∨ isAncestor s sup fuel e.name = false)) ∨
       (d.code = LibErrors.REDECL_NO_SUCH_ATTR ∧ d.args = [sArg a.name, sArg (declName sup)] ∧
          ∃ se, findEntity s sup = some se ∧ se.attrs.any (·.name = a.name) = false)) := by
  simp only [redeclDiags, List.mem_flatMap] at h
  obtain ⟨a, ha, hd⟩ := h
  refine ⟨a, ha, ?_⟩
  cases hrd : a.redeclOf with
  | none => rw [hrd] at hd; simp at hd
  | some sup =>
    rw [hrd] at hd
    refine ⟨sup, rfl, ?_⟩
    simp only at hd
    split at hd
    · next hc =>
      simp only [List.mem_singleton] at hd; subst hd
      refine ⟨rfl, Or.inl ⟨rfl, rfl, ?_⟩⟩
      simpa using hc
    · cases hf : findEntity s sup with
      | none => rw [hf] at hd; simp at hd
      | some se =>
        rw [hf] at hd
        simp only at hd
        split at hd
        · simp at hd
        · next hany =>
          simp only [List.mem_singleton] at hd; subst hd
          exact ⟨rfl, Or.inr ⟨rfl, rfl, se, rfl, by simpa using hany⟩⟩

/-- **INVERSE_BAD_ATTR / INVERSE_BAD_ENTITY blame the INVERSE clause's FOR name** on a clause that is really ill formed -/
theorem inverse_blames (p : String) (s : Schema) (a : Attr) (hasAttr : String → String → Bool) (d : Diag)
    (h : d ∈ inverseDiags p s a hasAttr) :
    ¬ InverseWF s hasAttr a ∧ ∃ attrName l, a.inverseFor = some (attrName, l) ∧ d.args.head? = some (sArg attrName) ∧
      (d.line = l ∨ d.line = a.line) := by
  have hne : hasError (inverseDiags p s a hasAttr) = true := by
    cases hh : hasError (inverseDiags p s a hasAttr) with
    | true => rfl
    | false =>
      exfalso
      have hw := (inverse_noError_iff p s a hasAttr).mp hh
      -- a well-formed clause produces no diagnostic at all
      simp only [inverseDiags, InverseWF] at h hw
      cases hi : a.inverseFor with
      | none => rw [hi] at h; simp at h
      | some x =>
        obtain ⟨an, l⟩ := x
        rw [hi] at h hw
        simp only at h hw
        cases hc : a.ty.core with
        | simple => rw [hc] at hw; exact hw
        | aggr b => rw [hc] at hw; exact hw
        | named n ln =>
          rw [hc] at h hw
          simp only at h hw
          cases hf : findEntity s n with
          | some t =>
            rw [hf] at h hw
            simp only at h hw
            have : (t.attrs.any (fun x => x.name = an) || hasAttr t.name an) = true := by
              rcases hw with hw | hw <;> simp [hw]
            simp [this] at h
          | none =>
            rw [hf] at h hw
            simp only at h hw
            simp [hw] at h
  have hnw : ¬ InverseWF s hasAttr a := by
    intro hw; rw [(inverse_noError_iff p s a hasAttr).mpr hw] at hne; cases hne
  refine ⟨hnw, ?_⟩
  simp only [inverseDiags] at h
  cases hi : a.inverseFor with
  | none => rw [hi] at h; simp at h
  | some x =>
    obtain ⟨an, l⟩ := x
    rw [hi] at h
    refine ⟨an, l, rfl, ?_⟩
    simp only at h
    split at h
    · split at h
      · split at h
        · simp at h
        · simp only [List.mem_singleton] at h; subst h; exact ⟨rfl, Or.inl rfl⟩
      · split at h
        · simp only [List.mem_singleton] at h; subst h; exact ⟨rfl, Or.inr rfl⟩
        · simp at h
    · simp only [List.mem_singleton] at h; subst h; exact ⟨rfl, Or.inr rfl⟩

/-- **every diagnostic of a UNIQUE rule is on the rule's line and quotes the attribute or the qualifier written there**; an ERROR
    among them means the reference really is ill formed (`UniqueWF` fails) -/
theorem unique_blames (p : String) (s : Schema) (e : Entity) (fuel : Nat) (u : UniqueItem) (d : Diag)
    (h : d ∈ uniqueDiags p s e fuel u) :
    d.line = u.line ∧
    (d.args.head? = some (sArg u.attr) ∨ ∃ q, u.qual = some q ∧ d.args.head? = some (sArg q)) ∧
    (isErrorCode d.code = true → ¬ UniqueWF s fuel e u) := by
  have hwf : isErrorCode d.code = true → ¬ UniqueWF s fuel e u := by
    intro he hw
    have := (hasError_false_iff _).mp ((unique_noError_iff p s fuel e u).mpr hw) d h
    rw [this] at he; cases he
  have hunq : ∀ x, x ∈ (match namedAttr s u.attr fuel e.name with
      | some true => ([] : List Diag)
      | _ => [mk p LibErrors.UNKNOWN_ATTR_IN_ENTITY u.line [sArg u.attr, sArg e.name]]) →
      x.line = u.line ∧ x.args.head? = some (sArg u.attr) := by
    intro x hx
    split at hx
    · simp at hx
    · simp only [List.mem_singleton] at hx; subst hx; exact ⟨rfl, rfl⟩
  have hneed : ∀ x, x ∈ (if e.attrs.any (fun a => a.name = u.attr) then
      [mk p LibErrors.UNIQUE_QUAL_REDECL u.line [sArg u.attr, sArg e.name]] else ([] : List Diag)) →
      x.line = u.line ∧ x.args.head? = some (sArg u.attr) := by
    intro x hx
    split at hx
    · simp only [List.mem_singleton] at hx; subst hx; exact ⟨rfl, rfl⟩
    · simp at hx
  refine ⟨?_, ?_, hwf⟩
  · simp only [uniqueDiags] at h
    cases hq : u.qual with
    | none => rw [hq] at h; exact (hunq d h).1
    | some q =>
      rw [hq] at h
      simp only at h
      split at h
      · simp only [List.append_assoc, List.cons_append, List.nil_append, List.mem_cons, List.mem_append] at h
        rcases h with rfl | rfl | h | h
        · rfl
        · rfl
        · exact (hunq d h).1
        · exact (hneed d h).1
      · split at h
        · exact (hunq d h).1
        · split at h
          · rcases List.mem_append.mp h with h | h
            · exact (hneed d h).1
            · exact (hunq d h).1
          · simp only [List.append_assoc, List.cons_append, List.nil_append, List.mem_cons, List.mem_append] at h
            rcases h with rfl | rfl | h | h
            · rfl
            · rfl
            · exact (hunq d h).1
            · exact (hneed d h).1
  · simp only [uniqueDiags] at h
    cases hq : u.qual with
    | none => rw [hq] at h; exact Or.inl (hunq d h).2
    | some q =>
      rw [hq] at h
      simp only at h
      split at h
      · simp only [List.append_assoc, List.cons_append, List.nil_append, List.mem_cons, List.mem_append] at h
        rcases h with rfl | rfl | h | h
        · exact Or.inr ⟨q, rfl, rfl⟩
        · exact Or.inr ⟨q, rfl, rfl⟩
        · exact Or.inl (hunq d h).2
        · exact Or.inl (hneed d h).2
      · split at h
        · exact Or.inl (hunq d h).2
        · split at h
          · rcases List.mem_append.mp h with h | h
            · exact Or.inl (hneed d h).2
            · exact Or.inl (hunq d h).2
          · simp only [List.append_assoc, List.cons_append, List.nil_append, List.mem_cons, List.mem_append] at h
            rcases h with rfl | rfl | h | h
            · exact Or.inl rfl
            · exact Or.inl rfl
            · exact Or.inl (hunq d h).2
            · exact Or.inl (hneed d h).2

/-- **CIRCULAR_REFERENCE / TYPE_IS_ENTITY / UNDEFINED_TYPE of a type declaration quote a name written in that declaration** (the
    underlying type or a select item), and the declaration really is ill formed -/
theorem typeDecl_blames (p : String) (env : Env) (s : Schema) (t : TypeDecl) (d : Diag) (h : d ∈ typeDeclDiags p env s t) :
    ¬ TypeDeclWF env s t ∧
    ((∃ r, t.body = .ref r ∧ ∃ n l, r.coreName = some (n, l) ∧ d.args.head? = some (sArg n)) ∨
     (∃ items, t.body = .select items ∧ ∃ x ∈ items, d.args.head? = some (sArg x.1) ∧ d.line = x.2 ∧ ¬ DenotesType env s x.1)) := by
  have herr : isErrorCode d.code = true := by
    simp only [typeDeclDiags] at h
    cases hb : t.body with
    | enum items => rw [hb] at h; simp at h
    | select items =>
      rw [hb] at h
      obtain ⟨x, _, hx⟩ := List.mem_flatMap.mp h
      exact typeRefDiags_all_error p env s _ d hx
    | ref r =>
      rw [hb] at h
      simp only [List.mem_append] at h
      rcases h with (h | h) | h
      · split at h
        · split at h
          · simp only [List.mem_singleton] at h; subst h; errsimp
          · simp at h
        · simp at h
      · exact typeRefDiags_all_error p env s r d h
      · split at h
        · split at h
          · simp only [List.mem_singleton] at h; subst h; errsimp
          · simp at h
        · simp at h
  have hnw : ¬ TypeDeclWF env s t := by
    intro hw
    have := (hasError_false_iff _).mp ((typeDecl_noError_iff p env s t).mpr hw) d h
    rw [this] at herr; cases herr
  refine ⟨hnw, ?_⟩
  simp only [typeDeclDiags] at h
  cases hb : t.body with
  | enum items => rw [hb] at h; simp at h
  | select items =>
    rw [hb] at h
    right
    obtain ⟨x, hx, hd⟩ := List.mem_flatMap.mp h
    obtain ⟨n, l, hc, hnd, hl, ha⟩ := typeRef_blames p env s _ d hd
    simp only [TypeRef.coreName, Option.some.injEq, Prod.mk.injEq] at hc
    obtain ⟨rfl, rfl⟩ := hc
    exact ⟨items, rfl, x, hx, ha, hl, hnd⟩
  | ref r =>
    rw [hb] at h
    left
    refine ⟨r, rfl, ?_⟩
    simp only [List.mem_append] at h
    rcases h with (h | h) | h
    · cases hc : r.core with
      | simple => rw [hc] at h; simp at h
      | aggr b => rw [hc] at h; simp at h
      | named n l =>
        rw [hc] at h
        simp only at h
        split at h
        · simp only [List.mem_singleton] at h; subst h
          refine ⟨n, l, ?_, rfl⟩
          -- `core` and `coreName` agree
          have : ∀ r : TypeRef, r.core = .named n l → r.coreName = some (n, l) := by
            intro r
            induction r with
            | simple => intro h; simp [TypeRef.core] at h
            | named n' l' => intro h; simp only [TypeRef.core, TypeRef.named.injEq] at h; obtain ⟨rfl, rfl⟩ := h; rfl
            | aggr b ih => intro h; simp only [TypeRef.core] at h; simpa [TypeRef.coreName] using ih h
          exact this r hc
        · simp at h
    · obtain ⟨n, l, hc, _, _, ha⟩ := typeRef_blames p env s r d h
      exact ⟨n, l, hc, ha⟩
    · cases r with
      | simple => simp at h
      | aggr b => simp at h
      | named n l =>
        simp only at h
        split at h
        · simp only [List.mem_singleton] at h; subst h; exact ⟨n, l, rfl, rfl⟩
        · simp at h

/-- **WRONG_ARG_COUNT quotes the number of arguments the call is written with and the number of parameters of the function**, on the
    line of the call — whatever happens to the arguments when they are resolved -/
theorem callCount_blames (p : String) (s : Schema) (r : Rule) (fn : String) (argc : Nat) (d : Diag)
    (h : d ∈ callDiags p s r fn argc) (hc : d.code = LibErrors.WRONG_ARG_COUNT) :
    d.line = r.line ∧ ∃ (name : String) (k : Nat), d.args = [sArg name, .int argc, .int k] ∧ k ≠ argc ∧
      ((∃ fd, findFunc s fn = some fd ∧ k = fd.nparams ∧ name = fn) ∨ (findFunc s fn = none ∧ builtinArity fn = some k ∧ name = fn.toUpper)) := by
  simp only [callDiags] at h
  cases hf : findFunc s fn with
  | some fd =>
    rw [hf] at h
    simp only at h
    split at h
    · simp at h
    · next hne =>
      simp only [List.mem_singleton] at h; subst h
      exact ⟨rfl, fn, fd.nparams, rfl, hne, Or.inl ⟨fd, rfl, rfl, rfl⟩⟩
  | none =>
    rw [hf] at h
    simp only at h
    cases hb : builtinArity fn with
    | some n =>
      rw [hb] at h
      simp only at h
      split at h
      · simp at h
      · next hne =>
        simp only [List.mem_singleton] at h; subst h
        exact ⟨rfl, fn.toUpper, n, rfl, hne, Or.inr ⟨rfl, rfl, rfl⟩⟩
    | none =>
      rw [hb] at h
      simp only [missingSelf, List.mem_cons] at h
      rcases h with h | h
      · subst h
        have hne : LibErrors.UNDEFINED_FUNC ≠ LibErrors.WRONG_ARG_COUNT := by decide
        exact absurd hc hne
      · split at h
        · simp only [List.mem_singleton] at h; subst h
          have hne : LibErrors.MISSING_SELF ≠ LibErrors.WRONG_ARG_COUNT := by decide
          exact absurd hc hne
        · simp at h

/-- the count check of a call with an argument list is the check for the number of arguments WRITTEN: it does not depend on
    which of them resolve -/
theorem callWith_count (p : String) (env : Env) (s : Schema) (fuel : Nat) (e : Entity) (r : Rule) (fn : String)
    (args : List CallArg) (d : Diag) (h : d ∈ callDiags p s r fn args.length) : d ∈ callWithDiags p env s fuel e r fn args := by
  simp only [callWithDiags]
  split
  · exact List.mem_append_left _ (List.mem_append_left _ h)
  · exact h

/-- **the first argument that fails to resolve is the one that is reported, and the only one**: the walk over the arguments stops
    there -/
theorem argsRun_first_failure (diagsOf : CallArg → List Diag) (sees : CallArg → Bool) (pre : List CallArg) (a : CallArg)
    (post : List CallArg) (hpre : ∀ x ∈ pre, hasError (diagsOf x) = false) (ha : hasError (diagsOf a) = true) :
    (argsRun diagsOf sees (pre ++ a :: post)).1 = pre.flatMap diagsOf ++ diagsOf a := by
  induction pre with
  | nil => simp [argsRun, ha]
  | cons x xs ih =>
    have hx := hpre x (List.mem_cons_self ..)
    simp only [List.cons_append, argsRun, hx, Bool.false_eq_true, if_false, List.flatMap_cons, List.append_assoc]
    rw [ih (fun y hy => hpre y (List.mem_cons_of_mem _ hy))]

end StepModel.Express.Resolve

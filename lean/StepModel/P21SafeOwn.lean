/-! C05 — who owns the node a reader hands to an aggregate (`STEPaggregate::ReadValue`, `EntityAggregate::ReadValue`,
`SelectAggregate::ReadValue`, src/clstepcore/STEPaggregate.cc, STEPaggrEntity.cc, STEPaggrSelect.cc).

The three functions share one shape: a scratch node when values are only validated (`!assignVal`), a fresh node per
element handed to the list with `AddNode( item )` when values are assigned, three ways out (the closing parenthesis, a
missing one, giving up inside the loop on a bad delimiter).  The `delete item` statements — where they stand and under
which guard — are regenerated from the source (`Generated.C05`); the model executes them on a heap of node ids and reports
a node that is freed while the list still holds it (the list's destructor / a later traversal would use it) or freed twice.
Core Lean only; no theorems here. -/
namespace StepModel.P21Safe

/-- the guard in front of a `delete item;` -/
inductive DelGuard where
  | always
  /-- `if( !assignVal )`, or a flag that is set only together with the scratch allocation (`free_item`) -/
  | ifNotAssign
  | ifAssign
  deriving Repr, DecidableEq

/-- the `delete item;` statements of one `ReadValue`, by position (at most one per position) -/
structure DelCfg where
  /-- inside the element loop, before `return SEVERITY_INPUT_ERROR` (delimiter neither `,` nor `)`) -/
  giveUp : Option DelGuard
  /-- after the loop, before the test for the closing parenthesis (runs on both ways out of the loop) -/
  afterLoop : Option DelGuard
  /-- in the "Missing close paren" branch -/
  missingClose : Option DelGuard
  /-- after that test, before the final `return` (closing parenthesis found) -/
  atEnd : Option DelGuard
  deriving Repr, DecidableEq

inductive AggrExit where
  /-- the closing parenthesis was read -/
  | closed
  /-- the loop ended without it (end of input) -/
  | missingClose
  /-- the delimiter after an element was neither `,` nor `)` -/
  | giveUp
  deriving Repr, DecidableEq

/-- node ids: in the list, freed; `item` is the C variable (may dangle) -/
structure NodeHeap where
  list : List Nat
  freed : List Nat
  item : Option Nat
  deriving Repr, DecidableEq

inductive OwnOut where
  /-- fine; number of nodes that are neither in the list nor freed (leaked) -/
  | ok (leaked : Nat)
  /-- `delete item` while the list still holds the node -/
  | danglingInList (id : Nat)
  | doubleFree (id : Nat)
  deriving Repr, DecidableEq

def guardApplies : DelGuard → Bool → Bool
  | .always, _ => true
  | .ifNotAssign, assign => !assign
  | .ifAssign, assign => assign

/-- `delete item;` (deleting a null pointer does nothing) -/
def deleteItem (h : NodeHeap) : Except OwnOut NodeHeap :=
  match h.item with
  | none => .ok h
  | some i =>
    if i ∈ h.freed then .error (.doubleFree i)
    else if i ∈ h.list then .error (.danglingInList i)
    else .ok { h with freed := i :: h.freed }

def deleteAt (g : Option DelGuard) (assign : Bool) (h : NodeHeap) : Except OwnOut NodeHeap :=
  match g with
  | some g => if guardApplies g assign then deleteItem h else .ok h
  | none => .ok h

/-- the heap after `k` elements were read: assigning — node `j` allocated and handed to the list for each element, `item`
points at the last one; validating — one scratch node (id 0) if the aggregate was not empty, the list untouched -/
def afterElems (assign scratch : Bool) (k : Nat) : NodeHeap :=
  if assign then ⟨(List.range k).reverse, [], if k = 0 then none else some (k - 1)⟩
  else ⟨[], [], if scratch then some 0 else none⟩

def leaked (assign scratch : Bool) (k : Nat) (h : NodeHeap) : Nat :=
  let allocated := if assign then List.range k else (if scratch then [0] else [])
  (allocated.filter (fun i => !(h.list.contains i) && !(h.freed.contains i))).length

/-- one run of `ReadValue`: `k` elements read, then the way out -/
def aggrRun (cfg : DelCfg) (assign scratch : Bool) (k : Nat) (exit : AggrExit) : OwnOut :=
  let h0 := afterElems assign scratch k
  let r : Except OwnOut NodeHeap :=
    match exit with
    | .giveUp => deleteAt cfg.giveUp assign h0
    | .missingClose => (deleteAt cfg.afterLoop assign h0).bind (deleteAt cfg.missingClose assign)
    | .closed => (deleteAt cfg.afterLoop assign h0).bind (deleteAt cfg.atEnd assign)
  match r with
  | .ok h => .ok (leaked assign scratch k h)
  | .error e => e

/-- the decidable condition: every `delete item` is guarded by "not assigning", and no way out passes two of them -/
def delCfgSafe (cfg : DelCfg) : Bool :=
  let okG : Option DelGuard → Bool := fun g => g = none || g = some .ifNotAssign
  okG cfg.giveUp && okG cfg.afterLoop && okG cfg.missingClose && okG cfg.atEnd &&
  !(cfg.afterLoop.isSome && cfg.missingClose.isSome) && !(cfg.afterLoop.isSome && cfg.atEnd.isSome)

end StepModel.P21Safe

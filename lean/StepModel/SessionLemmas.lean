import StepModel.SevLemmas
import StepModel.Session
/-! Helper lemmas about the session model (used by Props/C14.lean and Props/C16.lean). -/
namespace StepModel.Session
open StepModel StepModel.P21 StepModel.Generated

theorem find_eq_none {ns : List Node} {id : Int} : find ns id = none ↔ id ∉ ids ns := by
  unfold find ids
  rw [List.find?_eq_none]
  simp only [List.mem_map, not_exists, not_and]
  constructor
  · intro h n hn he; exact absurd (by simp [he]) (h n hn)
  · intro h n hn; have := h n hn; simp; exact this

theorem find_isSome {ns : List Node} {id : Int} : (find ns id).isSome = true ↔ id ∈ ids ns := by
  cases hf : find ns id with
  | none => simp; exact find_eq_none.mp hf
  | some n =>
    simp
    exact Decidable.not_not.mp (fun hc => by rw [find_eq_none.mpr hc] at hf; cases hf)

theorem find_isSome_false {ns : List Node} {id : Int} (h : id ∉ ids ns) : (find ns id).isSome = false := by
  simp [find_eq_none.mpr h]

theorem find_mid {A B : List Node} {n : Node} (h : n.inst.id ∉ ids A) :
    find (A ++ n :: B) n.inst.id = some n := by
  unfold find
  rw [List.find?_append]
  have : List.find? (fun m => m.inst.id == n.inst.id) A = none := find_eq_none.mpr h
  rw [this]; simp

theorem ids_append (A B : List Node) : ids (A ++ B) = ids A ++ ids B := by simp [ids]

theorem update_noop {L : List Node} {id : Int} {n' : Node} (h : id ∉ ids L) : update L id n' = L := by
  unfold update
  induction L with
  | nil => rfl
  | cons x xs ih =>
    simp only [ids, List.map_cons, List.mem_cons, not_or] at h
    simp only [List.map_cons]
    rw [if_neg (fun he => h.1 he.symm)]
    congr 1
    exact ih (by simpa [ids] using h.2)

theorem update_mid {A B : List Node} {n n' : Node} (hA : n.inst.id ∉ ids A) (hB : n.inst.id ∉ ids B) :
    update (A ++ n :: B) n.inst.id n' = A ++ n' :: B := by
  have h1 := update_noop (n' := n') hA
  have h2 := update_noop (n' := n') hB
  unfold update at *
  simp only [List.map_append, List.map_cons, if_true, h1, h2]

/-- `InstMgr::Append` of an instance carrying an explicit id nobody else carries -/
theorem append_fresh (s : Sess) (i : Inst) (st : NodeState) (h0 : i.id ≠ unassignedFileId) (hf : i.id ∉ ids s.nodes) :
    append s i st = ⟨s.nodes ++ [⟨i, st⟩], if i.id > s.maxId then i.id else s.maxId⟩ := by
  unfold append
  simp only [if_neg h0, find_isSome_false hf, Bool.false_eq_true, if_false]

/-! ### values -/

theorem mapRefs_id (v : Val) : v.mapRefs (fun x => x) = v := by
  induction v with
  | null => rfl | derived => rfl | tok _ => rfl
  | ref i => rfl
  | typed n v ih => simp only [Val.mapRefs, ih]
  | aggr e ih => simp only [Val.mapRefs, ih]
  | nil => rfl
  | cons h t ih1 ih2 => simp only [Val.mapRefs, ih1, ih2]
  | via p v ih => simp only [Val.mapRefs, ih]

theorem map_mapRefs_id (vs : List Val) : vs.map (Val.mapRefs (fun x => x)) = vs := by
  induction vs with
  | nil => rfl
  | cons v vs ih => simp only [List.map_cons, mapRefs_id, ih]

theorem shift_zero (i : Inst) : i.shift 0 = i := by
  cases i with | mk id parts =>
  simp only [Inst.shift, Inst.mapRefs, Int.add_zero, map_mapRefs_id]
  congr 1
  induction parts with
  | nil => rfl
  | cons p ps ih => simp only [List.map_cons, ih]

/-- every call site between the instance reader and `ReadEntityRef` hands the increment on; `b`: the reader of the text elements
    of an aggregate of aggregates applies it to the references in the text (`aggrNested`) -/
def allOnN (b : Bool) : Threading := ⟨true, true, true, true, true, true, true, true, true, true, true, true, true, true, b⟩
/-- every site on -/
def allOn : Threading := allOnN true
/-- the 14 call sites of the code hand the increment on (re-checked against the source on every run); the 15th is what it is -/
theorem threading_all : threading = allOnN threading.aggrNested := rfl

theorem on_instAttr (b : Bool) : (allOnN b).instAttr = true := rfl
theorem on_attrRef (b : Bool) : (allOnN b).attrRef = true := rfl
theorem on_attrAggr (b : Bool) : (allOnN b).attrAggr = true := rfl
theorem on_attrSelect (b : Bool) : (allOnN b).attrSelect = true := rfl
theorem on_redef (b : Bool) : (allOnN b).redef = true := rfl
theorem on_aggrEntityElem (b : Bool) : (allOnN b).aggrEntityElem = true := rfl
theorem on_aggrSelectElem (b : Bool) : (allOnN b).aggrSelectElem = true := rfl
theorem on_selectContent (b : Bool) : (allOnN b).selectContent = true := rfl
theorem on_selectRef (b : Bool) : (allOnN b).selectRef = true := rfl
theorem on_complexPart (b : Bool) : (allOnN b).complexPart = true := rfl
theorem on_refAdd (b : Bool) : (allOnN b).refAdd = true := rfl
theorem on_genSelectRef (b : Bool) : (allOnN b).genSelectRef = true := rfl
theorem on_genSelectNested (b : Bool) : (allOnN b).genSelectNested = true := rfl
theorem on_genSelectAggr (b : Bool) : (allOnN b).genSelectAggr = true := rfl
theorem on_aggrNested (b : Bool) : (allOnN b).aggrNested = b := rfl

theorem thr_true (k : Int) : thr true k = k := rfl
theorem thr_zero (b : Bool) : thr b 0 = 0 := by cases b <;> rfl

theorem mapRefs_no_refs (f : Int → Int) (v : Val) (h : v.refs = []) : v.mapRefs f = v := by
  induction v with
  | null => rfl | derived => rfl | tok _ => rfl
  | ref i => simp [Val.refs] at h
  | typed n v ih => simp only [Val.mapRefs, ih (by simpa [Val.refs] using h)]
  | aggr e ih => simp only [Val.mapRefs, ih (by simpa [Val.refs] using h)]
  | nil => rfl
  | cons a b iha ihb =>
    have h' : a.refs = [] ∧ b.refs = [] := by simpa [Val.refs] using h
    simp only [Val.mapRefs, iha h'.1, ihb h'.2]
  | via p v ih => simp only [Val.mapRefs, ih (by simpa [Val.refs] using h)]

/-- with the 14 call sites on: all references of `v`, moved by `k`, are ids in `ns` ⇒ reading resolves every one of them to
    the moved id, wherever the value stands — PROVIDED the text elements of aggregates of aggregates get the increment too
    (`b`), or there is no increment (`k = 0`), or no reference stands inside such an element (`flatC`) -/
theorem resolveValT_closed (b : Bool) (ns : List Node) (k : Int) (v : Val) (h : ∀ r ∈ v.refs, r + k ∈ ids ns) (c : Ctx)
    (hf : b = true ∨ k = 0 ∨ flatC c v = true) :
    resolveValT (allOnN b) ns c k v = (v.mapRefs (· + k), true) := by
  induction v generalizing c with
  | null => rfl | derived => rfl | tok _ => rfl
  | ref r =>
    have : (find ns (r + k)).isSome = true := find_isSome.mpr (h r (by simp [Val.refs]))
    cases c <;> simp [resolveValT, on_instAttr, on_attrRef, on_attrAggr, on_attrSelect, on_redef, on_aggrEntityElem, on_aggrSelectElem, on_selectContent, on_selectRef, on_complexPart, on_refAdd, on_genSelectRef, on_genSelectNested, on_genSelectAggr, thr_true, this, Val.mapRefs]
  | typed n v ih =>
    simp only [resolveValT, Val.mapRefs, on_selectContent, thr_true]
    rw [ih (by simpa [Val.refs] using h) .inTyped (by simpa [flatC] using hf)]
  | aggr e ih =>
    cases c with
    | inAggr =>
      simp only [resolveValT, Val.mapRefs, on_aggrNested]
      rcases hf with hb | hk | hfl
      · subst hb; rfl
      · subst hk; rw [thr_zero]
      · have he : e.refs = [] := by simpa [flatC] using hfl
        rw [mapRefs_no_refs _ e he, mapRefs_no_refs _ e he]
    | top =>
      have := ih (by simpa [Val.refs] using h) .inAggr (by simpa [flatC] using hf)
      simp only [resolveValT, Val.mapRefs, on_attrAggr, thr_true]; rw [this]
    | inTyped =>
      have := ih (by simpa [Val.refs] using h) .inAggr (by simpa [flatC] using hf)
      simp only [resolveValT, Val.mapRefs, on_genSelectAggr, thr_true]; rw [this]
    | inSelect =>
      have := ih (by simpa [Val.refs] using h) .inAggr (by simpa [flatC] using hf)
      simp only [resolveValT, Val.mapRefs]; rw [this]
  | nil => rfl
  | cons a b' iha ihb =>
    have hfa : b = true ∨ k = 0 ∨ flatC c a = true := by
      rcases hf with h1 | h1 | h1
      · exact Or.inl h1
      · exact Or.inr (Or.inl h1)
      · exact Or.inr (Or.inr (by simp [flatC] at h1; exact h1.1))
    have hfb : b = true ∨ k = 0 ∨ flatC c b' = true := by
      rcases hf with h1 | h1 | h1
      · exact Or.inl h1
      · exact Or.inr (Or.inl h1)
      · exact Or.inr (Or.inr (by simp [flatC] at h1; exact h1.2))
    simp only [resolveValT, Val.mapRefs]
    rw [iha (fun r hr => h r (by simp [Val.refs, hr])) c hfa, ihb (fun r hr => h r (by simp [Val.refs, hr])) c hfb]
    rfl
  | via p v ih =>
    cases p with
    | select =>
      have := ih (by simpa [Val.refs] using h) .inSelect (by simpa [flatC] using hf)
      cases c <;> (simp only [resolveValT, Val.mapRefs, on_attrSelect, on_aggrSelectElem, thr_true]; rw [this])
    | nested =>
      simp only [resolveValT, Val.mapRefs, on_selectContent, on_genSelectNested, thr_true]
      rw [ih (by simpa [Val.refs] using h) .inTyped (by simpa [flatC] using hf)]
    | redecl =>
      simp only [resolveValT, Val.mapRefs, on_redef, thr_true]
      rw [ih (by simpa [Val.refs] using h) c (by simpa [flatC] using hf)]

theorem resolveValsT_closed (b : Bool) (ns : List Node) (k : Int) (vs : List Val) (h : ∀ r ∈ vs.flatMap Val.refs, r + k ∈ ids ns)
    (hf : b = true ∨ k = 0 ∨ ∀ v ∈ vs, flatC .top v = true) :
    resolveValsT (allOnN b) ns k vs = (vs.map (Val.mapRefs (· + k)), true) := by
  induction vs with
  | nil => rfl
  | cons v vs ih =>
    simp only [resolveValsT, List.map_cons]
    have h1 : thr (allOnN b).instAttr k = k := rfl
    have hv : b = true ∨ k = 0 ∨ flatC .top v = true := by
      rcases hf with h1 | h1 | h1
      · exact Or.inl h1
      · exact Or.inr (Or.inl h1)
      · exact Or.inr (Or.inr (h1 v (by simp)))
    have hvs : b = true ∨ k = 0 ∨ ∀ x ∈ vs, flatC .top x = true := by
      rcases hf with h1 | h1 | h1
      · exact Or.inl h1
      · exact Or.inr (Or.inl h1)
      · exact Or.inr (Or.inr (fun x hx => h1 x (by simp [hx])))
    rw [h1, resolveValT_closed b ns k v (fun r hr => h r (by simp [hr])) .top hv, ih (fun r hr => h r (by simp [hr])) hvs]
    rfl

/-- `NestedOk`-style side condition of the reader of the code at hand, for the parts of one instance -/
theorem resolveParts_closed (ns : List Node) (cx : Bool) (k : Int) (ps : List Part)
    (h : ∀ r ∈ ps.flatMap (fun p => p.vals.flatMap Val.refs), r + k ∈ ids ns)
    (hf : threading.aggrNested = true ∨ k = 0 ∨ ∀ p ∈ ps, ∀ v ∈ p.vals, flatC .top v = true) :
    resolveParts ns cx k ps = (ps.map (fun p => { p with vals := p.vals.map (Val.mapRefs (· + k)) }), true) := by
  unfold resolveParts; rw [threading_all]
  generalize threading.aggrNested = b at hf
  induction ps with
  | nil => rfl
  | cons p ps ih =>
    simp only [resolvePartsT, List.map_cons]
    have h1 : (if cx = true then thr (allOnN b).complexPart k else k) = k := by cases cx <;> rfl
    have hp : b = true ∨ k = 0 ∨ ∀ v ∈ p.vals, flatC .top v = true := by
      rcases hf with h1 | h1 | h1
      · exact Or.inl h1
      · exact Or.inr (Or.inl h1)
      · exact Or.inr (Or.inr (h1 p (by simp)))
    have hps : b = true ∨ k = 0 ∨ ∀ q ∈ ps, ∀ v ∈ q.vals, flatC .top v = true := by
      rcases hf with h1 | h1 | h1
      · exact Or.inl h1
      · exact Or.inr (Or.inl h1)
      · exact Or.inr (Or.inr (fun q hq => h1 q (by simp [hq])))
    rw [h1, resolveValsT_closed b ns k p.vals (fun r hr => h r (by simp [hr])) hp, ih (fun r hr => h r (by simp [hr])) hps]
    rfl


open StepModel StepModel.P21 StepModel.Generated

/-! ### the two passes -/

def kept (ft : FileType) (es : List Entry) : List Entry := es.filter (fun e => !skipped ft e)
def fids (k : Int) (es : List Entry) : List Int := es.map (fun e => incrementFileId k e.inst.id)
def stubNode (ft : FileType) (k : Int) (e : Entry) : Node := ⟨stub k e.inst, entryState ft e⟩
def maxWith (m : Int) (l : List Int) : Int := l.foldl (fun m x => if x > m then x else m) m

/-- state an instance ends up in when all its references resolve -/
def finalState (ft : FileType) (asev : Inst → Sev) (e : Entry) : NodeState :=
  match ft with
  | .exchange => exchangeStateOf (asev e.inst)
  | .working => entryState ft e
def filledNode (ft : FileType) (fill : Inst → Inst) (asev : Inst → Sev) (k : Int) (e : Entry) : Node :=
  ⟨fill (e.inst.shift k), finalState ft asev e⟩

theorem kept_cons_skipped {ft e es} (h : skipped ft e = true) : kept ft (e :: es) = kept ft es := by
  simp [kept, List.filter_cons, h]
theorem kept_cons_kept {ft e es} (h : skipped ft e = false) : kept ft (e :: es) = e :: kept ft es := by
  simp [kept, List.filter_cons, h]

theorem stub_id (k : Int) (i : Inst) : (stub k i).id = incrementFileId k i.id := rfl

/-- pass 1 without the abort rule -/
def pass1Fold (ft : FileType) (k : Int) (s : Sess) (es : List Entry) : Sess := es.foldl (pass1Step ft k) s

/-- records of `es` that count towards the abort rule although nothing is wrong with them: the skipped `D` entries, when the
    code counts them (`Generated.deletedCountsAsFailure`) -/
def cntSkipped (ft : FileType) (es : List Entry) : Nat :=
  if deletedCountsAsFailure then (es.filter (skipped ft)).length else 0

theorem pass1Fold_spec (ft : FileType) (k : Int) : ∀ (es : List Entry) (s : Sess),
    (∀ x ∈ fids k (kept ft es), x ∉ ids s.nodes) → (fids k (kept ft es)).Nodup →
    (∀ x ∈ fids k (kept ft es), x ≠ unassignedFileId) →
    (pass1Fold ft k s es).nodes = s.nodes ++ (kept ft es).map (stubNode ft k) ∧
    (pass1Fold ft k s es).maxId = maxWith s.maxId (fids k (kept ft es)) := by
  intro es
  induction es with
  | nil => intro s _ _ _; exact ⟨by simp [pass1Fold, kept], rfl⟩
  | cons e es ih =>
    intro s hfresh hnd hnz
    simp only [pass1Fold, List.foldl_cons]
    cases hsk : skipped ft e with
    | true =>
      rw [kept_cons_skipped hsk] at hfresh hnd hnz ⊢
      have : pass1Step ft k s e = s := by simp [pass1Step, hsk]
      rw [this]; exact ih s hfresh hnd hnz
    | false =>
      rw [kept_cons_kept hsk] at hfresh hnd hnz ⊢
      simp only [fids, List.map_cons, List.mem_cons, forall_eq_or_imp, List.nodup_cons] at hfresh hnd hnz
      have hf : incrementFileId k e.inst.id ∉ ids s.nodes := hfresh.1
      have hstep : pass1Step ft k s e =
          ⟨s.nodes ++ [stubNode ft k e], if incrementFileId k e.inst.id > s.maxId then incrementFileId k e.inst.id else s.maxId⟩ := by
        simp only [pass1Step, hsk, Bool.false_eq_true, if_false, find_isSome_false hf]
        exact append_fresh s (stub k e.inst) _ hnz.1 hf
      rw [hstep]
      have := ih ⟨s.nodes ++ [stubNode ft k e], if incrementFileId k e.inst.id > s.maxId then incrementFileId k e.inst.id else s.maxId⟩
        (by
          intro x hx
          simp only [ids_append, List.mem_append, not_or]
          refine ⟨hfresh.2 x hx, ?_⟩
          simp only [ids, stubNode, List.map_cons, List.map_nil, List.mem_singleton, stub_id]
          intro he; exact hnd.1 (he ▸ hx))
        hnd.2 hnz.2
      simp only [pass1Fold] at this
      refine ⟨?_, ?_⟩
      · rw [this.1]; simp [List.append_assoc]
      · rw [this.2]; simp [maxWith, fids]

theorem cntSkipped_cons_skipped {ft e es} (h : skipped ft e = true) :
    cntSkipped ft (e :: es) = cntSkipped ft es + (if deletedCountsAsFailure then 1 else 0) := by
  unfold cntSkipped; cases deletedCountsAsFailure <;> simp [List.filter_cons, h]

theorem cntSkipped_cons_kept {ft e es} (h : skipped ft e = false) : cntSkipped ft (e :: es) = cntSkipped ft es := by
  unfold cntSkipped; cases deletedCountsAsFailure <;> simp [List.filter_cons, h]

/-- as long as the abort threshold is not reached the abort rule is invisible -/
theorem pass1Go_fold (ft : FileType) (k : Int) : ∀ (es : List Entry) (nc : Nat) (s : Sess),
    (∀ x ∈ fids k (kept ft es), x ∉ ids s.nodes) → (fids k (kept ft es)).Nodup →
    (∀ x ∈ fids k (kept ft es), x ≠ unassignedFileId) → nc + cntSkipped ft es ≤ maxErrorCount →
    pass1Go ft k nc s es = pass1Fold ft k s es := by
  intro es
  induction es with
  | nil => intro nc s _ _ _ _; rfl
  | cons e es ih =>
    intro nc s hfresh hnd hnz hb
    simp only [pass1Go, pass1Fold, List.foldl_cons]
    cases hsk : skipped ft e with
    | true =>
      rw [kept_cons_skipped hsk] at hfresh hnd hnz
      rw [cntSkipped_cons_skipped hsk] at hb
      have hst : pass1Step ft k s e = s := by simp [pass1Step, hsk]
      have hf : failsPass1 ft k s e = deletedCountsAsFailure := by simp [failsPass1, hsk]
      rw [hst, hf]
      generalize deletedCountsAsFailure = D at hb ⊢
      have hle : ¬ ((if D = true then nc + 1 else nc) > maxErrorCount) := by
        cases D <;> simp at hb ⊢ <;> omega
      rw [if_neg hle]
      have := ih (if D = true then nc + 1 else nc) s hfresh hnd hnz
        (by cases D <;> simp at hb ⊢ <;> omega)
      simpa [pass1Fold] using this
    | false =>
      rw [kept_cons_kept hsk] at hfresh hnd hnz
      rw [cntSkipped_cons_kept hsk] at hb
      simp only [fids, List.map_cons, List.mem_cons, forall_eq_or_imp, List.nodup_cons] at hfresh hnd hnz
      have hf : incrementFileId k e.inst.id ∉ ids s.nodes := hfresh.1
      have hfl : failsPass1 ft k s e = false := by simp [failsPass1, hsk, find_isSome_false hf]
      have hstep : pass1Step ft k s e =
          ⟨s.nodes ++ [stubNode ft k e], if incrementFileId k e.inst.id > s.maxId then incrementFileId k e.inst.id else s.maxId⟩ := by
        simp only [pass1Step, hsk, Bool.false_eq_true, if_false, find_isSome_false hf]
        exact append_fresh s (stub k e.inst) _ hnz.1 hf
      rw [hfl]
      simp only [Bool.false_eq_true, if_false]
      rw [if_neg (by omega)]
      have := ih nc (pass1Step ft k s e)
        (by
          rw [hstep]
          intro x hx
          simp only [ids_append, List.mem_append, not_or]
          refine ⟨hfresh.2 x hx, ?_⟩
          simp only [ids, stubNode, List.map_cons, List.map_nil, List.mem_singleton, stub_id]
          intro he; exact hnd.1 (he ▸ hx))
        hnd.2 hnz.2 hb
      simpa [pass1Fold] using this

theorem pass1_spec (ft : FileType) (k : Int) (es : List Entry) (s : Sess)
    (hfresh : ∀ x ∈ fids k (kept ft es), x ∉ ids s.nodes) (hnd : (fids k (kept ft es)).Nodup)
    (hnz : ∀ x ∈ fids k (kept ft es), x ≠ unassignedFileId) (hb : cntSkipped ft es ≤ maxErrorCount) :
    (pass1 ft k s es).nodes = s.nodes ++ (kept ft es).map (stubNode ft k) ∧
    (pass1 ft k s es).maxId = maxWith s.maxId (fids k (kept ft es)) := by
  unfold pass1
  rw [pass1Go_fold ft k es 0 s hfresh hnd hnz (by omega)]
  exact pass1Fold_spec ft k es s hfresh hnd hnz

theorem pass2_maxId (ft fill asev k) : ∀ (es : List Entry) (s : Sess), (pass2 ft fill asev k s es).maxId = s.maxId := by
  intro es
  induction es with
  | nil => intro s; rfl
  | cons e es ih =>
    intro s
    simp only [pass2, List.foldl_cons]
    have : (pass2Step ft fill asev k s e).maxId = s.maxId := by
      simp only [pass2Step]
      split
      · rfl
      · cases find s.nodes (incrementFileId k e.inst.id) with
        | none => rfl
        | some n => dsimp only; split <;> rfl
    have h2 := ih (pass2Step ft fill asev k s e)
    simp only [pass2] at h2
    rw [h2, this]

theorem shift_eq (k : Int) (i : Inst) :
    i.shift k = { id := incrementFileId k i.id,
                  parts := i.parts.map (fun p => { p with vals := p.vals.map (Val.mapRefs (· + k)) }),
                  comment := i.comment } := rfl

theorem pass2_spec (ft : FileType) (fill : Inst → Inst) (asev : Inst → Sev) (k : Int) (m : Int)
    (hfill : ∀ i, (fill i).id = i.id) (hkeep : workingReadKeepsState = true) (hcm : keepComment ft = true) :
    ∀ (es : List Entry) (A : List Node),
    (ids A ++ fids k (kept ft es)).Nodup →
    (∀ e ∈ kept ft es, ∀ r ∈ e.inst.refs, r + k ∈ ids A ++ fids k (kept ft es)) →
    (threading.aggrNested = true ∨ k = 0 ∨ ∀ e ∈ kept ft es, FlatInst e.inst) →
    (pass2 ft fill asev k ⟨A ++ (kept ft es).map (stubNode ft k), m⟩ es).nodes = A ++ (kept ft es).map (filledNode ft fill asev k) := by
  intro es
  induction es with
  | nil => intro A _ _ _; simp [pass2, kept]
  | cons e es ih =>
    intro A hnd hrefs hflat
    simp only [pass2, List.foldl_cons]
    cases hsk : skipped ft e with
    | true =>
      rw [kept_cons_skipped hsk] at hnd hrefs hflat ⊢
      have : ∀ s, pass2Step ft fill asev k s e = s := by intro s; simp [pass2Step, hsk]
      rw [this]; exact ih A hnd hrefs hflat
    | false =>
      rw [kept_cons_kept hsk] at hnd hrefs hflat ⊢
      simp only [List.map_cons]
      have hidn : (stubNode ft k e).inst.id = incrementFileId k e.inst.id := rfl
      have hnd' := hnd
      simp only [fids, List.map_cons] at hnd'
      rw [List.nodup_append] at hnd'
      obtain ⟨hA, hF, hdisj⟩ := hnd'
      rw [List.nodup_cons] at hF
      have hA_fresh : incrementFileId k e.inst.id ∉ ids A := by
        intro h; exact hdisj _ h _ (by simp) rfl
      have hB_fresh : incrementFileId k e.inst.id ∉ ids ((kept ft es).map (stubNode ft k)) := by
        have : ids ((kept ft es).map (stubNode ft k)) = fids k (kept ft es) := by
          simp [ids, fids, stubNode, stub_id, Function.comp_def]
        rw [this]; exact hF.1
      have hids : ids (A ++ stubNode ft k e :: (kept ft es).map (stubNode ft k)) = ids A ++ fids k (e :: kept ft es) := by
        simp [ids, fids, stubNode, stub_id, Function.comp_def]
      have hres : resolveParts (A ++ stubNode ft k e :: (kept ft es).map (stubNode ft k)) (decide (1 < e.inst.parts.length)) k e.inst.parts =
          (e.inst.parts.map (fun p => { p with vals := p.vals.map (Val.mapRefs (· + k)) }), true) := by
        apply resolveParts_closed
        · intro r hr
          rw [hids]
          exact hrefs e (by simp) r (by simpa [Inst.refs] using hr)
        · rcases hflat with h1 | h1 | h1
          · exact Or.inl h1
          · exact Or.inr (Or.inl h1)
          · exact Or.inr (Or.inr (h1 e (by simp)))
      have hfind : find (A ++ stubNode ft k e :: (kept ft es).map (stubNode ft k)) (incrementFileId k e.inst.id)
          = some (stubNode ft k e) := by
        have := find_mid (A := A) (B := (kept ft es).map (stubNode ft k)) (n := stubNode ft k e) (by rw [hidn]; exact hA_fresh)
        rw [hidn] at this; exact this
      have hstep : pass2Step ft fill asev k ⟨A ++ stubNode ft k e :: (kept ft es).map (stubNode ft k), m⟩ e =
          ⟨(A ++ [filledNode ft fill asev k e]) ++ (kept ft es).map (stubNode ft k), m⟩ := by
        simp only [pass2Step, hsk, Bool.false_eq_true, if_false, hfind, hres]
        have hst : (ft = .exchange && (stubNode ft k e).state ≠ exchangePass1State) = false := by
          cases ft <;> simp [stubNode, entryState]
        simp only [hst, Bool.false_eq_true, if_false, if_true]
        have hupd := fun n' => update_mid (A := A) (B := (kept ft es).map (stubNode ft k)) (n := stubNode ft k e)
          (n' := n') (by rw [hidn]; exact hA_fresh) (by rw [hidn]; exact hB_fresh)
        rw [hidn] at hupd
        rw [hupd]
        rw [hcm]
        cases ft <;> simp [filledNode, finalState, shift_eq, hkeep, stubNode, List.append_assoc, Sev.greater_null_left]
      rw [hstep]
      have hidf : ids (A ++ [filledNode ft fill asev k e]) = ids A ++ [incrementFileId k e.inst.id] := by
        simp [ids, filledNode, hfill, shift_eq]
      have := ih (A ++ [filledNode ft fill asev k e])
        (by
          rw [hidf, List.append_assoc]
          simpa [fids] using hnd)
        (by
          intro e' he' r hr
          rw [hidf, List.append_assoc]
          have := hrefs e' (by simp [he']) r hr
          simpa [fids] using this)
        (by
          rcases hflat with h1 | h1 | h1
          · exact Or.inl h1
          · exact Or.inr (Or.inl h1)
          · exact Or.inr (Or.inr (fun e' he' => h1 e' (by simp [he']))))
      simp only [pass2] at this
      rw [this]; simp [List.append_assoc]

theorem le_maxWith_init (m : Int) (l : List Int) : m ≤ maxWith m l := by
  induction l generalizing m with
  | nil => exact Int.le_refl _
  | cons x xs ih =>
    show m ≤ maxWith (if x > m then x else m) xs
    have := ih (if x > m then x else m)
    by_cases h : x > m
    · rw [if_pos h] at this ⊢; omega
    · rw [if_neg h] at this ⊢; omega

theorem le_maxWith_mem (m : Int) (l : List Int) : ∀ x ∈ l, x ≤ maxWith m l := by
  induction l generalizing m with
  | nil => intro x hx; cases hx
  | cons y ys ih =>
    intro x hx
    show x ≤ maxWith (if y > m then y else m) ys
    rcases List.mem_cons.mp hx with rfl | hx'
    · have := le_maxWith_init (if x > m then x else m) ys
      by_cases h : x > m
      · rw [if_pos h] at this ⊢; omega
      · rw [if_neg h] at this ⊢; omega
    · exact ih (if y > m then y else m) x hx'

end StepModel.Session

import StepModel.P21SafeTermination
/-! Step counts of the stream loops across all nesting levels (helper file for Props/C05).

Potential `pot R s = 4·m(s) + (R while the stream has not failed)`: every loop satisfies
`steps' + pot R s' ≤ steps + pot R s + 1` — four steps per consumed byte, plus the reserve `R` (the comment guard's
iteration count) that is spent at most once, when the stream fails and a guarded loop spins on it. -/
namespace StepModel.P21Safe

def pot (R : Nat) (s : IS) : Nat := 4 * s.m + (if s.m = 0 then 0 else R)

theorem pot_zero {R : Nat} {a : IS} (h : a.m = 0) : pot R a = 0 := by simp [pot, h]
theorem pot_pos {R : Nat} {a : IS} (h : 1 ≤ a.m) : pot R a = 4 * a.m + R := by
  have : a.m ≠ 0 := by omega
  simp [pot, this]
theorem pot_mono {R : Nat} {a b : IS} (h : a.m ≤ b.m) : pot R a ≤ pot R b := by
  unfold pot; split <;> split <;> omega
theorem pot_drop {R : Nat} {a b : IS} {d : Nat} (h : a.m + d ≤ b.m) (hd : 1 ≤ d) : pot R a + 4 * d ≤ pot R b := by
  unfold pot; split <;> split <;> omega
theorem pot_ge {R : Nat} {b : IS} (h : 1 ≤ b.m) : 4 + R ≤ pot R b := by
  rw [pot_pos h]; omega
theorem pot_le {R : Nat} (b : IS) : pot R b ≤ 4 * b.m + R := by
  unfold pot; split <;> omega

theorem pot_putback (R : Nat) (s : IS) (c : Byte) : pot R (s.putback c) ≤ pot R s + 4 ∧ (s.putback c).m ≤ s.m + 1 ∧
    (s.m = 0 → (s.putback c).m = 0) := by
  have h1 := putback_m s c
  refine ⟨?_, h1, fun h => putback_m_zero s c h⟩
  by_cases hz : s.m = 0
  · rw [pot_zero (putback_m_zero s c hz)]; omega
  · by_cases hz2 : (s.putback c).m = 0
    · rw [pot_zero hz2]; omega
    · rw [pot_pos (by omega), pot_pos (by omega)]; omega

/-- the comment loop (the counter starts again while the stream is good): one step per consumed byte while the stream is
alive, and at most `left ≤ limit ≤ R` spins once it has failed — paid by the reserve `R` of the potential -/
theorem commentLoop_pot (R limit : Nat) (hR : limit ≤ R) : ∀ (fuel left : Nat) (s : IS) (c : Byte) (len steps : Nat), left ≤ limit →
    s.m + (if s.m = 0 then left else limit + 1) + 1 ≤ fuel →
    ∃ o s' c' len' st', commentLoop limit fuel left s c len steps = .ok (o, s', c', len', st') ∧ s'.m ≤ s.m ∧
      st' + pot R s' ≤ steps + pot R s + (if s.m = 0 then left else 0) := by
  intro fuel
  induction fuel with
  | zero => intro left s c len steps _ h; omega
  | succ f ih =>
    intro left s c len steps hle h
    unfold commentLoop
    by_cases hl0 : left = 0
    · simp only [hl0, if_true]
      exact ⟨_, _, _, _, _, rfl, Nat.le_refl _, by omega⟩
    · simp only [hl0, if_false]
      have cont : ∀ (t : IS) (c' : Byte) (l left' : Nat), left' ≤ limit →
          (t.m + 1 ≤ s.m ∨ (t.m = 0 ∧ (s.m = 0 → left' + 1 ≤ left))) →
          ∃ o s' c'' len' st', commentLoop limit f left' t c' l (steps + 1) = .ok (o, s', c'', len', st') ∧ s'.m ≤ s.m ∧
            st' + pot R s' ≤ steps + pot R s + (if s.m = 0 then left else 0) := by
        intro t c' l left' hl' ht
        have hf : t.m + (if t.m = 0 then left' else limit + 1) + 1 ≤ f := by
          by_cases hs : s.m = 0
          · simp only [hs, if_true] at h
            rcases ht with ht | ⟨ht0, hd⟩
            · omega
            · have := hd hs
              simp only [ht0, if_true]; omega
          · simp only [hs, if_false] at h
            rcases ht with ht | ⟨ht0, _⟩
            · by_cases ht0 : t.m = 0
              · simp only [ht0, if_true]; omega
              · simp only [ht0, if_false]; omega
            · simp only [ht0, if_true]; omega
        obtain ⟨o, s', c'', l', st', he, hm, hp⟩ := ih left' t c' l (steps + 1) hl' hf
        refine ⟨o, s', c'', l', st', he, by rcases ht with ht | ⟨ht0, _⟩ <;> omega, ?_⟩
        by_cases hs : s.m = 0
        · have ht0 : t.m = 0 := by rcases ht with ht | ⟨ht0, _⟩ <;> omega
          have hd : left' + 1 ≤ left := by
            rcases ht with ht | ⟨_, hd⟩
            · omega
            · exact hd hs
          simp only [ht0, if_true, pot_zero ht0] at hp
          simp only [hs, if_true, pot_zero hs]
          omega
        · have hs1 : 1 ≤ s.m := by omega
          have hge := pot_ge (R := R) hs1
          simp only [hs, if_false]
          by_cases ht0 : t.m = 0
          · simp only [ht0, if_true, pot_zero ht0] at hp
            omega
          · simp only [ht0, if_false] at hp
            rcases ht with ht | ⟨ht0', _⟩
            · have hd := pot_drop (R := R) ht (Nat.le_refl 1); omega
            · exact absurd ht0' ht0
      have h1 := get_m s
      split
      · have h2 := get_m (s.get).1
        split
        · refine ⟨_, _, _, _, _, rfl, by rcases h1 with h1 | h1 <;> rcases h2 with h2 | h2 <;> omega, ?_⟩
          by_cases hs : s.m = 0
          · have : ((s.get).1.get).1.m = 0 := by rcases h1 with h1 | h1 <;> rcases h2 with h2 | h2 <;> omega
            simp only [hs, if_true, pot_zero this, pot_zero hs]
            omega
          · have hs1 : 1 ≤ s.m := by omega
            have hge := pot_ge (R := R) hs1
            simp only [hs, if_false]
            by_cases hz : ((s.get).1.get).1.m = 0
            · rw [pot_zero hz]; omega
            · have hd := pot_drop (R := R) (a := ((s.get).1.get).1) (b := s) (d := 1)
                (by rcases h1 with h1 | h1 <;> rcases h2 with h2 | h2 <;> omega) (Nat.le_refl 1)
              omega
        · have hp := putback_m ((s.get).1.get).1 (((s.get).1.get).2.getD chStar)
          apply cont _ _ _ _ (left_le _ hle)
          by_cases hz : (((s.get).1.get).1.putback (((s.get).1.get).2.getD chStar)).m = 0
          · right
            refine ⟨hz, fun _ => left_dead hl0 (m_zero_not_good hz)⟩
          · left
            rcases h2 with h2 | h2
            · rcases h1 with h1 | h1
              · omega
              · exfalso; omega
            · exfalso; exact hz (putback_m_zero _ _ h2)
      · apply cont _ _ _ _ (left_le _ hle)
        rcases h1 with h1 | h1
        · left; exact h1
        · right; exact ⟨h1, fun _ => left_dead hl0 (m_zero_not_good h1)⟩

/-- what the fallback `SkipInstance` of an overlong comment has to satisfy -/
def SkipOk (R : Nat) (skip : IS → Out LoopRes) (bound : Nat) : Prop :=
  ∀ s', s'.m ≤ bound → ∃ r, skip s' = .ok r ∧ r.s.m ≤ s'.m ∧ r.steps + pot R r.s ≤ pot R s' + 1

theorem readCommentWith_comment_pot (R : Nat) (skip : IS → Out LoopRes) (iters : Nat) (hR : iters ≤ R) {s : IS} {r0 : List Byte}
    (hf : s.fail = false) (he : s.eof = false) (hr : s.rest = chSlash :: chStar :: r0)
    (hskip : SkipOk R skip (r0.length + 1)) :
    ∃ r, readCommentWith skip iters s = .ok r ∧ r.s.m ≤ r0.length + 1 ∧
      r.steps + pot R r.s ≤ 4 * (r0.length + 1) + R + 1 := by
  obtain ⟨pre, rest, eof, fail, sk⟩ := s
  simp at hf he hr; subst hf; subst he; subst hr
  have h1 : isSpace chSlash = false := by decide
  have hsp := skipSpaces_len (chStar :: chSlash :: pre) r0
  generalize hg : IS.skipSpaces (chStar :: chSlash :: pre) r0 = sp at hsp
  obtain ⟨p, r⟩ := sp
  have hm2 : (⟨p, r, r.isEmpty, false, sk⟩ : IS).m = r.length + 1 := by simp [IS.m]
  have hp2 : pot R (⟨p, r, r.isEmpty, false, sk⟩ : IS) ≤ 4 * (r0.length + 1) + R := by
    have := pot_le (R := R) (⟨p, r, r.isEmpty, false, sk⟩ : IS)
    simp at hsp; omega
  obtain ⟨o, s3, c3, len, steps, hc, hcl, hcp⟩ := commentLoop_pot R iters hR (r.length + iters + 3) iters
    ⟨p, r, r.isEmpty, false, sk⟩ chStar 0 0 (Nat.le_refl _) (by rw [hm2]; simp; omega)
  have hne : ¬ (r.length + 1 = 0) := by omega
  simp [hm2] at hcp
  have hs3 : s3.m ≤ r0.length + 1 := by simp at hsp; omega
  cases sk <;> simp [readCommentWith, IS.ws, IS.good, IS.skipSpaces, h1, IS.extract, IS.get, hg, hc]
  all_goals (
    cases o with
    | some u => simp; exact ⟨hs3, by omega⟩
    | none =>
      obtain ⟨r', hr', hm', hp'⟩ := hskip s3 hs3
      simp [hr']
      exact ⟨by omega, by omega⟩)

theorem readCommentWith_slash_pot (R : Nat) (skip : IS → Out LoopRes) (iters : Nat) (hR : iters ≤ R) {s : IS} {r0 : List Byte}
    (hf : s.fail = false) (he : s.eof = false) (hr : s.rest = chSlash :: r0)
    (hskip : SkipOk R skip r0.length) :
    ∃ r, readCommentWith skip iters s = .ok r ∧ r.s.m ≤ r0.length + 1 ∧
      r.steps + pot R r.s ≤ 4 * (r0.length + 1) + R + 1 := by
  cases r0 with
  | nil =>
    obtain ⟨pre, rest, eof, fail, sk⟩ := s
    simp at hf he hr; subst hf; subst he; subst hr
    have h1 : isSpace chSlash = false := by decide
    have h2 : ¬ chSlash = chStar := by decide
    cases sk <;> simp [readCommentWith, IS.ws, IS.good, IS.skipSpaces, h1, h2, IS.extract, IS.get, IS.putback, IS.m, pot]
  | cons x r1 =>
    by_cases hx : x = chStar
    · subst hx
      obtain ⟨r, hr', hm, hp⟩ := readCommentWith_comment_pot R skip iters hR hf he hr
        (fun s' hs' => hskip s' (by simp; omega))
      exact ⟨r, hr', by simp; omega, by simp; omega⟩
    · obtain ⟨pre, rest, eof, fail, sk⟩ := s
      simp at hf he hr; subst hf; subst he; subst hr
      have h1 : isSpace chSlash = false := by decide
      cases sk <;> simp [readCommentWith, IS.ws, IS.good, IS.skipSpaces, h1, IS.extract, IS.get, hx, IS.putback, IS.m, pot] <;> omega


theorem litLoop_total (r acc : List Byte) (esc : Bool) :
    (litLoop r acc esc).1.length + (litLoop r acc esc).2.1.length = acc.length + r.length := by
  fun_induction litLoop r acc esc <;> simp_all <;> omega

theorem litLoop_grows (r acc : List Byte) (esc : Bool) : acc.length ≤ (litLoop r acc esc).1.length := by
  fun_induction litLoop r acc esc <;> simp_all <;> omega

/-- on a stream that starts with a quote the string reader does not fail, and what it returns is what it consumed -/
theorem sdaiStringRead_quote_len {s : IS} {r : List Byte} (hf : s.fail = false) (he : s.eof = false)
    (hr : s.rest = chQuote :: r) :
    (sdaiStringRead s).1.fail = false ∧ (sdaiStringRead s).1.m + (sdaiStringRead s).2.length ≤ r.length + 2 ∧
      1 ≤ (sdaiStringRead s).2.length := by
  obtain ⟨pre, rest, eof, fail, sk⟩ := s
  simp at hf he hr; subst hf; subst he; subst hr
  have hq : isSpace chQuote = false := by decide
  have := litLoop_total r [chQuote] true
  generalize hll : litLoop r [chQuote] true = ll at this
  obtain ⟨acc, r', hitEnd, e2⟩ := ll
  have hgr := litLoop_grows r [chQuote] true
  rw [hll] at hgr
  have hacc : acc ≠ [] := by
    intro h; subst h; simp at hgr
  simp [sdaiStringRead, getLiteralStr, IS.ws, IS.good, IS.skipSpaces, hq, hll, hacc] at this ⊢
  simp [IS.m]
  constructor
  · omega
  · cases acc with
    | nil => exact absurd rfl hacc
    | cons a t => simp

/-- on a failed stream the string reader returns nothing and leaves the stream failed -/
theorem sdaiStringRead_failed {s : IS} (h : s.m = 0) : (sdaiStringRead s).1.m = 0 ∧ (sdaiStringRead s).2 = [] := by
  obtain ⟨pre, rest, eof, fail, sk⟩ := s
  cases fail <;> simp [IS.m] at h
  simp [sdaiStringRead, getLiteralStr, IS.ws, IS.good, IS.m]


/-- what the rest of a scan loop (one unit of fuel less) satisfies -/
def ScanOk (R : Nat) (rec : IS → Byte → Nat → Nat → Out LoopRes) (fuel : Nat) : Prop :=
  ∀ (s : IS) (c : Byte) (len steps : Nat), s.m + 1 ≤ fuel →
    ∃ r, rec s c len steps = .ok r ∧ r.s.m ≤ s.m ∧ r.steps + pot R r.s ≤ steps + pot R s + 1

theorem scanAfter_pot (R : Nat) (rec : IS → Byte → Nat → Nat → Out LoopRes) (stop : Byte) (pb cm : Bool) (iters fuel : Nat)
    (hR : iters ≤ R) (ih : ScanOk R rec fuel)
    (s s1 : IS) (c1 : Byte) (len steps : Nat) (h : s.m ≤ fuel) (hpos : 1 ≤ s.m)
    (hm : s1.m + 1 ≤ s.m ∨ s1.m = 0)
    (hshape : (∃ ps, s1.fail = false ∧ s1.eof = false ∧ s1.pre = c1 :: ps) ∨ s1.m = 0) :
    ∃ r, scanAfter rec stop pb cm iters s1 c1 len steps = .ok r ∧ r.s.m ≤ s.m ∧
      r.steps + pot R r.s ≤ steps + pot R s + 1 ∧ (pb = false → r.s.m ≤ s1.m) := by
  have hs1 : s1.m ≤ s.m := by omega
  have hs1f : s1.m + 1 ≤ fuel := by omega
  have hge := pot_ge (R := R) hpos
  -- potential of `s1` relative to `s`
  have hp1 : pot R s1 + 4 ≤ pot R s := by
    rcases hm with hm | hm
    · exact pot_drop hm (Nat.le_refl 1)
    · rw [pot_zero hm]; omega
  unfold scanAfter
  split
  · refine ⟨_, rfl, ?_, ?_, ?_⟩
    · simp only []
      split
      · rcases hm with hm | hm
        · have := putback_m s1 c1; omega
        · have := putback_m_zero s1 c1 hm; omega
      · exact hs1
    · simp only []
      split
      · rcases hm with hm | hm
        · have hpb := putback_m s1 c1
          have := pot_mono (R := R) (a := s1.putback c1) (b := s) (by omega)
          omega
        · have := putback_m_zero s1 c1 hm
          rw [pot_zero this]; omega
      · omega
    · intro hpb; subst hpb; simp
  · split
    · rename_i hc1
      generalize hpk : s1.peek = pk
      obtain ⟨s2, p⟩ := pk
      simp only []
      split
      · rename_i hp
        subst hp
        obtain ⟨rfl, hf1, he1, r0, hr0⟩ := peek_some hpk
        have hc1' : c1 = chSlash := by simp at hc1; exact hc1.2
        rcases hshape with ⟨ps, _, _, hpre⟩ | hz
        · rw [putback_restore hf1 hpre]
          have hm1 : s2.m = r0.length + 2 := by simp [IS.m, hf1, hr0]
          have hps2 : pot R s2 = 4 * (r0.length + 2) + R := by rw [pot_pos (by omega), hm1]
          obtain ⟨r, hr, hrm, hrp⟩ := readCommentWith_comment_pot R (fun s' => rec s' 0 0 0) iters hR
            (s := { s2 with pre := ps, rest := c1 :: s2.rest, eof := false }) (r0 := r0)
            (by simpa using hf1) rfl (by simp [hr0, hc1'])
            (fun s' hs' => by
              obtain ⟨r', h1, h2, h3⟩ := ih s' 0 0 0 (by omega)
              exact ⟨r', h1, h2, by omega⟩)
          rw [hr]
          simp only []
          obtain ⟨r2, hr2, hrm2, hrp2⟩ := ih r.s c1 len (steps + 1 + r.steps) (by omega)
          exact ⟨r2, hr2, by omega, by omega, fun _ => by omega⟩
        · exfalso; simp [IS.m, hf1] at hz
      · have hp2 : s2.m ≤ s1.m := by have := peek_m s1; rw [hpk] at this; exact this
        have := pot_mono (R := R) hp2
        obtain ⟨r, hr, hrm, hrp⟩ := ih s2 c1 (len + 1) (steps + 1) (by omega)
        exact ⟨r, hr, by omega, by omega, fun _ => by omega⟩
    · split
      · rename_i hq
        rcases hshape with ⟨ps, hf1, he1, hpre⟩ | hz
        · rw [putback_restore hf1 hpre]
          obtain ⟨hsf, hsl, hsl1⟩ := sdaiStringRead_quote_len (s := { s1 with pre := ps, rest := c1 :: s1.rest, eof := false })
            (r := s1.rest) (by simpa using hf1) rfl (by simp [hq])
          have hm1 : s1.m = s1.rest.length + 1 := by simp [IS.m, hf1]
          generalize sdaiStringRead { s1 with pre := ps, rest := c1 :: s1.rest, eof := false } = sr at hsf hsl hsl1
          obtain ⟨s2, str⟩ := sr
          simp only [] at hsf hsl hsl1 ⊢
          have hs1m : s1.m + 1 ≤ s.m := by rcases hm with hm | hm <;> omega
          have hs2 : s2.m + str.length ≤ s.m := by omega
          have hs2pos : 1 ≤ s2.m := by simp [IS.m, hsf]
          have hps2 : pot R s2 + 4 * str.length ≤ pot R s := by
            rw [pot_pos hs2pos, pot_pos hpos]; omega
          obtain ⟨r, hr, hrm, hrp⟩ := ih s2 c1 (len + (cstr str).length) (steps + 1 + str.length) (by omega)
          exact ⟨r, hr, by omega, by omega, fun _ => by omega⟩
        · have h0 := putback_m_zero s1 c1 hz
          obtain ⟨hz2, hstr⟩ := sdaiStringRead_failed h0
          generalize sdaiStringRead (s1.putback c1) = sr at hz2 hstr
          obtain ⟨s2, str⟩ := sr
          simp only [] at hz2 hstr ⊢
          subst hstr
          obtain ⟨r, hr, hrm, hrp⟩ := ih s2 c1 (len + (cstr ([] : List Byte)).length) (steps + 1 + ([] : List Byte).length) (by omega)
          rw [pot_zero hz2] at hrp
          exact ⟨r, hr, by omega, by simp at hrp ⊢; omega, fun _ => by omega⟩
      · split
        · exact ⟨_, rfl, hs1, by simp only []; omega, fun _ => Nat.le_refl _⟩
        · obtain ⟨r, hr, hrm, hrp⟩ := ih s1 c1 (len + 1) (steps + 1) hs1f
          exact ⟨r, hr, by omega, by omega, fun _ => by omega⟩

/-- `SkipInstance` / `FindStartOfInstance`, all nesting levels counted: at most four steps per consumed byte plus the
comment reserve `R` once, plus one -/
theorem scanUntil_pot (R : Nat) (stop : Byte) (pb cm : Bool) (iters : Nat) (hR : iters ≤ R) :
    ∀ (fuel : Nat), ScanOk R (scanUntil stop pb cm iters fuel) fuel := by
  intro fuel
  induction fuel with
  | zero => intro s c len steps h; omega
  | succ fuel ih =>
    intro s c len steps h
    show ∃ r, scanStep (scanUntil stop pb cm iters fuel) stop pb cm iters s c len steps = .ok r ∧ _
    unfold scanStep
    by_cases hg : s.good = true
    · simp only [hg, Bool.not_true, Bool.false_eq_true, if_false]
      have hpos := good_m_pos hg
      generalize hex : s.extract = ex
      obtain ⟨s', o⟩ := ex
      cases o with
      | none =>
        have hz := extract_none hex
        obtain ⟨r, h1, h2, h3, _⟩ := scanAfter_pot R _ stop pb cm iters fuel hR ih s s' c len steps (by omega) hpos (Or.inr hz) (Or.inr hz)
        exact ⟨r, h1, h2, h3⟩
      | some c' =>
        obtain ⟨hf1, he1, ⟨ps, hpre⟩, hlt⟩ := extract_some hex
        obtain ⟨r, h1, h2, h3, _⟩ := scanAfter_pot R _ stop pb cm iters fuel hR ih s s' c' len steps (by omega) hpos (Or.inl hlt)
          (Or.inl ⟨ps, hf1, he1, hpre⟩)
        exact ⟨r, h1, h2, h3⟩
    · simp at hg
      simp [hg]

/-- a scan that does not put the stop byte back strictly consumes from a good stream (or ends failed) -/
theorem scanUntil_strict (R : Nat) (stop : Byte) (cm : Bool) (iters : Nat) (hR : iters ≤ R)
    (fuel : Nat) (s : IS) (c : Byte) (len steps : Nat) (h : s.m + 1 ≤ fuel) (hg : s.good = true) :
    ∀ r, scanUntil stop false cm iters fuel s c len steps = .ok r → r.s.m + 1 ≤ s.m ∨ r.s.m = 0 := by
  cases fuel with
  | zero => omega
  | succ fuel =>
    intro r
    show scanStep (scanUntil stop false cm iters fuel) stop false cm iters s c len steps = .ok r → _
    unfold scanStep
    simp only [hg, Bool.not_true, Bool.false_eq_true, if_false]
    have hpos := good_m_pos hg
    have ih := scanUntil_pot R stop false cm iters hR fuel
    generalize hex : s.extract = ex
    obtain ⟨s', o⟩ := ex
    cases o with
    | none =>
      have hz := extract_none hex
      obtain ⟨r', h1, _, _, h4⟩ := scanAfter_pot R _ stop false cm iters fuel hR ih s s' c len steps (by omega) hpos (Or.inr hz) (Or.inr hz)
      intro he
      simp only [] at he
      rw [h1] at he
      cases he
      have := h4 rfl
      omega
    | some c' =>
      obtain ⟨hf1, he1, ⟨ps, hpre⟩, hlt⟩ := extract_some hex
      obtain ⟨r', h1, _, _, h4⟩ := scanAfter_pot R _ stop false cm iters fuel hR ih s s' c' len steps (by omega) hpos (Or.inl hlt)
        (Or.inl ⟨ps, hf1, he1, hpre⟩)
      intro he
      simp only [] at he
      rw [h1] at he
      cases he
      have := h4 rfl
      omega


/-- step bound of a function from streams to results, started with a step counter -/
def TokOk (R : Nat) (f : IS → Nat → Out LoopRes) (fuel : Nat) : Prop :=
  ∀ (s : IS) (steps : Nat), s.m + 1 ≤ fuel →
    ∃ r, f s steps = .ok r ∧ r.s.m ≤ s.m ∧ r.steps + pot R r.s ≤ steps + pot R s + 1

theorem tokSepLoop_pot (R : Nat) (cm : Bool) (iters : Nat) (hR : iters ≤ R) :
    ∀ (fuel : Nat), TokOk R (tokSepLoop cm iters fuel) fuel := by
  intro fuel
  induction fuel with
  | zero => intro s steps h; omega
  | succ fuel ih =>
    intro s steps h
    show ∃ r, tokSepStep (tokSepLoop cm iters fuel) (skipInstance cm iters (fuel + 1)) iters s steps = .ok r ∧ _
    unfold tokSepStep
    by_cases hfl : s.fail = true
    · simp [hfl]
    · simp only [hfl, Bool.false_eq_true, if_false]
      have hspos : 1 ≤ s.m := by
        have : s.fail = false := by simpa using hfl
        simp [IS.m, this]
      have hge := pot_ge (R := R) hspos
      have hw := ws_m s
      generalize s.ws = sw at hw ⊢
      generalize hpk : sw.peek = pk
      obtain ⟨s2, p⟩ := pk
      have hp2 : s2.m ≤ s.m := by have := peek_m sw; rw [hpk] at this; simp only [] at this; omega
      have hpm := pot_mono (R := R) hp2
      cases p with
      | none => exact ⟨_, rfl, hp2, by simp only []; omega⟩
      | some c =>
        obtain ⟨rfl, hf1, he1, r0, hr0⟩ := peek_some hpk
        have hm2 : s2.m = r0.length + 2 := by simp [IS.m, hf1, hr0]
        have hps2 : pot R s2 = 4 * (r0.length + 2) + R := by rw [pot_pos (by omega), hm2]
        simp only []
        split
        · rename_i hc
          subst hc
          obtain ⟨r, hr, hrm, hrp⟩ := readCommentWith_slash_pot R (skipInstance cm iters (fuel + 1)) iters hR hf1 he1 hr0
            (fun s' hs' => by
              obtain ⟨r', h1, h2, h3⟩ := scanUntil_pot R chSemi false cm iters hR (fuel + 1) s' 0 0 0 (by omega)
              exact ⟨r', h1, h2, by omega⟩)
          rw [hr]
          simp only []
          obtain ⟨r2, hr2, hrm2, hrp2⟩ := ih r.s (steps + 1 + r.steps) (by omega)
          exact ⟨r2, hr2, by omega, by omega⟩
        · split
          · have hpcd := readPcd_m s2
            have hpp : pot R (readPcd s2) + 4 ≤ pot R s := by
              rcases hpcd with h1 | h1
              · have := pot_drop (R := R) (a := readPcd s2) (b := s) (d := 1) (by omega) (Nat.le_refl 1); omega
              · rw [pot_zero h1]; omega
            obtain ⟨r2, hr2, hrm2, hrp2⟩ := ih (readPcd s2) (steps + 1) (by omega)
            exact ⟨r2, hr2, by omega, by omega⟩
          · split
            · have := ignore_m s2
              have hne : s2.rest ≠ [] := by simp [hr0]
              have hlt : s2.ignore.m + 1 ≤ s2.m ∨ s2.ignore.m = 0 := by
                rcases this with h1 | h1 | h1
                · exact Or.inl h1
                · exact Or.inr h1
                · exact absurd h1 hne
              have hpp : pot R s2.ignore + 4 ≤ pot R s := by
                rcases hlt with h1 | h1
                · have := pot_drop (R := R) (a := s2.ignore) (b := s) (d := 1) (by omega) (Nat.le_refl 1); omega
                · rw [pot_zero h1]; omega
              obtain ⟨r2, hr2, hrm2, hrp2⟩ := ih s2.ignore (steps + 1) (by omega)
              exact ⟨r2, hr2, by omega, by omega⟩
            · exact ⟨_, rfl, hp2, by simp only []; omega⟩

theorem readTokenSeparator_pot (R : Nat) (cm : Bool) (iters : Nat) (hR : iters ≤ R) (fuel : Nat) (s : IS) (h : s.m + 1 ≤ fuel) :
    ∃ r, readTokenSeparator cm iters fuel s = .ok r ∧ r.s.m ≤ s.m ∧ r.steps + pot R r.s ≤ pot R s + 1 := by
  unfold readTokenSeparator
  split
  · exact ⟨_, rfl, Nat.le_refl _, by simp only []; omega⟩
  · obtain ⟨r, h1, h2, h3⟩ := tokSepLoop_pot R cm iters hR fuel s 0 h
    exact ⟨r, h1, h2, by omega⟩

end StepModel.P21Safe

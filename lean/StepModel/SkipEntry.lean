import StepModel.P21.ReaderLemmas3
import StepModel.Generated.StepFileGen
/-!
The text of one DATA-section entry as `SkipInstance` (src/clstepcore/read_func.cc) sees it, and the fact that the skip
consumes exactly that text and its terminating `;` — whatever the entry's string literals and comments contain
(`;`, apostrophes, `#`, parentheses, comment brackets, section keywords).

Built on the byte-level reader model of C01/C03 (`StepModel.P21.Reader.skipInstance`, tied to the source by that
property's correspondence and by `Generated.rwCfg.skipInstanceSkipsComments`) and on its `Passes` lemmas.
Used by Props/C16.lean: the working-session reader skips the entries marked `D` with `SkipInstance`.
-/
namespace StepModel.SkipEntry
open StepModel StepModel.IStream StepModel.P21 StepModel.P21.Lemmas StepModel.P21.Grammar StepModel.P21.RLemmas

/-- what stands between `#id` (inclusive) and the terminating `;` of an entry: ordinary characters (anything but `;`, an
    apostrophe, `/` and NUL), comments with any body that does not close early and is not longer than what `ReadComment`
    reads (`Generated.commentLengthLimit`: `some n` — beyond n the code abandons the comment and skips to the NEXT `;`, which the
    reader model does not follow; `none` since repair C01-9: any length), and string literals of the Part 21
    grammar (any body: `;`, doubled apostrophes, `#`, parentheses, `/*`, control directives) followed by a character that
    is not an apostrophe (in a record: `,` or `)`) -/
inductive EntryText : List Byte → Prop
  | nil : EntryText []
  | plain {c : Byte} {t : List Byte} : plainc c = true → EntryText t → EntryText (c :: t)
  | comment {body t : List Byte} : NoClose body → (∀ n, Generated.commentLengthLimit = some n → body.length ≤ n) → EntryText t →
      EntryText ((47 :: 42 :: (body ++ [42, 47])) ++ t)
  | string {b : List Byte} {y : Byte} {t : List Byte} : StringBody b → y ≠ 39 → EntryText (y :: t) →
      EntryText ((39 :: (b ++ [39])) ++ y :: t)

theorem EntryText.passes {t : List Byte} (h : EntryText t) : Passes t := by
  induction h with
  | nil => exact Passes.nil
  | @plain c t hc _ ih => exact Passes.append (a := [c]) (Passes.plain c hc) ih
  | comment hb _ _ ih => exact Passes.append (Passes.comment _ hb) ih
  | string hb hy _ ih => exact PassesS.append_cons (PassesS.string _ hb) ih hy

/-- `SkipInstance` on an entry text followed by `;`: the stream stands right after that `;`, nothing else was consumed -/
theorem skipInstance_entry (cfg : RWCfg) (hcfg : cfg.skipInstanceSkipsComments = true) {t : List Byte} (ht : EntryText t)
    (l rest : List Byte) :
    skipInstance cfg (G l (t ++ 59 :: rest) false) = .ok (G (59 :: (t.reverse ++ l)) rest false) :=
  skipInstance_passes cfg hcfg t ht.passes l rest

end StepModel.SkipEntry

import StepModel.Generated.InstMgrGen
/-!
# Model of `InstMgr` (src/clstepcore/instmgr.cc, mgrnodearray.cc, clutils/gennodearray.cc)

State follows the C++ objects:

* `heap`      – the `SDAI_Application_instance` objects the client owns (handle ↦ file id, entity name);
                `none` = not allocated / already `delete`d.
* `nodes`     – `master->_buf[0 .. _count)`: the `MgrNode`s in array order; every node caches `arrayIndex`.
* `bufsize`   – `master->_bufsize` (capacity; `GenNodeArray::Check` doubles it).
* `sorted`    – `std::map<int, MgrNode*> sortedMaster` as an association list key ↦ node identity.
* `maxFileId` – the counter behind `MaxFileId()/NextFileId()`.

Anything the C++ would do through a dangling or null pointer is an explicit `R.crash` result; that it
cannot happen on reachable states is a theorem (`Props/C13.lean`), not an artefact of a default value.
The rule `NextFileId`, the constructor/reset values and the "unassigned" sentinel are *regenerated from
the header on every run* (`Generated/InstMgrGen.lean`).
-/
namespace StepModel.InstMgr
open StepModel.Generated

inductive St | noState | complete | incomplete | delete | new
  deriving DecidableEq, Repr, Inhabited

structure Inst where
  fileId : Int
  name : Nat
  deriving DecidableEq, Repr

structure Node where
  nid : Nat
  inst : Nat
  state : St
  arrayIndex : Int
  deriving DecidableEq, Repr

structure State where
  heap : Nat → Option Inst
  nodes : List Node
  bufsize : Nat
  sorted : List (Int × Nat)
  maxFileId : Int
  nextNid : Nat

def init : State :=
  { heap := fun _ => none, nodes := [], bufsize := arrayDefaultSize, sorted := [],
    maxFileId := initMaxFileId, nextNid := 0 }

inductive Op
  | newInst (h : Nat) (id : Int) (name : Nat)
  | append (h : Nat) (st : St)
  | deleteNode (i : Nat)
  | deleteInst (h : Nat)
  | changeState (i : Nat) (st : St)
  | clear
  | deleteAll
  | lookup (i : Nat)              -- `GetApplication_instance( index )` for ANY index (also at and above the count)
  deriving Repr

/-- result of an operation as the client sees it -/
inductive R
  | unit
  | null                          -- `Append` returned 0
  | node (idx : Nat) (id : Int)   -- `Append` returned a node: its array index and file id
  | found (h : Option Nat)        -- `GetApplication_instance( index )`: the instance at that index, or null
  | skipped                       -- outside the API contract; neither side executes it
  | crash                         -- the C++ would dereference a null/dangling pointer or double free
  deriving DecidableEq, Repr

/-! ### the `std::map` -/
def mapFind (m : List (Int × Nat)) (k : Int) : Option Nat := (m.find? (fun p => p.1 == k)).map (·.2)
def mapErase (m : List (Int × Nat)) (k : Int) : List (Int × Nat) := m.filter (fun p => !(p.1 == k))
def mapSet (m : List (Int × Nat)) (k : Int) (v : Nat) : List (Int × Nat) := (k, v) :: mapErase m k

inductive Found
  | none
  | node (n : Node)
  | dangling
  deriving DecidableEq, Repr

def nodeById (ns : List Node) (nid : Nat) : Option Node := ns.find? (fun n => n.nid == nid)

/-- `InstMgr::FindFileId` -/
def findFileId (s : State) (k : Int) : Found :=
  match mapFind s.sorted k with
  | Option.none => .none
  | some nid => match nodeById s.nodes nid with
    | some n => .node n
    | Option.none => .dangling

def idOf (s : State) (h : Nat) : Option Int := (s.heap h).map (·.fileId)
def nameOf (s : State) (h : Nat) : Option Nat := (s.heap h).map (·.name)

def setId (s : State) (h : Nat) (id : Int) : State :=
  { s with heap := fun k => if k = h then (s.heap h).map (fun i => { i with fileId := id }) else s.heap k }

/-- `InstMgr::NextFileId` -/
def nextFileId (s : State) : State × Int :=
  let v := nextFileIdVal s.maxFileId
  ({ s with maxFileId := v }, v)

/-- `GenNodeArray::Check(index)` -/
def checkCap (bufsize index : Nat) : Nat := if index ≥ bufsize then growTo index else bufsize

/-- `MgrNodeArray::Append` = `Insert(gn,_count)`: grow if needed, store, assign `ArrayIndex` -/
def arrayAppend (s : State) (n : Node) : State :=
  let idx := s.nodes.length
  { s with nodes := s.nodes ++ [{ n with arrayIndex := idx }], bufsize := checkCap s.bufsize idx }

/-- `MgrNodeArray::Remove(index)`: shift down and re-assign `ArrayIndex` from `index` on -/
def renumberFrom (idx : Nat) : Nat → List Node → List Node
  | _, [] => []
  | j, n :: ns => (if idx ≤ j then { n with arrayIndex := j } else n) :: renumberFrom idx (j + 1) ns

def arrayRemove (ns : List Node) (idx : Nat) : List Node := renumberFrom idx 0 (ns.eraseIdx idx)

/-- tail of `InstMgr::Append`: raise `maxFileId` if needed, allocate the node, append to `master`, enter it
into `sortedMaster` under the instance's (final) file id `k` -/
def pushNode (s : State) (h : Nat) (st : St) (k : Int) : State :=
  let s4 := if k > s.maxFileId then { s with maxFileId := k } else s
  let nd : Node := { nid := s4.nextNid, inst := h, state := st, arrayIndex := -1 }
  let s5 := arrayAppend { s4 with nextNid := s4.nextNid + 1 } nd
  { s5 with sorted := mapSet s5.sorted k nd.nid }

/-- `se->StepFileId( NextFileId() )` -/
def renumber (s : State) (h : Nat) : State × Int :=
  let (s', v) := nextFileId s
  (setId s' h v, v)

/-- `InstMgr::Append` from `mn = FindFileId( se->StepFileId() )` on; `id1` is the instance's id at that point -/
def appendFind (s1 : State) (id1 : Int) (h : Nat) (st : St) : State × R :=
  match findFileId s1 id1 with
  | .dangling => (s1, .crash)
  | .node n =>
    if n.inst = h then (s1, .null)       -- the instance is already in the list
    else
      let r := renumber s1 h              -- otherwise assign a new file id
      (pushNode r.1 h st r.2, .node r.1.nodes.length r.2)
  | .none => (pushNode s1 h st id1, .node s1.nodes.length id1)

/-- `InstMgr::Append` -/
def append (s : State) (h : Nat) (st : St) : State × R :=
  match s.heap h with
  | Option.none => (s, .skipped)
  | some i0 =>
    -- if( se->StepFileId() == 0 ) se->StepFileId( NextFileId() );
    if i0.fileId = unassignedFileId then
      let r := renumber s h
      appendFind r.1 r.2 h st
    else appendFind s i0.fileId h st

/-- `InstMgr::Delete( MgrNode * )` on a node known by identity -/
def deleteNodeCore (s : State) (n : Node) : State × R :=
  -- sortedMaster->erase( node->GetFileId() )  -- through the node's instance, *current* id
  match s.heap n.inst with
  | Option.none => (s, .crash)
  | some i =>
    let sorted := mapErase s.sorted i.fileId
    -- master->Remove( node->ArrayIndex() ); delete node  (which deletes the instance)
    if 0 ≤ n.arrayIndex ∧ n.arrayIndex.toNat < s.nodes.length then
      ({ s with sorted := sorted, nodes := arrayRemove s.nodes n.arrayIndex.toNat,
                heap := fun k => if k = n.inst then Option.none else s.heap k }, .unit)
    else (s, .crash)

def deleteNode (s : State) (i : Nat) : State × R :=
  match s.nodes[i]? with
  | Option.none => (s, .skipped)
  | some n => deleteNodeCore s n

/-- `InstMgr::Delete( SDAI_Application_instance * )` = `Delete( FindFileId( se->StepFileId() ) )` -/
def deleteInst (s : State) (h : Nat) : State × R :=
  match s.heap h with
  | Option.none => (s, .skipped)
  | some i =>
    if s.nodes.any (fun n => n.inst == h) then
      match findFileId s i.fileId with
      | .node n => deleteNodeCore s n
      | _ => (s, .crash)
    else (s, .skipped)

/-- `InstMgr::ChangeState`; `noStateSE` only unlinks the node and leaves `currState` alone -/
def changeState (s : State) (i : Nat) (st : St) : State × R :=
  match s.nodes[i]? with
  | Option.none => (s, .skipped)
  | some _ =>
    if st = .noState then (s, .unit)
    else ({ s with nodes := s.nodes.modify i (fun n => { n with state := st }) }, .unit)

/-- `InstMgr::ClearInstances` -/
def clear (s : State) : State × R :=
  ({ s with nodes := [], sorted := [], maxFileId := clearMaxFileId }, .unit)

/-- `MgrNodeArray::DeleteEntries`: delete every node (and so its instance) in turn -/
def freeAll : (Nat → Option Inst) → List Node → Option (Nat → Option Inst)
  | heap, [] => some heap
  | heap, n :: ns =>
    match heap n.inst with
    | Option.none => Option.none      -- double free
    | some _ => freeAll (fun k => if k = n.inst then Option.none else heap k) ns

/-- `InstMgr::DeleteInstances` -/
def deleteAll (s : State) : State × R :=
  match freeAll s.heap s.nodes with
  | Option.none => (s, .crash)
  | some heap => ({ s with heap := heap, nodes := [], sorted := [], maxFileId := deleteAllMaxFileId }, .unit)

def newInst (s : State) (h : Nat) (id : Int) (name : Nat) : State × R :=
  match s.heap h with
  | some _ => (s, .skipped)
  | Option.none => ({ s with heap := fun k => if k = h then some ⟨id, name⟩ else s.heap k }, .unit)

/-- `InstMgr::GetApplication_instance( index )` = `( *master )[index]`, tested for null.  `GenNodeArray::operator[]` calls
`Check( index )` first, so a look-up at or beyond `_bufsize` grows the block; it never looks at `_count` -/
def lookup (s : State) (i : Nat) : State × R :=
  ({ s with bufsize := checkCap s.bufsize i }, .found ((s.nodes[i]?).map (·.inst)))

def step (s : State) : Op → State × R
  | .newInst h id name => newInst s h id name
  | .append h st => append s h st
  | .deleteNode i => deleteNode s i
  | .deleteInst h => deleteInst s h
  | .changeState i st => changeState s i st
  | .clear => clear s
  | .deleteAll => deleteAll s
  | .lookup i => lookup s i

def run (s : State) (ops : List Op) : State := ops.foldl (fun s op => (step s op).1) s

/-! ### queries -/
def count (s : State) : Nat := s.nodes.length
/-- `GetApplication_instance(index)` (handle) -/
def instAt (s : State) (i : Nat) : Option Nat := (s.nodes[i]?).map (·.inst)
/-- `GetIndex( GetMgrNode(i) )` -/
def indexAt (s : State) (i : Nat) : Option Int := (s.nodes[i]?).map (·.arrayIndex)
def hasName (s : State) (name : Nat) (n : Node) : Bool := nameOf s n.inst == some name
/-- `EntityKeywordCount` -/
def keywordCount (s : State) (name : Nat) : Nat := (s.nodes.filter (hasName s name)).length
/-- `GetApplication_instance( keyword, starting_index )` -/
def byName (s : State) (name : Nat) (start : Nat) : Option Nat :=
  ((s.nodes.drop start).find? (hasName s name)).map (·.inst)

end StepModel.InstMgr

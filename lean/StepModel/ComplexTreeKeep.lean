import StepModel.ComplexSim
/-! `matchNonORs` and `matchORs` keep the tree of the hierarchy, from every state (the other functions keep the whole
skeleton: `unmark_skel`, `accept_skel`, `trynext_val`). -/
namespace StepModel.Complex.Match
open StepModel.Generated StepModel.Complex

def trS (t : ST) : Tree := trV (skel t)
def trSL (cs : List ST) : List Tree := trVL (skelL cs)

theorem trSL_append (a b : List ST) : trSL (a ++ b) = trSL a ++ trSL b := by
  simp [trSL, skelL_append, trVL_append]

theorem trSL_cons (a : ST) (l : List ST) : trSL (a :: l) = trS a :: trSL l := rfl

theorem trS_of_skel {a b : ST} (h : skel a = skel b) : trS a = trS b := by simp [trS, h]

theorem simpleMatch_trS (n : Name) (im : Mark) (es : Ents) : trS (simpleMatchNonORs n im es).1 = .simple n := by
  unfold simpleMatchNonORs
  split
  · rfl
  · split
    · rfl
    · split
      · split
        · simp only
          split <;> rfl
        · rfl
      · rfl

theorem nonors_tree : ∀ f : Nat,
    (∀ t es r, matchNonORs f t es = .ok r → trS r.1 = trS t) ∧
    (∀ done cs es r, andorNonORs f done cs es = .ok r → trSL r.1 = trSL done ++ trSL cs) ∧
    (∀ done cs es r, andNonORs f done cs es = .ok r → trSL r.1 = trSL done ++ trSL cs) := by
  intro f
  induction f with
  | zero =>
    exact ⟨fun _ _ _ h => by simp [matchNonORs] at h, fun _ _ _ _ h => by simp [andorNonORs] at h,
      fun _ _ _ _ h => by simp [andNonORs] at h⟩
  | succ f ih =>
    obtain ⟨ih1, ih2, ih3⟩ := ih
    refine ⟨?_, ?_, ?_⟩
    · intro t es r h
      cases t with
      | simple n v im => simp only [matchNonORs] at h; cases h; exact simpleMatch_trS n im es
      | mult j v c c1 k cs =>
        cases j with
        | or => simp only [matchNonORs] at h; cases h; rfl
        | and =>
          simp only [matchNonORs] at h
          split at h
          · cases h
          · obtain ⟨⟨cs', es', fl⟩, h1, h2⟩ := bind_ok' h
            have := ih3 [] cs es _ h1
            simp only [trSL, skelL, trVL, List.nil_append] at this
            split at h2 <;> (cases h2; simp only [trS, skel, trV]; rw [this])
        | andor =>
          simp only [matchNonORs] at h
          split at h
          · cases h
          · obtain ⟨⟨cs', es', fl⟩, h1, h2⟩ := bind_ok' h
            have := ih2 [] cs es _ h1
            simp only [trSL, skelL, trVL, List.nil_append] at this
            split at h2 <;> (cases h2; simp only [trS, skel, trV]; rw [this])
    · intro done cs es r h
      cases cs with
      | nil => simp only [andorNonORs] at h; cases h; simp [trSL, skelL, trVL]
      | cons ch rest =>
        simp only [andorNonORs] at h
        split at h
        · rw [ih2 _ rest es r h, trSL_append]; simp [trSL_cons, trSL, skelL, trVL]
        · obtain ⟨⟨ch', es1, rc⟩, h1, h2⟩ := bind_ok' h
          have hk := ih1 ch es _ h1
          simp only at h2 hk
          have fin : ∀ (x : ST) (es' : Ents), trS x = trS ch → andorNonORs f (done ++ [x]) rest es' = .ok r →
              trSL r.1 = trSL done ++ trSL (ch :: rest) := by
            intro x es' hx hr
            rw [ih2 _ rest es' r hr, trSL_append, trSL_cons, trSL_cons, hx]; simp [trSL, skelL, trVL]
          split at h2
          · split at h2
            · cases h2
              simp only [trSL_append, trSL_cons, hk]
            · exact fin ch' es1 hk h2
          · split at h2
            · obtain ⟨⟨ch2, es2⟩, h3, h4⟩ := bind_ok' h2
              exact fin ch2 es2 ((trS_of_skel ((unmark_skel f).1 ch' es1 _ h3)).trans hk) h4
            · exact fin ch' es1 hk h2
    · intro done cs es r h
      cases cs with
      | nil => simp only [andNonORs] at h; cases h; simp [trSL, skelL, trVL]
      | cons ch rest =>
        simp only [andNonORs] at h
        split at h
        · rw [ih3 _ rest es r h, trSL_append]; simp [trSL_cons, trSL, skelL, trVL]
        · obtain ⟨⟨ch', es1, rc⟩, h1, h2⟩ := bind_ok' h
          have hk := ih1 ch es _ h1
          simp only at h2 hk
          split at h2
          · cases h2
            simp only [trSL_append, trSL_cons, hk]
          · rw [ih3 _ rest es1 r h2, trSL_append, trSL_cons, trSL_cons, hk]; simp [trSL, skelL, trVL]


theorem ors_tree : ∀ f : Nat,
    (∀ t es r, matchORs f t es = .ok r → trS r.1 = trS t) ∧
    (∀ isAnd done cs es r, joinORs f isAnd done cs es = .ok r → trSL r.1 = trSL done ++ trSL cs) ∧
    (∀ idx done cs es rv v c c1 k r, orORs f idx done cs es rv v c c1 k = .ok r → trSL r.1 = trSL done ++ trSL cs) := by
  intro f
  induction f with
  | zero =>
    exact ⟨fun _ _ _ h => by simp [matchORs] at h, fun _ _ _ _ _ h => by simp [joinORs] at h,
      fun _ _ _ _ _ _ _ _ _ _ h => by simp [orORs] at h⟩
  | succ f ih =>
    obtain ⟨ih1, ih2, ih3⟩ := ih
    refine ⟨?_, ?_, ?_⟩
    · intro t es r h
      cases t with
      | simple n v im => simp only [matchORs] at h; cases h
      | mult j v c c1 k cs =>
        cases j with
        | and =>
          simp only [matchORs] at h
          split at h
          · cases h
          · obtain ⟨⟨cs', es', fl⟩, h1, h2⟩ := bind_ok' h
            have := ih2 true [] cs es _ h1
            simp only [trSL, skelL, trVL, List.nil_append] at this
            split at h2 <;> (cases h2; simp only [trS, skel, trV]; rw [this])
        | andor =>
          simp only [matchORs] at h
          split at h
          · cases h
          · obtain ⟨⟨cs', es', fl⟩, h1, h2⟩ := bind_ok' h
            have := ih2 false [] cs es _ h1
            simp only [trSL, skelL, trVL, List.nil_append] at this
            cases h2; simp only [trS, skel, trV]; rw [this]
        | or =>
          simp only [matchORs] at h
          obtain ⟨⟨cs', es', rv', v', c', c1', k'⟩, h1, h2⟩ := bind_ok' h
          have hcs := ih3 0 [] cs es _ _ _ _ _ _ h1
          simp only [trSL, skelL, trVL, List.nil_append] at hcs
          simp only at h2
          obtain ⟨⟨node', es''⟩, hA, hB⟩ := ite_bind_ok h2
          have hnode : trS node' = .or (trVL (skelL cs)) := by
            split at hA
            · unfold acceptDrop at hA
              obtain ⟨⟨n', e', b⟩, a1, a2⟩ := bind_ok' hA
              cases a2
              rw [trS_of_skel ((accept_skel f).1 _ es' _ a1)]
              simp only [trS, skel, trV]; rw [hcs]
            · cases hA; simp only [trS, skel, trV]; rw [hcs]
          have hres : r.1 = node' := by
            simp only at hB
            split at hB
            · split at hB
              · split at hB
                · cases hB
                · split at hB
                  · cases hB
                  · cases hB; rfl
              · cases hB
            · cases hB; rfl
          rw [hres, hnode]; rfl
    · intro isAnd done cs es r h
      cases cs with
      | nil => simp only [joinORs] at h; cases h; simp [trSL, skelL, trVL]
      | cons ch rest =>
        simp only [joinORs] at h
        have fin : ∀ (x : ST) (es' : Ents), trS x = trS ch → joinORs f isAnd (done ++ [x]) rest es' = .ok r →
            trSL r.1 = trSL done ++ trSL (ch :: rest) := by
          intro x es' hx hr
          rw [ih2 isAnd _ rest es' r hr, trSL_append, trSL_cons, trSL_cons, hx]; simp [trSL, skelL, trVL]
        split at h
        · split at h
          · cases h
          · obtain ⟨⟨ch', es1, rc⟩, h1, h2⟩ := bind_ok' h
            have hk := ih1 ch es _ h1
            simp only at h2 hk
            split at h2
            · split at h2
              · cases h2; simp only [trSL_append, trSL_cons, hk]
              · obtain ⟨⟨ch2, es2⟩, h3, h4⟩ := bind_ok' h2
                exact fin ch2 es2 ((trS_of_skel ((unmark_skel f).1 ch' es1 _ h3)).trans hk) h4
            · exact fin ch' es1 hk h2
        · exact fin ch es rfl h
    · intro idx done cs es rv v c c1 k r h
      cases cs with
      | nil => simp only [orORs] at h; cases h; simp [trSL, skelL, trVL]
      | cons ch rest =>
        simp only [orORs] at h
        obtain ⟨⟨ch1, es1, rv1⟩, hA, hB⟩ := ite_bind_ok h
        have a1 : trS ch1 = trS ch := by
          split at hA
          · exact (nonors_tree f).1 ch es _ hA
          · cases hA; rfl
        simp only at hB
        obtain ⟨⟨ch2, es2, rv2⟩, hC, hD⟩ := ite_bind_ok hB
        have b1 : trS ch2 = trS ch := by
          split at hC
          · split at hC
            · cases hC
            · exact (ih1 ch1 es1 _ hC).trans a1
          · cases hC; exact a1
        simp only at hD
        obtain ⟨⟨ch3, es3⟩, hE, hF⟩ := bind_ok' hD
        have c3 : trS ch3 = trS ch := (trS_of_skel ((unmark_skel f).1 ch2 es2 _ hE)).trans b1
        simp only at hF
        rw [ih3 _ _ rest es3 _ _ _ _ _ r hF, trSL_append, trSL_cons, trSL_cons, c3]; simp [trSL, skelL, trVL]

end StepModel.Complex.Match

import StepModel.Generated.DictGen
/-!
# Model of what exp2cxx emits and what the emitted `SchemaInit` registers (C02)

Sources modelled (structure, names, order — not the bodies of emitted C++ methods):

* `src/exp2cxx/classes_entity.c`  `ENTITYincode_print` (EntityDescriptor/AttrDescriptor/Inverse_attribute
  construction, `AddSupertype`/`AddSubtype`/`AddExplicitAttr`/`AddInverseAttr` order),
  `LIBstructor_print` (no-argument constructor) and `LIBstructor_print_w_args` (the constructor used for the
  `AppendMultInstance` parts), `generate_dict_attr_name`;
* `src/exp2cxx/classes_type.c`  `TYPEprint_descriptions/TYPEprint_new/TYPEprint_init/AGGRprint_init/
  print_typechain/TYPEget_RefTypeVarNm`, `src/exp2cxx/selects.c` `TYPEselect_print/TYPEselect_init_print`;
* `src/exp2cxx/classes_wrapper.cc` `numberAttributes`, `SCOPEPrint`; `src/express/scope.c` `SCOPE_dfs`;
* `src/exp2cxx/class_strings.c`, `classes_misc.c`: `ClassName`, `PrettyTmpName`, `StrToLower/Upper`,
  `generate_attribute_name`, the `a_<idx><D|R|I><name>` descriptor variable names;
* `src/clstepcore/STEPattributeList.cc` `push` (which fields decide "already present" is regenerated from
  the source: `Generated.pushKey`), `entityDescriptor.h` list mutators, `Registry::AddEntity/AddType`.

The EXPRESS side is a declaration-level AST (`Schema`).  Identifiers are lower case, as the EXPRESS
scanner delivers them (checked by the correspondence: the real dictionary is compared by raw name too).
-/
namespace StepModel.GenCxx
open StepModel.Generated

/-! ## EXPRESS declarations -/

inductive Base | integer | real | number | string | binary | boolean | logical
  deriving DecidableEq, Repr, Inhabited

inductive AggKind | array | list | set | bag
  deriving DecidableEq, Repr, Inhabited

/-- upper bound of an aggregate: a literal or `?` -/
inductive Upper | lit (n : Int) | inf
  deriving DecidableEq, Repr, Inhabited

/-- a type as written at an attribute, in a TYPE body, in a SELECT list or as an aggregate element -/
inductive TRef
  | base (b : Base)
  | named (n : String)             -- reference to a defined type
  | entity (n : String)            -- reference to an entity
  | aggr (k : AggKind) (bounds : Option (Int × Upper)) (uniq opt : Bool) (elem : TRef)
  deriving DecidableEq, Repr, Inhabited

/-- a domain rule `label : expr ;` of a TYPE or an ENTITY; `expr` is the expression as `EXPRto_string` prints it, layout
    (white space, line breaks) aside — the expression printer itself is C07's subject -/
structure WhereRule where
  label : Option String := none
  expr : String
  deriving DecidableEq, Repr, Inhabited

/-- `label : a, SELF\sup.b ;` in a UNIQUE clause; every attribute reference as written -/
structure UniqueRule where
  label : Option String := none
  attrs : List String
  deriving DecidableEq, Repr, Inhabited

inductive TypeBody
  | alias (t : TRef)               -- `TYPE t = REAL`, `TYPE t = u`, `TYPE t = LIST [..] OF ..`
  | enum (items : List String)
  | select (members : List TRef)
  deriving DecidableEq, Repr, Inhabited

structure TypeDecl where
  name : String
  body : TypeBody
  wheres : List WhereRule := []
  deriving DecidableEq, Repr, Inhabited

inductive AKind | explicit | derived | inverse
  deriving DecidableEq, Repr, Inhabited

structure Attr where
  name : String
  /-- `SELF\sup.name` : the supertype whose attribute is redeclared -/
  redecl : Option String := none
  kind : AKind := .explicit
  optional : Bool := false
  type : TRef
  /-- INVERSE … FOR invAttr -/
  invAttr : String := ""
  /-- DERIVE … := init : the initializer as `EXPRto_string` prints it, layout aside -/
  init : String := ""
  deriving DecidableEq, Repr, Inhabited

structure Entity where
  name : String
  abstract : Bool := false
  supers : List String := []
  attrs : List Attr := []
  uniques : List UniqueRule := []
  wheres : List WhereRule := []
  /-- the constraint in `[ABSTRACT] SUPERTYPE OF ( … )` as `SUBTYPEto_string` prints it, layout aside -/
  superExpr : Option String := none
  deriving DecidableEq, Repr, Inhabited

structure Schema where
  name : String
  types : List TypeDecl := []
  entities : List Entity := []
  deriving Repr, Inhabited

def Schema.findE (s : Schema) (n : String) : Option Entity := s.entities.find? (·.name == n)
def Schema.findT (s : Schema) (n : String) : Option TypeDecl := s.types.find? (·.name == n)

/-! ## The run-time dictionary (what the harness can observe through the descriptor getters) -/

/-- `PrimitiveType` as stored in `TypeDescriptor::_fundamentalType` -/
inductive FT | integer | real | number | string | binary | boolean | logical
  | enumeration | select | array | list | set | bag | ref | entity
  deriving DecidableEq, Repr, Inhabited

/-- a `TypeDescriptor *` as seen from an attribute or another type: the descriptor of a named type or an
    entity, a built-in, an unnamed aggregate descriptor made on the spot (`print_typechain`), or null -/
inductive DRef
  | null
  | base (b : Base)
  | named (n : String)
  | entity (n : String)
  | aggr (k : AggKind) (b1 b2 : Option Int) (uniq opt : Bool) (elem : DRef)
  deriving DecidableEq, Repr, Inhabited

inductive DKind | E | D | R
  deriving DecidableEq, Repr, Inhabited

structure DAttr where
  name : String
  kind : DKind
  opt : Bool
  owner : String
  type : DRef
  deriving DecidableEq, Repr, Inhabited

structure DInv where
  name : String
  opt : Bool
  owner : String
  type : DRef
  invAttr : String
  invEntity : String
  deriving DecidableEq, Repr, Inhabited

structure DEntity where
  name : String
  abstract : Bool
  supers : List String := []
  subs : List String := []
  attrs : List DAttr := []
  invs : List DInv := []
  deriving DecidableEq, Repr, Inhabited

structure DType where
  name : String
  ft : FT
  /-- kind, bounds, UNIQUE, OPTIONAL of an aggregate descriptor -/
  aggr : Option (AggKind × Option Int × Option Int × Bool × Bool) := none
  ref : DRef := .null
  items : Option (List String) := none
  members : Option (List DRef) := none
  deriving DecidableEq, Repr, Inhabited

structure Dict where
  schema : String
  entities : List DEntity := []
  types : List DType := []
  deriving Repr, Inhabited

/-! ## Types -/

def baseFT : Base → FT
  | .integer => .integer | .real => .real | .number => .number | .string => .string
  | .binary => .binary | .boolean => .boolean | .logical => .logical

def aggFT : AggKind → FT
  | .array => .array | .list => .list | .set => .set | .bag => .bag

def upperVal : Upper → Int
  | .lit n => n
  | .inf => literalInfinity

/-- descriptor reference emitted for a type expression (`TYPEget_RefTypeVarNm`, `print_typechain`,
    `AGGRprint_init`): named things by name, unnamed aggregates structurally -/
def refOf : TRef → DRef
  | .base b => .base b
  | .named n => .named n
  | .entity n => .entity n
  | .aggr k bnds u o el =>
    .aggr k (bnds.map (·.1)) (bnds.map (fun b => upperVal b.2)) u (o && k == .array) (refOf el)

/-- follow `TYPE a = b; TYPE b = …` to the declaration that carries a body (bounded by the number of types) -/
def resolve (s : Schema) : Nat → String → Option TypeDecl
  | 0, _ => none
  | f + 1, n =>
    match s.findT n with
    | none => none
    | some td =>
      match td.body with
      | .alias (.named m) => resolve s f m
      | _ => some td

/-- the element type of a named aggregate is (another name for) a SELECT type -/
def elemIsSelect (s : Schema) : TRef → Bool
  | .named m => match resolve s (s.types.length) m with
    | some { body := .select _, .. } => true
    | _ => false
  | _ => false

/-- the descriptor registered for one TYPE declaration.  `mode` = where exp2cxx creates enumeration/select
    descriptors (`Generated.descCreation`): when that is the select's own init function, the
    `ReferentType( t_<sel> )` call of a named aggregate of that select runs first and stores a null pointer
    (selects are initialised after all other types). -/
def typeOfM (mode : DescCreation) (s : Schema) (td : TypeDecl) : DType :=
  match td.body with
  | .enum items => { name := td.name, ft := .enumeration, items := some items }
  | .select ms => { name := td.name, ft := .select, members := some (ms.map refOf) }
  | .alias (.base b) => { name := td.name, ft := baseFT b, ref := .base b }
  | .alias (.entity n) => { name := td.name, ft := .ref, ref := .entity n }
  | .alias (.aggr k bnds u o el) =>
    { name := td.name, ft := aggFT k,
      aggr := some (k, bnds.map (·.1), bnds.map (fun b => upperVal b.2), u, o && k == .array),
      ref := if mode == .ownInit && elemIsSelect s el then .null else refOf el }
  | .alias (.named m) =>
    -- a renamed type: REFERENCE_TYPE pointing at the type named; a renamed select/enumeration is a
    -- Select/EnumTypeDescriptor of its own which shares the original's members / creator
    match resolve s (s.types.length) m with
    | some { body := .enum items, .. } => { name := td.name, ft := .ref, ref := .named m, items := some items }
    | some { body := .select ms, .. } => { name := td.name, ft := .ref, ref := .named m, members := some (ms.map refOf) }
    | _ => { name := td.name, ft := .ref, ref := .named m }

def typeOf (s : Schema) (td : TypeDecl) : DType := typeOfM descCreation s td

/-! ## Dictionary getters that follow the referent links (src/clstepcore/typeDescriptor.cc) -/

/-- `Type()` and `ReferentType()` of the descriptor a reference denotes (built-ins and entity descriptors have no referent) -/
def viewOf (ts : List DType) : DRef → Option (FT × DRef)
  | .null => none
  | .base b => some (baseFT b, .null)
  | .entity _ => some (.entity, .null)
  | .named n => (ts.find? (·.name == n)).map (fun t => (t.ft, t.ref))
  | .aggr k _ _ _ _ el => some (aggFT k, el)

/-- `TypeDescriptor::NonRefTypeDescriptor()`: `while( td->ReferentType() ) { if( td->Type() != REFERENCE_TYPE ) return td;
    td = td->ReferentType(); } return td;` — one unit of fuel per loop iteration -/
def nonRefTD (ts : List DType) : Nat → DRef → DRef
  | 0, r => r
  | f + 1, r =>
    match viewOf ts r with
    | none => r
    | some (ft, ref) => if ref == .null then r else if ft != .ref then r else nonRefTD ts f ref

/-- iterations available to that loop: the regenerated bound, or (no bound in the code) more than any acyclic chain needs -/
def nonRefFuel (ts : List DType) : Nat :=
  match nonRefLinkBound with
  | none => ts.length + 1
  | some b => b

def nonRefOf (ts : List DType) (r : DRef) : DRef := nonRefTD ts (nonRefFuel ts) r

def ftOf (ts : List DType) (r : DRef) : Option FT := (viewOf ts r).map (·.1)

/-- `TypeDescriptor::BaseTypeDescriptor()`: follow the referent links to the end -/
def baseTD (ts : List DType) : Nat → DRef → DRef
  | 0, r => r
  | f + 1, r =>
    match viewOf ts r with
    | none => r
    | some (_, ref) => if ref == .null then r else baseTD ts f ref

def baseOf (ts : List DType) (r : DRef) : DRef := baseTD ts ((ts.length + 1) * 64) r

/-- `IsAggrType()` -/
def isAggrOf (ts : List DType) (r : DRef) : Bool :=
  match ftOf ts (nonRefOf ts r) with
  | some .array | some .list | some .set | some .bag => true
  | _ => false

/-- `AggrElemTypeDescriptor()`: the non-reference descriptor of the referent of the non-reference descriptor -/
def elemOf (ts : List DType) (r : DRef) : DRef :=
  match viewOf ts (nonRefOf ts r) with
  | some (_, ref) => if ref == .null then .null else nonRefOf ts ref
  | none => .null

/-! ## Entities: emission order, descriptor construction -/

/-- `SCOPE_dfs`: supertypes (declared in this schema) first, each entity once -/
def dfs (s : Schema) : Nat → String → List String → List String
  | 0, _, acc => acc
  | f + 1, n, acc =>
    if acc.contains n then acc else
    match s.findE n with
    | none => acc
    | some e => (e.supers.foldl (fun a sup => dfs s f sup a) acc) ++ [n]

/-- `SCOPEget_entities_superclass_order`: `roots` is the order in which the symbol-table iteration
    (`SCOPEdo_entities`, a hash table walk) delivers the entities -/
def emissionOrder (s : Schema) (roots : List String) : List String :=
  roots.foldl (fun acc n => dfs s (s.entities.length + 1) n acc) []

/-- `generate_dict_attr_name`: `x`, or `sup.x` for `SELF\sup.x` -/
def dictAttrName (a : Attr) : String :=
  match a.redecl with
  | none => a.name
  | some sup => sup ++ "." ++ a.name

def attrDKind (a : Attr) : DKind :=
  if a.kind == .derived then .D else if a.redecl.isSome then .R else .E

def dattrOf (owner : String) (a : Attr) : DAttr :=
  { name := dictAttrName a, kind := attrDKind a, opt := a.optional, owner := owner, type := refOf a.type }

/-- name of the entity an inverse attribute's type refers to (`inverted_entity_id_`) -/
def invEntityOf : TRef → String
  | .entity n => n
  | .named n => n
  | .aggr _ _ _ _ el => match el with
    | .entity n => n
    | .named n => n
    | _ => ""
  | .base _ => ""

def dinvOf (owner : String) (a : Attr) : DInv :=
  { name := dictAttrName a, opt := a.optional, owner := owner, type := refOf a.type,
    invAttr := a.invAttr, invEntity := invEntityOf a.type }

/-- registry mutations performed by `InitSchemasAndEnts` + the `init_Sdai<E>` functions -/
inductive Op
  | newEntity (name : String) (abstract : Bool)         -- SdaiAll.cc
  | addSuper (e sup : String)
  | addSub (sup e : String)
  | addAttr (e : String) (a : DAttr)                    -- AddExplicitAttr (explicit, deriving, redefining)
  | addInv (e : String) (i : DInv)                      -- AddInverseAttr
  deriving Repr

def updE (n : String) (f : DEntity → DEntity) (es : List DEntity) : List DEntity :=
  es.map (fun d => if d.name == n then f d else d)

def Op.run : Op → List DEntity → List DEntity
  | .newEntity n ab, es => es ++ [{ name := n, abstract := ab }]
  | .addSuper e sup, es => updE e (fun d => { d with supers := d.supers ++ [sup] }) es
  | .addSub sup e, es => updE sup (fun d => { d with subs := d.subs ++ [e] }) es
  | .addAttr e a, es => updE e (fun d => { d with attrs := d.attrs ++ [a] }) es
  | .addInv e i, es => updE e (fun d => { d with invs := d.invs ++ [i] }) es

/-- `ENTITYincode_print` for one entity -/
def initOps (e : Entity) : List Op :=
  e.supers.flatMap (fun sup => [Op.addSuper e.name sup, Op.addSub sup e.name]) ++
  e.attrs.map (fun a => if a.kind == .inverse then Op.addInv e.name (dinvOf e.name a)
                        else Op.addAttr e.name (dattrOf e.name a))

def entityOps (s : Schema) (order : List String) : List Op :=
  let es := order.filterMap s.findE
  es.map (fun e => Op.newEntity e.name e.abstract) ++ es.flatMap initOps

def runOps (ops : List Op) (es : List DEntity) : List DEntity := ops.foldl (fun acc o => o.run acc) es

/-- the dictionary registered by the emitted `SchemaInit`, for a given symbol-table iteration order -/
def dictOf (s : Schema) (roots : List String) : Dict :=
  { schema := s.name,
    entities := runOps (entityOps s (emissionOrder s roots)) [],
    types := s.types.map (typeOf s) }

/-- `numberAttributes`: `Variable::idx` = position in the concatenation of the attribute lists in emission order -/
def numbering (s : Schema) (order : List String) : List ((String × String) × Nat) :=
  let all := (order.filterMap s.findE).flatMap (fun e => e.attrs.map (fun a => (e.name, dictAttrName a)))
  all.zipIdx

/-! ## Instances: the attribute list built by the generated constructors -/

/-- one `STEPattribute` on an instance's list, identified by its `AttrDescriptor` -/
structure SA where
  owner : String
  name : String
  kind : DKind
  deriving DecidableEq, Repr, Inhabited

/-- attributes for which a constructor creates a `STEPattribute`: no initializer, not inverse, not derived -/
def ownSAs (e : Entity) : List SA :=
  (e.attrs.filter (fun a => a.kind == .explicit)).map
    (fun a => { owner := e.name, name := dictAttrName a, kind := attrDKind a })

/-- `STEPattributeList::push` with the descriptor-only duplicate test: an attribute whose `AttrDescriptor`
    is already on the list is rejected, anything else is appended -/
def ins (h : List SA) (a : SA) : List SA := if h.contains a then h else h ++ [a]

def insAll (h : List SA) (xs : List SA) : List SA := xs.foldl ins h

/-- `E::E( SDAI_Application_instance * se, bool addAttrs )` acting on the head instance's list `h`:
    base-class constructor of the first supertype, `se->AppendMultInstance( new S( se, addAttrs ) )` for the
    others, then `se->attributes.push( a )` for the own attributes.  (Out of fuel / unknown entity: nothing is
    pushed; neither happens for a resolved schema, see `WF`.) -/
def ctorArgs (s : Schema) : Nat → String → List SA → List SA
  | 0, _, h => h
  | f + 1, n, h =>
    match s.findE n with
    | none => h
    | some e => insAll (e.supers.foldl (fun acc sup => ctorArgs s f sup acc) h) (ownSAs e)

/-- `E::E()`: the first supertype's no-argument constructor, `AppendMultInstance( new S( this ) )` for the
    other supertypes, then `attributes.push( a )` for the own attributes -/
def ctorNoArg (s : Schema) : Nat → String → List SA
  | 0, _ => []
  | f + 1, n =>
    match s.findE n with
    | none => []
    | some e =>
      let h0 := match e.supers with
        | [] => []
        | p :: _ => ctorNoArg s f p
      insAll (e.supers.tail.foldl (fun acc sup => ctorArgs s f sup acc) h0) (ownSAs e)

def fuelOf (s : Schema) : Nat := s.entities.length + 1

/-- attribute list of a freshly created instance (`Registry::ObjCreate` → `create_Sdai<E>` → `new Sdai<E>`).
    The fields that make two attributes "the same" for `push` are regenerated from STEPattributeList.cc /
    STEPattribute.cc (`Generated.pushKey`).  Only the descriptor-only comparison is modelled: with the full
    `operator==` the outcome depends on the `_derive`/`_redefAttr` flags that `MakeDerived`/`MakeRedefined`
    set on earlier parts, which this model does not carry (`none` = not modelled). -/
def instanceAttrs (s : Schema) (n : String) : Option (List SA) :=
  match pushKey with
  | .descriptor => some (ctorNoArg s (fuelOf s) n)
  | .fullEquality => none

/-! ## Instances with the `_derive` / `_redefAttr` flags (`MakeDerived` / `MakeRedefined` wiring)

`STEPattribute` objects are identified by their creation index; the head instance's list and the list of every
`AppendMultInstance` part hold object ids, the flags live on the objects (a part's `MakeDerived` is visible on the
head exactly when the head accepted that part's object). -/

structure Obj where
  sa : SA
  derive : Bool := false
  redef : Bool := false
  deriving Repr, Inhabited

structure IState where
  objs : List Obj := []
  head : List Nat := []
  deriving Repr, Inhabited

def saAt (st : IState) (id : Nat) : Option SA := (st.objs[id]?).map (·.sa)

def IState.newObj (st : IState) (a : SA) : IState × Nat :=
  ({ st with objs := st.objs ++ [{ sa := a }] }, st.objs.length)

def modAt (l : List Obj) (i : Nat) (f : Obj → Obj) : List Obj :=
  l.zipIdx.map (fun p => if p.2 == i then f p.1 else p.1)

def setDerive (st : IState) (id : Nat) : IState := { st with objs := modAt st.objs id (fun o => { o with derive := true }) }
def setRedef (st : IState) (id : Nat) : IState := { st with objs := modAt st.objs id (fun o => { o with redef := true }) }

/-- `STEPattributeList::push` on a list of object ids: rejected when an object with the same descriptor is there -/
def pushId (st : IState) (l : List Nat) (id : Nat) : List Nat :=
  if l.any (fun j => saAt st j == saAt st id) then l else l ++ [id]

/-- `GetSTEPattribute( nm, entity )`: first attribute of this instance named `nm` (whose owner is `entity`) -/
def findAttr (st : IState) (l : List Nat) (nm : String) (owner : Option String) : Option Nat :=
  l.find? (fun j => match saAt st j with
    | some a => a.name == nm && (match owner with | some o => o == a.owner | none => true)
    | none => false)

/-- `orderedAttr` (src/express/ordered_attrs.cc) -/
structure OA where
  name : String
  creator : String
  deriver : Bool
  deriving Repr, Inhabited

/-- the first entry named `nm` becomes "derived by the current entity" (`list[i]->deriver = ent; break;`) -/
def markFirst (nm : String) : List OA → Option (List OA)
  | [] => none
  | x :: xs => if x.name == nm then some ({ x with deriver := true } :: xs) else (markFirst nm xs).map (x :: ·)

/-- … searching from index `cnt` (the entries added for this entity's own supertypes) -/
def markFrom (cnt : Nat) (nm : String) (l : List OA) : Option (List OA) :=
  (markFirst nm (l.drop cnt)).map (l.take cnt ++ ·)

/-- does an own attribute that repeats an inherited name mark the inherited attribute derived?  In the DERIVE clause: yes.
    An explicit (type-narrowing) redeclaration: as the regenerated `explicitRedeclMarksDerived` says. -/
def marksDerivedM (m : Bool) (a : Attr) : Bool := a.kind == .derived || m
def marksDerived (a : Attr) : Bool := marksDerivedM explicitRedeclMarksDerived a

/-- `populateAttrList` with the search by NAME ONLY: supertypes first; an own attribute whose name occurs among the entries
    added for this entity's supertypes adds no entry and (when `marksDerived`) marks that entry as derived by this entity,
    otherwise it is appended (derived when it has an initializer) -/
def populateN (s : Schema) : Nat → String → List OA → List OA
  | 0, _, l => l
  | f + 1, n, l =>
    match s.findE n with
    | none => l
    | some e =>
      let cnt := l.length
      let l1 := e.supers.foldl (fun acc sup => populateN s f sup acc) l
      e.attrs.foldl (fun acc a =>
        match markFrom cnt a.name acc with
        | some acc' => if marksDerived a then acc' else acc
        | none => acc ++ [{ name := a.name, creator := n, deriver := a.kind == .derived }]) l1

/-- `isSelfOrSupertype( child, parent )` -/
def isSelfOrSuper (s : Schema) : Nat → String → String → Bool
  | 0, c, p => c == p
  | f + 1, c, p =>
    c == p || (match s.findE c with
      | some e => e.supers.any (fun sup => isSelfOrSuper s f sup p)
      | none => false)

/-- the end of a chain of redeclarations (ordered_attrs.cc `redeclarationTarget`): `SELF\sup.x` where `sup` itself only redeclares
    `x` as `SELF\sup2.x` means the attribute that redeclaration means -/
def redeclTarget (s : Schema) : Nat → String → String → String
  | 0, sup, _ => sup
  | f + 1, sup, x =>
    match s.findE sup with
    | some e =>
      (match e.attrs.find? (fun b => b.name == x) with
       | some b => (match b.redecl with
           | some q => if q == sup then sup else redeclTarget s f q x
           | none => sup)
       | none => sup)
    | none => sup

/-- may the entry created by `creator` be the attribute that own attribute `a` repeats?  An ordinary name: yes.  A redeclaration
    `SELF\sup.x`: only when `creator` is `sup` or a supertype of `sup` (fix C02-8; before it: always) -/
def creatorOK (s : Schema) (a : Attr) (creator : String) : Bool :=
  match a.redecl with
  | none => true
  | some sup => !redeclSearchUsesCreator ||
      isSelfOrSuper s (fuelOf s) (if redeclFollowsChain then redeclTarget s (fuelOf s) sup a.name else sup) creator

/-- first entry at index ≥ `cnt` that satisfies `p`, marked -/
def markFirstP (p : OA → Bool) : List OA → Option (List OA)
  | [] => none
  | x :: xs => if p x then some ({ x with deriver := true } :: xs) else (markFirstP p xs).map (x :: ·)

def markFromP (cnt : Nat) (p : OA → Bool) (l : List OA) : Option (List OA) :=
  (markFirstP p (l.drop cnt)).map (l.take cnt ++ ·)

/-- `populateAttrList` as it is: the inherited attribute an own attribute repeats is found by name AND creator (`creatorOK`) -/
def populate (s : Schema) : Nat → String → List OA → List OA
  | 0, _, l => l
  | f + 1, n, l =>
    match s.findE n with
    | none => l
    | some e =>
      let cnt := l.length
      let l1 := e.supers.foldl (fun acc sup => populate s f sup acc) l
      e.attrs.foldl (fun acc a =>
        match markFromP cnt (fun o => o.name == a.name && creatorOK s a o.creator) acc with
        | some acc' => if marksDerived a then acc' else acc
        | none => acc ++ [{ name := a.name, creator := n, deriver := a.kind == .derived }]) l1

/-- `dedupList`: the first occurrence of (name, creator) stays; `m`: it takes over the "derived by" mark of the repeated entry that
    is removed (fix C02-11) — the attribute is derived when ANY supertype path redeclares it in a DERIVE clause -/
def dedupOAM (m : Bool) : List OA → List OA → List OA
  | acc, [] => acc
  | acc, x :: xs =>
    if acc.any (fun y => y.name == x.name && y.creator == x.creator) then
      dedupOAM m (if m && x.deriver then
        acc.map (fun y => if y.name == x.name && y.creator == x.creator then { y with deriver := true } else y) else acc) xs
    else dedupOAM m (acc ++ [x]) xs

def dedupOA : List OA → List OA → List OA := dedupOAM dedupMergesDeriver

/-- the `MakeDerived( name, creator )` calls `initializeAttrs` prints into both constructors of `n` -/
def derivedCalls (s : Schema) (n : String) : List (String × String) :=
  ((dedupOA [] (populate s (fuelOf s) n [])).filter (·.deriver)).map (fun o => (o.name, o.creator))

/-- the call list under the name-only search -/
def derivedCallsN (s : Schema) (n : String) : List (String × String) :=
  ((dedupOA [] (populateN s (fuelOf s) n [])).filter (·.deriver)).map (fun o => (o.name, o.creator))

def applyDerived (st : IState) (l : List Nat) (calls : List (String × String)) : IState :=
  calls.foldl (fun st c => match findAttr st l c.1 (some c.2) with
    | some id => setDerive st id
    | none => st) st

/-- the entity, among `c` and its supertypes, that declares attribute `nm` itself (exp2cxx `ATTRdeclarer`) -/
def attrDeclarer (s : Schema) : Nat → String → String → Option String
  | 0, _, _ => none
  | f + 1, c, nm =>
    match s.findE c with
    | none => none
    | some e =>
      if e.attrs.any (fun a => a.name == nm && a.redecl.isNone) then some c
      else e.supers.findSome? (fun sup => attrDeclarer s f sup nm)

/-- `ATTRdeclarer` since fix C02-14: when `c` itself redeclares `nm` as `SELF\q.nm`, the declarer is the one `q`'s `nm` has -/
def attrDeclarerC (s : Schema) : Nat → String → String → Option String
  | 0, _, _ => none
  | f + 1, c, nm =>
    match s.findE c with
    | none => none
    | some e =>
      match e.attrs.find? (fun a => a.name == nm && (a.redecl.isNone || a.redecl != some c)) with
      | some a => (match a.redecl with
          | none => some c
          | some q => attrDeclarerC s f q nm)
      | none => e.supers.findSome? (fun sup => attrDeclarerC s f sup nm)

/-- the owner `MakeRedefined( a, nm, owner )` is told for a redeclaration `SELF\sup.nm` (fix C02-9; before it, and when no
    declarer is found: none — the first attribute of that name on the instance) -/
def redefOwner (s : Schema) (a : Attr) : Option String :=
  if redefinedSearchUsesDeclarer then
    a.redecl.bind (fun sup => (if redeclFollowsChain then attrDeclarerC else attrDeclarer) s (fuelOf s) sup a.name)
  else none

/-- one iteration of the own-attribute loop of a constructor: `new STEPattribute`, `attributes.push( a )` (and
    `se->attributes.push( a )` when this is a part), `MakeRedefined( a, nm [, owner] )` for a redeclaration (`ro a` = the owner argument).
    `cur = some l`: a part with its own list `l`; `cur = none`: the head itself. -/
def ownStep (ro : Attr → Option String) (e : Entity) (p : IState × Option (List Nat)) (a : Attr) : IState × Option (List Nat) :=
  let sa : SA := { owner := e.name, name := dictAttrName a, kind := attrDKind a }
  let st1 := (p.1.newObj sa).1
  let id := (p.1.newObj sa).2
  let cur' := p.2.map (fun l => pushId st1 l id)
  let st2 : IState := { st1 with head := pushId st1 st1.head id }
  let mine := match cur' with | some l => l | none => st2.head
  let st3 := if a.redecl.isSome then
      (match findAttr st2 mine a.name (ro a) with | some j => setRedef st2 j | none => st2) else st2
  (st3, cur')

def ownLoop (ro : Attr → Option String) (e : Entity) (st : IState) (cur : Option (List Nat)) : IState × Option (List Nat) :=
  (e.attrs.filter (fun a => a.kind == .explicit)).foldl (ownStep ro e) (st, cur)

def ctorWF (s : Schema) : Nat → String → IState → List Nat → IState × List Nat
  | 0, _, st, cur => (st, cur)
  | f + 1, n, st, cur =>
    match s.findE n with
    | none => (st, cur)
    | some e =>
      let p1 := match e.supers with
        | [] => (st, cur)
        | p :: _ => ctorWF s f p st cur
      let st2 := e.supers.tail.foldl (fun st q => (ctorWF s f q st []).1) p1.1
      let r := ownLoop (redefOwner s) e st2 (some p1.2)
      let l := r.2.getD []
      (applyDerived r.1 l (derivedCalls s n), l)

def ctorNF (s : Schema) : Nat → String → IState → IState
  | 0, _, st => st
  | f + 1, n, st =>
    match s.findE n with
    | none => st
    | some e =>
      let st1 := match e.supers with
        | [] => st
        | p :: _ => ctorNF s f p st
      let st2 := e.supers.tail.foldl (fun st q => (ctorWF s f q st []).1) st1
      let r := ownLoop (redefOwner s) e st2 none
      applyDerived r.1 r.1.head (derivedCalls s n)

/-- the head's attribute list with flags: (descriptor, `_derive`, `_redefAttr` set) -/
def instanceFlags (s : Schema) (n : String) : Option (List (SA × Bool × Bool)) :=
  match pushKey with
  | .descriptor =>
    let st := ctorNF s (fuelOf s) n {}
    some (st.head.filterMap (fun id => (st.objs[id]?).map (fun o => (o.sa, o.derive, o.redef))))
  | .fullEquality => none

/-! ## Name mangling over an abstract identifier alphabet

EXPRESS identifiers as the scanner delivers them: lower-case letters, digits, underscore.  Generated C++
names are over letters of both cases, digits, underscore and a few literal characters.  The rendering to
`String` is in the driver. -/

inductive IdChar
  | letter (i : Fin 26) | digit (d : Fin 10) | us
  deriving DecidableEq, Repr, Inhabited

inductive OutChar
  | lower (i : Fin 26) | upper (i : Fin 26) | digit (d : Fin 10) | us | dot | colon | slash
  deriving DecidableEq, Repr, Inhabited

abbrev Ident := List IdChar

def lo : IdChar → OutChar
  | .letter i => .lower i | .digit d => .digit d | .us => .us
def up : IdChar → OutChar
  | .letter i => .upper i | .digit d => .digit d | .us => .us

/-- inverse of case changes -/
def fold : OutChar → Option IdChar
  | .lower i => some (.letter i) | .upper i => some (.letter i) | .digit d => some (.digit d) | .us => some .us
  | _ => none

def lit (s : List (Fin 26 × Bool)) : List OutChar := s.map (fun p => if p.2 then .upper p.1 else .lower p.1)

/-- "Sdai" -/
def sdaiPrefix : List OutChar := [.upper 18, .lower 3, .lower 0, .lower 8]

/-- `ClassName`: "Sdai" ++ first upper ++ rest lower -/
def className : Ident → List OutChar
  | [] => sdaiPrefix
  | c :: cs => sdaiPrefix ++ up c :: cs.map lo

/-- `PrettyTmpName`: first character and every character following an underscore in upper case (the
    character after an underscore is consumed by the same loop iteration, so in `a__b` the `b` stays lower) -/
def prettyAux : Ident → List OutChar
  | [] => []
  | .us :: c :: cs => .us :: up c :: prettyAux cs
  | c :: cs => lo c :: prettyAux cs

def prettyName : Ident → List OutChar
  | [] => []
  | c :: cs => match prettyAux (c :: cs) with
    | [] => []
    | _ :: r => up c :: r

/-- `ClassName` as the C function is: at most `buf` (= BUFSIZ) characters are written into the static buffer (`j < BUFSIZ`) -/
def classNameBuf (buf : Nat) (t : Ident) : List OutChar := (className t).take buf

/-- `PrettyTmpName` as the C function is: at most `buf - 1` characters of the identifier are read (`i < BUFSIZ - 1`) -/
def prettyNameBuf (buf : Nat) (t : Ident) : List OutChar := prettyName (t.take (buf - 1))

/-- decimal digits of `n`, most significant first (`%d`) -/
def digits (n : Nat) : List (Fin 10) :=
  if h : n < 10 then [⟨n, h⟩] else digits (n / 10) ++ [⟨n % 10, Nat.mod_lt _ (by decide)⟩]
decreasing_by omega

/-- marker in a descriptor variable name: `D` derived, `R` redeclared explicit, `I` inverse -/
def marker (k : AKind) (redecl : Bool) : List OutChar :=
  if k == .derived then [.upper 3] else if redecl then [.upper 17] else if k == .inverse then [.upper 8] else []

/-- `generate_attribute_name`: lower case, `.` → `_`, `self\` stripped: `x` or `sup_x` -/
def attrCName (sup : Option Ident) (nm : Ident) : List OutChar :=
  match sup with
  | none => nm.map lo
  | some s => s.map lo ++ [.us] ++ nm.map lo

/-- `a_<idx><marker><attrnm>` -/
def descVarName (idx : Nat) (k : AKind) (sup : Option Ident) (nm : Ident) : List OutChar :=
  [.lower 0, .us] ++ (digits idx).map OutChar.digit ++ marker k sup.isSome ++ attrCName sup nm

/-- accessor / mutator member function name (`generate_attribute_func_name`, new style): attrnm ++ "_" -/
def accessorName (sup : Option Ident) (nm : Ident) : List OutChar := attrCName sup nm ++ [.us]

/-- suffixes the generator appends to a class name for companion classes / typedefs -/
def suffixVar : List OutChar := [.us, .lower 21, .lower 0, .lower 17]      -- "_var"
def suffixAgg : List OutChar := [.us, .lower 0, .lower 6, .lower 6]        -- "_agg"
def suffixPtr : List OutChar := [.us, .lower 15, .lower 19, .lower 17]     -- "_ptr"

/-- class generated for an enumeration type `t`: `Sdai<T>_var` -/
def enumClassName (t : Ident) : List OutChar := className t ++ suffixVar

/-- class generated for a select type (`SelectName`): the same rule as `ClassName`; its aggregate class appends `_agg` -/
def selectClassName (t : Ident) : List OutChar := className t
def selectAggClassName (t : Ident) : List OutChar := className t ++ suffixAgg

def dirEntity : List OutChar := [.lower 4, .lower 13, .lower 19, .lower 8, .lower 19, .lower 24, .slash]   -- "entity/"
def dirType : List OutChar := [.lower 19, .lower 24, .lower 15, .lower 4, .slash]                           -- "type/"
def extH : List OutChar := [.dot, .lower 7]                                                                 -- ".h"
def extCc : List OutChar := [.dot, .lower 2, .lower 2]                                                      -- ".cc"

/-- `getEntityFilenames`: entity/<ClassName>.h, entity/<ClassName>.cc -/
def entityHeader (e : Ident) : List OutChar := dirEntity ++ className e ++ extH
def entityImpl (e : Ident) : List OutChar := dirEntity ++ className e ++ extCc
/-- `getTypeFilenames` (`TYPEget_ctype`): type/Sdai<T>_var.h for an enumeration, type/Sdai<T>.h for a select -/
def enumHeader (t : Ident) : List OutChar := dirType ++ enumClassName t ++ extH
def selectHeader (t : Ident) : List OutChar := dirType ++ selectClassName t ++ extH

end StepModel.GenCxx

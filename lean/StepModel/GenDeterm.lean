import StepModel.Generated.GenBound
import StepModel.Generated.RefOutGen
import StepModel.Generated.OutOpenGen
import StepModel.ExpressHash
import StepModel.GenFiles
import StepModel.AlphaOrder
/-!
# Determinism of the generators as non-interference  (C12)

`Ambient` stands for everything a run can observe that is not the schema text: the address of every heap object,
the working directory, the environment, the locale, earlier runs.  The modelled code receives it explicitly and
uses it exactly where the C code can observe it:

* `readUInteger` — reading `Expression::u.integer` of an expression whose active union member is something else
  (`u.variable`/`u.entity` pointer for a resolved identifier; never written = 0 after `ALLOC_new`'s memset for
  operator expressions);
* `printBound` — `AGGRprint_bound` (src/exp2cxx/classes_type.c) under the rule found in the tree (`Generated.GenBound`);
* hash-table elements carry their payload pointers (`ExpressHash.Table π` with `π` = addresses): iteration order must be
  shown not to depend on them;
* `scannerStdout` — `getcwd()` + short name, the one place the working directory legitimately enters.
-/
namespace StepModel.GenDeterm
open StepModel.Generated.GenBound

structure Ambient where
  addr : Nat → Nat          -- address of the n-th object allocated by the parser (64-bit value)
  cwd : String
  env : List (String × String)
  locale : String
  earlierRuns : Nat

/-- `(int) x` for a 64-bit value: low 32 bits, two's complement -/
def toInt32 (x : Nat) : Int :=
  let lo : Nat := x % 4294967296
  if lo < 2147483648 then Int.ofNat lo else Int.ofNat lo - 4294967296

/-- a resolved or unresolved aggregate bound, by the shape of the `Expression` the parser builds -/
inductive BoundExpr where
  | intLit (v : Int)                     -- `type == Type_Integer`: literal, `?` (= INT_MAX): `u.integer` is the active member
  | funcall (text : String)              -- `type == Type_Funcall`; text = EXPRto_string
  | ident (obj : Nat) (text : String)    -- resolved identifier (constant, attribute, derived attribute): `u` holds a pointer to object #obj
  | op (text : String)                   -- resolved operator expression (`n + 1`, `-k`): operands live in `e`, `u` is never written
  | negLit (v : Int)                     -- OP_NEGATE applied to an integer literal of value v (`-2`): `u` of the op never written, `e.op1->u.integer = v`
  | runtime (attr : String)              -- `symbol.resolved == 0`: group reference SELF\e.attr
  deriving Repr, DecidableEq

/-- what `bound->u.integer` yields -/
def readUInteger (α : Ambient) : BoundExpr → Int
  | .intLit v => v
  | .ident obj _ => toInt32 (α.addr obj)
  | .funcall _ => toInt32 (α.addr 0)       -- u.funcall.function: a pointer (never read by either rule)
  | .op _ => 0
  | .negLit _ => 0
  | .runtime _ => 0

def exprText : BoundExpr → String
  | .intLit v => toString v
  | .funcall t => t
  | .ident _ t => t
  | .op t => t
  | .negLit v => "-" ++ toString v
  | .runtime a => a

/-- the line `AGGRprint_bound` writes to the implementation file -/
def printBound (rule : BoundRule) (α : Ambient) (var : String) (nr : Nat) (cname aggr : String) (b : BoundExpr) : String :=
  match b with
  | .runtime _ => s!"        {var}->SetBound{nr}FromMemberAccessor( &getBound{nr}_{cname}__{aggr} );\n"
  | _ =>
    match rule with
    | .legacy =>
      match b with
      | .funcall t => s!"        {var}->SetBound{nr}FromExpressFuncall( \"{t}\" );\n"
      | _ => s!"        {var}->SetBound{nr}( {readUInteger α b} );\n"
    | .literalOnly =>
      match b with
      | .intLit v => s!"        {var}->SetBound{nr}( {v} );\n"
      | _ => s!"        {var}->SetBound{nr}FromExpressFuncall( \"{exprText b}\" );\n"
    | .literalOrNegated =>
      match b with
      | .intLit v => s!"        {var}->SetBound{nr}( {v} );\n"
      | .negLit v => s!"        {var}->SetBound{nr}( {-v} );\n"
      | _ => s!"        {var}->SetBound{nr}FromExpressFuncall( \"{exprText b}\" );\n"

/-- bounds on which a rule never reads a union member that holds an address -/
def safeFor : BoundRule → BoundExpr → Bool
  | .literalOnly, _ => true
  | .literalOrNegated, _ => true
  | .legacy, .ident _ _ => false
  | .legacy, _ => true

/-- stdout of the scanner: `getcwd()` ++ "/" ++ short name per schema -/
def scannerStdout (α : Ambient) (f : GenFiles.SchemaFile) : List String :=
  (GenFiles.Scanner.run f).2.map fun s => α.cwd ++ "/" ++ s

/-- `DICTdo` order of a dictionary whose elements carry payload pointers allocated under `α`:
    element i (in definition order) has payload address `α.addr (base + i)` -/
def dictOrderUnder (α : Ambient) (base : Nat) (keys : List String) : List String :=
  (ExpressHash.dictOrder (keys.zipIdx.map fun (k, i) => (k, α.addr (base + i)))).map (·.1)

/-! ## exppp `REFout` (src/exppp/pretty_ref.c): grouping of item-wise USE / REFERENCE clauses by supplier schema -/
open StepModel.Generated.RefOut

def hexDigits : Nat → Nat → List Char
  | 0, _ => []
  | fuel + 1, n => if n < 16 then [Nat.digitChar n] else hexDigits fuel (n / 16) ++ [Nat.digitChar (n % 16)]

/-- `%p` of glibc: "0x" and the lower-case hexadecimal digits -/
def pointerText (a : Nat) : String := "0x" ++ String.ofList (hexDigits 17 a)

/-- one entry of a schema's `usedict` / `refdict`: the item's name (dictionary key), its supplier schema (name and the
    number of the Schema object, for its address) -/
structure RefEntry where
  item : String               -- dictionary key: the new name if the item is renamed (`AS`), otherwise its own
  supplier : String
  supplierObj : Nat
  printed : String := ""      -- what REFout prints for it: `old` or `old AS new`
  deriving Repr

/-- the key REFout files an entry under -/
def refKeyOf (kk : RefKey) (α : Ambient) (e : RefEntry) : String :=
  match kk with
  | .schemaName => e.supplier
  | .address => pointerText (α.addr e.supplierObj)

/-- the order in which REFout emits the `USE FROM s ( … )` / `REFERENCE FROM s ( … )` groups: step 1 walks `refdict` in
    DICTdo order and files every entry under its key in a fresh dictionary (`DICTdefine` on the first entry of a supplier;
    the payload is a freshly allocated list, an address); step 2 walks that dictionary in DICTdo order. -/
def refoutGroupOrder (kk : RefKey) (α : Ambient) (listBase : Nat) (entries : List RefEntry) : List String :=
  let walked := (ExpressHash.dictOrder (entries.map fun e => (e.item, e))).map (·.2)
  let filed := walked.zipIdx.map fun (e, i) => (refKeyOf kk α e, (e.supplier, α.addr (listBase + i)))
  (ExpressHash.dictOrder filed).map (·.2.1)

/-- the complete grouping REFout emits: for every supplier (in `refoutGroupOrder`) the texts of its items in the order in
    which step 1 met them — the DICTdo order of `refdict` (a hash order of the item keys), NOT the order of the source text -/
def refoutGroups (kk : RefKey) (α : Ambient) (listBase : Nat) (entries : List RefEntry) : List (String × List String) :=
  let walked := (ExpressHash.dictOrder (entries.map fun e => (e.item, e))).map (·.2)
  let filed := walked.zipIdx.map fun (e, i) => (refKeyOf kk α e, (e.supplier, α.addr (listBase + i)))
  (ExpressHash.dictOrder filed).map fun g => (g.2.1, (walked.filter fun e => refKeyOf kk α e == g.1).map (·.printed))

/-! ## exppp: the order of the declarations of one class in a scope -/

/-- `strcmp(a, b) < 0` on identifiers (ASCII) -/
def nameLt (a b : String) : Bool := decide (a < b)

/-- names of the objects of one class (types, entities, rules, functions, procedures) in the order exppp prints them, given
    the names in definition order: a DICTdo walk (hash order; payload addresses from the ambient) followed — when
    `exppp_alphabetize` is on, the regenerated default — by `SCOPEadd_inorder` -/
def sectionOrder (alphabetize : Bool) (α : Ambient) (base : Nat) (names : List String) : List String :=
  let walked := dictOrderUnder α base names
  if alphabetize then AlphaOrder.alphaOrder nameLt walked else walked

/-! ## what an earlier run left in the working directory: how output files are opened -/
open StepModel.Generated.OutOpen

/-- the part of the ambient that is the working directory's content: file name ↦ bytes -/
abbrev Dir := String → Option (List UInt8)

/-- writing `bytes` to `name` under an opening discipline.  `truncate` / `unlinkThenCreate`: the file holds exactly the
    bytes written.  `updateInPlace`: an existing file is overwritten from its start and keeps whatever lies beyond. -/
def writeOut (mode : OpenMode) (dir : Dir) (name : String) (bytes : List UInt8) : Dir :=
  fun n => if n = name then
      some (match mode, dir name with
            | .updateInPlace, some old => bytes ++ old.drop bytes.length
            | _, _ => bytes)
    else dir n

end StepModel.GenDeterm

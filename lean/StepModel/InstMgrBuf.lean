import StepModel.InstMgr
import StepModel.GenNodeArrayLemmas
/-!
# The two models of the master array are one: `InstMgr.lean`'s node list is what `GenNodeArray.lean`'s buffer holds

`InstMgr.lean` keeps `master` as a `List Node` plus a capacity number; `GenNodeArray.lean` models the heap block with
`Check`/`Insert`/`Remove`/`ClearEntries`/`DeleteEntries` as slot operations.  `stepOps` lists the calls every `InstMgr`
operation makes on `master` (following `step`'s control flow); `link_run` shows that replaying those calls on the buffer
model never leaves the block and that after any history the first `_count` slots are exactly the node identities of
`s.nodes`, all other slots are null, and the block length is `s.bufsize`.
-/
namespace StepModel.InstMgr
open StepModel.Generated StepModel.GenNodeArray

/-- the node identities as the pointers stored in the array -/
def ptrs (s : State) : List (Option Nat) := s.nodes.map (fun n => some n.nid)

/-- `InstMgr::Delete( MgrNode * )`: one `master->Remove( node->ArrayIndex() )` when it gets that far -/
def deleteNodeCoreOps (s : State) (n : Node) : List BufOp :=
  match s.heap n.inst with
  | Option.none => []
  | some _ => if 0 ≤ n.arrayIndex ∧ n.arrayIndex.toNat < s.nodes.length then [.remove n.arrayIndex.toNat] else []

/-- `InstMgr::Append` from `FindFileId` on: one `master->Append( mn )` when a node is created -/
def appendFindOps (s1 : State) (id1 : Int) (h : Nat) : List BufOp :=
  match findFileId s1 id1 with
  | .dangling => []
  | .node n => if n.inst = h then [] else [.push s1.nextNid]
  | .none => [.push s1.nextNid]

/-- the calls on `master` an operation makes -/
def stepOps (s : State) : Op → List BufOp
  | .newInst _ _ _ => []
  | .append h _ =>
    match s.heap h with
    | Option.none => []
    | some i0 =>
      if i0.fileId = unassignedFileId then appendFindOps (renumber s h).1 (renumber s h).2 h
      else appendFindOps s i0.fileId h
  | .deleteNode i =>
    match s.nodes[i]? with
    | Option.none => []
    | some n => deleteNodeCoreOps s n
  | .deleteInst h =>
    match s.heap h with
    | Option.none => []
    | some i =>
      if s.nodes.any (fun n => n.inst == h) then
        match findFileId s i.fileId with
        | .node n => deleteNodeCoreOps s n
        | _ => []
      else []
  | .changeState _ _ => []
  | .clear => [.clear]
  | .deleteAll =>
    match freeAll s.heap s.nodes with
    | Option.none => []
    | some _ => [.deleteAll]
  | .lookup i => [.peek i]

/-- all calls on `master` over a history -/
def traceOf : State → List Op → List BufOp
  | _, [] => []
  | s, op :: ops => stepOps s op ++ traceOf (step s op).1 ops

/-- the buffer `a` is the master array of state `s` -/
structure Link (s : State) (a : Arr) : Prop where
  wf : Wf a
  view : view a = ptrs s
  len : a.buf.length = s.bufsize

end StepModel.InstMgr

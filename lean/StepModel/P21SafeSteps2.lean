import StepModel.P21SafeSteps
/-! Step counts of the `);` recovery scan and of the export-list loops (helper file for Props/C05). -/
namespace StepModel.P21Safe

theorem not_good_of_m_zero'' {s : IS} (h : s.m = 0) : s.good = false := by
  obtain ⟨pre, rest, eof, fail, sk⟩ := s
  cases fail <;> simp_all [IS.m, IS.good]

theorem get_good_or_failed (s : IS) (h : s.good = true ∨ s.m = 0) : (s.get).1.good = true ∨ (s.get).1.m = 0 := by
  obtain ⟨pre, rest, eof, fail, sk⟩ := s
  cases eof <;> cases fail <;> cases rest <;> simp_all [IS.get, IS.good, IS.m]

/-- the inner loop `while( in.good() && c != ')' ) { in.get( c ); tmp += c; }` -/
theorem recoverInner_pot (R : Nat) : ∀ (fuel : Nat) (s : IS) (c : Byte) (len steps : Nat), s.m + 1 ≤ fuel →
    (s.good = true ∨ s.m = 0) →
    ∃ s' c' len' steps', recoverInner fuel s c len steps = .ok (s', c', len', steps') ∧ s'.m ≤ s.m ∧
      steps' + pot R s' ≤ steps + pot R s ∧ (s'.good = true → c' = chRParen) ∧ (s'.good = true ∨ s'.m = 0) := by
  intro fuel
  induction fuel with
  | zero => intro s c len steps h; omega
  | succ fuel ih =>
    intro s c len steps h hgz
    unfold recoverInner
    by_cases hcond : (s.good && c != chRParen) = true
    · simp only [hcond, if_true]
      have hg : s.good = true := by simp at hcond; exact hcond.1
      have hpos := good_m_pos hg
      have hge := pot_ge (R := R) hpos
      have hgm := get_m s
      have hgf := get_good_or_failed s hgz
      generalize s.get = g at hgm hgf ⊢
      obtain ⟨s1, o⟩ := g
      simp only [] at hgm hgf
      have hp1 : pot R s1 + 1 ≤ pot R s := by
        rcases hgm with hh | hh
        · have := pot_drop (R := R) hh (Nat.le_refl 1); omega
        · rw [pot_zero hh]; omega
      cases o with
      | none =>
        obtain ⟨s', c', l', st', he, h1, h2, h3, h4⟩ := ih s1 c (len + 1) (steps + 1) (by rcases hgm with hh | hh <;> omega) hgf
        exact ⟨s', c', l', st', by simpa using he, by rcases hgm with hh | hh <;> omega, by omega, h3, h4⟩
      | some c1 =>
        obtain ⟨s', c', l', st', he, h1, h2, h3, h4⟩ := ih s1 c1 (len + 1) (steps + 1) (by rcases hgm with hh | hh <;> omega) hgf
        exact ⟨s', c', l', st', by simpa using he, by rcases hgm with hh | hh <;> omega, by omega, h3, h4⟩
    · simp only [hcond]
      refine ⟨s, c, len, steps, by simp, Nat.le_refl _, Nat.le_refl _, ?_, hgz⟩
      intro hg
      simp [hg] at hcond
      exact hcond

/-- the whole `);` scan: all iterations of both loops are paid by the potential, plus one -/
theorem recoverOuter_pot (R : Nat) : ∀ (fuel : Nat) (s : IS) (c : Byte) (len steps : Nat), s.m + 1 ≤ fuel →
    (s.good = true ∨ s.m = 0) →
    ∃ r, recoverOuter fuel s c len steps = .ok r ∧ r.s.m ≤ s.m ∧ r.steps + pot R r.s ≤ steps + pot R s + 1 := by
  intro fuel
  induction fuel with
  | zero => intro s c len steps h; omega
  | succ fuel ih =>
    intro s c len steps h hgz
    unfold recoverOuter
    by_cases hg : s.good = true
    · simp only [hg, Bool.not_true, Bool.false_eq_true, if_false]
      have hpos := good_m_pos hg
      have hge := pot_ge (R := R) hpos
      obtain ⟨s1, c1, len1, steps1, he, h1, h2, h3, h4⟩ := recoverInner_pot R (fuel + 1) s c len steps h hgz
      rw [he]
      simp only []
      split
      · rename_i hc
        have hg1 : s1.good = true := by simp at hc; exact hc.1
        have hw := ws_m s1
        have hgm := get_m s1.ws
        have hpos1 := good_m_pos hg1
        -- after `ws` and `get`: one byte less, or failed — and good or failed
        have hshape : ((s1.ws.get).1.good = true ∨ (s1.ws.get).1.m = 0) := by
          obtain ⟨pre, rest, eof, fail, sk⟩ := s1
          simp [IS.good] at hg1
          obtain ⟨rfl, rfl⟩ := hg1
          simp only [IS.ws, IS.good]
          generalize IS.skipSpaces pre rest = sp
          obtain ⟨p, r⟩ := sp
          cases r <;> simp [IS.get, IS.good, IS.m]
        generalize s1.ws.get = g at hgm hshape ⊢
        obtain ⟨s3, o⟩ := g
        simp only [] at hgm hshape
        have hp3 : pot R s3 + 1 ≤ pot R s1 := by
          have hge1 := pot_ge (R := R) hpos1
          rcases hgm with hh | hh
          · have := pot_drop (R := R) (a := s3) (b := s1) (d := 1) (by omega) (Nat.le_refl 1); omega
          · rw [pot_zero hh]; omega
        have hm3 : s3.m + 1 ≤ fuel := by rcases hgm with hh | hh <;> omega
        have fin : ∀ c3 : Byte, ∃ r, (if c3 = chSemi then Out.ok (⟨s3, 1, len1 + 1, steps1 + 1⟩ : LoopRes)
            else recoverOuter fuel s3 c3 (len1 + 1) (steps1 + 1)) = .ok r ∧ r.s.m ≤ s.m ∧
            r.steps + pot R r.s ≤ steps + pot R s + 1 := by
          intro c3
          split
          · exact ⟨_, rfl, by rcases hgm with hh | hh <;> (simp only []; omega), by simp only []; omega⟩
          · obtain ⟨r, a, b, cc⟩ := ih s3 c3 (len1 + 1) (steps1 + 1) hm3 hshape
            exact ⟨r, a, by rcases hgm with hh | hh <;> omega, by omega⟩
        cases o with
        | none => exact fin c1
        | some c3 => exact fin c3
      · rename_i hc
        have hng : s1.good = false := by
          by_cases hg1 : s1.good = true
          · have := h3 hg1; simp [hg1, this] at hc
          · simpa using hg1
        have hz1 : s1.m = 0 := by
          rcases h4 with hh | hh
          · rw [hng] at hh; cases hh
          · exact hh
        have hf : 1 ≤ fuel := by omega
        obtain ⟨f, rfl⟩ : ∃ f, fuel = f + 1 := ⟨fuel - 1, by omega⟩
        refine ⟨⟨s1, 0, len1, steps1 + 1⟩, ?_, by simp only []; omega, ?_⟩
        · unfold recoverOuter; simp [hng]
        · simp only []
          rw [pot_zero hz1] at h2 ⊢
          omega
    · simp at hg
      refine ⟨⟨s, 0, len, steps⟩, by simp [hg], Nat.le_refl _, ?_⟩
      show steps + pot R s ≤ steps + pot R s + 1
      omega


theorem exportLoop_notgood (cm : Bool) (iters fuel : Nat) (s : IS) (c : Byte) (steps : Nat) (h : s.good = false) :
    exportLoop true cm iters (fuel + 1) s c steps = .ok ⟨s, 0, 0, steps⟩ := by
  show exportStep _ _ true s c steps = _
  simp [exportStep, h]

/-- the export-list loop with the stream state in its condition: every iteration (two token separators, `get`, `>> int`,
`get`) is paid by the byte the first `get` consumes; plus at most three steps when the input ends inside the list -/
theorem exportLoop_pot (R : Nat) (cm : Bool) (iters : Nat) (hR : iters ≤ R) : ∀ (fuel : Nat) (s : IS) (c : Byte) (steps : Nat),
    s.m + 1 ≤ fuel →
    ∃ r, exportLoop true cm iters fuel s c steps = .ok r ∧ r.s.m ≤ s.m ∧ r.steps + pot R r.s ≤ steps + pot R s + 3 := by
  intro fuel
  induction fuel with
  | zero => intro s c steps h; omega
  | succ fuel ih =>
    intro s c steps h
    show ∃ r, exportStep (exportLoop true cm iters fuel) (readTokenSeparator cm iters (fuel + 1)) true s c steps = .ok r ∧ _
    unfold exportStep
    split
    · rename_i hcond
      have hg : s.good = true := by simp at hcond; exact hcond.2
      have hpos := good_m_pos hg
      have hge := pot_ge (R := R) hpos
      obtain ⟨f, rfl⟩ : ∃ f, fuel = f + 1 := ⟨fuel - 1, by omega⟩
      obtain ⟨r1, hr1, hm1, hp1⟩ := readTokenSeparator_pot R cm iters hR (f + 1 + 1) s h
      rw [hr1]
      simp only []
      have hget := get_m r1.s
      have hint := extractInt_m (r1.s.get).1
      obtain ⟨r2, hr2, hm2, hp2⟩ := readTokenSeparator_pot R cm iters hR (f + 1 + 1) (r1.s.get).1.extractInt
        (by rcases hget with hh | hh <;> omega)
      rw [hr2]
      simp only []
      have hget2 := get_m_le r2.s
      have hpx : pot R (r1.s.get).1.extractInt ≤ pot R (r1.s.get).1 := pot_mono hint
      have hp4 : pot R (r2.s.get).1 ≤ pot R r2.s := pot_mono hget2
      rcases hget with hh | hh
      · -- a byte was consumed
        have hd := pot_drop (R := R) hh (Nat.le_refl 1)
        have hfin : (r2.s.get).1.m + 1 ≤ f + 1 := by omega
        generalize r2.s.get = g at hp4 hfin hget2 ⊢
        obtain ⟨s4, o⟩ := g
        simp only [] at hp4 hfin hget2
        cases o with
        | none =>
          obtain ⟨r, a, b, cc⟩ := ih s4 c (steps + 1 + r1.steps + r2.steps) hfin
          exact ⟨r, a, by omega, by omega⟩
        | some c4 =>
          obtain ⟨r, a, b, cc⟩ := ih s4 c4 (steps + 1 + r1.steps + r2.steps) hfin
          exact ⟨r, a, by omega, by omega⟩
      · -- the input ended: everything after has failed, the loop stops at its next test
        have hz : (r1.s.get).1.extractInt.m = 0 := by omega
        have hz2 : r2.s.m = 0 := by omega
        have hz4 : (r2.s.get).1.m = 0 := by omega
        rw [pot_zero hz] at hp2
        rw [pot_zero hz2] at hp2
        have hng := not_good_of_m_zero'' hz4
        have hr1b : r1.steps ≤ pot R s + 1 := by omega
        generalize r2.s.get = g at hz4 hng ⊢
        obtain ⟨s4, o⟩ := g
        simp only [] at hz4 hng
        have hb : r1.steps + 1 ≤ pot R s ∨ r1.s.m = 0 := by
          by_cases hr1z : r1.s.m = 0
          · exact Or.inr hr1z
          · left; have := pot_ge (R := R) (b := r1.s) (by omega); omega
        cases o with
        | none =>
          simp only []
          rw [exportLoop_notgood _ _ _ _ _ _ hng]
          refine ⟨_, rfl, by simp only []; omega, ?_⟩
          simp only []; rw [pot_zero hz4]; omega
        | some c4 =>
          simp only []
          rw [exportLoop_notgood _ _ _ _ _ _ hng]
          refine ⟨_, rfl, by simp only []; omega, ?_⟩
          simp only []; rw [pot_zero hz4]; omega
    · refine ⟨⟨s, 0, 0, steps⟩, rfl, Nat.le_refl _, ?_⟩
      show steps + pot R s ≤ steps + pot R s + 3
      omega

end StepModel.P21Safe

import StepModel.P21SafeSteps
/-! Step counts of the `);` recovery scan and of the export-list loops (helper file for Props/C05). -/
namespace StepModel.P21Safe

theorem not_good_of_m_zero'' {s : IS} (h : s.m = 0) : s.good = false := by
  obtain ⟨pre, rest, eof, fail, sk⟩ := s
  cases fail <;> simp_all [IS.m, IS.good]

theorem get_good_or_failed (s : IS) (h : s.good = true ∨ s.m = 0) : (s.get).1.good = true ∨ (s.get).1.m = 0 := by
  obtain ⟨pre, rest, eof, fail, sk⟩ := s
  cases eof <;> cases fail <;> cases rest <;> simp_all [IS.get, IS.good, IS.m]

theorem get_some_m {s : IS} {x : Byte} (h : (s.get).2 = some x) : (s.get).1.m + 1 ≤ s.m := by
  obtain ⟨pre, rest, eof, fail, sk⟩ := s
  cases eof <;> cases fail <;> cases rest <;> simp_all [IS.get, IS.good, IS.m]

/-- the inner loop `while( in.good() && c != ')' … ) { in.get( c ); tmp += c; … }`, with or without the end-of-record test -/
theorem recoverInner_pot (R : Nat) (stay quotes : Bool) : ∀ (fuel : Nat) (s : IS) (c : Byte) (q : Bool) (len steps : Nat), s.m + 1 ≤ fuel →
    ∃ s' c' q' f' len' steps', recoverInner stay quotes fuel s c q len steps = .ok (s', c', q', f', len', steps') ∧ s'.m ≤ s.m ∧
      (f' = false → steps' + pot R s' ≤ steps + pot R s ∧ (s'.good = true → c' = chRParen) ∧
        ((s.good = true ∨ s.m = 0) → (s'.good = true ∨ s'.m = 0))) ∧
      (f' = true → steps' + pot R s' ≤ steps + pot R s + 1) := by
  intro fuel
  induction fuel with
  | zero => intro s c q len steps h; omega
  | succ fuel ih =>
    intro s c q len steps h
    unfold recoverInner
    by_cases hcond : (s.good && c != chRParen) = true
    · simp only [hcond, if_true]
      have hg : s.good = true := by simp at hcond; exact hcond.1
      have hpos := good_m_pos hg
      have hge := pot_ge (R := R) hpos
      have hgm := get_m s
      have hgf := get_good_or_failed s (Or.inl hg)
      have hp1 : pot R (s.get).1 + 1 ≤ pot R s := by
        rcases hgm with hh | hh
        · have := pot_drop (R := R) hh (Nat.le_refl 1); omega
        · rw [pot_zero hh]; omega
      have hrec : ∀ (c1 : Byte) (q1 : Bool),
          ∃ s' c' q' f' len' steps', recoverInner stay quotes fuel (s.get).1 c1 q1 (len + 1) (steps + 1) = .ok (s', c', q', f', len', steps') ∧
            s'.m ≤ s.m ∧
            (f' = false → steps' + pot R s' ≤ steps + pot R s ∧ (s'.good = true → c' = chRParen) ∧
              ((s.good = true ∨ s.m = 0) → (s'.good = true ∨ s'.m = 0))) ∧
            (f' = true → steps' + pot R s' ≤ steps + pot R s + 1) := by
        intro c1 q1
        obtain ⟨s', c', q', f', l', st', he, h1, h2, h3⟩ := ih (s.get).1 c1 q1 (len + 1) (steps + 1)
          (by rcases hgm with hh | hh <;> omega)
        refine ⟨s', c', q', f', l', st', he, by rcases hgm with hh | hh <;> omega, ?_, ?_⟩
        · intro hf
          obtain ⟨x, y, z⟩ := h2 hf
          exact ⟨by omega, y, fun _ => z hgf⟩
        · intro hf
          have := h3 hf
          omega
      split
      · exact hrec _ _
      · split
        · rename_i hfound
          have hg1 : (s.get).1.good = true := by
            simp only [Bool.and_eq_true] at hfound
            exact hfound.1.1.2
          have hpos1 := good_m_pos hg1
          have hpb := putback_m (s.get).1 chSemi
          have hm' : ((s.get).1.putback chSemi).m ≤ s.m := by rcases hgm with hh | hh <;> omega
          refine ⟨_, _, _, _, _, _, rfl, hm', ?_, ?_⟩
          · intro hf; cases hf
          · intro _
            have := pot_mono (R := R) hm'
            omega
        · exact hrec _ _
    · simp only [hcond]
      refine ⟨s, c, q, false, len, steps, by simp, Nat.le_refl _, ?_, ?_⟩
      · intro _
        refine ⟨Nat.le_refl _, ?_, fun h => h⟩
        intro hg
        simp [hg] at hcond
        exact hcond
      · intro hf; cases hf

/-- the whole `);` scan, for either shape: all iterations of both loops are paid by the potential, plus one -/
theorem recoverOuter_pot (R : Nat) (stay quotes pb : Bool) : ∀ (fuel : Nat) (s : IS) (c : Byte) (q : Bool) (len steps : Nat), s.m + 1 ≤ fuel →
    (s.good = true ∨ s.m = 0) →
    ∃ r, recoverOuter stay quotes pb fuel s c q len steps = .ok r ∧ r.s.m ≤ s.m ∧ r.steps + pot R r.s ≤ steps + pot R s + 1 := by
  intro fuel
  induction fuel with
  | zero => intro s c q len steps h; omega
  | succ fuel ih =>
    intro s c q len steps h hgz
    unfold recoverOuter
    by_cases hg : s.good = true
    · simp only [hg, Bool.not_true, Bool.false_eq_true, if_false]
      have hpos := good_m_pos hg
      have hge := pot_ge (R := R) hpos
      obtain ⟨s1, c1, q1, f1, len1, steps1, he, h1, hnf, hf⟩ := recoverInner_pot R stay quotes (fuel + 1) s c q len steps h
      rw [he]
      simp only []
      cases f1 with
      | true =>
        simp only [if_true]
        have := hf rfl
        exact ⟨_, rfl, h1, by simp only []; omega⟩
      | false =>
        simp only [Bool.false_eq_true, if_false]
        obtain ⟨h2, h3, h4'⟩ := hnf rfl
        have h4 := h4' hgz
        split
        · rename_i hc
          have hg1 : s1.good = true := by simp at hc; exact hc.1
          have hc1 : c1 = chRParen := h3 hg1
          have hw := ws_m s1
          have hgm := get_m s1.ws
          have hpos1 := good_m_pos hg1
          -- after `ws` and `get`: one byte less, or failed — and good or failed
          have hshape : ((s1.ws.get).1.good = true ∨ (s1.ws.get).1.m = 0) := by
            obtain ⟨pre, rest, eof, fail, sk⟩ := s1
            simp [IS.good] at hg1
            obtain ⟨rfl, rfl⟩ := hg1
            simp only [IS.ws, IS.good]
            generalize IS.skipSpaces pre rest = sp
            obtain ⟨p, r⟩ := sp
            cases r <;> simp [IS.get, IS.good, IS.m]
          have hp3 : pot R (s1.ws.get).1 + 1 ≤ pot R s1 := by
            have hge1 := pot_ge (R := R) hpos1
            rcases hgm with hh | hh
            · have := pot_drop (R := R) (a := (s1.ws.get).1) (b := s1) (d := 1) (by omega) (Nat.le_refl 1); omega
            · rw [pot_zero hh]; omega
          have hm3 : (s1.ws.get).1.m + 1 ≤ fuel := by rcases hgm with hh | hh <;> omega
          split
          · rename_i hsemi
            -- the `;` was read: the `get` succeeded
            have hsome : ∃ x, (s1.ws.get).2 = some x := by
              cases hgo : (s1.ws.get).2 with
              | none => rw [hgo] at hsemi; simp [hc1, chRParen, chSemi] at hsemi
              | some x => exact ⟨x, rfl⟩
            obtain ⟨x, hx⟩ := hsome
            have hstrict := get_some_m hx
            cases pb with
            | false =>
              refine ⟨_, rfl, by simp only [Bool.false_eq_true, if_false]; omega, ?_⟩
              simp only [Bool.false_eq_true, if_false]
              omega
            | true =>
              have hpb := putback_m (s1.ws.get).1 chSemi
              have hm' : ((s1.ws.get).1.putback chSemi).m ≤ s1.m := by omega
              have := pot_mono (R := R) hm'
              refine ⟨_, rfl, by simp only [if_true]; omega, ?_⟩
              simp only [if_true]
              omega
          · obtain ⟨r, a, b, cc⟩ := ih (s1.ws.get).1 ((s1.ws.get).2.getD c1)
              (if stay && quotes && (s1.ws.get).1.good && (s1.ws.get).2.getD c1 = chQuote then !q1 else q1) (len1 + 1) (steps1 + 1) hm3 hshape
            exact ⟨r, a, by rcases hgm with hh | hh <;> omega, by omega⟩
        · rename_i hc
          have hng : s1.good = false := by
            by_cases hg1 : s1.good = true
            · have := h3 hg1; simp [hg1, this] at hc
            · simpa using hg1
          have hz1 : s1.m = 0 := by
            rcases h4 with hh | hh
            · rw [hng] at hh; cases hh
            · exact hh
          have hf : 1 ≤ fuel := by omega
          obtain ⟨f, rfl⟩ : ∃ f, fuel = f + 1 := ⟨fuel - 1, by omega⟩
          refine ⟨⟨s1, 0, len1, steps1 + 1⟩, ?_, by simp only []; omega, ?_⟩
          · unfold recoverOuter; simp [hng]
          · simp only []
            rw [pot_zero hz1] at h2 ⊢
            omega
    · simp at hg
      refine ⟨⟨s, 0, len, steps⟩, by simp [hg], Nat.le_refl _, ?_⟩
      show steps + pot R s ≤ steps + pot R s + 1
      omega


theorem exportLoop_notgood (cm : Bool) (iters fuel : Nat) (s : IS) (c : Byte) (steps : Nat) (h : s.good = false) :
    exportLoop true cm iters (fuel + 1) s c steps = .ok ⟨s, 0, 0, steps⟩ := by
  show exportStep _ _ true s c steps = _
  simp [exportStep, h]

/-- the export-list loop with the stream state in its condition: every iteration (two token separators, `get`, `>> int`,
`get`) is paid by the byte the first `get` consumes; plus at most three steps when the input ends inside the list -/
theorem exportLoop_pot (R : Nat) (cm : Bool) (iters : Nat) (hR : iters ≤ R) : ∀ (fuel : Nat) (s : IS) (c : Byte) (steps : Nat),
    s.m + 1 ≤ fuel →
    ∃ r, exportLoop true cm iters fuel s c steps = .ok r ∧ r.s.m ≤ s.m ∧ r.steps + pot R r.s ≤ steps + pot R s + 3 := by
  intro fuel
  induction fuel with
  | zero => intro s c steps h; omega
  | succ fuel ih =>
    intro s c steps h
    show ∃ r, exportStep (exportLoop true cm iters fuel) (readTokenSeparator cm iters (fuel + 1)) true s c steps = .ok r ∧ _
    unfold exportStep
    split
    · rename_i hcond
      have hg : s.good = true := by simp at hcond; exact hcond.2
      have hpos := good_m_pos hg
      have hge := pot_ge (R := R) hpos
      obtain ⟨f, rfl⟩ : ∃ f, fuel = f + 1 := ⟨fuel - 1, by omega⟩
      obtain ⟨r1, hr1, hm1, hp1⟩ := readTokenSeparator_pot R cm iters hR (f + 1 + 1) s h
      rw [hr1]
      simp only []
      have hget := get_m r1.s
      have hint := extractInt_m (r1.s.get).1
      obtain ⟨r2, hr2, hm2, hp2⟩ := readTokenSeparator_pot R cm iters hR (f + 1 + 1) (r1.s.get).1.extractInt
        (by rcases hget with hh | hh <;> omega)
      rw [hr2]
      simp only []
      have hget2 := get_m_le r2.s
      have hpx : pot R (r1.s.get).1.extractInt ≤ pot R (r1.s.get).1 := pot_mono hint
      have hp4 : pot R (r2.s.get).1 ≤ pot R r2.s := pot_mono hget2
      rcases hget with hh | hh
      · -- a byte was consumed
        have hd := pot_drop (R := R) hh (Nat.le_refl 1)
        have hfin : (r2.s.get).1.m + 1 ≤ f + 1 := by omega
        generalize r2.s.get = g at hp4 hfin hget2 ⊢
        obtain ⟨s4, o⟩ := g
        simp only [] at hp4 hfin hget2
        cases o with
        | none =>
          obtain ⟨r, a, b, cc⟩ := ih s4 c (steps + 1 + r1.steps + r2.steps) hfin
          exact ⟨r, a, by omega, by omega⟩
        | some c4 =>
          obtain ⟨r, a, b, cc⟩ := ih s4 c4 (steps + 1 + r1.steps + r2.steps) hfin
          exact ⟨r, a, by omega, by omega⟩
      · -- the input ended: everything after has failed, the loop stops at its next test
        have hz : (r1.s.get).1.extractInt.m = 0 := by omega
        have hz2 : r2.s.m = 0 := by omega
        have hz4 : (r2.s.get).1.m = 0 := by omega
        rw [pot_zero hz] at hp2
        rw [pot_zero hz2] at hp2
        have hng := not_good_of_m_zero'' hz4
        have hr1b : r1.steps ≤ pot R s + 1 := by omega
        generalize r2.s.get = g at hz4 hng ⊢
        obtain ⟨s4, o⟩ := g
        simp only [] at hz4 hng
        have hb : r1.steps + 1 ≤ pot R s ∨ r1.s.m = 0 := by
          by_cases hr1z : r1.s.m = 0
          · exact Or.inr hr1z
          · left; have := pot_ge (R := R) (b := r1.s) (by omega); omega
        cases o with
        | none =>
          simp only []
          rw [exportLoop_notgood _ _ _ _ _ _ hng]
          refine ⟨_, rfl, by simp only []; omega, ?_⟩
          simp only []; rw [pot_zero hz4]; omega
        | some c4 =>
          simp only []
          rw [exportLoop_notgood _ _ _ _ _ _ hng]
          refine ⟨_, rfl, by simp only []; omega, ?_⟩
          simp only []; rw [pot_zero hz4]; omega
    · refine ⟨⟨s, 0, 0, steps⟩, rfl, Nat.le_refl _, ?_⟩
      show steps + pot R s ≤ steps + pot R s + 3
      omega

/-! ### the `);` scan and the end of the record -/

/-- with the end-of-record test at the first `;`: a record tail `a ;` without `)` costs `|a| + 1` steps, whatever follows
and whatever apostrophes `a` holds -/
theorem recoverInner_stays (a : List Byte) : ∀ (pre b : List Byte) (sk : Bool) (c : Byte) (len steps fuel : Nat),
    (∀ x ∈ a, x ≠ chRParen ∧ x ≠ chSemi) → c ≠ chRParen → a.length + 1 ≤ fuel →
    recoverInner true false fuel ⟨pre, a ++ chSemi :: b, false, false, sk⟩ c false len steps =
      .ok (⟨a.reverse ++ pre, chSemi :: b, false, false, sk⟩, chSemi, false, true, len + a.length + 1, steps + a.length + 1) := by
  induction a with
  | nil =>
    intro pre b sk c len steps fuel _ hc hf
    obtain ⟨f, rfl⟩ : ∃ f, fuel = f + 1 := ⟨fuel - 1, by omega⟩
    unfold recoverInner
    have h1 : (chSemi = chQuote) = False := by decide
    simp [IS.good, IS.get, IS.putback, hc, h1]
  | cons x a ih =>
    intro pre b sk c len steps fuel ha hc hf
    obtain ⟨f, rfl⟩ : ∃ f, fuel = f + 1 := ⟨fuel - 1, by simp at hf; omega⟩
    have hx := ha x (by simp)
    have hih := ih (x :: pre) b sk x (len + 1) (steps + 1) f (fun y hy => ha y (by simp [hy])) hx.1 (by simp at hf; omega)
    have hget : IS.get ⟨pre, x :: (a ++ chSemi :: b), false, false, sk⟩ = (⟨x :: pre, a ++ chSemi :: b, false, false, sk⟩, some x) := by
      simp [IS.get, IS.good]
    unfold recoverInner
    simp only [List.cons_append, hget]
    simp [IS.good, hc, hx.2, hih]
    omega

theorem skipSpaces_semi (a2 : List Byte) : ∀ (pre b : List Byte), (∀ x ∈ a2, x ≠ chSemi) →
    ∃ p' a3, IS.skipSpaces pre (a2 ++ chSemi :: b) = (p', a3 ++ chSemi :: b) ∧ a3.length ≤ a2.length ∧ (∀ x ∈ a3, x ≠ chSemi) := by
  induction a2 with
  | nil =>
    intro pre b _
    have h : isSpace chSemi = false := by decide
    exact ⟨pre, [], by simp [IS.skipSpaces, h], Nat.le_refl _, by simp⟩
  | cons x a ih =>
    intro pre b ha
    by_cases hx : isSpace x = true
    · obtain ⟨p', a3, h1, h2, h3⟩ := ih (x :: pre) b (fun y hy => ha y (by simp [hy]))
      exact ⟨p', a3, by simp [IS.skipSpaces, hx, h1], by simp; omega, h3⟩
    · exact ⟨pre, x :: a, by simp [IS.skipSpaces, hx], Nat.le_refl _, ha⟩

/-- the inner loop of the scan that ends at the first `;`, on any record tail `a ;` (parentheses and apostrophes allowed):
it ends at the `;` (put back), or behind the first `)` of `a` -/
theorem recoverInner_first_semi (a : List Byte) : ∀ (pre b : List Byte) (sk : Bool) (c : Byte) (q : Bool) (len steps fuel : Nat),
    (∀ x ∈ a, x ≠ chSemi) → c ≠ chRParen → a.length + 1 ≤ fuel →
    (∃ p' l' st', recoverInner true false fuel ⟨pre, a ++ chSemi :: b, false, false, sk⟩ c q len steps =
        .ok (⟨p', chSemi :: b, false, false, sk⟩, chSemi, q, true, l', st')) ∨
    (∃ p' a2 l' st', recoverInner true false fuel ⟨pre, a ++ chSemi :: b, false, false, sk⟩ c q len steps =
        .ok (⟨p', a2 ++ chSemi :: b, false, false, sk⟩, chRParen, q, false, l', st') ∧ a2.length < a.length ∧ (∀ x ∈ a2, x ≠ chSemi)) := by
  induction a with
  | nil =>
    intro pre b sk c q len steps fuel _ hc hf
    obtain ⟨f, rfl⟩ : ∃ f, fuel = f + 1 := ⟨fuel - 1, by omega⟩
    left
    refine ⟨pre, len + 1, steps + 1, ?_⟩
    unfold recoverInner
    simp [IS.good, IS.get, IS.putback, hc]
  | cons x a ih =>
    intro pre b sk c q len steps fuel ha hc hf
    obtain ⟨f, rfl⟩ : ∃ f, fuel = f + 1 := ⟨fuel - 1, by simp at hf; omega⟩
    have hx := ha x (by simp)
    have hget : IS.get ⟨pre, x :: (a ++ chSemi :: b), false, false, sk⟩ = (⟨x :: pre, a ++ chSemi :: b, false, false, sk⟩, some x) := by
      simp [IS.get, IS.good]
    by_cases hxp : x = chRParen
    · subst hxp
      right
      obtain ⟨f', rfl⟩ : ∃ f', f = f' + 1 := ⟨f - 1, by simp at hf; omega⟩
      refine ⟨chRParen :: pre, a, len + 1, steps + 1, ?_, by simp, fun y hy => ha y (by simp [hy])⟩
      unfold recoverInner
      simp only [List.cons_append, hget]
      simp [IS.good, hc, hx]
      unfold recoverInner
      simp [IS.good]
    · rcases ih (x :: pre) b sk x q (len + 1) (steps + 1) f (fun y hy => ha y (by simp [hy])) hxp (by simp at hf; omega) with
        ⟨p', l', st', h⟩ | ⟨p', a2, l', st', h, h2, h3⟩
      · left
        refine ⟨p', l', st', ?_⟩
        unfold recoverInner
        simp only [List.cons_append, hget]
        simp [IS.good, hc, hx, h]
      · right
        refine ⟨p', a2, l', st', ?_, by simp; omega, h3⟩
        unfold recoverInner
        simp only [List.cons_append, hget]
        simp [IS.good, hc, hx, h]

/-- the scan that ends at the first `;` never reads past it: on **any** record tail `a ;` — parentheses, apostrophes, white
space, whatever character `c` the read gave up on — it ends with the `;` next on a good stream -/
theorem recoverOuter_first_semi (b : List Byte) (sk : Bool) : ∀ (fuel : Nat) (a pre : List Byte) (c : Byte) (q : Bool) (len steps : Nat),
    (∀ x ∈ a, x ≠ chSemi) → a.length + 2 ≤ fuel →
    ∃ p' l' st', recoverOuter true false true fuel ⟨pre, a ++ chSemi :: b, false, false, sk⟩ c q len steps =
      .ok ⟨⟨p', chSemi :: b, false, false, sk⟩, 1, l', st'⟩ := by
  intro fuel
  induction fuel with
  | zero => intro a pre c q len steps _ h; omega
  | succ f ih =>
    intro a pre c q len steps ha hf
    -- after a `)`: white space, one character
    have after : ∀ (p1 a2 : List Byte) (q1 : Bool) (l1 st1 : Nat), (∀ x ∈ a2, x ≠ chSemi) → a2.length ≤ a.length →
        ∃ p' l' st',
          (if ((IS.ws ⟨p1, a2 ++ chSemi :: b, false, false, sk⟩).get).2.getD chRParen = chSemi then
            Out.ok (⟨if true = true then ((IS.ws ⟨p1, a2 ++ chSemi :: b, false, false, sk⟩).get).1.putback chSemi
                     else ((IS.ws ⟨p1, a2 ++ chSemi :: b, false, false, sk⟩).get).1, 1, l1 + 1, st1 + 1⟩ : LoopRes)
          else recoverOuter true false true f ((IS.ws ⟨p1, a2 ++ chSemi :: b, false, false, sk⟩).get).1
            (((IS.ws ⟨p1, a2 ++ chSemi :: b, false, false, sk⟩).get).2.getD chRParen)
            (if (true && false && ((IS.ws ⟨p1, a2 ++ chSemi :: b, false, false, sk⟩).get).1.good &&
                decide (((IS.ws ⟨p1, a2 ++ chSemi :: b, false, false, sk⟩).get).2.getD chRParen = chQuote)) = true then !q1 else q1)
            (l1 + 1) (st1 + 1)) = .ok ⟨⟨p', chSemi :: b, false, false, sk⟩, 1, l', st'⟩ := by
      intro p1 a2 q1 l1 st1 h2 hl2
      obtain ⟨p2, a3, hsp, hl3, h3⟩ := skipSpaces_semi a2 p1 b h2
      have hws : IS.ws ⟨p1, a2 ++ chSemi :: b, false, false, sk⟩ = ⟨p2, a3 ++ chSemi :: b, false, false, sk⟩ := by
        simp [IS.ws, IS.good, hsp]
      rw [hws]
      cases a3 with
      | nil =>
        refine ⟨p2, l1 + 1, st1 + 1, ?_⟩
        simp [IS.get, IS.good, IS.putback]
      | cons y a4 =>
        have hy := h3 y (by simp)
        have hg : IS.get ⟨p2, (y :: a4) ++ chSemi :: b, false, false, sk⟩ = (⟨y :: p2, a4 ++ chSemi :: b, false, false, sk⟩, some y) := by
          simp [IS.get, IS.good]
        rw [hg]
        simp only [Option.getD_some, hy, if_false, Bool.and_false, Bool.false_and, Bool.false_eq_true]
        exact ih a4 (y :: p2) y q1 (l1 + 1) (st1 + 1) (fun z hz => h3 z (by simp [hz])) (by simp at hl3; omega)
    unfold recoverOuter
    simp only [IS.good, Bool.not_false, Bool.and_self, Bool.not_true, Bool.false_eq_true, if_false]
    by_cases hc : c = chRParen
    · subst hc
      have hin : recoverInner true false (f + 1) ⟨pre, a ++ chSemi :: b, false, false, sk⟩ chRParen q len steps =
          .ok (⟨pre, a ++ chSemi :: b, false, false, sk⟩, chRParen, q, false, len, steps) := by
        unfold recoverInner; simp [IS.good]
      rw [hin]
      simp only [IS.good, Bool.not_false, Bool.and_self, Bool.false_eq_true, if_false, beq_self_eq_true, if_true, Bool.true_and]
      exact after pre a q len steps ha (Nat.le_refl _)
    · rcases recoverInner_first_semi a pre b sk c q len steps (f + 1) ha hc (by omega) with ⟨p', l', st', h⟩ | ⟨p', a2, l', st', h, h2, h3⟩
      · rw [h]
        exact ⟨p', l', st', by simp⟩
      · rw [h]
        simp only [IS.good, Bool.not_false, Bool.and_self, Bool.false_eq_true, if_false, beq_self_eq_true, if_true, Bool.true_and]
        exact after p' a2 q l' st' h3 (by omega)

/-- without it: when no `)` follows, the inner loop reads to the end of the input -/
theorem recoverInner_runs_on (rest : List Byte) : ∀ (pre : List Byte) (sk : Bool) (c : Byte) (q : Bool) (len steps fuel : Nat),
    (∀ x ∈ rest, x ≠ chRParen) → c ≠ chRParen → rest.length + 2 ≤ fuel →
    ∃ c', recoverInner false false fuel ⟨pre, rest, false, false, sk⟩ c q len steps =
      .ok (⟨rest.reverse ++ pre, [], true, true, sk⟩, c', q, false, len + rest.length + 1, steps + rest.length + 1) := by
  induction rest with
  | nil =>
    intro pre sk c q len steps fuel _ hc hf
    obtain ⟨f, rfl⟩ : ∃ f, fuel = f + 2 := ⟨fuel - 2, by simp at hf; omega⟩
    refine ⟨c, ?_⟩
    unfold recoverInner
    simp [IS.good, IS.get, hc]
    unfold recoverInner
    simp [IS.good]
  | cons x r ih =>
    intro pre sk c q len steps fuel hr hc hf
    obtain ⟨f, rfl⟩ : ∃ f, fuel = f + 1 := ⟨fuel - 1, by simp at hf; omega⟩
    have hx := hr x (by simp)
    obtain ⟨c', hc'⟩ := ih (x :: pre) sk x q (len + 1) (steps + 1) f (fun y hy => hr y (by simp [hy])) hx (by simp at hf; omega)
    refine ⟨c', ?_⟩
    have hget : IS.get ⟨pre, x :: r, false, false, sk⟩ = (⟨x :: pre, r, false, false, sk⟩, some x) := by
      simp [IS.get, IS.good]
    unfold recoverInner
    simp only [hget]
    simp [IS.good, hc, hc']
    omega

end StepModel.P21Safe

import StepModel.ComplexSafeTop
/-!
# The OR-free fragment of the matcher: `matchNonORs` on SimpleList / AndList / AndOrList, marks tracked

State made explicit: `Mk es n` — request member `n` carries a mark; `placed t` — the names whose mark the sub-list `t`
set itself (`I_marked = MARK`).  Specification of `unmarkAll` (removes exactly the marks `placed`) and of `matchNonORs`
(sets marks exactly on the cover of a satisfied list, also through `AndOrList`'s early return; an UNSATISFIED list may
leave marks behind, which the ANDOR parent removes with `unmarkAll`).
-/
namespace StepModel.Complex.Match
open StepModel.Generated StepModel.Complex

/-- request member `n` carries a mark -/
def Mk (es : Ents) (n : Name) : Prop := ∃ e ∈ es, e.name = n ∧ e.mark ≠ .no

structure EntsOK (es : Ents) : Prop where
  sorted : (names es).Pairwise (· < ·)
  two : ∀ e ∈ es, e.mark = .no ∨ e.mark = .mk

theorem names_nodup {es : Ents} (h : EntsOK es) : (names es).Nodup := by
  have := h.sorted
  exact this.imp (fun hlt => Nat.ne_of_lt hlt)

theorem getElem?_name {es : Ents} {i : Nat} {e : ENode} (h : es[i]? = some e) : (names es)[i]? = some e.name := by
  simp [names, h]

/-- in a request list with distinct names the node with a given name is unique -/
theorem node_unique {es : Ents} (hn : (names es).Nodup) {i j : Nat} {a b : ENode}
    (ha : es[i]? = some a) (hb : es[j]? = some b) (hab : a.name = b.name) : i = j := by
  have h1 := getElem?_name ha
  have h2 := getElem?_name hb
  rw [hab] at h1
  have hi : i < (names es).length := (List.getElem?_eq_some_iff.mp h1).1
  have hj : j < (names es).length := (List.getElem?_eq_some_iff.mp h2).1
  have e1 : (names es)[i] = b.name := (List.getElem?_eq_some_iff.mp h1).2
  have e2 : (names es)[j] = b.name := (List.getElem?_eq_some_iff.mp h2).2
  have hp := List.pairwise_iff_getElem.mp hn
  rcases Nat.lt_trichotomy i j with h | h | h
  · exact absurd (e1.trans e2.symm) (hp i j hi hj h)
  · exact h
  · exact absurd (e2.trans e1.symm) (hp j i hj hi h)

theorem mem_of_getElem?' {es : Ents} {i : Nat} {e : ENode} (h : es[i]? = some e) : e ∈ es := List.mem_of_getElem? h

theorem Mk_setMark {es : Ents} (hn : (names es).Nodup) {i : Nat} {e : ENode} (he : es[i]? = some e) (m : Mark) (x : Name) :
    Mk (setMark es i m) x ↔ (x = e.name ∧ m ≠ .no) ∨ (x ≠ e.name ∧ Mk es x) := by
  have hl : i < es.length := (List.getElem?_eq_some_iff.mp he).1
  unfold setMark
  rw [he]
  constructor
  · rintro ⟨a, ha, hax, ham⟩
    obtain ⟨j, hj⟩ := List.getElem?_of_mem ha
    rw [List.getElem?_set] at hj
    split at hj
    · rename_i hij
      simp only [hl, if_true, Option.some.injEq] at hj
      subst hj; exact Or.inl ⟨hax.symm, ham⟩
    · rename_i hij
      by_cases hxe : x = e.name
      · exfalso
        have := node_unique hn hj he (by rw [hax, hxe])
        exact hij this.symm
      · exact Or.inr ⟨hxe, a, mem_of_getElem?' hj, hax, ham⟩
  · rintro (⟨hx, hm⟩ | ⟨hx, a, ha, hax, ham⟩)
    · exact ⟨{ e with mark := m }, List.mem_of_getElem? (by simp [hl] : (es.set i { e with mark := m })[i]? = some _), hx.symm, hm⟩
    · obtain ⟨j, hj⟩ := List.getElem?_of_mem ha
      have hij : i ≠ j := by
        intro h; subst h; rw [he] at hj; cases hj; exact hx hax.symm
      exact ⟨a, List.mem_of_getElem? (by rw [List.getElem?_set_ne hij]; exact hj : (es.set i { e with mark := m })[j]? = some a), hax, ham⟩

theorem EntsOK_setMark {es : Ents} (h : EntsOK es) (i : Nat) (m : Mark) (hm : m = .no ∨ m = .mk) : EntsOK (setMark es i m) := by
  refine ⟨by rw [names_setMark]; exact h.sorted, ?_⟩
  intro a ha
  unfold setMark at ha
  cases he : es[i]? with
  | none => rw [he] at ha; exact h.two a ha
  | some e =>
    rw [he] at ha
    rcases List.mem_or_eq_of_mem_set ha with h1 | h1
    · exact h.two a h1
    · subst h1; exact hm

theorem allMarked_iff {es : Ents} (hn : (names es).Nodup) : allMarked es = true ↔ ∀ n ∈ names es, Mk es n := by
  simp only [allMarked, List.all_eq_true, decide_eq_true_eq, names, List.mem_map]
  constructor
  · rintro h n ⟨e, he, rfl⟩; exact ⟨e, he, rfl, h e he⟩
  · intro h e he
    obtain ⟨a, ha, han, ham⟩ := h e.name ⟨e, he, rfl⟩
    obtain ⟨i, hi⟩ := List.getElem?_of_mem ha
    obtain ⟨j, hj⟩ := List.getElem?_of_mem he
    have := node_unique hn hi hj han
    subst this
    rw [hi] at hj; cases hj; exact ham


-- ------------------------------------------------------------------ the strcmp walks on an ascending request list
theorem findEq_sorted (n : Name) : ∀ (es : Ents) (k : Nat), (names es).Pairwise (· < ·) → n ∈ names es →
    ∃ j e, findEq n es k = some (k + j) ∧ es[j]? = some e ∧ e.name = n := by
  intro es
  induction es with
  | nil => intro k _ h; simp [names] at h
  | cons a as ih =>
    intro k hs hm
    simp only [names, List.map_cons, List.pairwise_cons] at hs
    unfold findEq
    by_cases h1 : a.name = n
    · exact ⟨0, a, by simp [h1], by simp, h1⟩
    · simp only [h1, if_false]
      have hm' : n ∈ names as := by
        simp only [names, List.map_cons, List.mem_cons] at hm
        rcases hm with h | h
        · exact absurd h.symm h1
        · exact h
      have hlt : a.name < n := hs.1 n hm'
      have : ¬ n < a.name := Nat.lt_asymm hlt
      simp only [this, if_false]
      obtain ⟨j, e, hj, he, hen⟩ := ih (k + 1) hs.2 hm'
      exact ⟨j + 1, e, by rw [hj]; congr 1; omega, by simpa using he, hen⟩

theorem findEq_none_of_not_mem (n : Name) (es : Ents) (h : n ∉ names es) : findEq n es 0 = none := by
  cases hf : findEq n es 0 with
  | none => rfl
  | some i =>
    obtain ⟨_, e, he, hen⟩ := findEq_bound n es 0 i hf
    exact absurd (by rw [← hen]; exact List.mem_map_of_mem (List.mem_of_getElem? he) : n ∈ names es) h

theorem findGe_sorted (n : Name) : ∀ (es : Ents) (k : Nat), (names es).Pairwise (· < ·) → n ∈ names es →
    ∃ j e, findGe n es k = some (k + j) ∧ es[j]? = some e ∧ e.name = n := by
  intro es
  induction es with
  | nil => intro k _ h; simp [names] at h
  | cons a as ih =>
    intro k hs hm
    simp only [names, List.map_cons, List.pairwise_cons] at hs
    unfold findGe
    by_cases h1 : a.name < n
    · simp only [h1, if_true]
      have hm' : n ∈ names as := by
        simp only [names, List.map_cons, List.mem_cons] at hm
        rcases hm with h | h
        · rw [h] at h1; exact absurd h1 (Nat.lt_irrefl _)
        · exact h
      obtain ⟨j, e, hj, he, hen⟩ := ih (k + 1) hs.2 hm'
      exact ⟨j + 1, e, by rw [hj]; congr 1; omega, by simpa using he, hen⟩
    · simp only [h1, if_false]
      refine ⟨0, a, by simp, by simp, ?_⟩
      simp only [names, List.map_cons, List.mem_cons] at hm
      rcases hm with h | h
      · exact h.symm
      · exact absurd (hs.1 n h) h1

theorem not_Mk_of_mark_no {es : Ents} (hn : (names es).Nodup) {i : Nat} {e : ENode} (he : es[i]? = some e)
    (hm : e.mark = .no) : ¬ Mk es e.name := by
  rintro ⟨a, ha, han, ham⟩
  obtain ⟨j, hj⟩ := List.getElem?_of_mem ha
  have := node_unique hn hj he han
  subst this
  rw [he] at hj; cases hj; exact ham hm

theorem Mk_iff_mark {es : Ents} (hn : (names es).Nodup) {i : Nat} {e : ENode} (he : es[i]? = some e) :
    Mk es e.name ↔ e.mark ≠ .no := by
  constructor
  · intro h hm; exact not_Mk_of_mark_no hn he hm h
  · intro h; exact ⟨e, List.mem_of_getElem? he, rfl, h⟩

theorem Mk_mem_names {es : Ents} {x : Name} (h : Mk es x) : x ∈ names es := by
  obtain ⟨a, ha, han, _⟩ := h
  rw [← han]; exact List.mem_map_of_mem ha

/-- `SimpleList::matchNonORs` on a fresh SimpleList whose name is not marked yet -/
theorem simpleMatch_spec {es : Ents} (hok : EntsOK es) (n : Name) (hnm : ¬ Mk es n) :
    (n ∉ names es ∧ simpleMatchNonORs n .no es = (.simple n .unsat .no, es, .unsat)) ∨
    (n ∈ names es ∧ ∃ es' r, simpleMatchNonORs n .no es = (.simple n r .mk, es', r) ∧ EntsOK es' ∧ names es' = names es ∧
      (∀ x, Mk es' x ↔ x = n ∨ Mk es x) ∧ (r = .all ∨ r = .some_) ∧ (r = .all ↔ allMarked es' = true)) := by
  have hnd := names_nodup hok
  by_cases hm : n ∈ names es
  · right
    refine ⟨hm, ?_⟩
    obtain ⟨j, e, hj, he, hen⟩ := findEq_sorted n es 0 hok.sorted hm
    simp only [Nat.zero_add] at hj
    have hmark : e.mark = .no := by
      cases hmk : e.mark with
      | no => rfl
      | orm => exact absurd ⟨e, List.mem_of_getElem? he, hen, by rw [hmk]; simp⟩ hnm
      | mk => exact absurd ⟨e, List.mem_of_getElem? he, hen, by rw [hmk]; simp⟩ hnm
    have hMk : ∀ x, Mk (setMark es j .mk) x ↔ x = n ∨ Mk es x := by
      intro x
      rw [Mk_setMark hnd he .mk x, hen]
      constructor
      · rintro (⟨h, _⟩ | ⟨_, h⟩)
        · exact Or.inl h
        · exact Or.inr h
      · rintro (h | h)
        · exact Or.inl ⟨h, by simp⟩
        · by_cases hx : x = n
          · exact Or.inl ⟨hx, by simp⟩
          · exact Or.inr ⟨hx, h⟩
    unfold simpleMatchNonORs
    simp only [hj, he, hmark]
    by_cases hall : allMarked (setMark es j .mk) = true
    · refine ⟨setMark es j .mk, .all, by simp [hall], EntsOK_setMark hok j .mk (Or.inr rfl), names_setMark es j .mk, hMk,
        Or.inl rfl, by simp [hall]⟩
    · refine ⟨setMark es j .mk, .some_, by simp [hall], EntsOK_setMark hok j .mk (Or.inr rfl), names_setMark es j .mk, hMk,
        Or.inr rfl, by simp [hall]⟩
  · left
    refine ⟨hm, ?_⟩
    unfold simpleMatchNonORs
    rw [findEq_none_of_not_mem n es hm]


-- ------------------------------------------------------------------ who set which mark
mutual
  /-- the names whose mark this sub-list set itself (`I_marked = MARK`) -/
  def placed : ST → List Name
    | .simple n _ im => if im = .mk then [n] else []
    | .mult _ _ _ _ _ cs => placedL cs
  def placedL : List ST → List Name
    | [] => []
    | c :: cs => placed c ++ placedL cs
end

mutual
  /-- OR-free, no ORMARK, and a SimpleList that set a mark has viable ≥ MATCHSOME -/
  def POK : ST → Prop
    | .simple _ v im => (im = .mk → 3 ≤ v.rank) ∧ im ≠ .orm
    | .mult j _ _ _ _ cs => j ≠ .or ∧ POKL cs
  def POKL : List ST → Prop
    | [] => True
    | c :: cs => POK c ∧ POKL cs
end

theorem placed_simple_no (n : Name) (v : MT) : placed (.simple n v .no) = [] := rfl
theorem placed_simple_mk (n : Name) (v : MT) : placed (.simple n v .mk) = [n] := rfl
theorem POK_simple_no (n : Name) (v : MT) : POK (.simple n v .no) :=
  ⟨fun h => (by cases h), fun h => (by cases h)⟩

theorem placedL_append (a b : List ST) : placedL (a ++ b) = placedL a ++ placedL b := by
  induction a with
  | nil => simp [placedL]
  | cons c a ih => simp [placedL, ih]

theorem POKL_append {a b : List ST} (ha : POKL a) (hb : POKL b) : POKL (a ++ b) := by
  induction a with
  | nil => simpa using hb
  | cons c a ih => exact ⟨ha.1, ih ha.2⟩

def UPost' (t : ST) (es : Ents) (r : ST × Ents) : Prop :=
  EntsOK r.2 ∧ names r.2 = names es ∧ (∀ x, Mk r.2 x ↔ Mk es x ∧ x ∉ placed t) ∧ placed r.1 = [] ∧ POK r.1 ∧
  r.1.viable = t.viable

def ULPost' (cs : List ST) (es : Ents) (r : List ST × Ents) : Prop :=
  EntsOK r.2 ∧ names r.2 = names es ∧ (∀ x, Mk r.2 x ↔ Mk es x ∧ x ∉ placedL cs) ∧ placedL r.1 = [] ∧ POKL r.1 ∧
  r.1.map ST.viable = cs.map ST.viable

theorem simpleUnmark_spec' {es : Ents} (hok : EntsOK es) (n : Name) (v : MT) (im : Mark) (hp : POK (.simple n v im))
    (hin : ∀ x ∈ placed (.simple n v im), x ∈ names es) (r : ST × Ents) (h : simpleUnmark n v im es = .ok r) :
    UPost' (.simple n v im) es r := by
  have hnd := names_nodup hok
  obtain ⟨hp1, hp2⟩ := hp
  unfold simpleUnmark at h
  split at h
  · rename_i hv
    cases h
    have him : im = .no := by
      cases im with
      | no => rfl
      | orm => exact absurd rfl hp2
      | mk => have := hp1 rfl; have h3 : MT.rank .some_ = 3 := rfl; rw [h3] at hv; omega
    subst him
    exact ⟨hok, rfl, fun x => by rw [placed_simple_no]; simp, placed_simple_no n v, ⟨hp1, hp2⟩, rfl⟩
  · cases im with
    | orm => exact absurd rfl hp2
    | mk =>
      have hm : n ∈ names es := hin n (by rw [placed_simple_mk]; simp)
      obtain ⟨j, e, hj, he, hen⟩ := findGe_sorted n es 0 hok.sorted hm
      simp only [Nat.zero_add] at hj
      rw [hj] at h
      simp only [he] at h
      have hle : e.mark.rank ≤ Mark.mk.rank := by cases e.mark <;> simp [Mark.rank]
      simp only [hle, if_true] at h
      cases h
      refine ⟨EntsOK_setMark hok j .no (Or.inl rfl), names_setMark es j .no, fun x => ?_, placed_simple_no n v,
        POK_simple_no n v, rfl⟩
      rw [Mk_setMark hnd he .no x, hen, placed_simple_mk]
      simp only [List.mem_singleton]
      constructor
      · rintro (⟨_, h'⟩ | ⟨h1, h2⟩)
        · exact absurd rfl h'
        · exact ⟨h2, h1⟩
      · rintro ⟨h1, h2⟩; exact Or.inr ⟨h2, h1⟩
    | no =>
      split at h
      · cases h
      · rename_i i hi
        split at h
        · cases h
        · rename_i e he
          cases h
          refine ⟨?_, ?_, fun x => ?_, placed_simple_no n v, POK_simple_no n v, rfl⟩
          · show EntsOK (if _ then _ else _)
            split
            · exact EntsOK_setMark hok i .no (Or.inl rfl)
            · exact hok
          · show names (if _ then _ else _) = _
            split
            · exact names_setMark es i .no
            · rfl
          · show Mk (if _ then _ else _) x ↔ _
            rw [placed_simple_no]
            simp only [List.not_mem_nil, not_false_eq_true, and_true]
            split
            · rename_i hle
              have hmno : e.mark = .no := by
                cases hm : e.mark with
                | no => rfl
                | orm => rw [hm] at hle; simp [Mark.rank] at hle
                | mk => rw [hm] at hle; simp [Mark.rank] at hle
              rw [Mk_setMark hnd he .no x]
              constructor
              · rintro (⟨_, h'⟩ | ⟨_, h2⟩)
                · exact absurd rfl h'
                · exact h2
              · intro h2
                refine Or.inr ⟨?_, h2⟩
                intro hx; subst hx
                exact not_Mk_of_mark_no hnd he hmno h2
            · exact Iff.rfl


theorem bind_ok' {α β : Type} {x : Outcome α} {f : α → Outcome β} {r : β} (h : (x >>= f) = .ok r) :
    ∃ a, x = .ok a ∧ f a = .ok r := by
  cases x with
  | ok a => exact ⟨a, rfl, h⟩
  | crash c => cases h
  | outOfFuel => cases h

theorem unmark_orfree : ∀ f : Nat,
    (∀ t es r, unmarkAll f t es = .ok r → POK t → EntsOK es → (∀ x ∈ placed t, x ∈ names es) → UPost' t es r) ∧
    (∀ cs es r, unmarkList f cs es = .ok r → POKL cs → EntsOK es → (∀ x ∈ placedL cs, x ∈ names es) → ULPost' cs es r) := by
  intro f
  induction f with
  | zero => exact ⟨fun _ _ _ h => by simp [unmarkAll] at h, fun _ _ _ h => by simp [unmarkList] at h⟩
  | succ f ih =>
    obtain ⟨ih1, ih2⟩ := ih
    refine ⟨?_, ?_⟩
    · intro t es r h hp hok hin
      cases t with
      | simple n v im =>
        simp only [unmarkAll] at h
        exact simpleUnmark_spec' hok n v im hp hin r h
      | mult j v c c1 k cs =>
        have hpl : POKL cs := hp.2
        cases j with
        | or => exact absurd rfl hp.1
        | and =>
          simp only [unmarkAll] at h
          obtain ⟨⟨cs', es'⟩, h1, h2⟩ := bind_ok' h
          cases h2
          obtain ⟨a1, a2, a3, a4, a5, _⟩ := ih2 cs es _ h1 hpl hok hin
          exact ⟨a1, a2, a3, a4, ⟨hp.1, a5⟩, rfl⟩
        | andor =>
          simp only [unmarkAll] at h
          obtain ⟨⟨cs', es'⟩, h1, h2⟩ := bind_ok' h
          cases h2
          obtain ⟨a1, a2, a3, a4, a5, _⟩ := ih2 cs es _ h1 hpl hok hin
          exact ⟨a1, a2, a3, a4, ⟨hp.1, a5⟩, rfl⟩
    · intro cs es r h hp hok hin
      cases cs with
      | nil =>
        simp only [unmarkList] at h; cases h
        exact ⟨hok, rfl, fun x => by simp [placedL], rfl, trivial, rfl⟩
      | cons ch rest =>
        simp only [unmarkList] at h
        obtain ⟨⟨ch', es1⟩, h1, h2⟩ := bind_ok' h
        obtain ⟨⟨rest', es2⟩, h3, h4⟩ := bind_ok' h2
        cases h4
        have hin1 : ∀ x ∈ placed ch, x ∈ names es := fun x hx => hin x (by simp [placedL, hx])
        obtain ⟨a1, a2, a3, a4, a5, a6⟩ := ih1 ch es _ h1 hp.1 hok hin1
        have hin2 : ∀ x ∈ placedL rest, x ∈ names es1 := fun x hx => by
          rw [a2]; exact hin x (by simp [placedL, hx])
        obtain ⟨b1, b2, b3, b4, b5, b6⟩ := ih2 rest es1 _ h3 hp.2 a1 hin2
        refine ⟨b1, b2.trans a2, fun x => ?_, by simp [placedL, a4, b4], ⟨a5, b5⟩, by simp [a6, b6]⟩
        rw [b3 x, a3 x]
        simp only [placedL, List.mem_append, not_or, and_assoc]


-- ------------------------------------------------------------------ satisfied lists and their cover (request = `N`)
mutual
  /-- the list's requirements are met by the request -/
  def satT (N : List Name) : Tree → Bool
    | .simple n => N.contains n
    | .and cs => satAll N cs
    | .andor cs => satAny N cs
    | .or _ => false
  def satAll (N : List Name) : List Tree → Bool
    | [] => true
    | c :: cs => satT N c && satAll N cs
  def satAny (N : List Name) : List Tree → Bool
    | [] => false
    | c :: cs => satT N c || satAny N cs
end

mutual
  /-- the request members a satisfied list accounts for -/
  def covT (N : List Name) : Tree → List Name
    | .simple n => [n]
    | .and cs => covAll N cs
    | .andor cs => covSat N cs
    | .or _ => []
  def covAll (N : List Name) : List Tree → List Name
    | [] => []
    | c :: cs => covT N c ++ covAll N cs
  def covSat (N : List Name) : List Tree → List Name
    | [] => []
    | c :: cs => (if satT N c then covT N c else []) ++ covSat N cs
end

mutual
  def orFree : Tree → Bool
    | .simple _ => true
    | .and cs => orFreeL cs
    | .andor cs => orFreeL cs
    | .or _ => false
  def orFreeL : List Tree → Bool
    | [] => true
    | c :: cs => orFree c && orFreeL cs
end

-- ------------------------------------------------------------------ `JoinList::setViableVal` on lists without UNKNOWN children
theorem go_and (es : Ents) : ∀ (cs : List ST) (v : MT),
    (∀ c ∈ cs, c.viable = .some_ ∨ c.viable = .all) → (v = .unknown ∨ v = .some_ ∨ v = .all) → (cs ≠ [] ∨ v ≠ .unknown) →
    (setViableVal.go es v cs = .some_ ∨ setViableVal.go es v cs = .all) ∧
    (setViableVal.go es v cs = .all ↔ (v = .all ∨ ∃ c ∈ cs, c.viable = .all) ∧ allMarked es = true) := by
  intro cs
  induction cs with
  | nil =>
    intro v _ hv hne
    have hv' : v = .some_ ∨ v = .all := by
      rcases hv with h | h | h
      · rcases hne with h' | h'
        · exact absurd rfl h'
        · exact absurd h h'
      · exact Or.inl h
      · exact Or.inr h
    simp only [setViableVal.go]
    rcases hv' with h | h <;> subst h
    · simp
    · by_cases ha : allMarked es = true <;> simp [ha]
  | cons c cs ih =>
    intro v hc hv _
    have hcv := hc c (by simp)
    have hrest : ∀ c' ∈ cs, c'.viable = .some_ ∨ c'.viable = .all := fun c' h => hc c' (List.mem_cons_of_mem _ h)
    have hcu : c.viable ≠ .unknown := by rcases hcv with h | h <;> rw [h] <;> simp
    simp only [setViableVal.go, hcu, if_false]
    -- the new running maximum
    have key : ∀ v', (v' = .some_ ∨ v' = .all) → (v' = .all ↔ v = .all ∨ c.viable = .all) →
        (setViableVal.go es v' cs = .some_ ∨ setViableVal.go es v' cs = .all) ∧
        (setViableVal.go es v' cs = .all ↔ (v = .all ∨ ∃ c' ∈ c :: cs, c'.viable = .all) ∧ allMarked es = true) := by
      intro v' hv' hiff
      obtain ⟨h1, h2⟩ := ih v' hrest (Or.inr hv') (Or.inr (by rcases hv' with h | h <;> rw [h] <;> simp))
      refine ⟨h1, ?_⟩
      rw [h2, hiff]
      simp only [List.mem_cons, exists_eq_or_imp]
      constructor
      · rintro ⟨(h | h) | h, ha⟩
        · exact ⟨Or.inl h, ha⟩
        · exact ⟨Or.inr (Or.inl h), ha⟩
        · exact ⟨Or.inr (Or.inr h), ha⟩
      · rintro ⟨h | h | h, ha⟩
        · exact ⟨Or.inl (Or.inl h), ha⟩
        · exact ⟨Or.inl (Or.inr h), ha⟩
        · exact ⟨Or.inr h, ha⟩
    rcases hv with h | h | h <;> rcases hcv with h' | h' <;> subst h <;> rw [h']
    all_goals first
      | (have := key .some_ (Or.inl rfl) (by simp [h']); simpa [MT.rank, h'] using this)
      | (have := key .all (Or.inr rfl) (by simp [h']); simpa [MT.rank, h'] using this)

theorem setViableVal_and (cs : List ST) (es : Ents) (hne : cs ≠ [])
    (hc : ∀ c ∈ cs, c.viable = .some_ ∨ c.viable = .all) :
    (setViableVal cs es = .some_ ∨ setViableVal cs es = .all) ∧
    (setViableVal cs es = .all ↔ (∃ c ∈ cs, c.viable = .all) ∧ allMarked es = true) := by
  have := go_and es cs .unknown hc (Or.inl rfl) (Or.inl hne)
  simpa [setViableVal] using this


theorem go_andor (es : Ents) : ∀ (cs : List ST) (v : MT),
    (∀ c ∈ cs, c.viable = .unsat ∨ c.viable = .some_) → (v = .unknown ∨ v = .unsat ∨ v = .some_) → (cs ≠ [] ∨ v ≠ .unknown) →
    (setViableVal.go es v cs = .unsat ∨ setViableVal.go es v cs = .some_) ∧
    (setViableVal.go es v cs = .some_ ↔ (v = .some_ ∨ ∃ c ∈ cs, c.viable = .some_)) := by
  intro cs
  induction cs with
  | nil =>
    intro v _ hv hne
    simp only [setViableVal.go]
    rcases hv with h | h | h
    · rcases hne with h' | h'
      · exact absurd rfl h'
      · exact absurd h h'
    · subst h; simp
    · subst h; simp
  | cons c cs ih =>
    intro v hc hv _
    have hcv := hc c (by simp)
    have hrest : ∀ c' ∈ cs, c'.viable = .unsat ∨ c'.viable = .some_ := fun c' h => hc c' (List.mem_cons_of_mem _ h)
    have hcu : c.viable ≠ .unknown := by rcases hcv with h | h <;> rw [h] <;> simp
    simp only [setViableVal.go, hcu, if_false]
    have key : ∀ v', (v' = .unsat ∨ v' = .some_) → (v' = .some_ ↔ v = .some_ ∨ c.viable = .some_) →
        (setViableVal.go es v' cs = .unsat ∨ setViableVal.go es v' cs = .some_) ∧
        (setViableVal.go es v' cs = .some_ ↔ (v = .some_ ∨ ∃ c' ∈ c :: cs, c'.viable = .some_)) := by
      intro v' hv' hiff
      obtain ⟨h1, h2⟩ := ih v' hrest (Or.inr hv') (Or.inr (by rcases hv' with h | h <;> rw [h] <;> simp))
      refine ⟨h1, ?_⟩
      rw [h2, hiff]
      simp only [List.mem_cons, exists_eq_or_imp]
      constructor
      · rintro ((h | h) | h)
        · exact Or.inl h
        · exact Or.inr (Or.inl h)
        · exact Or.inr (Or.inr h)
      · rintro (h | h | h)
        · exact Or.inl (Or.inl h)
        · exact Or.inl (Or.inr h)
        · exact Or.inr h
    rcases hv with h | h | h <;> rcases hcv with h' | h' <;> subst h <;> rw [h']
    all_goals first
      | (have := key .unsat (Or.inl rfl) (by simp [h']); simpa [MT.rank, h'] using this)
      | (have := key .some_ (Or.inr rfl) (by simp [h']); simpa [MT.rank, h'] using this)

theorem setViableVal_andor (cs : List ST) (es : Ents) (hne : cs ≠ [])
    (hc : ∀ c ∈ cs, c.viable = .unsat ∨ c.viable = .some_) :
    (setViableVal cs es = .unsat ∨ setViableVal cs es = .some_) ∧
    (setViableVal cs es = .some_ ↔ ∃ c ∈ cs, c.viable = .some_) := by
  have := go_andor es cs .unknown hc (Or.inl rfl) (Or.inl hne)
  simpa [setViableVal] using this


-- ------------------------------------------------------------------ facts about trees
theorem isOr_fresh {t : Tree} (h : orFree t = true) : (fresh t).isOr = false := by
  cases t <;> simp [fresh, ST.isOr, orFree] at h ⊢

mutual
  theorem fresh_POK : ∀ (t : Tree), orFree t = true → POK (fresh t) ∧ placed (fresh t) = []
    | .simple n, _ => ⟨POK_simple_no n .unknown, rfl⟩
    | .and cs, h => by
      simp only [orFree] at h
      obtain ⟨h1, h2⟩ := freshL_POK cs h
      exact ⟨⟨by simp, h1⟩, h2⟩
    | .andor cs, h => by
      simp only [orFree] at h
      obtain ⟨h1, h2⟩ := freshL_POK cs h
      exact ⟨⟨by simp, h1⟩, h2⟩
    | .or cs, h => by simp [orFree] at h
  theorem freshL_POK : ∀ (cs : List Tree), orFreeL cs = true → POKL (freshL cs) ∧ placedL (freshL cs) = []
    | [], _ => ⟨trivial, rfl⟩
    | c :: cs, h => by
      simp only [orFreeL, Bool.and_eq_true] at h
      obtain ⟨a1, a2⟩ := fresh_POK c h.1
      obtain ⟨b1, b2⟩ := freshL_POK cs h.2
      exact ⟨⟨a1, b1⟩, by simp [freshL, placedL, a2, b2]⟩
end

mutual
  theorem cov_sub_leaves (N : List Name) : ∀ (t : Tree), ∀ x ∈ covT N t, x ∈ leaves t
    | .simple n, x, hx => by simpa [covT, leaves] using hx
    | .and cs, x, hx => by simp only [covT] at hx; simp only [leaves]; exact covAll_sub N cs x hx
    | .andor cs, x, hx => by simp only [covT] at hx; simp only [leaves]; exact covSat_sub N cs x hx
    | .or cs, x, hx => by simp [covT] at hx
  theorem covAll_sub (N : List Name) : ∀ (cs : List Tree), ∀ x ∈ covAll N cs, x ∈ leavesL cs
    | [], x, hx => by simp [covAll] at hx
    | c :: cs, x, hx => by
      simp only [covAll, List.mem_append] at hx
      simp only [leavesL, List.mem_append]
      rcases hx with h | h
      · exact Or.inl (cov_sub_leaves N c x h)
      · exact Or.inr (covAll_sub N cs x h)
  theorem covSat_sub (N : List Name) : ∀ (cs : List Tree), ∀ x ∈ covSat N cs, x ∈ leavesL cs
    | [], x, hx => by simp [covSat] at hx
    | c :: cs, x, hx => by
      simp only [covSat, List.mem_append] at hx
      simp only [leavesL, List.mem_append]
      rcases hx with h | h
      · split at h
        · exact Or.inl (cov_sub_leaves N c x h)
        · cases h
      · exact Or.inr (covSat_sub N cs x h)
end

mutual
  /-- the cover of a satisfied list lies in the request and is not empty -/
  theorem cov_sat (N : List Name) : ∀ (t : Tree), satT N t = true → treeWF t = true →
      (∀ x ∈ covT N t, x ∈ N) ∧ covT N t ≠ []
    | .simple n, h, _ => by
      simp only [satT, List.contains_eq_mem, decide_eq_true_eq] at h
      exact ⟨fun x hx => by simp only [covT, List.mem_singleton] at hx; rw [hx]; exact h, by simp [covT]⟩
    | .and cs, h, hw => by
      simp only [satT] at h
      simp only [treeWF, Bool.and_eq_true, Bool.not_eq_true', List.isEmpty_eq_false_iff] at hw
      simp only [covT]
      exact covAll_sat N cs h hw.2 hw.1
    | .andor cs, h, hw => by
      simp only [satT] at h
      simp only [treeWF, Bool.and_eq_true, Bool.not_eq_true', List.isEmpty_eq_false_iff] at hw
      simp only [covT]
      exact covSat_sat N cs h hw.2
    | .or cs, h, _ => by simp [satT] at h
  theorem covAll_sat (N : List Name) : ∀ (cs : List Tree), satAll N cs = true → treeWFL cs = true → cs ≠ [] →
      (∀ x ∈ covAll N cs, x ∈ N) ∧ covAll N cs ≠ []
    | [], _, _, hne => absurd rfl hne
    | c :: cs, h, hw, _ => by
      simp only [satAll, Bool.and_eq_true] at h
      simp only [treeWFL, Bool.and_eq_true] at hw
      obtain ⟨a1, a2⟩ := cov_sat N c h.1 hw.1
      refine ⟨fun x hx => ?_, by simp [covAll, a2]⟩
      simp only [covAll, List.mem_append] at hx
      rcases hx with h1 | h1
      · exact a1 x h1
      · cases cs with
        | nil => simp [covAll] at h1
        | cons c' cs' => exact (covAll_sat N (c' :: cs') h.2 hw.2 (by simp)).1 x h1
  theorem covSat_sat (N : List Name) : ∀ (cs : List Tree), satAny N cs = true → treeWFL cs = true →
      (∀ x ∈ covSat N cs, x ∈ N) ∧ covSat N cs ≠ []
    | [], h, _ => by simp [satAny] at h
    | c :: cs, h, hw => by
      simp only [treeWFL, Bool.and_eq_true] at hw
      simp only [covSat]
      by_cases hc : satT N c = true
      · obtain ⟨a1, a2⟩ := cov_sat N c hc hw.1
        simp only [hc, if_true]
        refine ⟨fun x hx => ?_, by simp [a2]⟩
        rcases List.mem_append.mp hx with h1 | h1
        · exact a1 x h1
        · by_cases hr : satAny N cs = true
          · exact (covSat_sat N cs hr hw.2).1 x h1
          · exact covSat_in N cs hw.2 x h1
      · simp only [satAny, hc, Bool.false_or] at h
        simp only [hc, Bool.false_eq_true, if_false, List.nil_append]
        exact covSat_sat N cs h hw.2
  theorem covSat_in (N : List Name) : ∀ (cs : List Tree), treeWFL cs = true → ∀ x ∈ covSat N cs, x ∈ N
    | [], _, x, hx => by simp [covSat] at hx
    | c :: cs, hw, x, hx => by
      simp only [treeWFL, Bool.and_eq_true] at hw
      simp only [covSat, List.mem_append] at hx
      rcases hx with h | h
      · split at h
        · rename_i hc; exact (cov_sat N c hc hw.1).1 x h
        · cases h
      · exact covSat_in N cs hw.2 x h
end

end StepModel.Complex.Match

import StepModel.ComplexSafeTop
/-!
# The OR-free fragment of the matcher: `matchNonORs` on SimpleList / AndList / AndOrList, marks tracked

State made explicit: `Mk es n` — request member `n` carries a mark; `placed t` — the names whose mark the sub-list `t`
set itself (`I_marked = MARK`).  Specification of `unmarkAll` (removes exactly the marks `placed`) and of `matchNonORs`
(sets marks exactly on the cover of a satisfied list, also through `AndOrList`'s early return; an UNSATISFIED list may
leave marks behind, which the ANDOR parent removes with `unmarkAll`).
-/
namespace StepModel.Complex.Match
open StepModel.Generated StepModel.Complex

/-- request member `n` carries a mark -/
def Mk (es : Ents) (n : Name) : Prop := ∃ e ∈ es, e.name = n ∧ e.mark ≠ .no

structure EntsOK (es : Ents) : Prop where
  sorted : (names es).Pairwise (· < ·)
  two : ∀ e ∈ es, e.mark = .no ∨ e.mark = .mk

theorem names_nodup {es : Ents} (h : EntsOK es) : (names es).Nodup := by
  have := h.sorted
  exact this.imp (fun hlt => Nat.ne_of_lt hlt)

theorem getElem?_name {es : Ents} {i : Nat} {e : ENode} (h : es[i]? = some e) : (names es)[i]? = some e.name := by
  simp [names, h]

/-- in a request list with distinct names the node with a given name is unique -/
theorem node_unique {es : Ents} (hn : (names es).Nodup) {i j : Nat} {a b : ENode}
    (ha : es[i]? = some a) (hb : es[j]? = some b) (hab : a.name = b.name) : i = j := by
  have h1 := getElem?_name ha
  have h2 := getElem?_name hb
  rw [hab] at h1
  have hi : i < (names es).length := (List.getElem?_eq_some_iff.mp h1).1
  have hj : j < (names es).length := (List.getElem?_eq_some_iff.mp h2).1
  have e1 : (names es)[i] = b.name := (List.getElem?_eq_some_iff.mp h1).2
  have e2 : (names es)[j] = b.name := (List.getElem?_eq_some_iff.mp h2).2
  have hp := List.pairwise_iff_getElem.mp hn
  rcases Nat.lt_trichotomy i j with h | h | h
  · exact absurd (e1.trans e2.symm) (hp i j hi hj h)
  · exact h
  · exact absurd (e2.trans e1.symm) (hp j i hj hi h)

theorem mem_of_getElem?' {es : Ents} {i : Nat} {e : ENode} (h : es[i]? = some e) : e ∈ es := List.mem_of_getElem? h

theorem Mk_setMark {es : Ents} (hn : (names es).Nodup) {i : Nat} {e : ENode} (he : es[i]? = some e) (m : Mark) (x : Name) :
    Mk (setMark es i m) x ↔ (x = e.name ∧ m ≠ .no) ∨ (x ≠ e.name ∧ Mk es x) := by
  have hl : i < es.length := (List.getElem?_eq_some_iff.mp he).1
  unfold setMark
  rw [he]
  constructor
  · rintro ⟨a, ha, hax, ham⟩
    obtain ⟨j, hj⟩ := List.getElem?_of_mem ha
    rw [List.getElem?_set] at hj
    split at hj
    · rename_i hij
      simp only [hl, if_true, Option.some.injEq] at hj
      subst hj; exact Or.inl ⟨hax.symm, ham⟩
    · rename_i hij
      by_cases hxe : x = e.name
      · exfalso
        have := node_unique hn hj he (by rw [hax, hxe])
        exact hij this.symm
      · exact Or.inr ⟨hxe, a, mem_of_getElem?' hj, hax, ham⟩
  · rintro (⟨hx, hm⟩ | ⟨hx, a, ha, hax, ham⟩)
    · exact ⟨{ e with mark := m }, List.mem_of_getElem? (by simp [hl] : (es.set i { e with mark := m })[i]? = some _), hx.symm, hm⟩
    · obtain ⟨j, hj⟩ := List.getElem?_of_mem ha
      have hij : i ≠ j := by
        intro h; subst h; rw [he] at hj; cases hj; exact hx hax.symm
      exact ⟨a, List.mem_of_getElem? (by rw [List.getElem?_set_ne hij]; exact hj : (es.set i { e with mark := m })[j]? = some a), hax, ham⟩

theorem EntsOK_setMark {es : Ents} (h : EntsOK es) (i : Nat) (m : Mark) (hm : m = .no ∨ m = .mk) : EntsOK (setMark es i m) := by
  refine ⟨by rw [names_setMark]; exact h.sorted, ?_⟩
  intro a ha
  unfold setMark at ha
  cases he : es[i]? with
  | none => rw [he] at ha; exact h.two a ha
  | some e =>
    rw [he] at ha
    rcases List.mem_or_eq_of_mem_set ha with h1 | h1
    · exact h.two a h1
    · subst h1; exact hm

theorem allMarked_iff {es : Ents} (hn : (names es).Nodup) : allMarked es = true ↔ ∀ n ∈ names es, Mk es n := by
  simp only [allMarked, List.all_eq_true, decide_eq_true_eq, names, List.mem_map]
  constructor
  · rintro h n ⟨e, he, rfl⟩; exact ⟨e, he, rfl, h e he⟩
  · intro h e he
    obtain ⟨a, ha, han, ham⟩ := h e.name ⟨e, he, rfl⟩
    obtain ⟨i, hi⟩ := List.getElem?_of_mem ha
    obtain ⟨j, hj⟩ := List.getElem?_of_mem he
    have := node_unique hn hi hj han
    subst this
    rw [hi] at hj; cases hj; exact ham


-- ------------------------------------------------------------------ the strcmp walks on an ascending request list
theorem findEq_sorted (n : Name) : ∀ (es : Ents) (k : Nat), (names es).Pairwise (· < ·) → n ∈ names es →
    ∃ j e, findEq n es k = some (k + j) ∧ es[j]? = some e ∧ e.name = n := by
  intro es
  induction es with
  | nil => intro k _ h; simp [names] at h
  | cons a as ih =>
    intro k hs hm
    simp only [names, List.map_cons, List.pairwise_cons] at hs
    unfold findEq
    by_cases h1 : a.name = n
    · exact ⟨0, a, by simp [h1], by simp, h1⟩
    · simp only [h1, if_false]
      have hm' : n ∈ names as := by
        simp only [names, List.map_cons, List.mem_cons] at hm
        rcases hm with h | h
        · exact absurd h.symm h1
        · exact h
      have hlt : a.name < n := hs.1 n hm'
      have : ¬ n < a.name := Nat.lt_asymm hlt
      simp only [this, if_false]
      obtain ⟨j, e, hj, he, hen⟩ := ih (k + 1) hs.2 hm'
      exact ⟨j + 1, e, by rw [hj]; congr 1; omega, by simpa using he, hen⟩

theorem findEq_none_of_not_mem (n : Name) (es : Ents) (h : n ∉ names es) : findEq n es 0 = none := by
  cases hf : findEq n es 0 with
  | none => rfl
  | some i =>
    obtain ⟨_, e, he, hen⟩ := findEq_bound n es 0 i hf
    exact absurd (by rw [← hen]; exact List.mem_map_of_mem (List.mem_of_getElem? he) : n ∈ names es) h

theorem findGe_sorted (n : Name) : ∀ (es : Ents) (k : Nat), (names es).Pairwise (· < ·) → n ∈ names es →
    ∃ j e, findGe n es k = some (k + j) ∧ es[j]? = some e ∧ e.name = n := by
  intro es
  induction es with
  | nil => intro k _ h; simp [names] at h
  | cons a as ih =>
    intro k hs hm
    simp only [names, List.map_cons, List.pairwise_cons] at hs
    unfold findGe
    by_cases h1 : a.name < n
    · simp only [h1, if_true]
      have hm' : n ∈ names as := by
        simp only [names, List.map_cons, List.mem_cons] at hm
        rcases hm with h | h
        · rw [h] at h1; exact absurd h1 (Nat.lt_irrefl _)
        · exact h
      obtain ⟨j, e, hj, he, hen⟩ := ih (k + 1) hs.2 hm'
      exact ⟨j + 1, e, by rw [hj]; congr 1; omega, by simpa using he, hen⟩
    · simp only [h1, if_false]
      refine ⟨0, a, by simp, by simp, ?_⟩
      simp only [names, List.map_cons, List.mem_cons] at hm
      rcases hm with h | h
      · exact h.symm
      · exact absurd (hs.1 n h) h1

theorem not_Mk_of_mark_no {es : Ents} (hn : (names es).Nodup) {i : Nat} {e : ENode} (he : es[i]? = some e)
    (hm : e.mark = .no) : ¬ Mk es e.name := by
  rintro ⟨a, ha, han, ham⟩
  obtain ⟨j, hj⟩ := List.getElem?_of_mem ha
  have := node_unique hn hj he han
  subst this
  rw [he] at hj; cases hj; exact ham hm

theorem Mk_iff_mark {es : Ents} (hn : (names es).Nodup) {i : Nat} {e : ENode} (he : es[i]? = some e) :
    Mk es e.name ↔ e.mark ≠ .no := by
  constructor
  · intro h hm; exact not_Mk_of_mark_no hn he hm h
  · intro h; exact ⟨e, List.mem_of_getElem? he, rfl, h⟩

theorem Mk_mem_names {es : Ents} {x : Name} (h : Mk es x) : x ∈ names es := by
  obtain ⟨a, ha, han, _⟩ := h
  rw [← han]; exact List.mem_map_of_mem ha

/-- `SimpleList::matchNonORs` on a fresh SimpleList whose name is not marked yet -/
theorem simpleMatch_spec {es : Ents} (hok : EntsOK es) (n : Name) (hnm : ¬ Mk es n) :
    (n ∉ names es ∧ simpleMatchNonORs n .no es = (.simple n .unsat .no, es, .unsat)) ∨
    (n ∈ names es ∧ ∃ es' r, simpleMatchNonORs n .no es = (.simple n r .mk, es', r) ∧ EntsOK es' ∧ names es' = names es ∧
      (∀ x, Mk es' x ↔ x = n ∨ Mk es x) ∧ (r = .all ∨ r = .some_) ∧ (r = .all ↔ allMarked es' = true)) := by
  have hnd := names_nodup hok
  by_cases hm : n ∈ names es
  · right
    refine ⟨hm, ?_⟩
    obtain ⟨j, e, hj, he, hen⟩ := findEq_sorted n es 0 hok.sorted hm
    simp only [Nat.zero_add] at hj
    have hmark : e.mark = .no := by
      cases hmk : e.mark with
      | no => rfl
      | orm => exact absurd ⟨e, List.mem_of_getElem? he, hen, by rw [hmk]; simp⟩ hnm
      | mk => exact absurd ⟨e, List.mem_of_getElem? he, hen, by rw [hmk]; simp⟩ hnm
    have hMk : ∀ x, Mk (setMark es j .mk) x ↔ x = n ∨ Mk es x := by
      intro x
      rw [Mk_setMark hnd he .mk x, hen]
      constructor
      · rintro (⟨h, _⟩ | ⟨_, h⟩)
        · exact Or.inl h
        · exact Or.inr h
      · rintro (h | h)
        · exact Or.inl ⟨h, by simp⟩
        · by_cases hx : x = n
          · exact Or.inl ⟨hx, by simp⟩
          · exact Or.inr ⟨hx, h⟩
    unfold simpleMatchNonORs
    simp only [hj, he, hmark]
    by_cases hall : allMarked (setMark es j .mk) = true
    · refine ⟨setMark es j .mk, .all, by simp [hall], EntsOK_setMark hok j .mk (Or.inr rfl), names_setMark es j .mk, hMk,
        Or.inl rfl, by simp [hall]⟩
    · refine ⟨setMark es j .mk, .some_, by simp [hall], EntsOK_setMark hok j .mk (Or.inr rfl), names_setMark es j .mk, hMk,
        Or.inr rfl, by simp [hall]⟩
  · left
    refine ⟨hm, ?_⟩
    unfold simpleMatchNonORs
    rw [findEq_none_of_not_mem n es hm]


-- ------------------------------------------------------------------ who set which mark
mutual
  /-- the names whose mark this sub-list set itself (`I_marked = MARK`) -/
  def placed : ST → List Name
    | .simple n _ im => if im = .mk then [n] else []
    | .mult _ _ _ _ _ cs => placedL cs
  def placedL : List ST → List Name
    | [] => []
    | c :: cs => placed c ++ placedL cs
end

mutual
  /-- OR-free, no ORMARK, and a SimpleList that set a mark has viable ≥ MATCHSOME -/
  def POK : ST → Prop
    | .simple _ v im => (im = .mk → 3 ≤ v.rank) ∧ im ≠ .orm
    | .mult j _ _ _ _ cs => j ≠ .or ∧ POKL cs
  def POKL : List ST → Prop
    | [] => True
    | c :: cs => POK c ∧ POKL cs
end

theorem placed_simple_no (n : Name) (v : MT) : placed (.simple n v .no) = [] := rfl
theorem placed_simple_mk (n : Name) (v : MT) : placed (.simple n v .mk) = [n] := rfl
theorem POK_simple_no (n : Name) (v : MT) : POK (.simple n v .no) :=
  ⟨fun h => (by cases h), fun h => (by cases h)⟩

theorem placedL_append (a b : List ST) : placedL (a ++ b) = placedL a ++ placedL b := by
  induction a with
  | nil => simp [placedL]
  | cons c a ih => simp [placedL, ih]

theorem POKL_append {a b : List ST} (ha : POKL a) (hb : POKL b) : POKL (a ++ b) := by
  induction a with
  | nil => simpa using hb
  | cons c a ih => exact ⟨ha.1, ih ha.2⟩

def UPost' (t : ST) (es : Ents) (r : ST × Ents) : Prop :=
  EntsOK r.2 ∧ names r.2 = names es ∧ (∀ x, Mk r.2 x ↔ Mk es x ∧ x ∉ placed t) ∧ placed r.1 = [] ∧ POK r.1 ∧
  r.1.viable = t.viable

def ULPost' (cs : List ST) (es : Ents) (r : List ST × Ents) : Prop :=
  EntsOK r.2 ∧ names r.2 = names es ∧ (∀ x, Mk r.2 x ↔ Mk es x ∧ x ∉ placedL cs) ∧ placedL r.1 = [] ∧ POKL r.1 ∧
  r.1.map ST.viable = cs.map ST.viable

theorem simpleUnmark_spec' {es : Ents} (hok : EntsOK es) (n : Name) (v : MT) (im : Mark) (hp : POK (.simple n v im))
    (hin : ∀ x ∈ placed (.simple n v im), x ∈ names es) (r : ST × Ents) (h : simpleUnmark n v im es = .ok r) :
    UPost' (.simple n v im) es r := by
  have hnd := names_nodup hok
  obtain ⟨hp1, hp2⟩ := hp
  unfold simpleUnmark at h
  split at h
  · rename_i hv
    cases h
    have him : im = .no := by
      cases im with
      | no => rfl
      | orm => exact absurd rfl hp2
      | mk => have := hp1 rfl; have h3 : MT.rank .some_ = 3 := rfl; rw [h3] at hv; omega
    subst him
    exact ⟨hok, rfl, fun x => by rw [placed_simple_no]; simp, placed_simple_no n v, ⟨hp1, hp2⟩, rfl⟩
  · cases im with
    | orm => exact absurd rfl hp2
    | mk =>
      have hm : n ∈ names es := hin n (by rw [placed_simple_mk]; simp)
      obtain ⟨j, e, hj, he, hen⟩ := findGe_sorted n es 0 hok.sorted hm
      simp only [Nat.zero_add] at hj
      rw [hj] at h
      simp only [he] at h
      have hle : e.mark.rank ≤ Mark.mk.rank := by cases e.mark <;> simp [Mark.rank]
      simp only [hle, if_true] at h
      cases h
      refine ⟨EntsOK_setMark hok j .no (Or.inl rfl), names_setMark es j .no, fun x => ?_, placed_simple_no n v,
        POK_simple_no n v, rfl⟩
      rw [Mk_setMark hnd he .no x, hen, placed_simple_mk]
      simp only [List.mem_singleton]
      constructor
      · rintro (⟨_, h'⟩ | ⟨h1, h2⟩)
        · exact absurd rfl h'
        · exact ⟨h2, h1⟩
      · rintro ⟨h1, h2⟩; exact Or.inr ⟨h2, h1⟩
    | no =>
      split at h
      · cases h
      · rename_i i hi
        split at h
        · cases h
        · rename_i e he
          cases h
          refine ⟨?_, ?_, fun x => ?_, placed_simple_no n v, POK_simple_no n v, rfl⟩
          · show EntsOK (if _ then _ else _)
            split
            · exact EntsOK_setMark hok i .no (Or.inl rfl)
            · exact hok
          · show names (if _ then _ else _) = _
            split
            · exact names_setMark es i .no
            · rfl
          · show Mk (if _ then _ else _) x ↔ _
            rw [placed_simple_no]
            simp only [List.not_mem_nil, not_false_eq_true, and_true]
            split
            · rename_i hle
              have hmno : e.mark = .no := by
                cases hm : e.mark with
                | no => rfl
                | orm => rw [hm] at hle; simp [Mark.rank] at hle
                | mk => rw [hm] at hle; simp [Mark.rank] at hle
              rw [Mk_setMark hnd he .no x]
              constructor
              · rintro (⟨_, h'⟩ | ⟨_, h2⟩)
                · exact absurd rfl h'
                · exact h2
              · intro h2
                refine Or.inr ⟨?_, h2⟩
                intro hx; subst hx
                exact not_Mk_of_mark_no hnd he hmno h2
            · exact Iff.rfl

end StepModel.Complex.Match

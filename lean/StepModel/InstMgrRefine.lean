import StepModel.InstMgrInv
/-! Refinement of the `InstMgr` model to a plain list of live instances. -/
namespace StepModel.InstMgr
open StepModel.Generated

/-- abstraction: the live instances (handle, editing state) in array order -/
def abs (s : State) : List (Nat × St) := s.nodes.map (fun n => (n.inst, n.state))

/-- The reference: what each operation does to the list of live instances (insertion order). -/
def specStep (live : List (Nat × St)) (alive : Nat → Bool) : Op → List (Nat × St)
  | .newInst _ _ _ => live
  | .append h st => if alive h ∧ h ∉ live.map (·.1) then live ++ [(h, st)] else live
  | .deleteNode i => live.eraseIdx i
  | .deleteInst h => if alive h then live.filter (fun p => p.1 ≠ h) else live
  | .changeState i st => if st = .noState then live else live.modify i (fun p => (p.1, st))
  | .clear => []
  | .deleteAll => []
  | .lookup _ => live

theorem renumberFrom_map_of {β : Type} (g : Node → β) (hg : ∀ (n : Node) (j : Int), g { n with arrayIndex := j } = g n)
    (idx j : Nat) (ns : List Node) : (renumberFrom idx j ns).map g = ns.map g := by
  induction ns generalizing j with
  | nil => rfl
  | cons n ns ih =>
    simp only [renumberFrom, List.map_cons, ih]
    split
    · rw [hg]
    · rfl

theorem map_eraseIdx' {α β : Type} (f : α → β) (l : List α) (i : Nat) :
    (l.eraseIdx i).map f = (l.map f).eraseIdx i := by
  induction l generalizing i with
  | nil => simp
  | cons a as ih =>
    cases i with
    | zero => simp
    | succ i => simp [ih]

theorem abs_arrayRemove (ns : List Node) (p : Nat) :
    (arrayRemove ns p).map (fun n => (n.inst, n.state)) = (ns.map (fun n => (n.inst, n.state))).eraseIdx p := by
  unfold arrayRemove
  rw [renumberFrom_map_of _ (fun _ _ => rfl), map_eraseIdx']

theorem eraseIdx_eq_filter {l : List (Nat × St)} (nd : (l.map (·.1)).Nodup) {p : Nat} (hp : p < l.length) :
    l.eraseIdx p = l.filter (fun q => q.1 ≠ (l[p]).1) := by
  induction l generalizing p with
  | nil => simp at hp
  | cons a as ih =>
    simp only [List.map_cons, List.nodup_cons] at nd
    cases p with
    | zero =>
      simp only [List.eraseIdx_cons_zero, List.getElem_cons_zero]
      rw [List.filter_cons]
      simp
      symm
      rw [List.filter_eq_self]
      intro q hq
      simp
      intro he
      apply nd.1
      rw [← he]
      exact List.mem_map.mpr ⟨q, hq, rfl⟩
    | succ p =>
      simp only [List.eraseIdx_cons_succ, List.getElem_cons_succ]
      have hp' : p < as.length := by simpa using hp
      rw [List.filter_cons]
      have : a.1 ≠ (as[p]).1 := by
        intro he
        apply nd.1
        rw [he]
        exact List.mem_map.mpr ⟨as[p], List.getElem_mem hp', rfl⟩
      simp [this]
      simpa using ih nd.2 hp'

theorem abs_modify (ns : List Node) (i : Nat) (st : St) :
    (ns.modify i (fun n => { n with state := st })).map (fun n => (n.inst, n.state)) =
      (ns.map (fun n => (n.inst, n.state))).modify i (fun p => (p.1, st)) := by
  induction ns generalizing i with
  | nil => simp
  | cons a as ih =>
    cases i with
    | zero => simp
    | succ i => simp [ih]

theorem abs_mem_iff (s : State) (h : Nat) : h ∈ (abs s).map (·.1) ↔ ∃ n ∈ s.nodes, n.inst = h := by
  simp [abs]

theorem abs_nodup {s : State} (I : Inv s) : ((abs s).map (·.1)).Nodup := by
  have := I.instNodup
  simpa [abs, List.map_map, Function.comp_def] using this

/-- `Append` on the array: nothing when the instance is already there, otherwise one node at the end -/
theorem appendFind_abs {s1 : State} (I1 : Inv s1) {h : Nat} {id1 : Int} (st : St)
    (hid1 : idOf s1 h = some id1) :
    abs (appendFind s1 id1 h st).1 = if h ∉ (abs s1).map (·.1) then abs s1 ++ [(h, st)] else abs s1 := by
  unfold appendFind
  rcases findFileId_spec I1 id1 with ⟨n, hn, hnid, hf⟩ | ⟨hall, hf⟩
  · rw [hf]
    by_cases hnh : n.inst = h
    · have : h ∈ (abs s1).map (·.1) := (abs_mem_iff s1 h).mpr ⟨n, hn, hnh⟩
      simp [hnh, this]
    · simp only [hnh, if_false]
      have hfresh : ¬ h ∈ (abs s1).map (·.1) := by
        rw [abs_mem_iff]
        rintro ⟨n', hn', he⟩
        have : idOf s1 n'.inst = some id1 := by rw [he]; exact hid1
        have := I1.node_eq_of_id hn' hn this hnid
        subst this; exact hnh he
      simp only [hfresh, not_false_eq_true, if_true]
      unfold abs
      rw [pushNode_nodes, renumber_nodes]
      simp
  · rw [hf]
    have hfresh : ¬ h ∈ (abs s1).map (·.1) := by
      rw [abs_mem_iff]
      rintro ⟨n', hn', he⟩
      exact hall n' hn' (by rw [he]; exact hid1)
    simp only [hfresh, not_false_eq_true, if_true]
    unfold abs
    rw [pushNode_nodes]
    simp

theorem abs_renumber (s : State) (h : Nat) : abs (renumber s h).1 = abs s := rfl

/-- **Refinement**: every operation acts on the live-instance list as the list reference says. -/
theorem abs_step {s : State} (I : Inv s) (op : Op) :
    abs (step s op).1 = specStep (abs s) (fun h => (s.heap h).isSome) op := by
  cases op with
  | newInst h id name =>
    simp only [step, specStep, newInst]
    cases s.heap h <;> rfl
  | append h st =>
    cases hh : s.heap h with
    | none => simp [step, specStep, append, hh]
    | some i0 =>
      simp only [step, specStep, append, hh, Option.isSome_some, true_and]
      by_cases hz : i0.fileId = unassignedFileId
      · simp only [hz, if_true]
        have hfresh : ∀ n ∈ s.nodes, n.inst ≠ h := by
          intro n hn he
          apply I.nonzero n hn
          simp [idOf, he, hh, hz]
        have I1 := inv_renumber I hfresh
        rw [appendFind_abs I1 st (by rw [renumber_snd]; exact renumber_idOf_self s h (by simp [hh]))]
        rw [abs_renumber]
      · simp only [hz, if_false]
        rw [appendFind_abs I st (by simp [idOf, hh])]
  | deleteNode i =>
    simp only [step, specStep, deleteNode]
    cases hg : s.nodes[i]? with
    | none =>
      simp only
      have : s.nodes.length ≤ i := by
        rcases Nat.lt_or_ge i s.nodes.length with h | h
        · simp [List.getElem?_eq_getElem h] at hg
        · exact h
      rw [List.eraseIdx_of_length_le (by simpa [abs] using this)]
    | some n =>
      simp only
      rcases List.getElem?_eq_some_iff.mp hg with ⟨hp, hpn⟩
      rcases deleteNodeCore_eq I hp hpn with ⟨i', _, he⟩
      rw [he]
      exact abs_arrayRemove s.nodes i
  | deleteInst h =>
    cases hh : s.heap h with
    | none => simp [step, specStep, deleteInst, hh]
    | some i =>
      simp only [step, specStep, deleteInst, hh, Option.isSome_some, if_true]
      by_cases hany : s.nodes.any (fun n => n.inst == h) = true
      · simp only [hany, if_true]
        rcases List.any_eq_true.mp hany with ⟨n0, hn0, he⟩
        simp at he
        have hid0 : idOf s n0.inst = some i.fileId := by simp [idOf, he, hh]
        rcases findFileId_spec I i.fileId with ⟨n, hn, hnid, hf⟩ | ⟨hall, _⟩
        · rw [hf]
          simp only
          have hnn : n = n0 := I.node_eq_of_id hn hn0 hnid hid0
          subst hnn
          rcases List.getElem_of_mem hn with ⟨p, hp, hpn⟩
          rcases deleteNodeCore_eq I hp hpn with ⟨i', _, hd⟩
          rw [hd]
          show (arrayRemove s.nodes p).map _ = _
          rw [abs_arrayRemove]
          have hp' : p < (abs s).length := by simpa [abs] using hp
          have e : ((abs s)[p]'hp').1 = h := by simp [abs, hpn, he]
          have := eraseIdx_eq_filter (abs_nodup I) hp'
          rw [e] at this
          exact this
        · exact absurd hid0 (hall n0 hn0)
      · simp only [hany]
        simp only [Bool.false_eq_true, if_false]
        symm
        rw [List.filter_eq_self]
        intro q hq
        simp only [abs, List.mem_map] at hq
        rcases hq with ⟨n, hn, rfl⟩
        simp
        intro he
        apply hany
        exact List.any_eq_true.mpr ⟨n, hn, by simp [he]⟩
  | changeState i st =>
    simp only [step, specStep, changeState]
    cases hg : s.nodes[i]? with
    | none =>
      simp only
      have : s.nodes.length ≤ i := by
        rcases Nat.lt_or_ge i s.nodes.length with h | h
        · simp [List.getElem?_eq_getElem h] at hg
        · exact h
      split
      · rfl
      · rw [List.modify_eq_self (by simpa [abs] using this)]
    | some n =>
      simp only
      split
      · rfl
      · exact abs_modify s.nodes i st
  | clear => rfl
  | lookup i => rfl
  | deleteAll =>
    simp only [step, specStep, deleteAll]
    have := freeAll_isSome s.heap s.nodes I.instNodup I.alive
    cases hf : freeAll s.heap s.nodes with
    | none => simp [hf] at this
    | some heap => rfl

end StepModel.InstMgr

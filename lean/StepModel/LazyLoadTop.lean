import StepModel.LazyLemmas
/-!
# `loadInstance` at load depth 0: the inverse-attribute step

Lemmas for `Props/C10.lean` about `loadTop` / `drainLoop` / `candLoop` / `loadHist` (`Lazy.lean`): every depth-0 call returns, leaves
no pending instance, and the cache it leaves is closed under forward references and under "candidate referrer"; everything new in
the cache is reached from the requested instance (or from an instance that was pending) along those two relations.
-/
namespace StepModel.Lazy
open StepModel.Generated

/-- one step of the loaded-set closure: `b` is mentioned by `a`, or `b` is a candidate referrer `lazyRefs` loads for `a` -/
def Step (es : List Entry) (cands : Nat → List Nat) (a b : Nat) : Prop := Mentions es a b ∨ b ∈ cands a

/-- `x` is one of `S` or reached from one of them -/
def From (es : List Entry) (cands : Nat → List Nat) (S : List Nat) (x : Nat) : Prop :=
  ∃ s ∈ S, x = s ∨ Reach (Step es cands) s x

theorem Reach.mono {R S : Nat → Nat → Prop} (h : ∀ a b, R a b → S a b) {a b : Nat} (hr : Reach R a b) : Reach S a b := by
  induction hr with
  | single h1 => exact Reach.single (h _ _ h1)
  | tail _ h2 ih => exact Reach.tail ih (h _ _ h2)

theorem Reach.trans {R : Nat → Nat → Prop} {a b c : Nat} (h1 : Reach R a b) (h2 : Reach R b c) : Reach R a c := by
  induction h2 with
  | single h => exact Reach.tail h1 h
  | tail _ h ih => exact Reach.tail ih h

theorem From.mono {es : List Entry} {cands : Nat → List Nat} {S T : List Nat} (h : ∀ s ∈ S, s ∈ T) {x : Nat}
    (hx : From es cands S x) : From es cands T x := by
  obtain ⟨s, hs, hr⟩ := hx
  exact ⟨s, h s hs, hr⟩

/-- the invariant of the depth-0 states: nothing half-read, pending instances are cached, and every cached instance that is neither
    pending nor being processed (`E`) has its candidate referrers cached -/
structure Inv (es : List Entry) (cands : Nat → List Nat) (E : List Nat) (st : TopState) : Prop where
  wf : WF es st.1
  np : ∀ x, isPend st.1 x = false
  sub : ∀ x ∈ st.2, st.1.has x = true
  cl : ∀ x, st.1.has x = true → x ∉ st.2 → x ∉ E → ∀ r ∈ cands x, st.1.has r = true

theorem mem_newIds (c c' : Cache) (x : Nat) : x ∈ newIds c c' ↔ c'.has x = true ∧ c.has x = false := by
  unfold newIds
  simp only [List.mem_map, List.mem_filter, Bool.not_eq_true']
  constructor
  · rintro ⟨o, ⟨ho, hn⟩, rfl⟩
    refine ⟨?_, hn⟩
    unfold Cache.has; rw [List.any_eq_true]; exact ⟨o, ho, by simp⟩
  · rintro ⟨h1, h2⟩
    unfold Cache.has at h1
    rw [List.any_eq_true] at h1
    obtain ⟨o, ho, hx⟩ := h1
    have : o.id = x := by simpa using hx
    exact ⟨o, ⟨ho, by rw [this]; exact h2⟩, this⟩

theorem U_lt_of_new (es : List Entry) {c c' : Cache} (he : Ext c c') (id : Nat) (hk : known es id = true)
    (h1 : c'.has id = true) (h0 : c.has id = false) : U es c' < U es c := by
  unfold known at hk
  cases hr : refsOf es id with
  | none => rw [hr] at hk; cases hk
  | some refs =>
    obtain ⟨e, hmem, hid⟩ := refsOf_some_mem hr
    unfold U
    clear hr hk
    induction es with
    | nil => cases hmem
    | cons a t ih =>
      simp only [List.filter_cons]
      have hle : (t.filter (fun e => !c'.has e.id)).length ≤ (t.filter (fun e => !c.has e.id)).length := U_mono t he
      by_cases ha : a.id = id
      · have e1 : c.has a.id = false := by rw [ha]; exact h0
        have e2 : c'.has a.id = true := by rw [ha]; exact h1
        simp [e1, e2]; omega
      · have he' : e ∈ t := by
          cases hmem with
          | head => exact absurd hid ha
          | tail _ h => exact h
        have := ih he'
        by_cases h4 : c.has a.id = true
        · have h5 := he _ h4
          simp [h4, h5]; exact this
        · have h4' : c.has a.id = false := by simpa using h4
          by_cases h6 : c'.has a.id = true
          · simp [h4', h6]; omega
          · have h6' : c'.has a.id = false := by simpa using h6
            simp [h4', h6']; exact this

theorem U_le_length (es : List Entry) (c : Cache) : U es c ≤ es.length := by
  unfold U; exact List.length_filter_le _ _

section
variable (es : List Entry) (cands : Nat → List Nat) (ord : List Nat → List Nat)

/-- what one depth-0 `loadInstance` call guarantees -/
def TopSpec (rec : TopState → Nat → Outcome (TopState × Bool)) (f : Nat) : Prop :=
  ∀ (E : List Nat) (c : Cache) (P : List Nat) (id : Nat), U es c < f → Inv es cands E (c, P) → (known es id = true ∨ P = []) →
    ∃ c' P', rec (c, P) id = .ok ((c', P'), known es id) ∧ Ext c c' ∧ Inv es cands E (c', P') ∧
      (known es id = true → c'.has id = true) ∧ (known es id = false → c' = c) ∧
      (∀ p ∈ P', p ∈ P) ∧ P'.length ≤ P.length ∧
      (∀ x, c'.has x = true → c.has x = true ∨ From es cands (id :: P) x)

theorem candLoop_spec (rec : TopState → Nat → Outcome (TopState × Bool)) (f : Nat) (hrec : TopSpec es cands rec f) :
    ∀ (l : List Nat) (E : List Nat) (c : Cache) (P : List Nat), U es c < f → Inv es cands E (c, P) →
      (∀ r ∈ l, known es r = true) →
      ∃ c' P', candLoop rec (c, P) l = .ok (c', P') ∧ Ext c c' ∧ Inv es cands E (c', P') ∧ (∀ r ∈ l, c'.has r = true) ∧
        (∀ p ∈ P', p ∈ P) ∧ P'.length ≤ P.length ∧ (∀ x, c'.has x = true → c.has x = true ∨ From es cands (l ++ P) x) := by
  intro l
  induction l with
  | nil =>
    intro E c P _ hi _
    exact ⟨c, P, rfl, Ext.refl _, hi, fun _ h => (by cases h), fun _ h => h, Nat.le_refl _, fun x hx => Or.inl hx⟩
  | cons r t ih =>
    intro E c P hu hi hk
    obtain ⟨c1, P1, h1, e1, i1, k1, _, s1, l1, n1⟩ := hrec E c P r hu hi (Or.inl (hk r (by simp)))
    have hu1 : U es c1 < f := Nat.lt_of_le_of_lt (U_mono es e1) hu
    obtain ⟨c2, P2, h2, e2, i2, k2, s2, l2, n2⟩ := ih E c1 P1 hu1 i1 (fun x hx => hk x (List.mem_cons_of_mem _ hx))
    refine ⟨c2, P2, ?_, e1.trans e2, i2, ?_, fun p hp => s1 p (s2 p hp), Nat.le_trans l2 l1, ?_⟩
    · simp only [candLoop, h1, h2]
    · intro x hx
      rcases List.mem_cons.mp hx with h | h
      · rw [h]; exact e2 _ (k1 (hk r (by simp)))
      · exact k2 x h
    · intro x hx
      rcases n2 x hx with h | h
      · rcases n1 x h with h' | h'
        · exact Or.inl h'
        · refine Or.inr (From.mono ?_ h')
          intro s hs
          rcases List.mem_cons.mp hs with e | e
          · rw [e]; simp
          · simp [e]
      · refine Or.inr (From.mono ?_ h)
        intro s hs
        rcases List.mem_append.mp hs with e | e
        · simp [e]
        · have := s1 s e; simp [this]

theorem drainLoop_spec (hk : ∀ x r, r ∈ cands x → known es r = true)
    (rec : TopState → Nat → Outcome (TopState × Bool)) (f : Nat) (hrec : TopSpec es cands rec f) :
    ∀ (n : Nat) (E : List Nat) (c : Cache) (P : List Nat), P.length < n → U es c < f → Inv es cands E (c, P) →
      ∃ c', drainLoop cands rec n (c, P) = .ok (c', []) ∧ Ext c c' ∧ Inv es cands E (c', []) ∧
        (∀ x, c'.has x = true → c.has x = true ∨ From es cands P x) := by
  intro n
  induction n with
  | zero => intro E c P h; exact absurd h (Nat.not_lt_zero _)
  | succ n ih =>
    intro E c P hn hu hi
    cases hrev : P.reverse with
    | nil =>
      have hP : P = [] := by simpa using hrev
      subst hP
      exact ⟨c, by simp [drainLoop], Ext.refl _, hi, fun x hx => Or.inl hx⟩
    | cons p rest =>
      have hP : P = rest.reverse ++ [p] := by
        have := congrArg List.reverse hrev
        simpa using this
      have hi0 : Inv es cands (p :: E) (c, rest.reverse) := by
        refine ⟨hi.wf, hi.np, ?_, ?_⟩
        · intro x hx; exact hi.sub x (by show x ∈ P; rw [hP]; simp [List.mem_reverse.mp hx])
        · intro x hx hn1 hn2 r hr
          simp only [List.mem_cons, not_or] at hn2
          refine hi.cl x hx ?_ hn2.2 r hr
          show x ∉ P
          rw [hP]; simp only [List.mem_append, List.mem_singleton, not_or]
          exact ⟨hn1, hn2.1⟩
      obtain ⟨c1, P1, h1, e1, i1, k1, s1, l1, n1⟩ :=
        candLoop_spec es cands rec f hrec (cands p) (p :: E) c rest.reverse hu hi0 (fun r hr => hk p r hr)
      have hpc : c.has p = true := hi.sub p (by show p ∈ P; rw [hP]; simp)
      have i1' : Inv es cands E (c1, P1) := by
        refine ⟨i1.wf, i1.np, i1.sub, ?_⟩
        intro x hx hn1 hn2 r hr
        by_cases hxp : x = p
        · rw [hxp] at hr; exact k1 r hr
        · exact i1.cl x hx hn1 (by simp only [List.mem_cons, not_or]; exact ⟨hxp, hn2⟩) r hr
      have hlen : P1.length < n := by
        have : P.length = rest.reverse.length + 1 := by rw [hP]; simp
        omega
      have hu1 : U es c1 < f := Nat.lt_of_le_of_lt (U_mono es e1) hu
      obtain ⟨c2, h2, e2, i2, n2⟩ := ih E c1 P1 hlen hu1 i1'
      refine ⟨c2, ?_, e1.trans e2, i2, ?_⟩
      · simp only [drainLoop, hrev, h1, h2]
      · intro x hx
        have hfrom : ∀ y, From es cands (cands p ++ rest.reverse) y → From es cands P y := by
          intro y hy
          obtain ⟨s, hs, hr⟩ := hy
          rcases List.mem_append.mp hs with e | e
          · refine ⟨p, by rw [hP]; simp, Or.inr ?_⟩
            rcases hr with hr | hr
            · rw [hr]; exact Reach.single (Or.inr e)
            · exact Reach.head (Or.inr e) hr
          · exact ⟨s, by rw [hP]; simp [e], hr⟩
        rcases n2 x hx with h | h
        · rcases n1 x h with h' | h'
          · exact Or.inl h'
          · exact Or.inr (hfrom x h')
        · refine Or.inr (From.mono ?_ h)
          intro s hs
          rw [hP]; simp [s1 s hs]

theorem loadTop_spec (hk : ∀ x r, r ∈ cands x → known es r = true) (hord : ∀ l x, x ∈ ord l ↔ x ∈ l) :
    ∀ f, TopSpec es cands (loadTop es cands ord f) f := by
  intro f
  induction f with
  | zero => intro E c P id h; exact absurd h (Nat.not_lt_zero _)
  | succ f ih =>
    intro E c P id hu hi hkp
    have hcb : cacheBeforeRead = true := rfl
    by_cases hc : c.has id = true
    · have hkn : known es id = true := has_known hi.wf hc
      refine ⟨c, P, ?_, Ext.refl _, hi, fun _ => hc, fun h => (by simp [hkn] at h), fun _ h => h, Nat.le_refl _,
        fun x hx => Or.inl hx⟩
      simp [loadTop, hc, hkn]
    · have hc' : c.has id = false := by simpa using hc
      by_cases hkn : known es id = true
      · -- the instance is read with everything it references
        obtain ⟨c1, h1, e1, w1, p1, k1⟩ := load_spec es (es.length + 1) c id (Nat.lt_succ_of_le (U_le_length es c)) hi.wf
        have np1 : ∀ x, isPend c1 x = false := by
          intro x
          cases hx : isPend c1 x with
          | false => rfl
          | true => have := p1 x hx; rw [hi.np x] at this; cases this
        have hid1 : c1.has id = true := k1 hkn
        have hu1 : U es c1 < f := by
          have := U_lt_of_new es e1 id hkn hid1 hc'
          omega
        have i1 : Inv es cands E (c1, P ++ ord (newIds c c1)) := by
          refine ⟨w1, np1, ?_, ?_⟩
          · intro x hx
            rcases List.mem_append.mp hx with h | h
            · exact e1 _ (hi.sub x h)
            · exact ((mem_newIds c c1 x).mp ((hord _ x).mp h)).1
          · intro x hx hn1 hn2 r hr
            simp only [List.mem_append, not_or] at hn1
            have hcx : c.has x = true := by
              cases hh : c.has x with
              | true => rfl
              | false => exact absurd ((hord _ x).mpr ((mem_newIds c c1 x).mpr ⟨hx, hh⟩)) hn1.2
            exact e1 _ (hi.cl x hcx hn1.1 hn2 r hr)
        obtain ⟨c2, h2, e2, i2, n2⟩ := drainLoop_spec es cands hk (loadTop es cands ord f) f ih
          ((P ++ ord (newIds c c1)).length + 1) E c1 (P ++ ord (newIds c c1)) (Nat.lt_succ_self _) hu1 i1
        refine ⟨c2, [], ?_, e1.trans e2, i2, fun _ => e2 _ hid1, fun h => (by simp [hkn] at h),
          fun _ h => (by cases h), Nat.zero_le _, ?_⟩
        · rw [hkn] at h1
          simp only [loadTop, hc', hcb, h1, h2, Bool.false_eq_true, ↓reduceIte, hkn]
        · intro x hx
          have hnew : ∀ y, c1.has y = true → c.has y = true ∨ From es cands (id :: P) y := by
            intro y hy
            rcases load_new es _ c id c1 _ h1 y hy with h | h | h
            · exact Or.inl h
            · exact Or.inr ⟨id, by simp, Or.inl h⟩
            · exact Or.inr ⟨id, by simp, Or.inr (Reach.mono (fun a b hab => Or.inl hab) h)⟩
          rcases n2 x hx with h | h
          · exact hnew x h
          · obtain ⟨s, hs, hr⟩ := h
            rcases List.mem_append.mp hs with e | e
            · exact Or.inr ⟨s, by simp [e], hr⟩
            · have hs1 := (mem_newIds c c1 s).mp ((hord _ s).mp e)
              rcases hnew s hs1.1 with h' | h'
              · rw [hs1.2] at h'; cases h'
              · obtain ⟨t, ht, htr⟩ := h'
                refine Or.inr ⟨t, ht, ?_⟩
                rcases hr with hr | hr
                · rw [hr]; exact htr
                · rcases htr with htr | htr
                  · rw [← htr]; exact Or.inr hr
                  · exact Or.inr (Reach.trans htr hr)
      · -- no such instance: nothing is read, the pending list is empty (at depth 0 it always is when the user calls)
        have hkn' : known es id = false := by simpa using hkn
        have hP : P = [] := by
          rcases hkp with h | h
          · rw [hkn'] at h; cases h
          · exact h
        subst hP
        have hr : refsOf es id = none := by
          unfold known at hkn'
          cases h : refsOf es id with
          | none => rfl
          | some _ => rw [h] at hkn'; cases hkn'
        have hnew : newIds c c = [] := by
          apply List.eq_nil_iff_forall_not_mem.mpr
          intro x hx
          have := (mem_newIds c c x).mp hx
          rw [this.1] at this; cases this.2
        have hord0 : ord [] = [] := by
          apply List.eq_nil_iff_forall_not_mem.mpr
          intro x hx
          exact absurd ((hord [] x).mp hx) (by simp)
        refine ⟨c, [], ?_, Ext.refl _, hi, fun h => (by simp [hkn'] at h), fun _ => rfl, fun _ h => h, Nat.le_refl _,
          fun x hx => Or.inl hx⟩
        simp [loadTop, hc', load, hr, hnew, hord0, drainLoop, hkn']

/-- a history of user calls from a state without pending instances -/
theorem loadHist_spec (hk : ∀ x r, r ∈ cands x → known es r = true) (hord : ∀ l x, x ∈ ord l ↔ x ∈ l)
    (fuel : Nat) (hf : es.length < fuel) :
    ∀ (ids : List Nat) (c0 : Cache), Inv es cands [] (c0, []) →
      ∃ c, loadHist es cands ord fuel (c0, []) ids = .ok ((c, []), ids.map (known es)) ∧ Ext c0 c ∧ Inv es cands [] (c, []) ∧
        (∀ id ∈ ids, known es id = true → c.has id = true) ∧
        (∀ x, c.has x = true → c0.has x = true ∨ ∃ id ∈ ids, known es id = true ∧ (x = id ∨ Reach (Step es cands) id x)) := by
  intro ids
  induction ids with
  | nil => intro c0 hi; exact ⟨c0, rfl, Ext.refl _, hi, fun _ h => (by cases h), fun x hx => Or.inl hx⟩
  | cons i t ih =>
    intro c0 hi
    have hu : U es c0 < fuel := Nat.lt_of_le_of_lt (U_le_length es c0) hf
    obtain ⟨c1, P1, h1, e1, i1, k1, z1, _, l1, n1⟩ := loadTop_spec es cands ord hk hord fuel [] c0 [] i hu hi (Or.inr rfl)
    have hP1 : P1 = [] := List.eq_nil_of_length_eq_zero (Nat.le_zero.mp l1)
    subst hP1
    obtain ⟨c2, h2, e2, i2, k2, n2⟩ := ih c1 i1
    refine ⟨c2, ?_, e1.trans e2, i2, ?_, ?_⟩
    · simp only [loadHist, h1, h2, List.map_cons]
    · intro id hid hkn
      rcases List.mem_cons.mp hid with h | h
      · rw [h]; exact e2 _ (k1 (by rw [← h]; exact hkn))
      · exact k2 id h hkn
    · intro x hx
      rcases n2 x hx with h | ⟨id, hid, hr⟩
      · by_cases hki : known es i = true
        · rcases n1 x h with h' | ⟨s, hs, hr⟩
          · exact Or.inl h'
          · have : s = i := by simpa using hs
            subst this
            exact Or.inr ⟨s, by simp, hki, hr⟩
        · have := z1 (by simpa using hki)
          rw [this] at h; exact Or.inl h
      · exact Or.inr ⟨id, List.mem_cons_of_mem _ hid, hr⟩
end

end StepModel.Lazy

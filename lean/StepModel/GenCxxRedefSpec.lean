import StepModel.GenCxxFlagSpec
/-! `_redefAttr` on single-inheritance instances: `MakeRedefined( a, nm )` marks the FIRST attribute of the instance whose
registered name is `nm` (no owner filter).  Specification = a fold over the explicit attributes of the chain on plain lists of
(descriptor, flag); proof that the object/flag model computes exactly that. -/
namespace StepModel.GenCxx
open StepModel.Generated

/-! ## first match on lists -/

def markFirstG {α : Type} (p : α → Bool) (f : α → α) : List α → List α
  | [] => []
  | x :: xs => if p x then f x :: xs else x :: markFirstG p f xs

def idxFirst {α : Type} (p : α → Bool) : List α → Option Nat
  | [] => none
  | x :: xs => if p x then some 0 else (idxFirst p xs).map (· + 1)

theorem markFirstG_map {α β : Type} (p : α → Bool) (f : α → α) (p' : β → Bool) (f' : β → β) (g : α → β)
    (hp : ∀ x, p x = p' (g x)) (hf : ∀ x, g (f x) = f' (g x)) (l : List α) :
    (markFirstG p f l).map g = markFirstG p' f' (l.map g) := by
  induction l with
  | nil => rfl
  | cons x xs ih =>
    simp only [markFirstG, List.map_cons, ← hp x]
    cases p x <;> simp [hf, ih]

theorem find_range (l : List Obj) (p : Obj → Bool) :
    (List.range l.length).find? (fun j => match l[j]? with | some o => p o | none => false) = idxFirst p l := by
  induction l with
  | nil => rfl
  | cons x xs ih =>
    rw [List.length_cons, List.range_succ_eq_map, List.find?_cons]
    simp only [List.getElem?_cons_zero, idxFirst]
    cases hx : p x with
    | true => simp
    | false =>
      simp only [Bool.false_eq_true, ↓reduceIte]
      rw [List.find?_map]
      have : ((fun j => match (x :: xs)[j]? with | some o => p o | none => false) ∘ Nat.succ) =
          (fun j => match xs[j]? with | some o => p o | none => false) := by
        funext j; simp
      rw [this, ih]

/-- `modAt` with indices starting at `k` -/
def modAtFrom (k : Nat) (l : List Obj) (i : Nat) (f : Obj → Obj) : List Obj :=
  (l.zipIdx k).map (fun p => if p.2 == i then f p.1 else p.1)

theorem modAt_eq_from (l : List Obj) (i : Nat) (f : Obj → Obj) : modAt l i f = modAtFrom 0 l i f := rfl

theorem modAtFrom_lt (k : Nat) (l : List Obj) (i : Nat) (f : Obj → Obj) (h : i < k) : modAtFrom k l i f = l := by
  induction l generalizing k with
  | nil => rfl
  | cons x xs ih =>
    simp only [modAtFrom, List.zipIdx_cons, List.map_cons]
    have : (k == i) = false := beq_eq_false_iff_ne.mpr (by omega)
    simp only [this, Bool.false_eq_true, ↓reduceIte]
    congr 1
    exact ih (k + 1) (by omega)

theorem modAtFrom_first (k : Nat) (l : List Obj) (p : Obj → Bool) (f : Obj → Obj) (j : Nat)
    (h : idxFirst p l = some j) : modAtFrom k l (k + j) f = markFirstG p f l := by
  induction l generalizing k j with
  | nil => simp [idxFirst] at h
  | cons x xs ih =>
    simp only [modAtFrom, List.zipIdx_cons, List.map_cons, markFirstG]
    unfold idxFirst at h
    cases hx : p x with
    | true =>
      simp only [hx, ↓reduceIte, Option.some.injEq] at h
      subst h
      simp only [Nat.add_zero, beq_self_eq_true, ↓reduceIte]
      congr 1
      exact modAtFrom_lt (k + 1) xs k f (by omega)
    | false =>
      simp only [hx, Bool.false_eq_true, ↓reduceIte, Option.map_eq_some_iff] at h
      obtain ⟨j', hj', rfl⟩ := h
      have : (k == k + (j' + 1)) = false := beq_eq_false_iff_ne.mpr (by omega)
      simp only [this, Bool.false_eq_true, ↓reduceIte]
      congr 1
      have := ih (k + 1) j' hj'
      rw [show k + 1 + j' = k + (j' + 1) by omega] at this
      exact this

theorem markFirstG_length {α : Type} (p : α → Bool) (f : α → α) (l : List α) : (markFirstG p f l).length = l.length := by
  induction l with
  | nil => rfl
  | cons x xs ih => simp only [markFirstG]; split <;> simp [ih]

theorem markFirstG_none {α : Type} (p : α → Bool) (f : α → α) (l : List α) (h : idxFirst p l = none) :
    markFirstG p f l = l := by
  induction l with
  | nil => rfl
  | cons x xs ih =>
    unfold idxFirst at h
    cases hx : p x with
    | true => simp [hx] at h
    | false =>
      simp only [hx, Bool.false_eq_true, ↓reduceIte, Option.map_eq_none_iff] at h
      simp [markFirstG, hx, ih h]

/-- the owner filter of `GetSTEPattribute( nm, entity )` -/
def ownerOK (ow : Option String) (owner : String) : Bool :=
  match ow with
  | some o => o == owner
  | none => true

/-- `MakeRedefined` on the head of a state whose head list is all objects in creation order -/
theorem makeRedefined_head (st : IState) (nm : String) (ow : Option String) (hh : st.head = List.range st.objs.length) :
    (match findAttr st st.head nm ow with | some j => setRedef st j | none => st).objs =
      markFirstG (fun o => o.sa.name == nm && ownerOK ow o.sa.owner) (fun o => { o with redef := true }) st.objs ∧
    (match findAttr st st.head nm ow with | some j => setRedef st j | none => st).head = st.head := by
  have hf : findAttr st st.head nm ow = idxFirst (fun o => o.sa.name == nm && ownerOK ow o.sa.owner) st.objs := by
    unfold findAttr
    rw [hh, ← find_range]
    congr 1
    funext j
    simp only [saAt]
    cases st.objs[j]? <;> cases ow <;> simp [ownerOK]
  rw [hf]
  cases hi : idxFirst (fun o => o.sa.name == nm && ownerOK ow o.sa.owner) st.objs with
  | none => exact ⟨(markFirstG_none _ _ _ hi).symm, rfl⟩
  | some j =>
    refine ⟨?_, rfl⟩
    have h0 : (setRedef st j).objs = modAtFrom 0 st.objs j (fun o => { o with redef := true }) := rfl
    have := modAtFrom_first 0 st.objs _ (fun o => { o with redef := true }) j hi
    rw [Nat.zero_add] at this
    exact h0.trans this

/-! ## specification -/

def saOfAttr (p : String × Attr) : SA := { owner := p.1, name := dictAttrName p.2, kind := attrDKind p.2 }

/-- one explicit attribute: a new entry; a redeclaration `SELF\sup.nm` then marks the first entry registered as `nm` -/
def redefStep (ro : Attr → Option String) (acc : List (SA × Bool)) (p : String × Attr) : List (SA × Bool) :=
  if p.2.redecl.isSome then
    markFirstG (fun q => q.1.name == p.2.name && ownerOK (ro p.2) q.1.owner) (fun q => (q.1, true)) (acc ++ [(saOfAttr p, false)])
  else acc ++ [(saOfAttr p, false)]

/-- explicit attributes of a chain, root first, declaration order -/
def flatExplicit (c : List Entity) : List (String × Attr) :=
  c.flatMap (fun e => (e.attrs.filter (fun a => a.kind == .explicit)).map (fun a => (e.name, a)))

/-- (descriptor, `_redefAttr` set) for every attribute of an instance whose ancestry is the chain `c` -/
def redefSpec (ro : Attr → Option String) (c : List Entity) : List (SA × Bool) := (flatExplicit c).foldl (redefStep ro) []

def projR (o : Obj) : SA × Bool := (o.sa, o.redef)

/-! ## the model meets it -/

structure RangeState (st : IState) : Prop where
  head : st.head = List.range st.objs.length

theorem ownStep_range (ro : Attr → Option String) (e : Entity) (st : IState) (a : Attr) (hh : st.head = List.range st.objs.length)
    (hfresh : saOfAttr (e.name, a) ∉ st.objs.map (·.sa)) :
    (ownStep ro e (st, none) a).2 = none ∧
    (ownStep ro e (st, none) a).1.head = List.range (ownStep ro e (st, none) a).1.objs.length ∧
    (ownStep ro e (st, none) a).1.objs.map projR = redefStep ro (st.objs.map projR) (e.name, a) := by
  have hall : ∀ j, j ∈ st.head ↔ j < st.objs.length := by intro j; rw [hh]; simp
  let sa : SA := saOfAttr (e.name, a)
  let st1 : IState := { st with objs := st.objs ++ [{ sa := sa }] }
  have hsa1 : ∀ j, j < st.objs.length → saAt st1 j = saAt st j := by
    intro j hj; simp only [saAt, st1]; rw [List.getElem?_append_left hj]
  have hid : saAt st1 st.objs.length = some sa := by simp [saAt, st1]
  have hpush : pushId st1 st.head st.objs.length = st.head ++ [st.objs.length] := by
    unfold pushId
    have : st.head.any (fun j => saAt st1 j == saAt st1 st.objs.length) = false := by
      rw [List.any_eq_false]
      intro j hj
      have hlt := (hall j).mp hj
      rw [hsa1 j hlt, hid]
      cases hs : saAt st j with
      | none => simp
      | some b =>
        have hb := saAt_mem hs
        have : b ≠ sa := fun e2 => hfresh (by have hb2 := hb; rwa [e2] at hb2)
        simp [this]
    simp only [this, Bool.false_eq_true, ↓reduceIte]
  let st2 : IState := { st1 with head := st.head ++ [st.objs.length] }
  have hh2 : st2.head = List.range st2.objs.length := by
    show st.head ++ [st.objs.length] = List.range (st.objs ++ [({ sa := sa } : Obj)]).length
    rw [List.length_append, List.length_singleton, List.range_succ, hh]
  have hres : (ownStep ro e (st, none) a) =
      ((if a.redecl.isSome then
          (match findAttr st2 st2.head a.name (ro a) with | some j => setRedef st2 j | none => st2) else st2), none) := by
    unfold ownStep
    simp only [IState.newObj, Option.map_none]
    have hp := hpush
    simp only [st1, sa, saOfAttr] at hp
    simp only [hp]
    rfl
  rw [hres]
  have hproj2 : st2.objs.map projR = st.objs.map projR ++ [(sa, false)] := by
    simp [st2, st1, projR]
  refine ⟨rfl, ?_, ?_⟩
  · by_cases hr : a.redecl.isSome = true
    · simp only [hr, ↓reduceIte]
      obtain ⟨h1, h2⟩ := makeRedefined_head st2 a.name (ro a) hh2
      rw [h2, h1, markFirstG_length]
      exact hh2
    · simp only [hr]; exact hh2
  · unfold redefStep
    by_cases hr : a.redecl.isSome = true
    · simp only [hr, ↓reduceIte]
      obtain ⟨h1, _⟩ := makeRedefined_head st2 a.name (ro a) hh2
      have hm := markFirstG_map (fun o : Obj => o.sa.name == a.name && ownerOK (ro a) o.sa.owner) (fun o => { o with redef := true })
        (fun q : SA × Bool => q.1.name == a.name && ownerOK (ro a) q.1.owner) (fun q => (q.1, true)) projR (fun _ => rfl) (fun _ => rfl) st2.objs
      rw [h1, hm, hproj2]
    · simp only [hr]; exact hproj2

theorem ownLoop_range (ro : Attr → Option String) (e : Entity) (st : IState) (hh : st.head = List.range st.objs.length)
    (hnd : (st.objs.map (·.sa) ++ ownSAs e).Nodup) :
    (ownLoop ro e st none).1.head = List.range (ownLoop ro e st none).1.objs.length ∧
    (ownLoop ro e st none).1.objs.map projR =
      ((e.attrs.filter (fun a => a.kind == .explicit)).map (fun a => (e.name, a))).foldl (redefStep ro) (st.objs.map projR) ∧
    (ownLoop ro e st none).1.objs.map (·.sa) = st.objs.map (·.sa) ++ ownSAs e := by
  unfold ownLoop ownSAs at *
  generalize e.attrs.filter (fun a => a.kind == .explicit) = l at hnd
  induction l generalizing st with
  | nil => exact ⟨hh, rfl, by simp⟩
  | cons a as ih =>
    simp only [List.foldl_cons, List.map_cons] at hnd ⊢
    have hfresh : saOfAttr (e.name, a) ∉ st.objs.map (·.sa) := by
      intro hm
      rw [List.nodup_append] at hnd
      exact hnd.2.2 _ hm _ (List.mem_cons_self) rfl
    obtain ⟨h2, hr, hp⟩ := ownStep_range ro e st a hh hfresh
    have hsas : (ownStep ro e (st, none) a).1.objs.map (·.sa) = st.objs.map (·.sa) ++ [saOfAttr (e.name, a)] := by
      have hall : ∀ j, j ∈ st.head ↔ j < st.objs.length := by intro j; rw [hh]; simp
      exact (ownStep_head ro e st a hall hfresh).2.sas
    have hpair : ownStep ro e (st, none) a = ((ownStep ro e (st, none) a).1, none) := Prod.ext rfl h2
    rw [hpair]
    have hnd' : ((ownStep ro e (st, none) a).1.objs.map (·.sa) ++
        as.map (fun a => ({ owner := e.name, name := dictAttrName a, kind := attrDKind a } : SA))).Nodup := by
      rw [hsas]; simpa [List.append_assoc, saOfAttr] using hnd
    obtain ⟨i1, i2, i3⟩ := ih (ownStep ro e (st, none) a).1 hr hnd'
    refine ⟨i1, ?_, ?_⟩
    · rw [i2, hp]
    · rw [i3, hsas]; simp [saOfAttr]

theorem modAt_map_proj {β : Type} (g : Obj → β) (l : List Obj) (i : Nat) (f : Obj → Obj) (hf : ∀ o, g (f o) = g o) :
    (modAt l i f).map g = l.map g := by
  apply List.ext_getElem?
  intro j
  rw [List.getElem?_map, List.getElem?_map, modAt_getElem]
  cases l[j]? with
  | none => rfl
  | some o => simp only [Option.map_some]; split <;> simp [hf]

theorem applyDerived_projR (calls : List (String × String)) (st : IState) (l : List Nat) :
    (applyDerived st l calls).head = st.head ∧ (applyDerived st l calls).objs.map projR = st.objs.map projR ∧
    (applyDerived st l calls).objs.map (·.sa) = st.objs.map (·.sa) := by
  unfold applyDerived
  induction calls generalizing st with
  | nil => exact ⟨rfl, rfl, rfl⟩
  | cons c cs ih =>
    simp only [List.foldl_cons]
    cases findAttr st l c.1 (some c.2) with
    | none => exact ih st
    | some i =>
      obtain ⟨a1, a2, a3⟩ := ih (setDerive st i)
      refine ⟨a1, ?_, ?_⟩
      · rw [a2]; exact modAt_map_proj projR st.objs i (fun o => { o with derive := true }) (fun _ => rfl)
      · rw [a3]; exact modAt_map_proj (·.sa) st.objs i (fun o => { o with derive := true }) (fun _ => rfl)

theorem flatExplicit_append (c : List Entity) (e : Entity) :
    flatExplicit (c ++ [e]) = flatExplicit c ++ (e.attrs.filter (fun a => a.kind == .explicit)).map (fun a => (e.name, a)) := by
  simp [flatExplicit]

/-- on a single-inheritance instance the head holds every object in creation order and its `_redefAttr` flags are the fold -/
theorem chain_redef {s : Schema} {n : String} {c : List Entity} (h : IsChain s n c) :
    ∀ f, c.length ≤ f → KeysNodup c →
      (ctorNF s f n {}).head = List.range (ctorNF s f n {}).objs.length ∧
      (ctorNF s f n {}).objs.map projR = redefSpec (redefOwner s) c ∧
      (ctorNF s f n {}).objs.map (·.sa) = c.flatMap ownSAs := by
  induction h with
  | root n e hE hs =>
    intro f hf hk
    cases f with
    | zero => simp at hf
    | succ f =>
      rw [ctorNF_succ, hE]
      simp only [hs, List.tail_nil, List.foldl_nil]
      have hsas : (ownSAs e).Nodup := by
        have : KeysNodup [e] := hk
        simp only [KeysNodup, List.flatMap_cons, List.flatMap_nil, List.append_nil] at this
        exact nodup_of_map _ this
      obtain ⟨l1, l2, l3⟩ := ownLoop_range (redefOwner s) e {} rfl (by simpa using hsas)
      obtain ⟨a1, a2, a3⟩ := applyDerived_projR (derivedCalls s n) (ownLoop (redefOwner s) e {} none).1 (ownLoop (redefOwner s) e {} none).1.head
      refine ⟨?_, ?_, ?_⟩
      · have hlen := congrArg List.length a3
        simp only [List.length_map] at hlen
        rw [a1, hlen]; exact l1
      · rw [a2, l2]; simp [redefSpec, flatExplicit]
      · rw [a3, l3]; simp
  | step n p e c hE hs hc ih =>
    intro f hf hk
    cases f with
    | zero => simp at hf
    | succ f =>
      have hkc : KeysNodup c := by
        unfold KeysNodup at hk ⊢
        simp only [List.flatMap_append, List.map_append] at hk
        exact (List.nodup_append.mp hk).1
      obtain ⟨i1, i2, i3⟩ := ih f (by simp at hf; omega) hkc
      rw [ctorNF_succ, hE]
      simp only [hs, List.tail_cons, List.foldl_nil]
      generalize ctorNF s f p {} = st at i1 i2 i3
      have hnd : (st.objs.map (·.sa) ++ ownSAs e).Nodup := by
        rw [i3]
        have : ((c ++ [e]).flatMap ownSAs).Nodup := nodup_of_map _ hk
        simpa using this
      obtain ⟨l1, l2, l3⟩ := ownLoop_range (redefOwner s) e st i1 hnd
      obtain ⟨a1, a2, a3⟩ := applyDerived_projR (derivedCalls s n) (ownLoop (redefOwner s) e st none).1 (ownLoop (redefOwner s) e st none).1.head
      refine ⟨?_, ?_, ?_⟩
      · have hlen := congrArg List.length a3
        simp only [List.length_map] at hlen
        rw [a1, hlen]; exact l1
      · rw [a2, l2, i2]
        simp [redefSpec, flatExplicit_append, List.foldl_append]
      · rw [a3, l3, i3]; simp

theorem filterMap_range {β : Type} (l : List Obj) (g : Obj → β) :
    (List.range l.length).filterMap (fun i => (l[i]?).map g) = l.map g := by
  induction l with
  | nil => rfl
  | cons x xs ih =>
    rw [List.length_cons, List.range_succ_eq_map, List.filterMap_cons]
    simp only [List.getElem?_cons_zero, Option.map_some, List.map_cons]
    congr 1
    rw [List.filterMap_map]
    have : ((fun i => Option.map g (x :: xs)[i]?) ∘ Nat.succ) = (fun i => Option.map g xs[i]?) := by
      funext i; simp
    rw [this, ih]

theorem mem_markFirstG {α : Type} (p : α → Bool) (f : α → α) (l : List α) (x : α) (h : x ∈ markFirstG p f l) :
    x ∈ l ∨ ∃ y ∈ l, p y = true ∧ x = f y := by
  induction l with
  | nil => simp [markFirstG] at h
  | cons y ys ih =>
    unfold markFirstG at h
    by_cases hp : p y = true
    · simp only [hp, ↓reduceIte, List.mem_cons] at h
      rcases h with rfl | h
      · exact Or.inr ⟨y, by simp, hp, rfl⟩
      · exact Or.inl (by simp [h])
    · simp only [hp, Bool.false_eq_true, ↓reduceIte, List.mem_cons] at h
      rcases h with rfl | h
      · exact Or.inl (by simp)
      · rcases ih h with h1 | ⟨z, hz, hpz, rfl⟩
        · exact Or.inl (by simp [h1])
        · exact Or.inr ⟨z, by simp [hz], hpz, rfl⟩

/-- a set `_redefAttr` flag always comes from an explicit redeclaration of an attribute of that registered name -/
theorem redefSpec_sound (ro : Attr → Option String) (xs : List (String × Attr)) (acc : List (SA × Bool))
    (hacc : ∀ q ∈ acc, q.2 = true → ∃ p ∈ xs, p.2.redecl.isSome = true ∧ p.2.name = q.1.name) :
    ∀ ys : List (String × Attr), (∀ p ∈ ys, p ∈ xs) → ∀ q ∈ ys.foldl (redefStep ro) acc, q.2 = true →
      ∃ p ∈ xs, p.2.redecl.isSome = true ∧ p.2.name = q.1.name := by
  intro ys
  induction ys generalizing acc with
  | nil => intro _ q hq; exact hacc q hq
  | cons y ys ih =>
    intro hsub
    simp only [List.foldl_cons]
    apply ih (redefStep ro acc y) ?_ (fun p hp => hsub p (by simp [hp]))
    intro q hq hq2
    unfold redefStep at hq
    by_cases hr : y.2.redecl.isSome = true
    · simp only [hr, ↓reduceIte] at hq
      rcases mem_markFirstG _ _ _ q hq with h1 | ⟨z, _, hpz, rfl⟩
      · rcases List.mem_append.mp h1 with h1 | h1
        · exact hacc q h1 hq2
        · simp at h1; subst h1; simp at hq2
      · have : z.1.name = y.2.name := by
          have h2 := hpz; simp only [Bool.and_eq_true, beq_iff_eq] at h2; exact h2.1
        exact ⟨y, hsub y (by simp), hr, this.symm⟩
    · simp only [hr] at hq
      rcases List.mem_append.mp hq with h1 | h1
      · exact hacc q h1 hq2
      · simp at h1; subst h1; simp at hq2

end StepModel.GenCxx

import StepModel.Generated.AccessorGen
/-!
# Model of the generated accessor / mutator bodies (src/exp2cxx/classes_attribute.c)

The statement lists per attribute kind are regenerated from the emission code (`Generated/AccessorGen.lean`); this file gives
them a meaning over the data member behind one attribute.

* the member is a cell `Option V`: `none` = a null pointer (entity reference, aggregate pointer, inverse-attribute slot) —
  members of value kinds always hold a value;
* the mutator's argument is an `Option V` as well (`none` = a null pointer argument);
* `ensure` = `if( !_m ) _m = new T;` (`fresh` is what `new T` makes), `assign` = `_m = x;`, `put` = `_m.put( x );`,
  `shallowCopy` = `_m->ShallowCopy( *x );` (dereferences both: a null member or argument is a crash, not a default),
  `retMember` / `retAddr` = `return _m;` / `return &_m;` (the caller sees the member).
What `put`, `operator=` and `ShallowCopy` of the library classes do (store / copy the value) is modelled, not verified.
-/
namespace StepModel.Accessors
open StepModel.Generated

inductive Outcome (V : Type)
  | done (cell : Option V) (ret : Option (Option V))
  | crash
  deriving Repr

def execStmt {V : Type} (fresh : V) (x : Option V) : AccStmt → Option V → Outcome V
  | .ensure, c => .done (match c with | none => some fresh | some v => some v) none
  | .retMember, c => .done c (some c)
  | .retAddr, c => .done c (some c)
  | .assign, _ => .done x none
  | .put, _ => .done x none
  | .shallowCopy, c =>
    match c, x with
    | some _, some v => .done (some v) none
    | _, _ => .crash

/-- run a body; stops at the first `return` -/
def exec {V : Type} (fresh : V) (x : Option V) : List AccStmt → Option V → Outcome V
  | [], c => .done c none
  | s :: rest, c =>
    match execStmt fresh x s c with
    | .crash => .crash
    | .done c' (some r) => .done c' (some r)
    | .done c' none => exec fresh x rest c'

/-- mutator of kind `k` applied to member `c` with argument `x` -/
def setter {V : Type} (fresh : V) (k : AccKind) (c : Option V) (x : Option V) : Outcome V := exec fresh x (accSetter k) c
/-- accessors (they take no argument) -/
def getter {V : Type} (fresh : V) (k : AccKind) (c : Option V) : Outcome V := exec fresh none (accGetter k) c
def constGetter {V : Type} (fresh : V) (k : AccKind) (c : Option V) : Outcome V := exec fresh none (accConstGetter k) c

end StepModel.Accessors

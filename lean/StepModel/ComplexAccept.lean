import StepModel.ComplexSafeTop
/-!
# What an acceptance by the matcher model implies, for every collect and request without multiply-inheriting members

`accept_needs`: if `supports` answers `true`, some list of the collect has its supertype (the root of the hierarchy)
among the parts and mentions every part — the "contains every supertype, up to the root" and "one object" clauses of the
property at the level of the whole list.  (The finer clauses are the business of `Complex.evalB`; see notes.)
-/
namespace StepModel.Complex.Match
open StepModel.Generated StepModel.Complex

theorem containsWalk_sub : ∀ (ours theirs : List Name), containsWalk ours theirs = true → ∀ x ∈ theirs, x ∈ ours
  | _, [], _, x, hx => by cases hx
  | [], _ :: _, h, _, _ => by simp [containsWalk] at h
  | o :: ours, t :: theirs, h, x, hx => by
    simp only [containsWalk] at h
    split at h
    · exact List.mem_cons_of_mem _ (containsWalk_sub ours (t :: theirs) h x hx)
    · split at h
      · cases h
      · rename_i h1 h2
        have hot : o = t := Nat.le_antisymm (Nat.not_lt.mp h2) (Nat.not_lt.mp h1)
        rcases List.mem_cons.mp hx with e | e
        · rw [e, hot]; simp
        · exact List.mem_cons_of_mem _ (containsWalk_sub ours theirs h x e)

theorem ok_bind {α β : Type} (a : α) (f : α → Outcome β) : (Outcome.ok a >>= f) = f a := rfl

theorem pure_bind' {α β : Type} (a : α) (f : α → Outcome β) : ((pure a : Outcome α) >>= f) = f a := rfl
theorem pure_eq_ok {α : Type} (a : α) : (pure a : Outcome α) = Outcome.ok a := rfl

theorem foldlM_true {c : Collect} {f : Tree → Outcome Bool} :
    ∀ (acc : Bool), c.foldlM (fun a h => if a = true then pure true else f h) acc = .ok true →
      acc = true ∨ ∃ h ∈ c, f h = .ok true := by
  induction c with
  | nil => intro acc h; simp only [List.foldlM] at h; left; cases h; rfl
  | cons a c ih =>
    intro acc h
    simp only [List.foldlM_cons] at h
    cases acc with
    | true => exact Or.inl rfl
    | false =>
      simp only [Bool.false_eq_true, if_false] at h
      obtain ⟨b, hb, hrest⟩ := bind_ok h
      rcases ih b hrest with h1 | ⟨h', hh', hf⟩
      · subst h1; exact Or.inr ⟨a, by simp, hb⟩
      · exact Or.inr ⟨h', List.mem_cons_of_mem _ hh', hf⟩

theorem findEq_mem (n : Name) : ∀ (es : Ents) (k i : Nat), findEq n es k = some i → n ∈ names es := by
  intro es
  induction es with
  | nil => intro k i h; simp [findEq] at h
  | cons e es ih =>
    intro k i h
    unfold findEq at h
    split at h
    · rename_i he; simp [names, he]
    · split at h
      · cases h
      · have := ih (k + 1) i h
        simp only [names, List.map_cons, List.mem_cons] at this ⊢
        exact Or.inr this

/-- a list whose supertype is not among the parts is not matched -/
theorem matchesList_needs_root (fuel : Nat) (combo : Bool) (r : Name) (rest : List Tree) (es : Ents)
    (h : matchesList (fuel + 3) combo (.and (.simple r :: rest)) es = .ok true) : r ∈ names es := by
  by_cases hr : r ∈ names es
  · exact hr
  · exfalso
    have hnone : findEq r es 0 = none := by
      cases hf : findEq r es 0 with
      | none => rfl
      | some i => exact absurd (findEq_mem r es 0 i hf) hr
    simp only [matchesList, buildList] at h
    split at h
    · cases h
    · -- the first child of the head AND is UNSATISFIED, so is the head
      have hstep : matchNonORs (fuel + 3) (fresh (.and (.simple r :: rest))) es =
          .ok (.mult .and .unsat orInitChoice orInitChoice1 orInitCount (fresh (.simple r) |> fun _ =>
            (ST.simple r .unsat .no) :: freshL rest), es, .unsat) := by
        simp [fresh, freshL, matchNonORs, andNonORs, ST.isOr, simpleMatchNonORs, hnone, ok_bind, pure_bind', pure_eq_ok]
      rw [hstep] at h
      simp [ok_bind, pure_eq_ok] at h

/-- **An acceptance needs the root and stays inside one list** (requests without multiply-inheriting members) -/
theorem accept_needs (c : Collect) (parts : List Name) (h : supports c [] parts = .ok true) :
    ∃ hd ∈ c, ∃ r rest, hd = .and (.simple r :: rest) ∧ r ∈ parts ∧ ∀ n ∈ parts, n ∈ leaves hd := by
  unfold supports supportsEnts at h
  have hnm : (mkEnts [] parts).any (fun e => e.mult) = false := by
    simp [mkEnts]
  simp only [hnm, Bool.false_eq_true, if_false] at h
  rcases foldlM_true false h with h1 | ⟨hd, hhd, hm⟩
  · cases h1
  · refine ⟨hd, hhd, ?_⟩
    -- the head has the expected shape, else `matches` is a crash
    cases hb : buildList hd with
    | none => simp [matchesList, hb] at hm
    | some list =>
      have hshape : ∃ r rest, hd = .and (.simple r :: rest) := by
        unfold buildList at hb
        split at hb
        · exact ⟨_, _, rfl⟩
        · cases hb
      obtain ⟨r, rest, rfl⟩ := hshape
      have hnames : names (mkEnts [] parts) = mkNames parts := by
        simp [names, mkEnts, List.map_map, Function.comp_def]
      have hfuel : defaultFuel c = (defaultFuel c - 3) + 3 := by unfold defaultFuel; omega
      refine ⟨r, rest, rfl, ?_, ?_⟩
      · rw [hfuel] at hm
        have := matchesList_needs_root _ false r rest _ hm
        rw [hnames] at this
        exact (mem_mkNames parts r).mp this
      · intro n hn
        simp only [matchesList, hb] at hm
        split at hm
        · cases hm
        · rename_i hcw
          have hcw' : containsWalk list ((mkEnts [] parts).map (·.name)) = true := by simpa using hcw
          have hin := containsWalk_sub list _ hcw' n (by
            have : (mkEnts [] parts).map (·.name) = mkNames parts := hnames
            rw [this]; exact (mem_mkNames parts n).mpr hn)
          simp only [buildList, Option.some.injEq] at hb
          rw [← hb] at hin
          have := (mem_insAll (leavesL rest) [r] n).mp hin
          simp only [leaves, leavesL, List.mem_append, List.mem_singleton, List.mem_cons, List.mem_nil_iff, or_false]
          rcases this with h1 | h1
          · simp at h1; exact Or.inl h1
          · exact Or.inr h1

end StepModel.Complex.Match

import StepModel.P21SafeLoops
/-! C05 — the instance loop of pass 1 (`STEPfile::ReadData1`, src/cleditor/STEPfile.cc; `ReadData2` has the same loop
shape with `ReadInstance` in the place of `CreateInstance`) on the stream model of `P21SafeLoops`:

  `foundEndSecKywd`     `FoundEndSecKywd` (src/clstepcore/read_func.cc)
  `readStdKeyword`      `ReadStdKeyword`
  `createInstanceSkel`  the skeleton of `STEPfile::CreateInstance`: token separators, `in >> fileid`, `=`, the kind of
                        record, and on **every** path `SkipInstance` (error paths) or `SkipInstance; ReadTokenSeparator`
  `recoverStart…`       the resynchronisation loop `while( c != '#' && in.good() && !( endsec = FoundEndSecKywd( in ) ) )`
  `dataLoop`            the `while( in.good() && !endsec )` loop with the `_entsNotCreated > _maxErrorCount` cut-off

What the registry / instance manager decide (is the keyword a known entity, is the id already taken, does the external
mapping name a legal combination) enters as an *oracle* `Oracle`; the reading of an external mapping's parts
(`CreateSubSuperInstance`) enters as a function `sub` of which the theorems only assume that it never un-reads.
Not modelled: the `&SCOPE` branch (`CreateScopeInstances`, which re-enters `CreateInstance`) — files without `&SCOPE` are
the domain of the theorems (`_partial`).  Working-session state letters are modelled (`headStage`). -/
namespace StepModel.P21Safe

def chEq : Byte := 61
def chAmp : Byte := 38
def chLParen : Byte := 40
def chBang : Byte := 33

/-- what the dictionary and the instance manager decide -/
structure Oracle where
  /-- `instances().FindFileId( fileid )` is non-null (the id is taken) -/
  dup : IS → Bool
  /-- `reg().ObjCreate( keyword )` gives a usable instance -/
  known : List Byte → Bool
  /-- `CreateSubSuperInstance` gives a usable instance -/
  complexOk : IS → Bool

/-- match the rest of a keyword with `in.get( c )` per letter; the first character that differs is put back -/
def matchKw : List Byte → IS → Byte → IS × Bool
  | [], s, _ => (s, true)
  | k :: ks, s, c =>
    match s.get with
    | (s1, some c1) => if c1 = k then matchKw ks s1 c1 else (s1.putback c1, false)
    | (s1, none) => if c = k then matchKw ks s1 c else (s1.putback c, false)

def kwENDSEC : List Byte := [69, 78, 68, 83, 69, 67]

/-- `FoundEndSecKywd` -/
def foundEndSecKywd (s : IS) : IS × Bool :=
  match matchKw kwENDSEC s.ws 0 with
  | (s1, false) => (s1, false)
  | (s1, true) =>
    match s1.ws.get with
    | (s2, some c) => if c = chSemi then (s2, true) else (s2.putback c, false)
    | (s2, none) => (s2.putback 67, false)      -- stale `c == 'C'`

/-- the `while( in.get( c ) && !isspace( c ) && ( isalnum( c ) || c == '_' ) )` loop: (keyword reversed, stream, last c, get failed) -/
def kwLoop : List Byte → List Byte → List Byte → List Byte × List Byte × List Byte × Option Byte
  | pre, [], acc => (pre, [], acc, none)
  | pre, c :: r, acc =>
    if !isSpace c && (isAlnum c || c = chUnderscore) then kwLoop (c :: pre) r (c :: acc)
    else (c :: pre, r, acc, some c)

/-- `ReadStdKeyword( in, buf, 1 )`: the stream afterwards and the keyword -/
def readStdKeyword (s : IS) : IS × List Byte :=
  let s := s.ws
  if !s.good then ({ s with fail := true, eof := false }, []) else   -- `in.get` fails; `eof() || good()` is false unless eof: putback clears eof
  match kwLoop s.pre s.rest [] with
  | (pre, rest, acc, some c) => (({ s with pre := pre, rest := rest } : IS).putback c, acc.reverse)
  | (pre, _, acc, none) => ({ s with pre := pre, rest := [], eof := false, fail := true }, acc.reverse)

/-- an error path of `CreateInstance`: `SkipInstance( in, tmpbuf ); return ENTITY_NULL;` -/
def ciFail (skip : IS → Out LoopRes) (s : IS) (st : Nat) : Out LoopRes :=
  match skip s with
  | .ok r => .ok ⟨r.s, 0, 0, st + r.steps⟩
  | .overflow i k => .overflow i k
  | .outOfFuel => .outOfFuel

/-- the success path: `SkipInstance( in, tmpbuf ); ReadTokenSeparator( in ); return obj;` -/
def ciDone (tok skip : IS → Out LoopRes) (s : IS) (st : Nat) : Out LoopRes :=
  match skip s with
  | .ok r =>
    match tok r.s with
    | .ok r' => .ok ⟨r'.s, 1, 0, st + r.steps + r'.steps⟩
    | .overflow i k => .overflow i k
    | .outOfFuel => .outOfFuel
  | .overflow i k => .overflow i k
  | .outOfFuel => .outOfFuel

/-- the record after `=`: external mapping (`sub` reads its parts), user-defined (`!`) or keyword -/
def ciRecord (o : Oracle) (sub : IS → IS) (tok skip : IS → Out LoopRes) (s : IS) (st : Nat) : Out LoopRes :=
  match s.peek with
  | (s3, p) =>
    if p = some chLParen then
      if o.complexOk (sub s3) then ciDone tok skip (sub s3) st else ciFail skip (sub s3) st
    else if p = some chBang then
      ciFail skip (readStdKeyword (s3.get).1).1 (st + (readStdKeyword (s3.get).1).2.length)
    else if o.known (readStdKeyword s3).2 then ciDone tok skip (readStdKeyword s3).1 (st + (readStdKeyword s3).2.length)
    else ciFail skip (readStdKeyword s3).1 (st + (readStdKeyword s3).2.length)

/-- `STEPfile::CreateInstance` after the `#`: `sev` = 1 when an instance is returned -/
def createInstanceSkel (o : Oracle) (sub : IS → IS) (tok skip : IS → Out LoopRes) (s : IS) : Out LoopRes :=
  match tok s with
  | .ok r0 =>
    if o.dup r0.s.extractInt then ciFail skip r0.s.extractInt (r0.steps + 1) else
    match tok r0.s.extractInt with
    | .ok r1 =>
      if (r1.s.get).2 ≠ some chEq then ciFail skip (r1.s.get).1 (r0.steps + r1.steps + 2) else
      match tok (r1.s.get).1 with
      | .ok r2 => ciRecord o sub tok skip r2.s (r0.steps + r1.steps + r2.steps + 3)
      | .overflow i k => .overflow i k
      | .outOfFuel => .outOfFuel
    | .overflow i k => .overflow i k
    | .outOfFuel => .outOfFuel
  | .overflow i k => .overflow i k
  | .outOfFuel => .outOfFuel

structure DataRes where
  s : IS
  endsec : Bool
  notCreated : Nat
  count : Nat
  steps : Nat
  aborted : Bool
  deriving Repr

/-- one iteration of `while( c != '#' && in.good() && !( endsec = FoundEndSecKywd( in ) ) )`: returns the stream, `c`,
`endsec` and the steps -/
def recoverStep (rec : IS → Byte → Nat → Out (IS × Byte × Bool × Nat)) (findStart tok : IS → Out LoopRes)
    (s : IS) (c : Byte) (steps : Nat) : Out (IS × Byte × Bool × Nat) :=
  if c ≠ chHash && s.good then
    match foundEndSecKywd s with
    | (s1, true) => .ok (s1, c, true, steps + 1)
    | (s1, false) =>
      match findStart s1 with
      | .ok r =>
        match r.s.extract with
        | (s2, c2?) =>
          match tok s2 with
          | .ok r2 => rec r2.s (c2?.getD c) (steps + 1 + r.steps + r2.steps)
          | .overflow i k => .overflow i k
          | .outOfFuel => .outOfFuel
      | .overflow i k => .overflow i k
      | .outOfFuel => .outOfFuel
  else .ok (s, c, false, steps)

def recoverLoop (findStart tok : IS → Out LoopRes) : Nat → IS → Byte → Nat → Out (IS × Byte × Bool × Nat)
  | 0 => fun _ _ _ => .outOfFuel
  | fuel + 1 => recoverStep (recoverLoop findStart tok fuel) findStart tok

/-- `strchr( "CIND", c )` — the terminating NUL of the literal matches `c == 0` too -/
def isStateLetter (c : Byte) : Bool := c = 67 || c = 73 || c = 78 || c = 68 || c = 0

/-- the head of one iteration: `ReadTokenSeparator; in >> c;` and, for a working-session file, the state letter:
`if( strchr( "CIND", c ) ) { inst_state = EntityWfState( c ); ReadTokenSeparator; in >> c; }`
(pass 1 sets `incompleteSE` for any other character, pass 2 keeps the previous `inst_state`).
Returns stream, `c`, "the instance is marked deleted", steps. -/
def headStage (tok : IS → Out LoopRes) (wsMode pass2 : Bool) (s : IS) (c : Byte) (del : Bool) (steps : Nat) :
    Out (IS × Byte × Bool × Nat) :=
  match tok s with
  | .ok r0 =>
    let c1 := (r0.s.extract).2.getD c
    if wsMode && isStateLetter c1 then
      match tok (r0.s.extract).1 with
      | .ok r1 => .ok ((r1.s.extract).1, (r1.s.extract).2.getD c1, c1 = 68, steps + 2 + r0.steps + r1.steps)
      | .overflow i k => .overflow i k
      | .outOfFuel => .outOfFuel
    else .ok ((r0.s.extract).1, c1, if wsMode && !pass2 then false else del, steps + 1 + r0.steps)
  | .overflow i k => .overflow i k
  | .outOfFuel => .outOfFuel

/-- one iteration of `while( in.good() && !endsec )` of `ReadData1` / `ReadData2`.  `c` and `del` (`inst_state == deleteSE`)
are the C variables, kept across iterations.  `inst del s` reads one instance (`CreateInstance` resp. `ReadInstance`, or
`SkipInstance` when the instance is marked deleted): `sev` 1 = counted as good, 0 = counted against `_maxErrorCount`,
2 = not counted (pass 2, deleted). -/
def dataStep (rec : IS → Bool → Byte → Bool → Nat → Nat → Nat → Out DataRes)
    (recover : IS → Byte → Nat → Out (IS × Byte × Bool × Nat))
    (inst : Bool → IS → Out LoopRes) (tok : IS → Out LoopRes) (wsMode pass2 : Bool) (maxErr : Nat)
    (s : IS) (endsec : Bool) (c : Byte) (del : Bool) (nc cnt steps : Nat) : Out DataRes :=
  if s.good && !endsec then
    match headStage tok wsMode pass2 s c del steps with
    | .ok (s1, c1, del1, st0) =>
      let rc : Out (IS × Byte × Bool × Nat) :=
        if c1 ≠ chHash then recover (s1.putback c1) c1 st0 else .ok (s1, c1, false, st0)
      match rc with
      | .ok (s2, c2, true, st) => rec s2 true c2 del1 nc cnt st
      | .ok (s2, c2, false, st) =>
        match inst (wsMode && del1) s2 with
        | .ok r =>
          let (nc', cnt') := if r.sev = 1 then (nc, cnt + 1) else if r.sev = 0 then (nc + 1, cnt) else (nc, cnt)
          if nc' > maxErr then .ok ⟨r.s, false, nc', cnt', st + r.steps, true⟩
          else
            let (s3, e) := foundEndSecKywd r.s
            rec s3 e c2 del1 nc' cnt' (st + r.steps + 1)
        | .overflow i k => .overflow i k
        | .outOfFuel => .outOfFuel
      | .overflow i k => .overflow i k
      | .outOfFuel => .outOfFuel
    | .overflow i k => .overflow i k
    | .outOfFuel => .outOfFuel
  else .ok ⟨s, endsec, nc, cnt, steps, false⟩

def dataLoop (recover : IS → Byte → Nat → Out (IS × Byte × Bool × Nat)) (inst : Bool → IS → Out LoopRes) (tok : IS → Out LoopRes)
    (wsMode pass2 : Bool) (maxErr : Nat) : Nat → IS → Bool → Byte → Bool → Nat → Nat → Nat → Out DataRes
  | 0 => fun _ _ _ _ _ _ _ => .outOfFuel
  | fuel + 1 => dataStep (dataLoop recover inst tok wsMode pass2 maxErr fuel) recover inst tok wsMode pass2 maxErr

/-- an instance marked deleted (working-session file) is skipped with `SkipInstance` and not counted, in both passes -/
def instOrSkip (rd skip : IS → Out LoopRes) (del : Bool) (s : IS) : Out LoopRes :=
  if del then
    match skip s with
    | .ok r => .ok ⟨r.s, 2, 0, r.steps⟩
    | .overflow i k => .overflow i k
    | .outOfFuel => .outOfFuel
  else rd s

/-- `ReadData1`: `endsec = FoundEndSecKywd( in )` first, then the loop.  `wsMode`: working-session file. -/
def readData1 (o : Oracle) (sub : IS → IS) (cm wsMode : Bool) (iters maxErr fuel : Nat) (s : IS) : Out DataRes :=
  let tok := readTokenSeparator cm iters fuel
  let skip := skipInstance cm iters fuel
  let (s0, e) := foundEndSecKywd s
  dataLoop (recoverLoop (findStartOfInstance fuel) tok fuel) (instOrSkip (createInstanceSkel o sub tok skip) skip) tok wsMode false
    maxErr fuel s0 e 0 false 0 0 0

/-- `ReadData2`: the same loop with `ReadInstance` (`ri`: any per-instance reader) in the place of `CreateInstance` -/
def readData2 (ri : IS → Out LoopRes) (cm wsMode : Bool) (iters maxErr fuel : Nat) (s : IS) : Out DataRes :=
  let tok := readTokenSeparator cm iters fuel
  let skip := skipInstance cm iters fuel
  let (s0, e) := foundEndSecKywd s
  dataLoop (recoverLoop (findStartOfInstance fuel) tok fuel) (instOrSkip ri skip) tok wsMode true maxErr fuel s0 e 0 false 0 0 0

end StepModel.P21Safe

import StepModel.P21SafeLoops
/-! C05 — the instance loop of pass 1 (`STEPfile::ReadData1`, src/cleditor/STEPfile.cc; `ReadData2` has the same loop
shape with `ReadInstance` in the place of `CreateInstance`) on the stream model of `P21SafeLoops`:

  `foundEndSecKywd`     `FoundEndSecKywd` (src/clstepcore/read_func.cc)
  `readStdKeyword`      `ReadStdKeyword`
  `createInstanceSkel`  the skeleton of `STEPfile::CreateInstance`: token separators, `in >> fileid`, `=`, the kind of
                        record, and on **every** path `SkipInstance` (error paths) or `SkipInstance; ReadTokenSeparator`
  `recoverStart…`       the resynchronisation loop `while( c != '#' && in.good() && !( endsec = FoundEndSecKywd( in ) ) )`
  `dataLoop`            the `while( in.good() && !endsec )` loop with the `_entsNotCreated > _maxErrorCount` cut-off

What the registry / instance manager decide (is the keyword a known entity, is the id already taken, does the external
mapping name a legal combination) enters as an *oracle* `Oracle`; the reading of an external mapping's parts
(`CreateSubSuperInstance` with `SkipSimpleRecord`, `PushPastImbedAggr`, `PushPastString`) is modelled (`createSubSuper`).
The `&SCOPE` branch is modelled as the code behaves: `GetKeyword` never accepts `&`, so `CreateScopeInstances` always takes
its first error exit (`ciRecord`).  Working-session state letters are modelled (`headStage`). -/
namespace StepModel.P21Safe

def chEq : Byte := 61
def chAmp : Byte := 38
def chLParen : Byte := 40
def chBang : Byte := 33

/-- what the dictionary and the instance manager decide -/
structure Oracle where
  /-- `instances().FindFileId( fileid )` is non-null (the id is taken) -/
  dup : IS → Bool
  /-- `reg().ObjCreate( keyword )` gives a usable instance -/
  known : List Byte → Bool
  /-- `CreateSubSuperInstance` gives a usable instance -/
  complexOk : IS → Bool

/-- match the rest of a keyword with `in.get( c )` per letter; the first character that differs is put back -/
def matchKw : List Byte → IS → Byte → IS × Bool
  | [], s, _ => (s, true)
  | k :: ks, s, c =>
    match s.get with
    | (s1, some c1) => if c1 = k then matchKw ks s1 c1 else (s1.putback c1, false)
    | (s1, none) => if c = k then matchKw ks s1 c else (s1.putback c, false)

def kwENDSEC : List Byte := [69, 78, 68, 83, 69, 67]

/-- `FoundEndSecKywd` -/
def foundEndSecKywd (s : IS) : IS × Bool :=
  match matchKw kwENDSEC s.ws 0 with
  | (s1, false) => (s1, false)
  | (s1, true) =>
    match s1.ws.get with
    | (s2, some c) => if c = chSemi then (s2, true) else (s2.putback c, false)
    | (s2, none) => (s2.putback 67, false)      -- stale `c == 'C'`

/-- the `while( in.get( c ) && !isspace( c ) && ( isalnum( c ) || c == '_' ) )` loop: (keyword reversed, stream, last c, get failed) -/
def kwLoop : List Byte → List Byte → List Byte → List Byte × List Byte × List Byte × Option Byte
  | pre, [], acc => (pre, [], acc, none)
  | pre, c :: r, acc =>
    if !isSpace c && (isAlnum c || c = chUnderscore) then kwLoop (c :: pre) r (c :: acc)
    else (c :: pre, r, acc, some c)

/-- `ReadStdKeyword( in, buf, 1 )`: the stream afterwards and the keyword -/
def readStdKeyword (s : IS) : IS × List Byte :=
  let s := s.ws
  if !s.good then ({ s with fail := true, eof := false }, []) else   -- `in.get` fails; `eof() || good()` is false unless eof: putback clears eof
  match kwLoop s.pre s.rest [] with
  | (pre, rest, acc, some c) => (({ s with pre := pre, rest := rest } : IS).putback c, acc.reverse)
  | (pre, _, acc, none) => ({ s with pre := pre, rest := [], eof := false, fail := true }, acc.reverse)

/-! ### the parts of an external mapping: `CreateSubSuperInstance`, `SkipSimpleRecord`, `PushPastImbedAggr`, `PushPastString`

`bad` is `err->severity() <= SEVERITY_INPUT_ERROR` of the `ErrorDescriptor err` that `CreateSubSuperInstance` shares over
all parts (it is never cleared): once a part's record was not closed, every later `SkipSimpleRecord` reads one character
and stops. -/

/-- does `GetLiteralStr` report "Missing closing quote" (`allDelimsEscaped` at the end) on this stream? -/
def litUnclosed (s : IS) : Bool :=
  let s := s.ws
  if !s.good then false else
  match s.rest with
  | c :: r => if c = chQuote then (litLoop r [c] true).2.2.2 else false
  | [] => false

/-- one iteration of `while( in.good() )` in `PushPastImbedAggr`; returns stream, depth still open, `bad`, steps.
`stay` (regenerated): a `;` outside a string literal is put back and ends the loop — the aggregate does not leave the record. -/
def aggrStep (rec : IS → Byte → Nat → Bool → Nat → Out (IS × Nat × Bool × Nat)) (stay : Bool) (s : IS) (c : Byte) (depth : Nat) (bad : Bool)
    (steps : Nat) : Out (IS × Nat × Bool × Nat) :=
  if !s.good then .ok (s, depth, bad, steps) else
  if c = chLParen then
    rec (s.get).1 ((s.get).2.getD c) (depth + 1) bad (steps + 1)
  else if c = chQuote then
    let p := s.putback c
    let s1 := (getLiteralStr p).1
    rec (s1.get).1 ((s1.get).2.getD c) depth (bad || litUnclosed p) (steps + 1 + (getLiteralStr p).2.length)
  else if c = chRParen then
    if depth - 1 = 0 then .ok (s, 0, bad, steps + 1)
    else rec (s.get).1 ((s.get).2.getD c) (depth - 1) bad (steps + 1)
  else if stay && c = chSemi then .ok (s.putback c, depth, bad, steps + 1)
  else rec (s.get).1 ((s.get).2.getD c) depth bad (steps + 1)

def aggrLoop (stay : Bool) : Nat → IS → Byte → Nat → Bool → Nat → Out (IS × Nat × Bool × Nat)
  | 0 => fun _ _ _ _ _ => .outOfFuel
  | fuel + 1 => aggrStep (aggrLoop stay fuel) stay

/-- `PushPastImbedAggr`: stream, `bad`, steps -/
def pushPastImbedAggr (stay : Bool) (fuel : Nat) (s : IS) (bad : Bool) (steps : Nat) : Out (IS × Bool × Nat) :=
  let s0 := s.ws
  match s0.get with
  | (s1, some c) =>
    if c = chLParen then
      match aggrLoop stay fuel (s1.get).1 ((s1.get).2.getD c) 1 bad (steps + 1) with
      | .ok (s2, depth, bad2, st) => .ok (s2, bad2 || decide (depth > 0), st)
      | .overflow i k => .overflow i k
      | .outOfFuel => .outOfFuel
    else .ok (s1, bad, steps)
  | (s1, none) => .ok (s1, bad, steps)

/-- one iteration of `while( in.get( c ) && ( c != ')' ) && ( err->severity() > SEVERITY_INPUT_ERROR ) )` -/
def recordStep (rec : IS → Bool → Nat → Out (IS × Bool × Nat)) (aggr : IS → Bool → Nat → Out (IS × Bool × Nat))
    (s : IS) (bad : Bool) (steps : Nat) : Out (IS × Bool × Nat) :=
  match s.get with
  | (s1, none) => .ok (s1, bad, steps + 1)
  | (s1, some c) =>
    if c = chRParen || bad then .ok (s1, bad, steps + 1)
    else if c = chQuote then
      let p := s1.putback c
      rec (getLiteralStr p).1 (bad || litUnclosed p) (steps + 1 + (getLiteralStr p).2.length)
    else if c = chLParen then
      match aggr (s1.putback c) bad (steps + 1) with
      | .ok (s2, bad2, st) => rec s2 bad2 st
      | .overflow i k => .overflow i k
      | .outOfFuel => .outOfFuel
    else rec s1 bad (steps + 1)

def recordLoop (aggr : IS → Bool → Nat → Out (IS × Bool × Nat)) : Nat → IS → Bool → Nat → Out (IS × Bool × Nat)
  | 0 => fun _ _ _ => .outOfFuel
  | fuel + 1 => recordStep (recordLoop aggr fuel) aggr

/-- `SkipSimpleRecord` -/
def skipSimpleRecord (stay : Bool) (fuel : Nat) (s : IS) (bad : Bool) (steps : Nat) : Out (IS × Bool × Nat) :=
  let s0 := s.ws
  match s0.get with
  | (s1, some c) =>
    if c = chLParen then
      match recordLoop (pushPastImbedAggr stay fuel) fuel s1 bad steps with
      | .ok (s2, bad2, st) => .ok (s2, bad2 || !s2.good, st)
      | .overflow i k => .overflow i k
      | .outOfFuel => .outOfFuel
    else .ok (s1.putback c, bad, steps)
  | (s1, none) => .ok (s1.putback 0, bad, steps)

/-- `while( in.good() && ( c != ')' ) && !isalpha( c ) ) { in >> c; c = in.peek(); }` — `c?` is what the last `peek`
returned (none: end of input); returns the stream, the last peek and the steps -/
def garbageStep (rec : IS → Option Byte → Nat → Out (IS × Option Byte × Nat)) (s : IS) (c? : Option Byte) (steps : Nat) :
    Out (IS × Option Byte × Nat) :=
  match c? with
  | some c =>
    if s.good && c ≠ chRParen && !isAlpha c then
      rec ((s.extract).1.peek).1 ((s.extract).1.peek).2 (steps + 1)
    else .ok (s, c?, steps)
  | none => .ok (s, none, steps)

def garbageLoop : Nat → IS → Option Byte → Nat → Out (IS × Option Byte × Nat)
  | 0 => fun _ _ _ => .outOfFuel
  | fuel + 1 => garbageStep (garbageLoop fuel)

/-- `enaIndex < guard` (no guard: always) -/
def underGuard : Option Nat → Nat → Bool
  | some g, idx => decide (idx < g)
  | none, _ => true

/-- one iteration of the part loop `while( in.good() && ( c != ')' ) && ( enaIndex < guard ) )`; `c?` is the last
`c = in.peek()`.  Returns stream, number of part names, steps. -/
def partStep (rec : IS → Option Byte → Nat → Bool → Nat → Out (IS × Nat × Nat)) (record : IS → Bool → Nat → Out (IS × Bool × Nat))
    (garbage : IS → Option Byte → Nat → Out (IS × Option Byte × Nat)) (guard : Option Nat)
    (s : IS) (c? : Option Byte) (idx : Nat) (bad : Bool) (steps : Nat) : Out (IS × Nat × Nat) :=
  match c? with
  | some c =>
    if s.good && c ≠ chRParen && underGuard guard idx then
      let kw := readStdKeyword s
      let cont (s2 : IS) (idx2 : Nat) (bad2 : Bool) (st : Nat) : Out (IS × Nat × Nat) :=
        match garbage (s2.ws.peek).1 (s2.ws.peek).2 st with
        | .ok (s3, c3?, st3) => rec s3 c3? idx2 bad2 st3
        | .overflow i k => .overflow i k
        | .outOfFuel => .outOfFuel
      if kw.2.isEmpty then cont kw.1 idx bad (steps + 1)
      else
        match record kw.1 bad (steps + 1 + kw.2.length) with
        | .ok (s2, bad2, st) => cont s2 (idx + 1) bad2 st
        | .overflow i k => .overflow i k
        | .outOfFuel => .outOfFuel
    else .ok (s, idx, steps)
  | none => .ok (s, idx, steps)

def partLoop (record : IS → Bool → Nat → Out (IS × Bool × Nat)) (garbage : IS → Option Byte → Nat → Out (IS × Option Byte × Nat))
    (guard : Option Nat) : Nat → IS → Option Byte → Nat → Bool → Nat → Out (IS × Nat × Nat)
  | 0 => fun _ _ _ _ _ => .outOfFuel
  | fuel + 1 => partStep (partLoop record garbage guard fuel) record garbage guard

/-- `CreateSubSuperInstance` as far as the stream is concerned: `in >> ws; in.get( c ); c = in.peek();` then the part
loop.  `sev` carries the number of part names collected.  (The part loop may make one iteration that consumes nothing —
a first character that is neither a letter nor `)` — so it is given `2·fuel`.) -/
def createSubSuper (stay : Bool) (guard : Option Nat) (fuel : Nat) (s : IS) : Out LoopRes :=
  let s1 := (s.ws.get).1
  match partLoop (skipSimpleRecord stay fuel) (garbageLoop fuel) guard (2 * fuel) (s1.peek).1 (s1.peek).2 0 false 1 with
  | .ok (s2, n, st) => .ok ⟨s2, n, 0, st⟩
  | .overflow i k => .overflow i k
  | .outOfFuel => .outOfFuel

/-- an error path of `CreateInstance`: `SkipInstance( in, tmpbuf ); return ENTITY_NULL;` -/
def ciFail (skip : IS → Out LoopRes) (s : IS) (st : Nat) : Out LoopRes :=
  match skip s with
  | .ok r => .ok ⟨r.s, 0, 0, st + r.steps⟩
  | .overflow i k => .overflow i k
  | .outOfFuel => .outOfFuel

/-- the success path: `SkipInstance( in, tmpbuf ); ReadTokenSeparator( in ); return obj;` -/
def ciDone (tok skip : IS → Out LoopRes) (s : IS) (st : Nat) : Out LoopRes :=
  match skip s with
  | .ok r =>
    match tok r.s with
    | .ok r' => .ok ⟨r'.s, 1, 0, st + r.steps + r'.steps⟩
    | .overflow i k => .overflow i k
    | .outOfFuel => .outOfFuel
  | .overflow i k => .overflow i k
  | .outOfFuel => .outOfFuel

/-- the record after `=`: external mapping (`sub` = `CreateSubSuperInstance` reads its parts), user-defined (`!`) or keyword -/
def ciRecord (o : Oracle) (sub tok skip : IS → Out LoopRes) (s : IS) (st : Nat) : Out LoopRes :=
  match s.peek with
  | (s3, p) =>
    if p = some chLParen then
      match sub s3 with
      | .ok rs =>
        if o.complexOk rs.s then ciDone tok skip rs.s (st + rs.steps) else ciFail skip rs.s (st + rs.steps)
      | .overflow i k => .overflow i k
      | .outOfFuel => .outOfFuel
    else if p = some chAmp then
      -- `CreateScopeInstances`: `GetKeyword` reads the `&`, finds it is not a keyword character and puts it back; the
      -- comparison with "&SCOPE" therefore always fails: `SkipInstance`, SEVERITY_INPUT_ERROR, `return ENTITY_NULL`
      -- (the rest of `CreateScopeInstances` cannot be reached — regenerated fact `getKeywordAcceptsAmp = false`)
      ciFail skip ((s3.get).1.putback chAmp) (st + 1)
    else if p = some chBang then
      ciFail skip (readStdKeyword (s3.get).1).1 (st + (readStdKeyword (s3.get).1).2.length)
    else if o.known (readStdKeyword s3).2 then ciDone tok skip (readStdKeyword s3).1 (st + (readStdKeyword s3).2.length)
    else ciFail skip (readStdKeyword s3).1 (st + (readStdKeyword s3).2.length)

/-- `STEPfile::CreateInstance` after the `#`: `sev` = 1 when an instance is returned -/
def createInstanceSkel (o : Oracle) (sub tok skip : IS → Out LoopRes) (s : IS) : Out LoopRes :=
  match tok s with
  | .ok r0 =>
    if o.dup r0.s.extractInt then ciFail skip r0.s.extractInt (r0.steps + 1) else
    match tok r0.s.extractInt with
    | .ok r1 =>
      if (r1.s.get).2 ≠ some chEq then ciFail skip (r1.s.get).1 (r0.steps + r1.steps + 2) else
      match tok (r1.s.get).1 with
      | .ok r2 => ciRecord o sub tok skip r2.s (r0.steps + r1.steps + r2.steps + 3)
      | .overflow i k => .overflow i k
      | .outOfFuel => .outOfFuel
    | .overflow i k => .overflow i k
    | .outOfFuel => .outOfFuel
  | .overflow i k => .overflow i k
  | .outOfFuel => .outOfFuel

structure DataRes where
  s : IS
  endsec : Bool
  notCreated : Nat
  count : Nat
  steps : Nat
  aborted : Bool
  deriving Repr

/-- one iteration of `while( c != '#' && in.good() && !( endsec = FoundEndSecKywd( in ) ) )`: returns the stream, `c`,
`endsec` and the steps -/
def recoverStep (rec : IS → Byte → Nat → Out (IS × Byte × Bool × Nat)) (findStart tok : IS → Out LoopRes)
    (s : IS) (c : Byte) (steps : Nat) : Out (IS × Byte × Bool × Nat) :=
  if c ≠ chHash && s.good then
    match foundEndSecKywd s with
    | (s1, true) => .ok (s1, c, true, steps + 1)
    | (s1, false) =>
      match findStart s1 with
      | .ok r =>
        match r.s.extract with
        | (s2, c2?) =>
          match tok s2 with
          | .ok r2 => rec r2.s (c2?.getD c) (steps + 1 + r.steps + r2.steps)
          | .overflow i k => .overflow i k
          | .outOfFuel => .outOfFuel
      | .overflow i k => .overflow i k
      | .outOfFuel => .outOfFuel
  else .ok (s, c, false, steps)

def recoverLoop (findStart tok : IS → Out LoopRes) : Nat → IS → Byte → Nat → Out (IS × Byte × Bool × Nat)
  | 0 => fun _ _ _ => .outOfFuel
  | fuel + 1 => recoverStep (recoverLoop findStart tok fuel) findStart tok

/-! ### GetKeyword -/

/-- a character `GetKeyword` accepts inside a keyword (`!` only as the first) -/
def kwCharOk (c : Byte) (sz : Nat) : Bool :=
  isUpper c || isDigit c || c = chUnderscore || c = chMinus || (c = chBang && sz = 1)

/-- one iteration of `while( !( isspace( c ) || strchr( delims, c ) ) )` — `strchr` also matches the terminating NUL;
an invalid character, a stream that is no longer good, and the normal end all leave through `in.putback( c )`.
Returns the stream and the keyword (reversed) -/
def getKwStep (rec : IS → Byte → Nat → List Byte → Nat → Out (IS × List Byte × Nat)) (delims : List Byte)
    (s : IS) (c : Byte) (sz : Nat) (acc : List Byte) (steps : Nat) : Out (IS × List Byte × Nat) :=
  if isSpace c || delims.contains c || c = 0 || !kwCharOk c sz || !s.good then .ok (s.putback c, acc, steps)
  else rec (s.get).1 ((s.get).2.getD c) (sz + 1) (c :: acc) (steps + 1)

def getKwLoop (delims : List Byte) : Nat → IS → Byte → Nat → List Byte → Nat → Out (IS × List Byte × Nat)
  | 0 => fun _ _ _ _ _ => .outOfFuel
  | fuel + 1 => getKwStep (getKwLoop delims fuel) delims

/-- `GetKeyword( in, delims, err )`: `sev` unused, `len` = length of the keyword; the keyword itself in `getKeywordStr` -/
def getKeywordFull (delims : List Byte) (fuel : Nat) (s : IS) : Out (IS × List Byte × Nat) :=
  getKwLoop delims fuel (s.get).1 ((s.get).2.getD 0) 1 [] 1

def getKeyword (delims : List Byte) (fuel : Nat) (s : IS) : Out LoopRes :=
  match getKeywordFull delims fuel s with
  | .ok (s', acc, st) => .ok ⟨s', 0, acc.length, st⟩
  | .overflow i k => .overflow i k
  | .outOfFuel => .outOfFuel

/-! ### STEPfile::FindDataSection -/

/-- after a `D`: `peek 'A'; get; peek 'T'; get; peek 'A'; get; in >> ws; peek ';'; get` — the stream and "found" -/
def matchDATA (s : IS) : IS × Bool :=
  if (s.peek).2 = some 65 then
    if ((s.peek).1.get.1.peek).2 = some 84 then
      if (((s.peek).1.get.1.peek).1.get.1.peek).2 = some 65 then
        if ((((s.peek).1.get.1.peek).1.get.1.peek).1.get.1.ws.peek).2 = some 59 then
          (((((s.peek).1.get.1.peek).1.get.1.peek).1.get.1.ws.peek).1.get.1, true)
        else (((((s.peek).1.get.1.peek).1.get.1.peek).1.get.1.ws.peek).1, false)
      else ((((s.peek).1.get.1.peek).1.get.1.peek).1, false)
    else (((s.peek).1.get.1.peek).1, false)
  else ((s.peek).1, false)

/-- one iteration of `while( in.good() )` in `FindDataSection`; `sev` = 1: `DATA;` found -/
def dataSecStep (rec : IS → Nat → Out LoopRes) (comment : IS → Out LoopRes) (s : IS) (steps : Nat) : Out LoopRes :=
  if !s.good then .ok ⟨s, 0, 0, steps⟩ else
  match s.extract with
  | (s1, none) => .ok ⟨s1, 0, 0, steps + 1⟩          -- `in >> c` hit the end: `in.eof()` → return 0
  | (s1, some c) =>
    if c = 68 then
      match matchDATA s1 with
      | (s2, true) => .ok ⟨s2, 1, 0, steps + 1⟩
      | (s2, false) => rec s2 (steps + 1)
    else if c = chQuote then rec (sdaiStringRead (s1.putback c)).1 (steps + 1 + (sdaiStringRead (s1.putback c)).2.length)
    else if c = chSlash then
      match comment (s1.putback c) with
      | .ok r => rec r.s (steps + 1 + r.steps)
      | .overflow i k => .overflow i k
      | .outOfFuel => .outOfFuel
    else if c = 0 then .ok ⟨s1, 0, 0, steps + 1⟩
    else rec s1 (steps + 1)

def dataSecLoop (comment : IS → Out LoopRes) : Nat → IS → Nat → Out LoopRes
  | 0 => fun _ _ => .outOfFuel
  | fuel + 1 => dataSecStep (dataSecLoop comment fuel) comment

/-- `FindDataSection` -/
def findDataSection (cm : Bool) (iters fuel : Nat) (s : IS) : Out LoopRes :=
  dataSecLoop (readComment cm iters fuel) fuel s 0

/-- `strchr( "CIND", c )` — the terminating NUL of the literal matches `c == 0` too -/
def isStateLetter (c : Byte) : Bool := c = 67 || c = 73 || c = 78 || c = 68 || c = 0

/-- the head of one iteration: `ReadTokenSeparator; in >> c;` and, for a working-session file, the state letter:
`if( strchr( "CIND", c ) ) { inst_state = EntityWfState( c ); ReadTokenSeparator; in >> c; }`
(pass 1 sets `incompleteSE` for any other character, pass 2 keeps the previous `inst_state`).
Returns stream, `c`, "the instance is marked deleted", steps. -/
def headStage (tok : IS → Out LoopRes) (wsMode pass2 : Bool) (s : IS) (c : Byte) (del : Bool) (steps : Nat) :
    Out (IS × Byte × Bool × Nat) :=
  match tok s with
  | .ok r0 =>
    let c1 := (r0.s.extract).2.getD c
    if wsMode && isStateLetter c1 then
      match tok (r0.s.extract).1 with
      | .ok r1 => .ok ((r1.s.extract).1, (r1.s.extract).2.getD c1, c1 = 68, steps + 2 + r0.steps + r1.steps)
      | .overflow i k => .overflow i k
      | .outOfFuel => .outOfFuel
    else .ok ((r0.s.extract).1, c1, if wsMode && !pass2 then false else del, steps + 1 + r0.steps)
  | .overflow i k => .overflow i k
  | .outOfFuel => .outOfFuel

/-- one iteration of `while( in.good() && !endsec )` of `ReadData1` / `ReadData2`.  `c` and `del` (`inst_state == deleteSE`)
are the C variables, kept across iterations.  `inst del s` reads one instance (`CreateInstance` resp. `ReadInstance`, or
`SkipInstance` when the instance is marked deleted): `sev` 1 = counted as good, 0 = counted against `_maxErrorCount`,
2 = not counted (pass 2, deleted). -/
def dataStep (rec : IS → Bool → Byte → Bool → Nat → Nat → Nat → Out DataRes)
    (recover : IS → Byte → Nat → Out (IS × Byte × Bool × Nat))
    (inst : Bool → IS → Out LoopRes) (tok : IS → Out LoopRes) (wsMode pass2 : Bool) (maxErr : Nat)
    (s : IS) (endsec : Bool) (c : Byte) (del : Bool) (nc cnt steps : Nat) : Out DataRes :=
  if s.good && !endsec then
    match headStage tok wsMode pass2 s c del steps with
    | .ok (s1, c1, del1, st0) =>
      let rc : Out (IS × Byte × Bool × Nat) :=
        if c1 ≠ chHash then recover (s1.putback c1) c1 st0 else .ok (s1, c1, false, st0)
      match rc with
      | .ok (s2, c2, true, st) => rec s2 true c2 del1 nc cnt st
      | .ok (s2, c2, false, st) =>
        match inst (wsMode && del1) s2 with
        | .ok r =>
          let (nc', cnt') := if r.sev = 1 then (nc, cnt + 1) else if r.sev = 0 then (nc + 1, cnt) else (nc, cnt)
          if nc' > maxErr then .ok ⟨r.s, false, nc', cnt', st + r.steps, true⟩
          else
            let (s3, e) := foundEndSecKywd r.s
            rec s3 e c2 del1 nc' cnt' (st + r.steps + 1)
        | .overflow i k => .overflow i k
        | .outOfFuel => .outOfFuel
      | .overflow i k => .overflow i k
      | .outOfFuel => .outOfFuel
    | .overflow i k => .overflow i k
    | .outOfFuel => .outOfFuel
  else .ok ⟨s, endsec, nc, cnt, steps, false⟩

def dataLoop (recover : IS → Byte → Nat → Out (IS × Byte × Bool × Nat)) (inst : Bool → IS → Out LoopRes) (tok : IS → Out LoopRes)
    (wsMode pass2 : Bool) (maxErr : Nat) : Nat → IS → Bool → Byte → Bool → Nat → Nat → Nat → Out DataRes
  | 0 => fun _ _ _ _ _ _ _ => .outOfFuel
  | fuel + 1 => dataStep (dataLoop recover inst tok wsMode pass2 maxErr fuel) recover inst tok wsMode pass2 maxErr

/-- an instance marked deleted (working-session file) is skipped with `SkipInstance` and not counted, in both passes -/
def instOrSkip (rd skip : IS → Out LoopRes) (del : Bool) (s : IS) : Out LoopRes :=
  if del then
    match skip s with
    | .ok r => .ok ⟨r.s, 2, 0, r.steps⟩
    | .overflow i k => .overflow i k
    | .outOfFuel => .outOfFuel
  else rd s

/-- `ReadData1`: `endsec = FoundEndSecKywd( in )` first, then the loop.  `wsMode`: working-session file. -/
def readData1 (o : Oracle) (stay : Bool) (guard : Option Nat) (cm wsMode : Bool) (iters maxErr fuel : Nat) (s : IS) : Out DataRes :=
  let tok := readTokenSeparator cm iters fuel
  let skip := skipInstance cm iters fuel
  let (s0, e) := foundEndSecKywd s
  dataLoop (recoverLoop (findStartOfInstance fuel) tok fuel)
    (instOrSkip (createInstanceSkel o (createSubSuper stay guard fuel) tok skip) skip) tok wsMode false
    maxErr fuel s0 e 0 false 0 0 0

/-- `ReadData2`: the same loop with `ReadInstance` (`ri`: any per-instance reader) in the place of `CreateInstance` -/
def readData2 (ri : IS → Out LoopRes) (cm wsMode : Bool) (iters maxErr fuel : Nat) (s : IS) : Out DataRes :=
  let tok := readTokenSeparator cm iters fuel
  let skip := skipInstance cm iters fuel
  let (s0, e) := foundEndSecKywd s
  dataLoop (recoverLoop (findStartOfInstance fuel) tok fuel) (instOrSkip ri skip) tok wsMode true maxErr fuel s0 e 0 false 0 0 0

/-! ### STEPfile::ReadHeader — the loop over the header instances

`c` is the C variable (kept across iterations: a failed `in.get( c )` leaves it), `n` the number of header instances read.
`known kw`: `_headerRegistry->ObjCreate( kw )` returns an object; `rdh kw`: its `STEPread`.
`sev`: 0 = "End of file reached in reading header section" (`return SEVERITY_EXIT`), 1 = `ENDSEC` seen, 2 = a user-defined
entity (`!KEYWORD`) skipped and the loop left. -/

def hdrDelims : List Byte := [59, 40, 32, 47, 92]

def hdrStep (rec : IS → Byte → Nat → Nat → Out LoopRes) (tok skip : IS → Out LoopRes) (gk : IS → Out (IS × List Byte × Nat))
    (rdh : List Byte → IS → Out LoopRes) (known : List Byte → Bool) (s : IS) (c : Byte) (n steps : Nat) : Out LoopRes :=
  match tok s with
  | .ok r0 =>
    if !r0.s.good then .ok ⟨r0.s, 0, n, steps + r0.steps⟩ else
    match gk (if (r0.s.get).2.getD c = chBang then (r0.s.get).1 else (r0.s.get).1.putback ((r0.s.get).2.getD c)) with
    | .ok (s3, acc, st3) =>
      match tok s3 with
      | .ok r1 =>
        if acc.reverse = kwENDSEC then .ok ⟨(r1.s.get).1, 1, n, steps + r0.steps + 1 + st3 + r1.steps + 1⟩
        else if (r0.s.get).2.getD c = chBang then
          match skip r1.s with
          | .ok r2 => .ok ⟨r2.s, 2, n, steps + r0.steps + 1 + st3 + r1.steps + r2.steps + 1⟩
          | .overflow i k => .overflow i k
          | .outOfFuel => .outOfFuel
        else if !known acc.reverse then
          match skip r1.s with
          | .ok r2 => rec r2.s ((r0.s.get).2.getD c) n (steps + r0.steps + 1 + st3 + r1.steps + r2.steps + 1)
          | .overflow i k => .overflow i k
          | .outOfFuel => .outOfFuel
        else
          match rdh acc.reverse r1.s with
          | .ok r2 =>
            if (r2.s.ws.peek).2 = some 69 then rec (r2.s.ws.peek).1 69 (n + 1) (steps + r0.steps + 1 + st3 + r1.steps + r2.steps + 1)
            else rec ((r2.s.ws.peek).1.extract).1 (((r2.s.ws.peek).1.extract).2.getD ((r2.s.ws.peek).2.getD 255)) (n + 1)
              (steps + r0.steps + 1 + st3 + r1.steps + r2.steps + 1)
          | .overflow i k => .overflow i k
          | .outOfFuel => .outOfFuel
      | .overflow i k => .overflow i k
      | .outOfFuel => .outOfFuel
    | .overflow i k => .overflow i k
    | .outOfFuel => .outOfFuel
  | .overflow i k => .overflow i k
  | .outOfFuel => .outOfFuel

def hdrLoop (tok skip : IS → Out LoopRes) (gk : IS → Out (IS × List Byte × Nat)) (rdh : List Byte → IS → Out LoopRes)
    (known : List Byte → Bool) : Nat → IS → Byte → Nat → Nat → Out LoopRes
  | 0 => fun _ _ _ _ => .outOfFuel
  | fuel + 1 => hdrStep (hdrLoop tok skip gk rdh known fuel) tok skip gk rdh known

/-- `ReadHeader`: `ReadTokenSeparator`, `FindHeaderSection` (`sev` -1: not found, `return SEVERITY_INPUT_ERROR`), the loop.
The loop gets twice the fuel: an iteration that ends on a stream that is not good is followed by one more. -/
def readHeader (known : List Byte → Bool) (rdh : List Byte → IS → Out LoopRes) (cm : Bool) (iters n : Nat) (ex : ExitCond)
    (fuel : Nat) (s : IS) : Out LoopRes :=
  match readTokenSeparator cm iters fuel s with
  | .ok r0 =>
    match findHeaderSectionWith cm iters n ex fuel r0.s with
    | .ok r1 =>
      if r1.sev = 0 then .ok ⟨r1.s, -1, 0, r0.steps + r1.steps⟩
      else hdrLoop (readTokenSeparator cm iters fuel) (skipInstance cm iters fuel) (getKeywordFull hdrDelims fuel) rdh known
        (2 * fuel) r1.s 0 0 (r0.steps + r1.steps)
    | .overflow i k => .overflow i k
    | .outOfFuel => .outOfFuel
  | .overflow i k => .overflow i k
  | .outOfFuel => .outOfFuel

/-! ### STEPfile::AppendFile — the two passes as compositions of the stages above

`sev`: 1 = the pass ran to its end, -1 = "Faulty input at beginning of file", -2 = the header section ended the read
(`rval < SEVERITY_WARNING`: no `HEADER;`, end of file inside it, or — `goOn = false` — an error severity from a header
entity), -3 = no `DATA;`, -4 = pass 2 counted another number of instances than pass 1.  `len` = the instance count. -/

def kwISO : List Byte := [73, 83, 79, 45, 49, 48, 51, 48, 51, 45, 50, 49]
def kwWS : List Byte := [83, 84, 69, 80, 95, 87, 79, 82, 75, 73, 78, 71, 95, 83, 69, 83, 83, 73, 79, 78]
def startDelims : List Byte := [59, 32, 35]
def endDelims : List Byte := [59]

/-- `!strncmp( keywd, "ISO-10303-21", strlen( keywd ) )`: the keyword is a prefix (the empty one included); `some true`:
working-session file -/
def fileKind (kw : List Byte) : Option Bool :=
  if isPrefix kw kwISO then some false else if isPrefix kw kwWS then some true else none

def appendFile1 (o : Oracle) (known : List Byte → Bool) (rdh : List Byte → IS → Out LoopRes) (stay : Bool) (guard : Option Nat) (cm goOn : Bool)
    (iters n : Nat) (ex : ExitCond) (maxErr fuel : Nat) (s : IS) : Out LoopRes :=
  match readTokenSeparator cm iters fuel s with
  | .ok r0 =>
    match getKeywordFull startDelims fuel r0.s with
    | .ok (s1, acc, st1) =>
      match fileKind acc.reverse with
      | none => .ok ⟨(s1.get).1, -1, 0, r0.steps + st1 + 1⟩
      | some ws =>
        match readHeader known rdh cm iters n ex fuel (s1.get).1 with
        | .ok r2 =>
          if r2.sev ≤ 0 || !goOn then .ok ⟨r2.s, -2, 0, r0.steps + st1 + 1 + r2.steps⟩ else
          match findDataSection cm iters fuel r2.s with
          | .ok r3 =>
            if r3.sev = 0 then .ok ⟨r3.s, -3, 0, r0.steps + st1 + 1 + r2.steps + r3.steps⟩ else
            match readData1 o stay guard cm ws iters maxErr fuel r3.s with
            | .ok r4 => .ok ⟨r4.s, 1, r4.count, r0.steps + st1 + 1 + r2.steps + r3.steps + r4.steps⟩
            | .overflow i k => .overflow i k
            | .outOfFuel => .outOfFuel
          | .overflow i k => .overflow i k
          | .outOfFuel => .outOfFuel
        | .overflow i k => .overflow i k
        | .outOfFuel => .outOfFuel
    | .overflow i k => .overflow i k
    | .outOfFuel => .outOfFuel
  | .overflow i k => .overflow i k
  | .outOfFuel => .outOfFuel

/-- pass 2 on the reopened file: `FindDataSection`, `ReadData2`, `ReadTokenSeparator`, the count comparison with pass 1
(`total`), and the end-of-file keyword (`ReadTokenSeparator; GetKeyword( ";" ); get`) -/
def appendFile2 (ri : IS → Out LoopRes) (cm ws : Bool) (iters maxErr total fuel : Nat) (s : IS) : Out LoopRes :=
  match findDataSection cm iters fuel s with
  | .ok r0 =>
    if r0.sev = 0 then .ok ⟨r0.s, -3, 0, r0.steps⟩ else
    match readData2 ri cm ws iters maxErr fuel r0.s with
    | .ok r1 =>
      match readTokenSeparator cm iters fuel r1.s with
      | .ok r2 =>
        if total ≠ r1.count then .ok ⟨r2.s, -4, r1.count, r0.steps + r1.steps + r2.steps⟩
        else if !r2.s.good then .ok ⟨r2.s, 1, r1.count, r0.steps + r1.steps + r2.steps⟩
        else
          match readTokenSeparator cm iters fuel r2.s with
          | .ok r3 =>
            match getKeywordFull endDelims fuel r3.s with
            | .ok (s4, _, st4) => .ok ⟨(s4.get).1, 1, r1.count, r0.steps + r1.steps + r2.steps + r3.steps + st4 + 1⟩
            | .overflow i k => .overflow i k
            | .outOfFuel => .outOfFuel
          | .overflow i k => .overflow i k
          | .outOfFuel => .outOfFuel
      | .overflow i k => .overflow i k
      | .outOfFuel => .outOfFuel
    | .overflow i k => .overflow i k
    | .outOfFuel => .outOfFuel
  | .overflow i k => .overflow i k
  | .outOfFuel => .outOfFuel

/-! ### STEPfile::ReadInstance — the per-instance reader of pass 2

`lookup` (on the stream after `in >> fileid`): 0 = no instance with this id was created in pass 1, 1 = it is not in state
`newSE` (a duplicate id in an exchange file), anything else = the instance to read.  `rd` is everything from the start of
the record (`recStart = in.tellg()`) up to and including the `ReadTokenSeparator` that follows `obj->STEPread`: the optional
`!`, the keyword, `STEPread` itself (`rdKw` below is that composition; an external mapping goes to `STEPread` at once).
Its `sev`: 0 = a value was mis-read (`sev <= SEVERITY_WARNING`), 2 = a user-defined entity was skipped (`return ENTITY_NULL`),
anything else = read.  After a mis-read the end of the record is found from its start, the way pass 1 found it
(`in.clear(); in.seekg( recStart ); SkipInstance`).  Result `sev`: 0 = `ENTITY_NULL` (counted in `_entsInvalid`), 1 = an
object is returned — `ReadData2` then counts it as valid whatever was reported while reading it, because
`AppendEntityErrorMsg` has cleared the object's error by then (its errors are counted in `_errorCount` only). -/

def readInstanceSkel (lookup : IS → Nat) (rd rc tok skip : IS → Out LoopRes) (s : IS) : Out LoopRes :=
  match rc s with
  | .ok r0 =>
    if lookup r0.s.extractInt < 2 then
      match skip r0.s.extractInt with
      | .ok r => .ok ⟨r.s, 0, 0, r0.steps + 1 + r.steps⟩
      | .overflow i k => .overflow i k
      | .outOfFuel => .outOfFuel
    else
      match tok r0.s.extractInt with
      | .ok r1 =>
        if (r1.s.get).2 ≠ some chEq then
          match skip (r1.s.get).1 with
          | .ok r => .ok ⟨r.s, 0, 0, r0.steps + 1 + r1.steps + 1 + r.steps⟩
          | .overflow i k => .overflow i k
          | .outOfFuel => .outOfFuel
        else
          match tok (r1.s.get).1 with
          | .ok r2 =>
            match rd r2.s with
            | .ok r3 =>
              if r3.sev = 2 then .ok ⟨r3.s, 0, 0, r0.steps + 1 + r1.steps + 1 + r2.steps + r3.steps⟩
              else if r3.sev = 0 && r2.s.good then
                match skip { r2.s with skipws := r3.s.skipws } with
                | .ok r => .ok ⟨r.s, 1, 0, r0.steps + 1 + r1.steps + 1 + r2.steps + r3.steps + 1 + r.steps⟩
                | .overflow i k => .overflow i k
                | .outOfFuel => .outOfFuel
              else if (r3.s.peek).2 = some chSemi then
                .ok ⟨((r3.s.peek).1.extract).1, 1, 0, r0.steps + 1 + r1.steps + 1 + r2.steps + r3.steps + 1⟩
              else
                .ok ⟨(r3.s.peek).1, 1, 0, r0.steps + 1 + r1.steps + 1 + r2.steps + r3.steps + 1⟩
            | .overflow i k => .overflow i k
            | .outOfFuel => .outOfFuel
          | .overflow i k => .overflow i k
          | .outOfFuel => .outOfFuel
      | .overflow i k => .overflow i k
      | .outOfFuel => .outOfFuel
  | .overflow i k => .overflow i k
  | .outOfFuel => .outOfFuel

/-- the keyword form of `rd`: `c = in.peek()` (not `(`), `ReadTokenSeparator`, `!` (user-defined: the record is skipped),
`ReadStdKeyword`, `ReadTokenSeparator`, `obj->STEPread` (`stepread`), `ReadTokenSeparator` -/
def rdKw (stepread tok skip : IS → Out LoopRes) (s : IS) : Out LoopRes :=
  match tok (s.peek).1 with
  | .ok r0 =>
    match tok (readStdKeyword (if (r0.s.peek).2 = some chBang then ((r0.s.peek).1.get).1 else (r0.s.peek).1)).1 with
    | .ok r1 =>
      if (r0.s.peek).2 = some chBang then
        match skip r1.s with
        | .ok r => .ok ⟨r.s, 2, 0, r0.steps + 1 + r1.steps + r.steps⟩
        | .overflow i k => .overflow i k
        | .outOfFuel => .outOfFuel
      else
        match stepread r1.s with
        | .ok r2 =>
          match tok r2.s with
          | .ok r3 => .ok ⟨r3.s, r2.sev, 0, r0.steps + 1 + r1.steps + r2.steps + r3.steps⟩
          | .overflow i k => .overflow i k
          | .outOfFuel => .outOfFuel
        | .overflow i k => .overflow i k
        | .outOfFuel => .outOfFuel
    | .overflow i k => .overflow i k
    | .outOfFuel => .outOfFuel
  | .overflow i k => .overflow i k
  | .outOfFuel => .outOfFuel

end StepModel.P21Safe

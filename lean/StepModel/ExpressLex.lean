import StepModel.ExpressDiag
/-!
# `Express.Lex` — the diagnostics of the EXPRESS scanner (`src/express/expscan.l`, `lexact.c`)

Only what decides *which lexical diagnostics are produced, with which argument, for which bytes*:
the longest-match rule set of condition `code` and `comment` (token kinds are not kept) and
`SCANprocess_encoded_string`.  `SCANnextchar` (the only reporter of NONASCII_CHAR) is dead code: the perplex-generated
scanner fills its buffer with `fgetc` and never calls it, so a non-ASCII byte simply falls to the catch-all rule.
Positions are byte offsets into the input; the line attached to a diagnostic is the number of newlines consumed
before its token (`yylineno` starts at 0 and is bumped by the newline rules).

Not modelled: INCLUDE files, condition `return_end_schema` (only entered after a syntax error, which ends the
run), the token stream handed to the parser.
-/
namespace StepModel.Express.Lex
open StepModel.Generated
open StepModel.Express.Diag (Arg)

def isDigit (c : Char) : Bool := 48 ≤ c.toNat && c.toNat ≤ 57
def isLetter (c : Char) : Bool := (65 ≤ c.toNat && c.toNat ≤ 90) || (97 ≤ c.toNat && c.toNat ≤ 122)
def isIdChar (c : Char) : Bool := isLetter c || isDigit c || c = '_'
/-- `isxdigit` -/
def isHex (c : Char) : Bool := isDigit c || (65 ≤ c.toNat && c.toNat ≤ 70) || (97 ≤ c.toNat && c.toNat ≤ 102)
/-- `!isascii` -/
def nonAscii (c : Char) : Bool := 128 ≤ c.toNat
/-- `[$%&@\^{}~]` minus the characters an earlier rule of the same length takes (`{`, `}` are tokens) -/
def isIllegal (c : Char) : Bool := c = '$' || c = '%' || c = '&' || c = '@' || c = '^' || c = '~'

/-- length of the longest prefix whose characters satisfy `p` -/
def spanLen (p : Char → Bool) : List Char → Nat
  | [] => 0
  | c :: cs => if p c then spanLen p cs + 1 else 0

/-- a lexical diagnostic: code, offset of the offending text, its argument -/
structure LDiag where
  code : Nat
  off : Nat
  arg : Option Arg
  deriving Repr, DecidableEq

inductive StrScan
  | terminated (n : Nat)      -- rule `'...'` matched `n` characters
  | unterminated (n : Nat)    -- rule `'...\n` matched `n` characters (newline included)
  | noMatch
  deriving Repr, DecidableEq

/-- longest match of the two simple-string rules; `pos` = characters already matched (the opening quote
    included), `best` = end of the longest terminated match seen so far -/
def strScan : List Char → Nat → Option Nat → StrScan
  | [], _, some b => .terminated b
  | [], _, none => .noMatch
  | '\n' :: _, pos, _ => .unterminated (pos + 1)
  | '\'' :: '\'' :: r, pos, _ => strScan r (pos + 2) (some (pos + 1))
  | '\'' :: _, pos, _ => .terminated (pos + 1)
  | _ :: r, pos, best => strScan r (pos + 1) best

/-- the diagnostics of `SCANprocess_encoded_string` for the characters between the quotes (`body` starts at `off`) -/
def badDigits : List Char → Nat → List LDiag
  | [], _ => []
  | c :: cs, off =>
    if isHex c then badDigits cs (off + 1)
    else ⟨LibErrors.ENCODED_STRING_BAD_DIGIT, off, some (.chr c.toNat)⟩ :: badDigits cs (off + 1)

def encodedDiags (body : List Char) (quoteOff : Nat) : List LDiag :=
  badDigits body (quoteOff + 1) ++
    (if body.length % 8 ≠ 0 then [⟨LibErrors.ENCODED_STRING_BAD_COUNT, quoteOff, some (.int body.length)⟩] else [])

/-- scanner start condition -/
inductive Cond
  | code
  | comment (depth : Nat)
  deriving Repr, DecidableEq

structure Step where
  len : Nat                 -- characters consumed
  cond : Cond
  diags : List LDiag        -- offsets relative to the start of the token
  deriving Repr

/-- exponent part of a real literal: `[eE][+-]?digit+`, 0 when absent -/
def expLen : List Char → Nat
  | e :: r =>
    if e = 'e' || e = 'E' then
      match r with
      | s :: r' =>
        if s = '+' || s = '-' then (let d := spanLen isDigit r'; if d = 0 then 0 else d + 2)
        else (let d := spanLen isDigit r; if d = 0 then 0 else d + 1)
      | [] => 0
    else 0
  | [] => 0

/-- number of characters the longest-match rule of condition `code` consumes at `c :: r` -/
def codeLen (c : Char) (r : List Char) : Nat :=
  if c = ' ' || c = '\t' then 1 + spanLen (fun x => x = ' ' || x = '\t') r
  else if c = '\n' then 1
  else if c = '-' then
    match r with
    | '-' :: r' =>
      let n := spanLen (fun x => x ≠ '\n') r'
      if (r'.drop n).isEmpty then 1 else n + 3     -- the remark rule needs its newline
    | _ => 1
  else if c = '(' then
    match r with
    | '*' :: _ => 2
    | _ => 1
  else if isDigit c then
    let n := 1 + spanLen isDigit r
    match r.drop (n - 1) with
    | '.' :: r' =>
      let f := spanLen isDigit r'
      n + 1 + f + expLen (r'.drop f)
    | _ => n
  else if c = '%' then
    let n := spanLen (fun x => x = '0' || x = '1') r
    if n = 0 then 1 else n + 1
  else if isLetter c then 1 + spanLen isIdChar r
  else if c = '_' then spanLen isIdChar r + 1
  else if c = '\'' then
    match strScan r 1 none with
    | .terminated n => n
    | .unterminated n => n
    | .noMatch => 1
  else if c = '"' then
    let n := spanLen (fun x => x ≠ '"' && x ≠ '\n') r
    match r.drop n with
    | '"' :: _ => n + 2
    | '\n' :: _ => n + 2
    | _ => 1
  else if c = ';' then
    let w := spanLen (fun x => x = ' ' || x = '\t') r
    match r.drop w with
    | '-' :: '-' :: r' =>
      let n := spanLen (fun x => x ≠ '\n') r'
      if (r'.drop n).isEmpty then 1 else 1 + w + 2 + n + 1
    | _ => 1
  else if c = ':' then
    match r with
    | '=' :: ':' :: _ => 3
    | '<' :: '>' :: ':' :: _ => 4
    | '=' :: _ => 2
    | _ => 1
  else if c = '|' then (match r with | '|' :: _ => 2 | _ => 1)
  else if c = '*' then
    match r with
    | '*' :: _ => 2
    | ')' :: _ => 2
    | _ => 1
  else if c = '<' then
    match r with
    | '*' :: _ => 2
    | '=' :: _ => 2
    | '>' :: _ => 2
    | _ => 1
  else if c = '>' then (match r with | '=' :: _ => 2 | _ => 1)
  else 1

/-- the diagnostics of the rule that matches at `c :: r` in condition `code` (offsets relative to `c`).  The tests on `c` are
    mutually exclusive with the other rules' (distinct characters / character classes), so their order does not matter -/
def codeDiags (c : Char) (r : List Char) : List LDiag :=
  if c = '%' then
    (if spanLen (fun x => x = '0' || x = '1') r = 0 then [⟨LibErrors.UNEXPECTED_CHARACTER, 0, some (.chr c.toNat)⟩] else [])
  else if c = '_' then
    [⟨LibErrors.BAD_IDENTIFIER, 0, some (.str (c :: r.take (spanLen isIdChar r)))⟩]
  else if c = '\'' then
    (match strScan r 1 none with
     | .unterminated _ => [⟨LibErrors.UNTERMINATED_STRING, 0, none⟩]
     | _ => [])
  else if c = '"' then
    let n := spanLen (fun x => x ≠ '"' && x ≠ '\n') r
    match r.drop n with
    | '"' :: _ => encodedDiags (r.take n) 0
    | '\n' :: _ =>
      -- yytext keeps the newline and has no closing quote to strip
      ⟨LibErrors.UNTERMINATED_STRING, 0, none⟩ :: encodedDiags (r.take (n + 1)) 0
    | _ => []
  else if c = '*' then
    (match r with
     | ')' :: _ => [⟨LibErrors.UNMATCHED_CLOSE_COMMENT, 0, none⟩]
     | _ => [])
  else if isIllegal c then [⟨LibErrors.UNEXPECTED_CHARACTER, 0, some (.chr c.toNat)⟩]
  else []

/-- one longest-match step in condition `code`; input non-empty -/
def stepCode (c : Char) (r : List Char) : Step :=
  ⟨codeLen c r, (if c = '(' then (match r with | '*' :: _ => .comment 1 | _ => .code) else .code), codeDiags c r⟩

/-- one step in condition `comment` at nesting depth `d` (≥ 1) -/
def stepComment (d : Nat) (c : Char) (r : List Char) : Step :=
  if c = '(' then
    match r with
    | '*' :: _ => ⟨2, .comment (d + 1), []⟩
    | _ => ⟨1, .comment d, []⟩
  else if c = '*' then
    match r with
    | ')' :: _ => ⟨2, if d ≤ 1 then .code else .comment (d - 1), []⟩
    | _ => ⟨1, .comment d, []⟩
  else ⟨1, .comment d, []⟩

def step (cond : Cond) (c : Char) (r : List Char) : Step :=
  match cond with
  | .code => stepCode c r
  | .comment d => stepComment d c r

/-- all tokens from offset `pos` on -/
def lexFrom (cond : Cond) (pos : Nat) (rest : List Char) : List LDiag :=
  match rest with
  | [] => []
  | c :: r =>
    let s := step cond c r
    s.diags.map (fun d => { d with off := d.off + pos }) ++
      lexFrom s.cond (pos + (s.len - 1) + 1) (r.drop (s.len - 1))
termination_by rest.length
decreasing_by simp [List.length_drop]; omega

/-- every lexical diagnostic of a file, offsets into the original bytes -/
def lexDiags (input : List Char) : List LDiag := lexFrom .code 0 input

/-- `yylineno` when the token at `off` is matched -/
def lineAt (input : List Char) (off : Nat) : Nat := ((input.take off).filter (· = '\n')).length

/-- the diagnostics as `Diag`s reported through `ERRORreport_with_line` -/
def toDiag (file : List Char) (input : List Char) (d : LDiag) (lineBase : Nat := 0) : Diag.Diag :=
  ⟨d.code, file, lineBase + lineAt input d.off, d.arg.toList, .line⟩

end StepModel.Express.Lex

import StepModel.ComplexOrFree3
/-!
# Termination of the retry loop of `ComplexList::matches`: the odometer of OR choices

`unmarkAll`, `acceptChoice` and `tryNext` never change a `viable` value nor the shape of the hierarchy (`skel`).
`val t` reads the `choice` fields of all `OrList`s as one mixed-radix number (an `OrList` is more significant than what
lies below it, an earlier sibling more significant than a later one); `cap t` bounds it.  Whenever `tryNext` reports
NEWCHOICE or MATCHALL the number has grown; so the loop `while( otherChoices == NEWCHOICE )` runs at most `cap` times.
-/
namespace StepModel.Complex.Match
open StepModel.Generated StepModel.Complex

-- ------------------------------------------------------------------ the skeleton is never touched
theorem skelL_set' (cs : List ST) (i : Nat) (ch ch' : ST) (hc : cs[i]? = some ch) (hs : skel ch' = skel ch) :
    skelL (cs.set i ch') = skelL cs := skelL_set cs i ch ch' hc hs

theorem unmark_skel : ∀ f : Nat,
    (∀ t es r, unmarkAll f t es = .ok r → skel r.1 = skel t) ∧
    (∀ cs es r, unmarkList f cs es = .ok r → skelL r.1 = skelL cs) := by
  intro f
  induction f with
  | zero => exact ⟨fun _ _ _ h => by simp [unmarkAll] at h, fun _ _ _ h => by simp [unmarkList] at h⟩
  | succ f ih =>
    obtain ⟨ih1, ih2⟩ := ih
    refine ⟨?_, ?_⟩
    · intro t es r h
      cases t with
      | simple n v im =>
        simp only [unmarkAll, simpleUnmark] at h
        split at h
        · cases h; rfl
        · split at h
          · cases h
          · split at h
            · cases h
            · cases h; rfl
      | mult j v c c1 k cs =>
        cases j with
        | or =>
          simp only [unmarkAll] at h
          split at h
          · cases h; rfl
          · split at h
            · cases h; rfl
            · rename_i i _ _ ch hch
              obtain ⟨⟨ch', es'⟩, h1, h2⟩ := bind_ok' h
              cases h2
              simp only [skel]
              rw [skelL_set' cs i ch ch' hch (ih1 ch es _ h1)]
        | and =>
          simp only [unmarkAll] at h
          obtain ⟨⟨cs', es'⟩, h1, h2⟩ := bind_ok' h
          cases h2; simp only [skel]; rw [ih2 cs es _ h1]
        | andor =>
          simp only [unmarkAll] at h
          obtain ⟨⟨cs', es'⟩, h1, h2⟩ := bind_ok' h
          cases h2; simp only [skel]; rw [ih2 cs es _ h1]
    · intro cs es r h
      cases cs with
      | nil => simp only [unmarkList] at h; cases h; rfl
      | cons ch rest =>
        simp only [unmarkList] at h
        obtain ⟨⟨ch', es1⟩, h1, h2⟩ := bind_ok' h
        obtain ⟨⟨rest', es2⟩, h3, h4⟩ := bind_ok' h2
        cases h4
        simp only [skelL]; rw [ih1 ch es _ h1, ih2 rest es1 _ h3]

theorem accept_skel : ∀ f : Nat,
    (∀ t es r, acceptChoice f t es = .ok r → skel r.1 = skel t) ∧
    (∀ cs es r, acceptJoin f cs es = .ok r → skelL r.1 = skelL cs) ∧
    (∀ cs i es r, acceptOr f cs i es = .ok r → skelL r.1 = skelL cs) := by
  intro f
  induction f with
  | zero =>
    exact ⟨fun _ _ _ h => by simp [acceptChoice] at h, fun _ _ _ h => by simp [acceptJoin] at h,
      fun _ _ _ _ h => by simp [acceptOr] at h⟩
  | succ f ih =>
    obtain ⟨ih1, ih2, ih3⟩ := ih
    refine ⟨?_, ?_, ?_⟩
    · intro t es r h
      cases t with
      | simple n v im =>
        simp only [acceptChoice, simpleAccept] at h
        cases h
        split
        · rfl
        · split
          · rfl
          · split <;> rfl
      | mult j v c c1 k cs =>
        cases j with
        | or =>
          simp only [acceptChoice] at h
          split at h
          · cases h; rfl
          · obtain ⟨⟨cs', es', r'⟩, h1, h2⟩ := bind_ok' h
            have := ih3 cs _ es _ h1
            cases r' with
            | none => cases h2; simp only [skel]; rw [this]
            | some j => cases h2; simp only [skel]; rw [this]
        | and =>
          simp only [acceptChoice] at h
          obtain ⟨⟨cs', es', r'⟩, h1, h2⟩ := bind_ok' h
          cases h2; simp only [skel]; rw [ih2 cs es _ h1]
        | andor =>
          simp only [acceptChoice] at h
          obtain ⟨⟨cs', es', r'⟩, h1, h2⟩ := bind_ok' h
          cases h2; simp only [skel]; rw [ih2 cs es _ h1]
    · intro cs es r h
      cases cs with
      | nil => simp only [acceptJoin] at h; cases h; rfl
      | cons ch rest =>
        simp only [acceptJoin] at h
        split at h
        · obtain ⟨⟨ch', es1, r1⟩, h1, h2⟩ := bind_ok' h
          obtain ⟨⟨rest', es2, r2⟩, h3, h4⟩ := bind_ok' h2
          cases h4
          simp only [skelL]; rw [ih1 ch es _ h1, ih2 rest es1 _ h3]
        · obtain ⟨⟨ch', es1, r1⟩, h1, h2⟩ := bind_ok' h
          cases h1
          obtain ⟨⟨rest', es2, r2⟩, h3, h4⟩ := bind_ok' h2
          cases h4
          simp only [skelL]; rw [ih2 rest es _ h3]
    · intro cs i es r h
      simp only [acceptOr] at h
      split at h
      · cases h; rfl
      · rename_i ch hch
        split at h
        · obtain ⟨⟨ch', es1, r1⟩, h1, h2⟩ := bind_ok' h
          have hs := ih1 ch es _ h1
          cases r1 with
          | true => simp only [if_true] at h2; cases h2; exact skelL_set' cs i ch ch' hch hs
          | false =>
            simp only [Bool.false_eq_true, if_false] at h2
            rw [ih3 _ _ _ _ h2]; exact skelL_set' cs i ch ch' hch hs
        · exact ih3 cs (i + 1) es r h


-- ------------------------------------------------------------------ the odometer
mutual
  /-- number of choice combinations below a list -/
  def cap : VT → Nat
    | .simple _ _ => 1
    | .mult .or _ cs => (cs.length + 2) * capL cs
    | .mult .and _ cs => capL cs
    | .mult .andor _ cs => capL cs
  def capL : List VT → Nat
    | [] => 1
    | c :: cs => cap c * capL cs
end

/-- the `choice` of an OrList with `n` children as a digit: 0 = none yet, `i + 1` = child `i`, `n + 1` = LISTEND -/
def digit (c : Int) (n : Nat) : Nat :=
  if c = listEnd then n + 1 else if c < 0 then 0 else min (c.toNat + 1) (n + 1)

mutual
  /-- the choices of all OrLists as one mixed-radix number -/
  def val : ST → Nat
    | .simple .. => 0
    | .mult .or _ c _ _ cs => digit c cs.length * capL (skelL cs) + valL cs
    | .mult .and _ _ _ _ cs => valL cs
    | .mult .andor _ _ _ _ cs => valL cs
  def valL : List ST → Nat
    | [] => 0
    | c :: cs => val c * capL (skelL cs) + valL cs
end

theorem digit_le (c : Int) (n : Nat) : digit c n ≤ n + 1 := by
  unfold digit; split
  · exact Nat.le_refl _
  · split
    · omega
    · exact Nat.min_le_right _ _

mutual
  theorem cap_pos : ∀ (t : VT), 0 < cap t
    | .simple _ _ => by simp [cap]
    | .mult .or _ cs => by simp only [cap]; exact Nat.mul_pos (by omega) (capL_pos cs)
    | .mult .and _ cs => by simp only [cap]; exact capL_pos cs
    | .mult .andor _ cs => by simp only [cap]; exact capL_pos cs
  theorem capL_pos : ∀ (cs : List VT), 0 < capL cs
    | [] => by simp [capL]
    | c :: cs => by simp only [capL]; exact Nat.mul_pos (cap_pos c) (capL_pos cs)
end

theorem lt_mul_of_digit {d D K r : Nat} (hd : d < D) (hr : r < K) : d * K + r < D * K := by
  calc d * K + r < d * K + K := by omega
    _ = (d + 1) * K := by rw [Nat.add_mul, Nat.one_mul]
    _ ≤ D * K := Nat.mul_le_mul_right K hd

theorem skelL_length (cs : List ST) : (skelL cs).length = cs.length := by simp [skelL_eq_map]

mutual
  theorem val_lt_cap : ∀ (t : ST), val t < cap (skel t)
    | .simple n v im => by simp [val, skel, cap]
    | .mult .or v c c1 k cs => by
      simp only [val, skel, cap, skelL_length]
      exact lt_mul_of_digit (Nat.lt_succ_of_le (digit_le c cs.length)) (valL_lt_capL cs)
    | .mult .and v c c1 k cs => by simp only [val, skel, cap]; exact valL_lt_capL cs
    | .mult .andor v c c1 k cs => by simp only [val, skel, cap]; exact valL_lt_capL cs
  theorem valL_lt_capL : ∀ (cs : List ST), valL cs < capL (skelL cs)
    | [] => by simp [valL, skelL, capL]
    | c :: cs => by
      simp only [valL, skelL, capL]
      exact lt_mul_of_digit (val_lt_cap c) (valL_lt_capL cs)
end

/-- the first position where two child lists differ holds a greater value in the second -/
def AdvAt (p : Nat) (cs cs' : List ST) : Prop :=
  (∀ k, k < p → cs'[k]? = cs[k]?) ∧ ∃ a a', cs[p]? = some a ∧ cs'[p]? = some a' ∧ val a < val a'

theorem valL_adv : ∀ (p : Nat) (cs cs' : List ST), skelL cs' = skelL cs → AdvAt p cs cs' → valL cs < valL cs'
  | p, [], cs', _, ⟨_, a, _, ha, _, _⟩ => by simp at ha
  | p, c :: cs, [], hs, _ => by simp [skelL] at hs
  | 0, c :: cs, c' :: cs', hs, ⟨_, a, a', ha, ha', hlt⟩ => by
    simp only [List.getElem?_cons_zero, Option.some.injEq] at ha ha'
    subst ha; subst ha'
    simp only [skelL, List.cons.injEq] at hs
    simp only [valL, hs.2]
    have h1 := valL_lt_capL cs
    have h2 : val c * capL (skelL cs) + valL cs < val c' * capL (skelL cs) := lt_mul_of_digit hlt h1
    omega
  | p + 1, c :: cs, c' :: cs', hs, ⟨hpre, a, a', ha, ha', hlt⟩ => by
    simp only [skelL, List.cons.injEq] at hs
    have h0 := hpre 0 (by omega)
    simp only [List.getElem?_cons_zero, Option.some.injEq] at h0
    subst h0
    have := valL_adv p cs cs' hs.2 ⟨fun k hk => by simpa using hpre (k + 1) (by omega), a, a',
      by simpa using ha, by simpa using ha', hlt⟩
    simp only [valL, hs.2]
    omega


theorem firstCand_le (cs : List ST) : ∀ (s i : Nat), firstCand cs s = some i → i ≤ s := by
  intro s
  induction s with
  | zero =>
    intro i h
    unfold firstCand at h
    split at h
    · split at h
      · simp at h; omega
      · simp at h
    · simp at h
  | succ k ih =>
    intro i h
    unfold firstCand at h
    split at h
    · split at h
      · simp at h; omega
      · have := ih i h; omega
    · have := ih i h; omega

theorem nextCands_gt (cs : List ST) (i j : Nat) (h : j ∈ nextCands cs i) : i < j := by
  simp only [nextCands, List.mem_filter, Bool.and_eq_true, decide_eq_true_eq] at h
  exact h.2.1

theorem acceptOr_ge : ∀ (f : Nat) (cs : List ST) (i : Nat) (es : Ents) (r : List ST × Ents × Option Nat),
    acceptOr f cs i es = .ok r → ∀ j, r.2.2 = some j → i ≤ j ∧ j < cs.length := by
  intro f
  induction f with
  | zero => intro cs i es r h; simp [acceptOr] at h
  | succ f ih =>
    intro cs i es r h j hj
    simp only [acceptOr] at h
    split at h
    · cases h; cases hj
    · rename_i ch hch
      have hl : i < cs.length := (List.getElem?_eq_some_iff.mp hch).1
      split at h
      · obtain ⟨⟨ch', es1, r1⟩, h1, h2⟩ := bind_ok' h
        cases r1 with
        | true => simp only [if_true] at h2; cases h2; cases hj; exact ⟨Nat.le_refl _, hl⟩
        | false =>
          simp only [Bool.false_eq_true, if_false] at h2
          have := ih _ _ _ _ h2 j hj
          simp only [List.length_set] at this
          exact ⟨by omega, this.2⟩
      · have := ih _ _ _ _ h j hj
        exact ⟨by omega, this.2⟩

-- every OrList has fewer children than `LISTEND` (otherwise `choice + 1` can *be* LISTEND and `acceptChoice`
-- starts over at `choice1`)
mutual
  def smallOr : VT → Prop
    | .simple _ _ => True
    | .mult j _ cs => (j = .or → (cs.length : Int) < listEnd) ∧ smallOrL cs
  def smallOrL : List VT → Prop
    | [] => True
    | c :: cs => smallOr c ∧ smallOrL cs
end

theorem smallOrL_mem {cs : List ST} {i : Nat} {ch : ST} (h : smallOrL (skelL cs)) (hc : cs[i]? = some ch) :
    smallOr (skel ch) := by
  induction cs generalizing i with
  | nil => simp at hc
  | cons c cs ih =>
    simp only [skelL, smallOrL] at h
    cases i with
    | zero => simp at hc; subst hc; exact h.1
    | succ i => exact ih h.2 (by simpa using hc)

theorem digit_inRange {c : Int} {n i : Nat} (h : inRange c n = some i) (hs : (n : Int) < listEnd) :
    digit c n = i + 1 ∧ i < n ∧ c = (i : Int) := by
  unfold inRange at h
  split at h
  · rename_i hc
    simp only [Option.some.injEq] at h
    have hci : c = (i : Int) := by omega
    refine ⟨?_, by omega, hci⟩
    unfold digit
    have h1 : c ≠ listEnd := by omega
    have h2 : ¬ c < 0 := by omega
    simp only [h1, h2, if_false]
    subst hci
    simp only [Int.toNat_natCast]
    omega
  · cases h

theorem digit_nat {j n : Nat} (h : j < n) (hs : (n : Int) < listEnd) : digit (j : Int) n = j + 1 := by
  unfold digit
  have h1 : (j : Int) ≠ listEnd := by omega
  have h2 : ¬ (j : Int) < 0 := by omega
  simp only [h1, h2, if_false, Int.toNat_natCast]
  omega

/-- `acceptChoice` on an OrList whose `choice` selects child `i0`: on success the new choice is at or behind `i0` -/
theorem accept_or_choice (f : Nat) (v : MT) (c0 c1 : Int) (k : Nat) (cs : List ST) (es : Ents) (node : ST) (es' : Ents)
    (h : acceptChoice f (.mult .or v c0 c1 k cs) es = .ok (node, es', true)) (hne : c0 ≠ listEnd) (i0 : Nat)
    (hi : inRange c0 cs.length = some i0) :
    ∃ (j : Nat) (cs' : List ST), node = .mult .or v (j : Int) c1 k cs' ∧ i0 ≤ j ∧ j < cs.length ∧ skelL cs' = skelL cs := by
  cases f with
  | zero => simp [acceptChoice] at h
  | succ f =>
    simp only [acceptChoice, hne, if_false, hi] at h
    obtain ⟨⟨cs', es1, r⟩, h1, h2⟩ := bind_ok' h
    cases r with
    | none =>
      simp only [pure, Outcome.ok.injEq, Prod.mk.injEq] at h2
      exact absurd h2.2.2 (by simp)
    | some j =>
      simp only [pure, Outcome.ok.injEq, Prod.mk.injEq] at h2
      obtain ⟨hn, _, _⟩ := h2
      obtain ⟨hj1, hj2⟩ := acceptOr_ge f cs i0 es _ h1 j rfl
      exact ⟨j, cs', hn.symm, hj1, hj2, (accept_skel f).2.2 cs i0 es _ h1⟩


theorem getElem?_set_other {α : Type} (l : List α) (i k : Nat) (a : α) (h : k ≠ i) : (l.set i a)[k]? = l[k]? := by
  rw [List.getElem?_set_ne (Ne.symm h)]

theorem ite_bind_ok {α β : Type} {c : Prop} [Decidable c] {a b : Outcome α} {k : α → Outcome β} {r : β}
    (h : (if c then a >>= k else b >>= k) = .ok r) : ∃ x, (if c then a else b) = .ok x ∧ k x = .ok r := by
  split at h
  · rename_i hc; obtain ⟨x, h1, h2⟩ := bind_ok' h; exact ⟨x, by simp [hc, h1], h2⟩
  · rename_i hc; obtain ⟨x, h1, h2⟩ := bind_ok' h; exact ⟨x, by simp [hc, h1], h2⟩

def Moved (r : MT) : Prop := r = .newchoice ∨ r = .all

/-- **The odometer**: `tryNext` keeps the skeleton, and whenever it reports NEWCHOICE or MATCHALL the mixed-radix
number of the OR choices has grown. -/
theorem trynext_val : ∀ f : Nat,
    (∀ t es r, tryNext f t es = .ok r → smallOr (skel t) → skel r.1 = skel t ∧ (Moved r.2.2 → val t < val r.1)) ∧
    (∀ cs start es r, tryBack f cs start es = .ok r → smallOrL (skelL cs) →
      skelL r.1 = skelL cs ∧ (Moved r.2.2 → ∃ p, p ≤ start ∧ AdvAt p cs r.1)) ∧
    (∀ cs js es r, tryFwd f cs js es = .ok r → skelL r.1 = skelL cs ∧ ∀ k, k ∉ js → r.1[k]? = cs[k]?) := by
  intro f
  induction f with
  | zero =>
    exact ⟨fun _ _ _ h => by simp [tryNext] at h, fun _ _ _ _ h => by simp [tryBack] at h,
      fun _ _ _ _ h => by simp [tryFwd] at h⟩
  | succ f ih =>
    obtain ⟨ih1, ih2, ih3⟩ := ih
    refine ⟨?_, ?_, ?_⟩
    -- ---------------------------------------------------------- tryNext
    · intro t es r h hsm
      cases t with
      | simple n v im => simp [tryNext] at h
      | mult j v c c1 k cs =>
        have hsmL : smallOrL (skelL cs) := by simp only [skel, smallOr] at hsm; exact hsm.2
        cases j with
        | or =>
          have hlen : (cs.length : Int) < listEnd := by
            simp only [skel, smallOr, skelL_length] at hsm; exact hsm.1 trivial
          simp only [tryNext] at h
          split at h
          · cases h; exact ⟨rfl, fun hm => by rcases hm with e | e <;> cases e⟩
          · rename_i hnle
            split at h
            · cases h
            · rename_i i hir
              split at h
              · cases h
              · rename_i ch hch
                obtain ⟨hdig, hilt, hci⟩ := digit_inRange hir hlen
                -- the recursive step into the selected child
                have hstep : ∀ (r1 : ST × Ents × MT),
                    (if (!ch.isSimple) = true then tryNext f ch es else pure (ch, es, MT.nomore)) = .ok r1 →
                    skel r1.1 = skel ch ∧ ((!ch.isSimple) = true → Moved r1.2.2 → val ch < val r1.1) := by
                  intro r1 h1
                  split at h1
                  · have := ih1 ch es r1 h1 (smallOrL_mem hsmL hch)
                    exact ⟨this.1, fun _ => this.2⟩
                  · rename_i hs
                    cases h1; exact ⟨rfl, fun h' => absurd h' hs⟩
                obtain ⟨⟨ch1, es1, r1⟩, h1, h2⟩ := ite_bind_ok h
                obtain ⟨hs1, hv1⟩ := hstep _ h1
                have hsk1 : skelL (cs.set i ch1) = skelL cs := skelL_set' cs i ch ch1 hch hs1
                have hadv : (!ch.isSimple) = true → Moved r1 →
                    val (ST.mult .or v c c1 k cs) < val (ST.mult .or v c c1 k (cs.set i ch1)) := by
                  intro hns hm
                  simp only [val, List.length_set, hsk1]
                  have := valL_adv i cs (cs.set i ch1) hsk1
                    ⟨fun k' hk' => getElem?_set_other cs i k' ch1 (by omega), ch, ch1, hch,
                      by simp [hilt], hv1 hns hm⟩
                  omega
                simp only at h2
                split at h2
                · rename_i hc1
                  cases h2
                  simp only [Bool.and_eq_true, decide_eq_true_eq] at hc1
                  exact ⟨by simp only [skel]; rw [hsk1], fun _ => hadv hc1.1 (Or.inr hc1.2)⟩
                · split at h2
                  · rename_i _ hc2
                    cases h2
                    simp only [Bool.and_eq_true, decide_eq_true_eq] at hc2
                    exact ⟨by simp only [skel]; rw [hsk1], fun _ => hadv hc2.1 (Or.inl hc2.2)⟩
                  · obtain ⟨⟨ch2, es2⟩, h3, h4⟩ := bind_ok' h2
                    have hs2 := (unmark_skel f).1 ch1 es1 _ h3
                    have hch1 : (cs.set i ch1)[i]? = some ch1 := by simp [hilt]
                    have hsk2 : skelL ((cs.set i ch1).set i ch2) = skelL cs := by
                      rw [skelL_set' _ i ch1 ch2 hch1 hs2, hsk1]
                    simp only at h4
                    split at h4
                    · cases h4
                      exact ⟨by simp only [skel]; rw [hsk2], fun hm => by rcases hm with e | e <;> cases e⟩
                    · obtain ⟨⟨node, es3, b⟩, h5, h6⟩ := bind_ok' h4
                      have hsn := (accept_skel f).1 _ es2 _ h5
                      have hskn : skel node = skel (ST.mult .or v c c1 k cs) := by
                        rw [hsn]; simp only [skel]; rw [hsk2]
                      simp only at h6
                      cases b with
                      | false =>
                        simp only [Bool.false_eq_true, if_false] at h6; cases h6
                        exact ⟨hskn, fun hm => by rcases hm with e | e <;> cases e⟩
                      | true =>
                        simp only [if_true] at h6
                        have hmove : val (ST.mult .or v c c1 k cs) < val node := by
                          have hne1 : c + 1 ≠ listEnd := by omega
                          have hlen2 : ((cs.set i ch1).set i ch2).length = cs.length := by simp
                          have hir2 : inRange (c + 1) ((cs.set i ch1).set i ch2).length = some (i + 1) ∨
                              inRange (c + 1) ((cs.set i ch1).set i ch2).length = none := by
                            unfold inRange
                            rw [hlen2, hci]
                            by_cases hb : i + 1 < cs.length
                            · left
                              have : (0 : Int) ≤ (i : Int) + 1 ∧ (i : Int) + 1 < (cs.length : Int) := ⟨by omega, by omega⟩
                              simp only [this, and_self, if_true]
                              try (congr 1 <;> omega)
                            · right
                              have : ¬ ((0 : Int) ≤ (i : Int) + 1 ∧ (i : Int) + 1 < (cs.length : Int)) := by omega
                              simp only [this, if_false]
                          rcases hir2 with hir2 | hir2
                          · obtain ⟨j, cs', hnode, hj1, hj2, hskj⟩ := accept_or_choice f v (c + 1) c1 k _ es2 node es3 h5 hne1 (i + 1) hir2
                            rw [hlen2] at hj2
                            subst hnode
                            have hlen' : cs'.length = cs.length := by
                              have := length_of_skelL (hskj.trans hsk2); exact this
                            simp only [val, hlen', hskj, hsk2]
                            rw [hdig, digit_nat hj2 hlen]
                            have h1' := valL_lt_capL cs
                            have : (i + 1) * capL (skelL cs) + valL cs < (j + 1) * capL (skelL cs) :=
                              lt_mul_of_digit (by omega) h1'
                            omega
                          · -- no child behind the selected one: acceptChoice fails
                            exfalso
                            cases f with
                            | zero => simp [acceptChoice] at h5
                            | succ f' =>
                              simp only [acceptChoice, hne1, if_false, hir2] at h5
                              simp only [Outcome.ok.injEq, Prod.mk.injEq] at h5
                              exact absurd h5.2.2 (by simp)
                        split at h6
                        · cases h6; exact ⟨hskn, fun _ => hmove⟩
                        · cases h6; exact ⟨hskn, fun _ => hmove⟩
        | and =>
          simp only [tryNext] at h
          split at h
          · split at h
            · cases h; exact ⟨rfl, fun hm => by rcases hm with e | e <;> cases e⟩
            · cases h
          · obtain ⟨⟨cs', es', r'⟩, h1, h2⟩ := bind_ok' h
            cases h2
            obtain ⟨hs, hm⟩ := ih2 cs _ es _ h1 hsmL
            refine ⟨by simp only [skel]; rw [hs], fun hmv => ?_⟩
            obtain ⟨p, _, hp⟩ := hm hmv
            simp only [val]; exact valL_adv p cs cs' hs hp
        | andor =>
          simp only [tryNext] at h
          split at h
          · split at h
            · cases h; exact ⟨rfl, fun hm => by rcases hm with e | e <;> cases e⟩
            · cases h
          · obtain ⟨⟨cs', es', r'⟩, h1, h2⟩ := bind_ok' h
            cases h2
            obtain ⟨hs, hm⟩ := ih2 cs _ es _ h1 hsmL
            refine ⟨by simp only [skel]; rw [hs], fun hmv => ?_⟩
            obtain ⟨p, _, hp⟩ := hm hmv
            simp only [val]; exact valL_adv p cs cs' hs hp
    -- ---------------------------------------------------------- tryBack
    · intro cs start es r h hsm
      simp only [tryBack] at h
      split at h
      · cases h; exact ⟨rfl, fun hm => by rcases hm with e | e <;> cases e⟩
      · rename_i i hi
        have hile := firstCand_le cs start i hi
        split at h
        · cases h; exact ⟨rfl, fun hm => by rcases hm with e | e <;> cases e⟩
        · rename_i ch hch
          have hilt : i < cs.length := (List.getElem?_eq_some_iff.mp hch).1
          obtain ⟨⟨ch', es', r'⟩, h1, h2⟩ := bind_ok' h
          obtain ⟨hs1, hv1⟩ := ih1 ch es _ h1 (smallOrL_mem hsm hch)
          have hsk : skelL (cs.set i ch') = skelL cs := skelL_set' cs i ch ch' hch hs1
          have hget : (cs.set i ch')[i]? = some ch' := by simp [hilt]
          simp only at h2
          split at h2
          · rename_i hall
            cases h2
            exact ⟨hsk, fun _ => ⟨i, hile, fun k hk => getElem?_set_other cs i k ch' (by omega), ch, ch', hch, hget,
              hv1 (Or.inr hall)⟩⟩
          · split at h2
            · rename_i hnc
              obtain ⟨hs3, hsame⟩ := ih3 _ _ _ _ h2
              refine ⟨hs3.trans hsk, fun _ => ⟨i, hile, fun k hk => ?_, ch, ch', hch, ?_, hv1 (Or.inl hnc)⟩⟩
              · rw [hsame k (fun hmem => by have := nextCands_gt _ i k hmem; omega)]
                exact getElem?_set_other cs i k ch' (by omega)
              · rw [hsame i (fun hmem => by have := nextCands_gt _ i i hmem; omega)]; exact hget
            · split at h2
              · cases h2; exact ⟨hsk, fun hm => by rcases hm with e | e <;> cases e⟩
              · rename_i hi0
                obtain ⟨hs4, hm4⟩ := ih2 (cs.set i ch') (i - 1) es' _ h2 (by rw [hsk]; exact hsm)
                refine ⟨hs4.trans hsk, fun hmv => ?_⟩
                obtain ⟨p, hp, hpre, a, a', ha, ha', hlt⟩ := hm4 hmv
                have hpi : p < i := by omega
                refine ⟨p, by omega, fun k hk => ?_, a, a', ?_, ha', hlt⟩
                · rw [hpre k hk]; exact getElem?_set_other cs i k ch' (by omega)
                · rw [← getElem?_set_other cs i p ch' (by omega)]; exact ha
    -- ---------------------------------------------------------- tryFwd
    · intro cs js es r h
      cases js with
      | nil => simp only [tryFwd] at h; cases h; exact ⟨rfl, fun _ _ => rfl⟩
      | cons j js =>
        simp only [tryFwd] at h
        split at h
        · obtain ⟨a, b⟩ := ih3 cs js es r h
          exact ⟨a, fun k hk => b k (fun hm => hk (List.mem_cons_of_mem _ hm))⟩
        · rename_i ch hch
          obtain ⟨⟨ch', es', b⟩, h1, h2⟩ := bind_ok' h
          have hs := (accept_skel f).1 ch es _ h1
          have hsk : skelL (cs.set j ch') = skelL cs := skelL_set' cs j ch ch' hch hs
          simp only at h2
          split at h2
          · cases h2
            exact ⟨hsk, fun k hk => getElem?_set_other cs j k ch' (fun e => hk (by rw [e]; simp))⟩
          · obtain ⟨a, b'⟩ := ih3 _ js es' r h2
            refine ⟨a.trans hsk, fun k hk => ?_⟩
            rw [b' k (fun hm => hk (List.mem_cons_of_mem _ hm))]
            exact getElem?_set_other cs j k ch' (fun e => hk (by rw [e]; simp))

end StepModel.Complex.Match

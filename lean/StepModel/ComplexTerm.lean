import StepModel.ComplexOrFree3
/-!
# Termination of the retry loop of `ComplexList::matches`: the odometer of OR choices

`unmarkAll`, `acceptChoice` and `tryNext` never change a `viable` value nor the shape of the hierarchy (`skel`).
`val t` reads the `choice` fields of all `OrList`s as one mixed-radix number (an `OrList` is more significant than what
lies below it, an earlier sibling more significant than a later one); `cap t` bounds it.  Whenever `tryNext` reports
NEWCHOICE or MATCHALL the number has grown; so the loop `while( otherChoices == NEWCHOICE )` runs at most `cap` times.
-/
namespace StepModel.Complex.Match
open StepModel.Generated StepModel.Complex

-- ------------------------------------------------------------------ the skeleton is never touched
theorem skelL_set' (cs : List ST) (i : Nat) (ch ch' : ST) (hc : cs[i]? = some ch) (hs : skel ch' = skel ch) :
    skelL (cs.set i ch') = skelL cs := skelL_set cs i ch ch' hc hs

theorem unmark_skel : ∀ f : Nat,
    (∀ t es r, unmarkAll f t es = .ok r → skel r.1 = skel t) ∧
    (∀ cs es r, unmarkList f cs es = .ok r → skelL r.1 = skelL cs) := by
  intro f
  induction f with
  | zero => exact ⟨fun _ _ _ h => by simp [unmarkAll] at h, fun _ _ _ h => by simp [unmarkList] at h⟩
  | succ f ih =>
    obtain ⟨ih1, ih2⟩ := ih
    refine ⟨?_, ?_⟩
    · intro t es r h
      cases t with
      | simple n v im =>
        simp only [unmarkAll, simpleUnmark] at h
        split at h
        · cases h; rfl
        · split at h
          · cases h
          · split at h
            · cases h
            · cases h; rfl
      | mult j v c c1 k cs =>
        cases j with
        | or =>
          simp only [unmarkAll] at h
          split at h
          · cases h; rfl
          · split at h
            · cases h; rfl
            · rename_i i _ _ ch hch
              obtain ⟨⟨ch', es'⟩, h1, h2⟩ := bind_ok' h
              cases h2
              simp only [skel]
              rw [skelL_set' cs i ch ch' hch (ih1 ch es _ h1)]
        | and =>
          simp only [unmarkAll] at h
          obtain ⟨⟨cs', es'⟩, h1, h2⟩ := bind_ok' h
          cases h2; simp only [skel]; rw [ih2 cs es _ h1]
        | andor =>
          simp only [unmarkAll] at h
          obtain ⟨⟨cs', es'⟩, h1, h2⟩ := bind_ok' h
          cases h2; simp only [skel]; rw [ih2 cs es _ h1]
    · intro cs es r h
      cases cs with
      | nil => simp only [unmarkList] at h; cases h; rfl
      | cons ch rest =>
        simp only [unmarkList] at h
        obtain ⟨⟨ch', es1⟩, h1, h2⟩ := bind_ok' h
        obtain ⟨⟨rest', es2⟩, h3, h4⟩ := bind_ok' h2
        cases h4
        simp only [skelL]; rw [ih1 ch es _ h1, ih2 rest es1 _ h3]

theorem accept_skel : ∀ f : Nat,
    (∀ t es r, acceptChoice f t es = .ok r → skel r.1 = skel t) ∧
    (∀ cs es r, acceptJoin f cs es = .ok r → skelL r.1 = skelL cs) ∧
    (∀ cs i es r, acceptOr f cs i es = .ok r → skelL r.1 = skelL cs) := by
  intro f
  induction f with
  | zero =>
    exact ⟨fun _ _ _ h => by simp [acceptChoice] at h, fun _ _ _ h => by simp [acceptJoin] at h,
      fun _ _ _ _ h => by simp [acceptOr] at h⟩
  | succ f ih =>
    obtain ⟨ih1, ih2, ih3⟩ := ih
    refine ⟨?_, ?_, ?_⟩
    · intro t es r h
      cases t with
      | simple n v im =>
        simp only [acceptChoice, simpleAccept] at h
        cases h
        split
        · rfl
        · split
          · rfl
          · split <;> rfl
      | mult j v c c1 k cs =>
        cases j with
        | or =>
          simp only [acceptChoice] at h
          split at h
          · cases h; rfl
          · obtain ⟨⟨cs', es', r'⟩, h1, h2⟩ := bind_ok' h
            have := ih3 cs _ es _ h1
            cases r' with
            | none => cases h2; simp only [skel]; rw [this]
            | some j => cases h2; simp only [skel]; rw [this]
        | and =>
          simp only [acceptChoice] at h
          obtain ⟨⟨cs', es', r'⟩, h1, h2⟩ := bind_ok' h
          cases h2; simp only [skel]; rw [ih2 cs es _ h1]
        | andor =>
          simp only [acceptChoice] at h
          obtain ⟨⟨cs', es', r'⟩, h1, h2⟩ := bind_ok' h
          cases h2; simp only [skel]; rw [ih2 cs es _ h1]
    · intro cs es r h
      cases cs with
      | nil => simp only [acceptJoin] at h; cases h; rfl
      | cons ch rest =>
        simp only [acceptJoin] at h
        split at h
        · obtain ⟨⟨ch', es1, r1⟩, h1, h2⟩ := bind_ok' h
          obtain ⟨⟨rest', es2, r2⟩, h3, h4⟩ := bind_ok' h2
          cases h4
          simp only [skelL]; rw [ih1 ch es _ h1, ih2 rest es1 _ h3]
        · obtain ⟨⟨ch', es1, r1⟩, h1, h2⟩ := bind_ok' h
          cases h1
          obtain ⟨⟨rest', es2, r2⟩, h3, h4⟩ := bind_ok' h2
          cases h4
          simp only [skelL]; rw [ih2 rest es _ h3]
    · intro cs i es r h
      simp only [acceptOr] at h
      split at h
      · cases h; rfl
      · rename_i ch hch
        split at h
        · obtain ⟨⟨ch', es1, r1⟩, h1, h2⟩ := bind_ok' h
          have hs := ih1 ch es _ h1
          cases r1 with
          | true => simp only [if_true] at h2; cases h2; exact skelL_set' cs i ch ch' hch hs
          | false =>
            simp only [Bool.false_eq_true, if_false] at h2
            rw [ih3 _ _ _ _ h2]; exact skelL_set' cs i ch ch' hch hs
        · exact ih3 cs (i + 1) es r h

end StepModel.Complex.Match

import StepModel.ComplexSatO4
/-! An acceptance of `ComplexCollect::supports` implies that some list of the collect can be satisfied from the request
— for every hierarchy (OrLists included) and every request (members with several supertypes included). -/
namespace StepModel.Complex.Match
open StepModel.Generated StepModel.Complex

theorem matches_sat (fuel : Nat) (combo : Bool) (head : Tree) (es : Ents) (hwf : treeWF head = true)
    (hN : (names es).Pairwise (· < ·)) (h : matchesList fuel combo head es = .ok true) :
    satO (names es) head = true := by
  unfold matchesList at h
  split at h
  · cases h
  · rename_i list hbl
    have hnotor : isOrT head = false := by
      cases head with
      | or ts => simp [buildList] at hbl
      | simple n => rfl
      | and ts => rfl
      | andor ts => rfl
    split at h
    · cases h
    · obtain ⟨⟨h1, es1, r1⟩, hA, hB⟩ := bind_ok' h
      have P := (nonors_sem (names es) hN fuel).1 head es _ hA hwf rfl
      have hvia := P.via hnotor
      simp only at hB hvia
      split at hB
      · rename_i hall
        have hk : K (skel h1).viable := by rw [viable_skel', hvia, hall]; exact Or.inr (Or.inr rfl)
        have := SemV_K P.sem hk
        rw [P.trr] at this; exact this
      · split at hB
        · cases hB
        · rename_i hu
          have hu' : r1 = .unknown := Classical.byContradiction (fun hne => hu hne)
          obtain ⟨⟨h2, es2, r2⟩, hC, hD⟩ := bind_ok' hB
          have O := (ors_sem (names es) hN fuel).1 h1 es1 _ hC (P.pend (by rw [hvia]; exact hu')) P.sem P.nm
          have hK : K r2 := by
            simp only at hD
            split at hD
            · rename_i hc
              simp only [Bool.and_eq_true, decide_eq_true_eq] at hc
              rw [hc.1]; exact Or.inr (Or.inr rfl)
            · split at hD
              · rename_i hr
                rcases O.ret.2.2 with h' | h'
                · simp only at h'; rw [h'] at hr; simp [MT.rank] at hr
                · exact h'
              · cases hD
          have := SemV_K O.sem (by rw [viable_skel']; exact O.ret.2.1 hK)
          rw [O.trr, P.trr] at this; exact this

theorem foldlM_inv {α β : Type} (P : β → Prop) (g : β → α → Outcome β) : ∀ (l : List α),
    (∀ acc x r, x ∈ l → P acc → g acc x = .ok r → P r) → ∀ acc r, l.foldlM g acc = .ok r → P acc → P r := by
  intro l
  induction l with
  | nil => intro _ acc r h hp; simp only [List.foldlM] at h; cases h; exact hp
  | cons a l ih =>
    intro hstep acc r h hp
    simp only [List.foldlM_cons] at h
    obtain ⟨b, hb, hrest⟩ := bind_ok' h
    exact ih (fun acc x r hx => hstep acc x r (List.mem_cons_of_mem _ hx)) b r hrest (hstep acc a b (by simp) hp hb)

/-- the joined list consists of the children of lists of the collect -/
def FromHeads (c : Collect) (acc : List Tree) : Prop :=
  ∃ hs : List Tree, (∀ h ∈ hs, h ∈ c) ∧ acc = (hs.map Tree.children).flatten

theorem joinLists_from (c : Collect) (es : Ents) (joined : List Tree) (h : joinLists c es = .ok joined) :
    FromHeads c joined := by
  unfold joinLists at h
  refine foldlM_inv (FromHeads c) _ es ?_ [] joined h ⟨[], (fun _ hh => by cases hh), rfl⟩
  intro acc node r _ hp hstep
  split at hstep
  · cases hstep; exact hp
  · refine foldlM_inv (FromHeads c) _ c ?_ acc r hstep hp
    intro acc' hd r' hhd hp' hs
    split at hs
    · split at hs
      · obtain ⟨already, _, h2⟩ := bind_ok' hs
        cases h2
        split
        · exact hp'
        · obtain ⟨hs0, a1, a2⟩ := hp'
          refine ⟨hs0 ++ [hd], fun x hx => ?_, ?_⟩
          · rcases List.mem_append.mp hx with e | e
            · exact a1 x e
            · simp only [List.mem_singleton] at e; rw [e]; exact hhd
          · rw [a2]; simp
      · cases hs; exact hp'
    · cases hs

theorem treeWFL_iff (l : List Tree) : treeWFL l = true ↔ ∀ t ∈ l, treeWF t = true := by
  induction l with
  | nil => simp [treeWFL]
  | cons a l ih => simp [treeWFL, ih]

theorem satOAll_all (N : List Name) (l : List Tree) : satOAll N l = true ↔ ∀ t ∈ l, satO N t = true := by
  induction l with
  | nil => simp [satOAll]
  | cons a l ih => simp [satOAll, ih]

/-- **accept ⇒ satisfiable**: whenever `supports` answers `true`, some list of the collect can be satisfied from the
request (`satO`) -/
theorem supports_sat (c : Collect) (mult parts : List Name) (hc : ∀ h ∈ c, headWF h = true)
    (hs : supports c mult parts = .ok true) : ∃ h ∈ c, satO (mkNames parts) h = true := by
  have hn : names (mkEnts mult parts) = mkNames parts := by
    simp [names, mkEnts, List.map_map, Function.comp_def]
  have hsorted : (names (mkEnts mult parts)).Pairwise (· < ·) := by rw [hn]; exact sorted_mkNames parts
  have hwfh : ∀ h ∈ c, treeWF h = true ∧ ∃ ch, h = .and ch := by
    intro h hh
    obtain ⟨n, t, rfl, ht⟩ := headWF_shape (hc h hh)
    exact ⟨by simp [treeWF, treeWFL, ht], _, rfl⟩
  unfold supports supportsEnts at hs
  split at hs
  · obtain ⟨joined, hj, h2⟩ := bind_ok' hs
    split at h2
    · cases h2
    · rename_i hemp
      split at h2
      · cases h2
      · obtain ⟨hs0, a1, a2⟩ := joinLists_from c _ joined hj
        have hne : joined ≠ [] := by
          intro e; rw [e] at hemp; simp at hemp
        have hwf : treeWF (.and joined) = true := by
          simp only [treeWF, Bool.and_eq_true, Bool.not_eq_true', List.isEmpty_eq_false_iff]
          refine ⟨hne, (treeWFL_iff _).mpr ?_⟩
          intro t ht
          rw [a2] at ht
          obtain ⟨l, hl, htl⟩ := List.mem_flatten.mp ht
          obtain ⟨h0, hh0, rfl⟩ := List.mem_map.mp hl
          obtain ⟨w, ch, rfl⟩ := hwfh h0 (a1 h0 hh0)
          simp only [treeWF, Bool.and_eq_true] at w
          exact (treeWFL_iff _).mp w.2 t htl
        have hsat := matches_sat _ true _ _ hwf hsorted h2
        rw [hn] at hsat
        simp only [satO] at hsat
        have hall := (satOAll_all _ _).mp hsat
        cases hs0 with
        | nil => rw [a2] at hne; simp at hne
        | cons h0 rest =>
          have hh0 : h0 ∈ c := a1 h0 (by simp)
          obtain ⟨_, ch, rfl⟩ := hwfh h0 hh0
          refine ⟨_, hh0, ?_⟩
          simp only [satO]
          apply (satOAll_all _ _).mpr
          intro t ht
          apply hall t
          rw [a2]; simp only [List.map_cons, List.flatten_cons, Tree.children]
          exact List.mem_append.mpr (Or.inl ht)
  · rcases foldlM_true false hs with h1 | ⟨h, hh, hm⟩
    · cases h1
    · have := matches_sat _ false h _ (hwfh h hh).1 hsorted hm
      rw [hn] at this
      exact ⟨h, hh, this⟩


/-- an accepted request lies within the list (`ComplexList::contains`) -/
theorem matches_within (fuel : Nat) (combo : Bool) (head : Tree) (es : Ents)
    (h : matchesList fuel combo head es = .ok true) : ∀ x ∈ names es, x ∈ leaves head := by
  unfold matchesList at h
  split at h
  · cases h
  · rename_i list hbl
    split at h
    · cases h
    · rename_i hcw
      have hcw' : containsWalk list (names es) = true := by
        simpa [names] using hcw
      intro x hx
      have hxl := containsWalk_sub _ _ hcw' x hx
      unfold buildList at hbl
      split at hbl
      · rename_i n rest
        cases hbl
        have := (mem_insAll (leavesL rest) [n] x).mp hxl
        simp only [leaves, leavesL, List.mem_cons, List.mem_append]
        rcases this with h' | h'
        · simp only [List.mem_singleton] at h'; exact Or.inl (Or.inl h')
        · exact Or.inr h'
      · cases hbl

/-- without members that have several supertypes: one list can be satisfied from the request and contains all of it -/
theorem supports_sat_single (c : Collect) (parts : List Name) (hc : ∀ h ∈ c, headWF h = true)
    (hs : supports c [] parts = .ok true) :
    ∃ h ∈ c, satO (mkNames parts) h = true ∧ ∀ x ∈ parts, x ∈ leaves h := by
  have hn : names (mkEnts [] parts) = mkNames parts := by
    simp [names, mkEnts, List.map_map, Function.comp_def]
  have hsorted : (names (mkEnts [] parts)).Pairwise (· < ·) := by rw [hn]; exact sorted_mkNames parts
  unfold supports supportsEnts at hs
  have hnm : (mkEnts [] parts).any (fun e => e.mult) = false := by simp [mkEnts]
  simp only [hnm, Bool.false_eq_true, if_false] at hs
  rcases foldlM_true false hs with h1 | ⟨h, hh, hm⟩
  · cases h1
  · obtain ⟨n, t, rfl, ht⟩ := headWF_shape (hc h hh)
    have hwf : treeWF (.and [.simple n, t]) = true := by simp [treeWF, treeWFL, ht]
    have h1 := matches_sat _ false _ _ hwf hsorted hm
    have h2 := matches_within _ false _ _ hm
    rw [hn] at h1 h2
    exact ⟨_, hh, h1, fun x hx => h2 x ((mem_mkNames parts x).mpr hx)⟩

end StepModel.Complex.Match

import StepModel.ExpressResolveLemmas
/-!
# `Spec.WF` for the declaration-level EXPRESS model, and "no ERROR ⇔ well-formed", class by class

Each fault class of C04 gets a declarative well-formedness predicate (quantifiers over the declarations, no reference to how
the passes scan) and a lemma: the corresponding check of `Express.Resolve` reports no ERROR exactly when the predicate holds.
-/
namespace StepModel.Express.Resolve
open StepModel.Generated
open StepModel.Express.Diag (Arg Diag Via)

/-! ### generalities -/

theorem hasError_nil : hasError [] = false := rfl

theorem hasError_append (a b : List Diag) : hasError (a ++ b) = (hasError a || hasError b) := by
  simp [hasError, List.any_append]

theorem hasError_false_iff (ds : List Diag) : hasError ds = false ↔ ∀ d ∈ ds, isErrorCode d.code = false := by
  simp [hasError, List.any_eq_false]

theorem hasError_flatMap_false {α : Type} (l : List α) (g : α → List Diag) :
    hasError (l.flatMap g) = false ↔ ∀ x ∈ l, hasError (g x) = false := by
  simp only [hasError_false_iff, List.mem_flatMap]
  constructor
  · intro h x hx d hd; exact h d ⟨x, hx, hd⟩
  · intro h d ⟨x, hx, hd⟩; exact h x hx d hd

/-- a list all of whose diagnostics are ERRORs has no error exactly when it is empty -/
theorem hasError_false_iff_nil {ds : List Diag} (h : ∀ d ∈ ds, isErrorCode d.code = true) : hasError ds = false ↔ ds = [] := by
  constructor
  · intro hf
    cases ds with
    | nil => rfl
    | cons d t =>
      have := (hasError_false_iff _).mp hf d (by simp)
      rw [h d (by simp)] at this; cases this
  · intro e; subst e; rfl

theorem mk_code (p : String) (c l : Nat) (a : List Arg) : (mk p c l a).code = c := rfl

theorem hasError_cons (d : Diag) (ds : List Diag) : hasError (d :: ds) = (isErrorCode d.code || hasError ds) := by
  simp [hasError]

/-! severities of the codes the model reports (regenerated table) -/
theorem err_DUPLICATE_DECL : isErrorCode LibErrors.DUPLICATE_DECL = true := by decide
theorem err_NOT_A_TYPE : isErrorCode LibErrors.NOT_A_TYPE = true := by decide
theorem err_UNDEFINED_TYPE : isErrorCode LibErrors.UNDEFINED_TYPE = true := by decide
theorem err_MISSING_SUPERTYPE : isErrorCode LibErrors.MISSING_SUPERTYPE = true := by decide
theorem err_OVERLOADED_ATTR : isErrorCode LibErrors.OVERLOADED_ATTR = true := by decide
theorem err_UNDEFINED_FUNC : isErrorCode LibErrors.UNDEFINED_FUNC = true := by decide
theorem err_MISSING_SELF : isErrorCode LibErrors.MISSING_SELF = true := by decide
theorem err_UNKNOWN_ATTR_IN_ENTITY : isErrorCode LibErrors.UNKNOWN_ATTR_IN_ENTITY = true := by decide
theorem err_UNDEFINED : isErrorCode LibErrors.UNDEFINED = true := by decide
theorem err_GROUP_REF_UNEXPECTED_TYPE : isErrorCode LibErrors.GROUP_REF_UNEXPECTED_TYPE = true := by decide
theorem err_ATTRIBUTE_REF_FROM_NON_ENTITY : isErrorCode LibErrors.ATTRIBUTE_REF_FROM_NON_ENTITY = true := by decide
theorem err_INVERSE_BAD_ENTITY : isErrorCode LibErrors.INVERSE_BAD_ENTITY = true := by decide
theorem err_INVERSE_BAD_ATTR : isErrorCode LibErrors.INVERSE_BAD_ATTR = true := by decide
theorem err_UNKNOWN_SUPERTYPE : isErrorCode LibErrors.UNKNOWN_SUPERTYPE = true := by decide
theorem err_UNKNOWN_SUBTYPE : isErrorCode LibErrors.UNKNOWN_SUBTYPE = true := by decide
theorem err_SUPERTYPE_RESOLVE : isErrorCode LibErrors.SUPERTYPE_RESOLVE = true := by decide
theorem err_SUBTYPE_RESOLVE : isErrorCode LibErrors.SUBTYPE_RESOLVE = true := by decide
theorem err_SUBSUPER_LOOP : isErrorCode LibErrors.SUBSUPER_LOOP = true := by decide
theorem err_SUBSUPER_CONTINUATION : isErrorCode LibErrors.SUBSUPER_CONTINUATION = true := by decide
theorem err_SELECT_LOOP : isErrorCode LibErrors.SELECT_LOOP = true := by decide
theorem err_SELECT_CONTINUATION : isErrorCode LibErrors.SELECT_CONTINUATION = true := by decide
theorem err_TYPE_IS_ENTITY : isErrorCode LibErrors.TYPE_IS_ENTITY = true := by decide
theorem err_CIRCULAR_REFERENCE : isErrorCode LibErrors.CIRCULAR_REFERENCE = true := by decide
theorem err_REDECL_NO_SUCH_SUPERTYPE : isErrorCode LibErrors.REDECL_NO_SUCH_SUPERTYPE = true := by decide
theorem err_REDECL_NO_SUCH_ATTR : isErrorCode LibErrors.REDECL_NO_SUCH_ATTR = true := by decide
theorem err_SYNTAX : isErrorCode LibErrors.SYNTAX = true := by decide
theorem err_UNDEFINED_SCHEMA : isErrorCode LibErrors.UNDEFINED_SCHEMA = true := by decide
theorem err_REF_NONEXISTENT : isErrorCode LibErrors.REF_NONEXISTENT = true := by decide
theorem err_ATTRIBUTE_REF_ON_AGGREGATE : isErrorCode LibErrors.ATTRIBUTE_REF_ON_AGGREGATE = true := by decide
theorem err_ENUM_NO_SUCH_ITEM : isErrorCode LibErrors.ENUM_NO_SUCH_ITEM = true := by decide
theorem err_UNDEFINED_ATTR : isErrorCode LibErrors.UNDEFINED_ATTR = true := by decide
theorem warn_CASE_SKIP_LABEL : isErrorCode LibErrors.CASE_SKIP_LABEL = false := by decide
theorem warn_WRONG_ARG_COUNT : isErrorCode LibErrors.WRONG_ARG_COUNT = false := by decide
theorem warn_WARN_SMALL_REAL : isErrorCode LibErrors.WARN_SMALL_REAL = false := by decide
theorem warn_UNIQUE_QUAL_REDECL : isErrorCode LibErrors.UNIQUE_QUAL_REDECL = false := by decide

/-- evaluates `hasError` / `isErrorCode` on lists of `mk` diagnostics with concrete codes -/
macro "errsimp" : tactic =>
  `(tactic| simp [hasError_cons, hasError_nil, mk_code, err_DUPLICATE_DECL, err_NOT_A_TYPE, err_UNDEFINED_TYPE, err_MISSING_SUPERTYPE, err_OVERLOADED_ATTR, err_UNDEFINED_FUNC, err_MISSING_SELF, err_UNKNOWN_ATTR_IN_ENTITY, err_UNDEFINED, err_GROUP_REF_UNEXPECTED_TYPE, err_ATTRIBUTE_REF_FROM_NON_ENTITY, err_INVERSE_BAD_ENTITY, err_INVERSE_BAD_ATTR, err_UNKNOWN_SUPERTYPE, err_UNKNOWN_SUBTYPE, err_SUPERTYPE_RESOLVE, err_SUBTYPE_RESOLVE, err_SUBSUPER_LOOP, err_SUBSUPER_CONTINUATION, err_SELECT_LOOP, err_SELECT_CONTINUATION, err_TYPE_IS_ENTITY, err_CIRCULAR_REFERENCE, err_REDECL_NO_SUCH_SUPERTYPE, err_REDECL_NO_SUCH_ATTR, err_SYNTAX, err_UNDEFINED_SCHEMA, err_REF_NONEXISTENT, warn_WRONG_ARG_COUNT, warn_WARN_SMALL_REAL, warn_UNIQUE_QUAL_REDECL, err_ATTRIBUTE_REF_ON_AGGREGATE, err_ENUM_NO_SUCH_ITEM, err_UNDEFINED_ATTR, warn_CASE_SKIP_LABEL])

/-! ### duplicate declarations in one scope (`DICTdefine`) -/

theorem dupDiags_all_error (p : String) : ∀ items seen, ∀ d ∈ dupDiags p items seen, isErrorCode d.code = true
  | [], _, d, h => by simp [dupDiags] at h
  | (n, l) :: rest, seen, d, h => by
    simp only [dupDiags] at h
    split at h
    · rcases List.mem_cons.mp h with h | h
      · subst h; errsimp
      · exact dupDiags_all_error p rest seen d h
    · exact dupDiags_all_error p rest _ d h

/-- `DICTdefine` reports nothing exactly when the names are pairwise distinct and none is already in the dictionary -/
theorem dupDiags_nil_iff (p : String) : ∀ (items seen : List (String × Nat)),
    dupDiags p items seen = [] ↔ (items.map (·.1)).Nodup ∧ ∀ x ∈ items, x.1 ∉ seen.map (·.1)
  | [], seen => by simp [dupDiags]
  | (n, l) :: rest, seen => by
    simp only [dupDiags]
    cases hf : seen.find? (fun x => x.1 = n) with
    | some x =>
      have hx := List.find?_some hf
      have hm := List.mem_of_find?_eq_some hf
      simp only [decide_eq_true_eq] at hx
      simp only [List.cons_ne_nil, false_iff, not_and]
      intro _ hall
      exact hall (n, l) (by simp) (List.mem_map.mpr ⟨x, hm, hx⟩)
    | none =>
      have hn : n ∉ seen.map (·.1) := by
        intro hm
        obtain ⟨y, hy, hyn⟩ := List.mem_map.mp hm
        have := List.find?_eq_none.mp hf y hy
        simp [hyn] at this
      simp only
      rw [dupDiags_nil_iff p rest (seen ++ [(n, l)])]
      simp only [List.map_cons, List.nodup_cons, List.map_append, List.map_nil, List.mem_append, List.mem_cons,
        List.mem_singleton, List.mem_map, List.not_mem_nil, or_false]
      constructor
      · rintro ⟨hnd, hall⟩
        refine ⟨⟨?_, hnd⟩, ?_⟩
        · rintro ⟨y, hy, hyn⟩
          exact hall y hy (Or.inr hyn)
        · intro x hx
          rcases hx with hx | hx
          · subst hx; rintro ⟨y, hy, hyn⟩; exact hn (List.mem_map.mpr ⟨y, hy, hyn⟩)
          · intro hc; exact hall x hx (Or.inl hc)
      · rintro ⟨⟨hnr, hnd⟩, hall⟩
        refine ⟨hnd, ?_⟩
        intro x hx hc
        rcases hc with hc | hc
        · exact hall x (Or.inr hx) hc
        · exact hnr ⟨x, hx, hc⟩

/-- **duplicate declaration in one scope**: the dictionary model reports an ERROR exactly when two of the names entered into
    one (initially empty) scope coincide -/
theorem dupDiags_noError_iff (p : String) (items : List (String × Nat)) :
    hasError (dupDiags p items []) = false ↔ (items.map (·.1)).Nodup := by
  rw [hasError_false_iff_nil (dupDiags_all_error p items []), dupDiags_nil_iff]
  simp

/-! ### undefined type -/

/-- the name denotes a type or an entity in schema `s` (declared there or visible through an interface clause) -/
def DenotesType (env : Env) (s : Schema) (n : String) : Prop :=
  (findType s n).isSome = true ∨ isEntity s n = true ∨
    ((findFunc s n).isSome = false ∧ (env.foreign n = some .entity ∨ env.foreign n = some .type))

/-- a type reference is well formed when the name at its core (below any aggregate constructors) denotes a type -/
def TypeRefWF (env : Env) (s : Schema) : TypeRef → Prop
  | .simple => True
  | .aggr b => TypeRefWF env s b
  | .named n _ => DenotesType env s n

theorem typeRefDiags_all_error (p : String) (env : Env) (s : Schema) : ∀ t, ∀ d ∈ typeRefDiags p env s t, isErrorCode d.code = true
  | .simple, d, h => by simp [typeRefDiags] at h
  | .aggr b, d, h => typeRefDiags_all_error p env s b d (by simpa [typeRefDiags] using h)
  | .named n l, d, h => by
    simp only [typeRefDiags] at h
    split at h
    · simp at h
    · split at h
      · simp at h; subst h; errsimp
      · split at h
        · simp at h; subst h; errsimp
        · simp at h
        · simp at h; subst h; errsimp

theorem typeRefDiags_nil_iff (p : String) (env : Env) (s : Schema) : ∀ t, typeRefDiags p env s t = [] ↔ TypeRefWF env s t
  | .simple => by simp [typeRefDiags, TypeRefWF]
  | .aggr b => by simpa [typeRefDiags, TypeRefWF] using typeRefDiags_nil_iff p env s b
  | .named n l => by
    simp only [typeRefDiags, TypeRefWF, DenotesType]
    by_cases h1 : ((findType s n).isSome || isEntity s n) = true
    · simp only [h1, if_true, true_iff]
      rcases Bool.or_eq_true _ _ |>.mp h1 with h | h
      · exact Or.inl h
      · exact Or.inr (Or.inl h)
    · have h1' : (findType s n).isSome = false ∧ isEntity s n = false := by
        simpa [Bool.or_eq_false_iff] using h1
      simp only [h1, if_false, Bool.false_eq_true]
      by_cases h2 : (findFunc s n).isSome = true
      · simp [h2, h1'.1, h1'.2]
      · have h2' : (findFunc s n).isSome = false := by simpa using h2
        simp only [h2', Bool.false_eq_true, if_false]
        cases hf : env.foreign n with
        | none => simp [h1'.1, h1'.2]
        | some k => cases k <;> simp [h1'.1, h1'.2, h2']

/-- **undefined type**: a type reference is reported (UNDEFINED_TYPE / NOT_A_TYPE) exactly when its core name denotes no type -/
theorem typeRef_noError_iff (p : String) (env : Env) (s : Schema) (t : TypeRef) :
    hasError (typeRefDiags p env s t) = false ↔ TypeRefWF env s t := by
  rw [hasError_false_iff_nil (typeRefDiags_all_error p env s t), typeRefDiags_nil_iff]

/-! ### a subtype that does not list its supertype (MISSING_SUPERTYPE) -/

/-- every entity on `e`'s (run-time) subtype list names `e` among its resolved supertypes -/
def SubtypesListSuper (s : Schema) (e : Entity) : Prop :=
  ∀ sub ∈ subtypesOf s e, ∀ se, findEntity s sub = some se → e.name ∈ supersOf s se

theorem missingSuper_noError_iff (path : String) (s : Schema) (e : Entity) :
    hasError (missingSuperDiags path s e) = false ↔ SubtypesListSuper s e := by
  have hall : ∀ d ∈ missingSuperDiags path s e, isErrorCode d.code = true := by
    intro d hd
    simp only [missingSuperDiags, List.mem_filterMap] at hd
    obtain ⟨sub, _, hd⟩ := hd
    split at hd
    · split at hd
      · simp at hd
      · simp at hd; subst hd; errsimp
    · simp at hd
  rw [hasError_false_iff_nil hall]
  simp only [missingSuperDiags, List.filterMap_eq_nil_iff, SubtypesListSuper]
  constructor
  · intro h sub hsub se hse
    have := h sub hsub
    simp only [hse] at this
    by_cases hm : e.name ∈ supersOf s se
    · exact hm
    · simp [hm] at this
  · intro h sub hsub
    cases hse : findEntity s sub with
    | none => rfl
    | some se => simp [h sub hsub se hse]

/-! ### an inherited attribute declared again (OVERLOADED_ATTR) -/

/-- no new (not redeclared) attribute of `e` is found by the marked search `ENTITY_get_named_attribute_once` in a supertype of `e` -/
def NoOverload (s : Schema) (fuel : Nat) (e : Entity) : Prop :=
  ∀ a ∈ e.attrs, a.redeclOf = none → ∀ sup ∈ supersOf s e, overloadFound s a.name fuel sup ≠ some true

theorem overload_noError_iff (path : String) (s : Schema) (fuel : Nat) (e : Entity) :
    hasError (overloadDiags path s fuel e) = false ↔ NoOverload s fuel e := by
  have hall : ∀ d ∈ overloadDiags path s fuel e, isErrorCode d.code = true := by
    intro d hd
    simp only [overloadDiags, List.mem_filterMap] at hd
    obtain ⟨⟨r, d0⟩, hx, hd⟩ := hd
    simp only at hd
    split at hd
    · simp at hd; subst hd
      simp only [overloadCands, List.mem_flatMap] at hx
      obtain ⟨a, _, hx⟩ := hx
      split at hx
      · simp at hx
      · simp only [List.mem_map] at hx
        obtain ⟨sup, _, hx⟩ := hx
        simp at hx; obtain ⟨_, rfl⟩ := hx; errsimp
    · simp at hd
  rw [hasError_false_iff_nil hall]
  simp only [overloadDiags, List.filterMap_eq_nil_iff, NoOverload]
  constructor
  · intro h a ha hr sup hsup hfound
    have := h (overloadFound s a.name fuel sup, mk path LibErrors.OVERLOADED_ATTR a.line [sArg a.name, sArg (declName sup)]) (by
      simp only [overloadCands, List.mem_flatMap]
      exact ⟨a, ha, by simp [hr]; exact ⟨sup, hsup, rfl, rfl⟩⟩)
    simp [hfound] at this
  · intro h x hx
    obtain ⟨r, d⟩ := x
    simp only [overloadCands, List.mem_flatMap] at hx
    obtain ⟨a, ha, hx⟩ := hx
    split at hx
    · simp at hx
    next hr =>
      simp only [List.mem_map] at hx
      obtain ⟨sup, hsup, hx⟩ := hx
      simp at hx; obtain ⟨rfl, rfl⟩ := hx
      have := h a ha hr sup hsup
      simp [this]

/-! ### undefined function / attribute in a domain rule -/

/-- the function name of a call denotes a declared or built-in function -/
def CallWF (s : Schema) (fn : String) : Prop := (findFunc s fn).isSome = true ∨ (builtinArity fn).isSome = true

theorem callDiags_noError_iff (path : String) (s : Schema) (r : Rule) (fn : String) (argc : Nat) :
    hasError (callDiags path s r fn argc) = false ↔ CallWF s fn := by
  simp only [callDiags, CallWF]
  cases hf : findFunc s fn with
  | some fd =>
    simp only [Option.isSome_some, true_or, iff_true]
    split
    · rfl
    · errsimp
  | none =>
    cases hb : builtinArity fn with
    | some n =>
      simp only [Option.isSome_none, Option.isSome_some, Bool.false_eq_true, false_or, iff_true]
      split
      · rfl
      · errsimp
    | none =>
      simp only [Option.isSome_none, Bool.false_eq_true, or_self, iff_false]
      errsimp

/-- `attr` is an attribute of `e` or of one of its supertypes (found by `ENTITYget_named_attribute` within `fuel` levels) -/
def AttrVisible (s : Schema) (fuel : Nat) (e : Entity) (an : String) : Prop := namedAttr s an fuel e.name = some true

/-- the schema scope knows the name: a declaration of the schema (of any kind) or an imported object -/
def GlobalVisible (env : Env) (s : Schema) (n : String) : Prop :=
  (findFunc s n).isSome = true ∨ (ownObj s n).isSome = true ∨ (env.foreign n).isSome = true

theorem missingSelf_noError_iff (p : String) (r : Rule) : hasError (missingSelf p r) = false ↔ r.isWhere = false := by
  simp only [missingSelf]
  cases r.isWhere with
  | true => simp only [if_true, reduceCtorEq, iff_false, Bool.not_eq_false]; errsimp
  | false => simp [hasError_nil]

theorem globalRef_isSome_iff (p : String) (env : Env) (s : Schema) (r : Rule) (n : String) :
    (globalRef p env s r n).isSome = true ↔ GlobalVisible env s n := by
  simp only [globalRef, GlobalVisible]
  cases findFunc s n with
  | some fd => simp
  | none =>
    cases h1 : (ownObj s n).isSome <;> cases h2 : (env.foreign n).isSome <;> simp

theorem globalRef_noError (p : String) (env : Env) (s : Schema) (r : Rule) (n : String) (ds : List Diag)
    (h : globalRef p env s r n = some ds) : hasError ds = false := by
  simp only [globalRef] at h
  split at h
  · simp only [Option.some.injEq] at h; subst h
    split
    · rfl
    · errsimp
  · split at h
    · simp only [Option.some.injEq] at h; subst h; rfl
    · simp at h

theorem nodup_length_le : ∀ (l U : List String), l.Nodup → (∀ x ∈ l, x ∈ U) → l.length ≤ U.length
  | [], _, _, _ => by simp
  | a :: t, U, hnd, hsub => by
    have ha : a ∈ U := hsub a (by simp)
    have hnd' := List.nodup_cons.mp hnd
    have ht : ∀ x ∈ t, x ∈ U.erase a := by
      intro x hx
      have hxa : x ≠ a := fun h => hnd'.1 (h ▸ hx)
      exact (List.mem_erase_of_ne hxa).mpr (hsub x (by simp [hx]))
    have := nodup_length_le t (U.erase a) hnd'.2 ht
    rw [List.length_erase_of_mem ha] at this
    have hpos : 0 < U.length := List.length_pos_of_mem ha
    simp only [List.length_cons]; omega

/-! ### the marked search `VARfind`: reachability through supertypes -/

theorem mem_addNew (acc : List String) : ∀ (xs : List String) (y : String), y ∈ addNew acc xs ↔ y ∈ acc ∨ y ∈ xs := by
  intro xs
  induction xs generalizing acc with
  | nil => intro y; simp [addNew]
  | cons x xs ih =>
    intro y
    simp only [addNew]
    split
    · next hx =>
      rw [ih]
      constructor
      · rintro (h | h); exact Or.inl h; exact Or.inr (List.mem_cons_of_mem _ h)
      · rintro (h | h)
        · exact Or.inl h
        · rcases List.mem_cons.mp h with rfl | h
          · exact Or.inl hx
          · exact Or.inr h
    · rw [ih]
      constructor
      · rintro (h | h)
        · rcases List.mem_append.mp h with h | h
          · exact Or.inl h
          · exact Or.inr (by rw [List.mem_singleton.mp h]; exact List.mem_cons_self ..)
        · exact Or.inr (List.mem_cons_of_mem _ h)
      · rintro (h | h)
        · exact Or.inl (List.mem_append_left _ h)
        · rcases List.mem_cons.mp h with rfl | h
          · exact Or.inl (List.mem_append_right _ (List.mem_singleton.mpr rfl))
          · exact Or.inr h

theorem nodup_addNew : ∀ (xs acc : List String), acc.Nodup → (addNew acc xs).Nodup
  | [], acc, h => by simpa [addNew] using h
  | x :: xs, acc, h => by
    simp only [addNew]
    split
    · exact nodup_addNew xs acc h
    · next hx =>
      apply nodup_addNew xs
      rw [List.nodup_append]
      refine ⟨h, by simp, ?_⟩
      intro a ha b hb
      simp only [List.mem_singleton] at hb
      subst hb; intro hab; subst hab; exact hx ha

theorem length_addNew_ge : ∀ (xs acc : List String), acc.length ≤ (addNew acc xs).length
  | [], acc => by simp [addNew]
  | x :: xs, acc => by
    simp only [addNew]
    split
    · exact length_addNew_ge xs acc
    · have := length_addNew_ge xs (acc ++ [x])
      simp only [List.length_append, List.length_singleton] at this
      omega

/-- nothing was added ⇒ everything offered was already there -/
theorem addNew_same_length : ∀ (xs acc : List String), (addNew acc xs).length = acc.length → ∀ y ∈ xs, y ∈ acc
  | [], _, _, y, hy => by simp at hy
  | x :: xs, acc, h, y, hy => by
    simp only [addNew] at h
    split at h
    · next hx =>
      rcases List.mem_cons.mp hy with rfl | hy
      · exact hx
      · exact addNew_same_length xs acc h y hy
    · have := length_addNew_ge xs (acc ++ [x])
      simp only [List.length_append, List.length_singleton] at this
      omega

/-- `acc` is closed under the edges of `g` -/
def ClosedUnder (g : String → List String) (acc : List String) : Prop := ∀ n ∈ acc, ∀ m ∈ g n, m ∈ acc

theorem closed_reach {g : String → List String} {acc : List String} (hc : ClosedUnder g acc) {a x : String}
    (ha : a ∈ acc) (hr : Reach g a x) : x ∈ acc := by
  induction hr with
  | step h => exact hc _ ha _ h
  | trans h _ ih => exact ih (hc _ ha _ h)

theorem upClosure_sound (g : String → List String) : ∀ (k : Nat) (acc : List String) (x : String),
    x ∈ upClosure g k acc → ∃ a ∈ acc, ReachRefl g a x
  | 0, acc, x, h => ⟨x, by simpa [upClosure] using h, Or.inl rfl⟩
  | k + 1, acc, x, h => by
    simp only [upClosure] at h
    split at h
    · exact ⟨x, h, Or.inl rfl⟩
    · obtain ⟨a, ha, hr⟩ := upClosure_sound g k _ x h
      rcases (mem_addNew acc _ a).mp ha with ha | ha
      · exact ⟨a, ha, hr⟩
      · obtain ⟨n, hn, han⟩ := List.mem_flatMap.mp ha
        refine ⟨n, hn, Or.inr ?_⟩
        rcases hr with rfl | hr
        · exact .step han
        · exact .trans han hr

theorem upClosure_mono (g : String → List String) : ∀ (k : Nat) (acc : List String) (x : String), x ∈ acc → x ∈ upClosure g k acc
  | 0, acc, x, h => by simpa [upClosure] using h
  | k + 1, acc, x, h => by
    simp only [upClosure]
    split
    · exact h
    · exact upClosure_mono g k _ x ((mem_addNew acc _ x).mpr (Or.inl h))

/-- with enough rounds the result is closed: every round that does not stop adds a new node, and all nodes come from the
    finite universe `U` -/
theorem upClosure_closed (g : String → List String) (U : List String) (hU : ∀ n m, m ∈ g n → m ∈ U) :
    ∀ (k : Nat) (acc : List String), acc.Nodup → (∀ x ∈ acc, x ∈ U) → U.length - acc.length < k →
      ClosedUnder g (upClosure g k acc)
  | 0, acc, _, _, h => by omega
  | k + 1, acc, hnd, hsub, h => by
    simp only [upClosure]
    split
    · next hlen =>
      intro n hn m hm
      exact addNew_same_length _ acc hlen m (List.mem_flatMap.mpr ⟨n, hn, hm⟩)
    · next hlen =>
      have hnd' := nodup_addNew (acc.flatMap g) acc hnd
      have hsub' : ∀ x ∈ addNew acc (acc.flatMap g), x ∈ U := by
        intro x hx
        rcases (mem_addNew acc _ x).mp hx with hx | hx
        · exact hsub x hx
        · obtain ⟨n, _, hm⟩ := List.mem_flatMap.mp hx; exact hU n x hm
      have hle := nodup_length_le _ U hnd' hsub'
      have hge := length_addNew_ge (acc.flatMap g) acc
      apply upClosure_closed g U hU k _ hnd' hsub'
      omega

theorem superGraph_entities (s : Schema) (n m : String) (h : m ∈ superGraph s n) : m ∈ s.entities.map (·.name) := by
  simp only [superGraph] at h
  cases hf : findEntity s n with
  | none => rw [hf] at h; simp at h
  | some e =>
    rw [hf] at h
    simp only [supersOf, List.mem_filter, isEntity] at h
    cases hm : findEntity s m with
    | none => rw [hm] at h; simp at h
    | some em =>
      have h1 := List.mem_of_find?_eq_some hm
      have h2 := List.find?_some hm
      simp only [decide_eq_true_eq] at h2
      exact List.mem_map.mpr ⟨em, h1, h2⟩

/-- **`VARfind` finds the attribute ⇔ the entity itself or an entity reachable from it through `SUBTYPE OF` declares it** — also
    when the supertype graph is cyclic; `fuel` more than the number of entities (the passes give declarations + 1) -/
theorem varFind_iff (s : Schema) (an : String) (fuel : Nat) (en : String) (hf : s.entities.length < fuel) :
    varFind s an fuel en = true ↔ ∃ x, ReachRefl (superGraph s) en x ∧ ownsAttr s an x = true := by
  simp only [varFind, List.any_eq_true]
  constructor
  · rintro ⟨x, hx, ho⟩
    obtain ⟨a, ha, hr⟩ := upClosure_sound _ _ _ x hx
    simp only [List.mem_singleton] at ha; subst ha
    exact ⟨x, hr, ho⟩
  · rintro ⟨x, hr, ho⟩
    refine ⟨x, ?_, ho⟩
    have hmono := upClosure_mono (superGraph s) fuel [en] en (by simp)
    rcases hr with rfl | hr
    · exact hmono
    · -- closedness over the universe `en :: entity names`
      have hc := upClosure_closed (superGraph s) (en :: s.entities.map (·.name))
        (fun n m hm => List.mem_cons_of_mem _ (superGraph_entities s n m hm)) fuel [en] (by simp) (by simp)
        (by simp only [List.length_cons, List.length_map, List.length_singleton, List.length_nil]; omega)
      exact closed_reach hc hmono hr

theorem namedAttr_foldl_true (s : Schema) (an : String) (fuel : Nat) : ∀ (l : List String) (acc : Option Bool),
    l.foldl (fun acc sup => match acc with
      | none => none
      | some true => some true
      | some false => namedAttr s an fuel sup) acc = some true →
    acc = some true ∨ ∃ sup ∈ l, namedAttr s an fuel sup = some true
  | [], acc, h => Or.inl (by simpa using h)
  | x :: xs, acc, h => by
    simp only [List.foldl_cons] at h
    rcases namedAttr_foldl_true s an fuel xs _ h with h1 | ⟨sup, hs, hv⟩
    · cases acc with
      | none => simp at h1
      | some b =>
        cases b with
        | true => exact Or.inl rfl
        | false => exact Or.inr ⟨x, List.mem_cons_self .., by simpa using h1⟩
    · exact Or.inr ⟨sup, List.mem_cons_of_mem _ hs, hv⟩

/-- **`ENTITYget_named_attribute` finds only what is there** (any fuel, any graph): when the look-up behind `SELF.a` / an
    unqualified UNIQUE reference succeeds, the entity itself or an entity reachable from it through `SUBTYPE OF` declares `a` -/
theorem namedAttr_sound (s : Schema) (an : String) : ∀ (fuel : Nat) (en : String), namedAttr s an fuel en = some true →
    ∃ x, ReachRefl (superGraph s) en x ∧ ownsAttr s an x = true
  | 0, _, h => by simp [namedAttr] at h
  | fuel + 1, en, h => by
    simp only [namedAttr] at h
    cases hf : findEntity s en with
    | none => rw [hf] at h; simp at h
    | some e =>
      rw [hf] at h
      simp only at h
      by_cases hown : e.attrs.any (fun a => a.name = an) = true
      · exact ⟨en, Or.inl rfl, by simp [ownsAttr, hf, hown]⟩
      · simp only [hown, Bool.false_eq_true, if_false] at h
        rcases namedAttr_foldl_true s an fuel _ _ h with h1 | ⟨sup, hs, hv⟩
        · cases h1
        · obtain ⟨x, hr, ho⟩ := namedAttr_sound s an fuel sup hv
          have hedge : sup ∈ superGraph s en := by simp [superGraph, hf, hs]
          refine ⟨x, Or.inr ?_, ho⟩
          rcases hr with rfl | hr
          · exact .step hedge
          · exact .trans hedge hr

/-- **overloaded attribute, independently of the look-up function**: with the fuel the pass uses, `NoOverload` says that no new
    attribute of `e` has a second declaration — in a direct supertype or in any entity reachable from one through `SUBTYPE OF` -/
theorem noOverload_iff_reach (s : Schema) (e : Entity) :
    NoOverload s (s.decls.length + 1) e ↔
      ∀ a ∈ e.attrs, a.redeclOf = none → ∀ sup ∈ supersOf s e,
        ¬ ∃ x, ReachRefl (superGraph s) sup x ∧ ownsAttr s a.name x = true := by
  have hf : s.entities.length < s.decls.length + 1 := by
    have : s.entities.length ≤ s.decls.length := List.length_filterMap_le _ _
    omega
  simp only [NoOverload, overloadFound]
  refine forall_congr' fun a => forall_congr' fun _ => forall_congr' fun _ => forall_congr' fun sup => forall_congr' fun _ => ?_
  rw [← varFind_iff s a.name _ sup hf]
  simp

/-- `attr` is declared by `e` or by an entity reachable from it through `SUBTYPE OF` (the marked search of `VARfind`) -/
def BareVisible (s : Schema) (fuel : Nat) (e : Entity) (an : String) : Prop := varFind s an fuel e.name = true

/-! ### `operand.field` (EXPresolve_op_dot) and calls with argument lists -/

/-- the operand knows the field: an entity connected to it declares it / the enumeration has the item / a member of the select
    knows it, or — select only — every member is an enumeration (then the tool only warns).
    EXCLUSION (a totalisation, not a judgement): an operand whose type is an imported name, an undefined name or a renaming chain
    longer than the fuel has kind `unknown`; the model produces no diagnostic for it and this predicate says `True` — such operands
    are outside the modelled behaviour of `EXPresolve_op_dot` (the generator does not produce them) -/
def OperandWF (s : Schema) (fuel : Nat) (field : String) (t : TypeRef) : Prop :=
  match operandKind s fuel t with
  | .simple => False
  | .aggregate => False
  | .entity n => linkFind s field fuel n = true
  | .enumeration _ items => items.any (·.1 = field) = true
  | .select items => selectHas s field fuel items = true ∨ ∀ i ∈ items, isEnumType s fuel i.1 = true
  | .unknown => True

theorem operand_noError_iff (p : String) (s : Schema) (fuel : Nat) (r : Rule) (field : String) (t : TypeRef) :
    hasError (operandDiags p s fuel r field t) = false ↔ OperandWF s fuel field t := by
  simp only [operandDiags, OperandWF]
  cases operandKind s fuel t with
  | simple => simp only [iff_false, Bool.not_eq_false]; errsimp
  | aggregate => simp only [iff_false, Bool.not_eq_false]; errsimp
  | entity n =>
    simp only
    cases linkFind s field fuel n with
    | true => simp [hasError_nil]
    | false => simp only [Bool.false_eq_true, if_false, iff_false, Bool.not_eq_false]; errsimp
  | enumeration tn items =>
    simp only
    cases items.any (fun x => x.1 = field) with
    | true => simp [hasError_nil]
    | false => simp only [Bool.false_eq_true, if_false, iff_false, Bool.not_eq_false]; errsimp
  | select items =>
    simp only
    cases selectHas s field fuel items with
    | true => simp [hasError_nil]
    | false =>
      simp only [Bool.false_eq_true, if_false, false_or]
      cases hall : items.all (fun i => isEnumType s fuel i.1) with
      | true =>
        simp only [if_true]
        have hth : ∀ i ∈ items, isEnumType s fuel i.1 = true := by simpa [List.all_eq_true] using hall
        refine ⟨fun _ => hth, fun _ => ?_⟩
        errsimp
      | false =>
        have : ¬ ∀ i ∈ items, isEnumType s fuel i.1 = true := by
          intro h
          have : items.all (fun i => isEnumType s fuel i.1) = true := by simpa [List.all_eq_true] using h
          rw [this] at hall; cases hall
        simp only [Bool.false_eq_true, if_false, this, iff_false, Bool.not_eq_false]
        errsimp
  | unknown => simp [hasError_nil]

/-- **an undefined attribute on a SELECT-typed operand is an ERROR ⇔ some member of the select is not an enumeration** — stated
    through membership, hence for every order of the member list -/
theorem select_undefined_attr_iff (p : String) (s : Schema) (fuel : Nat) (r : Rule) (field : String) (t : TypeRef)
    (items : List (String × Nat)) (hk : operandKind s fuel t = .select items) (hno : selectHas s field fuel items = false) :
    hasError (operandDiags p s fuel r field t) = true ↔ ∃ i ∈ items, isEnumType s fuel i.1 = false := by
  have h := operand_noError_iff p s fuel r field t
  simp only [OperandWF, hk, hno, Bool.false_eq_true, false_or] at h
  constructor
  · intro he
    apply Classical.byContradiction
    intro hne
    have hall : ∀ i ∈ items, isEnumType s fuel i.1 = true := by
      intro i hi
      cases hv : isEnumType s fuel i.1 with
      | true => rfl
      | false => exact absurd ⟨i, hi, hv⟩ hne
    rw [h.mpr hall] at he; cases he
  · rintro ⟨i, hi, hv⟩
    cases he : hasError (operandDiags p s fuel r field t) with
    | true => rfl
    | false => have := h.mp he i hi; rw [hv] at this; cases this

/-- a leaf of the select (through nested selects) that is not an enumeration -/
inductive NonEnumLeaf (s : Schema) (fuel : Nat) : List (String × Nat) → Prop
  | here {items : List (String × Nat)} {i : String × Nat} : i ∈ items → isEnumType s fuel i.1 = false →
      (∀ td, findType s i.1 = some td → ∀ its, td.body ≠ .select its) → NonEnumLeaf s fuel items
  | deeper {items its : List (String × Nat)} {i : String × Nat} {td : TypeDecl} : i ∈ items → findType s i.1 = some td →
      td.body = .select its → NonEnumLeaf s fuel its → NonEnumLeaf s fuel items

theorem isEnumType_select_false (s : Schema) (n : String) (td : TypeDecl) (its : List (String × Nat))
    (hf : findType s n = some td) (hb : td.body = .select its) : ∀ fuel, isEnumType s fuel n = false
  | 0 => rfl
  | k + 1 => by simp [isEnumType, hf, hb]

/-- a select with a non-enumeration leaf anywhere below has a member that is not an enumeration (the leaf itself, or the nested
    select that contains it) -/
theorem nonEnumLeaf_member {s : Schema} {fuel : Nat} {items : List (String × Nat)} (h : NonEnumLeaf s fuel items) :
    ∃ i ∈ items, isEnumType s fuel i.1 = false := by
  cases h with
  | here hi hv _ => exact ⟨_, hi, hv⟩
  | deeper hi hf hb _ => exact ⟨_, hi, isEnumType_select_false s _ _ _ hf hb fuel⟩

def DotWF (s : Schema) (fuel : Nat) (e : Entity) (attr field : String) (indexed : Bool) : Prop :=
  match attrTypeOf s fuel e.name attr with
  | none => False
  | some ty => OperandWF s fuel field (dotOperand ty indexed)

theorem dot_noError_iff (p : String) (s : Schema) (fuel : Nat) (e : Entity) (r : Rule) (a f : String) (ix : Bool) :
    hasError (dotDiags p s fuel e r a f ix) = false ↔ DotWF s fuel e a f ix := by
  simp only [dotDiags, DotWF]
  cases attrTypeOf s fuel e.name a with
  | none => simp only [iff_false, Bool.not_eq_false]; errsimp
  | some ty => exact operand_noError_iff p s fuel r f _

theorem argsRun_noError_iff (diagsOf : CallArg → List Diag) (sees : CallArg → Bool) : ∀ args : List CallArg,
    hasError (argsRun diagsOf sees args).1 = false ↔ ∀ a ∈ args, hasError (diagsOf a) = false
  | [] => by simp [argsRun, hasError_nil]
  | a :: as => by
    simp only [argsRun, List.forall_mem_cons]
    cases h : hasError (diagsOf a) with
    | true => simp [h]
    | false =>
      simp only [Bool.false_eq_true, if_false, hasError_append, h, Bool.false_or, true_and]
      exact argsRun_noError_iff diagsOf sees as

theorem argsRun_sees (diagsOf : CallArg → List Diag) (sees : CallArg → Bool) : ∀ args : List CallArg,
    (∀ a ∈ args, hasError (diagsOf a) = false) → (argsRun diagsOf sees args).2 = args.any sees
  | [], _ => by simp [argsRun]
  | a :: as, h => by
    have ha := h a (List.mem_cons_self ..)
    simp only [argsRun, ha, Bool.false_eq_true, if_false, List.any_cons]
    rw [argsRun_sees diagsOf sees as (fun x hx => h x (List.mem_cons_of_mem _ hx))]

/-- an actual parameter in entity scope resolves -/
def ArgWF (env : Env) (s : Schema) (fuel : Nat) (e : Entity) : CallArg → Prop
  | .lit => True
  | .bare n => BareVisible s fuel e n ∨ GlobalVisible env s n
  | .selfAttr a => AttrVisible s fuel e a

theorem argDiags_noError_iff (p : String) (env : Env) (s : Schema) (fuel : Nat) (e : Entity) (r : Rule) (a : CallArg) :
    hasError (argDiags p env s fuel e r a) = false ↔ ArgWF env s fuel e a := by
  cases a with
  | lit => simp [argDiags, ArgWF, hasError_nil]
  | bare n =>
    simp only [argDiags, ArgWF, BareVisible]
    cases varFind s n fuel e.name with
    | true => simp [hasError_nil]
    | false =>
      simp only [Bool.false_eq_true, if_false, false_or]
      rw [← globalRef_isSome_iff p env s r n]
      cases hg : globalRef p env s r n with
      | some ds => simp [globalRef_noError p env s r n ds hg]
      | none => simp only [Option.isSome_none, Bool.false_eq_true, iff_false, Bool.not_eq_false]; errsimp
  | selfAttr a =>
    simp only [argDiags, ArgWF, AttrVisible]
    cases h : namedAttr s a fuel e.name with
    | none => errsimp
    | some b => cases b <;> errsimp

theorem knownFunc_iff (s : Schema) (fn : String) : knownFunc s fn = true ↔ CallWF s fn := by
  simp [knownFunc, CallWF]

/-- a call with its arguments: the function exists, every argument resolves, and — in a domain rule — one of them refers to SELF
    or an attribute -/
def CallWithWF (env : Env) (s : Schema) (fuel : Nat) (e : Entity) (r : Rule) (fn : String) (args : List CallArg) : Prop :=
  CallWF s fn ∧ (∀ a ∈ args, ArgWF env s fuel e a) ∧ (r.isWhere = true → ∃ a ∈ args, argSeesSelf s fuel e a = true)

theorem callWith_noError_iff (p : String) (env : Env) (s : Schema) (fuel : Nat) (e : Entity) (r : Rule) (fn : String)
    (args : List CallArg) : hasError (callWithDiags p env s fuel e r fn args) = false ↔ CallWithWF env s fuel e r fn args := by
  simp only [callWithDiags, CallWithWF]
  cases hk : knownFunc s fn with
  | false =>
    have hnw : ¬ CallWF s fn := by rw [← knownFunc_iff, hk]; simp
    simp only [Bool.false_eq_true, if_false, callDiags_noError_iff, hnw, false_and]
  | true =>
    have hw : CallWF s fn := (knownFunc_iff s fn).mp hk
    simp only [if_true, hasError_append, Bool.or_eq_false_iff, callDiags_noError_iff, hw, true_and, argsRun_noError_iff,
      argDiags_noError_iff]
    constructor
    · rintro ⟨hargs, hself⟩
      refine ⟨hargs, ?_⟩
      intro hwh
      have hs := argsRun_sees (argDiags p env s fuel e r) (argSeesSelf s fuel e) args
        (fun a ha => (argDiags_noError_iff p env s fuel e r a).mpr (hargs a ha))
      cases hr2 : (argsRun (argDiags p env s fuel e r) (argSeesSelf s fuel e) args).2 with
      | true => rw [hs] at hr2; simpa [List.any_eq_true] using hr2
      | false =>
        rw [hr2] at hself
        simp only [Bool.false_eq_true, if_false, missingSelf_noError_iff] at hself
        rw [hself] at hwh; cases hwh
    · rintro ⟨hargs, hself⟩
      refine ⟨hargs, ?_⟩
      have hs := argsRun_sees (argDiags p env s fuel e r) (argSeesSelf s fuel e) args
        (fun a ha => (argDiags_noError_iff p env s fuel e r a).mpr (hargs a ha))
      cases hr2 : (argsRun (argDiags p env s fuel e r) (argSeesSelf s fuel e) args).2 with
      | true => simp [hasError_nil]
      | false =>
        simp only [Bool.false_eq_true, if_false, missingSelf_noError_iff]
        cases hwh : r.isWhere with
        | false => rfl
        | true =>
          obtain ⟨a, ha, hsa⟩ := hself hwh
          rw [hs] at hr2
          have : args.any (argSeesSelf s fuel e) = true := List.any_eq_true.mpr ⟨a, ha, hsa⟩
          rw [this] at hr2; cases hr2

/-- what one item of an expression of entity `e` must satisfy: a call names a function; `SELF.a` names a visible attribute; a
    bare identifier names a visible attribute or — outside domain rules, which must refer to SELF or an attribute — something
    the schema scope knows; no group reference on a non-entity; `SELF.a.f`: the operand knows the field; a call with arguments:
    every argument resolves -/
def RuleItemWF (env : Env) (s : Schema) (fuel : Nat) (e : Entity) (r : Rule) : RuleItem → Prop
  | .call fn _ => CallWF s fn
  | .selfAttr an => AttrVisible s fuel e an
  | .bareAttr an => BareVisible s fuel e an ∨ (r.isWhere = false ∧ GlobalVisible env s an)
  | .badGroup _ => False
  | .smallReal _ => True
  | .dot a f ix => DotWF s fuel e a f ix
  | .callWith fn args => CallWithWF env s fuel e r fn args

theorem ruleItem_noError_iff (path : String) (env : Env) (s : Schema) (fuel : Nat) (e : Entity) (r : Rule) (it : RuleItem) :
    hasError (ruleItemDiags path env s fuel e r it) = false ↔ RuleItemWF env s fuel e r it := by
  cases it with
  | call fn argc => exact callDiags_noError_iff path s r fn argc
  | selfAttr an =>
    simp only [ruleItemDiags, RuleItemWF, AttrVisible]
    cases h : namedAttr s an fuel e.name with
    | none => errsimp
    | some b => cases b <;> errsimp
  | bareAttr an =>
    have other : hasError (bareOutside path env s r an) = false ↔ (r.isWhere = false ∧ GlobalVisible env s an) := by
      rw [← globalRef_isSome_iff path env s r an]
      simp only [bareOutside]
      cases hg : globalRef path env s r an with
      | some ds =>
        simp only [hasError_append, Bool.or_eq_false_iff, globalRef_noError path env s r an ds hg, true_and,
          missingSelf_noError_iff, Option.isSome_some, and_true]
      | none =>
        simp only [Option.isSome_none, Bool.false_eq_true, and_false, iff_false, Bool.not_eq_false]
        errsimp
    simp only [ruleItemDiags, RuleItemWF, BareVisible]
    cases h : varFind s an fuel e.name with
    | true => simp [hasError_nil]
    | false => simpa using other
  | badGroup an => simp only [ruleItemDiags, RuleItemWF, iff_false]; errsimp
  | smallReal t => simp [ruleItemDiags, RuleItemWF, hasError]
  | dot a f ix => exact dot_noError_iff path s fuel e r a f ix
  | callWith fn args => exact callWith_noError_iff path env s fuel e r fn args

/-! ### bad INVERSE -/

/-- `INVERSE a : [SET OF] T FOR attr`: `T` is an entity of the schema and `attr` is an attribute of `T` or of a supertype of
    `T` (never of a subtype or sibling).
    TOTALISATION: when `T` names neither an entity nor a type of the schema (undefined or imported) the INVERSE check itself
    reports nothing and this predicate holds; inside `DeclWF34` / `EntityWF` it always stands next to `TypeRefWF env s a.ty`, which
    fails for an undefined `T`, and `attrDiags` runs the INVERSE check only when the type reference produced no diagnostic.  An
    INVERSE whose target is an IMPORTED entity is outside the model (no diagnostic modelled) -/
def InverseWF (s : Schema) (hasAttr : String → String → Bool) (a : Attr) : Prop :=
  match a.inverseFor with
  | none => True
  | some (attrName, _) =>
    match a.ty.core with
    | .named n _ =>
      (match findEntity s n with
       | some target => target.attrs.any (·.name = attrName) = true ∨ hasAttr target.name attrName = true
       | none => (findType s n).isSome = false)
    | _ => False

theorem inverse_noError_iff (path : String) (s : Schema) (a : Attr) (hasAttr : String → String → Bool) :
    hasError (inverseDiags path s a hasAttr) = false ↔ InverseWF s hasAttr a := by
  simp only [inverseDiags, InverseWF]
  cases a.inverseFor with
  | none => simp [hasError]
  | some x =>
    obtain ⟨attrName, l⟩ := x
    simp only
    cases hc : a.ty.core with
    | simple => simp only [iff_false]; errsimp
    | aggr b => simp only [iff_false]; errsimp
    | named n l2 =>
      simp only
      cases hf : findEntity s n with
      | some target =>
        simp only
        by_cases h : (target.attrs.any (·.name = attrName) || hasAttr target.name attrName) = true
        · simp only [h, if_true, hasError_nil, true_iff]
          simpa [Bool.or_eq_true] using h
        · simp only [h, if_false, Bool.false_eq_true]
          have h' : ¬ ((target.attrs.any (·.name = attrName)) = true ∨ hasAttr target.name attrName = true) := by
            simpa [Bool.or_eq_true] using h
          constructor
          · intro hx; exfalso; revert hx; errsimp
          · intro hx; exact absurd hx h'
      | none =>
        simp only
        by_cases ht : (findType s n).isSome = true
        · simp only [ht, if_true, Bool.true_eq_false, iff_false]; errsimp
        · have ht' : (findType s n).isSome = false := by simpa using ht
          simp [ht', hasError_nil]

/-! ### the cycle search never runs out of fuel; cycle ⇔ report -/

/-- what a call of the search on visited set `vis` guarantees when every node stays inside the universe `U` -/
def FuelOK (e : String) (g : String → List String) (U : List String) (ret : Bool)
    (f : List String → List String → Option Dfs) (fuel : Nat) : Prop :=
  ∀ (cs vis : List String), (∀ c ∈ cs, c ∈ U) → (∀ x ∈ vis, x ∈ U) → vis.Nodup → U.length < fuel + vis.length →
    ∃ r, f cs vis = some r ∧ (∀ x ∈ r.visited, x ∈ U) ∧ r.visited.Nodup ∧ vis.length ≤ r.visited.length

theorem dfsList_fuelOK (ret : Bool) (e : String) (g : String → List String) (U : List String)
    (hg : ∀ n ∈ U, ∀ c ∈ g n, c ∈ U) (rec : List String → List String → Option Dfs) (fuel : Nat)
    (hrec : FuelOK e g U ret rec fuel) : FuelOK e g U ret (dfsList ret e g rec) (fuel + 1) := by
  intro cs
  induction cs with
  | nil => intro vis _ hv hnd _; exact ⟨_, rfl, hv, hnd, Nat.le_refl _⟩
  | cons c cs ih =>
    intro vis hcs hv hnd hlen
    simp only [dfsList]
    split
    · exact ⟨_, rfl, hv, hnd, Nat.le_refl _⟩
    · split
      · split
        · exact ⟨_, rfl, hv, hnd, Nat.le_refl _⟩
        · exact ih vis (fun x hx => hcs x (by simp [hx])) hv hnd hlen
      next hcv =>
        have hcU : c ∈ U := hcs c (by simp)
        have hnd' : (c :: vis).Nodup := List.nodup_cons.mpr ⟨hcv, hnd⟩
        have hv' : ∀ x ∈ c :: vis, x ∈ U := by
          intro x hx; rcases List.mem_cons.mp hx with h | h
          · subst h; exact hcU
          · exact hv x h
        obtain ⟨r, hr, hrU, hrnd, hrlen⟩ := hrec (g c) (c :: vis) (hg c hcU) hv' hnd' (by simp only [List.length_cons]; omega)
        rw [hr]
        simp only
        split
        · refine ⟨_, rfl, hrU, hrnd, ?_⟩
          simp only [List.length_cons] at hrlen
          show vis.length ≤ r.visited.length
          omega
        · obtain ⟨r2, h2, h2U, h2nd, h2len⟩ := ih r.visited (fun x hx => hcs x (by simp [hx])) hrU hrnd
            (by simp only [List.length_cons] at hrlen; omega)
          exact ⟨r2, h2, h2U, h2nd, by simp only [List.length_cons] at hrlen; omega⟩

theorem dfs_fuelOK (ret : Bool) (e : String) (g : String → List String) (U : List String)
    (hg : ∀ n ∈ U, ∀ c ∈ g n, c ∈ U) : ∀ fuel, FuelOK e g U ret (dfs ret e g fuel) fuel
  | 0 => by
    intro cs vis _ hv hnd hlen
    have := nodup_length_le vis U hnd hv
    omega
  | n + 1 => by simpa [dfs] using dfsList_fuelOK ret e g U hg _ n (dfs_fuelOK ret e g U hg n)

/-- **the search never runs out of fuel**: with more fuel than there are nodes (all edges staying inside the node list `U`)
    it always finishes -/
theorem dfs_terminates (ret : Bool) (e : String) (g : String → List String) (U : List String)
    (hg : ∀ n ∈ U, ∀ c ∈ g n, c ∈ U) (he : ∀ c ∈ g e, c ∈ U) (fuel : Nat) (hf : U.length < fuel) :
    ∃ r, dfs ret e g fuel (g e) [] = some r := by
  obtain ⟨r, hr, _⟩ := dfs_fuelOK ret e g U hg fuel (g e) [] he (by simp) (by simp) (by simpa using hf)
  exact ⟨r, hr⟩

/-- **cycle ⇔ report** (the `continue` variant): with enough fuel the search from `e` reports exactly when `e` is on a cycle -/
theorem dfs_found_iff (e : String) (g : String → List String) (U : List String)
    (hg : ∀ n ∈ U, ∀ c ∈ g n, c ∈ U) (he : ∀ c ∈ g e, c ∈ U) (fuel : Nat) (hf : U.length < fuel) :
    (∃ r, dfs false e g fuel (g e) [] = some r ∧ r.found = true) ↔ Reach g e e := by
  obtain ⟨r, hr⟩ := dfs_terminates false e g U hg he fuel hf
  constructor
  · rintro ⟨r', hr', hf'⟩
    exact (dfs_sound false e g fuel (g e) [] r' hr' hf' e (fun _ hc => Reach.step hc)).1
  · intro hc
    refine ⟨r, hr, ?_⟩
    cases hfd : r.found with
    | true => rfl
    | false => exact absurd hc (dfs_complete e g fuel r hr hfd)

/-! ### the sub/super graph of a schema stays inside its entity names -/

theorem find?_name_mem {s : Schema} {n : String} (h : isEntity s n = true) : n ∈ s.entities.map (·.name) := by
  simp only [isEntity, findEntity, Option.isSome_iff_exists] at h
  obtain ⟨e, he⟩ := h
  have h1 := List.mem_of_find?_eq_some he
  have h2 := List.find?_some he
  simp only [decide_eq_true_eq] at h2
  exact List.mem_map.mpr ⟨e, h1, h2⟩

theorem subtypesOf_mem (s : Schema) (e : Entity) : ∀ c ∈ subtypesOf s e, c ∈ s.entities.map (·.name) := by
  intro c hc
  simp only [subtypesOf, List.mem_append, List.mem_filter, List.mem_map] at hc
  rcases hc with hc | hc
  · have := List.mem_eraseDups.mp hc
    simp only [List.mem_filter] at this
    exact find?_name_mem this.2
  · obtain ⟨⟨x, hx, rfl⟩, _⟩ := hc
    exact List.mem_map.mpr ⟨x, hx.1, rfl⟩

theorem subGraph_closed (s : Schema) : ∀ n, ∀ c ∈ subGraph s n, c ∈ s.entities.map (·.name) := by
  intro n c hc
  simp only [subGraph] at hc
  split at hc
  · exact subtypesOf_mem s _ c hc
  · simp at hc

theorem entities_length_le (s : Schema) : (s.entities.map (·.name)).length ≤ s.decls.length := by
  simp only [List.length_map, Schema.entities]
  exact List.length_filterMap_le _ _

/-- **subtype cycle ⇔ SUBSUPER_LOOP** for the fuel pass 4 uses (number of declarations + 1): the search from entity `n` of
    schema `s` finishes, and reports exactly when `n` is a subtype of itself along the schema's run-time subtype lists -/
theorem subsuper_found_iff (s : Schema) (n : String) :
    (∃ r, dfs false n (subGraph s) (s.decls.length + 1) (subGraph s n) [] = some r ∧ r.found = true) ↔
      Reach (subGraph s) n n :=
  dfs_found_iff n (subGraph s) (s.entities.map (·.name)) (fun m _ => subGraph_closed s m) (subGraph_closed s n) _
    (by have := entities_length_le s; omega)

/-! ### compositions: pass 3 and `ENTITYresolve_expressions` -/

theorem hasError_filterMap_false {α : Type} (l : List α) (g : α → Option Diag) :
    hasError (l.filterMap g) = false ↔ ∀ x ∈ l, ∀ d, g x = some d → isErrorCode d.code = false := by
  simp only [hasError_false_iff, List.mem_filterMap]
  constructor
  · intro h x hx d hd; exact h d ⟨x, hx, hd⟩
  · intro h d ⟨x, hx, hd⟩; exact h x hx d hd

/-- well-formedness of one declaration as far as pass 3 looks: super/subtype names denote entities; the underlying type of a
    type declaration denotes a type, is not the type itself (not even below aggregate constructors) and is not an entity; select
    items denote types -/
def DeclP3WF (env : Env) (s : Schema) : Decl → Prop
  | .entity e => (∀ x ∈ e.supers, isEnt env s x.1 = true) ∧ (∀ n ∈ e.subs, isEnt env s n = true)
  | .type t =>
    (match t.body with
     | .ref r => TypeRefWF env s r ∧ (∀ n l, r.core = .named n l → n ≠ t.name) ∧ (∀ n l, r = .named n l → isEnt env s n = false)
     | .select items => ∀ x ∈ items, DenotesType env s x.1
     | .enum _ => True)
  | _ => True

theorem superSub_noError_iff (p : String) (env : Env) (s : Schema) (e : Entity) :
    hasError (superSubDiags p env s e) = false ↔
      (∀ x ∈ e.supers, isEnt env s x.1 = true) ∧ (∀ n ∈ e.subs, isEnt env s n = true) := by
  simp only [superSubDiags, hasError_append, Bool.or_eq_false_iff, hasError_filterMap_false]
  constructor
  · rintro ⟨h1, h2⟩
    refine ⟨fun x hx => ?_, fun n hn => ?_⟩
    · by_cases hi : isEnt env s x.1 = true
      · exact hi
      · exfalso
        have := h1 x hx
        simp only [hi, Bool.false_eq_true, if_false] at this
        cases hfd : env.foreignDecl x.1 with
        | none =>
          have := this (mk p LibErrors.UNKNOWN_SUPERTYPE x.2 [sArg x.1, sArg e.name]) (by simp [hfd])
          revert this; errsimp
        | some q =>
          have := this (mk p LibErrors.SUPERTYPE_RESOLVE x.2 [sArg x.1, .int q.2]) (by simp [hfd])
          revert this; errsimp
    · by_cases hi : isEnt env s n = true
      · exact hi
      · exfalso
        have := h2 n hn
        simp only [hi, Bool.false_eq_true, if_false] at this
        cases hfd : env.foreignDecl n with
        | none =>
          have := this (mk p LibErrors.UNKNOWN_SUBTYPE e.line [sArg n, sArg e.name]) (by simp [hfd])
          revert this; errsimp
        | some q =>
          have := this (mk p LibErrors.SUBTYPE_RESOLVE e.line (subtypeResolveArgs n q.1 q.2)) (by simp [hfd])
          revert this; errsimp
  · rintro ⟨h1, h2⟩
    refine ⟨fun x hx d hd => ?_, fun n hn d hd => ?_⟩
    · simp [h1 x hx] at hd
    · simp [h2 n hn] at hd

/-- redeclarations `SELF\sup.attr`: `sup` is a proper ancestor of `e` that itself declares `attr` -/
def RedeclWF (s : Schema) (fuel : Nat) (e : Entity) : Prop :=
  ∀ a ∈ e.attrs, ∀ sup, a.redeclOf = some sup →
    (sup ≠ e.name ∧ isAncestor s sup fuel e.name = true) ∧
    (∀ se, findEntity s sup = some se → se.attrs.any (·.name = a.name) = true)

theorem redecl_noError_iff (path : String) (s : Schema) (fuel : Nat) (e : Entity) :
    hasError (redeclDiags path s fuel e) = false ↔ RedeclWF s fuel e := by
  simp only [redeclDiags, hasError_flatMap_false, RedeclWF]
  constructor
  · intro h a ha sup hr
    have := h a ha
    simp only [hr] at this
    by_cases hc : (sup = e.name || !isAncestor s sup fuel e.name) = true
    · exfalso; simp only [hc, if_true] at this; revert this; errsimp
    · simp only [hc, Bool.false_eq_true, if_false] at this
      have hc' : sup ≠ e.name ∧ isAncestor s sup fuel e.name = true := by
        simpa [Bool.or_eq_true, not_or] using hc
      refine ⟨hc', ?_⟩
      intro se hse
      simp only [hse] at this
      by_cases hh : se.attrs.any (·.name = a.name) = true
      · exact hh
      · exfalso; simp only [hh, Bool.false_eq_true, if_false] at this; revert this; errsimp
  · intro h a ha
    cases hr : a.redeclOf with
    | none => rfl
    | some sup =>
      obtain ⟨⟨h1, h2⟩, h3⟩ := h a ha sup hr
      have hc : (sup = e.name || !isAncestor s sup fuel e.name) = false := by simp [h1, h2]
      simp only [hc, Bool.false_eq_true, if_false]
      cases hse : findEntity s sup with
      | none => rfl
      | some se => simp [h3 se hse, hasError_nil]

/-- the rules of `e`: every call names a function, every attribute reference is visible, no group reference on a non-entity -/
def RulesWF (env : Env) (s : Schema) (fuel : Nat) (e : Entity) : Prop :=
  ∀ r ∈ e.rules, ∀ it ∈ r.items, RuleItemWF env s fuel e r it

/-- **`ENTITYresolve_expressions` reports no ERROR for `e` ⇔ no inherited attribute is declared again, every redeclaration names
    an ancestor that declares the attribute, and every domain rule is well formed** -/
theorem entityPass5_noError_iff (path : String) (env : Env) (s : Schema) (fuel : Nat) (e : Entity) :
    hasError (entityPass5 path env s fuel e) = false ↔ NoOverload s fuel e ∧ RedeclWF s fuel e ∧ RulesWF env s fuel e := by
  simp only [entityPass5, hasError_append, Bool.or_eq_false_iff, overload_noError_iff, redecl_noError_iff, and_assoc]
  refine and_congr Iff.rfl (and_congr Iff.rfl ?_)
  simp only [ruleDiags, hasError_flatMap_false, RulesWF]
  constructor
  · intro h r hr it hit; exact (ruleItem_noError_iff path env s fuel e r it).mp (h r hr it hit)
  · intro h r hr it hit; exact (ruleItem_noError_iff path env s fuel e r it).mpr (h r hr it hit)

/-! ### type declarations (pass 3) -/

/-- the underlying type of a type declaration denotes a type, is not the declared type itself (not even below aggregate
    constructors) and is not an entity; the items of a select denote types -/
def TypeDeclWF (env : Env) (s : Schema) (t : TypeDecl) : Prop :=
  match t.body with
  | .ref r => (∀ n l, r.core = .named n l → n ≠ t.name) ∧ TypeRefWF env s r ∧ (∀ n l, r = .named n l → isEnt env s n = false)
  | .select items => ∀ x ∈ items, DenotesType env s x.1
  | .enum _ => True

theorem typeDecl_noError_iff (p : String) (env : Env) (s : Schema) (t : TypeDecl) :
    hasError (typeDeclDiags p env s t) = false ↔ TypeDeclWF env s t := by
  simp only [typeDeclDiags, TypeDeclWF]
  cases hb : t.body with
  | enum items => simp [hasError_nil]
  | select items =>
    simp only [hasError_flatMap_false, typeRef_noError_iff, TypeRefWF]
  | ref r =>
    simp only [hasError_append, Bool.or_eq_false_iff, typeRef_noError_iff, and_assoc]
    refine and_congr ?_ (and_congr Iff.rfl ?_)
    · cases hc : r.core with
      | simple => simp [hasError_nil]
      | aggr b => simp [hasError_nil]
      | named n l =>
        simp only
        by_cases hn : n = t.name
        · simp only [hn, if_true]
          constructor
          · intro h; exfalso; revert h; errsimp
          · intro h; exact absurd rfl (h t.name l rfl)
        · simp only [hn, if_false, hasError_nil, true_iff]
          intro n' l' h; cases h; exact hn
    · cases r with
      | simple => simp [hasError_nil]
      | aggr b => simp [hasError_nil]
      | named n l =>
        simp only
        by_cases hi : isEnt env s n = true
        · simp only [hi, if_true]
          constructor
          · intro h; exfalso; revert h; errsimp
          · intro h; have := h n l rfl; simp [hi] at this
        · simp only [hi, Bool.false_eq_true, if_false, hasError_nil, true_iff]
          intro n' l' h; cases h; simpa using hi

/-! ### UNIQUE rules -/

/-- `label : attr` needs `attr` visible in `e`; `label : SELF\q.attr` needs `q` an ancestor that itself declares `attr`, and
    `attr` visible in `e` (the second, unqualified look-up) -/
def UniqueWF (s : Schema) (fuel : Nat) (e : Entity) (u : UniqueItem) : Prop :=
  match u.qual with
  | none => AttrVisible s fuel e u.attr
  | some q =>
    isAncestor s q fuel e.name = true ∧
      (match findEntity s q with
       | none => AttrVisible s fuel e u.attr
       | some qe => qe.attrs.any (·.name = u.attr) = true ∧ AttrVisible s fuel e u.attr)

theorem unqualified_noError_iff (p : String) (s : Schema) (fuel : Nat) (e : Entity) (u : UniqueItem) :
    hasError (match namedAttr s u.attr fuel e.name with
      | some true => []
      | _ => [mk p LibErrors.UNKNOWN_ATTR_IN_ENTITY u.line [sArg u.attr, sArg e.name]]) = false ↔ AttrVisible s fuel e u.attr := by
  simp only [AttrVisible]
  cases h : namedAttr s u.attr fuel e.name with
  | none => errsimp
  | some b => cases b <;> errsimp

theorem needless_noError (p : String) (e : Entity) (u : UniqueItem) :
    hasError (if e.attrs.any (·.name = u.attr) then [mk p LibErrors.UNIQUE_QUAL_REDECL u.line [sArg u.attr, sArg e.name]] else []) = false := by
  split <;> errsimp

theorem unique_noError_iff (p : String) (s : Schema) (fuel : Nat) (e : Entity) (u : UniqueItem) :
    hasError (uniqueDiags p s e fuel u) = false ↔ UniqueWF s fuel e u := by
  simp only [uniqueDiags, UniqueWF]
  cases hq : u.qual with
  | none => exact unqualified_noError_iff p s fuel e u
  | some q =>
    simp only
    by_cases ha : isAncestor s q fuel e.name = true
    · simp only [ha, Bool.not_true, Bool.false_eq_true, if_false, true_and]
      cases hf : findEntity s q with
      | none => exact unqualified_noError_iff p s fuel e u
      | some qe =>
        simp only
        by_cases hh : qe.attrs.any (·.name = u.attr) = true
        · simp only [hh, if_true, hasError_append, needless_noError, Bool.false_or, true_and]
          exact unqualified_noError_iff p s fuel e u
        · simp only [hh, Bool.false_eq_true, if_false, false_and, iff_false]
          errsimp
    · simp only [ha, Bool.not_false, if_true, false_and, iff_false]
      errsimp

/-! ### attributes: types and INVERSE -/

theorem attr_noError_iff (p : String) (env : Env) (s : Schema) (fuel : Nat) (e : Entity) :
    hasError (attrDiags p env s fuel e) = false ↔
      ∀ a ∈ e.attrs, TypeRefWF env s a.ty ∧ InverseWF s (fun en an => namedAttr s an fuel en = some true) a := by
  simp only [attrDiags, hasError_flatMap_false]
  refine forall_congr' fun a => forall_congr' fun _ => ?_
  simp only [hasError_append, Bool.or_eq_false_iff, typeRef_noError_iff]
  refine and_congr_right fun hwf => ?_
  have : typeRefDiags p env s a.ty = [] := (typeRefDiags_nil_iff p env s a.ty).mpr hwf
  simp only [this, List.isEmpty_nil, if_true]
  exact inverse_noError_iff p s a _

/-! ### cycles, as pass 4 runs them -/

theorem cycleDiags_noError_iff (p : String) (lc cc : Nat) (lineOf : String → Nat) (start : String) (r : Dfs)
    (hl : isErrorCode lc = true) : hasError (cycleDiags p lc cc lineOf start (some r)) = false ↔ r.found = false := by
  simp only [cycleDiags]
  cases hf : r.found with
  | false => simp [hasError_nil]
  | true => simp [hasError_cons, mk_code, hl]

theorem types_length_le (s : Schema) : (s.types.map (·.name)).length ≤ s.decls.length := by
  simp only [List.length_map, Schema.types]
  exact List.length_filterMap_le _ _

theorem selectGraph_closed (s : Schema) : ∀ n, ∀ c ∈ selectGraph s n, c ∈ s.types.map (·.name) := by
  intro n c hc
  simp only [selectGraph] at hc
  split at hc
  · simp only [List.mem_filter, List.mem_map] at hc
    obtain ⟨_, hc⟩ := hc
    split at hc
    next td hft =>
      have h1 := List.mem_of_find?_eq_some hft
      have h2 := List.find?_some hft
      simp only [decide_eq_true_eq] at h2
      exact List.mem_map.mpr ⟨_, h1, h2⟩
    · simp at hc
  · simp at hc

/-- **select cycle ⇔ SELECT_LOOP** for a select type `t` -/
theorem selectCycle_noError_iff (p : String) (s : Schema) (t : TypeDecl) (items : List (String × Nat)) (hb : t.body = .select items) :
    hasError (selectCycleDiags p s t) = false ↔ ¬ Reach (selectGraph s) t.name t.name := by
  have hv : ResolveGen.visitedReturnsSelect = false := by decide
  simp only [selectCycleDiags, hb, hv]
  have hU : (s.types.map (·.name)).length < s.decls.length + 1 := by have := types_length_le s; omega
  obtain ⟨r, hr⟩ := dfs_terminates false t.name (selectGraph s) _ (fun m _ => selectGraph_closed s m) (selectGraph_closed s t.name) _ hU
  rw [hr, cycleDiags_noError_iff _ _ _ _ _ _ err_SELECT_LOOP]
  have key := dfs_found_iff t.name (selectGraph s) _ (fun m _ => selectGraph_closed s m) (selectGraph_closed s t.name) _ hU
  constructor
  · intro hf hc
    obtain ⟨r', hr', hf'⟩ := key.mpr hc
    rw [hr] at hr'; cases hr'; rw [hf] at hf'; cases hf'
  · intro hn
    cases hf : r.found with
    | false => rfl
    | true => exact absurd (key.mp ⟨r, hr, hf⟩) hn

/-- **subtype cycle ⇔ SUBSUPER_LOOP** as pass 4 runs it (below the recursion-depth guard) -/
theorem subsuperCycle_noError_iff (p : String) (s : Schema) (e : Entity)
    (hlim : ∀ k, ResolveGen.subsuperDepthLimit = some k → s.decls.length < k) :
    hasError (subsuperCycleDiags p s e) = false ↔ ¬ Reach (subGraph s) e.name e.name := by
  have hv : ResolveGen.visitedReturnsSubsuper = false := by decide
  have hfuel : subsuperFuel s = s.decls.length + 1 := by
    unfold subsuperFuel
    cases hk : ResolveGen.subsuperDepthLimit with
    | none => rfl
    | some k => have := hlim k hk; simp only; omega
  simp only [subsuperCycleDiags, hv, hfuel]
  have hU : (s.entities.map (·.name)).length < s.decls.length + 1 := by have := entities_length_le s; omega
  obtain ⟨r, hr⟩ := dfs_terminates false e.name (subGraph s) _ (fun m _ => subGraph_closed s m) (subGraph_closed s e.name) _ hU
  rw [hr]
  simp only
  rw [cycleDiags_noError_iff _ _ _ _ _ _ err_SUBSUPER_LOOP]
  have key := subsuper_found_iff s e.name
  constructor
  · intro hf hc
    obtain ⟨r', hr', hf'⟩ := key.mpr hc
    rw [hr] at hr'; cases hr'; rw [hf] at hf'; cases hf'
  · intro hn
    cases hf : r.found with
    | false => rfl
    | true => exact absurd (key.mp ⟨r, hr, hf⟩) hn

/-! ### one entity, one schema -/

/-- well-formedness of entity `e` as far as passes 3–5 look -/
def EntityWF (env : Env) (s : Schema) (e : Entity) : Prop :=
  let fuel := s.decls.length + 1
  ((∀ x ∈ e.supers, isEnt env s x.1 = true) ∧ (∀ n ∈ e.subs, isEnt env s n = true)) ∧
  (SubtypesListSuper s e ∧
   (∀ a ∈ e.attrs, TypeRefWF env s a.ty ∧ InverseWF s (fun en an => namedAttr s an fuel en = some true) a) ∧
   (∀ u ∈ e.uniques, UniqueWF s fuel e u) ∧
   ¬ Reach (subGraph s) e.name e.name) ∧
  (NoOverload s fuel e ∧ RedeclWF s fuel e ∧ RulesWF env s fuel e)

theorem entityPass4_noError_iff (p : String) (env : Env) (s : Schema) (e : Entity)
    (hlim : ∀ k, ResolveGen.subsuperDepthLimit = some k → s.decls.length < k) :
    hasError (entityPass4 p env s e) = false ↔
      SubtypesListSuper s e ∧
      (∀ a ∈ e.attrs, TypeRefWF env s a.ty ∧ InverseWF s (fun en an => namedAttr s an (s.decls.length + 1) en = some true) a) ∧
      (∀ u ∈ e.uniques, UniqueWF s (s.decls.length + 1) e u) ∧ ¬ Reach (subGraph s) e.name e.name := by
  simp only [entityPass4, hasError_append, Bool.or_eq_false_iff, and_assoc, missingSuper_noError_iff, attr_noError_iff,
    subsuperCycle_noError_iff p s e hlim, hasError_flatMap_false, unique_noError_iff]

/-- **the three resolve passes report no ERROR for entity `e` ⇔ `e` is well formed** (below the recursion-depth guard) -/
theorem entity_noError_iff (p : String) (env : Env) (s : Schema) (e : Entity)
    (hlim : ∀ k, ResolveGen.subsuperDepthLimit = some k → s.decls.length < k) :
    (hasError (superSubDiags p env s e) = false ∧ hasError (entityPass4 p env s e) = false ∧
      hasError (entityPass5 p env s (s.decls.length + 1) e) = false) ↔ EntityWF env s e := by
  simp only [EntityWF, superSub_noError_iff, entityPass4_noError_iff p env s e hlim, entityPass5_noError_iff]

/-- the WHERE rules of the type declarations: every call names a function -/
def TypeRulesWF (s : Schema) : Prop :=
  ∀ t ∈ s.types, ∀ r ∈ t.rules, ∀ it ∈ r.items, match it with | .call fn _ => CallWF s fn | _ => True

theorem typeRules_noError_iff (p : String) (s : Schema) : hasError (typeRuleDiags p s) = false ↔ TypeRulesWF s := by
  simp only [typeRuleDiags, hasError_flatMap_false, TypeRulesWF]
  refine forall_congr' fun t => forall_congr' fun _ => forall_congr' fun r => forall_congr' fun _ =>
    forall_congr' fun it => forall_congr' fun _ => ?_
  cases it with
  | call fn argc => exact callDiags_noError_iff p s r fn argc
  | selfAttr _ => simp [hasError_nil]
  | bareAttr _ => simp [hasError_nil]
  | badGroup _ => simp [hasError_nil]
  | smallReal _ => simp [hasError_nil]
  | dot _ _ _ => simp [hasError_nil]
  | callWith _ _ => simp [hasError_nil]

/-- an actual parameter inside an algorithm resolves -/
def AlgArgWF (env : Env) (s : Schema) (f : Func) : CallArg → Prop
  | .bare n => n ∈ f.locals ∨ GlobalVisible env s n
  | _ => True

theorem algArg_noError_iff (p : String) (env : Env) (s : Schema) (f : Func) (r : Rule) (a : CallArg) :
    hasError (algArgDiags p env s f r a) = false ↔ AlgArgWF env s f a := by
  cases a with
  | lit => simp [algArgDiags, AlgArgWF, hasError_nil]
  | selfAttr _ => simp [algArgDiags, AlgArgWF, hasError_nil]
  | bare n =>
    simp only [algArgDiags, AlgArgWF]
    by_cases hl : n ∈ f.locals
    · simp [hl, hasError_nil]
    · simp only [hl, if_false, false_or]
      rw [← globalRef_isSome_iff p env s r n]
      cases hg : globalRef p env s r n with
      | some ds => simp [globalRef_noError p env s r n ds hg]
      | none => simp only [Option.isSome_none, Bool.false_eq_true, iff_false, Bool.not_eq_false]; errsimp

/-- one item of an expression of FUNCTION / RULE / CONSTANT `f`: a call names a function (and its arguments resolve), a bare
    identifier is a parameter / local of `f` or something the schema scope knows -/
def AlgItemWF (env : Env) (s : Schema) (f : Func) : RuleItem → Prop
  | .call fn _ => CallWF s fn
  | .bareAttr n => n ∈ f.locals ∨ GlobalVisible env s n
  | .callWith fn args => CallWF s fn ∧ ∀ a ∈ args, AlgArgWF env s f a
  | _ => True

theorem algItem_noError_iff (p : String) (env : Env) (s : Schema) (f : Func) (r : Rule) (it : RuleItem) :
    hasError (algItemDiags p env s f r it) = false ↔ AlgItemWF env s f it := by
  cases it with
  | call fn argc => exact callDiags_noError_iff p s _ fn argc
  | bareAttr n =>
    simp only [algItemDiags, AlgItemWF]
    by_cases hl : n ∈ f.locals
    · simp [hl, hasError_nil]
    · simp only [hl, if_false, false_or]
      rw [← globalRef_isSome_iff p env s r n]
      cases hg : globalRef p env s r n with
      | some ds => simp [globalRef_noError p env s r n ds hg]
      | none => simp only [Option.isSome_none, Bool.false_eq_true, iff_false, Bool.not_eq_false]; errsimp
  | callWith fn args =>
    simp only [algItemDiags, AlgItemWF]
    cases hk : knownFunc s fn with
    | false =>
      have hnw : ¬ CallWF s fn := by rw [← knownFunc_iff, hk]; simp
      simp only [Bool.false_eq_true, if_false, callDiags_noError_iff, hnw, false_and]
    | true =>
      have hw : CallWF s fn := (knownFunc_iff s fn).mp hk
      simp only [if_true, hasError_append, Bool.or_eq_false_iff, callDiags_noError_iff, hw, true_and, argsRun_noError_iff,
        algArg_noError_iff]
  | selfAttr _ => simp [algItemDiags, AlgItemWF, hasError_nil]
  | badGroup _ => simp [algItemDiags, AlgItemWF, hasError_nil]
  | smallReal _ => simp [algItemDiags, AlgItemWF, hasError_nil]
  | dot _ _ _ => simp [algItemDiags, AlgItemWF, hasError_nil]

/-- the expressions of FUNCTION / RULE / CONSTANT `f` -/
def AlgWF (env : Env) (s : Schema) (f : Func) : Prop :=
  ∀ r ∈ f.body, ∀ it ∈ r.items, AlgItemWF env s f it

theorem alg_noError_iff (p : String) (env : Env) (s : Schema) :
    hasError (algDiags p env s) = false ↔ ∀ f, Decl.func f ∈ s.decls → AlgWF env s f := by
  simp only [algDiags, hasError_flatMap_false]
  constructor
  · intro h f hf r hr it hit
    have := h (.func f) hf
    simp only [hasError_flatMap_false] at this
    exact (algItem_noError_iff p env s f r it).mp (this r hr it hit)
  · intro h d hd
    cases d with
    | func f =>
      simp only [hasError_flatMap_false]
      intro r hr it hit
      exact (algItem_noError_iff p env s f r it).mpr (h f hd r hr it hit)
    | entity e => rfl
    | type t => rfl
    | syntaxError a b c => rfl

/-- well-formedness of one declaration as far as passes 3 and 4 look -/
def DeclWF34 (env : Env) (s : Schema) : Decl → Prop
  | .entity e =>
    e.foreign = true ∨
    ((∀ x ∈ e.supers, isEnt env s x.1 = true) ∧ (∀ n ∈ e.subs, isEnt env s n = true)) ∧
    SubtypesListSuper s e ∧
    (∀ a ∈ e.attrs, TypeRefWF env s a.ty ∧ InverseWF s (fun en an => namedAttr s an (s.decls.length + 1) en = some true) a) ∧
    (∀ u ∈ e.uniques, UniqueWF s (s.decls.length + 1) e u) ∧ ¬ Reach (subGraph s) e.name e.name
  | .type t => TypeDeclWF env s t ∧ (∀ items, t.body = .select items → ¬ Reach (selectGraph s) t.name t.name)
  | _ => True

/-- **declarative well-formedness of a schema** (resolve phase): every entity names entities as super/subtypes, lists its
    supertypes, has resolvable attribute types, well-formed INVERSE and UNIQUE clauses and is on no sub/super cycle; every type
    declaration is well formed and on no select cycle; the WHERE rules of types call functions; no entity re-declares an inherited
    attribute, redeclarations name a declaring ancestor, domain rules refer to functions and visible attributes -/
def SchemaWF (env : Env) (s : Schema) : Prop :=
  (∀ d ∈ s.decls, DeclWF34 env s d) ∧ TypeRulesWF s ∧
  (∀ e ∈ s.entities, e.foreign = false → NoOverload s (s.decls.length + 1) e ∧ RedeclWF s (s.decls.length + 1) e ∧
    RulesWF env s (s.decls.length + 1) e) ∧
  (∀ f, Decl.func f ∈ s.decls → AlgWF env s f)

theorem selectCycle_nonselect (p : String) (s : Schema) (t : TypeDecl) (h : ∀ items, t.body ≠ .select items) :
    selectCycleDiags p s t = [] := by
  cases hb : t.body with
  | select items => exact absurd hb (h items)
  | ref r => simp [selectCycleDiags, hb]
  | enum it => simp [selectCycleDiags, hb]

/-- **the resolve passes report no ERROR for schema `s` ⇔ `s` is well formed** — all three passes over the schema's own
    declarations, for every environment of imported names, below the recursion-depth guard -/
theorem schema_noError_iff (p : String) (env : Env) (s : Schema)
    (hlim : ∀ k, ResolveGen.subsuperDepthLimit = some k → s.decls.length < k) :
    hasError (pass3 p env s ++ pass4 p env s ++ (pass5 p env s).diags) = false ↔ SchemaWF env s := by
  simp only [hasError_append, Bool.or_eq_false_iff, SchemaWF, pass5, typeRules_noError_iff, alg_noError_iff, and_assoc]
  have h34 : (hasError (pass3 p env s) = false ∧ hasError (pass4 p env s) = false) ↔ ∀ d ∈ s.decls, DeclWF34 env s d := by
    simp only [pass3, pass4, hasError_flatMap_false]
    constructor
    · rintro ⟨h3, h4⟩ d hd
      have a3 := h3 d hd
      have a4 := h4 d hd
      cases d with
      | entity e =>
        simp only at a3 a4
        cases hfo : e.foreign with
        | true => exact Or.inl hfo
        | false =>
          simp only [hfo, Bool.false_eq_true, if_false] at a3 a4
          exact Or.inr ⟨(superSub_noError_iff p env s e).mp a3, (entityPass4_noError_iff p env s e hlim).mp a4⟩
      | type t =>
        simp only at a3 a4
        refine ⟨(typeDecl_noError_iff p env s t).mp a3, ?_⟩
        intro items hb
        exact (selectCycle_noError_iff p s t items hb).mp a4
      | func f => trivial
      | syntaxError a b c => trivial
    · intro h
      refine ⟨fun d hd => ?_, fun d hd => ?_⟩
      · have := h d hd
        cases d with
        | entity e =>
          simp only
          cases hfo : e.foreign with
          | true => rfl
          | false =>
            simp only [Bool.false_eq_true, if_false]
            rcases this with hf | hw
            · rw [hfo] at hf; cases hf
            · exact (superSub_noError_iff p env s e).mpr hw.1
        | type t => exact (typeDecl_noError_iff p env s t).mpr this.1
        | func f => rfl
        | syntaxError a b c => rfl
      · have := h d hd
        cases d with
        | entity e =>
          simp only
          cases hfo : e.foreign with
          | true => rfl
          | false =>
            simp only [Bool.false_eq_true, if_false]
            rcases this with hf | hw
            · rw [hfo] at hf; cases hf
            · exact (entityPass4_noError_iff p env s e hlim).mpr hw.2
        | type t =>
          simp only
          cases hb : t.body with
          | select items => exact (selectCycle_noError_iff p s t items hb).mpr (this.2 items hb)
          | ref r => rw [selectCycle_nonselect p s t (by intro items; rw [hb]; simp)]; rfl
          | enum it => rw [selectCycle_nonselect p s t (by intro items; rw [hb]; simp)]; rfl
        | func f => rfl
        | syntaxError a b c => rfl
  constructor
  · rintro ⟨h3, h4, ht, h5, ha⟩
    refine ⟨h34.mp ⟨h3, h4⟩, ht, ?_, ha⟩
    intro e he hfo
    exact (entityPass5_noError_iff p env s _ e).mp ((hasError_flatMap_false _ _).mp h5 e
      (List.mem_filter.mpr ⟨he, by simp [hfo]⟩))
  · rintro ⟨hd, ht, h5, ha⟩
    obtain ⟨h3, h4⟩ := h34.mpr hd
    refine ⟨h3, h4, ht, ?_, ha⟩
    exact (hasError_flatMap_false _ _).mpr (fun e he =>
      (entityPass5_noError_iff p env s _ e).mpr (h5 e (List.mem_filter.mp he).1 (by simpa using (List.mem_filter.mp he).2)))

/-! ### the parse phase -/

/-- what the parser itself checks inside one declaration: attribute names of an entity, items of an enumeration are distinct -/
def DeclParseWF : Decl → Prop
  | .entity e => (e.attrs.map (·.name)).Nodup
  | .type t => (match t.body with | .enum items => (items.map (·.1)).Nodup | _ => True)
  | _ => True

theorem declParse_noError_iff (p : String) (d : Decl) : hasError (declParseDiags p d) = false ↔ DeclParseWF d := by
  cases d with
  | entity e =>
    simp only [declParseDiags, DeclParseWF, hasError_append, Bool.or_eq_false_iff]
    refine Iff.trans (and_iff_left ?_) ?_
    · rw [hasError_flatMap_false]; intro r _
      rw [hasError_filterMap_false]; intro it _ d hd
      cases it <;> simp at hd
      subst hd; errsimp
    rw [dupDiags_noError_iff]
    simp [List.map_map, Function.comp_def]
  | type t =>
    simp only [declParseDiags, DeclParseWF]
    cases t.body with
    | enum items => exact dupDiags_noError_iff p items
    | ref r => simp [hasError_nil]
    | select it => simp [hasError_nil]
  | func f => simp [declParseDiags, DeclParseWF, hasError_nil]
  | syntaxError a b c => simp [declParseDiags, DeclParseWF, hasError_nil]

def isSyntaxMarker : Decl → Bool
  | .syntaxError .. => true
  | _ => false

/-- the names the declarations enter into the schema's dictionary -/
def declNames (ds : List Decl) : List String := (ds.filterMap declKey).map (·.1)

/-- **the parse phase reports no ERROR ⇔** there is no syntax error, the declared names are pairwise distinct (and not yet in
    the dictionary), and every declaration is well formed inside -/
theorem parseDecls_noError_iff (p : String) : ∀ (ds : List Decl) (seen : List (String × Nat)),
    hasError (parseDeclsFrom p ds seen).1 = false ↔
      (∀ d ∈ ds, isSyntaxMarker d = false) ∧ (declNames ds).Nodup ∧ (∀ n ∈ declNames ds, n ∉ seen.map (·.1)) ∧
      ∀ d ∈ ds, DeclParseWF d
  | [], seen => by simp [parseDeclsFrom, hasError_nil, declNames]
  | d :: ds, seen => by
    cases hk : declKey d with
    | none =>
      cases d with
      | syntaxError a b c =>
        simp only [parseDeclsFrom]
        constructor
        · intro h; exfalso; revert h; errsimp
        · rintro ⟨h, _⟩; have := h (.syntaxError a b c) (List.mem_cons_self ..); simp [isSyntaxMarker] at this
      | entity e => simp [declKey] at hk
      | type t => simp [declKey] at hk
      | func f => simp [declKey] at hk
    | some kl =>
      obtain ⟨n, l⟩ := kl
      have hns : isSyntaxMarker d = false := by cases d <;> simp_all [declKey, isSyntaxMarker]
      have hpd : parseDeclsFrom p (d :: ds) seen =
          (match seen.find? (·.1 = n) with
           | some (_, l0) =>
             let r := parseDeclsFrom p ds seen
             (mk p LibErrors.DUPLICATE_DECL l [sArg n, .int l0] :: declParseDiags p d ++ r.1, r.2)
           | none =>
             let r := parseDeclsFrom p ds (seen ++ [(n, l)])
             (declParseDiags p d ++ r.1, r.2)) := by
        cases d with
        | syntaxError a b c => simp [declKey] at hk
        | entity e => simp only [declKey, Option.some.injEq, Prod.mk.injEq] at hk; obtain ⟨rfl, rfl⟩ := hk; rfl
        | type e => simp only [declKey, Option.some.injEq, Prod.mk.injEq] at hk; obtain ⟨rfl, rfl⟩ := hk; rfl
        | func e => simp only [declKey, Option.some.injEq, Prod.mk.injEq] at hk; obtain ⟨rfl, rfl⟩ := hk; rfl
      rw [hpd]
      have hnames : declNames (d :: ds) = n :: declNames ds := by simp [declNames, List.filterMap_cons, hk]
      cases hf : seen.find? (fun x => x.1 = n) with
      | some x =>
        obtain ⟨n0, l0⟩ := x
        have hm := List.mem_of_find?_eq_some hf
        have hx := List.find?_some hf
        simp only [decide_eq_true_eq] at hx
        simp only
        constructor
        · intro h; exfalso; revert h; errsimp
        · rintro ⟨_, _, h3, _⟩
          exfalso
          exact h3 n (by rw [hnames]; simp) (List.mem_map.mpr ⟨(n0, l0), hm, hx⟩)
      | none =>
        have hn : n ∉ seen.map (·.1) := by
          intro hm
          obtain ⟨y, hy, hyn⟩ := List.mem_map.mp hm
          have := List.find?_eq_none.mp hf y hy
          simp [hyn] at this
        simp only [hasError_append, Bool.or_eq_false_iff, declParse_noError_iff, parseDecls_noError_iff p ds (seen ++ [(n, l)]),
          hnames, List.nodup_cons, List.forall_mem_cons, hns, true_and, List.map_append, List.map_cons,
          List.map_nil, List.mem_append, List.mem_singleton]
        constructor
        · rintro ⟨hd, hs, hnd, hseen, hall⟩
          refine ⟨hs, ⟨?_, hnd⟩, ⟨hn, ?_⟩, hd, hall⟩
          · intro hmem; exact hseen n hmem (Or.inr rfl)
          · intro m hm hc; exact hseen m hm (Or.inl hc)
        · rintro ⟨hs, ⟨hnn, hnd⟩, ⟨_, hseen⟩, hd, hall⟩
          refine ⟨hd, hs, hnd, ?_, hall⟩
          intro m hm hc
          rcases hc with hc | hc
          · exact hseen m hm hc
          · subst hc; exact hnn hm

/-- a cut parse always carries the syntax ERROR that cut it -/
theorem parseDecls_cut_error (p : String) : ∀ (ds : List Decl) (seen : List (String × Nat)),
    (parseDeclsFrom p ds seen).2 = true → hasError (parseDeclsFrom p ds seen).1 = true
  | [], _ => by simp [parseDeclsFrom]
  | .syntaxError a b c :: ds, seen => by intro _; simp only [parseDeclsFrom]; errsimp
  | .entity e :: ds, seen => by
    simp only [parseDeclsFrom, declKey]
    cases seen.find? (fun x => x.1 = e.name) with
    | some x => intro _; errsimp
    | none => intro h; simp only [hasError_append, parseDecls_cut_error p ds _ h, Bool.or_true]
  | .type e :: ds, seen => by
    simp only [parseDeclsFrom, declKey]
    cases seen.find? (fun x => x.1 = e.name) with
    | some x => intro _; errsimp
    | none => intro h; simp only [hasError_append, parseDecls_cut_error p ds _ h, Bool.or_true]
  | .func e :: ds, seen => by
    simp only [parseDeclsFrom, declKey]
    cases seen.find? (fun x => x.1 = e.name) with
    | some x => intro _; errsimp
    | none => intro h; simp only [hasError_append, parseDecls_cut_error p ds _ h, Bool.or_true]

/-- what the parser checks in one schema body -/
def ParseWF (s : Schema) : Prop :=
  (∀ d ∈ s.decls, isSyntaxMarker d = false) ∧ (declNames s.decls).Nodup ∧ ∀ d ∈ s.decls, DeclParseWF d

theorem parseSchema_noError_iff (p : String) (s : Schema) : hasError (parseDeclsFrom p s.decls []).1 = false ↔ ParseWF s := by
  rw [parseDecls_noError_iff]; simp [ParseWF]

theorem parseSchemas_noError_iff (p : String) : ∀ ss : List Schema,
    hasError (parseSchemas p ss) = false ↔ ∀ s ∈ ss, ParseWF s
  | [] => by simp [parseSchemas, hasError_nil]
  | s :: ss => by
    simp only [parseSchemas, List.forall_mem_cons, ← parseSchema_noError_iff p s]
    cases hc : (parseDeclsFrom p s.decls []).2 with
    | true =>
      have := parseDecls_cut_error p s.decls [] hc
      simp [this]
    | false =>
      simp only [Bool.false_eq_true, if_false, hasError_append, Bool.or_eq_false_iff, parseSchemas_noError_iff p ss,
        parseSchema_noError_iff]

/-! ### the interface clauses (passes 1 and 2) -/

/-- pass 1: every interface clause names a schema of the file (a clause with an empty item list reports nothing) -/
def ClausesWF (f : File) (s : Schema) : Prop :=
  ∀ i ∈ s.ifaces, (findSchema f i.schema).isSome = true ∨ i.items = some []

theorem pass1_noError_iff (f : File) (s : Schema) : hasError (pass1 f s) = false ↔ ClausesWF f s := by
  unfold pass1 ClausesWF
  rw [hasError_flatMap_false]
  refine forall_congr' fun i => forall_congr' fun _ => ?_
  cases hfs : (findSchema f i.schema).isSome with
  | true => simp [hasError_nil]
  | false =>
    simp only [Bool.false_eq_true, if_false, false_or]
    cases hi : i.items with
    | none => simp only [reduceCtorEq, iff_false, Bool.not_eq_false]; errsimp
    | some its =>
      cases its with
      | nil => simp [hasError_nil]
      | cons a as => simp only [List.map_cons, Option.some.injEq, reduceCtorEq, iff_false, Bool.not_eq_false]; errsimp

/-- two imported items under one visible name denote the same object -/
def Consistent (l : List (String × Nat × Obj)) : Prop := ∀ x ∈ l, ∀ y ∈ l, x.1 = y.1 → x.2.2 = y.2.2

theorem nodup_map_inj {α β : Type} {g : α → β} : ∀ {l : List α}, (l.map g).Nodup → ∀ x ∈ l, ∀ y ∈ l, g x = g y → x = y
  | [], _ => by simp
  | a :: as, h => by
    rw [List.map_cons, List.nodup_cons] at h
    intro x hx y hy hxy
    rcases List.mem_cons.mp hx with rfl | hx' <;> rcases List.mem_cons.mp hy with rfl | hy'
    · rfl
    · exact absurd (hxy ▸ List.mem_map.mpr ⟨y, hy', rfl⟩) h.1
    · exact absurd (hxy ▸ List.mem_map.mpr ⟨x, hx', rfl⟩) h.1
    · exact nodup_map_inj h.2 x hx' y hy' hxy

theorem aliasDups_noError_iff (p : String) : ∀ (l seen : List (String × Nat × Obj)), (seen.map (·.1)).Nodup →
    (hasError (aliasDups p l seen) = false ↔ Consistent (seen ++ l))
  | [], seen, hnd => by
    simp only [aliasDups, hasError_nil, List.append_nil, true_iff]
    intro x hx y hy hxy
    rw [nodup_map_inj hnd x hx y hy hxy]
  | (n, l, o) :: rest, seen, hnd => by
    simp only [aliasDups]
    cases hf : seen.find? (fun x => x.1 = n) with
    | some x =>
      obtain ⟨n0, l0, o0⟩ := x
      have hm := List.mem_of_find?_eq_some hf
      have hx := List.find?_some hf
      simp only [decide_eq_true_eq] at hx
      subst hx
      simp only
      by_cases ho : o0 = o
      · subst ho
        simp only [if_true]
        rw [aliasDups_noError_iff p rest seen hnd]
        constructor
        · intro h x hx y hy hxy
          have fix : ∀ z, z ∈ seen ++ (n0, l, o0) :: rest → ∃ z' ∈ seen ++ rest, z'.1 = z.1 ∧ z'.2.2 = z.2.2 := by
            intro z hz
            simp only [List.mem_append, List.mem_cons] at hz
            rcases hz with hz | rfl | hz
            · exact ⟨z, List.mem_append_left _ hz, rfl, rfl⟩
            · exact ⟨(n0, l0, o0), List.mem_append_left _ hm, rfl, rfl⟩
            · exact ⟨z, List.mem_append_right _ hz, rfl, rfl⟩
          obtain ⟨x', hx', hx1, hx2⟩ := fix x hx
          obtain ⟨y', hy', hy1, hy2⟩ := fix y hy
          rw [← hx2, ← hy2]; exact h x' hx' y' hy' (by rw [hx1, hy1]; exact hxy)
        · intro h x hx y hy hxy
          have up : ∀ z, z ∈ seen ++ rest → z ∈ seen ++ (n0, l, o0) :: rest := by
            intro z hz; simp only [List.mem_append, List.mem_cons] at hz ⊢
            rcases hz with hz | hz
            · exact Or.inl hz
            · exact Or.inr (Or.inr hz)
          exact h x (up x hx) y (up y hy) hxy
      · simp only [ho, if_false]
        constructor
        · intro h; exfalso; revert h; errsimp
        · intro h; exfalso
          exact ho (h (n0, l0, o0) (List.mem_append_left _ hm) (n0, l, o) (by simp) rfl)
    | none =>
      have hn : n ∉ seen.map (·.1) := by
        intro hm
        obtain ⟨y, hy, hyn⟩ := List.mem_map.mp hm
        have := List.find?_eq_none.mp hf y hy
        simp [hyn] at this
      simp only
      rw [aliasDups_noError_iff p rest (seen ++ [(n, l, o)]) (by
        rw [List.map_append, List.nodup_append]
        refine ⟨hnd, by simp, ?_⟩
        intro a ha b hb
        simp only [List.map_cons, List.map_nil, List.mem_singleton] at hb
        subst hb; intro hab; subst hab; exact hn ha)]
      rw [List.append_assoc]; rfl

/-- **what a schema hands out, as a relation** (independent of fuel, visiting order and the fall-back scan): schema `T` hands out
    object `o` under name `n` when it declares it, when a schema it USEs as a whole hands it out, or when one of its USE items is
    visible under `n` and the schema the item comes from hands the item's original name out as `o` -/
inductive HandsOut (f : File) : String → String → Obj → Prop
  | own {T : String} {t : Schema} {n : String} {o : Obj} :
      findSchema f T = some t → ownObj t n = some o → HandsOut f T n o
  | wholeUse {T : String} {t : Schema} {U n : String} {o : Obj} :
      findSchema f T = some t → U ∈ fullUses t → HandsOut f U n o → HandsOut f T n o
  | item {T : String} {t : Schema} {x : String × Item} {n : String} {o : Obj} :
      findSchema f T = some t → x ∈ useItems t → x.2.visibleName = n → HandsOut f x.1 x.2.old o → HandsOut f T n o

theorem option_or_some {α : Type} {a b : Option α} {o : α} (h : a.or b = some o) : a = some o ∨ b = some o := by
  cases a with
  | some x => left; simpa using h
  | none => right; simpa using h

/-- **`SCOPEfind_for_rename` finds only what the interface clauses really hand out** (every fuel, every visiting order, with or
    without the fall-back scan): `ImportsWF` — stated through the model's look-up — therefore implies that every imported item is
    reachable through a chain of declarations / whole-schema USE clauses / USE items -/
theorem exportOf_sound (f : File) (fb : Bool) (pr : String → Bool) : ∀ (fuel : Nat) (T n : String) (o : Obj),
    exportOf f fb pr fuel T n = some o → HandsOut f T n o
  | 0, _, _, _, h => by simp [exportOf] at h
  | fuel + 1, T, n, o, h => by
    simp only [exportOf, exportStep] at h
    cases hf : findSchema f T with
    | none => rw [hf] at h; simp at h
    | some t =>
      rw [hf] at h
      simp only at h
      rcases option_or_some h with h1 | h
      · exact .own hf h1
      rcases option_or_some h with h2 | h
      · simp only [firstSome] at h2
        obtain ⟨U, hU, hv⟩ := List.exists_of_findSome?_eq_some h2
        exact .wholeUse hf hU (exportOf_sound f fb pr fuel U n o hv)
      rcases option_or_some h with h3 | h4
      · split at h3
        · simp only [viaDict, firstSome] at h3
          obtain ⟨x, hx, hv⟩ := List.exists_of_findSome?_eq_some h3
          split at hv
          · next hn => exact .item hf hx hn (exportOf_sound f fb pr fuel x.1 x.2.old o hv)
          · simp at hv
        · simp at h3
      · split at h4
        · simp only [viaList] at h4
          cases hfi : (useItems t).find? (fun x => x.2.visibleName = n) with
          | none => rw [hfi] at h4; simp at h4
          | some x =>
            rw [hfi] at h4
            simp only [Option.bind_some] at h4
            have hm := List.mem_of_find?_eq_some hfi
            have hp := List.find?_some hfi
            exact .item hf hm (by simpa using hp) (exportOf_sound f fb pr fuel x.1 x.2.old o h4)
        · simp at h4

theorem find_unique_of_nodup {α : Type} (key : α → String) : ∀ (l : List α) (x : α), (l.map key).Nodup → x ∈ l →
    l.find? (fun y => key y = key x) = some x
  | [], x, _, h => by simp at h
  | y :: ys, x, hnd, h => by
    rw [List.map_cons, List.nodup_cons] at hnd
    rcases List.mem_cons.mp h with rfl | h'
    · simp
    · have hne : key y ≠ key x := by
        intro he; exact hnd.1 (he ▸ List.mem_map.mpr ⟨x, h', rfl⟩)
      simp only [List.find?_cons, hne, decide_false]
      exact find_unique_of_nodup key ys x hnd.2 h'

theorem or_isSome_left {α : Type} {a b : Option α} (h : a.isSome = true) : (a.or b).isSome = true := by
  cases a with
  | some x => simp
  | none => simp at h

theorem or_isSome_right {α : Type} {a b : Option α} (h : b.isSome = true) : (a.or b).isSome = true := by
  cases a with
  | some x => simp
  | none => simpa using h

/-- **… and finds everything they hand out, given enough fuel**: with the fall-back scan (the code as it is) and no two USE items
    of a schema under one visible name, whatever a schema hands out according to the relation is found by the look-up from some
    fuel on (the object found may be another one when several routes lead to the name) -/
theorem exportOf_complete (f : File) (hnd : NoDupAlias f) (pr : String → Bool) {T n : String} {o : Obj}
    (h : HandsOut f T n o) : ∃ k, ∀ fuel, k ≤ fuel → (exportOf f true pr fuel T n).isSome = true := by
  induction h with
  | own hf ho =>
    refine ⟨1, fun fuel hk => ?_⟩
    obtain ⟨m, rfl⟩ : ∃ m, fuel = m + 1 := ⟨fuel - 1, by omega⟩
    simp only [exportOf, exportStep, hf]
    exact or_isSome_left (by simp [ho])
  | wholeUse hf hU _ ih =>
    obtain ⟨k, hk⟩ := ih
    refine ⟨k + 1, fun fuel hfu => ?_⟩
    obtain ⟨m, rfl⟩ : ∃ m, fuel = m + 1 := ⟨fuel - 1, by omega⟩
    simp only [exportOf, exportStep, hf]
    apply or_isSome_right
    apply or_isSome_left
    simp only [firstSome, List.findSome?_isSome_iff]
    exact ⟨_, hU, hk m (by omega)⟩
  | @item T t x n o hf hx hn _ ih =>
    obtain ⟨k, hk⟩ := ih
    refine ⟨k + 1, fun fuel hfu => ?_⟩
    obtain ⟨m, rfl⟩ : ∃ m, fuel = m + 1 := ⟨fuel - 1, by omega⟩
    simp only [exportOf, exportStep, hf]
    apply or_isSome_right
    apply or_isSome_right
    apply or_isSome_right
    have nd := hnd t (List.mem_of_find?_eq_some hf)
    have hfind := find_unique_of_nodup (fun y : String × Item => y.2.visibleName) (useItems t) x nd hx
    simp only [if_true, viaList]
    have : (useItems t).find? (fun y => decide (y.2.visibleName = n)) = some x := by
      rw [← hn]; exact hfind
    rw [this]
    simpa using hk m (by omega)

/-- pass 2: every imported item resolves in the schema it is imported from, and no visible name stands for two objects -/
def ImportsWF (f : File) (fb : Bool) (s : Schema) : Prop :=
  (∀ x ∈ useItems s ++ refItems s, (exportOf f fb (processedBefore f s.name) (importFuel f) x.1 x.2.old).isSome = true) ∧
  Consistent (resolvedItems f fb (processedBefore f s.name) (useItems s)) ∧
  Consistent (resolvedItems f fb (processedBefore f s.name) (refItems s))

theorem pass2_noError_iff (f : File) (fb : Bool) (s : Schema) : hasError (pass2 f fb s) = false ↔ ImportsWF f fb s := by
  have miss : ∀ items : List (String × Item),
      hasError (items.filterMap fun (x : String × Item) =>
        match exportOf f fb (processedBefore f s.name) (importFuel f) x.1 x.2.old with
        | some _ => none
        | none => some (mk (fileOf f s) LibErrors.REF_NONEXISTENT x.2.line [sArg x.2.old, sArg x.1])) = false ↔
      ∀ x ∈ items, (exportOf f fb (processedBefore f s.name) (importFuel f) x.1 x.2.old).isSome = true := by
    intro items
    induction items with
    | nil => simp [hasError_nil]
    | cons x xs ih =>
      rw [List.filterMap_cons, List.forall_mem_cons, ← ih]
      cases exportOf f fb (processedBefore f s.name) (importFuel f) x.1 x.2.old with
      | some o => simp
      | none => simp only [Option.isSome_none, Bool.false_eq_true, false_and, iff_false, Bool.not_eq_false]; errsimp
  unfold pass2 ImportsWF
  simp only [hasError_append, Bool.or_eq_false_iff, List.forall_mem_append]
  rw [aliasDups_noError_iff _ _ [] (by simp), aliasDups_noError_iff _ _ [] (by simp)]
  simp only [List.nil_append]
  have m1 := miss (useItems s)
  have m2 := miss (refItems s)
  constructor
  · rintro ⟨⟨⟨h1, h2⟩, h3⟩, h4⟩; exact ⟨⟨m1.mp h1, m2.mp h3⟩, h2, h4⟩
  · rintro ⟨⟨h1, h3⟩, h2, h4⟩; exact ⟨⟨⟨m1.mpr h1, h2⟩, m2.mpr h3⟩, h4⟩

/-! ### the whole file -/

/-- **well-formedness of a file, as the front end checks it**: every schema body parses and declares distinct names
    (in the file itself and in the schema files pulled in), every interface clause names a schema, every imported item
    resolves without a name clash, and every schema that is resolved is well formed in the environment its imports
    give it -/
structure FileWF (f : File) : Prop where
  parse : ∀ s ∈ f.schemas, ParseWF s
  clauses : ∀ s ∈ f.schemas, ClausesWF f s
  imports : ∀ s ∈ liveSchemas f, ImportsWF f ResolveGen.renameUselistFallback s
  schemas : ∀ s ∈ liveSchemas f, SchemaWF (envOf f ResolveGen.renameUselistFallback s) (linked f ResolveGen.renameUselistFallback s)

theorem normSchema_decls_length (s : Schema) : (normSchema s).decls.length = s.decls.length := by
  simp [normSchema]

/-- **the front end accepts a file ⇔ the file is lexically clean and well formed** -/
theorem file_accepts_iff (f : File) (lex : List Diag)
    (hlim : ∀ k, ResolveGen.subsuperDepthLimit = some k →
      ∀ s ∈ liveSchemas f, (linked f ResolveGen.renameUselistFallback s).decls.length < k) :
    (verdict f lex).rejects = false ↔ hasError lex = false ∧ FileWF f := by
  have g1 : LibErrors.gateAfterParse = true := by decide
  have hparse : hasError (parseDiags f) = false ∧ hasError (externalParseDiags f) = false ↔ ∀ s ∈ f.schemas, ParseWF s := by
    unfold parseDiags externalParseDiags
    rw [parseSchemas_noError_iff, hasError_flatMap_false]
    simp only [List.mem_filter, parseSchema_noError_iff]
    constructor
    · rintro ⟨h1, h2⟩ s hs
      cases hfile : s.file with
      | none => exact h1 s ⟨hs, by simp [hfile]⟩
      | some x => exact h2 s ⟨hs, by simp [hfile]⟩
    · intro h; exact ⟨fun s hs => h s hs.1, fun s hs => h s hs.1⟩
  have hres : hasError (resolveDiags f).diags = false ↔
      hasError (externalParseDiags f) = false ∧ (∀ s ∈ f.schemas, ClausesWF f s) ∧
      (∀ s ∈ liveSchemas f, ImportsWF f ResolveGen.renameUselistFallback s) ∧
      (∀ s ∈ liveSchemas f, SchemaWF (envOf f ResolveGen.renameUselistFallback s) (linked f ResolveGen.renameUselistFallback s)) := by
    unfold resolveDiags
    simp only [hasError_append, Bool.or_eq_false_iff, hasError_flatMap_false, pass1_noError_iff, pass2_noError_iff,
      List.mem_map, forall_exists_index, and_imp, forall_apply_eq_imp_iff₂]
    have hl : ∀ s ∈ liveSchemas f, ∀ k, ResolveGen.subsuperDepthLimit = some k →
        (linked f ResolveGen.renameUselistFallback s).decls.length < k := fun s hs k hk => hlim k hk s hs
    constructor
    · rintro ⟨⟨⟨⟨⟨he, h1⟩, h2⟩, h3⟩, h4⟩, h5⟩
      refine ⟨he, h1, h2, fun s hs => ?_⟩
      rw [← schema_noError_iff (fileOf f s) _ _ (hl s hs)]
      simp only [hasError_append, Bool.or_eq_false_iff]
      exact ⟨⟨h3 s hs, h4 s hs⟩, h5 s hs⟩
    · rintro ⟨he, h1, h2, hw⟩
      have h := fun s hs => (schema_noError_iff (fileOf f s) _ _ (hl s hs)).mpr (hw s hs)
      simp only [hasError_append, Bool.or_eq_false_iff] at h
      exact ⟨⟨⟨⟨⟨he, h1⟩, h2⟩, fun s hs => (h s hs).1.1⟩, fun s hs => (h s hs).1.2⟩, fun s hs => (h s hs).2⟩
  simp only [Verdict.rejects, verdict, g1, if_true, Bool.or_eq_false_iff, hasError_append]
  constructor
  · rintro ⟨⟨hl, hp⟩, hr⟩
    have hr' : hasError (resolveDiags f).diags = false := by simpa [hl, hp] using hr
    obtain ⟨he, h1, h2, h3⟩ := hres.mp hr'
    exact ⟨hl, hparse.mp ⟨hp, he⟩, h1, h2, h3⟩
  · rintro ⟨hl, hp, h1, h2, h3⟩
    obtain ⟨hp1, he⟩ := hparse.mpr hp
    have hr := hres.mpr ⟨he, h1, h2, h3⟩
    exact ⟨⟨hl, hp1⟩, by simp [hr]⟩

end StepModel.Express.Resolve

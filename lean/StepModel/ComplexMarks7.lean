import StepModel.ComplexMarks6
/-! The `choice` of an OrList, when it selects a child, selects one with `viable ≥ MATCHSOME` (`ChK`) — through
`unmarkAll`, `acceptChoice`, `matchNonORs`, `matchORs`. -/
namespace StepModel.Complex.Match
open StepModel.Generated StepModel.Complex

mutual
  def ChK : ST → Prop
    | .simple .. => True
    | .mult j _ c _ _ cs => ChKL cs ∧
        (j = .or → c ≠ listEnd → ∀ i ch, inRange c cs.length = some i → cs[i]? = some ch → Kr ch.viable)
  def ChKL : List ST → Prop
    | [] => True
    | c :: cs => ChK c ∧ ChKL cs
end

theorem ChKL_iff (cs : List ST) : ChKL cs ↔ ∀ c ∈ cs, ChK c := by
  induction cs with
  | nil => simp [ChKL]
  | cons a l ih => simp [ChKL, ih]

theorem inRange_neg : ∀ n, inRange (-1) n = none := by
  intro n; unfold inRange; simp

mutual
  theorem ChK_fresh : ∀ (t : Tree), ChK (fresh t)
    | .simple _ => trivial
    | .and cs => by simp only [fresh, ChK]; exact ⟨ChKL_fresh cs, fun h => by cases h⟩
    | .andor cs => by simp only [fresh, ChK]; exact ⟨ChKL_fresh cs, fun h => by cases h⟩
    | .or cs => by
      simp only [fresh, ChK]
      refine ⟨ChKL_fresh cs, fun _ _ i ch hir _ => ?_⟩
      have : orInitChoice = -1 := rfl
      rw [this, inRange_neg] at hir; cases hir
  theorem ChKL_fresh : ∀ (cs : List Tree), ChKL (freshL cs)
    | [] => trivial
    | c :: cs => ⟨ChK_fresh c, ChKL_fresh cs⟩
end

theorem ChKL_set {cs : List ST} {i : Nat} {ch' : ST} (h : ChKL cs) (h' : ChK ch') : ChKL (cs.set i ch') := by
  apply (ChKL_iff _).mpr
  intro c hc
  rcases List.mem_or_eq_of_mem_set hc with e | e
  · exact (ChKL_iff cs).mp h c e
  · rw [e]; exact h'

theorem getElem?_viable_of_skelL {a b : List ST} (h : skelL a = skelL b) {i : Nat} {x : ST} (hx : a[i]? = some x) :
    ∃ y, b[i]? = some y ∧ y.viable = x.viable := by
  have hl : a.length = b.length := by rw [← skelL_length a, h, skelL_length]
  have hi : i < a.length := (List.getElem?_eq_some_iff.mp hx).1
  have hy : b[i]? = some b[i] := List.getElem?_eq_getElem (by omega)
  exact ⟨b[i], hy, viable_of_skel (skelL_getElem h.symm hy hx)⟩

theorem unmark_chk : ∀ f : Nat,
    (∀ t es r, unmarkAll f t es = .ok r → ChK t → ChK r.1) ∧
    (∀ cs es r, unmarkList f cs es = .ok r → ChKL cs → ChKL r.1) := by
  intro f
  induction f with
  | zero => exact ⟨fun _ _ _ h => by simp [unmarkAll] at h, fun _ _ _ h => by simp [unmarkList] at h⟩
  | succ f ih =>
    obtain ⟨ih1, ih2⟩ := ih
    refine ⟨?_, ?_⟩
    · intro t es r h hc
      cases t with
      | simple n v im =>
        simp only [unmarkAll, simpleUnmark] at h
        split at h
        · cases h; trivial
        · split at h
          · cases h
          · split at h
            · cases h
            · cases h; trivial
      | mult j v c c1 k cs =>
        simp only [ChK] at hc
        cases j with
        | or =>
          simp only [unmarkAll] at h
          split at h
          · cases h; simp only [ChK]; exact ⟨hc.1, fun _ => hc.2 rfl⟩
          · split at h
            · cases h; simp only [ChK]; exact ⟨hc.1, fun _ => hc.2 rfl⟩
            · rename_i i _ _ ch hch
              obtain ⟨⟨ch', es'⟩, h1, h2⟩ := bind_ok' h
              cases h2
              have hk := ih1 ch es _ h1 ((ChKL_iff cs).mp hc.1 ch (List.mem_of_getElem? hch))
              have hs := (unmark_skel f).1 ch es _ h1
              simp only [ChK]
              refine ⟨ChKL_set hc.1 hk, fun hj hne p x hir hx => ?_⟩
              rw [List.length_set] at hir
              by_cases hpi : p = i
              · subst hpi
                have hilt : p < cs.length := (List.getElem?_eq_some_iff.mp hch).1
                simp [hilt] at hx
                rw [← hx, viable_of_skel hs]
                exact hc.2 rfl hne p ch hir hch
              · rw [List.getElem?_set_ne (fun e => hpi e.symm)] at hx
                exact hc.2 rfl hne p x hir hx
        | and =>
          simp only [unmarkAll] at h
          obtain ⟨⟨cs', es'⟩, h1, h2⟩ := bind_ok' h
          cases h2; simp only [ChK]; exact ⟨ih2 cs es _ h1 hc.1, fun h' => by cases h'⟩
        | andor =>
          simp only [unmarkAll] at h
          obtain ⟨⟨cs', es'⟩, h1, h2⟩ := bind_ok' h
          cases h2; simp only [ChK]; exact ⟨ih2 cs es _ h1 hc.1, fun h' => by cases h'⟩
    · intro cs es r h hc
      cases cs with
      | nil => simp only [unmarkList] at h; cases h; trivial
      | cons ch rest =>
        simp only [ChKL] at hc
        simp only [unmarkList] at h
        obtain ⟨⟨ch', es1⟩, h1, h2⟩ := bind_ok' h
        obtain ⟨⟨rest', es2⟩, h3, h4⟩ := bind_ok' h2
        cases h4
        exact ⟨ih1 ch es _ h1 hc.1, ih2 rest es1 _ h3 hc.2⟩

theorem accept_chk : ∀ f : Nat,
    (∀ t es r, acceptChoice f t es = .ok r → (∀ c c1 k cs v, t = .mult .or v c c1 k cs → ChKL cs) →
      (t.isOr = false → ChK t) → ChK r.1) ∧
    (∀ cs es r, acceptJoin f cs es = .ok r → ChKL cs → ChKL r.1) ∧
    (∀ cs i es r, acceptOr f cs i es = .ok r → ChKL cs →
      ChKL r.1 ∧ ∀ j, r.2.2 = some j → ∃ ch, r.1[j]? = some ch ∧ Kr ch.viable) := by
  intro f
  induction f with
  | zero =>
    exact ⟨fun _ _ _ h => by simp [acceptChoice] at h, fun _ _ _ h => by simp [acceptJoin] at h,
      fun _ _ _ _ h => by simp [acceptOr] at h⟩
  | succ f ih =>
    obtain ⟨ih1, ih2, ih3⟩ := ih
    refine ⟨?_, ?_, ?_⟩
    · intro t es r h hor hnor
      cases t with
      | simple n v im =>
        simp only [acceptChoice] at h; cases h
        unfold simpleAccept
        split
        · trivial
        · split
          · trivial
          · split <;> trivial
      | mult j v c c1 k cs =>
        cases j with
        | or =>
          have hcs := hor c c1 k cs v rfl
          simp only [acceptChoice] at h
          split at h
          · cases h
            simp only [ChK]
            exact ⟨hcs, fun _ hne => absurd rfl hne⟩
          · obtain ⟨⟨cs', es', res⟩, h1, h2⟩ := bind_ok' h
            obtain ⟨p1, p2⟩ := ih3 cs _ es _ h1 hcs
            cases res with
            | none =>
              cases h2
              simp only [ChK]
              exact ⟨p1, fun _ hne => absurd rfl hne⟩
            | some j =>
              cases h2
              obtain ⟨ch, hch, hk⟩ := p2 j rfl
              simp only [ChK]
              refine ⟨p1, fun _ _ p x hir hx => ?_⟩
              have hjl : j < cs'.length := (List.getElem?_eq_some_iff.mp hch).1
              rw [inRange_cast hjl] at hir
              cases hir
              rw [hch] at hx; cases hx; exact hk
        | and =>
          have hc := hnor rfl
          simp only [ChK] at hc
          simp only [acceptChoice] at h
          obtain ⟨⟨cs', es', res⟩, h1, h2⟩ := bind_ok' h
          cases h2
          simp only [ChK]
          exact ⟨ih2 cs es _ h1 hc.1, fun h' => by cases h'⟩
        | andor =>
          have hc := hnor rfl
          simp only [ChK] at hc
          simp only [acceptChoice] at h
          obtain ⟨⟨cs', es', res⟩, h1, h2⟩ := bind_ok' h
          cases h2
          simp only [ChK]
          exact ⟨ih2 cs es _ h1 hc.1, fun h' => by cases h'⟩
    · intro cs es r h hc
      cases cs with
      | nil => simp only [acceptJoin] at h; cases h; trivial
      | cons ch rest =>
        simp only [ChKL] at hc
        simp only [acceptJoin] at h
        obtain ⟨⟨ch', es1, r1⟩, h1, h2⟩ := ite_bind_ok h
        obtain ⟨⟨rest', es2, r2⟩, h3, h4⟩ := bind_ok' h2
        cases h4
        refine ⟨?_, ih2 rest es1 _ h3 hc.2⟩
        split at h1
        · refine ih1 ch es _ h1 (fun c c1 k cs v e => ?_) (fun _ => hc.1)
          have := hc.1; rw [e] at this; simp only [ChK] at this; exact this.1
        · cases h1; exact hc.1
    · intro cs i es r h hc
      simp only [acceptOr] at h
      split at h
      · cases h; exact ⟨hc, fun j hj => by cases hj⟩
      · rename_i ch hch
        split at h
        · rename_i hal
          obtain ⟨⟨ch', es1, r1⟩, h1, h2⟩ := bind_ok' h
          have hchk := (ChKL_iff cs).mp hc ch (List.mem_of_getElem? hch)
          have hk' := ih1 ch es _ h1 (fun c c1 k cs0 v e => by
            rw [e] at hchk; simp only [ChK] at hchk; exact hchk.1) (fun _ => hchk)
          have hs := (accept_skel f).1 ch es _ h1
          have hset := ChKL_set (i := i) hc hk'
          cases r1 with
          | true =>
            simp only [if_true] at h2; cases h2
            refine ⟨hset, fun j hj => ?_⟩
            cases hj
            have hilt : i < cs.length := (List.getElem?_eq_some_iff.mp hch).1
            exact ⟨ch', by simp [hilt], by rw [viable_of_skel hs]; exact Kr_of_atLeastSome hal⟩
          | false =>
            simp only [Bool.false_eq_true, if_false] at h2
            exact ih3 _ _ _ _ h2 hset
        · exact ih3 cs (i + 1) es r h hc


theorem ChKL_append {a b : List ST} : ChKL (a ++ b) ↔ ChKL a ∧ ChKL b := by
  simp only [ChKL_iff, List.mem_append]
  constructor
  · intro h; exact ⟨fun c hc => h c (Or.inl hc), fun c hc => h c (Or.inr hc)⟩
  · rintro ⟨h1, h2⟩ c (hc | hc)
    · exact h1 c hc
    · exact h2 c hc

theorem simpleMatch_ChK (n : Name) (im : Mark) (es : Ents) : ChK (simpleMatchNonORs n im es).1 := by
  unfold simpleMatchNonORs
  split
  · trivial
  · split
    · trivial
    · split
      · split
        · simp only
          split <;> trivial
        · trivial
      · trivial

theorem nonors_chk : ∀ f : Nat,
    (∀ t es r, matchNonORs f (fresh t) es = .ok r → ChK r.1) ∧
    (∀ restT done es r, andNonORs f done (freshL restT) es = .ok r → ChKL done → ChKL r.1) ∧
    (∀ restT done es r, andorNonORs f done (freshL restT) es = .ok r → ChKL done → ChKL r.1) := by
  intro f
  induction f with
  | zero =>
    exact ⟨fun _ _ _ h => by simp [matchNonORs] at h, fun _ _ _ _ h => by simp [andNonORs] at h,
      fun _ _ _ _ h => by simp [andorNonORs] at h⟩
  | succ f ih =>
    obtain ⟨ih1, ih2, ih3⟩ := ih
    refine ⟨?_, ?_, ?_⟩
    · intro t es r h
      cases t with
      | simple n => simp only [fresh, matchNonORs] at h; cases h; exact simpleMatch_ChK n .no es
      | or ts => simp only [fresh, matchNonORs] at h; cases h; exact ChK_fresh (.or ts)
      | and ts =>
        simp only [fresh, matchNonORs] at h
        split at h
        · cases h
        · obtain ⟨⟨cs', es', failed⟩, h1, h2⟩ := bind_ok' h
          have := ih2 ts [] es _ h1 trivial
          split at h2 <;> (cases h2; simp only [ChK]; exact ⟨this, fun h' => by cases h'⟩)
      | andor ts =>
        simp only [fresh, matchNonORs] at h
        split at h
        · cases h
        · obtain ⟨⟨cs', es', early⟩, h1, h2⟩ := bind_ok' h
          have := ih3 ts [] es _ h1 trivial
          split at h2 <;> (cases h2; simp only [ChK]; exact ⟨this, fun h' => by cases h'⟩)
    · intro restT done es r h hd
      cases restT with
      | nil => simp only [freshL, andNonORs] at h; cases h; exact hd
      | cons c rest =>
        simp only [freshL, andNonORs] at h
        split at h
        · exact ih2 rest _ es r h (ChKL_append.mpr ⟨hd, ChK_fresh c, trivial⟩)
        · obtain ⟨⟨ch', es1, rc⟩, h1, h2⟩ := bind_ok' h
          have hk := ih1 c es _ h1
          simp only at h2
          split at h2
          · cases h2
            exact ChKL_append.mpr ⟨hd, hk, ChKL_fresh rest⟩
          · exact ih2 rest _ es1 r h2 (ChKL_append.mpr ⟨hd, hk, trivial⟩)
    · intro restT done es r h hd
      cases restT with
      | nil => simp only [freshL, andorNonORs] at h; cases h; exact hd
      | cons c rest =>
        simp only [freshL, andorNonORs] at h
        split at h
        · exact ih3 rest _ es r h (ChKL_append.mpr ⟨hd, ChK_fresh c, trivial⟩)
        · obtain ⟨⟨ch', es1, rc⟩, h1, h2⟩ := bind_ok' h
          have hk := ih1 c es _ h1
          simp only at h2
          split at h2
          · split at h2
            · cases h2
              exact ChKL_append.mpr ⟨hd, hk, ChKL_fresh rest⟩
            · exact ih3 rest _ es1 r h2 (ChKL_append.mpr ⟨hd, hk, trivial⟩)
          · split at h2
            · obtain ⟨⟨ch2, es2⟩, h3, h4⟩ := bind_ok' h2
              have hk2 := (unmark_chk f).1 ch' es1 _ h3 hk
              exact ih3 rest _ es2 r h4 (ChKL_append.mpr ⟨hd, hk2, trivial⟩)
            · exact ih3 rest _ es1 r h2 (ChKL_append.mpr ⟨hd, hk, trivial⟩)

theorem ors_chk (N : List Name) (hN : N.Pairwise (· < ·)) : ∀ f : Nat,
    (∀ t es r, matchORs f t es = .ok r → Pend t → SemV N (skel t) → names es = N → ChK t → ChK r.1) ∧
    (∀ isAnd done rest es r, joinORs f isAnd done rest es = .ok r → PendL rest → SemVL N (skelL rest) → names es = N →
      ChKL done → ChKL rest → ChKL r.1) ∧
    (∀ restT idx done es rv v c c1 k r, orORs f idx done (freshL restT) es rv v c c1 k = .ok r →
      treeWFL restT = true → names es = N → ChKL done → ChKL r.1) := by
  intro f
  induction f with
  | zero =>
    exact ⟨fun _ _ _ h => by simp [matchORs] at h, fun _ _ _ _ _ h => by simp [joinORs] at h,
      fun _ _ _ _ _ _ _ _ _ _ h => by simp [orORs] at h⟩
  | succ f ih =>
    obtain ⟨ih1, ih2, ih3⟩ := ih
    refine ⟨?_, ?_, ?_⟩
    · intro t es r h hp hs hnm hc
      cases t with
      | simple n v im => exact absurd hp (by simp [Pend])
      | mult j v c c1 k cs =>
        simp only [ChK] at hc
        cases j with
        | and =>
          simp only [Pend] at hp
          have hs' := hs
          simp only [skel] at hs'
          simp only [matchORs] at h
          split at h
          · cases h
          · obtain ⟨⟨cs', es', failed⟩, h1, h2⟩ := bind_ok' h
            have := ih2 true [] cs es _ h1 hp.2 hs'.2.1 hnm trivial hc.1
            split at h2 <;> (cases h2; simp only [ChK]; exact ⟨this, fun h' => by cases h'⟩)
        | andor =>
          simp only [Pend] at hp
          have hs' := hs
          simp only [skel] at hs'
          simp only [matchORs] at h
          split at h
          · cases h
          · obtain ⟨⟨cs', es', flag⟩, h1, h2⟩ := bind_ok' h
            have := ih2 false [] cs es _ h1 hp.2 hs'.2.1 hnm trivial hc.1
            cases h2; simp only [ChK]; exact ⟨this, fun h' => by cases h'⟩
        | or =>
          simp only [Pend] at hp
          obtain ⟨ts, hts, hwf⟩ := hp
          simp only [fresh] at hts
          injection hts with _ hv hc' hc1 hk hcs
          subst hv hc' hc1 hk hcs
          simp only [treeWF, Bool.and_eq_true, Bool.not_eq_true', List.isEmpty_eq_false_iff] at hwf
          simp only [matchORs] at h
          obtain ⟨⟨cs', es', rv', v', c', c1', k'⟩, h1, h2⟩ := bind_ok' h
          have hcs' : ChKL cs' := ih3 ts 0 [] es _ _ _ _ _ _ h1 hwf.2 hnm trivial
          have I0 : OInv [] .unknown orInitChoice orInitChoice1 :=
            ⟨(fun d hd => by cases hd), Or.inl rfl, fun _ => rfl, (fun h => by cases h),
              (fun h => absurd rfl (K_ne_unknown h)), (fun h => by simp [MT.rank] at h), fun _ => rfl⟩
          obtain ⟨_, tail, htail, _, _, I⟩ := (ors_sem N hN f).2.2 ts 0 [] es _ _ _ _ _ _ h1 hwf.2 hnm rfl I0
          simp only [List.nil_append] at htail I
          subst htail
          simp only at h2 I
          obtain ⟨⟨node', es''⟩, hA, hB⟩ := ite_bind_ok h2
          have hnode : ChK node' := by
            split at hA
            · unfold acceptDrop at hA
              obtain ⟨⟨n', e', b⟩, a1, a2⟩ := bind_ok' hA
              cases a2
              refine (accept_chk f).1 _ es' _ a1 (fun c0 c10 k0 cs0 v0 e => ?_) (fun h' => by cases h')
              cases e; exact hcs'
            · rename_i hlow
              cases hA
              simp only [ChK]
              refine ⟨hcs', fun _ _ i ch hir _ => ?_⟩
              have := I.cinit (by omega)
              rw [this, inRange_neg] at hir; cases hir
          have hres : r.1 = node' := by
            simp only at hB
            split at hB
            · split at hB
              · split at hB
                · cases hB
                · split at hB
                  · cases hB
                  · cases hB; rfl
              · cases hB
            · cases hB; rfl
          rw [hres]; exact hnode
    · intro isAnd done rest es r h hpl hsl hnm hd hr
      cases rest with
      | nil => simp only [joinORs] at h; cases h; exact hd
      | cons ch rest =>
        simp only [PendL] at hpl
        simp only [skelL, SemVL] at hsl
        simp only [ChKL] at hr
        simp only [joinORs] at h
        split at h
        · rename_i hu
          split at h
          · cases h
          · obtain ⟨⟨ch', es1, rc⟩, h1, h2⟩ := bind_ok' h
            have hpend : Pend ch := by
              rcases hpl.1 with h' | h'
              · exact absurd hu h'
              · exact h'
            have hk := ih1 ch es _ h1 hpend hsl.1 hnm hr.1
            have O := (ors_sem N hN f).1 ch es _ h1 hpend hsl.1 hnm
            simp only at h2
            split at h2
            · cases isAnd with
              | true =>
                simp only [if_true] at h2; cases h2
                exact ChKL_append.mpr ⟨hd, hk, hr.2⟩
              | false =>
                simp only [Bool.false_eq_true, if_false] at h2
                obtain ⟨⟨ch2, es2⟩, h3, h4⟩ := bind_ok' h2
                have hk2 := (unmark_chk f).1 ch' es1 _ h3 hk
                have hn2 : names es2 = N := by rw [(unmark_names f).1 ch' es1 _ h3]; exact O.nm
                exact ih2 _ _ rest es2 r h4 hpl.2 hsl.2 hn2 (ChKL_append.mpr ⟨hd, hk2, trivial⟩) hr.2
            · exact ih2 _ _ rest es1 r h2 hpl.2 hsl.2 O.nm (ChKL_append.mpr ⟨hd, hk, trivial⟩) hr.2
        · exact ih2 _ _ rest es r h hpl.2 hsl.2 hnm (ChKL_append.mpr ⟨hd, hr.1, trivial⟩) hr.2
    · intro restT idx done es rv v c c1 k r h hwf hnm hd
      cases restT with
      | nil => simp only [freshL, orORs] at h; cases h; exact hd
      | cons t rest =>
        simp only [treeWFL, Bool.and_eq_true] at hwf
        simp only [freshL, orORs] at h
        obtain ⟨⟨ch1, es1, rv1⟩, hA, hB⟩ := ite_bind_ok h
        have SA := orstep_A N hN f t es rv _ hwf.1 hnm hA
        have a1 : ChK ch1 := by
          split at hA
          · exact (nonors_chk f).1 t es _ hA
          · cases hA; exact ChK_fresh t
        simp only at hB SA
        obtain ⟨⟨ch2, es2, rv2⟩, hC, hD⟩ := ite_bind_ok hB
        have SB := orstep_B N hN f t (ch1, es1, rv1) (ch2, es2, rv2) SA hC
        have b1 : ChK ch2 := by
          split at hC
          · rename_i hu
            split at hC
            · cases hC
            · exact ih1 ch1 es1 _ hC (SA.2.2.2 hu) SA.1 SA.2.2.1 a1
          · cases hC; exact a1
        simp only at hD SB
        obtain ⟨⟨ch3, es3⟩, hE, hF⟩ := bind_ok' hD
        have c3 := (unmark_chk f).1 ch2 es2 _ hE b1
        have hn3 : names es3 = N := by rw [(unmark_names f).1 ch2 es2 _ hE]; exact SB.2
        exact ih3 rest _ _ es3 _ _ _ _ _ r hF hwf.2 hn3 (ChKL_append.mpr ⟨hd, c3, trivial⟩)

end StepModel.Complex.Match

import StepModel.GenCxx
/-! Helper lemmas for `Props/C02.lean`: the specification of Part 21 attribute order and the refinement
of the generated constructors to it. -/
namespace StepModel.GenCxx

/-! ## Specification: ISO 10303-21 internal mapping order

Attributes of the supertypes first, supertypes in the order of the SUBTYPE OF list, each supertype's own
inherited attributes before its own; an entity that is reached along several paths contributes its
attributes once, at the first position (ISO 10303-11 9.2.3.3 repeated inheritance, 10303-21 11.2.5.2). -/
namespace Spec

/-- entities contributing attributes to an instance of `n`, in Part 21 order: depth-first through the
    supertype lists, an entity already placed is skipped, a supertype precedes the subtype -/
def inheritOrder (s : Schema) : Nat → String → List String → List String
  | 0, _, vis => vis
  | f + 1, n, vis =>
    if vis.contains n then vis else
    match s.findE n with
    | none => vis
    | some e => (e.supers.foldl (fun v sup => inheritOrder s f sup v) vis) ++ [n]

/-- own attributes that have a value position in the exchange structure: explicit, not a redeclaration -/
def explicitOwn (e : Entity) : List (String × String) :=
  (e.attrs.filter (fun a => a.kind == .explicit && a.redecl.isNone)).map (fun a => (e.name, a.name))

def ownOf (s : Schema) (g : Entity → List α) (m : String) : List α :=
  match s.findE m with
  | some e => g e
  | none => []

/-- (owner, attribute) pairs of an instance of `n` in Part 21 order -/
def p21Order (s : Schema) (n : String) : List (String × String) :=
  (inheritOrder s (fuelOf s) n []).flatMap (ownOf s explicitOwn)

/-- a resolved schema: supertypes exist and the supertype graph is acyclic (`rank` decreases towards
    supertypes and is bounded by the number of entities), attribute names are distinct within an entity -/
structure WF (s : Schema) (rank : String → Nat) : Prop where
  supers : ∀ n e, s.findE n = some e → ∀ sup ∈ e.supers, (s.findE sup).isSome ∧ rank sup < rank n
  bound : ∀ n e, s.findE n = some e → rank n < fuelOf s
  nodup : ∀ n e, s.findE n = some e → (ownSAs e).Nodup

end Spec
open Spec

theorem findE_name {s : Schema} {n : String} {e : Entity} (h : s.findE n = some e) : e.name = n := by
  unfold Schema.findE at h
  have := List.find?_some h
  simpa using this

/-! ## `ins` / `insAll` -/

theorem insAll_nil (h : List SA) : insAll h [] = h := rfl
theorem insAll_cons (h : List SA) (x : SA) (xs : List SA) : insAll h (x :: xs) = insAll (ins h x) xs := rfl

theorem ins_of_mem {h : List SA} {a : SA} (m : a ∈ h) : ins h a = h := by
  unfold ins; simp [m]

theorem ins_of_not_mem {h : List SA} {a : SA} (m : a ∉ h) : ins h a = h ++ [a] := by
  unfold ins; simp [m]

theorem insAll_of_subset (h xs : List SA) (hs : ∀ x ∈ xs, x ∈ h) : insAll h xs = h := by
  induction xs generalizing h with
  | nil => rfl
  | cons x xs ih =>
    rw [insAll_cons, ins_of_mem (hs x (by simp))]
    exact ih h (fun y hy => hs y (by simp [hy]))

theorem insAll_of_disjoint (h xs : List SA) (hd : ∀ x ∈ xs, x ∉ h) (nd : xs.Nodup) :
    insAll h xs = h ++ xs := by
  induction xs generalizing h with
  | nil => simp [insAll_nil]
  | cons x xs ih =>
    rw [insAll_cons, ins_of_not_mem (hd x (by simp))]
    have nd' := List.nodup_cons.mp nd
    rw [ih (h ++ [x])]
    · simp
    · intro y hy
      simp only [List.mem_append, List.mem_singleton, not_or]
      refine ⟨hd y (by simp [hy]), ?_⟩
      intro e; subst e; exact nd'.1 hy
    · exact nd'.2

/-! ## one-step unfoldings -/

theorem ctorArgs_succ (s : Schema) (f : Nat) (n : String) (h : List SA) :
    ctorArgs s (f + 1) n h =
      match s.findE n with
      | none => h
      | some e => insAll (e.supers.foldl (fun acc sup => ctorArgs s f sup acc) h) (ownSAs e) := rfl

theorem ctorNoArg_succ (s : Schema) (f : Nat) (n : String) :
    ctorNoArg s (f + 1) n =
      match s.findE n with
      | none => []
      | some e =>
        insAll (e.supers.tail.foldl (fun acc sup => ctorArgs s f sup acc)
          (match e.supers with
            | [] => []
            | p :: _ => ctorNoArg s f p)) (ownSAs e) := rfl

theorem inheritOrder_succ (s : Schema) (f : Nat) (n : String) (vis : List String) :
    Spec.inheritOrder s (f + 1) n vis =
      if vis.contains n then vis else
      match s.findE n with
      | none => vis
      | some e => (e.supers.foldl (fun v sup => Spec.inheritOrder s f sup v) vis) ++ [n] := rfl

/-! ## both constructors agree -/

theorem ctorNoArg_eq (s : Schema) (f : Nat) (n : String) : ctorNoArg s f n = ctorArgs s f n [] := by
  induction f generalizing n with
  | zero => rfl
  | succ f ih =>
    rw [ctorNoArg_succ, ctorArgs_succ]
    cases hE : s.findE n with
    | none => rfl
    | some e =>
      simp only
      cases hs : e.supers with
      | nil => rfl
      | cons p ps => simp only [List.tail_cons, List.foldl_cons, ih]

/-! ## the refinement invariant -/

/-- the head list that corresponds to a sequence of placed entities -/
def flat (s : Schema) (vis : List String) : List SA := vis.flatMap (ownOf s ownSAs)

theorem flat_append (s : Schema) (a b : List String) : flat s (a ++ b) = flat s a ++ flat s b := by
  simp [flat]

theorem mem_flat_owner {s : Schema} {vis : List String} {x : SA} (hx : x ∈ flat s vis) : x.owner ∈ vis := by
  simp only [flat, List.mem_flatMap] at hx
  obtain ⟨m, hm, hx⟩ := hx
  unfold ownOf at hx
  cases hE : s.findE m with
  | none => simp [hE] at hx
  | some e =>
    simp only [hE, ownSAs, List.mem_map] at hx
    obtain ⟨a, _, rfl⟩ := hx
    simpa [findE_name hE] using hm

theorem own_subset_flat {s : Schema} {vis : List String} {n : String} {e : Entity}
    (hE : s.findE n = some e) (hn : n ∈ vis) : ∀ x ∈ ownSAs e, x ∈ flat s vis := by
  intro x hx
  simp only [flat, List.mem_flatMap]
  exact ⟨n, hn, by simp [ownOf, hE, hx]⟩

/-- every placed entity exists and has all its supertypes placed -/
def Closed (s : Schema) (vis : List String) : Prop :=
  ∀ m ∈ vis, ∃ e, s.findE m = some e ∧ ∀ sup ∈ e.supers, sup ∈ vis

/-- `b` is not a declared supertype of `a` -/
def NotSuperOf (s : Schema) (a b : String) : Prop := ∀ e, s.findE a = some e → b ∉ e.supers

/-- what one traversal step guarantees -/
structure Step (s : Schema) (rank : String → Nat) (n : String) (vis vis' : List String) (h h' : List SA) : Prop where
  flat : h' = flat s vis'
  closed : Closed s vis'
  mono : ∀ m ∈ vis, m ∈ vis'
  self : n ∈ vis'
  rank : ∀ m ∈ vis', m ∈ vis ∨ rank m ≤ rank n
  nodup : vis.Nodup → vis'.Nodup
  pw : vis.Pairwise (NotSuperOf s) → vis'.Pairwise (NotSuperOf s)

theorem step_fold {s : Schema} {rank : String → Nat} (f : Nat)
    (ih : ∀ n vis, rank n < f → (s.findE n).isSome → Closed s vis →
      Step s rank n vis (inheritOrder s f n vis) (flat s vis) (ctorArgs s f n (flat s vis)))
    (L : List String) (vis : List String)
    (hL : ∀ sup ∈ L, (s.findE sup).isSome ∧ rank sup < f) (hc : Closed s vis) :
    let vis' := L.foldl (fun v sup => inheritOrder s f sup v) vis
    L.foldl (fun acc sup => ctorArgs s f sup acc) (flat s vis) = flat s vis' ∧ Closed s vis' ∧
      (∀ m ∈ vis, m ∈ vis') ∧ (∀ sup ∈ L, sup ∈ vis') ∧
      (∀ m ∈ vis', m ∈ vis ∨ ∃ sup ∈ L, rank m ≤ rank sup) ∧
      (vis.Nodup → vis'.Nodup) ∧ (vis.Pairwise (NotSuperOf s) → vis'.Pairwise (NotSuperOf s)) := by
  induction L generalizing vis with
  | nil => simp_all
  | cons p ps ihL =>
    have hp := hL p (by simp)
    have st := ih p vis hp.2 hp.1 hc
    have rest := ihL (inheritOrder s f p vis) (fun sup hs => hL sup (by simp [hs])) st.closed
    simp only [List.foldl_cons]
    rw [st.flat]
    obtain ⟨r1, r2, r3, r4, r5, r6, r7⟩ := rest
    refine ⟨r1, r2, fun m hm => r3 m (st.mono m hm), ?_, ?_, fun h => r6 (st.nodup h), fun h => r7 (st.pw h)⟩
    · intro sup hs
      rcases List.mem_cons.mp hs with rfl | hs
      · exact r3 _ st.self
      · exact r4 sup hs
    · intro m hm
      rcases r5 m hm with h1 | ⟨sup, hs, hr⟩
      · rcases st.rank m h1 with h2 | h2
        · exact Or.inl h2
        · exact Or.inr ⟨p, by simp, h2⟩
      · exact Or.inr ⟨sup, by simp [hs], hr⟩

theorem step_main {s : Schema} {rank : String → Nat} (wf : WF s rank) (f : Nat) :
    ∀ n vis, rank n < f → (s.findE n).isSome → Closed s vis →
      Step s rank n vis (inheritOrder s f n vis) (flat s vis) (ctorArgs s f n (flat s vis)) := by
  induction f with
  | zero => intro n vis h; omega
  | succ f ih =>
    intro n vis hr hex hc
    obtain ⟨e, hE⟩ := Option.isSome_iff_exists.mp hex
    have hsup : ∀ sup ∈ e.supers, (s.findE sup).isSome ∧ rank sup < f := by
      intro sup hs
      have := wf.supers n e hE sup hs
      exact ⟨this.1, by omega⟩
    have fold := step_fold f ih e.supers vis hsup hc
    obtain ⟨f1, f2, f3, f4, f5, f6, f7⟩ := fold
    by_cases hv : n ∈ vis
    · -- already placed: every push is rejected
      have hvis : inheritOrder s (f + 1) n vis = vis := by
        rw [inheritOrder_succ]; simp [hv]
      obtain ⟨e', hE', hsups⟩ := hc n hv
      have he : e' = e := by rw [hE] at hE'; exact (Option.some.inj hE').symm
      rw [he] at hsups
      -- the supertype traversals add nothing
      have hfold : ∀ (L : List String) (v : List String), (∀ sup ∈ L, sup ∈ v) →
          L.foldl (fun v sup => inheritOrder s f sup v) v = v := by
        intro L
        induction L with
        | nil => intro v _; rfl
        | cons p ps ihp =>
          intro v hv'
          simp only [List.foldl_cons]
          have : inheritOrder s f p v = v := by
            cases f with
            | zero => rfl
            | succ f' => rw [inheritOrder_succ]; simp [hv' p (by simp)]
          rw [this]
          exact ihp v (fun sup hs => hv' sup (by simp [hs]))
      have hf := hfold e.supers vis hsups
      rw [hf] at f1
      rw [hvis]
      refine ⟨?_, hc, fun m hm => hm, hv, fun m hm => Or.inl hm, fun h => h, fun h => h⟩
      rw [ctorArgs_succ]
      simp only [hE]
      rw [f1]
      exact insAll_of_subset _ _ (own_subset_flat hE hv)
    · -- first visit: supertypes, then all own attributes are appended
      have hvis : inheritOrder s (f + 1) n vis =
          (e.supers.foldl (fun v sup => inheritOrder s f sup v) vis) ++ [n] := by
        rw [inheritOrder_succ]; simp [hv, hE]
      rw [hvis]
      generalize hvis' : e.supers.foldl (fun v sup => inheritOrder s f sup v) vis = vis' at f1 f2 f3 f4 f5 f6 f7 ⊢
      have hn' : n ∉ vis' := by
        intro hm
        rcases f5 n hm with h1 | ⟨sup, hs, hr⟩
        · exact hv h1
        · have := (wf.supers n e hE sup hs).2; omega
      refine ⟨?_, ?_, ?_, by simp, ?_, ?_, ?_⟩
      · rw [ctorArgs_succ]
        simp only [hE]
        rw [f1, flat_append]
        have : flat s [n] = ownSAs e := by simp [flat, ownOf, hE]
        rw [this]
        apply insAll_of_disjoint
        · intro x hx hx'
          have ho := mem_flat_owner hx'
          have : x.owner = n := by
            simp only [ownSAs, List.mem_map] at hx
            obtain ⟨a, _, rfl⟩ := hx
            exact findE_name hE
          rw [this] at ho
          exact hn' ho
        · exact wf.nodup n e hE
      · intro m hm
        rcases List.mem_append.mp hm with hm | hm
        · obtain ⟨e', hE', hs'⟩ := f2 m hm
          exact ⟨e', hE', fun sup hs => List.mem_append.mpr (Or.inl (hs' sup hs))⟩
        · have : m = n := by simpa using hm
          subst this
          exact ⟨e, hE, fun sup hs => List.mem_append.mpr (Or.inl (f4 sup hs))⟩
      · intro m hm; exact List.mem_append.mpr (Or.inl (f3 m hm))
      · intro m hm
        rcases List.mem_append.mp hm with hm | hm
        · rcases f5 m hm with h1 | ⟨sup, hs, hr⟩
          · exact Or.inl h1
          · have := (wf.supers n e hE sup hs).2
            exact Or.inr (by omega)
        · have : m = n := by simpa using hm
          subst this; exact Or.inr (Nat.le_refl _)
      · intro hnd
        rw [List.nodup_append]
        exact ⟨f6 hnd, by simp, by intro a ha b hb; simp at hb; subst hb; intro e; subst e; exact hn' ha⟩
      · intro hpw
        rw [List.pairwise_append]
        refine ⟨f7 hpw, by simp, ?_⟩
        intro a ha b hb
        have : b = n := by simpa using hb
        subst this
        intro ea hea hmem
        obtain ⟨e', hE', hs'⟩ := f2 a ha
        rw [hea] at hE'
        have : ea = e' := Option.some.inj hE'
        subst this
        exact hn' (hs' b hmem)

theorem closed_nil (s : Schema) : Closed s [] := by intro m hm; simp at hm

/-- the list built by the generated constructors is the concatenation, in Part 21 entity order, of the
    attributes each contributing entity's constructor creates -/
theorem ctorNoArg_flat {s : Schema} {rank : String → Nat} (wf : WF s rank) (n : String) (e : Entity)
    (hE : s.findE n = some e) :
    ctorNoArg s (fuelOf s) n = flat s (inheritOrder s (fuelOf s) n []) := by
  rw [ctorNoArg_eq]
  have := step_main wf (fuelOf s) n [] (wf.bound n e hE) (by simp [hE]) (closed_nil s)
  have h := this.flat
  simpa [flat] using h

/-! ## dropping the redeclared (`AttrType_Redefining`) entries leaves the Part 21 value positions -/

def p21Key (a : SA) : String × String := (a.owner, a.name)

theorem own_filter (e : Entity) :
    ((ownSAs e).filter (fun a => a.kind != .R)).map p21Key = explicitOwn e := by
  unfold ownSAs explicitOwn
  induction e.attrs with
  | nil => rfl
  | cons a as ih =>
    by_cases hk : a.kind = .explicit
    · cases hr : a.redecl with
      | none =>
        simp [hk, hr, attrDKind, dictAttrName, p21Key] at ih ⊢
        exact ih
      | some sup =>
        simp [hk, hr, attrDKind] at ih ⊢
        exact ih
    · simp [hk] at ih ⊢
      exact ih

theorem flat_filter (s : Schema) (vis : List String) :
    ((flat s vis).filter (fun a => a.kind != .R)).map p21Key = vis.flatMap (ownOf s explicitOwn) := by
  induction vis with
  | nil => rfl
  | cons m ms ih =>
    have : flat s (m :: ms) = ownOf s ownSAs m ++ flat s ms := by simp [flat]
    rw [this, List.filter_append, List.map_append, ih, List.flatMap_cons]
    congr 1
    unfold ownOf
    cases hE : s.findE m with
    | none => rfl
    | some e => exact own_filter e

end StepModel.GenCxx

namespace StepModel.GenCxx
open Spec

/-! ## emission order (`SCOPE_dfs`) -/

theorem dfs_eq (s : Schema) (f : Nat) (n : String) (acc : List String) :
    dfs s f n acc = inheritOrder s f n acc := by
  induction f generalizing n acc with
  | zero => rfl
  | succ f ih =>
    have hd : dfs s (f + 1) n acc =
        if acc.contains n then acc else
        match s.findE n with
        | none => acc
        | some e => (e.supers.foldl (fun a sup => dfs s f sup a) acc) ++ [n] := rfl
    rw [hd, inheritOrder_succ]
    have : (fun a sup => dfs s f sup a) = (fun v sup => inheritOrder s f sup v) := by
      funext a sup; exact ih sup a
    simp only [this]

theorem emissionOrder_eq (s : Schema) (roots : List String) :
    emissionOrder s roots = roots.foldl (fun v n => inheritOrder s (fuelOf s) n v) [] := by
  unfold emissionOrder fuelOf
  have : (fun acc n => dfs s (s.entities.length + 1) n acc) =
      (fun v n => inheritOrder s (s.entities.length + 1) n v) := by
    funext a n; exact dfs_eq s _ n a
  rw [this]

/-- facts about the emission order for any symbol-table iteration order `roots` of declared entities -/
theorem emissionOrder_facts {s : Schema} {rank : String → Nat} (wf : WF s rank) (roots : List String)
    (hr : ∀ n ∈ roots, (s.findE n).isSome) :
    let ord := emissionOrder s roots
    Closed s ord ∧ (∀ n ∈ roots, n ∈ ord) ∧ ord.Nodup ∧ ord.Pairwise (NotSuperOf s) := by
  have hL : ∀ n ∈ roots, (s.findE n).isSome ∧ rank n < fuelOf s := by
    intro n hn
    have h := hr n hn
    obtain ⟨e, hE⟩ := Option.isSome_iff_exists.mp h
    exact ⟨h, wf.bound n e hE⟩
  have := step_fold (fuelOf s) (step_main wf (fuelOf s)) roots [] hL (closed_nil s)
  obtain ⟨_, f2, _, f4, _, f6, f7⟩ := this
  simp only
  rw [emissionOrder_eq]
  exact ⟨f2, f4, f6 List.nodup_nil, f7 List.Pairwise.nil⟩

theorem findE_mem {s : Schema} {n : String} {e : Entity} (h : s.findE n = some e) : e ∈ s.entities := by
  unfold Schema.findE at h
  exact List.mem_of_find?_eq_some h

/-- with distinct entity names, looking an entity up by its own name finds it -/
theorem findE_self {s : Schema} (hn : (s.entities.map (·.name)).Nodup) {e : Entity} (he : e ∈ s.entities) :
    s.findE e.name = some e := by
  unfold Schema.findE
  generalize s.entities = l at hn he
  induction l with
  | nil => simp at he
  | cons x xs ih =>
    simp only [List.map_cons, List.nodup_cons] at hn
    rcases List.mem_cons.mp he with rfl | hx
    · simp
    · have hne : x.name ≠ e.name := by
        intro h; exact hn.1 (by rw [h]; exact List.mem_map_of_mem hx)
      simp [hne, ih hn.2 hx]

end StepModel.GenCxx

import StepModel.GenPyOrder
import StepModel.GenPyEntityOrder
/-!
# Order of the definitions in a Python module written by exp2python (`SCOPEPrint`, src/exp2python/src/classes_wrapper_python.cc)

For a schema printed in one pass, `SCOPEPrint` writes, each loop walking the schema's dictionary (`types`: the defined types in
that order):
1. the defined types that are neither enumeration nor select nor aggregate — `class t(REAL)`, `class t(original)`, `t = bool` —
   a rename only once its original is written, rescanning while that makes progress (`GenPy.Order.scan`/`scans`, the repetition
   regenerated as `typeRescan`);
2. what is left of those, and the enumerations that are not renames;
3. the renamed enumerations (`b = a`);
4. the selects — in dictionary order: `TYPEselect_print` is not used by the Python generator, there is no "referenced selects
   first" here;
5. the entity classes in `SCOPEget_entities_superclass_order` (`GenPy.EntityOrder.order`);
6. the functions (`def f(`) and then the rules (`r = Rule()`), each in dictionary order;
7. the aggregate types.
The result is the sequence of the names defined at module level.
-/
namespace StepModel.PyModule
open StepModel.GenPy

inductive K | simple | enum | select | aggregate
  deriving DecidableEq, Repr

structure T where
  name : String
  kind : K
  head : Option String      -- TYPEget_head: the defined type it renames and has to wait for; `none` also when that type belongs
                            -- to another schema that was printed before this one (its mark is PROCESSED already)
  deriving Repr

/-- the simple defined types written by the first loop (newest first) -/
def firstLoop (types : List T) : List Order.DT :=
  let simples := (types.filter (·.kind == .simple)).map fun t => ({ name := t.name, head := t.head } : Order.DT)
  if Generated.typeRescan then Order.scans simples simples.length [] else Order.scan [] simples

def typesBeforeEntities (types : List T) : List String :=
  let done := firstLoop types
  done.reverse.map (·.name)
    ++ (types.filter fun t => (t.kind == .simple && !Order.written done t.name) || (t.kind == .enum && t.head.isNone)).map (·.name)
    ++ (types.filter fun t => t.kind == .enum && t.head.isSome).map (·.name)
    ++ (types.filter (·.kind == .select)).map (·.name)

def typesAfterEntities (types : List T) : List String := (types.filter (·.kind == .aggregate)).map (·.name)

/-- the names defined at module level, in order; `none`: the entity walk ran out of depth -/
def order (types : List T) (es : List Entity) (entityRoots : List String) (fuel : Nat) (funcs rules : List String := []) :
    Option (List String) :=
  (EntityOrder.order es fuel entityRoots).map fun ents =>
    typesBeforeEntities types ++ ents ++ funcs ++ rules ++ typesAfterEntities types

end StepModel.PyModule
